"""The per-property check (DESIGN.md §2.3): proofs, build of the working tree, correspondence,
property oracle, shrinking, known findings, evidence."""
import concurrent.futures as cf
import hashlib
import importlib
import json
import os
import random
import re
import subprocess
import sys
import time

from . import build, model, runner

VERIF = build.VERIF
COQ = os.path.join(VERIF, "coq")
FORBIDDEN = re.compile(r"\b(Admitted|admit|Axiom|Parameter|Conjecture|Admit Obligations)\b|Unset Guard|bypass_check|-type-in-type|impredicative-set")


def load_props():
    sys.path.insert(0, VERIF)
    from gen import props
    return props.PROPS


def family_module(name):
    sys.path.insert(0, VERIF)
    return importlib.import_module("gen." + name)


# --------------------------------------------------------------------------- proofs
def strip_comments(txt):
    out, depth, i = [], 0, 0
    while i < len(txt):
        if txt.startswith("(*", i):
            depth += 1
            i += 2
        elif txt.startswith("*)", i) and depth:
            depth -= 1
            i += 2
        else:
            if depth == 0:
                out.append(txt[i])
            i += 1
    return "".join(out)


def coq_files():
    txt = open(os.path.join(COQ, "_CoqProject")).read().split()
    return [t for t in txt if t.endswith(".v")]


def proof_step(prop_id, cfg):
    """Full build of the development, then re-check Props/<id>.v and read Print Assumptions."""
    t0 = time.time()
    res = {"obligations": 0, "discharged": 0, "theorems": [], "assumptions": {}, "ok": False, "log": ""}
    # textual audit: no axioms, no admits, no disabled checks anywhere in the development
    bad = []
    model.generate()
    for f in coq_files() + ["ExtractAll.v"]:
        p = os.path.join(COQ, f)
        if not os.path.exists(p):
            bad.append("%s: listed in _CoqProject but missing" % f)
            continue
        stack = []
        for ln, s in enumerate(strip_comments(open(p).read()).splitlines(), 1):
            m = re.match(r"\s*(Section|Module(?:\s+Type)?)\s+(\w+)", s)
            if m and ":=" not in s:
                stack.append(m.group(1).split()[0])
            elif re.match(r"\s*End\s+\w+\s*\.", s) and stack:
                stack.pop()
            in_section = "Section" in stack
            if FORBIDDEN.search(s) or (re.match(r"\s*(Variables?|Hypothes[ie]s|Context)\b", s) and not in_section):
                bad.append("%s:%d: %s" % (f, ln, s.strip()))
    if bad:
        res["log"] = "forbidden constructs:\n" + "\n".join(bad)
        return res
    pfiles = [cfg["coq"]] + list(cfg.get("coq_extra", []))
    src = ""
    for pf in pfiles:
        pv = os.path.join(COQ, pf)
        src += (strip_comments(open(pv).read()) if os.path.exists(pv) else "") + "\n"
    thms = re.findall(r"^\s*(?:Theorem|Corollary)\s+(\w+)", src, re.M)
    res["theorems"] = thms
    res["obligations"] = len(thms)
    # build exactly what this property's theorems depend on (a full .vo build of those files, never -vos)
    ok, log = model.make_coq(target=" ".join(pf[:-2] + ".vo" for pf in pfiles))
    if not ok:
        res["log"] = log[-3000:]
        m = re.search(r'File "\./([^"]+)", line (\d+)', log)
        res["broken_at"] = m.group(0) if m else "make failed"
        return res
    # re-run the property file alone to capture Print Assumptions
    out = ""
    for pf in pfiles:
        rc, o1 = model.sh("timeout 900 coqc -R . HGV %s" % pf, cwd=COQ)
        out += o1
        if rc != 0:
            res["log"] = o1[-3000:]
            res["broken_at"] = pf
            return res
    blocks = re.split(r"\n(?=Closed under the global context|Axioms:)", "\n" + out)
    ass = [b.strip() for b in blocks if b.strip().startswith(("Closed under", "Axioms:"))]
    npa = len(re.findall(r"Print Assumptions\s+(\w+)", src))
    res["assumptions"] = {"print_assumptions_calls": npa,
                          "closed": sum(1 for a in ass if a.startswith("Closed")),
                          "with_axioms": [a[:600] for a in ass if a.startswith("Axioms:")]}
    res["discharged"] = len(thms)
    res["ok"] = len(thms) > 0 and npa >= len(thms)
    if not res["ok"]:
        res["log"] = "Props file must contain >=1 Theorem, each followed by Print Assumptions"
    res["wall_s"] = time.time() - t0
    return res


# --------------------------------------------------------------------------- correspondence
def canon(case):
    return "\n".join(" ".join(map(str, l)) for l in case)


def run_pair(fam, drv, cases, jobs=8):
    """Run cases through implementation and model; returns (impl_outs, model_outs)."""
    if getattr(fam, "PIPE", False):
        # acceptor shape: the model reads the case followed by a line [-1] and the implementation's output
        impl = runner.run_batch([drv] + getattr(fam, "DRIVER_ARGS", []), cases, 10.0, fam.NAME + "-impl")
        piped = [c + [[-1]] + (o if isinstance(o, list) else [[-2]]) for c, o in zip(cases, impl)]
        mod = runner.run_batch([model.runner_path(fam.MODEL_FAMILY), fam.MODEL_FAMILY], piped, 10.0, fam.NAME + "-model")
        return impl, mod
    chunks = [cases[i::jobs] for i in range(jobs)] if len(cases) >= 64 else [cases]
    chunks = [c for c in chunks if c]
    with cf.ThreadPoolExecutor(max_workers=2 * len(chunks)) as ex:
        fi = [ex.submit(runner.run_batch, [drv] + getattr(fam, "DRIVER_ARGS", []), c, 10.0, fam.NAME + "-impl") for c in chunks]
        fm = [ex.submit(runner.run_batch, [model.runner_path(fam.MODEL_FAMILY), fam.MODEL_FAMILY], c, 10.0, fam.NAME + "-model") for c in chunks]
        ri = [f.result() for f in fi]
        rm = [f.result() for f in fm]
    if len(chunks) == 1:
        return ri[0], rm[0]
    impl, mod = [None] * len(cases), [None] * len(cases)
    for j in range(len(chunks)):
        for k, v in enumerate(ri[j]):
            impl[j + k * len(chunks)] = v
        for k, v in enumerate(rm[j]):
            mod[j + k * len(chunks)] = v
    return impl, mod


def agree(fam, case, io, mo):
    if hasattr(fam, "agree"):
        return fam.agree(case, io, mo)
    return isinstance(io, list) and isinstance(mo, list) and io == mo


def shrink_case(fam, drv, case, pred, budget=400):
    """Greedy delta debugging: keep any smaller variant on which pred(case, impl_out, model_out) still holds."""
    cur = case
    steps = 0
    improved = True
    while improved and steps < budget:
        improved = False
        cands = list(fam.shrink(cur)) if hasattr(fam, "shrink") else []
        for i in range(0, len(cands), 32):
            part = cands[i:i + 32]
            io, mo = run_pair(fam, drv, part, jobs=1)
            steps += len(part)
            for c, a, b in zip(part, io, mo):
                if pred(c, a, b):
                    cur = c
                    improved = True
                    break
            if improved or steps >= budget:
                break
    return cur


def load_known():
    p = os.path.join(VERIF, "known_findings.json")
    if not os.path.exists(p):
        return []
    return json.load(open(p)).get("findings", [])


def write_replay(prop_id, name, payload):
    d = os.environ.get("HGV_REPLAY_DIR") or os.path.join(VERIF, "replays")
    os.makedirs(d, exist_ok=True)
    p = os.path.join(d, "%s-%s.json" % (prop_id, name))
    json.dump(payload, open(p, "w"), indent=1)
    return p


def check(prop_id, tier, seed):
    t0 = time.time()
    props = load_props()
    cfg = props[prop_id]
    violations = []          # (replay_path, suffix)
    known_hits = {}
    evidence_cov = {"families": {}}
    known = [k for k in load_known() if k["property"] == prop_id and not k.get("fixed")]

    # 1. proofs
    pr = proof_step(prop_id, cfg)
    proof_ok = pr["ok"]

    # 2. build the working tree + drivers, and the model runner
    fams = [family_module(f) for f in cfg["families"]]
    ok_model, mlog = True, ""
    for fam in fams:
        okf, lg = model.build_runner_for(fam.MODEL_FAMILY)
        if not okf:
            ok_model, mlog = False, lg
    drivers = {}
    build_info = {}
    build_fail = None
    for fam in fams:
        drv, info = build.build_driver(fam.NAME, fam.DRIVER_SRCS)
        build_info[fam.NAME] = {k: v for k, v in info.items() if k in ("tus", "compiled", "wall_s", "unbuildable")}
        if drv is None:
            build_fail = (fam.NAME, info["errors"])
        drivers[fam.NAME] = drv

    total_eval = 0
    total_nontrivial = set()
    traces_validated = 0
    samples = []
    disagreements = 0
    if build_fail:
        p = write_replay(prop_id, "build", {"property": prop_id, "reason": "the working tree (or the driver against it) no longer compiles; "
                                            "nothing can be shown about it", "family": build_fail[0], "errors": build_fail[1]})
        violations.append((p, " no-failing-input-found"))
    elif not ok_model:
        p = write_replay(prop_id, "model", {"property": prop_id, "reason": "model runner does not build", "log": mlog[-3000:]})
        violations.append((p, " no-failing-input-found"))
    else:
        for fam in fams:
            drv = drivers[fam.NAME]
            rng = random.Random((seed * 1000003) ^ int(hashlib.md5((prop_id + fam.NAME).encode()).hexdigest()[:8], 16))
            n = cfg.get("budget", {}).get(fam.NAME, {}).get(tier) or getattr(fam, "BUDGET", {"quick": 300, "thorough": 5000})[tier]
            cases = []
            cdir = os.path.join(VERIF, "corpus", fam.NAME)
            if os.path.isdir(cdir):
                for f in sorted(os.listdir(cdir)):
                    if f.endswith(".case"):
                        cases.append([[int(x) for x in s.split()] for s in open(os.path.join(cdir, f)) if s.strip() and not s.startswith("#")])
            ncorpus = len(cases)
            if hasattr(fam, "enumerate_cases") and tier == "thorough":
                cases += list(fam.enumerate_cases(prop_id))
            nenum = len(cases) - ncorpus
            cases += [fam.gen(rng, tier, prop_id) for _ in range(n)]
            io, mo = run_pair(fam, drv, cases, jobs=12)
            dist = {}
            fam_fail_oracle = []
            fam_mismatch = []
            kinds_for_prop = getattr(fam, "PROP_KINDS", {}).get(prop_id)
            for ci, (c, a, b) in enumerate(zip(cases, io, mo)):
                total_eval += 1
                if fam.nontrivial(c, a):
                    total_nontrivial.add(hashlib.md5(canon(c).encode()).hexdigest())
                for k, v in fam.stats(c, a).items():
                    dist[k] = dist.get(k, 0) + v
                if not agree(fam, c, a, b):
                    fam_mismatch.append(ci)
                else:
                    traces_validated += 1
                fl = fam.oracle(prop_id, c, a)
                if kinds_for_prop is not None:
                    fl = [f for f in fl if f[0] in kinds_for_prop or f[0] == "crash"]
                if fl:
                    fam_fail_oracle.append((ci, fl))
                if len(samples) < 3 and fam.nontrivial(c, a):
                    samples.append({"family": fam.NAME, "case": canon(c).split("\n")[:12], "impl_lines": len(a) if isinstance(a, list) else 0})
            evidence_cov["families"][fam.NAME] = {"cases": len(cases), "corpus": ncorpus, "enumerated": nenum, "generated": n,
                                                  "mismatches": len(fam_mismatch), "oracle_failures": len(fam_fail_oracle),
                                                  "distribution_totals": dist, "build": build_info.get(fam.NAME)}
            # ---- oracle failures: genuine violations of the property on the implementation (unless known)
            reported = set()
            for ci, fl in fam_fail_oracle:
                for kind, detail in fl:
                    kf = next((k for k in known if k.get("family") == fam.NAME and k.get("kind") == kind), None)
                    if kf:
                        known_hits.setdefault(kf["id"], (kf, detail))
                        continue
                    if kind in reported:
                        continue
                    reported.add(kind)
                    # shrink keeping the same failure kind
                    def pred(c2, a2, b2, kind=kind):
                        return any(f[0] == kind for f in fam.oracle(prop_id, c2, a2))
                    small = shrink_case(fam, drv, cases[ci], pred)
                    a2, b2 = run_pair(fam, drv, [small], jobs=1)
                    refails = fam.oracle(prop_id, small, a2[0])
                    p = write_replay(prop_id, "%s-%s" % (fam.NAME, kind),
                                     {"property": prop_id, "family": fam.NAME, "kind": kind, "detail": detail,
                                      "reason": "the property oracle fails on the implementation's own trace",
                                      "case": small, "impl_out": a2[0], "model_out": b2[0],
                                      "failures": refails,
                                      # the case as generated and what the implementation printed for it in the batch: when
                                      # the behaviour is timing dependent the shrunk case may not fail again on a re-run
                                      "reproduced_on_rerun": any(f[0] == kind for f in refails),
                                      "original_case": cases[ci], "original_impl_out": io[ci], "original_model_out": mo[ci]})
                    violations.append((p, ""))
            # ---- correspondence failures
            if fam_mismatch:
                disagreements += len(fam_mismatch)
                ci = fam_mismatch[0]

                def pred_m(c2, a2, b2):
                    return not agree(fam, c2, a2, b2)
                small = shrink_case(fam, drv, cases[ci], pred_m)
                a2, b2 = run_pair(fam, drv, [small], jobs=1)
                fl = fam.oracle(prop_id, small, a2[0])
                if kinds_for_prop is not None:
                    fl = [f for f in fl if f[0] in kinds_for_prop or f[0] == "crash"]
                fl = [f for f in fl if not any(k.get("kind") == f[0] for k in known)]
                already = bool(reported)
                p = write_replay(prop_id, "%s-correspondence" % fam.NAME,
                                 {"property": prop_id, "family": fam.NAME,
                                  "reason": "correspondence broken: implementation and proved model disagree on this case "
                                            "(%d of %d cases disagree)" % (len(fam_mismatch), len(cases)),
                                  "no_longer_checks": "correspondence %s <-> coq model %s (theorems %s)" % (fam.NAME, fam.MODEL_FAMILY, pr["theorems"]),
                                  "case": small, "impl_out": a2[0], "model_out": b2[0], "oracle_failures": fl,
                                  "reproduced_on_rerun": not agree(fam, small, a2[0], b2[0]),
                                  "original_case": cases[ci], "original_impl_out": io[ci], "original_model_out": mo[ci]})
                if fl:
                    violations.append((p, ""))
                elif not already:
                    violations.append((p, " no-failing-input-found"))
    if not proof_ok:
        p = write_replay(prop_id, "proof", {"property": prop_id, "reason": "a proof obligation of %s no longer checks" % cfg["coq"],
                                            "no_longer_checks": pr.get("broken_at", cfg["coq"]), "theorems": pr["theorems"], "log": pr["log"]})
        if not any(s == "" for _, s in violations):
            violations.append((p, " no-failing-input-found"))

    for kid, (kf, detail) in sorted(known_hits.items()):
        print("KNOWN-FINDING: property=%s %s [%s] e.g. %s" % (prop_id, kf["what"], kid, detail[:160]))
    for p, suffix in violations:
        print("VIOLATION property=%s replay=%s%s" % (prop_id, p, suffix))

    wall = time.time() - t0
    ev = {
        "property_id": prop_id, "tier": tier, "seed": seed, "level": "proof",
        "coverage": {
            "obligations": pr["obligations"], "discharged": pr["discharged"] if proof_ok else 0,
            "checker_cmd": "cd /verif/coq && coq_makefile -f _CoqProject -o Makefile && make && coqc -R . HGV %s" % cfg["coq"],
            "trusted_base": cfg.get("trusted_base", []) + [
                "Coq 8.16.1 kernel (coqc; vm_compute only in examples/witnesses; no native_compute)",
                "Print Assumptions per theorem: %s" % json.dumps(pr["assumptions"]),
                "extraction: ExtrOcamlBasic only (Extract Inductive bool/option/unit/list/prod/sumbool; no Extract Constant), OCaml 4.13.1, ml/main.ml glue",
                "correspondence: generators gen/*.py, C++ drivers cxx/*_driver.cpp linked against /repo's working tree built by hgvlib/build.py (g++ 12.2 -O0; 4 TUs unbuildable here)",
            ],
            "theorems": pr["theorems"],
            "evaluations": total_eval, "distinct_nontrivial": len(total_nontrivial),
            "rule": cfg.get("rule", "cases drawn by the family generators from one PRNG seeded by VERIF_SEED; non-trivial per family rule; distinct by canonical case text"),
            "traces_validated_against_impl": traces_validated, "disagreements": disagreements,
            "samples": samples or [{"note": "no correspondence case ran"}],
            "families": evidence_cov["families"],
            "known_findings_hit": sorted(known_hits),
        },
        "assumptions": cfg.get("assumptions", []),
        "wall_s": wall, "violations": len(violations),
    }
    build.drop_scratch_bins()
    evdir = os.environ.get("HGV_EVIDENCE_DIR") or os.path.join(VERIF, "evidence")
    os.makedirs(evdir, exist_ok=True)
    json.dump(ev, open(os.path.join(evdir, prop_id + ".json"), "w"), indent=1)
    return 1 if violations else 0
