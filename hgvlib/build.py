"""Content-addressed build of /repo's C++ working tree (no cmake; see DESIGN.md §3.1).

Every translation unit under /repo/src (except python/) and every driver TU under
/verif/cxx is compiled to .cache/obj/<key>.o where key = sha256(flags, text of the
TU, text of every file in its depfile).  Depfiles come from -MMD on the previous
compile.  Nothing is ever read from a copy of the tree: the inputs are the files
under /repo as they are now.
"""
import concurrent.futures as cf
import fcntl
import hashlib
import json
import os
import subprocess
import sys
import time

VERIF = os.path.dirname(os.path.dirname(os.path.abspath(__file__)))
REPO = os.environ.get("HGV_REPO", "/repo")
CACHE = os.path.join(VERIF, ".cache")
# The object cache is shared by every worktree of /verif on this machine (content-addressed, safe).
_SHARED = "/verif/.cache/obj"
OBJ = os.environ.get("HGV_OBJ_CACHE") or (_SHARED if os.path.isdir(_SHARED) else os.path.join(CACHE, "obj"))
# Machine-wide cap on concurrent C++ compiles (each cc1plus needs 1-4 GB): slots are lock files.
SLOT_DIR = "/var/tmp/hgv-slots"
NSLOTS = int(os.environ.get("HGV_COMPILE_SLOTS", "14"))
GEN = os.path.join(os.path.dirname(OBJ), "gen")
SITE = "/venv/lib/python3.12/site-packages"
CXX = "g++"

# TUs that cannot be compiled in this sandbox (libstdc++ 12 lacks chrono tzdb /
# from_stream; simdjson too old).  None is anchored by a property.
UNBUILDABLE = {
    "src/hgraph/types/value/json_codec.cpp",
    "src/hgraph/types/time_zone_provider.cpp",
    "src/hgraph/types/temporal.cpp",
    "src/hgraph/lib/std/operators/json_impl.cpp",
}

_hash_memo = {}


def file_hash(path):
    try:
        st = os.stat(path)
    except FileNotFoundError:
        return "missing"
    k = (path, st.st_mtime_ns, st.st_size)
    h = _hash_memo.get(k)
    if h is None:
        with open(path, "rb") as f:
            h = hashlib.sha256(f.read()).hexdigest()
        _hash_memo[k] = h
    return h


def gen_dir():
    os.makedirs(os.path.join(GEN, "hgraph"), exist_ok=True)
    os.makedirs(OBJ, exist_ok=True)
    src = os.path.join(REPO, "include/hgraph/version.h.in")
    txt = open(src).read()
    for k, v in {
        "@PROJECT_VERSION_MAJOR@": "0", "@PROJECT_VERSION_MINOR@": "8",
        "@PROJECT_VERSION_PATCH@": "0", "@PROJECT_VERSION@": "0.8.0-verif",
        "@HGRAPH_GIT_BRANCH@": "verif", "@HGRAPH_GIT_COMMIT_HASH@": "0",
        "@HGRAPH_GIT_COMMIT_DATE@": "0",
    }.items():
        txt = txt.replace(k, v)
    dst = os.path.join(GEN, "hgraph/version.h")
    if not os.path.exists(dst) or open(dst).read() != txt:
        open(dst, "w").write(txt)
    for name, target in (("fmt", SITE + "/include/fmt"), ("spdlog", SITE + "/include/spdlog"),
                         ("simdjson.h", "/root/miniconda/include/simdjson.h")):
        link = os.path.join(GEN, name)
        if not os.path.lexists(link):
            os.symlink(target, link)


def flags(extra=()):
    return [
        "-std=c++23", "-O0", "-w", "-g0", "-fno-var-tracking",
        "-I", GEN, "-I", REPO + "/include", "-I", REPO + "/include/third_party",
        "-I", REPO + "/src", "-I", SITE + "/pyarrow/include",
        "-DFMT_HEADER_ONLY", "-DSPDLOG_HEADER_ONLY", "-DSPDLOG_FMT_EXTERNAL",
        "-DHGRAPH_STATIC_DEFINE", "-DHGRAPH_TIME_ZONE_BACKEND_STD=1",
    ] + list(extra)


def repo_tus():
    out = []
    root = os.path.join(REPO, "src")
    for d, _, fs in os.walk(root):
        if "/python" in d[len(root):]:
            continue
        for f in fs:
            if f.endswith(".cpp"):
                rel = os.path.relpath(os.path.join(d, f), REPO)
                if rel not in UNBUILDABLE:
                    out.append(rel)
    return sorted(out)


# Binaries and archives of a scratch copy of the tree (HGV_REPO=...) live in their own directory
# and under their own lock, so mutation runs neither block nor disturb checks of /repo itself.
REPO_TAG = "main" if REPO == "/repo" else hashlib.md5(REPO.encode()).hexdigest()[:10]


def bin_dir():
    return os.path.join(CACHE, "bin") if REPO_TAG == "main" else os.path.join(CACHE, "bin-scratch", REPO_TAG)


def drop_scratch_bins():
    if REPO_TAG != "main":
        import shutil
        shutil.rmtree(bin_dir(), ignore_errors=True)


class CompileSlot:
    """One of NSLOTS machine-wide compile slots (flock on a slot file; blocks until one is free)."""

    def __enter__(self):
        os.makedirs(SLOT_DIR, exist_ok=True)
        import random as _r
        while True:
            order = list(range(NSLOTS))
            _r.shuffle(order)
            for k in order:
                f = open(os.path.join(SLOT_DIR, "slot-%d" % k), "w")
                try:
                    fcntl.flock(f, fcntl.LOCK_EX | fcntl.LOCK_NB)
                    self.f = f
                    return self
                except OSError:
                    f.close()
            time.sleep(0.5 + _r.random())

    def __exit__(self, *a):
        fcntl.flock(self.f, fcntl.LOCK_UN)
        self.f.close()


class DepDB:
    def __init__(self):
        self.path = os.path.join(CACHE, "deps.json")
        try:
            self.db = json.load(open(self.path))
        except Exception:
            self.db = {}
        if not self.db and os.path.exists("/verif/.cache/deps.json") and self.path != "/verif/.cache/deps.json":
            try:
                self.db = json.load(open("/verif/.cache/deps.json"))
            except Exception:
                pass

    def save(self):
        tmp = self.path + ".tmp%d" % os.getpid()
        json.dump(self.db, open(tmp, "w"))
        os.replace(tmp, self.path)


def parse_depfile(path):
    txt = open(path).read().replace("\\\n", " ")
    _, _, rest = txt.partition(":")
    return sorted(set(p for p in rest.split() if p))


def _norm(p):
    """Paths enter the key relative to the tree root, so a scratch copy of the tree
    (HGV_REPO=...) shares objects with /repo for every file it has not changed."""
    return p.replace(REPO + "/", "$REPO/").replace(GEN, "$VERIF/.cache/gen").replace(VERIF + "/", "$VERIF/")


def _denorm(p):
    return p.replace("$REPO/", REPO + "/").replace("$VERIF/.cache/gen", GEN).replace("$VERIF/", VERIF + "/")


def key_for(src_abs, deps, fl):
    h = hashlib.sha256()
    h.update(_norm(" ".join(fl)).encode())
    h.update(_norm(src_abs).encode())
    h.update(file_hash(src_abs).encode())
    for d in deps:
        h.update(_norm(d).encode())
        h.update(file_hash(d).encode())
    return h.hexdigest()[:32]


def compile_one(src_abs, fl, deps_known):
    """Returns (obj_path or None, deps, log)."""
    if deps_known is not None:
        key = key_for(src_abs, deps_known, fl)
        obj = os.path.join(OBJ, key + ".o")
        if os.path.exists(obj):
            return obj, deps_known, ""
    tmp = os.path.join(OBJ, "tmp-%d-%s" % (os.getpid(), hashlib.md5(src_abs.encode()).hexdigest()))
    cmd = [CXX] + fl + ["-MMD", "-MF", tmp + ".d", "-c", src_abs, "-o", tmp + ".o"]
    with CompileSlot():
        # another process may have produced the object while we waited for a slot
        if deps_known is not None and os.path.exists(obj):
            return obj, deps_known, ""
        p = subprocess.run(cmd, capture_output=True, text=True)
    if p.returncode != 0:
        for e in (".d", ".o"):
            if os.path.exists(tmp + e):
                os.unlink(tmp + e)
        return None, deps_known, p.stderr[-4000:]
    deps = [d for d in parse_depfile(tmp + ".d") if d != src_abs and not d.startswith("/usr/")]
    os.unlink(tmp + ".d")
    key = key_for(src_abs, deps, fl)
    obj = os.path.join(OBJ, key + ".o")
    os.replace(tmp + ".o", obj)
    return obj, deps, ""


class Lock:
    def __init__(self, name="build.lock"):
        os.makedirs(CACHE, exist_ok=True)
        self.f = open(os.path.join(CACHE, name), "w")

    def __enter__(self):
        fcntl.flock(self.f, fcntl.LOCK_EX)
        return self

    def __exit__(self, *a):
        fcntl.flock(self.f, fcntl.LOCK_UN)


def build_objects(srcs, jobs=16, verbose=True):
    """srcs: list of absolute paths.  Returns ({src: obj}, {src: errlog}, n_compiled)."""
    gen_dir()
    db = DepDB()
    base = flags()
    drv = flags(["-I", VERIF + "/cxx"])

    def fl_for(s):
        return base if s.startswith(REPO + "/") else drv
    objs, errs = {}, {}
    compiled = 0
    t0 = time.time()
    todo = []
    for s in srcs:
        deps = db.db.get(_norm(s))
        if deps is not None:
            deps = [_denorm(d) for d in deps]
            key = key_for(s, deps, fl_for(s))
            obj = os.path.join(OBJ, key + ".o")
            if os.path.exists(obj):
                objs[s] = obj
                continue
        todo.append(s)
    if todo and verbose:
        print("[build] compiling %d of %d TUs" % (len(todo), len(srcs)), file=sys.stderr, flush=True)
    # slowest first
    todo.sort(key=lambda s: (0 if "operators" in s else 1, s))
    with cf.ThreadPoolExecutor(max_workers=jobs) as ex:
        futs = {ex.submit(compile_one, s, fl_for(s), None): s for s in todo}
        for fu in cf.as_completed(futs):
            s = futs[fu]
            obj, deps, log = fu.result()
            if obj is None:
                errs[s] = log
            else:
                objs[s] = obj
                db.db[_norm(s)] = [_norm(d) for d in deps]
                compiled += 1
    if todo:
        db.save()
        if verbose:
            print("[build] done in %.0fs (%d compiled, %d failed)" % (time.time() - t0, compiled, len(errs)),
                  file=sys.stderr, flush=True)
    return objs, errs, compiled


LINK_TAIL = ["-Wl,--unresolved-symbols=ignore-all", "-L", SITE + "/pyarrow",
             "-l:libarrow.so.2500", "-l:libarrow_compute.so.2500", "-l:libarrow_acero.so.2500", "-lpthread"]
RUN_ENV = dict(os.environ, LD_LIBRARY_PATH=SITE + "/pyarrow")


def build_driver(name, driver_srcs, jobs=16, verbose=True):
    """Build /repo objects + the given driver TUs (paths relative to /verif/cxx) and link
    .cache/bin/<name>.  Returns (binary path or None, info dict)."""
    with Lock("build-%s.lock" % REPO_TAG):
        t0 = time.time()
        tus = [os.path.join(REPO, r) for r in repo_tus()]
        drv = [os.path.join(VERIF, "cxx", d) for d in driver_srcs]
        objs, errs, ncomp = build_objects(tus + drv, jobs, verbose)
        info = {"tus": len(tus), "driver_tus": len(drv), "compiled": ncomp,
                "unbuildable": sorted(UNBUILDABLE), "errors": {os.path.relpath(k, "/"): v for k, v in errs.items()}}
        if errs:
            info["wall_s"] = time.time() - t0
            return None, info
        allobjs = [objs[s] for s in drv] + [objs[s] for s in tus]
        h = hashlib.sha256(" ".join(allobjs).encode()).hexdigest()[:24]
        bindir = bin_dir()
        os.makedirs(bindir, exist_ok=True)
        binp = os.path.join(bindir, "%s-%s" % (name, h))
        if not os.path.exists(binp):
            # archive of the repo objects keyed by their hash list so links are fast
            rh = hashlib.sha256(" ".join(objs[s] for s in tus).encode()).hexdigest()[:24]
            lib = os.path.join(bindir, "libhgraph-%s.a" % rh)
            if not os.path.exists(lib):
                for f in os.listdir(bindir):
                    if f.startswith("libhgraph-"):
                        os.unlink(os.path.join(bindir, f))
                subprocess.run(["ar", "rcs", lib + ".tmp"] + [objs[s] for s in tus], check=True)
                os.replace(lib + ".tmp", lib)
            for f in os.listdir(bindir):
                if f.startswith(name + "-"):
                    os.unlink(os.path.join(bindir, f))
            cmd = [CXX, "-no-pie", "-o", binp + ".tmp"] + [objs[s] for s in drv] + \
                  ["-Wl,--whole-archive", lib, "-Wl,--no-whole-archive"] + LINK_TAIL
            p = subprocess.run(cmd, capture_output=True, text=True)
            if p.returncode != 0:
                info["errors"] = {"link": p.stderr[-4000:]}
                info["wall_s"] = time.time() - t0
                return None, info
            os.replace(binp + ".tmp", binp)
            info["linked"] = True
        info["wall_s"] = time.time() - t0
        return binp, info


def gc_objects(keep_days=2):
    """Drop objects not touched recently (cache hygiene; disk is limited)."""
    now = time.time()
    for f in os.listdir(OBJ):
        p = os.path.join(OBJ, f)
        if now - os.stat(p).st_atime > keep_days * 86400:
            os.unlink(p)


if __name__ == "__main__":
    with Lock():
        tus = [os.path.join(REPO, r) for r in repo_tus()]
        objs, errs, n = build_objects(tus)
    for k, v in errs.items():
        print("ERROR", k, v[-1500:])
    print("objects", len(objs), "errors", len(errs), "compiled", n)
