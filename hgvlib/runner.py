"""Running batches of cases through the implementation driver and the model runner."""
import os
import subprocess
import tempfile

from . import build

SCRATCH = os.environ.get("HGV_SCRATCH", "/var/tmp")


def write_batch(cases, path):
    with open(path, "w") as f:
        for c in cases:
            for l in c:
                f.write(" ".join(str(int(x)) for x in l) + "\n")
            f.write("#\n")


def parse_batch(text):
    out, cur = [], []
    for s in text.splitlines():
        if s.startswith("#"):
            out.append(cur)
            cur = []
        elif s.strip():
            try:
                cur.append([int(x) for x in s.split()])
            except ValueError:
                cur.append([-999999])
    return out


def _run(cmd, timeout):
    try:
        p = subprocess.run(cmd, capture_output=True, text=True, timeout=timeout, env=build.RUN_ENV)
        return p.returncode, p.stdout, p.stderr
    except subprocess.TimeoutExpired as e:
        so = e.stdout.decode() if isinstance(e.stdout, bytes) else (e.stdout or "")
        return -999, so, "timeout"


def run_batch(cmd_prefix, cases, timeout_per_case=10.0, label="x"):
    """Run cases through `cmd_prefix + [batchfile]`.  Returns a list with, per case, either the list
    of output lines or a dict {'crash': rc, 'stderr': ...} when the process died on that case."""
    results = [None] * len(cases)
    todo = list(range(len(cases)))
    while todo:
        fd, path = tempfile.mkstemp(prefix="hgv-%s-" % label, suffix=".batch", dir=SCRATCH)
        os.close(fd)
        try:
            write_batch([cases[i] for i in todo], path)
            rc, so, se = _run(cmd_prefix + [path], max(20.0, timeout_per_case * len(todo)))
        finally:
            os.unlink(path)
        outs = parse_batch(so)
        complete = so.count("\n#") + (1 if so.startswith("#") else 0)
        ncomplete = min(len(outs), len(todo)) if rc == 0 else min(complete, len(todo))
        for k in range(ncomplete):
            results[todo[k]] = outs[k]
        if rc == 0 and ncomplete == len(todo):
            break
        if ncomplete < len(todo):
            # the case after the last complete one killed the process (or it timed out)
            bad = todo[ncomplete]
            results[bad] = {"crash": rc, "stderr": se[-2000:]}
            todo = todo[ncomplete + 1:]
        else:
            break
    return results
