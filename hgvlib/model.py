"""Build the Rocq development and the extracted OCaml model runner (DESIGN.md §3.3)."""
import os
import shutil
import subprocess
import sys

VERIF = os.path.dirname(os.path.dirname(os.path.abspath(__file__)))
COQ = os.path.join(VERIF, "coq")
MLGEN = os.path.join(VERIF, ".cache", "mlgen")
RUNNER = os.path.join(VERIF, ".cache", "bin", "hgv_model")


def sh(cmd, cwd=None, timeout=3600):
    p = subprocess.run(cmd, cwd=cwd, shell=isinstance(cmd, str), capture_output=True, text=True, timeout=timeout)
    return p.returncode, p.stdout + p.stderr


def make_coq(jobs=16, target=None):
    """Full .vo build of the development (never -vos).  Returns (ok, log)."""
    rc, out = sh("coq_makefile -f _CoqProject -o Makefile", cwd=COQ)
    if rc != 0:
        return False, out
    cmd = "timeout 3000 make -j%d %s" % (jobs, target or "")
    rc, out = sh(cmd, cwd=COQ)
    return rc == 0, out


def newest(paths):
    return max((os.stat(p).st_mtime for p in paths if os.path.exists(p)), default=0)


def build_runner(force=False):
    """Extract and compile hgv_model.  Rebuilt when any .v / glue file is newer."""
    srcs = [os.path.join(COQ, f) for f in os.listdir(COQ) if f.endswith(".v")]
    srcs += [os.path.join(VERIF, "ml", f) for f in ("main.ml", "families.ml")]
    if not force and os.path.exists(RUNNER) and os.stat(RUNNER).st_mtime > newest(srcs):
        return True, "up to date"
    ok, log = make_coq()
    if not ok:
        return False, log
    shutil.rmtree(MLGEN, ignore_errors=True)
    os.makedirs(MLGEN)
    rc, out = sh("timeout 600 coqc -R %s HGV %s/ExtractAll.v -o %s/ExtractAll.vo" % (COQ, COQ, MLGEN), cwd=MLGEN)
    if rc != 0:
        return False, out
    for f in ("main.ml", "families.ml"):
        shutil.copy(os.path.join(VERIF, "ml", f), MLGEN)
    rc, order = sh("ocamlfind ocamldep -sort *.ml *.mli", cwd=MLGEN)
    if rc != 0:
        return False, order
    files = order.split()
    os.makedirs(os.path.dirname(RUNNER), exist_ok=True)
    rc, out = sh("ocamlfind ocamlopt -O2 -w -a -o %s %s" % (RUNNER + ".tmp", " ".join(files)), cwd=MLGEN)
    if rc != 0:
        rc, out = sh("ocamlfind ocamlopt -w -a -o %s %s" % (RUNNER + ".tmp", " ".join(files)), cwd=MLGEN)
        if rc != 0:
            return False, out
    os.replace(RUNNER + ".tmp", RUNNER)
    return True, "built"


if __name__ == "__main__":
    ok, log = build_runner(force="--force" in sys.argv)
    print(log[-3000:])
    sys.exit(0 if ok else 1)
