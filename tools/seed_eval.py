#!/usr/bin/env python3
"""Confirm a seeded change produced by a red-team agent and run our checks against it.

usage: tools/seed_eval.py <seed-id> <patch.diff> <demo.cpp> <Cnn>[,Cmm...] [--note "..."]

1. scratch worktree of /repo under /var/tmp/hgv-seed-<id>
2. build + run the demonstration on the unmodified tree      (must exit 0)
3. apply the patch, build + run the demonstration            (must exit non-zero)
4. HGV_REPO=<scratch> ./hgv check Cnn --tier quick  for each listed property
5. write /verif/seeded/<id>/{patch.diff, demo.cpp, meta.json}; remove the scratch worktree
"""
import json
import os
import shutil
import subprocess
import sys
import tempfile
import time

VERIF = os.path.dirname(os.path.dirname(os.path.abspath(__file__)))
ENV = dict(os.environ, LD_LIBRARY_PATH="/venv/lib/python3.12/site-packages/pyarrow")


def sh(cmd, timeout=7200, env=None, cwd=None):
    p = subprocess.run(cmd, shell=isinstance(cmd, str), capture_output=True, text=True, timeout=timeout, env=env or ENV, cwd=cwd)
    return p.returncode, (p.stdout + p.stderr)


def main():
    sid, patch, demo, props = sys.argv[1:5]
    note = sys.argv[sys.argv.index("--note") + 1] if "--note" in sys.argv else ""
    props = props.split(",")
    wt = "/var/tmp/hgv-seed-%s" % sid
    sh(["git", "-C", "/repo", "worktree", "remove", "--force", wt])
    rc, out = sh(["git", "-C", "/repo", "worktree", "add", "-q", "--detach", wt, "HEAD"])
    assert rc == 0, out
    meta = {"id": sid, "breaks": props, "note": note, "ran": [], "at": time.strftime("%Y-%m-%dT%H:%M:%SZ", time.gmtime())}
    try:
        binp = wt + "-demo"
        build = ["python3", "/var/tmp/rt/build_demo.py", "--repo", wt, "--src", demo, "--out", binp]
        rc, out = sh(build)
        meta["ran"].append("build demo on unmodified tree: rc=%d" % rc)
        if rc != 0:
            meta["error"] = out[-2000:]
            raise SystemExit("demo does not build on the unmodified tree:\n" + out[-2000:])
        rc0, out0 = sh(["timeout", "120", binp])
        meta["demo_without"] = {"rc": rc0, "tail": out0[-600:]}
        rc, out = sh(["git", "-C", wt, "apply", os.path.abspath(patch)])
        if rc != 0:
            raise SystemExit("patch does not apply: " + out)
        rc, out = sh(build)
        meta["ran"].append("build demo with the change: rc=%d" % rc)
        if rc != 0:
            meta["error"] = out[-2000:]
            raise SystemExit("does not compile with the change:\n" + out[-2000:])
        rc1, out1 = sh(["timeout", "120", binp])
        meta["demo_with"] = {"rc": rc1, "tail": out1[-600:]}
        meta["confirmed"] = (rc0 == 0 and rc1 != 0)
        checks = {}
        for p in props:
            scratch = tempfile.mkdtemp(prefix="hgv-seedout-", dir="/var/tmp")
            env = dict(ENV, HGV_REPO=wt, HGV_EVIDENCE_DIR=scratch, HGV_REPLAY_DIR=scratch)
            t0 = time.time()
            rc, out = sh([os.path.join(VERIF, "hgv"), "check", p, "--tier", "quick"], env=env, cwd=VERIF)
            viol = [l for l in out.splitlines() if l.startswith("VIOLATION")]
            checks[p] = {"rc": rc, "caught": rc == 1 and bool(viol), "violations": [v[:200] for v in viol][:4], "wall_s": round(time.time() - t0)}
            meta["ran"].append("HGV_REPO=<scratch with the change> ./hgv check %s --tier quick: rc=%d" % (p, rc))
            shutil.rmtree(scratch, ignore_errors=True)
        meta["checks"] = checks
        d = os.path.join(VERIF, "seeded", sid)
        os.makedirs(d, exist_ok=True)
        shutil.copy(patch, os.path.join(d, "patch.diff"))
        shutil.copy(demo, os.path.join(d, "demo.cpp"))
        json.dump(meta, open(os.path.join(d, "meta.json"), "w"), indent=1)
        print(json.dumps({k: meta[k] for k in ("id", "confirmed", "checks")}, indent=1))
    finally:
        sh(["git", "-C", "/repo", "worktree", "remove", "--force", wt])
        if os.path.exists(wt + "-demo"):
            os.unlink(wt + "-demo")


if __name__ == "__main__":
    main()
