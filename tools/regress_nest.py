import sys, os, subprocess
sys.path.insert(0, '/var/tmp/hgv-wt/nest')
from hgvlib import build
files = sys.argv[2].split(',')
srcs = ["regress_%s.cpp" % f for f in files] + ["regress_main.cpp"]
drv, info = build.build_driver('regress-' + sys.argv[1], srcs)
print("BUILD", drv, info.get('wall_s'), info.get('compiled'), str(info.get('errors'))[:3000])
if drv:
    p = subprocess.run([drv], capture_output=True, text=True, env=build.RUN_ENV, timeout=1800)
    open('/var/tmp/hgv-nest-scratch/regress-%s.out' % sys.argv[1], 'w').write(p.stdout + p.stderr)
    print("RUN rc", p.returncode, p.stdout.strip().splitlines()[-1] if p.stdout.strip() else p.stderr[-300:])
