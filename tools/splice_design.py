#!/usr/bin/env python3
"""Refresh the generated parts of DESIGN.md (between <!-- X:BEGIN --> / <!-- X:END --> markers)."""
import json, os, re, subprocess
V = os.path.dirname(os.path.dirname(os.path.abspath(__file__)))
subprocess.run(["python3", os.path.join(V, "tools", "as_built.py")], capture_output=True)
subprocess.run(["python3", os.path.join(V, "tools", "report.py")], capture_output=True)
d = open(os.path.join(V, "DESIGN.md")).read()
def put(tag, text):
    global d
    a, b = "<!-- %s:BEGIN -->" % tag, "<!-- %s:END -->" % tag
    if a not in d:
        raise SystemExit("marker %s missing" % tag)
    d = d[:d.index(a) + len(a)] + "\n" + text.strip() + "\n" + d[d.index(b):]
asb = open(os.path.join(V, "docs", "AS_BUILT.md")).read().split("\n", 2)[2]
put("AS_BUILT", ("\n" + asb).replace("\n## ", "\n#### "))
kf = json.load(open(os.path.join(V, "known_findings.json")))
rows = ["| id | property | oracle kind | what fails |", "|---|---|---|---|"]
rows += ["| `%s` | %s | `%s` | %s |" % (k["id"], k["property"], k["kind"], k["what"].replace("|", "/")) for k in kf["findings"]]
fx = "\n".join("* %s" % f for f in kf.get("fixed", []))
put("KNOWN", "\n".join(rows) + "\n\nRepaired (`fix:` commits in /repo; these entries suppress nothing):\n\n" + fx)
sd = open(os.path.join(V, "docs", "SEEDED.md")).read().split("\n", 2)[2]
put("SEEDED", sd)
open(os.path.join(V, "DESIGN.md"), "w").write(d)
print("DESIGN.md refreshed")
