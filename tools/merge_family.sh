#!/bin/bash
# usage: tools/merge_family.sh <fam> <Cnn>[,Cmm]   — merge branch fam-<fam>, union known_findings for the listed properties
set -e
cd /verif
fam=$1; props=$2
git add -A; git commit -qm "wip before merging $fam" || true
git merge fam-$fam -m "Merge family $fam ($props)" >/var/tmp/hgv-lead/merge-$fam.log 2>&1 || true
if git status --short | grep -q "^UU\|^AA"; then
  for f in $(git status --short | grep "^UU\|^AA" | awk '{print $2}'); do
    if [ "$f" = "known_findings.json" ]; then
      git show fam-$fam:known_findings.json > /var/tmp/hgv-lead/kf-theirs.json
      git checkout --ours known_findings.json
      python3 - "$props" <<'PY'
import json,sys
props=sys.argv[1].split(',')
k=json.load(open('/verif/known_findings.json')); c=json.load(open('/var/tmp/hgv-lead/kf-theirs.json'))
have={x['id'] for x in k['findings']}
for x in c.get('findings',[]):
    if x['id'] not in have and x.get('property') in props:
        k['findings'].append(x); print('added',x['id'],x.get('kind'))
json.dump(k,open('/verif/known_findings.json','w'),indent=1)
PY
    else
      echo "CONFLICT in $f: keeping ours"; git checkout --ours "$f"
    fi
    git add "$f"
  done
  git commit -qm "Merge family $fam ($props)"
fi
git log --oneline | head -1
