#!/usr/bin/env python3
"""Write docs/SEEDED.md: the independently seeded changes (red-team) and which checks caught them."""
import json, os, glob
V = os.path.dirname(os.path.dirname(os.path.abspath(__file__)))
rows = []
for d in sorted(glob.glob(os.path.join(V, "seeded", "*"))):
    mp = os.path.join(d, "meta.json")
    if not os.path.exists(mp):
        continue
    m = json.load(open(mp))
    checks = m.get("checks", {})
    rows.append((m["id"], ",".join(m.get("breaks", [])), m.get("note", "").replace("|", "/"),
                 "yes" if m.get("confirmed") else "NO",
                 "; ".join("%s: %s" % (p, ("CAUGHT" + (" (" + ", ".join(sorted({v.split("replay=")[1].split("/")[-1].split(".json")[0].split("-", 1)[1] + (" nfi" if "no-failing-input-found" in v else "") for v in c["violations"]})) + ")" if c["violations"] else "")) if c["caught"] else "missed") for p, c in checks.items())))
out = ["# Seeded changes (written by independent agents from the property text only) and what caught them", "",
       "Each was confirmed in a scratch worktree: the demonstration passes on the unmodified tree and fails with the change;",
       "then the quick checks were run with `HGV_REPO=<scratch>`. `nfi` = reported with no-failing-input-found (correspondence only).", "",
       "| id | property | needs | confirmed | quick checks |", "|---|---|---|---|---|"]
out += ["| %s | %s | %s | %s | %s |" % r for r in rows]
open(os.path.join(V, "docs", "SEEDED.md"), "w").write("\n".join(out) + "\n")
print("\n".join(out))
