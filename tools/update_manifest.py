#!/usr/bin/env python3
"""Regenerate MANIFEST.json checks / not_applicable from gen/props.d/*.json (keys level_text, level_note, technique optional)."""
import json, os
V = os.path.dirname(os.path.dirname(os.path.abspath(__file__)))
m = json.load(open(os.path.join(V, "MANIFEST.json")))
ids = [json.loads(l)["id"] for l in open(os.path.join(V, "properties.jsonl"))]
checks = []
for pid in ids:
    p = os.path.join(V, "gen", "props.d", pid + ".json")
    if not os.path.exists(p):
        continue
    c = json.load(open(p))
    if c.get("unclaimed"):
        continue
    checks.append({
        "property_id": pid,
        "quick_cmd": "./hgv check %s --tier quick" % pid,
        "thorough_cmd": "./hgv check %s --tier thorough" % pid,
        "evidence_file": "/verif/evidence/%s.json" % pid,
        "replay_cmd_template": "./hgv replay {path}",
        "engine": "hgv",
        "level_claimed": {"category": "proof",
                          "text": c.get("level_text", "Rocq theorems in coq/%s about a hand-written model of the anchored code, tied to /repo's working tree by a differential correspondence check (families %s) and an independent property oracle" % (c["coq"], ", ".join(c["families"]))),
                          "design_ref": "DESIGN.md §5 %s; docs/notes-%s.md" % (pid, c["families"][0])},
        "level_note": c.get("level_note", "Trusted: Coq 8.16.1 kernel, extraction (ExtrOcamlBasic), generators, C++ driver and build recipe; see evidence trusted_base and docs/notes-%s.md for what is modelled rather than verified." % c["families"][0]),
        "technique": c.get("technique", "Rocq proof of hand-written model + differential correspondence to the compiled tree"),
    })
m["checks"] = checks
claimed = {c["property_id"] for c in checks}
old_na = {x["property_id"]: x["reason"] for x in m.get("not_applicable", [])}
m["not_applicable"] = [{"property_id": i, "reason": old_na.get(i, "not yet claimed: machinery under construction")} for i in ids if i not in claimed]
m["engines"][0]["serves_properties"] = sorted(claimed)
json.dump(m, open(os.path.join(V, "MANIFEST.json"), "w"), indent=1)
print("claimed:", sorted(claimed))
