(* MapSchedFacts.v — the mechanism-level invariant of the map node's child scheduling (MapSched):
   no child wake-up is lost, over all sequences of child schedules, key removals, erases and slot reuse. *)
Require Import Base MapSched.
From Coq Require Import ZifyBool.

(* ------------------------------------------------------------------ the heap as a list *)
Lemma insert_in x y l : In y (insert x l) <-> y = x \/ In y l.
Proof.
  induction l as [|z r IH]; cbn [insert]; [cbn; intuition congruence|].
  destruct (hleb x z); cbn [In]; [intuition congruence|]. rewrite IH. cbn [In]. split; intros H; intuition congruence.
Qed.

Lemma isort_in y l : In y (isort l) <-> In y l.
Proof.
  induction l as [|x r IH]; cbn [isort]; [tauto|]. rewrite insert_in, IH. cbn [In]. split; intros H; intuition congruence.
Qed.

Lemma due_in t h x : In x (due_part t h) <-> In x h /\ h_when x <= t.
Proof. unfold due_part. rewrite isort_in, filter_In. unfold is_due. split; intros [H1 H2]; split; auto; lia. Qed.

Lemma rest_in t h x : In x (rest_part t h) <-> In x h /\ t < h_when x.
Proof. unfold rest_part. rewrite filter_In. unfold is_due. split; intros [H1 H2]; split; auto; lia. Qed.

Lemma hmin_le d h x : In x h -> hmin d h <= h_when x.
Proof. induction h as [|y r IH]; cbn [hmin In]; [tauto|]. intros [H|H]; [subst; lia|specialize (IH H); lia]. Qed.

Lemma hmin_lb d h b : b < d -> (forall x, In x h -> b < h_when x) -> b < hmin d h.
Proof.
  intros Hd. induction h as [|y r IH]; cbn [hmin]; intros H; [exact Hd|].
  assert (b < h_when y) by (apply H; left; reflexivity).
  assert (b < hmin d r) by (apply IH; intros x Hx; apply H; right; exact Hx). lia.
Qed.

Lemma upd_same {A} k (v : A) f : upd k v f k = v.
Proof. unfold upd. rewrite Nat.eqb_refl. reflexivity. Qed.
Lemma upd_other {A} k k' (v : A) f : k' <> k -> upd k v f k' = f k'.
Proof. intros H. unfold upd. destruct (Nat.eqb k' k) eqn:E; [apply Nat.eqb_eq in E; congruence|reflexivity]. Qed.

(* ------------------------------------------------------------------ the queue drains *)
Definition reset_pulled (e : entry) : entry := mkE (e_started e) MAX_DT (e_next e).

Lemma reset_pulled_idem e : reset_pulled (reset_pulled e) = reset_pulled e.
Proof. reflexivity. Qed.

(* what the first drain does to slot k *)
Lemma drain_due_spec : forall D ent c k,
  let r := drain_due D ent c in
  (ent k = None -> fst r k = None) /\
  (forall e, ent k = Some e ->
     (fst r k = Some e \/ fst r k = Some (reset_pulled e)) /\
     (In (e_pulled e, k, true) D -> fst r k = Some (reset_pulled e) /\ snd r k = true) /\
     (fst r k = Some (reset_pulled e) -> e_pulled e = MAX_DT \/ In (e_pulled e, k, true) D) /\
     (forall w, In (w, k, false) D -> snd r k = true)) /\
  (c k = true -> snd r k = true).
Proof.
  induction D as [|h D IH]; intros ent c k; cbn [drain_due fst snd].
  - split; [auto|]. split; [|auto]. intros e He. split; [left; exact He|]. split; [intros []|]. split; [|intros w []].
    intros H0. rewrite He in H0. inversion H0 as [H1]. left. destruct e as [a b c0]. unfold reset_pulled in H1. cbn in H1.
    inversion H1. cbn. congruence.
  - destruct h as [[w sl] p]. cbn [h_slot h_when h_pulled fst snd].
    destruct (ent sl) as [e0|] eqn:E0.
    + destruct p.
      * destruct (e_pulled e0 =? w) eqn:Ew.
        -- (* matching pulled entry: reset, candidate *)
           assert (Hpw : e_pulled e0 = w) by lia. subst w.
           specialize (IH (upd sl (Some (mkE (e_started e0) MAX_DT (e_next e0))) ent) (upd sl true c) k).
           cbn zeta in IH. destruct IH as [IHn [IHs IHc]].
           destruct (Nat.eq_dec k sl) as [->|Hne].
           ++ split; [intros H; congruence|]. split.
              ** intros e He. rewrite E0 in He. inversion He. subst e0.
                 assert (Hup : upd sl (Some (mkE (e_started e) MAX_DT (e_next e))) ent sl = Some (reset_pulled e)) by apply upd_same.
                 destruct (IHs (reset_pulled e) Hup) as [A [B [C Dd]]].
                 assert (Hr : fst (drain_due D (upd sl (Some (mkE (e_started e) MAX_DT (e_next e))) ent) (upd sl true c)) sl = Some (reset_pulled e)).
                 { destruct A as [A|A]; rewrite A; reflexivity. }
                 assert (Hc : snd (drain_due D (upd sl (Some (mkE (e_started e) MAX_DT (e_next e))) ent) (upd sl true c)) sl = true).
                 { apply IHc. apply upd_same. }
                 split; [|split; [|split]].
                 --- right. exact Hr.
                 --- intros _. split; [exact Hr|exact Hc].
                 --- intros _. right. left. reflexivity.
                 --- intros w' Hw'. exact Hc.
              ** intros _. apply IHc. apply upd_same.
           ++ rewrite !upd_other in * by exact Hne. split; [exact IHn|]. split; [|exact IHc].
              intros e He. destruct (IHs e He) as [A [B [C Dd]]]. split; [|split; [|split]].
              ** exact A.
              ** intros [H|H]; [inversion H; congruence|]. apply B; exact H.
              ** intros H. destruct (C H) as [H1|H1]; [left; exact H1|right; right; exact H1].
              ** intros w' [H|H]; [inversion H|]. apply (Dd w'); exact H.
        -- (* stale pulled entry: dropped *)
           specialize (IH ent c k). cbn zeta in IH. destruct IH as [IHn [IHs IHc]].
           split; [exact IHn|]. split; [|exact IHc].
           intros e He. destruct (IHs e He) as [A [B [C Dd]]]. split; [|split; [|split]].
           ++ exact A.
           ++ intros [H|H]; [inversion H; subst; rewrite E0 in He; inversion He; subst; lia|]. apply B; exact H.
           ++ intros H. destruct (C H) as [H1|H1]; [left; exact H1|right; right; exact H1].
           ++ intros w' [H|H]; [inversion H|]. apply (Dd w'); exact H.
      * (* observed entry: candidate *)
        specialize (IH ent (upd sl true c) k). cbn zeta in IH. destruct IH as [IHn [IHs IHc]].
        split; [exact IHn|]. split.
        -- intros e He. destruct (IHs e He) as [A [B [C Dd]]]. split; [|split; [|split]].
           ++ exact A.
           ++ intros [H|H]; [inversion H|]. apply B; exact H.
           ++ intros H. destruct (C H) as [H1|H1]; [left; exact H1|right; right; exact H1].
           ++ intros w' [H|H]; [|apply (Dd w'); exact H]. inversion H. subst. apply IHc. apply upd_same.
        -- intros Hc. apply IHc. destruct (Nat.eq_dec k sl) as [->|Hne]; [apply upd_same|rewrite upd_other by exact Hne; exact Hc].
    + (* no entry at that slot: dropped *)
      specialize (IH ent c k). cbn zeta in IH. destruct IH as [IHn [IHs IHc]].
      split; [exact IHn|]. split; [|exact IHc].
      intros e He. destruct (IHs e He) as [A [B [C Dd]]]. split; [|split; [|split]].
      * exact A.
      * intros [H|H]; [inversion H; subst; congruence|]. apply B; exact H.
      * intros H. destruct (C H) as [H1|H1]; [left; exact H1|right; right; exact H1].
      * intros w' [H|H]; [inversion H; subst; congruence|]. apply (Dd w'); exact H.
Qed.

(* the second drain treats the entries exactly like the first *)
Lemma drain_end_eq : forall D ent c, drain_end D ent = fst (drain_due D ent c).
Proof.
  induction D as [|h D IH]; intros ent c; cbn [drain_end drain_due fst]; [reflexivity|].
  destruct (h_pulled h) eqn:Ep.
  - destruct (ent (h_slot h)) as [e|] eqn:E.
    + destruct (e_pulled e =? h_when h); apply IH.
    + apply IH.
  - destruct (ent (h_slot h)) as [e|] eqn:E; apply IH.
Qed.

(* ------------------------------------------------------------------ invariants *)
(* slot k's pending time T is covered: some queue entry that is not stale will put k into the candidate
   set no later than T *)
Definition covered (s : st) (k : nat) (T : Z) : Prop :=
  exists h, In h (s_heap s) /\ h_slot h = k /\ h_when h <= T /\
            (h_pulled h = false \/ exists e, s_ent s k = Some e /\ e_pulled e = h_when h).

Definition Inv (s : st) : Prop :=
  forall k e, s_ent s k = Some e -> e_started e = true -> e_next e < MAX_DT ->
    (s_now s < e_next e \/ (s_now s = e_next e /\ s_done s = false)) /\
    (exists P, pend s = Some P /\ P <= e_next e) /\
    covered s k (e_next e).

(* the pull marker always has its queue entry (the coalescing in push_pulled_child_schedule relies on it) *)
Definition Pinv (s : st) : Prop :=
  forall k e, s_ent s k = Some e -> e_pulled e < MAX_DT -> In (e_pulled e, k, true) (s_heap s).

Definition Cinv (s : st) : Prop := forall k e, s_ent s k = Some e -> (k < s_cap s)%nat.

Definition Good (s : st) : Prop := Inv s /\ Pinv s /\ Cinv s.

Lemma hent_eta (h : hent) : h = (h_when h, h_slot h, h_pulled h).
Proof. destruct h as [[a b] c]. reflexivity. Qed.

Lemma good_init : Good init.
Proof. split; [|split]; intros k e H; discriminate H. Qed.

(* ---- psched ---- *)
Lemma psched_fields w s :
  s_now (psched w s) = s_now s /\ s_done (psched w s) = s_done s /\ s_cap (psched w s) = s_cap s /\
  s_ent (psched w s) = s_ent s /\ s_heap (psched w s) = s_heap s.
Proof. unfold psched. destruct (_ || _); cbn; auto. Qed.

Lemma psched_pend w s :
  push_ok w s = true -> s_now s <= w ->
  exists P', pend (psched w s) = Some P' /\ P' <= w /\ (forall P, pend s = Some P -> P' <= P).
Proof.
  unfold push_ok, psched, pend. intros Hok Hw.
  destruct ((s_pslot s <=? s_now s) || (w <? s_pslot s)) eqn:E; cbn [s_now s_pslot s_done].
  - exists w. split; [|split; [lia|]].
    + destruct ((s_now s <? w) || ((w =? s_now s) && negb (s_done s))) eqn:E2; [reflexivity|]. lia.
    + intros P HP. destruct ((s_now s <? s_pslot s) || ((s_pslot s =? s_now s) && negb (s_done s))) eqn:E3; [|discriminate].
      inversion HP. subst P. lia.
  - exists (s_pslot s). destruct ((s_now s <? s_pslot s) || ((s_pslot s =? s_now s) && negb (s_done s))) eqn:E3; [|lia].
    split; [reflexivity|]. split; [lia|]. intros P HP. inversion HP. lia.
Qed.

(* ---- Tick ---- *)
Lemma good_tick t s : Good s -> Good (do_tick t s).
Proof.
  intros [HI [HP HC]]. unfold do_tick. destruct (tick_ok t s) eqn:Ht; [|split; [|split]; assumption].
  split; [|split; [exact HP|exact HC]].
  intros k e He Hs Hn. destruct (HI k e He Hs Hn) as [H1 [[P [HP1 HP2]] H3]].
  unfold tick_ok in Ht. rewrite HP1 in Ht.
  assert (Hp : P = s_pslot s). { unfold pend in HP1. destruct (_ || _); inversion HP1; reflexivity. }
  cbn [s_now s_done]. split; [lia|]. split.
  - exists P. unfold pend. cbn [s_now s_pslot s_done]. split; [|exact HP2].
    destruct ((t <? s_pslot s) || ((s_pslot s =? t) && negb false)) eqn:E; [congruence|]. lia.
  - destruct H3 as [h Hh]. exists h. exact Hh.
Qed.

(* the owning graph cannot step over a child's pending time *)
Lemma tick_cannot_skip t s k e :
  Good s -> s_ent s k = Some e -> e_started e = true -> e_next e < MAX_DT -> tick_ok t s = true -> t <= e_next e.
Proof.
  intros [HI _] He Hs Hn Ht. destruct (HI k e He Hs Hn) as [_ [[P [HP1 HP2]] _]].
  unfold tick_ok in Ht. rewrite HP1 in Ht. lia.
Qed.

(* ---- Erase ---- *)
Lemma good_erase k s : Good s -> Good (do_erase k s).
Proof.
  intros [HI [HP HC]]. unfold do_erase. split; [|split].
  - intros k' e He Hs Hn. cbn [s_ent] in He. destruct (Nat.eq_dec k' k) as [->|Hne]; [rewrite upd_same in He; discriminate|].
    rewrite upd_other in He by exact Hne. destruct (HI k' e He Hs Hn) as [H1 [H2 [h [A [B [C Dd]]]]]].
    split; [exact H1|]. split; [exact H2|]. exists h. cbn [s_heap s_ent]. rewrite upd_other by exact Hne. auto.
  - intros k' e He Hl. cbn [s_ent s_heap] in *. destruct (Nat.eq_dec k' k) as [->|Hne]; [rewrite upd_same in He; discriminate|].
    rewrite upd_other in He by exact Hne. apply HP; assumption.
  - intros k' e He. cbn [s_ent s_cap] in *. destruct (Nat.eq_dec k' k) as [->|Hne]; [rewrite upd_same in He; discriminate|].
    rewrite upd_other in He by exact Hne. eapply HC; eassumption.
Qed.

(* ---- Push ---- *)
Lemma good_push k when s : Good s -> Good (do_push k when s).
Proof.
  intros [HI [HP HC]]. unfold do_push. destruct (s_ent s k) as [e|] eqn:Ek; [|split; [|split]; assumption].
  destruct (e_started e && push_ok (Z.max when (s_now s)) s) eqn:Eok; [|split; [|split]; assumption].
  apply andb_true_iff in Eok. destruct Eok as [Est Eok].
  set (w := Z.max when (s_now s)) in *.
  set (e' := mkE true (e_pulled e) (Z.min (e_next e) w)).
  set (s1 := hpush (w, k, false) (set_ent k (Some e') s)).
  assert (Hok1 : push_ok w s1 = true) by exact Eok.
  destruct (psched_fields w s1) as [F1 [F2 [F3 [F4 F5]]]].
  destruct (psched_pend w s1 Hok1 ltac:(cbn; lia)) as [P' [HP' [HP'w HP'le]]].
  assert (Hpend1 : pend s1 = pend s) by reflexivity.
  split; [|split].
  - intros k' x Hx Hs Hn. rewrite F1, F2, F4 in *. cbn [s1 hpush set_heap set_ent s_ent s_now s_done] in Hx |- *.
    destruct (Nat.eq_dec k' k) as [->|Hne].
    + rewrite upd_same in Hx. inversion Hx. subst x. cbn [e' e_next e_started e_pulled] in *.
      assert (Hold : e_next e < MAX_DT ->
                (s_now s < e_next e \/ s_now s = e_next e /\ s_done s = false) /\ (exists P, pend s = Some P /\ P <= e_next e) /\ covered s k (e_next e)).
      { intros Hl. apply HI; assumption. }
      unfold push_ok in Eok.
      split; [|split].
      * destruct (Z.min_spec (e_next e) w) as [[Hlt Hm]|[Hge Hm]]; rewrite Hm; [destruct (Hold ltac:(lia)) as [A _]; exact A|]. lia.
      * exists P'. split; [exact HP'|].
        destruct (Z.min_spec (e_next e) w) as [[Hlt Hm]|[Hge Hm]]; rewrite Hm; [|exact HP'w].
        destruct (Hold ltac:(lia)) as [_ [[P [A B]] _]]. rewrite <- Hpend1 in A. specialize (HP'le P A). lia.
      * unfold covered. rewrite F5, F4. cbn [s1 hpush set_heap set_ent s_heap s_ent].
        destruct (Z.min_spec (e_next e) w) as [[Hlt Hm]|[Hge Hm]]; rewrite Hm.
        -- destruct (Hold ltac:(lia)) as [_ [_ [h [A [B [C Dd]]]]]]. exists h. split; [right; exact A|]. split; [exact B|]. split; [exact C|].
           destruct Dd as [Dd|[x [Dx Dy]]]; [left; exact Dd|]. right. rewrite Ek in Dx. inversion Dx. subst x.
           exists (mkE true (e_pulled e) (Z.min (e_next e) w)). rewrite upd_same. split; [reflexivity|exact Dy].
        -- exists (w, k, false). split; [left; reflexivity|]. cbn. split; [reflexivity|]. split; [lia|left; reflexivity].
    + rewrite upd_other in Hx by exact Hne. destruct (HI k' x Hx Hs Hn) as [A [[P [B1 B2]] [h [C1 [C2 [C3 C4]]]]]].
      split; [exact A|]. split.
      * exists P'. split; [exact HP'|]. rewrite <- Hpend1 in B1. specialize (HP'le P B1). lia.
      * unfold covered. rewrite F5, F4. cbn [s1 hpush set_heap set_ent s_heap s_ent]. exists h.
        split; [right; exact C1|]. split; [exact C2|]. split; [exact C3|]. rewrite upd_other by exact Hne. exact C4.
  - intros k' x Hx Hl. rewrite F4, F5 in *. cbn [s1 hpush set_heap set_ent s_heap s_ent] in *. right.
    destruct (Nat.eq_dec k' k) as [->|Hne].
    + rewrite upd_same in Hx. inversion Hx. subst x. cbn [e' e_pulled] in *. apply HP; assumption.
    + rewrite upd_other in Hx by exact Hne. apply HP; assumption.
  - intros k' x Hx. rewrite F4, F3 in *. cbn [s1 hpush set_heap set_ent s_cap s_ent] in *.
    destruct (Nat.eq_dec k' k) as [->|Hne]; [lia|]. rewrite upd_other in Hx by exact Hne. specialize (HC k' x Hx). lia.
Qed.

(* ================================================================== Eval *)
(* ---- reconciliation ---- *)
Definition Rec (A : list nat) (s s' : st) : Prop :=
  s_now s' = s_now s /\ s_done s' = s_done s /\ incl (s_heap s) (s_heap s') /\ Pinv s' /\ Cinv s' /\
  (forall k e, s_ent s' k = Some e -> e_started e = true -> In k A \/ s_ent s k = Some e) /\
  (forall k, In k A -> s_ent s' k <> None).

Lemma rec_refl s : Pinv s -> Cinv s -> Rec [] s s.
Proof. intros HP HC. repeat (split; [auto using incl_refl|]). intros k []. Qed.

Lemma rec_remove A s s' k : Rec A s s' -> Rec A s (remove_slot k s').
Proof.
  intros [R1 [R2 [R3 [R4 [R5 [R6 R7]]]]]]. unfold remove_slot. destruct (s_ent s' k) as [e|] eqn:Ek.
  2:{ repeat (split; [assumption|]). assumption. }
  unfold Rec. cbn [set_ent s_now s_done s_heap s_ent s_cap].
  split; [exact R1|]. split; [exact R2|]. split; [exact R3|]. split; [|split; [|split]].
  - intros k' x Hx Hl. cbn [set_ent s_ent s_heap s_cap] in *. destruct (Nat.eq_dec k' k) as [->|Hne].
    + rewrite upd_same in Hx. inversion Hx. subst x. cbn in Hl. unfold MAX_DT in Hl. lia.
    + rewrite upd_other in Hx by exact Hne. apply R4; assumption.
  - intros k' x Hx. cbn [set_ent s_ent s_heap s_cap] in *. destruct (Nat.eq_dec k' k) as [->|Hne]; [lia|].
    rewrite upd_other in Hx by exact Hne. specialize (R5 k' x Hx). lia.
  - intros k' x Hx Hs. cbn [set_ent s_ent] in Hx. destruct (Nat.eq_dec k' k) as [->|Hne].
    + rewrite upd_same in Hx. inversion Hx. subst x. discriminate Hs.
    + rewrite upd_other in Hx by exact Hne. apply R6; assumption.
  - intros k' Hin. cbn [set_ent s_ent]. destruct (Nat.eq_dec k' k) as [->|Hne]; [rewrite upd_same; discriminate|].
    rewrite upd_other by exact Hne. apply R7; exact Hin.
Qed.

Lemma do_push_frame k w s : Pinv s -> Cinv s ->
  s_now (do_push k w s) = s_now s /\ s_done (do_push k w s) = s_done s /\ incl (s_heap s) (s_heap (do_push k w s)) /\
  Pinv (do_push k w s) /\ Cinv (do_push k w s) /\
  (forall k', k' <> k -> s_ent (do_push k w s) k' = s_ent s k') /\
  (forall e, s_ent s k = Some e -> exists e', s_ent (do_push k w s) k = Some e' /\ e_started e' = e_started e /\ e_pulled e' = e_pulled e) /\
  (s_ent s k = None -> s_ent (do_push k w s) k = None).
Proof.
  intros HP HC. unfold do_push. destruct (s_ent s k) as [e|] eqn:Ek.
  2:{ split; [reflexivity|]. split; [reflexivity|]. split; [apply incl_refl|]. split; [exact HP|]. split; [exact HC|].
      split; [reflexivity|]. split; [intros e He; discriminate He|auto]. }
  destruct (e_started e && push_ok (Z.max w (s_now s)) s) eqn:Eok.
  2:{ split; [reflexivity|]. split; [reflexivity|]. split; [apply incl_refl|]. split; [exact HP|]. split; [exact HC|].
      split; [reflexivity|]. split; [|intros H; discriminate H]. intros x Hx. inversion Hx. subst x. exists e. rewrite Ek. auto. }
  apply andb_true_iff in Eok. destruct Eok as [Est _].
  match goal with |- context [psched ?ww ?ss] => destruct (psched_fields ww ss) as [F1 [F2 [F3 [F4 F5]]]] end.
  unfold Pinv, Cinv. rewrite ?F1, ?F2, ?F3, ?F4, ?F5. cbn [hpush set_heap set_ent s_now s_done s_heap s_ent s_cap].
  split; [reflexivity|]. split; [reflexivity|]. split; [intros x Hx; right; exact Hx|]. split; [|split; [|split; [|split]]].
  - intros k' x Hx Hl. right. destruct (Nat.eq_dec k' k) as [->|Hne].
    + rewrite upd_same in Hx. inversion Hx. subst x. cbn in Hl |- *. apply HP; assumption.
    + rewrite upd_other in Hx by exact Hne. apply HP; assumption.
  - intros k' x Hx. destruct (Nat.eq_dec k' k) as [->|Hne]; [lia|]. rewrite upd_other in Hx by exact Hne. specialize (HC k' x Hx). lia.
  - intros k' Hne. apply upd_other. exact Hne.
  - intros x Hx. inversion Hx. subst x. rewrite upd_same. eexists. split; [reflexivity|]. cbn. split; [symmetry; exact Est|reflexivity].
  - intros H. discriminate H.
Qed.

Lemma rec_create A s s' a : Rec A s s' -> Rec (A ++ [a_slot a]) s (create_slot a s').
Proof.
  intros [R1 [R2 [R3 [R4 [R5 [R6 R7]]]]]].
  assert (Hkeep : forall e, s_ent s' (a_slot a) = Some e -> e_started e = true -> Rec (A ++ [a_slot a]) s s').
  { intros e He Hs. repeat (split; [assumption|]). split.
    - intros k x Hx Hxs. destruct (R6 k x Hx Hxs) as [H|H]; [left; apply in_or_app; left; exact H|right; exact H].
    - intros k Hin. apply in_app_or in Hin. destruct Hin as [Hin|[<-|[]]]; [apply R7; exact Hin|congruence]. }
  set (k := a_slot a) in *.
  set (enew := mkE true MAX_DT (clamp_next (s_now s') (a_next a))).
  set (s1 := set_ent k (Some enew) s').
  assert (P1 : Pinv s1).
  { intros k' x Hx Hl. cbn [s1 set_ent s_ent s_heap] in *. destruct (Nat.eq_dec k' k) as [->|Hne].
    - rewrite upd_same in Hx. inversion Hx. subst x. cbn in Hl. lia.
    - rewrite upd_other in Hx by exact Hne. apply R4; assumption. }
  assert (C1 : Cinv s1).
  { intros k' x Hx. cbn [s1 set_ent s_ent s_cap] in *. destruct (Nat.eq_dec k' k) as [->|Hne]; [lia|].
    rewrite upd_other in Hx by exact Hne. specialize (R5 k' x Hx). lia. }
  assert (Hfresh : Rec (A ++ [k]) s (if a_sampled a then do_push k (s_now s') s1 else s1)).
  { assert (Rs1 : Rec (A ++ [k]) s s1).
    { split; [exact R1|]. split; [exact R2|]. split; [exact R3|]. split; [exact P1|]. split; [exact C1|]. split.
      - intros k' x Hx Hs. cbn [s1 set_ent s_ent] in Hx. destruct (Nat.eq_dec k' k) as [->|Hne].
        + left. apply in_or_app. right. left. reflexivity.
        + rewrite upd_other in Hx by exact Hne. destruct (R6 k' x Hx Hs) as [H|H]; [left; apply in_or_app; left; exact H|right; exact H].
      - intros k' Hin. cbn [s1 set_ent s_ent]. destruct (Nat.eq_dec k' k) as [->|Hne]; [rewrite upd_same; discriminate|].
        rewrite upd_other by exact Hne. apply in_app_or in Hin. destruct Hin as [Hin|[Hin|[]]]; [apply R7; exact Hin|congruence]. }
    destruct (a_sampled a); [|exact Rs1].
    destruct Rs1 as [S1 [S2 [S3 [S4 [S5 [S6 S7]]]]]].
    destruct (do_push_frame k (s_now s') s1 P1 C1) as [D1 [D2 [D3 [D4 [D5 [D6 [D7 D8]]]]]]].
    split; [congruence|]. split; [congruence|]. split; [eapply incl_tran; eassumption|]. split; [exact D4|]. split; [exact D5|]. split.
    - intros k' x Hx Hs. destruct (Nat.eq_dec k' k) as [->|Hne].
      + left. apply in_or_app. right. left. reflexivity.
      + rewrite D6 in Hx by exact Hne. apply S6; assumption.
    - intros k' Hin. destruct (Nat.eq_dec k' k) as [->|Hne].
      + destruct (s_ent s1 k) as [x|] eqn:Ex; [|exfalso; eapply S7; [apply in_or_app; right; left; reflexivity|exact Ex]].
        destruct (D7 x eq_refl) as [x' [Hx' _]]. rewrite Hx'. discriminate.
      + rewrite D6 by exact Hne. apply S7; exact Hin. }
  unfold create_slot. fold k. destruct (s_ent s' k) as [e|] eqn:Ek.
  - destruct (e_started e) eqn:Es; [eapply Hkeep; eauto|exact Hfresh].
  - exact Hfresh.
Qed.

Lemma rec_fold_remove A s rm : forall s', Rec A s s' -> Rec A s (fold_left (fun s k => remove_slot k s) rm s').
Proof. induction rm as [|k r IH]; intros s' H; cbn [fold_left]; [exact H|]. apply IH. apply rec_remove. exact H. Qed.

Lemma rec_fold_create s ad : forall A s', Rec A s s' -> Rec (A ++ map a_slot ad) s (fold_left (fun s a => create_slot a s) ad s').
Proof.
  induction ad as [|a r IH]; intros A s' H; cbn [fold_left map].
  - rewrite app_nil_r. exact H.
  - replace (A ++ a_slot a :: map a_slot r) with ((A ++ [a_slot a]) ++ map a_slot r) by (rewrite <- app_assoc; reflexivity).
    apply IH. apply rec_create. exact H.
Qed.

Lemma reconcile_rec rm ad s : Pinv s -> Cinv s -> Rec (map a_slot ad) s (reconcile rm ad s).
Proof.
  intros HP HC. unfold reconcile. change (map a_slot ad) with ([] ++ map a_slot ad).
  apply rec_fold_create. apply rec_fold_remove. apply rec_refl; assumption.
Qed.

(* ---- prepare ---- *)
Definition Fut (s : st) : Prop := forall h, In h (s_heap s) -> s_now s < h_when h.

Definition OK (s : st) (k : nat) : Prop :=
  forall e, s_ent s k = Some e -> e_started e = true -> e_next e < MAX_DT -> s_now s < e_next e /\ covered s k (e_next e).

Definition PreOK (s : st) (c : cset) (k : nat) : Prop :=
  forall e, s_ent s k = Some e -> e_started e = true -> e_next e < MAX_DT ->
            c k = true \/ (s_now s < e_next e /\ covered s k (e_next e)).

Lemma cadd_fold ent L : forall c k,
  (c k = true -> fold_left (fun c k => cadd ent k c) L c k = true) /\
  (In k L -> ent k <> None -> fold_left (fun c k => cadd ent k c) L c k = true).
Proof.
  induction L as [|x r IH]; intros c k; cbn [fold_left]; [split; [auto|intros []]|].
  destruct (IH (cadd ent x c) k) as [I1 I2]. split.
  - intros Hc. apply I1. unfold cadd. destruct (ent x); [|exact Hc].
    destruct (Nat.eq_dec k x) as [->|Hne]; [apply upd_same|rewrite upd_other by exact Hne; exact Hc].
  - intros [->|Hin] Hn; [|apply I2; assumption]. apply I1. unfold cadd. destruct (ent k); [apply upd_same|congruence].
Qed.

Lemma prepare_facts ad tk full s s0 :
  Good s -> s_done s = false -> Rec (map a_slot ad) s s0 ->
  let s1 := fst (prepare ad tk full s0) in let c := snd (prepare ad tk full s0) in
  s_now s1 = s_now s /\ s_done s1 = false /\ Fut s1 /\ Pinv s1 /\ Cinv s1 /\ (forall k, PreOK s1 c k).
Proof.
  intros [HI [HP HC]] Hd [R1 [R2 [R3 [R4 [R5 [R6 R7]]]]]]. unfold prepare.
  set (c0 := fold_left (fun c k => cadd (s_ent s0) k c) (map a_slot ad ++ tk) (fun _ => false)).
  set (D := due_part (s_now s0) (s_heap s0)).
  destruct (drain_due D (s_ent s0) c0) as [ent1 c1] eqn:Edr. cbn [fst snd s_now s_done].
  assert (Spec : forall k, let r := drain_due D (s_ent s0) c0 in
     (s_ent s0 k = None -> fst r k = None) /\
     (forall e, s_ent s0 k = Some e ->
        (fst r k = Some e \/ fst r k = Some (reset_pulled e)) /\
        (In (e_pulled e, k, true) D -> fst r k = Some (reset_pulled e) /\ snd r k = true) /\
        (fst r k = Some (reset_pulled e) -> e_pulled e = MAX_DT \/ In (e_pulled e, k, true) D) /\
        (forall w, In (w, k, false) D -> snd r k = true)) /\
     (c0 k = true -> snd r k = true)) by (intros k; apply drain_due_spec).
  rewrite Edr in Spec. cbn [fst snd] in Spec.
  split; [exact R1|]. split; [congruence|]. split; [|split; [|split]].
  - intros h Hh. cbn [s_heap s_now] in *. apply rest_in in Hh. lia.
  - intros k e1 He1 Hl. cbn [s_ent s_heap] in *. destruct (Spec k) as [Sn [Ss _]].
    destruct (s_ent s0 k) as [e0|] eqn:E0; [|rewrite Sn in He1 by reflexivity; discriminate].
    destruct (Ss e0 eq_refl) as [A [B [C _]]].
    destruct A as [A|A]; rewrite A in He1; inversion He1; subst e1; [|cbn in Hl; lia].
    assert (Hin : In (e_pulled e0, k, true) (s_heap s0)) by (apply R4; assumption).
    apply rest_in. split; [exact Hin|]. cbn [h_when fst].
    destruct (Z_lt_le_dec (s_now s0) (e_pulled e0)) as [Hlt|Hle]; [exact Hlt|].
    assert (HinD : In (e_pulled e0, k, true) D) by (apply due_in; split; [exact Hin|cbn; lia]).
    destruct (B HinD) as [B1 _]. rewrite A in B1. inversion B1 as [B2]. destruct e0 as [a b c2]. unfold reset_pulled in B2. cbn in *. inversion B2. lia.
  - intros k e1 He1. cbn [s_ent s_cap] in *. destruct (Spec k) as [Sn [Ss _]].
    destruct (s_ent s0 k) as [e0|] eqn:E0; [eapply R5; eassumption|rewrite Sn in He1 by reflexivity; discriminate].
  - intros k e1 He1 Hs1 Hn1. cbn [s_ent s_now s_heap snd] in *. destruct (Spec k) as [Sn [Ss Sc]].
    destruct (s_ent s0 k) as [e0|] eqn:E0; [|rewrite Sn in He1 by reflexivity; discriminate].
    destruct (Ss e0 eq_refl) as [A [B [C Dd]]].
    assert (Hsame : e_started e1 = e_started e0 /\ e_next e1 = e_next e0).
    { destruct A as [A|A]; rewrite A in He1; inversion He1; subst e1; auto. }
    destruct Hsame as [Hst Hnx].
    assert (Hcand : c1 k = true -> (if full then all_slots ent1 else c1) k = true).
    { intros Hc. destruct full; [|exact Hc]. unfold all_slots. rewrite He1. reflexivity. }
    destruct (R6 k e0 E0 ltac:(congruence)) as [Hin|Horig].
    + left. apply Hcand. apply Sc. apply (cadd_fold (s_ent s0) (map a_slot ad ++ tk) (fun _ => false) k).
      * apply in_or_app. left. exact Hin.
      * rewrite E0. discriminate.
    + destruct (HI k e0 Horig ltac:(congruence) ltac:(congruence)) as [H1 [_ [h [C1 [C2 [C3 C4]]]]]].
      assert (Hh0 : In h (s_heap s0)) by (apply R3; exact C1).
      destruct (Z_lt_le_dec (s_now s0) (h_when h)) as [Hlt|Hle].
      * right. rewrite Hnx. split; [lia|]. exists h. cbn [s_heap s_ent]. split; [apply rest_in; split; [exact Hh0|exact Hlt]|].
        split; [exact C2|]. split; [exact C3|].
        destruct C4 as [C4|[x [Cx Cy]]]; [left; exact C4|]. right. rewrite Horig in Cx. inversion Cx. subst x.
        destruct A as [A|A]; [exists e0; split; [rewrite <- A; reflexivity|exact Cy]|].
        destruct (C A) as [Cm|Cm]; [unfold MAX_DT in *; lia|].
        apply due_in in Cm. cbn [h_when fst] in Cm. lia.
      * left. apply Hcand. assert (HhD : In h D) by (apply due_in; split; [exact Hh0|exact Hle]).
        rewrite (hent_eta h) in HhD. rewrite C2 in HhD.
        destruct C4 as [C4|[x [Cx Cy]]].
        -- rewrite C4 in HhD. apply (Dd (h_when h)). exact HhD.
        -- rewrite Horig in Cx. inversion Cx. subst x. destruct (h_pulled h) eqn:Ep.
           ++ rewrite <- Cy in HhD. apply B. exact HhD.
           ++ apply (Dd (h_when h)). exact HhD.
Qed.

(* ---- the evaluation loop ---- *)
Definition Base (s : st) : Prop := Fut s /\ Pinv s /\ Cinv s.

Lemma eval_slot_frame nexts k s :
  s_now (eval_slot nexts k s) = s_now s /\ s_done (eval_slot nexts k s) = s_done s /\
  incl (s_heap s) (s_heap (eval_slot nexts k s)) /\
  (forall k', k' <> k -> s_ent (eval_slot nexts k s) k' = s_ent s k') /\
  (s_ent s k = None -> s_ent (eval_slot nexts k s) k = None).
Proof.
  unfold eval_slot. destruct (s_ent s k) as [e|] eqn:Ek.
  2:{ split; [reflexivity|]. split; [reflexivity|]. split; [apply incl_refl|]. split; [reflexivity|]. auto. }
  destruct (negb (e_started e)).
  { split; [reflexivity|]. split; [reflexivity|]. split; [apply incl_refl|]. split; [reflexivity|]. intros H; discriminate H. }
  set (pr := if e_next e <=? s_now s then
               (mkE true (e_pulled e) (clamp_after (s_now s) (nexts k)),
                if clamp_after (s_now s) (nexts k) <? MAX_DT then psched (clamp_after (s_now s) (nexts k)) s else s)
             else (e, s)).
  assert (Hs1 : s_now (snd pr) = s_now s /\ s_done (snd pr) = s_done s /\ s_heap (snd pr) = s_heap s /\ s_ent (snd pr) = s_ent s).
  { unfold pr. destruct (e_next e <=? s_now s); cbn [snd]; [|auto].
    destruct (_ <? MAX_DT); [|auto]. destruct (psched_fields (clamp_after (s_now s) (nexts k)) s) as [A [B [C [D E]]]]. auto. }
  destruct pr as [e1 s1]. cbn [snd] in Hs1. destruct Hs1 as [A [B [C D]]].
  destruct ((e_next e1 <? MAX_DT) && (s_now s <? e_next e1)).
  - destruct (e_pulled e1 =? e_next e1); cbn [hpush set_heap set_ent s_now s_done s_heap s_ent].
    + split; [exact A|]. split; [exact B|]. split; [rewrite C; apply incl_refl|]. split; [|intros H; discriminate H].
      intros k' Hne. rewrite upd_other by exact Hne. rewrite D. reflexivity.
    + split; [exact A|]. split; [exact B|]. split; [rewrite C; intros x Hx; right; exact Hx|]. split; [|intros H; discriminate H].
      intros k' Hne. rewrite upd_other by exact Hne. rewrite D. reflexivity.
  - cbn [set_ent s_now s_done s_heap s_ent]. split; [exact A|]. split; [exact B|]. split; [rewrite C; apply incl_refl|]. split; [|intros H; discriminate H].
    intros k' Hne. rewrite upd_other by exact Hne. rewrite D. reflexivity.
Qed.

Lemma eval_slot_ok nexts k s :
  Base s -> Base (eval_slot nexts k s) /\ OK (eval_slot nexts k s) k.
Proof.
  intros [HF [HP HC]]. unfold eval_slot. destruct (s_ent s k) as [e|] eqn:Ek.
  2:{ split; [split; [|split]; assumption|]. intros x Hx. congruence. }
  destruct (e_started e) eqn:Es; cbn [negb].
  2:{ split; [split; [|split]; assumption|]. intros x Hx Hs. congruence. }
  set (pr := if e_next e <=? s_now s then
               (mkE true (e_pulled e) (clamp_after (s_now s) (nexts k)),
                if clamp_after (s_now s) (nexts k) <? MAX_DT then psched (clamp_after (s_now s) (nexts k)) s else s)
             else (e, s)).
  assert (Hs1 : s_now (snd pr) = s_now s /\ s_cap (snd pr) = s_cap s /\ s_heap (snd pr) = s_heap s /\ s_ent (snd pr) = s_ent s).
  { unfold pr. destruct (e_next e <=? s_now s); cbn [snd]; [|auto].
    destruct (_ <? MAX_DT); [|auto]. destruct (psched_fields (clamp_after (s_now s) (nexts k)) s) as [A [B [C [D E]]]]. auto. }
  assert (He1 : e_started (fst pr) = true /\ e_pulled (fst pr) = e_pulled e /\
                (e_next (fst pr) < MAX_DT -> s_now s < e_next (fst pr))).
  { unfold pr. destruct (e_next e <=? s_now s) eqn:E; cbn [fst e_started e_pulled e_next].
    - split; [reflexivity|]. split; [reflexivity|]. unfold clamp_after. destruct (nexts k <=? s_now s) eqn:E4; lia.
    - split; [exact Es|]. split; [reflexivity|]. lia. }
  destruct pr as [e1 s1]. cbn [fst snd] in *. destruct Hs1 as [A [Bc [C D]]]. destruct He1 as [E1 [E2 E3]].
  assert (Hk : (k < s_cap s)%nat) by (eapply HC; eassumption).
  destruct ((e_next e1 <? MAX_DT) && (s_now s <? e_next e1)) eqn:Epull.
  - destruct (e_pulled e1 =? e_next e1) eqn:Ecoal.
    + (* the same deadline is already in the queue *)
      assert (Hin : In (e_pulled e, k, true) (s_heap s)) by (apply HP; [exact Ek|lia]).
      split; [split; [|split]|].
      * intros h Hh. cbn [set_ent s_heap s_now] in *. rewrite A. apply HF. rewrite <- C. exact Hh.
      * intros k' x Hx Hl. cbn [set_ent s_heap s_ent] in *. rewrite C. destruct (Nat.eq_dec k' k) as [->|Hne].
        -- rewrite upd_same in Hx. inversion Hx. subst x. rewrite E2. exact Hin.
        -- rewrite upd_other in Hx by exact Hne. rewrite D in Hx. apply HP; assumption.
      * intros k' x Hx. cbn [set_ent s_cap s_ent] in *. rewrite Bc. destruct (Nat.eq_dec k' k) as [->|Hne]; [lia|].
        rewrite upd_other in Hx by exact Hne. rewrite D in Hx. specialize (HC k' x Hx). lia.
      * intros x Hx Hs Hn. cbn [set_ent s_ent s_now s_heap] in *. rewrite upd_same in Hx. inversion Hx. subst x.
        split; [lia|]. exists (e_pulled e, k, true). cbn [set_ent s_heap s_ent h_slot h_when h_pulled fst snd]. rewrite C.
        split; [exact Hin|]. split; [reflexivity|]. split; [lia|]. right. exists e1. rewrite upd_same. split; [reflexivity|lia].
    + (* a new deadline: push the pulled entry *)
      split; [split; [|split]|].
      * intros h Hh. cbn [hpush set_heap set_ent s_heap s_now] in *. rewrite A. destruct Hh as [<-|Hh]; [cbn; lia|].
        apply HF. rewrite <- C. exact Hh.
      * intros k' x Hx Hl. cbn [hpush set_heap set_ent s_heap s_ent] in *. rewrite C. destruct (Nat.eq_dec k' k) as [->|Hne].
        -- rewrite upd_same in Hx. inversion Hx. subst x. left. reflexivity.
        -- rewrite upd_other in Hx by exact Hne. rewrite D in Hx. right. apply HP; assumption.
      * intros k' x Hx. cbn [hpush set_heap set_ent s_cap s_ent] in *. rewrite Bc. destruct (Nat.eq_dec k' k) as [->|Hne]; [lia|].
        rewrite upd_other in Hx by exact Hne. rewrite D in Hx. specialize (HC k' x Hx). lia.
      * intros x Hx Hs Hn. cbn [hpush set_heap set_ent s_ent s_now s_heap] in *. rewrite upd_same in Hx. inversion Hx. subst x.
        cbn [e_next] in *. split; [lia|]. exists (e_next e1, k, true). cbn [hpush set_heap set_ent s_heap s_ent h_slot h_when h_pulled fst snd].
        split; [left; reflexivity|]. split; [reflexivity|]. split; [lia|]. right. eexists. rewrite upd_same. split; [reflexivity|reflexivity].
  - (* nothing pending: drop the pull marker *)
    split; [split; [|split]|].
    * intros h Hh. cbn [set_ent s_heap s_now] in *. rewrite A. apply HF. rewrite <- C. exact Hh.
    * intros k' x Hx Hl. cbn [set_ent s_heap s_ent] in *. rewrite C. destruct (Nat.eq_dec k' k) as [->|Hne].
      -- rewrite upd_same in Hx. inversion Hx. subst x. cbn in Hl. lia.
      -- rewrite upd_other in Hx by exact Hne. rewrite D in Hx. apply HP; assumption.
    * intros k' x Hx. cbn [set_ent s_cap s_ent] in *. rewrite Bc. destruct (Nat.eq_dec k' k) as [->|Hne]; [lia|].
      rewrite upd_other in Hx by exact Hne. rewrite D in Hx. specialize (HC k' x Hx). lia.
    * intros x Hx Hs Hn. cbn [set_ent s_ent s_now] in *. rewrite upd_same in Hx. inversion Hx. subst x. cbn [e_next] in *.
      specialize (E3 Hn). lia.
Qed.

(* OK and PreOK of another slot survive the evaluation of slot k *)
Lemma ok_frame nexts k s k' : k' <> k -> OK s k' -> OK (eval_slot nexts k s) k'.
Proof.
  intros Hne H. destruct (eval_slot_frame nexts k s) as [A [B [C [D E]]]].
  intros x Hx Hs Hn. rewrite D in Hx by exact Hne. rewrite A. destruct (H x Hx Hs Hn) as [H1 [h [G1 [G2 [G3 G4]]]]].
  split; [exact H1|]. exists h. split; [apply C; exact G1|]. split; [exact G2|]. split; [exact G3|]. rewrite D by exact Hne. exact G4.
Qed.

Lemma preok_frame nexts k s c k' : k' <> k -> PreOK s c k' -> PreOK (eval_slot nexts k s) c k'.
Proof.
  intros Hne H. destruct (eval_slot_frame nexts k s) as [A [B [C [D E]]]].
  intros x Hx Hs Hn. rewrite D in Hx by exact Hne. rewrite A. destruct (H x Hx Hs Hn) as [H1|[H1 [h [G1 [G2 [G3 G4]]]]]]; [left; exact H1|].
  right. split; [exact H1|]. exists h. split; [apply C; exact G1|]. split; [exact G2|]. split; [exact G3|]. rewrite D by exact Hne. exact G4.
Qed.

Lemma preok_ok s c k : c k = false -> PreOK s c k -> OK s k.
Proof. intros Hc H x Hx Hs Hn. destruct (H x Hx Hs Hn) as [H1|H1]; [congruence|exact H1]. Qed.

Lemma loop_facts nexts c : forall l s,
  NoDup l -> Base s -> (forall k, In k l -> PreOK s c k) ->
  let s' := fold_left (fun s k => if c k then eval_slot nexts k s else s) l s in
  Base s' /\ s_now s' = s_now s /\ s_done s' = s_done s /\
  (forall k, In k l -> OK s' k) /\
  (forall k, ~ In k l -> (OK s k -> OK s' k) /\ (s_ent s k = None -> s_ent s' k = None)).
Proof.
  induction l as [|k r IH]; intros s Hnd HB Hpre; cbn [fold_left].
  - split; [exact HB|]. split; [reflexivity|]. split; [reflexivity|]. split; [intros k []|]. intros k _. auto.
  - inversion Hnd as [|? ? Hnotin Hnd']. subst.
    set (s1 := if c k then eval_slot nexts k s else s).
    assert (HB1 : Base s1 /\ OK s1 k).
    { unfold s1. destruct (c k) eqn:Ec; [apply eval_slot_ok; exact HB|]. split; [exact HB|]. apply (preok_ok s c k Ec). apply Hpre. left. reflexivity. }
    destruct HB1 as [HB1 Hok1].
    assert (Hclock : s_now s1 = s_now s /\ s_done s1 = s_done s).
    { unfold s1. destruct (c k); [|auto]. destruct (eval_slot_frame nexts k s) as [A [B _]]. auto. }
    assert (Hpre1 : forall k', In k' r -> PreOK s1 c k').
    { intros k' Hin. assert (k' <> k) by (intros ->; contradiction). unfold s1. destruct (c k); [apply preok_frame; [assumption|]|]; apply Hpre; right; exact Hin. }
    destruct (IH s1 Hnd' HB1 Hpre1) as [I1 [I2 [I3 [I4 I5]]]]. cbn zeta in *.
    destruct Hclock as [Hc1 Hc2].
    split; [exact I1|]. split; [rewrite <- Hc1; exact I2|]. split; [rewrite <- Hc2; exact I3|]. split.
    + intros k' [<-|Hin]; [|apply I4; exact Hin]. apply (I5 k Hnotin). exact Hok1.
    + intros k' Hnin. assert (Hne : k' <> k) by (intros ->; apply Hnin; left; reflexivity).
      assert (Hnr : ~ In k' r) by (intros H; apply Hnin; right; exact H).
      destruct (I5 k' Hnr) as [J1 J2]. split.
      * intros H. apply J1. unfold s1. destruct (c k); [apply ok_frame; assumption|exact H].
      * intros H. apply J2. unfold s1. destruct (c k); [|exact H]. destruct (eval_slot_frame nexts k s) as [_ [_ [_ [D _]]]]. rewrite D by exact Hne. exact H.
Qed.

Lemma eval_loop_facts nexts c s :
  Base s -> (forall k, PreOK s c k) ->
  Base (eval_loop nexts c s) /\ s_now (eval_loop nexts c s) = s_now s /\ s_done (eval_loop nexts c s) = s_done s /\
  forall k, OK (eval_loop nexts c s) k.
Proof.
  intros HB Hpre. unfold eval_loop.
  destruct (loop_facts nexts c (seq 0 (s_cap s)) s (seq_NoDup _ _) HB (fun k _ => Hpre k)) as [A [B [C [D E]]]]. cbn zeta in *.
  split; [exact A|]. split; [exact B|]. split; [exact C|].
  intros k. destruct (in_dec Nat.eq_dec k (seq 0 (s_cap s))) as [Hin|Hnin]; [apply D; exact Hin|].
  intros x Hx. exfalso. destruct (E k Hnin) as [_ E2].
  destruct (s_ent s k) as [y|] eqn:Ey.
  - destruct HB as [_ [_ HC]]. specialize (HC k y Ey). apply Hnin. apply in_seq. lia.
  - rewrite (E2 eq_refl) in Hx. discriminate.
Qed.

(* ---- finish ---- *)
Lemma fut_due_nil t h : (forall x, In x h -> t < h_when x) -> due_part t h = [] /\ rest_part t h = h.
Proof.
  intros H. unfold due_part, rest_part. induction h as [|x r IH]; [auto|]. cbn [filter].
  assert (Hx : is_due t x = false) by (unfold is_due; specialize (H x (or_introl eq_refl)); lia).
  rewrite Hx. cbn [negb]. destruct IH as [I1 I2]; [intros y Hy; apply H; right; exact Hy|].
  split; [exact I1|]. rewrite I2. reflexivity.
Qed.

Lemma finish_good s : Base s -> (forall k, OK s k) -> Good (finish s) /\ s_done (finish s) = true /\ s_now (finish s) = s_now s.
Proof.
  intros [HF [HP HC]] Hok. unfold finish. destruct (fut_due_nil (s_now s) (s_heap s) HF) as [Hd Hr]. rewrite Hd, Hr. cbn [drain_end].
  set (s1 := mkS (s_now s) true (s_pslot s) (s_cap s) (s_ent s) (s_heap s)).
  assert (Hcommon : forall s2, s_now s2 = s_now s -> s_done s2 = true -> s_cap s2 = s_cap s -> s_ent s2 = s_ent s -> s_heap s2 = s_heap s ->
            (forall k e, s_ent s k = Some e -> e_started e = true -> e_next e < MAX_DT -> exists P, pend s2 = Some P /\ P <= e_next e) ->
            Good s2).
  { intros s2 A B C D E Hpend. split; [|split].
    - intros k e He Hs Hn. rewrite D in He. destruct (Hok k e He Hs Hn) as [H1 [h [G1 [G2 [G3 G4]]]]].
      rewrite A. split; [left; exact H1|]. split; [apply (Hpend k e); assumption|].
      exists h. rewrite E, D. auto.
    - intros k e He Hl. rewrite D in He. rewrite E. apply HP; assumption.
    - intros k e He. rewrite D in He. rewrite C. eapply HC; eassumption. }
  destruct (s_heap s) as [|h0 hr] eqn:Eh.
  - split; [|split; reflexivity]. apply Hcommon; try reflexivity.
    intros k e He Hs Hn. destruct (Hok k e He Hs Hn) as [_ [h [G1 _]]]. rewrite Eh in G1. destruct G1.
  - rewrite <- Eh.
    destruct (psched_fields (hmin MAX_DT (s_heap s)) s1) as [F1 [F2 [F3 [F4 F5]]]].
    split; [|split; [rewrite F2; reflexivity|rewrite F1; reflexivity]].
    apply Hcommon; try assumption.
    intros k e He Hs Hn. destruct (Hok k e He Hs Hn) as [H1 [h [G1 [G2 [G3 G4]]]]].
    assert (Hm1 : hmin MAX_DT (s_heap s) <= h_when h) by (apply hmin_le; exact G1).
    assert (Hm2 : s_now s < hmin MAX_DT (s_heap s)) by (apply hmin_lb; [lia|exact HF]).
    unfold pend, psched. subst s1. cbn [s_now s_pslot s_done].
    destruct ((s_pslot s <=? s_now s) || (hmin MAX_DT (s_heap s) <? s_pslot s)) eqn:E; cbn [s_now s_pslot s_done negb andb].
    + exists (hmin MAX_DT (s_heap s)). split; [|lia].
      destruct (s_now s <? hmin MAX_DT (s_heap s)) eqn:E2; [reflexivity|lia].
    + exists (s_pslot s). split; [|lia]. destruct (s_now s <? s_pslot s) eqn:E2; [reflexivity|lia].
Qed.

(* ---- Eval as a whole ---- *)
Lemma good_eval rm ad tk full nexts s : Good s -> Good (do_eval rm ad tk full nexts s).
Proof.
  intros HG. unfold do_eval. destruct (s_done s) eqn:Hd; [exact HG|].
  destruct HG as [HI [HP HC]].
  pose proof (reconcile_rec rm ad s HP HC) as HR.
  pose proof (prepare_facts ad tk full s (reconcile rm ad s) (conj HI (conj HP HC)) Hd HR) as Hprep.
  destruct (prepare ad tk full (reconcile rm ad s)) as [s1 c]. cbn [fst snd] in Hprep. cbn zeta in Hprep.
  destruct Hprep as [P1 [P2 [P3 [P4 [P5 P6]]]]].
  destruct (eval_loop_facts nexts c s1 (conj P3 (conj P4 P5)) P6) as [L1 [L2 [L3 L4]]].
  apply finish_good; assumption.
Qed.

Lemma good_step s o : Good s -> Good (step s o).
Proof.
  intros H. destruct o; cbn [step]; [apply good_tick|apply good_push|apply good_erase|apply good_eval]; exact H.
Qed.

Lemma reach_good ops : Good (reach ops).
Proof.
  unfold reach. induction ops as [|o r IH] using rev_ind; [exact good_init|].
  rewrite fold_left_app. cbn [fold_left]. apply good_step. exact IH.
Qed.

(* ------------------------------------------------------------------ the theorems of Props/C10.v *)
(* at every point of every run: a live child with pending time T is not overdue, the owning graph is bound to
   evaluate the map node no later than T, and a non-stale queue entry will make the child a candidate by T *)
Lemma no_child_wake_lost ops k e :
  let s := reach ops in
  s_ent s k = Some e -> e_started e = true -> e_next e < MAX_DT ->
  (s_now s < e_next e \/ (s_now s = e_next e /\ s_done s = false)) /\
  (exists P, pend s = Some P /\ P <= e_next e) /\
  covered s k (e_next e).
Proof. intros s. destruct (reach_good ops) as [HI _]. apply HI. Qed.

(* the owning graph cannot advance beyond a pending child time *)
Lemma tick_respects_children ops k e t :
  let s := reach ops in
  s_ent s k = Some e -> e_started e = true -> e_next e < MAX_DT -> tick_ok t s = true -> t <= e_next e.
Proof. intros s. apply tick_cannot_skip. apply reach_good. Qed.

(* every child that is due when the map node is evaluated is in the evaluation set, whatever the sparse
   candidate sources (ticked slots, full-scan flag) are *)
Lemma due_child_is_evaluated ops rm ad tk full k :
  let s := reach ops in
  s_done s = false ->
  let s1 := fst (prepare ad tk full (reconcile rm ad s)) in
  forall e, s_ent s1 k = Some e -> e_started e = true -> e_next e < MAX_DT -> e_next e <= s_now s ->
  evaluated_in rm ad tk full s k = true.
Proof.
  intros s Hd s1 e He Hs Hlt Hn. destruct (reach_good ops) as [HI [HP HC]]. fold s in HI, HP, HC.
  pose proof (reconcile_rec rm ad s HP HC) as HR.
  pose proof (prepare_facts ad tk full s (reconcile rm ad s) (conj HI (conj HP HC)) Hd HR) as Hprep.
  unfold evaluated_in. unfold s1 in *. destruct (prepare ad tk full (reconcile rm ad s)) as [s1' c]. cbn [fst snd] in *. cbn zeta in Hprep.
  destruct Hprep as [P1 [P2 [P3 [P4 [P5 P6]]]]].
  rewrite He, Hs. cbn [andb].
  assert (Hc : c k = true).
  { destruct (P6 k e He Hs Hlt) as [H|[H _]]; [exact H|lia]. }
  rewrite Hc. cbn [andb]. lia.
Qed.

(* ================================================================== what an evaluation does to one entry *)
Definition stopped_entry : entry := mkE false MAX_DT MAX_DT.

Lemma remove_slot_fields k s :
  s_now (remove_slot k s) = s_now s /\ s_done (remove_slot k s) = s_done s /\ s_pslot (remove_slot k s) = s_pslot s /\
  s_heap (remove_slot k s) = s_heap s.
Proof. unfold remove_slot. destruct (s_ent s k); cbn; auto. Qed.

Lemma remove_slot_ent r s k :
  s_ent (remove_slot r s) k = if Nat.eqb k r then option_map (fun _ => stopped_entry) (s_ent s k) else s_ent s k.
Proof.
  unfold remove_slot. destruct (Nat.eqb k r) eqn:E.
  - apply Nat.eqb_eq in E. subst r. destruct (s_ent s k) as [e|] eqn:Ek; [|rewrite Ek; reflexivity].
    cbn [set_ent s_ent]. rewrite upd_same. reflexivity.
  - assert (k <> r) by (intros ->; rewrite Nat.eqb_refl in E; discriminate).
    destruct (s_ent s r) as [e|]; [|reflexivity]. cbn [set_ent s_ent]. rewrite upd_other by assumption. reflexivity.
Qed.

Lemma remove_fold_ent rm : forall s k,
  s_ent (fold_left (fun s k => remove_slot k s) rm s) k =
  if existsb (Nat.eqb k) rm then option_map (fun _ => stopped_entry) (s_ent s k) else s_ent s k.
Proof.
  induction rm as [|r rm IH]; intros s k; cbn [fold_left existsb]; [reflexivity|].
  rewrite IH, remove_slot_ent.
  destruct (Nat.eqb k r); cbn [orb]; destruct (existsb (Nat.eqb k) rm); try reflexivity.
  destruct (s_ent s k); reflexivity.
Qed.

Lemma remove_fold_fields rm : forall s,
  s_now (fold_left (fun s k => remove_slot k s) rm s) = s_now s /\
  s_done (fold_left (fun s k => remove_slot k s) rm s) = s_done s /\
  s_pslot (fold_left (fun s k => remove_slot k s) rm s) = s_pslot s /\
  s_heap (fold_left (fun s k => remove_slot k s) rm s) = s_heap s.
Proof.
  induction rm as [|r rm IH]; intros s; cbn [fold_left]; [auto|].
  destruct (IH (remove_slot r s)) as [A [B [C D]]]. destruct (remove_slot_fields r s) as [A' [B' [C' D']]].
  repeat split; congruence.
Qed.

Definition fresh_entry (now : Z) (a : addspec) : entry := mkE true MAX_DT (clamp_next now (a_next a)).

Lemma create_slot_quiet a s : a_sampled a = false ->
  s_now (create_slot a s) = s_now s /\ s_done (create_slot a s) = s_done s /\ s_pslot (create_slot a s) = s_pslot s /\
  s_heap (create_slot a s) = s_heap s /\
  (forall k, s_ent (create_slot a s) k =
             if Nat.eqb k (a_slot a) then
               match s_ent s k with
               | Some e => if e_started e then Some e else Some (fresh_entry (s_now s) a)
               | None => Some (fresh_entry (s_now s) a)
               end
             else s_ent s k).
Proof.
  intros Hq. unfold create_slot. rewrite Hq.
  assert (Hset : forall k, s_ent (set_ent (a_slot a) (Some (fresh_entry (s_now s) a)) s) k =
                           if Nat.eqb k (a_slot a) then Some (fresh_entry (s_now s) a) else s_ent s k).
  { intros k. cbn [set_ent s_ent]. unfold upd. reflexivity. }
  destruct (s_ent s (a_slot a)) as [e|] eqn:Ea.
  - destruct (e_started e) eqn:Es.
    + repeat split; try reflexivity. intros k. destruct (Nat.eqb k (a_slot a)) eqn:E; [|reflexivity].
      apply Nat.eqb_eq in E. subst k. rewrite Ea, Es. reflexivity.
    + repeat split; try reflexivity. intros k. fold (fresh_entry (s_now s) a). rewrite Hset.
      destruct (Nat.eqb k (a_slot a)) eqn:E; [|reflexivity]. apply Nat.eqb_eq in E. subst k. rewrite Ea, Es. reflexivity.
  - repeat split; try reflexivity. intros k. fold (fresh_entry (s_now s) a). rewrite Hset.
    destruct (Nat.eqb k (a_slot a)) eqn:E; [|reflexivity]. apply Nat.eqb_eq in E. subst k. rewrite Ea. reflexivity.
Qed.

Lemma create_fold_quiet ad : (forall a, In a ad -> a_sampled a = false) -> forall s,
  let s' := fold_left (fun s a => create_slot a s) ad s in
  s_now s' = s_now s /\ s_done s' = s_done s /\ s_pslot s' = s_pslot s /\ s_heap s' = s_heap s /\
  (forall k, s_ent s' k =
             match find (fun a => Nat.eqb (a_slot a) k) ad with
             | Some a => match s_ent s k with
                         | Some e => if e_started e then Some e else Some (fresh_entry (s_now s) a)
                         | None => Some (fresh_entry (s_now s) a)
                         end
             | None => s_ent s k
             end).
Proof.
  induction ad as [|a r IH]; intros Hq s; cbn [fold_left find]; [repeat split; reflexivity|].
  destruct (create_slot_quiet a s (Hq a (or_introl eq_refl))) as [A [B [C [D E]]]].
  destruct (IH (fun a' H => Hq a' (or_intror H)) (create_slot a s)) as [A' [B' [C' [D' E']]]]. cbn zeta in *.
  split; [congruence|]. split; [congruence|]. split; [congruence|]. split; [congruence|].
  intros k. rewrite E', E, A. rewrite (Nat.eqb_sym (a_slot a) k).
  destruct (Nat.eqb k (a_slot a)) eqn:Ek.
  - destruct (s_ent s k) as [e|] eqn:Ee.
    + destruct (e_started e) eqn:Es; destruct (find _ r); cbn [fresh_entry e_started]; try rewrite Es; reflexivity.
    + destruct (find _ r); reflexivity.
  - reflexivity.
Qed.

(* the pure effect of one loop iteration on a started entry *)
Definition eslot_ent (nexts : nat -> Z) (t : Z) (k : nat) (e : entry) : entry :=
  let e1 := if e_next e <=? t then mkE true (e_pulled e) (clamp_after t (nexts k)) else e in
  let n := e_next e1 in
  if (n <? MAX_DT) && (t <? n) then (if e_pulled e1 =? n then e1 else mkE true n n) else mkE true MAX_DT n.

Lemma eslot_ent_facts nexts t k e : e_started e = true ->
  e_started (eslot_ent nexts t k e) = true /\
  e_next (eslot_ent nexts t k e) = if e_next e <=? t then clamp_after t (nexts k) else e_next e.
Proof.
  intros Hs. unfold eslot_ent. destruct (e_next e <=? t) eqn:E; cbn [e_next e_pulled e_started].
  - destruct ((clamp_after t (nexts k) <? MAX_DT) && (t <? clamp_after t (nexts k))); [|cbn; auto].
    destruct (e_pulled e =? clamp_after t (nexts k)); cbn; auto.
  - destruct ((e_next e <? MAX_DT) && (t <? e_next e)); [|cbn; auto].
    destruct (e_pulled e =? e_next e); cbn; auto.
Qed.

Lemma eval_slot_ent nexts k s :
  s_ent (eval_slot nexts k s) k =
  match s_ent s k with
  | Some e => if e_started e then Some (eslot_ent nexts (s_now s) k e) else Some e
  | None => None
  end.
Proof.
  unfold eval_slot, eslot_ent. destruct (s_ent s k) as [e|] eqn:Ek; [|exact Ek].
  destruct (e_started e) eqn:Es; cbn [negb]; [|exact Ek].
  destruct (e_next e <=? s_now s) eqn:Ed.
  - set (n := clamp_after (s_now s) (nexts k)).
    cbn [e_next e_pulled].
    destruct ((n <? MAX_DT) && (s_now s <? n)); [destruct (e_pulled e =? n)|]; cbn [hpush set_heap set_ent s_ent]; rewrite upd_same; reflexivity.
  - destruct ((e_next e <? MAX_DT) && (s_now s <? e_next e)); [destruct (e_pulled e =? e_next e)|];
      cbn [hpush set_heap set_ent s_ent]; rewrite upd_same; reflexivity.
Qed.

Lemma loop_ent (nexts : nat -> Z) (c : cset) : forall (l : list nat) (s : st) (k : nat), NoDup l ->
  s_ent (fold_left (fun s k => if c k then eval_slot nexts k s else s) l s) k =
  if existsb (Nat.eqb k) l && c k then s_ent (eval_slot nexts k s) k else s_ent s k.
Proof.
  induction l as [|x r IH]; intros s k Hnd; cbn [fold_left existsb]; [reflexivity|].
  inversion Hnd as [|? ? Hnotin Hnd']. subst.
  rewrite IH by exact Hnd'.
  destruct (Nat.eqb k x) eqn:E.
  - apply Nat.eqb_eq in E. subst x. cbn [orb].
    assert (Hex : existsb (Nat.eqb k) r = false).
    { destruct (existsb (Nat.eqb k) r) eqn:Ex; [|reflexivity]. apply existsb_exists in Ex. destruct Ex as [y [Hy Ey]].
      apply Nat.eqb_eq in Ey. subst y. contradiction. }
    rewrite Hex. cbn [andb]. destruct (c k); reflexivity.
  - cbn [orb]. assert (Hne : k <> x) by (intros ->; rewrite Nat.eqb_refl in E; discriminate).
    assert (Hsame : s_ent (if c x then eval_slot nexts x s else s) k = s_ent s k /\
                    s_now (if c x then eval_slot nexts x s else s) = s_now s).
    { destruct (c x); [|auto]. destruct (eval_slot_frame nexts x s) as [A [_ [_ [D _]]]]. split; [apply D; exact Hne|exact A]. }
    destruct Hsame as [H1 H2].
    destruct (existsb (Nat.eqb k) r && c k); [|exact H1].
    rewrite !eval_slot_ent, H1, H2. reflexivity.
Qed.

(* the outcome of a whole evaluation for slot k, in terms of the reconciled entry *)
Lemma do_eval_entry rm ad tk full nexts s k :
  Good s -> s_done s = false -> (forall a, In a ad -> a_sampled a = false) ->
  let s0 := reconcile rm ad s in
  let s' := do_eval rm ad tk full nexts s in
  match s_ent s0 k with
  | None => s_ent s' k = None
  | Some e0 =>
      exists e', s_ent s' k = Some e' /\ e_started e' = e_started e0 /\
        e_next e' = (if evaluated_in rm ad tk full s k then clamp_after (s_now s) (nexts k) else e_next e0) /\
        evaluated_in rm ad tk full s k =
          snd (prepare ad tk full s0) k && e_started e0 && (e_next e0 <=? s_now s)
  end.
Proof.
  intros HG Hd Hq s0 s'. destruct HG as [HI [HP HC]].
  pose proof (reconcile_rec rm ad s HP HC) as HR.
  pose proof (prepare_facts ad tk full s s0 (conj HI (conj HP HC)) Hd HR) as Hprep.
  unfold s', do_eval, evaluated_in. rewrite Hd. fold s0.
  assert (Hpent : forall k, match s_ent s0 k with
                            | None => s_ent (fst (prepare ad tk full s0)) k = None
                            | Some e0 => s_ent (fst (prepare ad tk full s0)) k = Some e0 \/
                                         s_ent (fst (prepare ad tk full s0)) k = Some (reset_pulled e0) end).
  { intros k'. unfold prepare.
    destruct (drain_due (due_part (s_now s0) (s_heap s0)) (s_ent s0) _) as [ent1 c1] eqn:Edr. cbn [fst s_ent].
    pose proof (drain_due_spec (due_part (s_now s0) (s_heap s0)) (s_ent s0)
                 (fold_left (fun c k => cadd (s_ent s0) k c) (map a_slot ad ++ tk) (fun _ => false)) k') as Sp.
    cbn zeta in Sp. rewrite Edr in Sp. cbn [fst snd] in Sp. destruct Sp as [Sn [Ss _]].
    destruct (s_ent s0 k') as [e0|]; [destruct (Ss e0 eq_refl) as [A _]; exact A|apply Sn; reflexivity]. }
  destruct (prepare ad tk full s0) as [s1 c] eqn:Eprep. cbn [fst snd] in *. cbn zeta in Hprep.
  destruct Hprep as [P1 [P2 [P3 [P4 [P5 P6]]]]].
  assert (Hnow0 : s_now s0 = s_now s) by (destruct HR as [R1 _]; exact R1).
  (* after the loop and finish *)
  assert (Hfin : match s_ent (eval_loop nexts c s1) k with
                           | None => s_ent (finish (eval_loop nexts c s1)) k = None
                           | Some e => exists e', s_ent (finish (eval_loop nexts c s1)) k = Some e' /\
                                                 e_started e' = e_started e /\ e_next e' = e_next e end).
  { unfold finish.
    set (sl := eval_loop nexts c s1).
    assert (Hent : s_ent (match rest_part (s_now sl) (s_heap sl) with
                          | [] => mkS (s_now sl) true (s_pslot sl) (s_cap sl) (drain_end (due_part (s_now sl) (s_heap sl)) (s_ent sl)) (rest_part (s_now sl) (s_heap sl))
                          | _ :: _ => psched (hmin MAX_DT (rest_part (s_now sl) (s_heap sl)))
                                        (mkS (s_now sl) true (s_pslot sl) (s_cap sl) (drain_end (due_part (s_now sl) (s_heap sl)) (s_ent sl)) (rest_part (s_now sl) (s_heap sl)))
                          end) = drain_end (due_part (s_now sl) (s_heap sl)) (s_ent sl)).
    { destruct (rest_part (s_now sl) (s_heap sl)); [reflexivity|]. apply psched_fields. }
    rewrite Hent. rewrite (drain_end_eq _ _ (fun _ => false)).
    pose proof (drain_due_spec (due_part (s_now sl) (s_heap sl)) (s_ent sl) (fun _ => false) k) as Sp. cbn zeta in Sp.
    destruct Sp as [Sn [Ss _]].
    destruct (s_ent sl k) as [e|]; [|apply Sn; reflexivity].
    destruct (Ss e eq_refl) as [[A|A] _]; rewrite A; eexists; split; try reflexivity; split; reflexivity. }
  unfold eval_loop in Hfin |- *. rewrite loop_ent in Hfin by apply seq_NoDup.
  specialize (Hpent k).
  destruct (s_ent s0 k) as [e0|] eqn:E0.
  - assert (Hs1 : exists e1, s_ent s1 k = Some e1 /\ e_started e1 = e_started e0 /\ e_next e1 = e_next e0).
    { destruct Hpent as [H|H]; rewrite H; eexists; split; try reflexivity; split; reflexivity. }
    destruct Hs1 as [e1 [H1 [H1s H1n]]]. rewrite H1, H1s, H1n.
    assert (Hk : (k < s_cap s1)%nat) by (eapply P5; eassumption).
    assert (Hex : existsb (Nat.eqb k) (seq 0 (s_cap s1)) = true).
    { apply existsb_exists. exists k. split; [apply in_seq; lia|apply Nat.eqb_refl]. }
    rewrite Hex in Hfin. cbn [andb] in Hfin.
    destruct (c k) eqn:Ec; cbn [andb].
    + rewrite eval_slot_ent, H1 in Hfin. destruct (e_started e0) eqn:Es0; rewrite H1s in Hfin; cbn [andb].
      * destruct Hfin as [e' [F1 [F2 F3]]]. destruct (eslot_ent_facts nexts (s_now s1) k e1 ltac:(congruence)) as [G1 G2].
        exists e'. split; [exact F1|]. split; [congruence|]. split; [|reflexivity].
        rewrite F3, G2, H1n, P1. destruct (e_next e0 <=? s_now s); reflexivity.
      * destruct Hfin as [e' [F1 [F2 F3]]]. exists e'. split; [exact F1|]. split; [congruence|]. split; [congruence|reflexivity].
    + rewrite H1 in Hfin. destruct Hfin as [e' [F1 [F2 F3]]]. exists e'. split; [exact F1|]. split; [congruence|]. split; [congruence|reflexivity].
  - destruct (existsb (Nat.eqb k) (seq 0 (s_cap s1)) && c k).
    + rewrite eval_slot_ent, Hpent in Hfin. exact Hfin.
    + rewrite Hpent in Hfin. exact Hfin.
Qed.

(* a due, started entry of the reconciled store is a candidate: with [do_eval_entry] this is
   [due_child_is_evaluated] phrased for any state satisfying the invariant *)
Lemma cand_due rm ad tk full s k e0 :
  Good s -> s_done s = false ->
  s_ent (reconcile rm ad s) k = Some e0 -> e_started e0 = true -> e_next e0 < MAX_DT -> e_next e0 <= s_now s ->
  snd (prepare ad tk full (reconcile rm ad s)) k = true.
Proof.
  intros [HI [HP HC]] Hd E0 Hs Hl Hn.
  pose proof (reconcile_rec rm ad s HP HC) as HR.
  pose proof (prepare_facts ad tk full s (reconcile rm ad s) (conj HI (conj HP HC)) Hd HR) as Hprep.
  set (s0 := reconcile rm ad s) in *.
  assert (Hpent : s_ent (fst (prepare ad tk full s0)) k = Some e0 \/ s_ent (fst (prepare ad tk full s0)) k = Some (reset_pulled e0)).
  { unfold prepare.
    destruct (drain_due (due_part (s_now s0) (s_heap s0)) (s_ent s0) _) as [ent1 c1] eqn:Edr. cbn [fst s_ent].
    pose proof (drain_due_spec (due_part (s_now s0) (s_heap s0)) (s_ent s0)
                 (fold_left (fun c k => cadd (s_ent s0) k c) (map a_slot ad ++ tk) (fun _ => false)) k) as Sp.
    cbn zeta in Sp. rewrite Edr in Sp. cbn [fst snd] in Sp. destruct Sp as [_ [Ss _]].
    destruct (Ss e0 E0) as [A _]. exact A. }
  destruct (prepare ad tk full s0) as [s1 c]. cbn [fst snd] in *. cbn zeta in Hprep.
  destruct Hprep as [P1 [P2 [P3 [P4 [P5 P6]]]]].
  destruct Hpent as [H|H].
  - destruct (P6 k e0 H Hs Hl) as [Hc|[Hc _]]; [exact Hc|lia].
  - destruct (P6 k (reset_pulled e0) H Hs Hl) as [Hc|[Hc _]]; [exact Hc|cbn in Hc; lia].
Qed.

(* input notifications for the current time, before the map node runs *)
Lemma do_push_now k s :
  s_done s = false ->
  let s' := do_push k (s_now s) s in
  s_now s' = s_now s /\ s_done s' = false /\
  (forall k', s_ent s' k' =
      match s_ent s k' with
      | Some e => if Nat.eqb k' k && e_started e then Some (mkE true (e_pulled e) (Z.min (e_next e) (s_now s))) else Some e
      | None => None
      end).
Proof.
  intros Hd. unfold do_push. rewrite Z.max_id.
  destruct (s_ent s k) as [e|] eqn:Ek.
  2:{ split; [reflexivity|]. split; [exact Hd|]. intros k'. destruct (s_ent s k') as [x|] eqn:Ex; [|reflexivity].
      destruct (Nat.eqb k' k) eqn:E; [apply Nat.eqb_eq in E; subst; congruence|reflexivity]. }
  assert (Hok : push_ok (s_now s) s = true).
  { unfold push_ok. rewrite Hd. cbn [negb]. rewrite Z.ltb_irrefl. cbn. rewrite andb_false_r. reflexivity. }
  rewrite Hok, andb_true_r.
  destruct (e_started e) eqn:Es.
  - match goal with |- context [psched ?ww ?ss] => destruct (psched_fields ww ss) as [F1 [F2 [F3 [F4 F5]]]] end.
    rewrite F1, F2, F4. cbn [hpush set_heap set_ent s_now s_done s_ent]. split; [reflexivity|]. split; [exact Hd|].
    intros k'. destruct (Nat.eqb k' k) eqn:E.
    + apply Nat.eqb_eq in E. subst k'. rewrite upd_same, Ek, Es. reflexivity.
    + assert (k' <> k) by (intros ->; rewrite Nat.eqb_refl in E; discriminate). rewrite upd_other by assumption.
      destruct (s_ent s k'); reflexivity.
  - split; [reflexivity|]. split; [exact Hd|]. intros k'. destruct (s_ent s k') as [x|] eqn:Ex; [|reflexivity].
    destruct (Nat.eqb k' k) eqn:E; [|reflexivity]. apply Nat.eqb_eq in E. subst k'. rewrite Ek in Ex. inversion Ex. subst x. rewrite Es. reflexivity.
Qed.

Lemma push_fold_now l : forall s,
  s_done s = false ->
  let s' := fold_left (fun s k => do_push k (s_now s) s) l s in
  s_now s' = s_now s /\ s_done s' = false /\
  (forall k', match s_ent s k' with
              | Some e => exists e', s_ent s' k' = Some e' /\ e_started e' = e_started e /\
                            e_next e' = (if existsb (Nat.eqb k') l && e_started e then Z.min (e_next e) (s_now s) else e_next e)
              | None => s_ent s' k' = None
              end).
Proof.
  induction l as [|k r IH]; intros s Hd; cbn [fold_left existsb].
  - split; [reflexivity|]. split; [exact Hd|]. intros k'. destruct (s_ent s k'); [eexists; split; [reflexivity|]; split; reflexivity|reflexivity].
  - destruct (do_push_now k s Hd) as [A [B C]]. cbn zeta in *.
    destruct (IH (do_push k (s_now s) s) B) as [A' [B' C']]. cbn zeta in *.
    split; [congruence|]. split; [exact B'|]. intros k'. specialize (C k'). specialize (C' k'). rewrite C in C'.
    destruct (s_ent s k') as [e|]; [|exact C'].
    destruct (Nat.eqb k' k && e_started e) eqn:E.
    + destruct C' as [e' [H1 [H2 H3]]]. exists e'. split; [exact H1|]. cbn [e_started e_next] in *.
      apply andb_true_iff in E. destruct E as [E1 E2]. split; [congruence|]. rewrite H3, E1, E2, A. cbn [orb andb].
      destruct (existsb (Nat.eqb k') r); cbn [andb]; lia.
    + destruct C' as [e' [H1 [H2 H3]]]. exists e'. split; [exact H1|]. split; [exact H2|]. rewrite H3, A.
      destruct (Nat.eqb k' k) eqn:E1; cbn [orb andb] in *; [rewrite E; destruct (existsb (Nat.eqb k') r); cbn; rewrite ?E; reflexivity|reflexivity].
Qed.

Lemma push_fold_good l : forall s, Good s -> Good (fold_left (fun s k => do_push k (s_now s) s) l s).
Proof. induction l as [|k r IH]; intros s H; cbn [fold_left]; [exact H|]. apply IH. apply good_push. exact H. Qed.
