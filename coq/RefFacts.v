(* RefFacts.v — lemmas and proofs about the reference model of Ref.v (property C13).

   The script-level SPECIFICATION notions used by the theorems are pure folds over
   the cycle list, independent of the link / selector state machine:
     spec_tgt sh i cs   the history of target i: just its own ticks
     spec_sel op cs     the target designated by the latest selector value
   The main invariant [Inv] says that after ANY well-formed history the mechanism's
   state agrees with them: the reference output and the dereferencing link both
   designate spec_sel, and all modification times are bounded by the last cycle. *)
Require Import Base Ref.
From Coq Require Import ZifyBool.

(* ------------------------------------------------------------------ specification notions *)
Definition tick_step (sh : shape) (i : nat) (g : target) (c : cyc) : target :=
  match tick_of c i with Some p => tick_target sh (c_t c) p g | None => g end.
Definition spec_tgt (sh : shape) (i : nat) (cs : list cyc) : target := fold_left (tick_step sh i) cs t0.

(* the selection operators as a fold over the script (independent of targets and link);
   for the plain ops this is "the target designated by the latest selector value", for
   the chained ops (6, 7) the composition of the two selectors of Ref.sel_eval *)
Definition selst_step (op : Z) (ss : selst) (c : cyc) : selst := fst (sel_eval op ss (c_sel c) (c_sel2 c)).
Definition spec_selst (op : Z) (cs : list cyc) : selst := fold_left (selst_step op) cs sel0.
Definition spec_sel (op : Z) (cs : list cyc) : option nat := s_out (spec_selst op cs).
Definition sel_step (op : Z) (ss : selst) (c : cyc) : option nat := s_out (selst_step op ss c).

Definition last_t (cs : list cyc) : Z := fold_left (fun _ c => c_t c) cs 0.

(* well-formed history: times strictly increasing, all after MIN_DT *)
Fixpoint wf_from (lo : Z) (cs : list cyc) : Prop :=
  match cs with [] => True | c :: r => lo < c_t c /\ wf_from (c_t c) r end.
Definition wf (cs : list cyc) : Prop := wf_from 0 cs.

(* state and output of the last cycle c after the history pre *)
Definition st_after (sh : shape) (op : Z) (cs : list cyc) : state := fst (run sh op s0 cs).
Definition last_out (sh : shape) (op : Z) (pre : list cyc) (c : cyc) : cout :=
  snd (step sh op (st_after sh op pre) c).

(* ------------------------------------------------------------------ run, by prefixes *)
Lemma run_app sh op st a b :
  run sh op st (a ++ b) =
  (fst (run sh op (fst (run sh op st a)) b), snd (run sh op st a) ++ snd (run sh op (fst (run sh op st a)) b)).
Proof.
  revert st; induction a as [|c a IH]; intros st; simpl.
  - destruct (run sh op st b); reflexivity.
  - destruct (step sh op st c) as [st1 o] eqn:E.
    rewrite IH. destruct (run sh op st1 a) as [st2 os] eqn:E2. simpl.
    destruct (run sh op st2 b); reflexivity.
Qed.

Lemma st_after_snoc sh op pre c :
  st_after sh op (pre ++ [c]) = fst (step sh op (st_after sh op pre) c).
Proof.
  unfold st_after. rewrite run_app. simpl.
  destruct (step sh op (fst (run sh op s0 pre)) c); reflexivity.
Qed.

Lemma run_snoc_out sh op pre c :
  snd (run sh op s0 (pre ++ [c])) = snd (run sh op s0 pre) ++ [last_out sh op pre c].
Proof.
  rewrite run_app. simpl. unfold last_out, st_after.
  destruct (step sh op (fst (run sh op s0 pre)) c); reflexivity.
Qed.

(* every cycle output of every run is the [last_out] of a prefix *)
Lemma run_outputs sh op cs o :
  In o (snd (run sh op s0 cs)) -> exists pre c post, cs = pre ++ c :: post /\ o = last_out sh op pre c.
Proof.
  induction cs as [|c cs IH] using rev_ind; intros H.
  - simpl in H. contradiction.
  - rewrite run_snoc_out in H. apply in_app_or in H. destruct H as [H|H].
    + destruct (IH H) as (pre & c' & post & -> & ->).
      exists pre, c', (post ++ [c]). split; [now rewrite <- app_assoc|reflexivity].
    + destruct H as [<-|[]]. exists cs, c, []. split; reflexivity.
Qed.

Lemma wf_from_app lo a c :
  wf_from lo (a ++ [c]) <-> wf_from lo a /\ (fold_left (fun _ x => c_t x) a lo) < c_t c.
Proof.
  revert lo; induction a as [|x a IH]; intros lo; simpl.
  - tauto.
  - rewrite IH. tauto.
Qed.

Lemma wf_snoc pre c : wf (pre ++ [c]) <-> wf pre /\ last_t pre < c_t c.
Proof. apply wf_from_app. Qed.

Lemma wf_prefix pre post : wf (pre ++ post) -> wf pre.
Proof.
  unfold wf. generalize 0. induction pre as [|x a IH]; intros lo H; simpl in *; auto.
  destruct H; split; eauto.
Qed.

Lemma last_t_snoc pre c : last_t (pre ++ [c]) = c_t c.
Proof. unfold last_t. rewrite fold_left_app. reflexivity. Qed.

Lemma last_t_nonneg_from lo cs : 0 <= lo -> wf_from lo cs -> lo <= fold_left (fun _ x => c_t x) cs lo.
Proof.
  revert lo; induction cs as [|c r IH]; intros lo Hlo H; simpl in *; [lia|].
  destruct H as [H1 H2]. specialize (IH (c_t c) ltac:(lia) H2). lia.
Qed.
Lemma last_t_nonneg cs : wf cs -> 0 <= last_t cs.
Proof. intros H. apply (last_t_nonneg_from 0 cs); [lia|exact H]. Qed.

Lemma spec_tgt_snoc sh i pre c : spec_tgt sh i (pre ++ [c]) = tick_step sh i (spec_tgt sh i pre) c.
Proof. unfold spec_tgt. rewrite fold_left_app. reflexivity. Qed.
Lemma spec_selst_snoc op pre c : spec_selst op (pre ++ [c]) = selst_step op (spec_selst op pre) c.
Proof. unfold spec_selst. rewrite fold_left_app. reflexivity. Qed.
Lemma spec_sel_snoc op pre c : spec_sel op (pre ++ [c]) = sel_step op (spec_selst op pre) c.
Proof. unfold spec_sel, sel_step. rewrite spec_selst_snoc. reflexivity. Qed.

Lemma sel_target_lt3 op v : (sel_target op v < 3)%nat.
Proof. unfold sel_target. repeat match goal with |- context [if ?b then _ else _] => destruct b end; lia. Qed.

(* identities (node, path) are equal exactly when the target indices are: two fields of one
   producer differ in the path, two source nodes differ in the node *)
Lemma same_target_eqb op a b : same_target op a b = Nat.eqb a b.
Proof.
  unfold same_target, tid_eqb, tid_of. destruct (same_producer op); simpl.
  - reflexivity.
  - rewrite andb_true_r. reflexivity.
Qed.

Lemma publish_some op s out j : publish op s out = Some j -> j = s /\ out <> Some j.
Proof.
  unfold publish. destruct out as [cur|]; rewrite ?same_target_eqb.
  - destruct (Nat.eqb cur s) eqn:E; [discriminate|]. apply Nat.eqb_neq in E. intros [= <-]. split; [reflexivity|congruence].
  - intros [= <-]. split; [reflexivity|discriminate].
Qed.

Ltac sel_cases :=
  repeat match goal with
         | |- context [match ?x with _ => _ end] => destruct x eqn:?
         | H : context [match ?x with _ => _ end] |- _ => destruct x eqn:?
         end.

(* shape of one selection step: the new reference value is the published one, else the old *)
Lemma sel_eval_out op ss a b :
  s_out (fst (sel_eval op ss a b)) = match snd (sel_eval op ss a b) with Some s => Some s | None => s_out ss end.
Proof. unfold sel_eval. destruct (chained op); reflexivity. Qed.

(* whatever is published went through the same-reference de-duplication *)
Lemma sel_eval_pub op ss a b j :
  snd (sel_eval op ss a b) = Some j -> exists s, publish op s (s_out ss) = Some j.
Proof.
  unfold sel_eval, selector. destruct (chained op); simpl; intros H; sel_cases; try discriminate; eauto.
Qed.

Definition sel_bounded (ss : selst) : Prop :=
  (forall j, s_in ss = Some j -> (j < 3)%nat) /\ (forall j, s_out ss = Some j -> (j < 3)%nat).

Lemma sel_eval_bounded op ss a b : sel_bounded ss -> sel_bounded (fst (sel_eval op ss a b)).
Proof.
  intros [Hi Ho]. unfold sel_bounded, sel_eval, selector.
  destruct (chained op); simpl; split; intros j H; sel_cases; try discriminate;
    repeat match goal with
           | H : publish _ _ _ = Some _ |- _ => apply publish_some in H; destruct H as [-> _]
           | H : Some _ = Some _ |- _ => injection H as <-
           end; subst; auto using sel_target_lt3; try lia.
Qed.

Lemma spec_selst_bounded op cs : sel_bounded (spec_selst op cs).
Proof.
  induction cs as [|c cs IH] using rev_ind.
  - split; intros j H; discriminate.
  - rewrite spec_selst_snoc. apply sel_eval_bounded. exact IH.
Qed.

Lemma spec_sel_lt3 op cs j : spec_sel op cs = Some j -> (j < 3)%nat.
Proof. intros H. apply (proj2 (spec_selst_bounded op cs)). exact H. Qed.

(* ------------------------------------------------------------------ the targets follow their own history *)
Lemma get_tick_all sh t ps ts i :
  (i < length ts)%nat ->
  get_t (tick_all sh t ps ts) i =
  match nth i ps None with Some p => tick_target sh t p (get_t ts i) | None => get_t ts i end.
Proof.
  revert ps i; induction ts as [|g r IH]; intros ps i Hi; simpl in Hi; [lia|].
  destruct ps as [|[p|] ps']; simpl.
  - destruct i; reflexivity.
  - destruct i as [|i]; [reflexivity|]. unfold get_t in *. simpl. apply IH. lia.
  - destruct i as [|i]; [reflexivity|]. unfold get_t in *. simpl. apply IH. lia.
Qed.

Lemma tick_all_length sh t ps ts : length (tick_all sh t ps ts) = length ts.
Proof.
  revert ps; induction ts as [|g r IH]; intros ps; simpl; [reflexivity|].
  destruct ps as [|[p|] ps']; simpl; auto.
Qed.

(* ------------------------------------------------------------------ the invariant *)
Record Inv (sh : shape) (op : Z) (pre : list cyc) (st : state) : Prop := mkInv {
  inv_len  : length (tgts st) = 3%nat;
  inv_tgt  : forall i, (i < 3)%nat -> get_t (tgts st) i = spec_tgt sh i pre;
  inv_rout : sel st = spec_selst op pre;
  inv_lk   : lk_tgt (lnk st) = spec_sel op pre;
  inv_lmt  : lk_lmt (lnk st) <= last_t pre;
  inv_tr   : lk_trans (lnk st) <= last_t pre;
  inv_tlmt : forall i, tlmt (spec_tgt sh i pre) <= last_t pre }.

Lemma spec_tgt_lmt_le sh i cs : wf cs -> tlmt (spec_tgt sh i cs) <= last_t cs.
Proof.
  induction cs as [|c cs IH] using rev_ind; intros H.
  - simpl. unfold last_t, MIN_DT. simpl. lia.
  - apply wf_snoc in H. destruct H as [H1 H2]. specialize (IH H1).
    rewrite spec_tgt_snoc, last_t_snoc. unfold tick_step.
    destruct (tick_of c i); simpl; lia.
Qed.

(* the consumer-side reference output publishes exactly when the designated target changes *)
Definition pub_of (op : Z) (ss : selst) (c : cyc) : option nat := snd (sel_eval op ss (c_sel c) (c_sel2 c)).

Lemma pub_none op ss c : pub_of op ss c = None <-> sel_step op ss c = s_out ss.
Proof.
  unfold pub_of, sel_step, selst_step. rewrite sel_eval_out.
  destruct (snd (sel_eval op ss (c_sel c) (c_sel2 c))) as [j|] eqn:E; [|tauto].
  destruct (sel_eval_pub _ _ _ _ _ E) as [s Hs]. apply publish_some in Hs. destruct Hs as [_ Hne].
  split; [discriminate|]. intros H. symmetry in H. contradiction.
Qed.

Lemma pub_some op ss c j : pub_of op ss c = Some j <-> (sel_step op ss c = Some j /\ s_out ss <> Some j).
Proof.
  unfold pub_of, sel_step, selst_step. rewrite sel_eval_out.
  destruct (snd (sel_eval op ss (c_sel c) (c_sel2 c))) as [k|] eqn:E.
  - destruct (sel_eval_pub _ _ _ _ _ E) as [s Hs]. apply publish_some in Hs. destruct Hs as [_ Hne].
    split; [intros [= <-]; auto|intros [[= <-] _]; reflexivity].
  - split; [discriminate|]. intros [H1 H2]. contradiction.
Qed.

(* rebind to a different target always installs it *)
Lemma rebind_tgt sh op t ts s l : lk_tgt (fst (rebind sh op t ts s l)) = Some s \/ (lk_tgt l = Some s /\ fst (rebind sh op t ts s l) = l).
Proof.
  unfold rebind. destruct (lk_tgt l) as [cur|] eqn:E; rewrite ?same_target_eqb.
  - destruct (Nat.eqb cur s) eqn:E2.
    + right. apply Nat.eqb_eq in E2. subst. simpl. auto.
    + left. repeat match goal with |- context [if ?b then _ else _] => destruct b end; reflexivity.
  - left. repeat match goal with |- context [if ?b then _ else _] => destruct b end; reflexivity.
Qed.

Lemma rebind_times sh op t ts s l T :
  lk_lmt l <= T -> lk_trans l <= T -> 0 <= T -> T <= t ->
  lk_lmt (fst (rebind sh op t ts s l)) <= t /\ lk_trans (fst (rebind sh op t ts s l)) <= t.
Proof.
  intros H1 H2 H3 H4. unfold rebind, MIN_DT.
  repeat match goal with |- context [if ?b then _ else _] => destruct b end; simpl; lia.
Qed.

Lemma step_inv sh op pre st c :
  wf (pre ++ [c]) -> Inv sh op pre st -> Inv sh op (pre ++ [c]) (fst (step sh op st c)).
Proof.
  intros Hwf [Hlen Htg Hro Hlk Hlmt Htr Htl].
  pose proof (proj1 (wf_snoc pre c) Hwf) as [Hwp Hlt].
  pose proof (last_t_nonneg pre Hwp) as Hnn.
  unfold step.
  set (ts := tick_all sh (c_t c) (c_ticks c) (tgts st)).
  set (bt := match lk_tgt (lnk st) with Some i => ticks c i | None => false end).
  set (l1 := if bt then mkL (lk_tgt (lnk st)) (c_t c) (lk_trans (lnk st)) (lk_prev (lnk st)) (lk_stale (lnk st)) else lnk st).
  assert (Hl1t : lk_tgt l1 = lk_tgt (lnk st)) by (unfold l1; destruct bt; reflexivity).
  assert (Hl1m : lk_lmt l1 <= c_t c) by (unfold l1; destruct bt; simpl; lia).
  assert (Hl1r : lk_trans l1 <= last_t pre) by (unfold l1; destruct bt; simpl; lia).
  destruct (sel_eval op (sel st) (c_sel c) (c_sel2 c)) as [ss' pub] eqn:Ese.
  assert (Hss : ss' = spec_selst op (pre ++ [c])).
  { rewrite spec_selst_snoc. unfold selst_step. rewrite <- Hro, Ese. reflexivity. }
  assert (Hpub : pub = pub_of op (spec_selst op pre) c).
  { unfold pub_of. rewrite <- Hro, Ese. reflexivity. }
  destruct pub as [s|].
  - destruct (rebind sh op (c_t c) ts s l1) as [l2 rn] eqn:Er. simpl.
    symmetry in Hpub. apply pub_some in Hpub. destruct Hpub as [Es Hne].
    constructor; simpl.
    + unfold ts. rewrite tick_all_length. exact Hlen.
    + intros i Hi. unfold ts. rewrite get_tick_all by lia. rewrite spec_tgt_snoc. unfold tick_step, tick_of.
      rewrite Htg by exact Hi. reflexivity.
    + exact Hss.
    + rewrite spec_sel_snoc, Es.
      pose proof (rebind_tgt sh op (c_t c) ts s l1) as R. rewrite Er in R. simpl in R.
      destruct R as [R|[R _]]; [exact R|]. rewrite Hl1t, Hlk in R. contradiction.
    + rewrite last_t_snoc.
      pose proof (rebind_times sh op (c_t c) ts s l1 (c_t c) Hl1m ltac:(lia) ltac:(lia) ltac:(lia)) as R.
      rewrite Er in R. simpl in R. lia.
    + rewrite last_t_snoc.
      pose proof (rebind_times sh op (c_t c) ts s l1 (c_t c) Hl1m ltac:(lia) ltac:(lia) ltac:(lia)) as R.
      rewrite Er in R. simpl in R. lia.
    + intros i. apply spec_tgt_lmt_le. exact Hwf.
  - simpl. symmetry in Hpub. apply pub_none in Hpub.
    constructor; simpl.
    + unfold ts. rewrite tick_all_length. exact Hlen.
    + intros i Hi. unfold ts. rewrite get_tick_all by lia. rewrite spec_tgt_snoc. unfold tick_step, tick_of.
      rewrite Htg by exact Hi. reflexivity.
    + exact Hss.
    + rewrite spec_sel_snoc, Hpub, Hl1t. exact Hlk.
    + rewrite last_t_snoc. exact Hl1m.
    + rewrite last_t_snoc. lia.
    + intros i. apply spec_tgt_lmt_le. exact Hwf.
Qed.

Lemma inv_s0 sh op : Inv sh op [] s0.
Proof.
  constructor; simpl; try reflexivity; unfold last_t, MIN_DT; simpl; try lia.
  all: intros i; try intros Hi; try lia.
  all: destruct i as [|[|[|i]]]; try reflexivity; lia.
Qed.

Lemma inv_reach sh op cs : wf cs -> Inv sh op cs (st_after sh op cs).
Proof.
  induction cs as [|c cs IH] using rev_ind; intros H.
  - apply inv_s0.
  - rewrite st_after_snoc. apply step_inv; [exact H|]. apply IH. apply wf_snoc in H. tauto.
Qed.

(* ------------------------------------------------------------------ anatomy of one cycle *)
Definition bound_ticked (old : option nat) (c : cyc) : bool :=
  match old with Some i => ticks c i | None => false end.

Definition old_view (sh : shape) (old : option nat) (pre : list cyc) : kv :=
  match old with Some i => tval (spec_tgt sh i pre) | None => [] end.
Definition old_stale (sh : shape) (old : option nat) (pre : list cyc) (c : cyc) : list Z :=
  match old with Some i => if ticks c i then [] else trem (spec_tgt sh i pre) | None => [] end.

Definition retargets (op : Z) (ss : selst) (c : cyc) : bool :=
  match pub_of op ss c with Some _ => true | None => false end.

Lemma retargets_false op ss c : retargets op ss c = false <-> sel_step op ss c = s_out ss.
Proof. unfold retargets. rewrite <- pub_none. destruct (pub_of op ss c); split; congruence. Qed.

(* The last cycle, described through the specification notions only. *)
Lemma last_out_cases sh op pre c :
  wf (pre ++ [c]) ->
  let old := spec_sel op pre in
  let cur := spec_sel op (pre ++ [c]) in
  let t := c_t c in
  let o := last_out sh op pre c in
  exists (ts : list target) (l1 l2 : link) (rn : bool),
    length ts = 3%nat /\
    (forall i, (i < 3)%nat -> get_t ts i = spec_tgt sh i (pre ++ [c])) /\
    lk_tgt l1 = old /\ lk_trans l1 <= last_t pre /\
    (bound_ticked old c = true -> lk_lmt l1 = t) /\
    (bound_ticked old c = false -> lk_lmt l1 <= last_t pre) /\
    ((cur = old /\ l2 = l1 /\ rn = false /\ o_ref o = false) \/
     (exists j, cur = Some j /\ old <> Some j /\ rebind sh op t ts j l1 = (l2, rn) /\ o_ref o = true)) /\
    o_cons o = consumers (bound_ticked old c || rn || (c_nest c && (retargets op (spec_selst op pre) c || c_poke c)))
                         (c_poke c) (c_force c) (read sh t ts l2) /\
    o_direct o = directs c ts /\ o_t o = t.
Proof.
  intros Hwf old cur t o.
  pose proof (proj1 (wf_snoc pre c) Hwf) as [Hwp Hlt].
  destruct (inv_reach sh op pre Hwp) as [Hlen Htg Hro Hlk Hlmt Htr Htl].
  set (st := st_after sh op pre) in *.
  unfold o, last_out. fold st. unfold step.
  set (ts := tick_all sh (c_t c) (c_ticks c) (tgts st)).
  rewrite Hlk. fold old. fold (bound_ticked old c).
  set (l1 := if bound_ticked old c then mkL old (c_t c) (lk_trans (lnk st)) (lk_prev (lnk st)) (lk_stale (lnk st)) else lnk st).
  assert (Hts : forall i, (i < 3)%nat -> get_t ts i = spec_tgt sh i (pre ++ [c])).
  { intros i Hi. unfold ts. rewrite get_tick_all by lia. rewrite spec_tgt_snoc. unfold tick_step, tick_of.
    rewrite Htg by exact Hi. reflexivity. }
  assert (Hl1t : lk_tgt l1 = old) by (unfold l1; destruct (bound_ticked old c); [reflexivity|exact Hlk]).
  assert (Hl1r : lk_trans l1 <= last_t pre) by (unfold l1; destruct (bound_ticked old c); simpl; lia).
  assert (Hl1a : bound_ticked old c = true -> lk_lmt l1 = t) by (unfold l1; intros ->; reflexivity).
  assert (Hl1b : bound_ticked old c = false -> lk_lmt l1 <= last_t pre) by (unfold l1; intros ->; exact Hlmt).
  assert (Hlts : length ts = 3%nat) by (unfold ts; rewrite tick_all_length; exact Hlen).
  rewrite Hro.
  destruct (sel_eval op (spec_selst op pre) (c_sel c) (c_sel2 c)) as [ss' pub] eqn:Ese.
  assert (Ep : pub_of op (spec_selst op pre) c = pub) by (unfold pub_of; rewrite Ese; reflexivity).
  destruct pub as [s|].
  - destruct (rebind sh op (c_t c) ts s l1) as [l2 rn] eqn:Er. simpl.
    pose proof Ep as Ep'. apply pub_some in Ep. destruct Ep as [Es Hne].
    exists ts, l1, l2, rn. repeat split; auto.
    + right. exists s. repeat split; auto. unfold cur. rewrite spec_sel_snoc. exact Es.
    + unfold retargets. rewrite Ep'. reflexivity.
  - simpl. pose proof Ep as Ep'. apply pub_none in Ep.
    exists ts, l1, l1, false. repeat split; auto.
    + left. repeat split; auto. unfold cur. rewrite spec_sel_snoc. exact Ep.
    + unfold retargets. rewrite Ep'. reflexivity.
Qed.

(* ---- facts about [read] ---- *)
Lemma tick_target_direct sh t p g0 :
  let g := tick_target sh t p g0 in
  tvalid g = true /\ tlmt g = t /\ (sh = ShTS -> tupd g = tval g /\ trem g = []).
Proof. simpl. split; [reflexivity|]. split; [reflexivity|]. intros ->. split; reflexivity. Qed.

(* reading through a link whose target ticked now (and that was not retargeted now)
   is exactly reading the target directly *)
Lemma read_ticked sh t ts l j :
  lk_tgt l = Some j -> lk_lmt l = t -> lk_trans l <> t ->
  tvalid (get_t ts j) = true -> tlmt (get_t ts j) = t ->
  (sh = ShTS -> tupd (get_t ts j) = tval (get_t ts j) /\ trem (get_t ts j) = []) ->
  read sh t ts l = read_direct (get_t ts j).
Proof.
  intros Hj Hl Htr Hv Ht Hs. unfold read, read_direct. rewrite Hj, Hv, Hl, Ht.
  rewrite Z.eqb_refl. simpl. rewrite Z.max_id.
  replace (lk_trans l =? t) with false by (symmetry; apply Z.eqb_neq; exact Htr).
  rewrite andb_false_r. destruct sh; simpl.
  - destruct (Hs eq_refl) as [-> ->]. reflexivity.
  - reflexivity.
  - reflexivity.
Qed.

(* nothing reaches a consumer whose link and target were both last modified earlier *)
Lemma read_quiet sh t ts l :
  lk_lmt l < t ->
  (forall j, lk_tgt l = Some j -> tlmt (get_t ts j) < t) ->
  let r := read sh t ts l in
  r_mod r = false /\ r_upd r = [] /\ r_rem r = [] /\
  r_valid r = match lk_tgt l with Some j => tvalid (get_t ts j) | None => false end /\
  r_vals r = match lk_tgt l with Some j => if tvalid (get_t ts j) then tval (get_t ts j) else [] | None => [] end.
Proof.
  intros Hl Hg. unfold read.
  assert (E1 : (lk_lmt l =? t) = false) by lia.
  destruct (lk_tgt l) as [j|] eqn:Ej.
  - specialize (Hg j eq_refl).
    assert (E2 : (tlmt (get_t ts j) =? t) = false) by lia.
    rewrite E1, E2, andb_false_r. simpl. repeat split; reflexivity.
  - rewrite E1. simpl. repeat split; reflexivity.
Qed.

(* value and validity read through ANY link are those of the bound target *)
Lemma read_value sh t ts l :
  let r := read sh t ts l in
  r_valid r = match lk_tgt l with Some j => tvalid (get_t ts j) | None => false end /\
  r_vals r = match lk_tgt l with Some j => if tvalid (get_t ts j) then tval (get_t ts j) else [] | None => [] end.
Proof. unfold read. destruct (lk_tgt l); simpl; split; reflexivity. Qed.

(* ---- facts about [rebind] to a DIFFERENT target ---- *)
(* the clamp: a request time that is not in the future always runs in the current cycle *)
Lemma nested_slot_now when now : when <= now -> nested_slot when now = now.
Proof. unfold nested_slot. lia. Qed.

Lemma wake_true op now when : when <= now -> wake op now when = true.
Proof.
  intros H. unfold wake, nested_runs. destruct (in_nested op); [|reflexivity].
  destruct (wrapped op); rewrite nested_slot_now by lia; apply Z.eqb_refl.
Qed.

(* ... at any nesting depth: the request is clamped once per boundary it crosses *)
Lemma nested_slot_iter d when now :
  when <= now -> Nat.iter (S d) (fun w => nested_slot w now) when = now.
Proof.
  intros H. induction d as [|d IH].
  - simpl. apply nested_slot_now. exact H.
  - change (Nat.iter (S (S d)) (fun w => nested_slot w now) when)
      with (nested_slot (Nat.iter (S d) (fun w => nested_slot w now) when) now).
    rewrite IH. apply nested_slot_now. lia.
Qed.

(* without the clamp (slot written first: the seeded change C13w3-clamp-after-child-slot-write) a
   replayed older time never matches the exact-time loop *)
Lemma unclamped_slot_never_runs when now : when < now -> (when =? now) = false.
Proof. intros H. apply Z.eqb_neq. lia. Qed.

Lemma rebind_other_valid sh op t ts s l :
  lk_tgt l <> Some s -> tvalid (get_t ts s) = true -> tlmt (get_t ts s) <= t ->
  rebind sh op t ts s l =
  (mkL (Some s) t (if is_keyed sh then t else MIN_DT)
       (if is_keyed sh then match lk_tgt l with Some o => contents_before t (get_t ts o) | None => [] end else [])
       (if is_keyed sh then match lk_tgt l with
                            | Some o => if tlmt (get_t ts o) <? t then trem (get_t ts o) else []
                            | None => [] end else []), true).
Proof.
  intros Hne Hv Hle. unfold rebind.
  assert (E : match lk_tgt l with Some cur => same_target op cur s | None => false end = false).
  { destruct (lk_tgt l) as [cur|]; [|reflexivity]. rewrite same_target_eqb. apply Nat.eqb_neq. congruence. }
  rewrite E, Hv, (wake_true op t _ Hle). simpl. destruct (is_keyed sh); reflexivity.
Qed.

Lemma rebind_other_tgt sh op t ts s l :
  lk_tgt l <> Some s -> lk_tgt (fst (rebind sh op t ts s l)) = Some s.
Proof.
  intros Hne. destruct (rebind_tgt sh op t ts s l) as [H|[H _]]; [exact H|contradiction].
Qed.

(* contents of the old target as the consumers last saw them *)
Lemma contents_before_spec sh i pre c :
  wf (pre ++ [c]) ->
  contents_before (c_t c) (spec_tgt sh i (pre ++ [c])) = tval (spec_tgt sh i pre).
Proof.
  intros Hwf. pose proof (proj1 (wf_snoc pre c) Hwf) as [Hwp Hlt].
  pose proof (spec_tgt_lmt_le sh i pre Hwp) as Hle.
  rewrite spec_tgt_snoc. unfold tick_step, contents_before.
  destruct (tick_of c i) as [p|]; simpl.
  - rewrite Z.eqb_refl. reflexivity.
  - replace (tlmt (spec_tgt sh i pre) =? c_t c) with false by lia. reflexivity.
Qed.

Lemma stale_spec sh i pre c :
  wf (pre ++ [c]) ->
  (if tlmt (spec_tgt sh i (pre ++ [c])) <? c_t c then trem (spec_tgt sh i (pre ++ [c])) else []) =
  (if ticks c i then [] else trem (spec_tgt sh i pre)).
Proof.
  intros Hwf. pose proof (proj1 (wf_snoc pre c) Hwf) as [Hwp Hlt].
  pose proof (spec_tgt_lmt_le sh i pre Hwp) as Hle.
  rewrite spec_tgt_snoc. unfold tick_step, ticks.
  destruct (tick_of c i) as [p|]; simpl.
  - rewrite Z.ltb_irrefl. reflexivity.
  - replace (tlmt (spec_tgt sh i pre) <? c_t c) with true by lia. reflexivity.
Qed.

Lemma spec_tgt_unticked sh i pre c : ticks c i = false -> spec_tgt sh i (pre ++ [c]) = spec_tgt sh i pre.
Proof. intros H. rewrite spec_tgt_snoc. unfold tick_step. unfold ticks in H. destruct (tick_of c i); [discriminate|reflexivity]. Qed.

Lemma spec_tgt_ticked sh i pre c :
  ticks c i = true ->
  let g := spec_tgt sh i (pre ++ [c]) in
  tvalid g = true /\ tlmt g = c_t c /\ (sh = ShTS -> tupd g = tval g /\ trem g = []).
Proof.
  intros H. rewrite spec_tgt_snoc. unfold tick_step. unfold ticks in H.
  destruct (tick_of c i) as [p|]; [|discriminate]. apply tick_target_direct.
Qed.

(* consumers: who is evaluated *)
Lemma consumers_in notified poke force r cid r' :
  In (cid, r') (consumers notified poke force r) ->
  r' = r /\ ((cid = 0%nat /\ (notified = true \/ force = true)) \/
             (cid = 1%nat /\ (notified = true \/ poke = true \/ force = true)) \/
             (cid = 2%nat /\ (poke = true \/ force = true)) \/
             (cid = 3%nat /\ (notified = true \/ force = true) /\ r_valid r = true)).
Proof.
  unfold consumers. intros H.
  destruct notified, poke, force, (r_valid r) eqn:Ev; simpl in H;
    repeat (destruct H as [H|H]; [injection H as <- <-; split; [reflexivity|]; auto 12|]); contradiction.
Qed.

Lemma consumers_notified poke force r :
  In (0%nat, r) (consumers true poke force r) /\ In (1%nat, r) (consumers true poke force r) /\
  (r_valid r = true -> In (3%nat, r) (consumers true poke force r)).
Proof.
  unfold consumers. simpl. repeat split.
  - left; reflexivity.
  - right; left; reflexivity.
  - intros ->. destruct (poke || force); simpl; auto.
Qed.

Lemma option_eq_dec_nat (a b : option nat) : {a = b} + {a <> b}.
Proof. decide equality. apply Nat.eq_dec. Qed.

(* ------------------------------------------------------------------ the reading of the last cycle *)
(* All consumers evaluated in a cycle read the same thing: the designated target
   through the link, which designates spec_sel of the history INCLUDING this cycle. *)
Lemma last_out_reading sh op pre c :
  wf (pre ++ [c]) ->
  exists (ts : list target) (l2 : link) (n : bool),
    (forall i, (i < 3)%nat -> get_t ts i = spec_tgt sh i (pre ++ [c])) /\
    lk_tgt l2 = spec_sel op (pre ++ [c]) /\
    o_cons (last_out sh op pre c) = consumers n (c_poke c) (c_force c) (read sh (c_t c) ts l2).
Proof.
  intros Hwf. destruct (last_out_cases sh op pre c Hwf) as (ts & l1 & l2 & rn & _ & Hts & Hl1 & _ & _ & _ & Hc & Hcons & _).
  exists ts, l2, (bound_ticked (spec_sel op pre) c || rn || (c_nest c && (retargets op (spec_selst op pre) c || c_poke c))).
  repeat split; auto.
  destruct Hc as [(Hcur & -> & _ & _)|(j & Hcur & Hne & Hr & _)].
  - rewrite Hl1. symmetry. exact Hcur.
  - rewrite Hcur. replace l2 with (fst (rebind sh op (c_t c) ts j l1)) by (rewrite Hr; reflexivity).
    apply rebind_other_tgt. rewrite Hl1. exact Hne.
Qed.

(* C13 (1a): at EVERY evaluation a consumer reads validity and value of the currently
   designated target *)
Lemma deref_value_l sh op pre c cid r :
  wf (pre ++ [c]) -> In (cid, r) (o_cons (last_out sh op pre c)) ->
  match spec_sel op (pre ++ [c]) with
  | Some j => r_valid r = tvalid (spec_tgt sh j (pre ++ [c])) /\
              r_vals r = (if tvalid (spec_tgt sh j (pre ++ [c])) then tval (spec_tgt sh j (pre ++ [c])) else [])
  | None => r_valid r = false /\ r_vals r = []
  end.
Proof.
  intros Hwf Hin. destruct (last_out_reading sh op pre c Hwf) as (ts & l2 & n & Hts & Hl & Hc).
  rewrite Hc in Hin. apply consumers_in in Hin. destruct Hin as [-> _].
  pose proof (read_value sh (c_t c) ts l2) as Hrv. cbv zeta in Hrv. destruct Hrv as [Hv Hvals].
  rewrite Hl in Hv, Hvals. destruct (spec_sel op (pre ++ [c])) as [j|] eqn:Ej.
  - rewrite Hts in Hv, Hvals by (eapply spec_sel_lt3; exact Ej). auto.
  - auto.
Qed.

(* C13 (1b): when the designated target ticks (and the reference was not retargeted in
   this cycle) the whole reading — validity, modified, time, value AND delta — is the
   one a direct reader of that target gets *)
Lemma deref_delta_l sh op pre c j cid r :
  wf (pre ++ [c]) ->
  spec_sel op (pre ++ [c]) = spec_sel op pre -> spec_sel op pre = Some j -> ticks c j = true ->
  In (cid, r) (o_cons (last_out sh op pre c)) ->
  r = read_direct (spec_tgt sh j (pre ++ [c])).
Proof.
  intros Hwf Hsame Hold Htk Hin.
  pose proof (proj1 (wf_snoc pre c) Hwf) as [Hwp Hlt].
  assert (Hj : (j < 3)%nat) by (eapply spec_sel_lt3; exact Hold).
  destruct (last_out_cases sh op pre c Hwf) as (ts & l1 & l2 & rn & _ & Hts & Hl1 & Htr & Ha & _ & Hc & Hcons & _).
  rewrite Hcons in Hin. apply consumers_in in Hin. destruct Hin as [-> _].
  destruct Hc as [(_ & -> & _ & _)|(j' & Hcur & Hne & _)].
  - rewrite Hold in *. simpl in Ha. specialize (Ha Htk).
    destruct (spec_tgt_ticked sh j pre c Htk) as (Hv & Ht & Hs).
    rewrite <- (Hts j Hj). apply read_ticked; auto; try (rewrite Hts by exact Hj; auto). lia.
  - rewrite Hsame in Hcur. contradiction.
Qed.

(* reading through a link that was just rebound to a valid target *)
Lemma read_rebound sh t ts j prev stale :
  tvalid (get_t ts j) = true -> tlmt (get_t ts j) <= t ->
  let r := read sh t ts (mkL (Some j) t (if is_keyed sh then t else MIN_DT) prev stale) in
  r_valid r = true /\ r_mod r = true /\ r_lmt r = t /\ r_vals r = tval (get_t ts j) /\
  (sh = ShTS -> r_upd r = tval (get_t ts j) /\ r_rem r = []) /\
  (is_keyed sh = true -> (r_upd r, r_rem r) = sample_delta_impl sh prev stale (tval (get_t ts j))).
Proof.
  intros Hv Hle. unfold read. simpl. rewrite Hv, Z.eqb_refl. simpl.
  rewrite Z.max_l by lia.
  split; [reflexivity|]. split; [reflexivity|]. split; [reflexivity|]. split; [reflexivity|]. split.
  - intros ->. simpl. split; reflexivity.
  - intros Hk. rewrite Hk, Z.eqb_refl. cbn [andb]. symmetry. apply surjective_pairing.
Qed.

(* what a retarget to a valid target looks like from below (used by T2, T3, T4) *)
Lemma retarget_valid_form sh op pre c j :
  wf (pre ++ [c]) ->
  spec_sel op (pre ++ [c]) = Some j -> spec_sel op pre <> Some j ->
  tvalid (spec_tgt sh j (pre ++ [c])) = true ->
  exists r,
    o_cons (last_out sh op pre c) = consumers true (c_poke c) (c_force c) r /\
    o_ref (last_out sh op pre c) = true /\
    r_valid r = true /\ r_mod r = true /\ r_lmt r = c_t c /\ r_vals r = tval (spec_tgt sh j (pre ++ [c])) /\
    (sh = ShTS -> r_upd r = tval (spec_tgt sh j (pre ++ [c])) /\ r_rem r = []) /\
    (is_keyed sh = true ->
     (r_upd r, r_rem r) = sample_delta_impl sh (old_view sh (spec_sel op pre) pre) (old_stale sh (spec_sel op pre) pre c)
                                            (tval (spec_tgt sh j (pre ++ [c])))).
Proof.
  intros Hwf Hcur Hne Hv.
  assert (Hj : (j < 3)%nat) by (eapply spec_sel_lt3; exact Hcur).
  destruct (last_out_cases sh op pre c Hwf) as (ts & l1 & l2 & rn & _ & Hts & Hl1 & Htr & _ & _ & Hc & Hcons & _).
  destruct Hc as [(Hsame & _)|(j' & Hcur' & Hne' & Hr & Href)].
  - rewrite Hcur in Hsame. symmetry in Hsame. contradiction.
  - rewrite Hcur in Hcur'. injection Hcur' as <-.
    assert (Hle : tlmt (get_t ts j) <= c_t c).
    { rewrite Hts by exact Hj. pose proof (spec_tgt_lmt_le sh j _ Hwf) as H. rewrite last_t_snoc in H. exact H. }
    rewrite rebind_other_valid in Hr; [|rewrite Hl1; exact Hne'|rewrite Hts; auto|exact Hle].
    injection Hr as <- <-. rewrite orb_true_r in Hcons.
    pose proof (read_rebound sh (c_t c) ts j
                  (if is_keyed sh then match lk_tgt l1 with Some o => contents_before (c_t c) (get_t ts o) | None => [] end else [])
                  (if is_keyed sh then match lk_tgt l1 with
                                       | Some o => if tlmt (get_t ts o) <? c_t c then trem (get_t ts o) else []
                                       | None => [] end else [])
                  ltac:(rewrite Hts; auto) Hle) as R.
    cbv zeta in R.
    match type of Hcons with _ = consumers _ _ _ ?rr => set (r := rr) in * end.
    destruct R as (R1 & R2 & R3 & R4 & R5 & R6).
    rewrite Hts in R4, R5, R6 by exact Hj.
    exists r. split; [exact Hcons|]. split; [exact Href|].
    split; [exact R1|]. split; [exact R2|]. split; [exact R3|]. split; [exact R4|]. split; [exact R5|].
    intros Hk. rewrite (R6 Hk). rewrite Hk, Hl1.
    unfold old_view, old_stale. destruct (spec_sel op pre) as [i|] eqn:Eo; [|reflexivity].
    assert (Hi : (i < 3)%nat) by (eapply spec_sel_lt3; exact Eo).
    rewrite Hts by exact Hi. rewrite contents_before_spec by exact Hwf. rewrite stale_spec by exact Hwf. reflexivity.
Qed.

(* C13 (2): the consumer is evaluated whenever the designated target ticks *)
Lemma wakes_on_target_tick_l sh op pre c j :
  wf (pre ++ [c]) -> spec_sel op (pre ++ [c]) = Some j -> ticks c j = true ->
  exists r, In (0%nat, r) (o_cons (last_out sh op pre c)) /\ In (1%nat, r) (o_cons (last_out sh op pre c)) /\
            In (3%nat, r) (o_cons (last_out sh op pre c)) /\
            r_valid r = true /\ r_mod r = true /\ r_lmt r = c_t c /\ r_vals r = tval (spec_tgt sh j (pre ++ [c])).
Proof.
  intros Hwf Hcur Htk.
  destruct (spec_tgt_ticked sh j pre c Htk) as (Hv & Ht & Hs).
  assert (Hj : (j < 3)%nat) by (eapply spec_sel_lt3; exact Hcur).
  destruct (option_eq_dec_nat (spec_sel op pre) (Some j)) as [Hold|Hne].
  - (* not retargeted: the bound target ticked *)
    destruct (last_out_cases sh op pre c Hwf) as (ts & l1 & l2 & rn & _ & Hts & Hl1 & Htr & Ha & _ & Hc & Hcons & _).
    rewrite Hold in *. simpl in Ha, Hcons. rewrite Htk in Hcons. simpl in Hcons.
    exists (read sh (c_t c) ts l2).
    pose proof (consumers_notified (c_poke c) (c_force c) (read sh (c_t c) ts l2)) as (C0 & C1 & C3).
    assert (E : read sh (c_t c) ts l2 = read_direct (spec_tgt sh j (pre ++ [c]))).
    { eapply (deref_delta_l sh op pre c j 0%nat); eauto; [congruence|]. rewrite Hcons. exact C0. }
    rewrite Hcons. rewrite E in *. simpl in *. repeat split; auto.
  - destruct (retarget_valid_form sh op pre c j Hwf Hcur Hne Hv) as (r & Hcons & _ & R1 & R2 & R3 & R4 & _).
    exists r. pose proof (consumers_notified (c_poke c) (c_force c) r) as (C0 & C1 & C3).
    rewrite Hcons. repeat split; auto.
Qed.

(* C13 (3): a retarget to a VALID target is seen in that same cycle: every active
   consumer is evaluated, sees modified = true at the retarget time, the new target's
   current value, and (scalar) that value as the delta — whether or not the target
   itself ticked in this cycle *)
Lemma retarget_ticks_same_cycle_l sh op pre c j :
  wf (pre ++ [c]) ->
  spec_sel op (pre ++ [c]) = Some j -> spec_sel op pre <> Some j ->
  tvalid (spec_tgt sh j (pre ++ [c])) = true ->
  exists r, In (0%nat, r) (o_cons (last_out sh op pre c)) /\ In (1%nat, r) (o_cons (last_out sh op pre c)) /\
            In (3%nat, r) (o_cons (last_out sh op pre c)) /\
            o_ref (last_out sh op pre c) = true /\
            r_valid r = true /\ r_mod r = true /\ r_lmt r = c_t c /\
            r_vals r = tval (spec_tgt sh j (pre ++ [c])) /\
            (sh = ShTS -> r_upd r = tval (spec_tgt sh j (pre ++ [c])) /\ r_rem r = []).
Proof.
  intros Hwf Hcur Hne Hv.
  destruct (retarget_valid_form sh op pre c j Hwf Hcur Hne Hv) as (r & Hcons & Href & R1 & R2 & R3 & R4 & R5 & _).
  exists r. pose proof (consumers_notified (c_poke c) (c_force c) r) as (C0 & C1 & C3).
  rewrite Hcons. repeat split; auto; apply R5; assumption.
Qed.

(* C13 (4), EXACT form for the model that mirrors the code: the delta of a keyed
   retarget is computed from what the consumers saw before (the old target's contents
   before this cycle), the new target's current contents, and — on the removed side —
   the keys the old target removed in its last tick if that was an earlier cycle *)
Lemma keyed_retarget_exact_l sh op pre c j :
  wf (pre ++ [c]) -> is_keyed sh = true ->
  spec_sel op (pre ++ [c]) = Some j -> spec_sel op pre <> Some j ->
  tvalid (spec_tgt sh j (pre ++ [c])) = true ->
  exists r, In (0%nat, r) (o_cons (last_out sh op pre c)) /\ r_mod r = true /\
            r_upd r = fst (sample_delta sh (old_view sh (spec_sel op pre) pre) (tval (spec_tgt sh j (pre ++ [c])))) /\
            r_rem r = kv_keys (kv_minus (add_stale (old_stale sh (spec_sel op pre) pre c) (old_view sh (spec_sel op pre) pre))
                                        (tval (spec_tgt sh j (pre ++ [c])))).
Proof.
  intros Hwf Hk Hcur Hne Hv.
  destruct (retarget_valid_form sh op pre c j Hwf Hcur Hne Hv) as (r & Hcons & Href & R1 & R2 & R3 & R4 & R5 & R6).
  exists r. pose proof (consumers_notified (c_poke c) (c_force c) r) as (C0 & _).
  rewrite Hcons. split; [exact C0|]. split; [exact R2|].
  specialize (R6 Hk). unfold sample_delta_impl in R6. injection R6 as -> ->.
  split; [reflexivity|]. destruct sh; [discriminate|reflexivity|reflexivity].
Qed.

(* C13 (4), the property as stated: the delta IS the difference between old and new
   contents — PARTIAL: holds when the old target's last tick removed nothing, or that
   tick is in this very cycle.  The unrestricted statement is refuted below. *)
Lemma keyed_retarget_is_diff_partial_l sh op pre c j :
  wf (pre ++ [c]) -> is_keyed sh = true ->
  spec_sel op (pre ++ [c]) = Some j -> spec_sel op pre <> Some j ->
  tvalid (spec_tgt sh j (pre ++ [c])) = true ->
  old_stale sh (spec_sel op pre) pre c = [] ->
  exists r, In (0%nat, r) (o_cons (last_out sh op pre c)) /\ r_mod r = true /\
            (r_upd r, r_rem r) = sample_delta sh (old_view sh (spec_sel op pre) pre) (tval (spec_tgt sh j (pre ++ [c]))).
Proof.
  intros Hwf Hk Hcur Hne Hv Hst.
  destruct (keyed_retarget_exact_l sh op pre c j Hwf Hk Hcur Hne Hv) as (r & Hin & Hm & Hu & Hr).
  exists r. split; [exact Hin|]. split; [exact Hm|].
  rewrite Hu, Hr, Hst. simpl. destruct sh; [discriminate|reflexivity|reflexivity].
Qed.

(* the added / modified side of the difference holds without restriction *)
Lemma keyed_retarget_added_is_diff_l sh op pre c j :
  wf (pre ++ [c]) -> is_keyed sh = true ->
  spec_sel op (pre ++ [c]) = Some j -> spec_sel op pre <> Some j ->
  tvalid (spec_tgt sh j (pre ++ [c])) = true ->
  exists r, In (0%nat, r) (o_cons (last_out sh op pre c)) /\
            r_upd r = fst (sample_delta sh (old_view sh (spec_sel op pre) pre) (tval (spec_tgt sh j (pre ++ [c])))).
Proof.
  intros Hwf Hk Hcur Hne Hv.
  destruct (keyed_retarget_exact_l sh op pre c j Hwf Hk Hcur Hne Hv) as (r & Hin & Hm & Hu & Hr).
  exists r. auto.
Qed.

(* The full statement is FALSE of the faithful model (and of the code, see
   docs/notes-ref.md finding C13-stale-removed): A = {1,2}; A removes 1 (the consumer
   sees that removal); next cycle the reference is retargeted to B = {5}: the consumer
   is told that 1 AND 2 were removed. *)
Definition refute_pre : list cyc :=
  [mkC 1 (Some 1) None [Some [1; 2]; None; None] false false false;
   mkC 2 None None [Some [-1]; Some [5]; None] false false false].
Definition refute_c : cyc := mkC 3 (Some 0) None [None; None; None] false false false.

Lemma keyed_retarget_is_diff_refuted_l :
  exists sh op pre c j,
    wf (pre ++ [c]) /\ is_keyed sh = true /\
    spec_sel op (pre ++ [c]) = Some j /\ spec_sel op pre <> Some j /\
    tvalid (spec_tgt sh j (pre ++ [c])) = true /\
    forall r, In (0%nat, r) (o_cons (last_out sh op pre c)) ->
              (r_upd r, r_rem r) <> sample_delta sh (old_view sh (spec_sel op pre) pre) (tval (spec_tgt sh j (pre ++ [c]))).
Proof.
  exists ShTSS, 0, refute_pre, refute_c, 1%nat.
  split; [unfold wf; simpl; lia|]. split; [reflexivity|]. split; [reflexivity|].
  split; [vm_compute; discriminate|]. split; [reflexivity|].
  intros r Hin. vm_compute in Hin. destruct Hin as [H|[H|[H|[]]]]; try discriminate H.
  injection H as <-. vm_compute. discriminate.
Qed.

(* C13 (6): without a retarget, if the designated target does not tick, NOTHING reaches
   the consumers, whatever the other targets do: the active ones are not evaluated,
   the poked ones see modified = false, an empty delta and the unchanged value *)
Lemma unselected_never_reaches_l sh op pre c cid r :
  wf (pre ++ [c]) ->
  spec_sel op (pre ++ [c]) = spec_sel op pre ->
  (forall j, spec_sel op pre = Some j -> ticks c j = false) ->
  In (cid, r) (o_cons (last_out sh op pre c)) ->
  (c_force c = true \/ (c_poke c = true /\ (cid = 1%nat \/ cid = 2%nat \/ c_nest c = true))) /\
  r_mod r = false /\ r_upd r = [] /\ r_rem r = [] /\
  match spec_sel op pre with
  | Some j => r_valid r = tvalid (spec_tgt sh j pre) /\
              r_vals r = (if tvalid (spec_tgt sh j pre) then tval (spec_tgt sh j pre) else [])
  | None => r_valid r = false /\ r_vals r = []
  end.
Proof.
  intros Hwf Hsame Hnt Hin.
  pose proof (proj1 (wf_snoc pre c) Hwf) as [Hwp Hlt].
  destruct (last_out_cases sh op pre c Hwf) as (ts & l1 & l2 & rn & _ & Hts & Hl1 & Htr & _ & Hb & Hc & Hcons & _).
  assert (Hbt : bound_ticked (spec_sel op pre) c = false).
  { unfold bound_ticked. destruct (spec_sel op pre) as [j|]; [apply Hnt; reflexivity|reflexivity]. }
  destruct Hc as [(_ & -> & -> & _)|(j & Hcur & Hne & _)]; [|rewrite Hsame in Hcur; contradiction].
  assert (Hrt : retargets op (spec_selst op pre) c = false).
  { apply retargets_false. rewrite <- spec_sel_snoc. exact Hsame. }
  rewrite Hbt, Hrt in Hcons. simpl in Hcons. rewrite Hcons in Hin.
  apply consumers_in in Hin. destruct Hin as [-> Hwho].
  assert (Hn : c_nest c && c_poke c = true -> c_poke c = true /\ c_nest c = true).
  { intros H. apply andb_true_iff in H. tauto. }
  assert (Hp : c_force c = true \/ (c_poke c = true /\ (cid = 1%nat \/ cid = 2%nat \/ c_nest c = true))).
  { destruct Hwho as [[_ [H|H]]|[[-> [H|[H|H]]]|[[-> [H|H]]|[_ [[H|H] _]]]]]; try (apply Hn in H); intuition. }
  split; [exact Hp|].
  specialize (Hb Hbt).
  assert (Hq : forall j, lk_tgt l1 = Some j -> tlmt (get_t ts j) < c_t c).
  { intros j Hj. rewrite Hl1 in Hj.
    assert (Hj3 : (j < 3)%nat) by (eapply spec_sel_lt3; exact Hj).
    rewrite Hts by exact Hj3. rewrite spec_tgt_unticked by (apply Hnt; exact Hj).
    pose proof (spec_tgt_lmt_le sh j pre Hwp). lia. }
  pose proof (read_quiet sh (c_t c) ts l1 ltac:(lia) Hq) as Q. cbv zeta in Q.
  destruct Q as (Q1 & Q2 & Q3 & Q4 & Q5).
  split; [exact Q1|]. split; [exact Q2|]. split; [exact Q3|].
  rewrite Hl1 in Q4, Q5. destruct (spec_sel op pre) as [j|] eqn:Eo; [|auto].
  assert (Hj3 : (j < 3)%nat) by (eapply spec_sel_lt3; exact Eo).
  rewrite Hts in Q4, Q5 by exact Hj3. rewrite spec_tgt_unticked in Q4, Q5 by (apply Hnt; reflexivity). auto.
Qed.

(* the reference output ticks exactly when the designated target changes *)
Lemma ref_ticks_iff_retarget_l sh op pre c :
  wf (pre ++ [c]) ->
  (o_ref (last_out sh op pre c) = true <-> spec_sel op (pre ++ [c]) <> spec_sel op pre).
Proof.
  intros Hwf.
  destruct (last_out_cases sh op pre c Hwf) as (ts & l1 & l2 & rn & _ & _ & _ & _ & _ & _ & Hc & _).
  destruct Hc as [(Hsame & _ & _ & Href)|(j & Hcur & Hne & _ & Href)].
  - rewrite Href, Hsame. split; [discriminate|]. intros H; contradiction.
  - rewrite Href, Hcur. split; [|reflexivity]. intros _ H. symmetry in H. contradiction.
Qed.

(* C13 (5), general form (covers the chained ops): whatever the selectors do in this
   cycle, if the designated target stays the same the reference output does not tick,
   and (unless that target itself ticks) nothing reaches the consumers *)
Lemma same_designation_no_tick_l sh op pre c :
  wf (pre ++ [c]) ->
  spec_sel op (pre ++ [c]) = spec_sel op pre ->
  o_ref (last_out sh op pre c) = false /\
  ((forall j, spec_sel op pre = Some j -> ticks c j = false) ->
   forall cid r, In (cid, r) (o_cons (last_out sh op pre c)) ->
     (c_force c = true \/ (c_poke c = true /\ (cid = 1%nat \/ cid = 2%nat \/ c_nest c = true))) /\
     r_mod r = false /\ r_upd r = [] /\ r_rem r = []).
Proof.
  intros Hwf Hsame.
  split.
  - destruct (o_ref (last_out sh op pre c)) eqn:E; [|reflexivity].
    apply (ref_ticks_iff_retarget_l sh op pre c Hwf) in E. contradiction.
  - intros Hnt cid r Hin.
    destruct (unselected_never_reaches_l sh op pre c cid r Hwf Hsame Hnt Hin) as (H1 & H2 & H3 & H4 & _); auto.
Qed.

(* a plain (non-chained) selector tick designating the target already designated leaves
   the designation unchanged *)
Lemma plain_same_selection op pre c v :
  chained op = false -> c_sel c = Some v -> spec_sel op pre = Some (sel_target op v) ->
  spec_sel op (pre ++ [c]) = spec_sel op pre.
Proof.
  intros Hch Hsel Hold. rewrite spec_sel_snoc. unfold sel_step, selst_step, sel_eval, selector.
  unfold spec_sel in *. rewrite Hch, Hsel, Hold. simpl. unfold publish. rewrite same_target_eqb, Nat.eqb_refl. simpl. try rewrite Hold. reflexivity.
Qed.

(* C13 (5): republishing an unchanged reference causes no tick: a selector tick that
   designates the target already designated does not tick the reference output, and
   (unless that target itself ticks) nothing reaches the consumers *)
Lemma same_reference_no_tick_l sh op pre c v :
  wf (pre ++ [c]) -> chained op = false ->
  c_sel c = Some v -> spec_sel op pre = Some (sel_target op v) ->
  o_ref (last_out sh op pre c) = false /\
  (ticks c (sel_target op v) = false ->
   forall cid r, In (cid, r) (o_cons (last_out sh op pre c)) ->
     (c_force c = true \/ (c_poke c = true /\ (cid = 1%nat \/ cid = 2%nat \/ c_nest c = true))) /\
     r_mod r = false /\ r_upd r = [] /\ r_rem r = []).
Proof.
  intros Hwf Hch Hsel Hold.
  pose proof (plain_same_selection op pre c v Hch Hsel Hold) as Hsame.
  destruct (same_designation_no_tick_l sh op pre c Hwf Hsame) as [H1 H2].
  split; [exact H1|]. intros Hnt. apply H2.
  intros j Hj. rewrite Hold in Hj. injection Hj as <-. exact Hnt.
Qed.

(* ---- chained selection (ops 6, 7) ---- *)
(* For the plain ops the designation is the latest selector value. *)
Lemma plain_designation op pre c v :
  chained op = false -> c_sel c = Some v -> spec_sel op (pre ++ [c]) = Some (sel_target op v).
Proof.
  intros Hch Hsel. rewrite spec_sel_snoc. unfold sel_step, selst_step, sel_eval, selector, publish.
  rewrite Hch, Hsel. simpl. destruct (s_out (spec_selst op pre)) as [cur|]; [|reflexivity]. rewrite same_target_eqb.
  destruct (Nat.eqb cur (sel_target op v)) eqn:E; [|reflexivity]. apply Nat.eqb_eq in E. subst. reflexivity.
Qed.

(* The chained case the seeded change C13-republish-only-on-selector-tick breaks: the OUTER
   selector is quiet and designates the inner branch; the INNER selector flips to a target
   the consumers do not read yet.  Then the consumer-side reference is retargeted in this
   very cycle (so retarget_ticks_same_cycle applies with j = the inner selector's target). *)
Lemma chained_inner_flip_retargets_l op pre c v v2 :
  chained op = true ->
  c_sel2 c = None -> s_c2 (spec_selst op pre) = Some v2 -> picks_inner op v2 = true ->
  c_sel c = Some v ->
  s_in (spec_selst op pre) <> Some (sel_target 0 v) ->
  spec_sel op (pre ++ [c]) = Some (sel_target 0 v).
Proof.
  intros Hch H2 Hc2 Hpk Hsel Hin.
  rewrite spec_sel_snoc. unfold sel_step, selst_step, sel_eval, selector.
  rewrite Hch, H2, Hsel, Hc2, Hpk. simpl.
  assert (Hp : publish op (sel_target 0 v) (s_in (spec_selst op pre)) = Some (sel_target 0 v)).
  { unfold publish. destruct (s_in (spec_selst op pre)) as [cur|]; [|reflexivity]. rewrite same_target_eqb.
    destruct (Nat.eqb cur (sel_target 0 v)) eqn:E; [|reflexivity]. apply Nat.eqb_eq in E. subst. contradiction. }
  rewrite Hp. simpl. unfold publish.
  destruct (s_out (spec_selst op pre)) as [cur|]; [|reflexivity]. rewrite same_target_eqb.
  destruct (Nat.eqb cur (sel_target 0 v)) eqn:E; [|reflexivity]. apply Nat.eqb_eq in E. subst. reflexivity.
Qed.

(* and the outer selector switching between its branches follows the inner designation *)
Lemma chained_outer_to_inner_l op pre c v2 j :
  chained op = true -> c_sel c = None ->
  c_sel2 c = Some v2 -> picks_inner op v2 = true -> s_in (spec_selst op pre) = Some j ->
  spec_sel op (pre ++ [c]) = Some j.
Proof.
  intros Hch H1 H2 Hpk Hin.
  rewrite spec_sel_snoc. unfold sel_step, selst_step, sel_eval.
  rewrite Hch, H1, H2, Hpk, Hin. simpl. unfold publish.
  destruct (s_out (spec_selst op pre)) as [cur|]; [|reflexivity]. rewrite same_target_eqb.
  destruct (Nat.eqb cur j) eqn:E; [|reflexivity]. apply Nat.eqb_eq in E. subst. reflexivity.
Qed.

Lemma chained_outer_to_c_l op pre c v2 :
  chained op = true -> c_sel2 c = Some v2 -> picks_inner op v2 = false ->
  spec_sel op (pre ++ [c]) = Some 2%nat.
Proof.
  intros Hch H2 Hpk.
  rewrite spec_sel_snoc. unfold sel_step, selst_step, sel_eval.
  rewrite Hch, H2, Hpk. simpl. unfold publish.
  destruct (s_out (spec_selst op pre)) as [cur|]; [|reflexivity]. rewrite same_target_eqb.
  destruct (Nat.eqb cur 2) eqn:E; [|reflexivity]. apply Nat.eqb_eq in E. subst. reflexivity.
Qed.

(* the PASSIVE consumer is never woken through the reference *)
Lemma passive_only_poked_l sh op pre c r :
  wf (pre ++ [c]) -> In (2%nat, r) (o_cons (last_out sh op pre c)) -> c_poke c = true \/ c_force c = true.
Proof.
  intros Hwf Hin.
  destruct (last_out_reading sh op pre c Hwf) as (ts & l2 & n & _ & _ & Hc).
  rewrite Hc in Hin. apply consumers_in in Hin. destruct Hin as [_ Hwho].
  destruct Hwho as [[H _]|[[H _]|[[_ H]|[H _]]]]; try discriminate; exact H.
Qed.

(* direct readers: the targets themselves are undisturbed — each direct reader logs
   exactly the target's own history *)
Lemma direct_readers_l sh op pre c i r :
  wf (pre ++ [c]) -> In (i, r) (o_direct (last_out sh op pre c)) ->
  ticks c i = true /\ r = read_direct (spec_tgt sh i (pre ++ [c])).
Proof.
  intros Hwf Hin.
  destruct (last_out_cases sh op pre c Hwf) as (ts & l1 & l2 & rn & _ & Hts & _ & _ & _ & _ & _ & _ & Hd & _).
  rewrite Hd in Hin. unfold directs in Hin. simpl in Hin.
  repeat (apply in_app_or in Hin; destruct Hin as [Hin|Hin]).
  - destruct (ticks c 0) eqn:E; [|contradiction]. destruct Hin as [[= <- <-]|[]]. rewrite Hts by lia. auto.
  - destruct (ticks c 1) eqn:E; [|contradiction]. destruct Hin as [[= <- <-]|[]]. rewrite Hts by lia. auto.
  - destruct (ticks c 2) eqn:E; [|contradiction]. destruct Hin as [[= <- <-]|[]]. rewrite Hts by lia. auto.
  - contradiction.
Qed.

(* ------------------------------------------------------------------ every case file decodes to a well-formed history *)
Fixpoint sorted_from (lo : Z) (l : list Z) : Prop :=
  match l with [] => True | x :: r => lo < x /\ sorted_from x r end.

Lemma insert_sorted lo t l : lo < t -> sorted_from lo l -> sorted_from lo (insert_uniq t l).
Proof.
  revert lo; induction l as [|x r IH]; intros lo Hlo Hs; simpl in *.
  - auto.
  - destruct Hs as [H1 H2]. destruct (t <? x) eqn:E1; [simpl; repeat split; auto; lia|].
    destruct (t =? x) eqn:E2; [simpl; auto|]. simpl. split; [exact H1|]. apply IH; [lia|exact H2].
Qed.

Lemma sorted_weaken lo lo' l : lo' <= lo -> sorted_from lo l -> sorted_from lo' l.
Proof. destruct l; simpl; [auto|]. intros H [H1 H2]. split; [lia|exact H2]. Qed.

Lemma times_sorted op s e w : sorted_from (s - 1) (times op s e w).
Proof.
  unfold times.
  assert (G : forall acc, sorted_from (s - 1) acc ->
              sorted_from (s - 1)
                (fold_left (fun acc l => match script_line l with
                                         | Some (k, t, _) => if wired op k && (s <=? t) && (t <? e) then insert_uniq t acc else acc
                                         | None => acc end) w acc)).
  { induction w as [|l w IH]; intros acc Ha; simpl; [exact Ha|].
    apply IH. destruct (script_line l) as [[[k t] p]|]; [|exact Ha].
    destruct (wired op k && (s <=? t) && (t <? e)) eqn:E; [|exact Ha].
    apply insert_sorted; [lia|exact Ha]. }
  apply G. destruct (nested_consumers op && (s <? e)); simpl; [split; [lia|exact I]|exact I].
Qed.

Lemma wf_map_cyc op s w lo ts : sorted_from lo ts -> wf_from lo (map (cyc_at op s w) ts).
Proof.
  revert lo; induction ts as [|t r IH]; intros lo H; simpl in *; [exact I|].
  destruct H as [H1 H2]. split; [exact H1|]. apply IH. exact H2.
Qed.

Lemma decode_wf_l w :
  let '(s, e, shz, op) := header w in
  1 <= s -> wf (snd (decode w)).
Proof.
  unfold decode. destruct (header w) as [[[s e] shz] op]. intros Hs. simpl.
  apply wf_map_cyc. apply (sorted_weaken (s - 1)); [lia|]. apply times_sorted.
Qed.

(* the observation lines of a case are exactly the encoded cycle outputs of its history *)
Lemma run_ref_is_run w :
  run_ref w = flat_map enc_cout (snd (run (fst (fst (decode w))) (snd (fst (decode w))) s0 (snd (decode w)))).
Proof. unfold run_ref. destruct (decode w) as [[sh op] cs]. reflexivity. Qed.

(* ------------------------------------------------------------------ targets that are sub-outputs of ONE node *)
(* two different fields of the one producer: same owning node, different identity *)
Lemma sibling_identity op i j :
  same_producer op = true -> i <> j ->
  t_node (tid_of op i) = t_node (tid_of op j) /\ tid_of op i <> tid_of op j /\ same_target op i j = false.
Proof.
  intros Hp Hne. unfold tid_of. rewrite Hp. simpl. split; [reflexivity|]. split.
  - intros [= H]. contradiction.
  - rewrite same_target_eqb. apply Nat.eqb_neq. exact Hne.
Qed.

(* a retarget between two siblings IS a retarget: although the owning node is the same, the
   consumers are evaluated in that cycle and see the new sibling's current value as modified *)
Lemma sibling_retarget_l sh op pre c i j :
  wf (pre ++ [c]) -> same_producer op = true ->
  spec_sel op pre = Some i -> spec_sel op (pre ++ [c]) = Some j -> i <> j ->
  tvalid (spec_tgt sh j (pre ++ [c])) = true ->
  t_node (tid_of op i) = t_node (tid_of op j) /\
  exists r, In (0%nat, r) (o_cons (last_out sh op pre c)) /\ In (1%nat, r) (o_cons (last_out sh op pre c)) /\
            In (3%nat, r) (o_cons (last_out sh op pre c)) /\
            o_ref (last_out sh op pre c) = true /\
            r_valid r = true /\ r_mod r = true /\ r_lmt r = c_t c /\
            r_vals r = tval (spec_tgt sh j (pre ++ [c])) /\
            (sh = ShTS -> r_upd r = tval (spec_tgt sh j (pre ++ [c])) /\ r_rem r = []).
Proof.
  intros Hwf Hp Hold Hcur Hne Hv.
  split; [apply (sibling_identity op i j Hp Hne)|].
  apply retarget_ticks_same_cycle_l; auto. rewrite Hold. intros [= H]. contradiction.
Qed.

(* ticks of the de-selected SIBLING (same node as the designated target) never reach the consumers *)
Lemma sibling_tick_never_reaches_l sh op pre c i j cid r :
  wf (pre ++ [c]) -> same_producer op = true ->
  spec_sel op pre = Some j -> spec_sel op (pre ++ [c]) = Some j ->
  i <> j -> ticks c i = true -> ticks c j = false ->
  In (cid, r) (o_cons (last_out sh op pre c)) ->
  t_node (tid_of op i) = t_node (tid_of op j) /\
  (c_force c = true \/ (c_poke c = true /\ (cid = 1%nat \/ cid = 2%nat \/ c_nest c = true))) /\
  r_mod r = false /\ r_upd r = [] /\ r_rem r = [] /\
  r_valid r = tvalid (spec_tgt sh j pre) /\
  r_vals r = (if tvalid (spec_tgt sh j pre) then tval (spec_tgt sh j pre) else []).
Proof.
  intros Hwf Hp Hold Hcur Hne Hti Htj Hin.
  split; [apply (sibling_identity op i j Hp Hne)|].
  assert (Hsame : spec_sel op (pre ++ [c]) = spec_sel op pre) by congruence.
  pose proof (unselected_never_reaches_l sh op pre c cid r Hwf Hsame) as U.
  rewrite Hold in U. apply U; [|exact Hin]. intros k [= <-]. exact Htj.
Qed.
