(* DWindow.v — MIRROR model of the DURATION (time-based) window time-series TSW<int, time_range, min_time_range>:
   src/hgraph/types/metadata/ts_data_window_ops.cpp  TSWindowStorageCore / TimeTSWindowStorage
     ring of (time, value) slots with capacity_, head_, size_; push(v, t): cutoff = t - time_range; the LAST element
     of the expired prefix is stashed as the evicted element; prune_before(cutoff) advances head_ over the expired
     prefix (head_ = 0 when the ring empties); ensure_capacity(size+1) grows 0 -> max(required,4), else doubling,
     through reserve_exact, which relocates the LOGICAL contents to the front of the new buffers and resets head_;
     append at (head_+size_) % capacity_.  clear_values; TimeTSWContext::time_all_valid (non-empty and span >= min range).
   The view-level protocol (one tick per evaluation time, clear may be followed by a push) is Window.win_op's.
   Executable definitions only; proofs are in DWindowFacts.v. *)
Require Import Base Window.

Record dwin := mkDW {
  dw_range : Z;            (* time_range_ *)
  dw_minr : Z;             (* min_time_range *)
  dw_buf : list Z;         (* value slots, physical order; capacity_ = length *)
  dw_tm : list Z;          (* time slots *)
  dw_head : nat;
  dw_size : nat;
  dw_ev : option Z;        (* evicted_ *)
  dw_evt : Z;              (* evicted_time_ *)
  dw_lmt : Z
}.
Definition dwin_empty (range minr : Z) : dwin := mkDW range minr [] [] 0 0 None MIN_DT MIN_DT.
Definition dw_cap (w : dwin) : nat := length (dw_buf w).
Definition dphys (w : dwin) (i : nat) : nat :=            (* physical_index: capacity_ == 0 ? 0 : (head_+i) % capacity_ *)
  match dw_cap w with O => O | _ => ((dw_head w + i) mod dw_cap w)%nat end.

(* logical contents, oldest first *)
Definition dw_values (w : dwin) : list Z := map (fun i => nth (dphys w i) (dw_buf w) 0) (seq 0 (dw_size w)).
Definition dw_times (w : dwin) : list Z := map (fun i => nth (dphys w i) (dw_tm w) 0) (seq 0 (dw_size w)).
Definition dw_content (w : dwin) : list (Z * Z) := combine (dw_times w) (dw_values w).

(* prune_before(cutoff): at most [n] steps (n = size suffices) *)
Fixpoint dw_prune (n : nat) (cutoff : Z) (w : dwin) : dwin :=
  match n with
  | O => w
  | S k =>
      if (0 <? dw_size w)%nat && (nth (dw_head w) (dw_tm w) 0 <? cutoff)
      then dw_prune k cutoff
             (mkDW (dw_range w) (dw_minr w) (dw_buf w) (dw_tm w)
                   (match dw_cap w with O => O | _ => ((dw_head w + 1) mod dw_cap w)%nat end) (dw_size w - 1)
                   (dw_ev w) (dw_evt w) (dw_lmt w))
      else w
  end.
Definition dw_prune_before (cutoff : Z) (w : dwin) : dwin :=
  let w1 := dw_prune (dw_size w) cutoff w in
  if (dw_size w1 =? 0)%nat
  then mkDW (dw_range w1) (dw_minr w1) (dw_buf w1) (dw_tm w1) 0 0 (dw_ev w1) (dw_evt w1) (dw_lmt w1)
  else w1.

(* reserve_exact(new_capacity): relocation in LOGICAL order, head_ = 0 *)
Definition dw_reserve_exact (c : nat) (w : dwin) : dwin :=
  if (c <=? dw_cap w)%nat then w
  else mkDW (dw_range w) (dw_minr w) (dw_values w ++ repeat 0 (c - dw_size w)) (dw_times w ++ repeat 0 (c - dw_size w))
            0 (dw_size w) (dw_ev w) (dw_evt w) (dw_lmt w).
Definition dw_ensure_capacity (required : nat) (w : dwin) : dwin :=
  if (required <=? dw_cap w)%nat then w
  else dw_reserve_exact (if (dw_cap w =? 0)%nat then Nat.max required 4 else Nat.max required (dw_cap w * 2)) w.

Fixpoint count_expired (cutoff : Z) (tms : list Z) : nat :=
  match tms with
  | x :: r => if x <? cutoff then S (count_expired cutoff r) else O
  | [] => O
  end.

(* TimeTSWindowStorage::push *)
Definition dw_push (v t : Z) (w : dwin) : dwin :=
  let cutoff := t - dw_range w in
  let dropped := count_expired cutoff (dw_times w) in
  let w1 := match dropped with
            | O => w
            | S d => mkDW (dw_range w) (dw_minr w) (dw_buf w) (dw_tm w) (dw_head w) (dw_size w)
                          (Some (nth d (dw_values w) 0)) t (dw_lmt w)
            end in
  let w2 := dw_prune_before cutoff w1 in
  let w3 := dw_ensure_capacity (dw_size w2 + 1) w2 in
  let p := dphys w3 (dw_size w3) in
  mkDW (dw_range w3) (dw_minr w3) (set_nth p v (dw_buf w3)) (set_nth p t (dw_tm w3)) (dw_head w3) (S (dw_size w3))
       (dw_ev w3) (dw_evt w3) (dw_lmt w3).

Definition dw_clear (t : Z) (w : dwin) : dwin :=
  mkDW (dw_range w) (dw_minr w) (dw_buf w) (dw_tm w) 0 0 None t (dw_lmt w).
Definition dw_mark (t : Z) (w : dwin) : dwin :=
  if t <=? dw_lmt w then w
  else mkDW (dw_range w) (dw_minr w) (dw_buf w) (dw_tm w) (dw_head w) (dw_size w) (dw_ev w) (dw_evt w) t.

Definition dw_modified (t : Z) (w : dwin) : bool := negb (t =? MIN_DT) && (dw_lmt w =? t).
Definition dw_valid (w : dwin) : bool := negb (dw_lmt w =? MIN_DT).
Definition dw_all_valid (w : dwin) : bool :=              (* time_all_valid *)
  match dw_times w with
  | [] => false
  | first :: _ => if dw_minr w <=? 0 then true else dw_minr w <=? last (dw_times w) 0 - first
  end.
Definition dw_has_removed (t : Z) (w : dwin) : bool :=
  negb (t =? MIN_DT) && (dw_evt w =? t) && match dw_ev w with Some _ => true | None => false end.
Definition dw_cleared (t : Z) (w : dwin) : bool :=
  negb (t =? MIN_DT) && ((match dw_ev w with Some _ => MIN_DT | None => dw_evt w end) =? t).

Definition dwin_op (t : Z) (o : wop) (st : bool * dwin) : Z * (bool * dwin) :=
  let '(cl, w) := st in
  match o with
  | WPush v =>
      if dw_modified t w && negb cl then (2, st)
      else (0, (false, dw_mark t (dw_push v t w)))
  | WClear =>
      if dw_modified t w then (2, st)
      else (0, (true, dw_mark t (dw_clear t w)))
  | WNop => (-1, st)
  end.
Definition dwin_cycle (t : Z) (ops : list wop) (w : dwin) : dwin :=
  snd (fold_left (fun st o => snd (dwin_op t o st)) ops (false, w)).
Definition dwin_run (range minr : Z) (h : list (Z * list wop)) : dwin :=
  fold_left (fun w c => dwin_cycle (fst c) (snd c) w) h (dwin_empty range minr).
