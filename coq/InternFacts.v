(* InternFacts.v — proofs about the mirror model of Wiring::add_node interning (Intern.v):
   key equality is structural equality of (definition, schemas, inputs, scalars); the invariant
   tying every wired statement to the instance it was given; sinks and unique nodes are never
   shared; the wired graph unfolds to the dataflow of the program whatever the statement order and
   whether or not sharing is on. *)
Require Import Base Rank RankLemmas RankFacts Intern.
From Coq Require Import Arith Permutation Lia.
Local Open Scope nat_scope.

(* ------------------------------------------------------------------ induction over sources *)
Fixpoint src_ind' (P : src -> Prop)
  (Hp : forall n p k, P (SPeer n p k)) (Hd : forall h p, P (SDelay h p)) (Hn : P SNull)
  (Hs : forall cs, Forall P cs -> P (SStruct cs)) (s : src) : P s :=
  match s with
  | SPeer n p k => Hp n p k
  | SDelay h p => Hd h p
  | SNull => Hn
  | SStruct cs =>
      Hs cs ((fix go (l : list src) : Forall P l :=
                match l with
                | [] => Forall_nil P
                | x :: r => Forall_cons x (src_ind' P Hp Hd Hn Hs x) (go r)
                end) cs)
  end.

(* ------------------------------------------------------------------ key equality *)
Lemma list_eqb_spec_in {A} (eqb : A -> A -> bool) (a : list A) :
  (forall x, In x a -> forall y, eqb x y = true <-> x = y) ->
  forall b, list_eqb eqb a b = true <-> a = b.
Proof.
  induction a as [|x r IH]; intros H b; destruct b as [|y s]; simpl; try (split; congruence).
  rewrite andb_true_iff, (H x (or_introl eq_refl) y), (IH (fun z Hz => H z (or_intror Hz)) s).
  split; [intros [-> ->]; reflexivity | intros E; injection E; auto].
Qed.

Lemma list_eqb_spec {A} (eqb : A -> A -> bool) :
  (forall x y, eqb x y = true <-> x = y) -> forall a b, list_eqb eqb a b = true <-> a = b.
Proof. intros H a b. apply list_eqb_spec_in. intros x _ y. apply H. Qed.

Lemma src_eqb_struct cs cs' : src_eqb (SStruct cs) (SStruct cs') = list_eqb src_eqb cs cs'.
Proof.
  revert cs'. induction cs as [|x r IH]; intros [|y s]; simpl; auto.
  f_equal. apply IH.
Qed.

Lemma src_eqb_eq a : forall b, src_eqb a b = true <-> a = b.
Proof.
  induction a as [n p k|h p| |cs IH] using src_ind'; intros b.
  - destruct b; simpl; try (split; congruence).
    rewrite !andb_true_iff, !Nat.eqb_eq, (list_eqb_spec Nat.eqb Nat.eqb_eq).
    split; [intros [[-> ->] ->]; reflexivity | intros E; injection E; auto].
  - destruct b; simpl; try (split; congruence).
    rewrite andb_true_iff, Nat.eqb_eq, (list_eqb_spec Nat.eqb Nat.eqb_eq).
    split; [intros [-> ->]; reflexivity | intros E; injection E; auto].
  - destruct b; simpl; split; congruence.
  - destruct b as [| | |cs']; try (simpl; split; congruence).
    rewrite src_eqb_struct.
    rewrite (list_eqb_spec_in src_eqb cs).
    + split; [intros ->; reflexivity | intros E; injection E; auto].
    + intros x Hx. rewrite Forall_forall in IH. apply IH, Hx.
Qed.

Lemma bool_eqb_eq a b : Bool.eqb a b = true <-> a = b.
Proof. destruct a, b; simpl; split; congruence. Qed.

Lemma input_eqb_eq a b : input_eqb a b = true <-> a = b.
Proof.
  unfold input_eqb. rewrite !andb_true_iff, src_eqb_eq, (list_eqb_spec Nat.eqb Nat.eqb_eq), !bool_eqb_eq.
  destruct a, b; simpl. split; [intros [[[-> ->] ->] ->]; reflexivity | intros E; injection E; auto].
Qed.

Lemma optl_eqb_eq a b : optl_eqb a b = true <-> a = b.
Proof.
  destruct a as [x|], b as [y|]; simpl; try (split; congruence).
  rewrite (list_eqb_spec Z.eqb Z.eqb_eq). split; [intros ->; reflexivity | intros E; injection E; auto].
Qed.

(* the key comparison is exactly equality of (definition, schemas, inputs, scalars) *)
Lemma key_eqb_eq (a b : key) : key_eqb a b = true <-> a = b.
Proof.
  destruct a as [[[d s] i] c], b as [[[d' s'] i'] c']. unfold key_eqb.
  rewrite !andb_true_iff, Nat.eqb_eq, (list_eqb_spec Z.eqb Z.eqb_eq), (list_eqb_spec input_eqb input_eqb_eq), optl_eqb_eq.
  split; [intros [[[-> ->] ->] ->]; reflexivity | intros E; injection E; auto].
Qed.

Lemma make_key_inj d ins d' ins' :
  make_key d ins = make_key d' ins' <->
  nd_def d = nd_def d' /\ nd_sch d = nd_sch d' /\ nd_scal d = nd_scal d' /\ key_inputs ins = key_inputs ins'.
Proof.
  unfold make_key. split.
  - intros E. injection E. auto.
  - intros (-> & -> & -> & ->). reflexivity.
Qed.

(* what equality of normalised input lists means, slot by slot *)
Lemma norm_from_eq k ins ins' :
  norm_from k ins = norm_from k ins' <->
  length ins = length ins' /\
  forall j a b, nth_error ins j = Some a -> nth_error ins' j = Some b ->
    in_src a = in_src b /\ in_rank a = in_rank b /\ in_passive a = in_passive b /\
    (match in_tpath a with [] => [k + j] | p => p end) = (match in_tpath b with [] => [k + j] | p => p end).
Proof.
  revert k ins'. induction ins as [|a r IH]; intros k [|b s]; simpl; try (split; [congruence | intros [H _]; discriminate]).
  - split; auto. intros _. split; auto. intros [|j] x y; discriminate.
  - split.
    + intros E. injection E as E1 E2 E3 E4 E5. apply IH in E5. destruct E5 as [Hl Hs]. split; [congruence|].
      intros [|j] x y Hx Hy; simpl in *.
      * injection Hx as <-. injection Hy as <-. rewrite Nat.add_0_r. auto.
      * specialize (Hs j x y Hx Hy). replace (k + S j) with (S k + j) by lia. exact Hs.
    + intros [Hl Hs]. f_equal.
      * destruct (Hs 0 a b eq_refl eq_refl) as (E1 & E2 & E3 & E4). rewrite Nat.add_0_r in E4. congruence.
      * apply IH. split; [lia|]. intros j x y Hx Hy. specialize (Hs (S j) x y Hx Hy).
        replace (k + S j) with (S k + j) in Hs by lia. exact Hs.
Qed.

(* ------------------------------------------------------------------ lookups, resolution *)
Lemma alookup_cons {B} k k' (v : B) l :
  alookup k ((k', v) :: l) = if k' =? k then Some v else alookup k l.
Proof. reflexivity. Qed.

Definition env_le (e e' : list (nat * nat)) : Prop := forall l i, alookup l e = Some i -> alookup l e' = Some i.
Definition phs_le (p p' : list nat) : Prop := forall h, memb h p = true -> memb h p' = true.

Lemma env_le_refl e : env_le e e. Proof. intros l i H; exact H. Qed.
Lemma phs_le_refl p : phs_le p p. Proof. intros h H; exact H. Qed.

Lemma env_le_cons e l i : alookup l e = None -> env_le e ((l, i) :: e).
Proof.
  intros Hn l0 i0 H. rewrite alookup_cons. destruct (l =? l0) eqn:E; auto.
  apply Nat.eqb_eq in E. subst. congruence.
Qed.

Lemma phs_le_cons p h : phs_le p (h :: p).
Proof. intros h0 H. simpl. rewrite H. apply orb_true_r. Qed.

Fixpoint mapM {A B} (f : A -> option B) (l : list A) : option (list B) :=
  match l with
  | [] => Some []
  | x :: r => match f x, mapM f r with Some a, Some b => Some (a :: b) | _, _ => None end
  end.

Lemma resolve_struct e p cs :
  resolve e p (SStruct cs) = match mapM (resolve e p) cs with Some cs' => Some (SStruct cs') | None => None end.
Proof.
  simpl.
  match goal with |- match ?g cs with _ => _ end = _ => assert (E : g cs = mapM (resolve e p) cs) end.
  { induction cs as [|x r IH]; simpl; [reflexivity | rewrite IH; reflexivity]. }
  rewrite E. reflexivity.
Qed.

Lemma mapM_mono {A B} (f g : A -> option B) cs :
  Forall (fun x => forall r, f x = Some r -> g x = Some r) cs ->
  forall l, mapM f cs = Some l -> mapM g cs = Some l.
Proof.
  induction 1 as [|x r Hx Hr IH]; simpl; intros l H; auto.
  destruct (f x) as [a|] eqn:Ea; [|discriminate].
  destruct (mapM f r) as [b|] eqn:Eb; [|discriminate].
  rewrite (Hx a eq_refl), (IH b eq_refl). exact H.
Qed.

Lemma resolve_mono e p e' p' : env_le e e' -> phs_le p p' ->
  forall s r, resolve e p s = Some r -> resolve e' p' s = Some r.
Proof.
  intros He Hp s. induction s as [n q k|h q| |cs IH] using src_ind'; intros r H.
  - simpl in *. destruct (alookup n e) as [i|] eqn:E; [|discriminate]. rewrite (He n i E). exact H.
  - simpl in *. destruct (memb h p) eqn:E; [|discriminate]. rewrite (Hp h E). exact H.
  - exact H.
  - rewrite resolve_struct in *. destruct (mapM (resolve e p) cs) as [l|] eqn:E; [|discriminate].
    rewrite (mapM_mono _ _ cs IH l E). exact H.
Qed.

Lemma resolve_inputs_mono e p e' p' : env_le e e' -> phs_le p p' ->
  forall ins r, resolve_inputs e p ins = Some r -> resolve_inputs e' p' ins = Some r.
Proof.
  intros He Hp. induction ins as [|i r IH]; simpl; intros rr H; auto.
  destruct (resolve e p (in_src i)) as [s|] eqn:Es; [|discriminate].
  destruct (resolve_inputs e p r) as [r'|] eqn:Er; [|discriminate].
  rewrite (resolve_mono e p e' p' He Hp _ _ Es), (IH r' eq_refl). exact H.
Qed.

Lemma tab_find_some k t i : tab_find k t = Some i -> exists k', In (k', i) t /\ key_eqb k' k = true.
Proof.
  induction t as [|[k' v] r IH]; simpl; [discriminate|]. destruct (key_eqb k' k) eqn:E.
  - intros H. injection H as ->. exists k'. auto.
  - intros H. destruct (IH H) as (k'' & Hin & Hk). exists k''. auto.
Qed.

(* ------------------------------------------------------------------ the wiring invariant *)
(* statement l was given instance i, and i is configured exactly as l asks *)
Definition inst_matches (prog : list stmt) (w : wst) (l i : nat) : Prop :=
  exists d ins rins it,
    nth_error prog l = Some (StNode d ins) /\ nth_error (w_insts w) i = Some it /\
    resolve_inputs (w_env w) (w_phs w) ins = Some rins /\
    nd_def (i_def it) = nd_def d /\ nd_sch (i_def it) = nd_sch d /\ nd_scal (i_def it) = nd_scal d /\
    interns (i_def it) = interns d /\
    key_inputs (i_ins it) = key_inputs (eff_inputs d rins) /\
    (interns d = false -> i_label it = l).

Definition w_le (w w' : wst) : Prop :=
  (forall i it, nth_error (w_insts w) i = Some it -> nth_error (w_insts w') i = Some it) /\
  env_le (w_env w) (w_env w') /\ phs_le (w_phs w) (w_phs w').

Lemma inst_matches_mono prog w w' l i : w_le w w' -> inst_matches prog w l i -> inst_matches prog w' l i.
Proof.
  intros (Hi & He & Hp) (d & ins & rins & it & H1 & H2 & H3 & H4).
  exists d, ins, rins, it. split; auto. split; [apply Hi; exact H2|]. split; auto.
  eapply resolve_inputs_mono; eauto.
Qed.

Record WInv (prog : list stmt) (done : list nat) (w : wst) : Prop := {
  wi_env : forall l i, alookup l (w_env w) = Some i -> inst_matches prog w l i;
  wi_env_done : forall l i, alookup l (w_env w) = Some i -> In l done;
  wi_node_done : forall l d ins, In l done -> nth_error prog l = Some (StNode d ins) ->
                 exists i, alookup l (w_env w) = Some i;
  wi_tab : forall k i, In (k, i) (w_tab w) ->
           exists it, nth_error (w_insts w) i = Some it /\ make_key (i_def it) (i_ins it) = k /\ interns (i_def it) = true;
  wi_binds : forall h i q, alookup h (w_binds w) = Some (i, q) ->
             exists lb l, In lb done /\ nth_error prog lb = Some (StBind h l q) /\ alookup l (w_env w) = Some i;
  wi_bind_done : forall lb h l q, In lb done -> nth_error prog lb = Some (StBind h l q) -> alookup h (w_binds w) <> None
}.

Lemma winv_init prog : WInv prog [] w0.
Proof. constructor; simpl; try discriminate; try tauto. Qed.

Lemma nth_error_snoc {A} (l : list A) x : nth_error (l ++ [x]) (length l) = Some x.
Proof. induction l; simpl; auto. Qed.

Lemma nth_error_app_some {A} (l r : list A) i x : nth_error l i = Some x -> nth_error (l ++ r) i = Some x.
Proof. revert i; induction l as [|y t IH]; intros [|i]; simpl; try discriminate; auto. Qed.

Lemma winv_step sh prog done w l s w' :
  WInv prog done w -> ~ In l done -> nth_error prog l = Some s -> wire_stmt sh w l s = Ok w' ->
  WInv prog (l :: done) w' /\ w_le w w'.
Proof.
  intros I Hfresh Hs Hw.
  assert (Hlnone : alookup l (w_env w) = None).
  { destruct (alookup l (w_env w)) as [i|] eqn:E; auto. exfalso. apply Hfresh. eapply wi_env_done; eauto. }
  assert (Hgen : (forall d ins, s <> StNode d ins) -> (forall h l1 q, s <> StBind h l1 q) ->
                 forall dp, WInv prog (l :: done) {| w_insts := w_insts w; w_tab := w_tab w; w_env := w_env w;
                                   w_phs := w_phs w; w_binds := w_binds w; w_deps := dp |} /\
                              w_le w {| w_insts := w_insts w; w_tab := w_tab w; w_env := w_env w;
                                        w_phs := w_phs w; w_binds := w_binds w; w_deps := dp |}).
  { intros Hnn Hnb dp.
    assert (Hle : w_le w {| w_insts := w_insts w; w_tab := w_tab w; w_env := w_env w;
                            w_phs := w_phs w; w_binds := w_binds w; w_deps := dp |}).
    { split; [auto|]. split; [apply env_le_refl | apply phs_le_refl]. }
    split; [|exact Hle].
    constructor; cbn [w_insts w_tab w_env w_phs w_binds w_deps].
    + intros l0 i0 H. eapply inst_matches_mono; [exact Hle | eapply wi_env; eauto].
    + intros l0 i0 H. right. eapply wi_env_done; eauto.
    + intros l0 d0 ins0 [<-|Hd] Hn; [exfalso; rewrite Hs in Hn; injection Hn as ->; eapply Hnn; reflexivity|].
      eapply wi_node_done; eauto.
    + apply (wi_tab _ _ _ I).
    + intros h i0 q H. destruct (wi_binds _ _ _ I h i0 q H) as (lb & l1 & H1 & H2 & H3).
      exists lb, l1. split; [right; exact H1|]. auto.
    + intros lb h l1 q [<-|Hd] Hn; [exfalso; rewrite Hs in Hn; injection Hn as ->; eapply Hnb; reflexivity|].
      eapply wi_bind_done; eauto. }
  destruct s as [d ins| |h l' p|a b|pa la|pa la rc]; cbn [wire_stmt] in Hw.
  - (* node *)
    unfold wire_node, wire_node_gen in Hw.
    destruct (resolve_inputs (w_env w) (w_phs w) ins) as [rins0|] eqn:R; [|discriminate].
    cbv zeta in Hw. set (rins := eff_inputs d rins0) in *.
    destruct (all_passive rins); [discriminate|].
    destruct (if sh && interns d then tab_find (make_key d rins) (w_tab w) else None) as [i|] eqn:T.
    + (* shared with an existing instance *)
      injection Hw as <-.
      assert (Hle : w_le w {| w_insts := w_insts w; w_tab := w_tab w; w_env := (l, i) :: w_env w;
                              w_phs := w_phs w; w_binds := w_binds w; w_deps := w_deps w |}).
      { split; [auto|]. split; [apply env_le_cons; exact Hlnone | apply phs_le_refl]. }
      split; [|exact Hle].
      assert (Hsh : sh && interns d = true) by (destruct (sh && interns d); [reflexivity | discriminate]).
      apply andb_true_iff in Hsh. destruct Hsh as [_ Hint].
      rewrite Hint in T. rewrite andb_true_r in T. destruct sh; [|discriminate].
      apply tab_find_some in T. destruct T as (k' & Hin & Hk). apply key_eqb_eq in Hk. subst k'.
      destruct (wi_tab _ _ _ I _ _ Hin) as (it & Hit & Hkey & Hiint).
      apply make_key_inj in Hkey. destruct Hkey as (K1 & K2 & K3 & K4).
      constructor; cbn [w_insts w_tab w_env w_phs w_binds w_deps].
      * intros l0 i0. rewrite alookup_cons. destruct (l =? l0) eqn:E.
        -- apply Nat.eqb_eq in E. subst l0. intros H. injection H as <-.
           exists d, ins, rins0, it. cbn [w_insts w_env w_phs]. repeat split; auto.
           all: try congruence.
           eapply resolve_inputs_mono; [apply env_le_cons; exact Hlnone | apply phs_le_refl | exact R].
        -- intros H. eapply inst_matches_mono; [exact Hle | eapply wi_env; eauto].
      * intros l0 i0. rewrite alookup_cons. destruct (l =? l0) eqn:E.
        -- apply Nat.eqb_eq in E. subst. intros _. left; reflexivity.
        -- intros H. right. eapply wi_env_done; eauto.
      * intros l0 d0 ins0 [<-|Hd] Hn.
        -- exists i. rewrite alookup_cons, Nat.eqb_refl. reflexivity.
        -- destruct (wi_node_done _ _ _ I l0 d0 ins0 Hd Hn) as (i0 & Hi0). exists i0.
           apply (env_le_cons (w_env w) l i Hlnone). exact Hi0.
      * apply (wi_tab _ _ _ I).
      * intros h i0 q H. destruct (wi_binds _ _ _ I h i0 q H) as (lb & l1 & H1 & H2 & H3).
        exists lb, l1. split; [right; exact H1|]. split; auto. apply (env_le_cons (w_env w) l i Hlnone). exact H3.
      * intros lb h l1 q [<-|Hd] Hn; [congruence|]. eapply wi_bind_done; eauto.
    + (* a new instance *)
      injection Hw as <-.
      set (it := {| i_label := l; i_def := d; i_ins := rins |}).
      set (i := length (w_insts w)).
      assert (Hle : w_le w {| w_insts := w_insts w ++ [it];
                              w_tab := (if interns d then (make_key d rins, i) :: w_tab w else w_tab w);
                              w_env := (l, i) :: w_env w; w_phs := w_phs w; w_binds := w_binds w; w_deps := w_deps w |}).
      { split; [intros j x Hj; apply nth_error_app_some; exact Hj|].
        split; [apply env_le_cons; exact Hlnone | apply phs_le_refl]. }
      split; [|exact Hle].
      constructor; cbn [w_insts w_tab w_env w_phs w_binds w_deps].
      * intros l0 i0. rewrite alookup_cons. destruct (l =? l0) eqn:E.
        -- apply Nat.eqb_eq in E. subst l0. intros H. injection H as <-.
           exists d, ins, rins0, it. cbn [w_insts w_env w_phs]. repeat split; auto.
           ++ apply nth_error_snoc.
           ++ eapply resolve_inputs_mono; [apply env_le_cons; exact Hlnone | apply phs_le_refl | exact R].
        -- intros H. eapply inst_matches_mono; [exact Hle | eapply wi_env; eauto].
      * intros l0 i0. rewrite alookup_cons. destruct (l =? l0) eqn:E.
        -- apply Nat.eqb_eq in E. subst. intros _. left; reflexivity.
        -- intros H. right. eapply wi_env_done; eauto.
      * intros l0 d0 ins0 [<-|Hd] Hn.
        -- exists i. rewrite alookup_cons, Nat.eqb_refl. reflexivity.
        -- destruct (wi_node_done _ _ _ I l0 d0 ins0 Hd Hn) as (i0 & Hi0). exists i0.
           apply (env_le_cons (w_env w) l i Hlnone). exact Hi0.
      * intros k i0 Hin.
        assert (Hold : In (k, i0) (w_tab w) -> exists it0, nth_error (w_insts w ++ [it]) i0 = Some it0 /\
                         make_key (i_def it0) (i_ins it0) = k /\ interns (i_def it0) = true).
        { intros Ho. destruct (wi_tab _ _ _ I k i0 Ho) as (it0 & A & B & C). exists it0. split; auto.
          apply nth_error_app_some. exact A. }
        destruct (interns d) eqn:Eint; [|auto].
        destruct Hin as [Hin|Hin]; [|auto].
        injection Hin as <- <-. exists it. split; [apply nth_error_snoc|]. split; auto.
      * intros h i0 q H. destruct (wi_binds _ _ _ I h i0 q H) as (lb & l1 & H1 & H2 & H3).
        exists lb, l1. split; [right; exact H1|]. split; auto. apply (env_le_cons (w_env w) l i Hlnone). exact H3.
      * intros lb h l1 q [<-|Hd] Hn; [congruence|]. eapply wi_bind_done; eauto.
  - (* placeholder *)
    injection Hw as <-.
    assert (Hle : w_le w {| w_insts := w_insts w; w_tab := w_tab w; w_env := w_env w;
                            w_phs := l :: w_phs w; w_binds := w_binds w; w_deps := w_deps w |}).
    { split; [auto|]. split; [apply env_le_refl | apply phs_le_cons]. }
    split; [|exact Hle].
    constructor; cbn [w_insts w_tab w_env w_phs w_binds w_deps].
    + intros l0 i0 H. eapply inst_matches_mono; [exact Hle | eapply wi_env; eauto].
    + intros l0 i0 H. right. eapply wi_env_done; eauto.
    + intros l0 d0 ins0 [<-|Hd] Hn; [congruence|]. eapply wi_node_done; eauto.
    + apply (wi_tab _ _ _ I).
    + intros h i0 q H. destruct (wi_binds _ _ _ I h i0 q H) as (lb & l1 & H1 & H2 & H3).
      exists lb, l1. split; [right; exact H1|]. auto.
    + intros lb h l1 q [<-|Hd] Hn; [congruence|]. eapply wi_bind_done; eauto.
  - (* bind *)
    destruct (memb h (w_phs w)) eqn:Eh; [|discriminate].
    destruct (alookup l' (w_env w)) as [i|] eqn:El; [|discriminate].
    destruct (alookup h (w_binds w)) as [x|] eqn:Eb; [discriminate|].
    injection Hw as <-.
    assert (Hle : w_le w {| w_insts := w_insts w; w_tab := w_tab w; w_env := w_env w;
                            w_phs := w_phs w; w_binds := (h, (i, p)) :: w_binds w; w_deps := w_deps w |}).
    { split; [auto|]. split; [apply env_le_refl | apply phs_le_refl]. }
    split; [|exact Hle].
    constructor; cbn [w_insts w_tab w_env w_phs w_binds w_deps].
    + intros l0 i0 H. eapply inst_matches_mono; [exact Hle | eapply wi_env; eauto].
    + intros l0 i0 H. right. eapply wi_env_done; eauto.
    + intros l0 d0 ins0 [<-|Hd] Hn; [congruence|]. eapply wi_node_done; eauto.
    + apply (wi_tab _ _ _ I).
    + intros h0 i0 q. rewrite alookup_cons. destruct (h =? h0) eqn:E.
      * apply Nat.eqb_eq in E. subst h0. intros H. injection H as <- <-.
        exists l, l'. split; [left; reflexivity|]. auto.
      * intros H. destruct (wi_binds _ _ _ I h0 i0 q H) as (lb & l1 & H1 & H2 & H3).
        exists lb, l1. split; [right; exact H1|]. auto.
    + intros lb h0 l1 q Hd Hn. rewrite alookup_cons. destruct (h =? h0) eqn:E; [discriminate|].
      destruct Hd as [<-|Hd].
      * rewrite Hs in Hn. injection Hn as -> _ _. rewrite Nat.eqb_refl in E. discriminate.
      * eapply wi_bind_done; eauto.
  - (* explicit rank dependency *)
    destruct (alookup a (w_env w)) as [ia|] eqn:Ea; [|discriminate].
    destruct (alookup b (w_env w)) as [ib|] eqn:Eb; [|discriminate].
    destruct (ia =? ib); [discriminate|].
    assert (Hg := Hgen ltac:(discriminate) ltac:(discriminate)).
    destruct (existsb (pair_eqb (ia, ib)) (w_deps w)).
    + injection Hw as <-. destruct w. apply Hg.
    + injection Hw as <-. apply Hg.
  - (* rank anchor registration: the wiring state proper is unchanged *)
    destruct (alookup la (w_env w)); [|discriminate]. injection Hw as <-.
    pose proof (Hgen ltac:(discriminate) ltac:(discriminate) (w_deps w)) as Hg. destruct w. apply Hg.
  - (* client rank registration *)
    destruct (alookup la (w_env w)); [|discriminate]. injection Hw as <-.
    pose proof (Hgen ltac:(discriminate) ltac:(discriminate) (w_deps w)) as Hg. destruct w. apply Hg.
Qed.

(* ------------------------------------------------------------------ a whole wiring run *)
Lemma w_le_refl w : w_le w w.
Proof. split; [auto|]. split; [apply env_le_refl | apply phs_le_refl]. Qed.

Lemma wire_from_inv sh prog : forall order done w w',
  WInv prog done w -> NoDup (order ++ done) -> wire_from sh prog order w = Ok w' ->
  WInv prog (rev order ++ done) w'.
Proof.
  induction order as [|l r IH]; intros done w w' I Hnd Hw; simpl in *.
  - injection Hw as <-. exact I.
  - destruct (nth_error prog l) as [s|] eqn:Es; [|discriminate].
    destruct (wire_stmt sh w l s) as [w1|c] eqn:Ew; [|discriminate].
    apply NoDup_cons_iff in Hnd. destruct Hnd as [Hl Hnd].
    assert (Hfresh : ~ In l done) by (intros H; apply Hl; apply in_app_iff; right; exact H).
    destruct (winv_step sh prog done w l s w1 I Hfresh Es Ew) as [I1 _].
    rewrite <- app_assoc. simpl. apply (IH (l :: done) w1 w' I1); auto.
    apply NoDup_app_intro.
    + apply NoDup_app_inv in Hnd. tauto.
    + apply NoDup_cons_iff. split; auto. apply NoDup_app_inv in Hnd. tauto.
    + intros x Hx [<-|Hd].
      * apply Hl. apply in_app_iff. left; exact Hx.
      * apply NoDup_app_inv in Hnd. destruct Hnd as (_ & _ & Hdis). apply (Hdis x Hx Hd).
Qed.

Lemma wire_prog_inv sh prog order w :
  NoDup order -> wire_prog sh prog order = Ok w -> WInv prog (rev order) w.
Proof.
  intros Hnd Hw. unfold wire_prog in Hw.
  pose proof (wire_from_inv sh prog order [] w0 w (winv_init prog)) as H.
  rewrite !app_nil_r in H. apply H; auto.
Qed.

(* ------------------------------------------------------------------ sinks / unique nodes are never shared;
   statements that share a node are configured identically *)
Lemma shared_same_config prog done w l1 l2 i :
  WInv prog done w -> alookup l1 (w_env w) = Some i -> alookup l2 (w_env w) = Some i ->
  exists d1 ins1 r1 d2 ins2 r2,
    nth_error prog l1 = Some (StNode d1 ins1) /\ nth_error prog l2 = Some (StNode d2 ins2) /\
    resolve_inputs (w_env w) (w_phs w) ins1 = Some r1 /\ resolve_inputs (w_env w) (w_phs w) ins2 = Some r2 /\
    nd_def d1 = nd_def d2 /\ nd_sch d1 = nd_sch d2 /\ nd_scal d1 = nd_scal d2 /\
    key_inputs (eff_inputs d1 r1) = key_inputs (eff_inputs d2 r2) /\
    (l1 <> l2 -> interns d1 = true /\ interns d2 = true).
Proof.
  intros I H1 H2.
  destruct (wi_env _ _ _ I l1 i H1) as (d1 & ins1 & r1 & it1 & A1 & B1 & C1 & D1 & E1 & F1 & G1 & N1 & L1).
  destruct (wi_env _ _ _ I l2 i H2) as (d2 & ins2 & r2 & it2 & A2 & B2 & C2 & D2 & E2 & F2 & G2 & N2 & L2).
  rewrite B1 in B2. injection B2 as <-.
  exists d1, ins1, r1, d2, ins2, r2. repeat split; auto; try congruence.
  - destruct (interns d1) eqn:X; auto. exfalso. apply H.
    rewrite <- (L1 eq_refl). apply L2. congruence.
  - destruct (interns d2) eqn:X; auto. exfalso. apply H.
    rewrite <- (L2 eq_refl). symmetry. apply L1. congruence.
Qed.

Lemma bypass_distinct prog done w l1 l2 i d ins :
  WInv prog done w -> alookup l1 (w_env w) = Some i -> alookup l2 (w_env w) = Some i ->
  nth_error prog l1 = Some (StNode d ins) -> interns d = false -> l1 = l2.
Proof.
  intros I H1 H2 Hn Hi. destruct (Nat.eq_dec l1 l2) as [E|E]; auto.
  destruct (shared_same_config prog done w l1 l2 i I H1 H2) as (d1 & ins1 & r1 & d2 & ins2 & r2 & A & _ & _ & _ & _ & _ & _ & _ & X).
  rewrite Hn in A. injection A as <- <-. destruct (X E) as [Y _]. congruence.
Qed.

(* ------------------------------------------------------------------ the wired graph unfolds to the program *)
Definition single_bind (prog : list stmt) : Prop :=
  forall h l p l' p', In (StBind h l p) prog -> In (StBind h l' p') prog -> l = l' /\ p = p'.

Lemma bind_of_in prog h l p : bind_of prog h = Some (l, p) -> In (StBind h l p) prog.
Proof.
  induction prog as [|s r IH]; simpl; [discriminate|].
  destruct s as [d ins| |h' l' p'|a b|pa la|pa la rc]; try (intros H; right; apply IH; exact H).
  destruct (h' =? h) eqn:E.
  - apply Nat.eqb_eq in E. subst. intros H. injection H as -> ->. left; reflexivity.
  - intros H. right. apply IH; exact H.
Qed.

Lemma bind_of_none prog h : bind_of prog h = None -> forall l p, ~ In (StBind h l p) prog.
Proof.
  induction prog as [|s r IH]; simpl; intros H l p; [tauto|].
  destruct s as [d ins| |h' l' p'|a b|pa la|pa la rc]; try (intros [X|X]; [discriminate | apply (IH H l p X)]).
  destruct (h' =? h) eqn:E; [discriminate|].
  intros [X|X]; [|apply (IH H l p X)]. injection X as -> _ _. rewrite Nat.eqb_refl in E. discriminate.
Qed.

Lemma bind_of_single prog h l p : single_bind prog -> In (StBind h l p) prog -> bind_of prog h = Some (l, p).
Proof.
  intros Hs Hin. destruct (bind_of prog h) as [[l' p']|] eqn:E.
  - apply bind_of_in in E. destruct (Hs h l p l' p' Hin E) as [-> ->]. reflexivity.
  - exfalso. apply (bind_of_none prog h E l p Hin).
Qed.

Lemma unf_src_resolve (G P : nat -> tree) gb pb e p :
  (forall l i, alookup l e = Some i -> G i = P l) ->
  (forall h, match gb h with
             | Some (i, q) => exists l, pb h = Some (l, q) /\ alookup l e = Some i
             | None => pb h = None
             end) ->
  forall s r, resolve e p s = Some r -> unf_src G gb r = unf_src P pb s.
Proof.
  intros Hn Hb s. induction s as [n q k|h q| |cs IH] using src_ind'; intros r H.
  - simpl in H. destruct (alookup n e) as [i|] eqn:E; [|discriminate]. injection H as <-. simpl.
    rewrite (Hn n i E). reflexivity.
  - simpl in H. destruct (memb h p); [|discriminate]. injection H as <-. simpl.
    specialize (Hb h). destruct (gb h) as [[i q0]|].
    + destruct Hb as (l & Hpb & Hl). rewrite Hpb, (Hn l i Hl). reflexivity.
    + rewrite Hb. reflexivity.
  - injection H as <-. reflexivity.
  - rewrite resolve_struct in H. destruct (mapM (resolve e p) cs) as [cs'|] eqn:E; [|discriminate].
    injection H as <-. simpl. f_equal.
    revert cs' E. induction IH as [|x r Hx Hr IHr]; simpl; intros cs' E.
    + injection E as <-. reflexivity.
    + destruct (resolve e p x) as [a|] eqn:Ea; [|discriminate].
      destruct (mapM (resolve e p) r) as [b|] eqn:Eb; [|discriminate].
      injection E as <-. simpl. rewrite (Hx a eq_refl), (IHr b eq_refl). reflexivity.
Qed.

Lemma unf_inputs_resolve (G P : nat -> tree) gb pb e p :
  (forall l i, alookup l e = Some i -> G i = P l) ->
  (forall h, match gb h with
             | Some (i, q) => exists l, pb h = Some (l, q) /\ alookup l e = Some i
             | None => pb h = None
             end) ->
  forall ins rins, resolve_inputs e p ins = Some rins -> unf_inputs G gb rins = unf_inputs P pb ins.
Proof.
  intros Hn Hb ins rins H. unfold unf_inputs, norm_inputs. generalize 0 as k.
  revert rins H. induction ins as [|i r IH]; simpl; intros rins H k.
  - injection H as <-. reflexivity.
  - destruct (resolve e p (in_src i)) as [s|] eqn:Es; [|discriminate].
    destruct (resolve_inputs e p r) as [r'|] eqn:Er; [|discriminate].
    injection H as <-. simpl. rewrite (unf_src_resolve G P gb pb e p Hn Hb _ _ Es), (IH r' eq_refl). reflexivity.
Qed.

(* dropping the markers (add_unique_node) commutes with turning labels into ports *)
Lemma resolve_inputs_eff e p d ins rins :
  resolve_inputs e p ins = Some rins -> resolve_inputs e p (eff_inputs d ins) = Some (eff_inputs d rins).
Proof.
  unfold eff_inputs. destruct (nd_uniq d); auto.
  revert rins. induction ins as [|i r IH]; simpl; intros rins H.
  - injection H as <-. reflexivity.
  - destruct (resolve e p (in_src i)) as [s|] eqn:Es; [|discriminate].
    destruct (resolve_inputs e p r) as [r'|] eqn:Er; [|discriminate].
    injection H as <-. rewrite (IH r' eq_refl). reflexivity.
Qed.

(* every bind statement of the program has been executed *)
Definition binds_done (prog : list stmt) (done : list nat) : Prop :=
  forall lb h l q, nth_error prog lb = Some (StBind h l q) -> In lb done.

Lemma graph_unfolds_to_program prog done w :
  WInv prog done w -> single_bind prog -> binds_done prog done ->
  forall fuel l i, alookup l (w_env w) = Some i -> gunf w fuel i = punf prog fuel l.
Proof.
  intros I Hsb Hbd.
  assert (Hb : forall h, match alookup h (w_binds w) with
                         | Some (i, q) => exists l, bind_of prog h = Some (l, q) /\ alookup l (w_env w) = Some i
                         | None => bind_of prog h = None
                         end).
  { intros h. destruct (alookup h (w_binds w)) as [[i q]|] eqn:E.
    - destruct (wi_binds _ _ _ I h i q E) as (lb & l & _ & Hn & Hl). exists l. split; auto.
      apply bind_of_single; auto. eapply nth_error_In; eauto.
    - destruct (bind_of prog h) as [[l q]|] eqn:Eb; auto. exfalso.
      apply bind_of_in in Eb. apply In_nth_error in Eb. destruct Eb as (lb & Hlb).
      apply (wi_bind_done _ _ _ I lb h l q (Hbd lb h l q Hlb) Hlb). exact E. }
  induction fuel as [|f IH]; intros l i Hl; [reflexivity|].
  destruct (wi_env _ _ _ I l i Hl) as (d & ins & rins & it & A & B & C & D1 & D2 & D3 & D4 & N & L).
  cbn [gunf punf]. rewrite A, B. unfold site_of. rewrite D1, D2, D3, D4.
  f_equal.
  - destruct (interns d) eqn:X; auto.
  - unfold unf_inputs at 1. unfold key_inputs in N. rewrite N.
    change (unf_inputs (gunf w f) (fun h => alookup h (w_binds w)) (eff_inputs d rins) =
            unf_inputs (punf prog f) (bind_of prog) (eff_inputs d ins)).
    apply (unf_inputs_resolve (gunf w f) (punf prog f) (fun h => alookup h (w_binds w)) (bind_of prog) (w_env w) (w_phs w)); auto.
    apply resolve_inputs_eff. exact C.
Qed.

(* packaged for a complete run: the order executes every statement exactly once *)
Definition complete_order (prog : list stmt) (order : list nat) : Prop :=
  NoDup order /\ forall l, l < length prog -> In l order.

Lemma run_unfolds sh prog order w :
  complete_order prog order -> single_bind prog -> wire_prog sh prog order = Ok w ->
  forall l d ins, nth_error prog l = Some (StNode d ins) ->
  exists i, alookup l (w_env w) = Some i /\ forall fuel, gunf w fuel i = punf prog fuel l.
Proof.
  intros [Hnd Hall] Hsb Hw l d ins Hn.
  pose proof (wire_prog_inv sh prog order w Hnd Hw) as I.
  assert (Hin : forall l0 s, nth_error prog l0 = Some s -> In l0 (rev order)).
  { intros l0 s H. apply in_rev. rewrite rev_involutive. apply Hall. apply nth_error_Some. congruence. }
  destruct (wi_node_done _ _ _ I l d ins (Hin _ _ Hn) Hn) as (i & Hi).
  exists i. split; auto. intros fuel.
  apply (graph_unfolds_to_program prog (rev order) w I Hsb); auto.
  intros lb h l0 q H. eapply Hin; eauto.
Qed.

(* sharing is unobservable: the interned graph and the graph in which every statement has its own node
   unfold to the same dataflow at every statement *)
Lemma intern_preserves_dataflow prog order w1 w0' :
  complete_order prog order -> single_bind prog ->
  wire_prog true prog order = Ok w1 -> wire_prog false prog order = Ok w0' ->
  forall l d ins, nth_error prog l = Some (StNode d ins) ->
  exists i1 i0, alookup l (w_env w1) = Some i1 /\ alookup l (w_env w0') = Some i0 /\
                forall fuel, gunf w1 fuel i1 = gunf w0' fuel i0.
Proof.
  intros Hc Hsb H1 H0 l d ins Hn.
  destruct (run_unfolds true prog order w1 Hc Hsb H1 l d ins Hn) as (i1 & A1 & B1).
  destruct (run_unfolds false prog order w0' Hc Hsb H0 l d ins Hn) as (i0 & A0 & B0).
  exists i1, i0. repeat split; auto. intros fuel. rewrite B1, B0. reflexivity.
Qed.

(* statement order is unobservable *)
Lemma order_independent_unfold prog o1 o2 w1 w2 :
  complete_order prog o1 -> complete_order prog o2 -> single_bind prog ->
  wire_prog true prog o1 = Ok w1 -> wire_prog true prog o2 = Ok w2 ->
  forall l d ins, nth_error prog l = Some (StNode d ins) ->
  exists i1 i2, alookup l (w_env w1) = Some i1 /\ alookup l (w_env w2) = Some i2 /\
                forall fuel, gunf w1 fuel i1 = gunf w2 fuel i2.
Proof.
  intros Hc1 Hc2 Hsb H1 H2 l d ins Hn.
  destruct (run_unfolds true prog o1 w1 Hc1 Hsb H1 l d ins Hn) as (i1 & A1 & B1).
  destruct (run_unfolds true prog o2 w2 Hc2 Hsb H2 l d ins Hn) as (i2 & A2 & B2).
  exists i1, i2. repeat split; auto. intros fuel. rewrite B1, B2. reflexivity.
Qed.

(* ------------------------------------------------------------------ statements about whole runs *)
Lemma run_shared_same_config sh prog order w l1 l2 i :
  NoDup order -> wire_prog sh prog order = Ok w ->
  alookup l1 (w_env w) = Some i -> alookup l2 (w_env w) = Some i ->
  exists d1 ins1 r1 d2 ins2 r2,
    nth_error prog l1 = Some (StNode d1 ins1) /\ nth_error prog l2 = Some (StNode d2 ins2) /\
    resolve_inputs (w_env w) (w_phs w) ins1 = Some r1 /\ resolve_inputs (w_env w) (w_phs w) ins2 = Some r2 /\
    nd_def d1 = nd_def d2 /\ nd_sch d1 = nd_sch d2 /\ nd_scal d1 = nd_scal d2 /\
    key_inputs (eff_inputs d1 r1) = key_inputs (eff_inputs d2 r2) /\
    (l1 <> l2 -> interns d1 = true /\ interns d2 = true).
Proof.
  intros Hnd Hw. eapply shared_same_config. eapply wire_prog_inv; eauto.
Qed.

Lemma run_bypass_distinct sh prog order w l1 l2 i d ins :
  NoDup order -> wire_prog sh prog order = Ok w ->
  nth_error prog l1 = Some (StNode d ins) -> interns d = false ->
  alookup l1 (w_env w) = Some i -> alookup l2 (w_env w) = Some i -> l1 = l2.
Proof.
  intros Hnd Hw Hn Hi H1 H2. eapply bypass_distinct; eauto. eapply wire_prog_inv; eauto.
Qed.

(* without sharing no two statements ever get the same node *)
Lemma compile_ranked prog order w g o es :
  compile prog order = Built w g o es -> rg_wf g -> kahn g = KOk o /\ is_ranking g o.
Proof.
  unfold compile. destruct (wire_prog true prog order) as [w0'|c]; [|discriminate].
  destruct (collect_svc prog order (w_env w0') svc0) as [sv|c]; [|discriminate].
  set (w' := finalize w0' sv).
  unfold finish. destruct (rgraph_of w') as [g'|]; [|discriminate].
  destruct (kahn g') as [o'| |] eqn:K; try discriminate.
  destruct (emit_from w' 0 (w_insts w')); [|discriminate].
  intros H Hwf. injection H as <- <- <- <-. split; auto. apply kahn_sound; auto.
Qed.

(* [w] is the wired state with the service rank dependencies applied, i.e. what finish ranks *)
Lemma compile_rejects_cycle prog order w0' sv :
  wire_prog true prog order = Ok w0' -> collect_svc prog order (w_env w0') svc0 = Ok sv ->
  forall g, rgraph_of (finalize w0' sv) = Some g -> rg_wf g ->
  (compile prog order = Rejected E_CYCLE <-> cyclic g /\ ~ has_push_dep g).
Proof.
  intros Hw Hs g Hg Hwf. unfold compile, finish. rewrite Hw, Hs, Hg.
  rewrite <- (kahn_complete g Hwf).
  destruct (kahn g) as [o| |]; try (split; [discriminate | congruence]).
  - destruct (emit_from (finalize w0' sv) 0 (w_insts (finalize w0' sv))); split; try discriminate; try congruence.
  - split; auto.
Qed.

(* ------------------------------------------------------------------ the OLD rule (marker not in the key) *)
(* Kept as a named variant of the model ([wire_prog_old]): what the code did before
   hooks/fix_passive_marker_in_key.patch.  Under it the two statements below fail. *)
Definition w_src (s : Z) : ndef := {| nd_def := 0; nd_sch := [1%Z]; nd_scal := Some [s]; nd_uniq := false; nd_push := false |}.
Definition w_add : ndef := {| nd_def := 3; nd_sch := [1%Z]; nd_scal := None; nd_uniq := false; nd_push := false |}.
Definition w_in (l : nat) (pa : bool) : input := {| in_src := SPeer l [] 0; in_tpath := []; in_rank := true; in_passive := pa |}.
Definition w_prog : list stmt :=
  [StNode (w_src 7) []; StNode (w_src 8) []; StNode w_add [w_in 0 true; w_in 1 false]; StNode w_add [w_in 0 false; w_in 1 false]].

Lemma passive_marker_distinct_old_rule_refuted :
  exists prog order w l1 l2 i d1 ins1 d2 ins2,
    NoDup order /\ wire_prog_old true prog order = Ok w /\ l1 <> l2 /\
    alookup l1 (w_env w) = Some i /\ alookup l2 (w_env w) = Some i /\
    nth_error prog l1 = Some (StNode d1 ins1) /\ nth_error prog l2 = Some (StNode d2 ins2) /\
    map in_passive ins1 <> map in_passive ins2.
Proof.
  destruct (wire_prog_old true w_prog [0; 1; 2; 3]) as [w|c] eqn:E; [|vm_compute in E; discriminate].
  exists w_prog, [0; 1; 2; 3], w, 2, 3, 2, w_add, [w_in 0 true; w_in 1 false], w_add, [w_in 0 false; w_in 1 false].
  vm_compute in E. injection E as <-.
  split; [apply nodupb_NoDup; reflexivity|].
  repeat split; try reflexivity; try discriminate.
Qed.

Lemma order_independent_old_rule_refuted :
  exists prog o1 o2 w1 w2 l i1 i2 fuel,
    complete_order prog o1 /\ complete_order prog o2 /\ single_bind prog /\
    wire_prog_old true prog o1 = Ok w1 /\ wire_prog_old true prog o2 = Ok w2 /\
    alookup l (w_env w1) = Some i1 /\ alookup l (w_env w2) = Some i2 /\
    gunf w1 fuel i1 <> gunf w2 fuel i2.
Proof.
  destruct (wire_prog_old true w_prog [0; 1; 2; 3]) as [w1|c] eqn:E1; [|vm_compute in E1; discriminate].
  destruct (wire_prog_old true w_prog [0; 1; 3; 2]) as [w2|c] eqn:E2; [|vm_compute in E2; discriminate].
  exists w_prog, [0; 1; 2; 3], [0; 1; 3; 2], w1, w2, 2, 2, 2, 1.
  vm_compute in E1. injection E1 as <-. vm_compute in E2. injection E2 as <-.
  assert (Hc : forall o, nodupb o = true -> forallb (fun l => memb l o) (seq 0 (length w_prog)) = true -> complete_order w_prog o).
  { intros o H1 H2. split; [apply nodupb_NoDup; exact H1|]. intros l Hl.
    rewrite forallb_forall in H2. apply memb_In. apply H2. apply in_seq. lia. }
  split; [apply Hc; reflexivity|]. split; [apply Hc; reflexivity|].
  split; [intros h l p l' p' H; simpl in H; intuition discriminate|].
  repeat split; try reflexivity. vm_compute. discriminate.
Qed.

(* ... whereas under the repaired rule the same two statements get two nodes *)
Lemma passive_pair_distinct_now :
  match wire_prog true w_prog [0; 1; 2; 3] with
  | Ok w => (alookup 2 (w_env w), alookup 3 (w_env w))
  | Err _ => (None, None)
  end = (Some 2, Some 3).
Proof. vm_compute. reflexivity. Qed.

(* ------------------------------------------------------------------ full strength, markers included *)
Lemma norm_from_passive k ins : map in_passive (norm_from k ins) = map in_passive ins.
Proof. revert k; induction ins as [|i r IH]; intros k; simpl; auto. rewrite IH. reflexivity. Qed.

Lemma resolve_inputs_passive e p ins : forall rins, resolve_inputs e p ins = Some rins ->
  map in_passive rins = map in_passive ins.
Proof.
  induction ins as [|i r IH]; simpl; intros rins H.
  - injection H as <-. reflexivity.
  - destruct (resolve e p (in_src i)); [|discriminate]. destruct (resolve_inputs e p r) as [r'|]; [|discriminate].
    injection H as <-. simpl. rewrite (IH r' eq_refl). reflexivity.
Qed.

Lemma interns_not_uniq d : interns d = true -> nd_uniq d = false.
Proof. unfold interns. destruct (nd_uniq d); [rewrite andb_false_r; discriminate | reflexivity]. Qed.

(* two different statements that share a node carry the same passive markers *)
Lemma run_shared_same_markers sh prog order w l1 l2 i d1 ins1 d2 ins2 :
  NoDup order -> wire_prog sh prog order = Ok w -> l1 <> l2 ->
  alookup l1 (w_env w) = Some i -> alookup l2 (w_env w) = Some i ->
  nth_error prog l1 = Some (StNode d1 ins1) -> nth_error prog l2 = Some (StNode d2 ins2) ->
  map in_passive ins1 = map in_passive ins2.
Proof.
  intros Hnd Hw Hne H1 H2 N1 N2.
  destruct (run_shared_same_config sh prog order w l1 l2 i Hnd Hw H1 H2)
    as (d1' & i1' & r1 & d2' & i2' & r2 & A1 & A2 & R1 & R2 & _ & _ & _ & K & X).
  rewrite N1 in A1. injection A1 as <- <-. rewrite N2 in A2. injection A2 as <- <-.
  destruct (X Hne) as [I1 I2]. unfold eff_inputs in K.
  rewrite (interns_not_uniq _ I1), (interns_not_uniq _ I2) in K. unfold key_inputs, norm_inputs in K.
  apply (f_equal (map in_passive)) in K. rewrite !norm_from_passive in K.
  rewrite <- (resolve_inputs_passive _ _ _ _ R1), <- (resolve_inputs_passive _ _ _ _ R2). exact K.
Qed.
