(* Delta.v — mirror model for property C20 (record / replay; capture_delta / apply_delta).
   Executable definitions only; proofs are in DeltaFacts.v.

   What is mirrored, and from where:
     * the time-series data layer as far as capture/apply read and write it
         - per-node tracking: last_modified_time == now  -> [m];  ever modified -> [valid]
           (types.cpp TSDataTracking::record_modified, base_view.h mark_modified: a node notifies
           its parent only the FIRST time it is marked in a cycle)
         - TSS slot storage (ts_data_slot_ops.cpp TSSSlotStorage: insert_key / remove_key /
           touch; added_/removed_ bits; a key removed and re-added in one cycle cancels)
         - TSD slot storage (TSDSlotStorage: insert_key with resurrection of a pending-erase
           slot, remove_key, record_child_modified; bits added_/removed_/modified_/
           value_published_; pending-erase slots live until the next cycle)
         - fixed TSL / TSB, TS, SIGNAL, tick-count TSW
     * src/hgraph/types/time_series/ts_delta.cpp: capture_delta_* , delta_has_effect_* ,
       apply_delta_* , delta_is_observable (the observable_ family), initialize_tsb_delta_defaults
     * include/hgraph/lib/std/operators/impl/record_replay_memory_impl.h: dense_record_impl::eval
       (cycle-aligned buffer, padding), replay_impl::eval (dense branch, cursor, re-arm)
   Scalars and keys are Z.  Sets are strictly sorted lists, dictionaries key-sorted
   association lists (DeltaLib), so equal contents are equal terms and printing is canonical. *)
Require Import Base DeltaLib.

(* ------------------------------------------------------------------ shapes *)
Inductive shape :=
| TS | SIGNAL
| TSW (period min_period : nat)
| TSS
| TSD (e : shape)
| TSL (n : nat) (e : shape)
| TSB (fs : list shape).

(* value_published_/added_/removed_/modified_ bits of one TSD slot + liveness
   (live = in keys_; not live = pending erase, retained until the cycle ends) *)
Record sflags := mkF { f_live : bool; f_added : bool; f_removed : bool; f_modified : bool; f_published : bool }.

Inductive node :=
| NLeaf (m : bool) (v : option Z)                              (* TS<int>, SIGNAL (value 1) *)
| NWin (m : bool) (vals : list Z)                              (* TSW: retained values, oldest first *)
| NSet (m valid : bool) (elems added removed : list Z)
| NDict (m valid : bool) (items : list (Z * (sflags * node)))
| NIdx (m valid : bool) (kids : list node).                    (* fixed TSL and TSB *)

Definition nmod (n : node) : bool :=
  match n with NLeaf m _ | NWin m _ | NSet m _ _ _ _ | NDict m _ _ | NIdx m _ _ => m end.

Definition nvalid (n : node) : bool :=
  match n with
  | NLeaf _ v => match v with Some _ => true | None => false end
  | NWin _ vals => match vals with [] => false | _ => true end
  | NSet _ v _ _ _ | NDict _ v _ | NIdx _ v _ => v
  end.

Definition is_nil {A} (l : list A) : bool := match l with [] => true | _ => false end.

(* zipping helpers; the function argument stays outside the fix so that nested
   recursive calls on the elements of [fs] are accepted *)
Definition zipw {A B C} (g : A -> B -> C) : list A -> list B -> list C :=
  fix go l r := match l, r with a :: l', b :: r' => g a b :: go l' r' | _, _ => [] end.
Definition zipw3 {A B C D} (g : A -> B -> C -> D) : list A -> list B -> list C -> list D :=
  fix go l r s := match l, r, s with a :: l', b :: r', c :: s' => g a b c :: go l' r' s' | _, _, _ => [] end.

Fixpoint fresh (sh : shape) : node :=
  match sh with
  | TS | SIGNAL => NLeaf false None
  | TSW _ _ => NWin false []
  | TSS => NSet false false [] [] []
  | TSD _ => NDict false false []
  | TSL n e => NIdx false false (repeat (fresh e) n)
  | TSB fs => NIdx false false (map fresh fs)
  end.

(* ------------------------------------------------------------------ mutation API *)
(* TS: TSDataMutationView::copy_value_from *)
Definition leaf_set (z : Z) (n : node) : node := match n with NLeaf _ _ => NLeaf true (Some z) | _ => n end.

(* TSW: TSWDataMutationView::push (tick-count window of [period] elements) *)
Fixpoint lastn (k : nat) (l : list Z) : list Z := if (length l <=? k)%nat then l else match l with [] => [] | _ :: r => lastn k r end.
Definition win_push (period : nat) (z : Z) (n : node) : node :=
  match n with NWin _ vals => NWin true (lastn period (vals ++ [z])) | _ => n end.

(* TSS: TSSDataMutationView::add / remove / touch / clear over TSSSlotStorage *)
Definition set_add (k : Z) (n : node) : node :=
  match n with
  | NSet _ _ el ad rm =>
      if mem k el then NSet true true el ad rm                        (* unchanged -> touch *)
      else if mem k rm then NSet true true (ins k el) ad (del k rm)   (* resurrect: removed_.reset *)
      else NSet true true (ins k el) (ins k ad) rm
  | _ => n
  end.
Definition set_remove (k : Z) (n : node) : node :=
  match n with
  | NSet _ _ el ad rm =>
      if mem k el then
        if mem k ad then NSet true true (del k el) (del k ad) rm
        else NSet true true (del k el) ad (ins k rm)
      else NSet true true el ad rm
  | _ => n
  end.
Definition set_touch (n : node) : node := match n with NSet _ _ el ad rm => NSet true true el ad rm | _ => n end.
Definition set_clear (n : node) : node :=
  match n with NSet _ _ el _ _ => set_touch (fold_left (fun s k => set_remove k s) el n) | _ => n end.

(* TSD: TSDSlotStorage *)
Definition flags0 : sflags := mkF true false false false false.

(* insert_key.  A pending-erase slot is resurrected together with its child; the repaired rule
   (restore_modified_on_resurrection): if the resurrected slot's value is published and its child
   was modified in this cycle, the slot is marked modified again (remove_key cleared the mark and
   the child, already marked this cycle, will not notify a second time). *)
Definition resurrect_flags (f : sflags) (c : node) : sflags :=
  if f_removed f then mkF true (f_added f) false (f_modified f) true
  else if nvalid c then mkF true true false (f_modified f) true
  else mkF true (f_added f) false (f_modified f) (f_published f).
Definition restore_modified (f : sflags) (c : node) : sflags :=
  if f_published f && nmod c then mkF (f_live f) (f_added f) (f_removed f) true (f_published f) else f.

Definition dict_at (e : shape) (k : Z) (n : node) : node :=
  match n with
  | NDict _ _ items =>
      match get k items with
      | Some (f, c) =>
          if f_live f then n
          else NDict true true (put k (restore_modified (resurrect_flags f c) c, c) items)
      | None => NDict true true (put k (flags0, fresh e) items)
      end
  | _ => n
  end.

(* record_child_modified(slot) for a live slot *)
Definition slot_child_modified (f : sflags) (c : node) : sflags :=
  if nvalid c then
    if f_published f then mkF (f_live f) (f_added f) (f_removed f) true true
    else if f_removed f then mkF (f_live f) (f_added f) false true true
    else mkF (f_live f) true (f_removed f) true true
  else
    if f_published f then
      if f_added f then mkF (f_live f) false (f_removed f) false false
      else mkF (f_live f) (f_added f) true false false
    else mkF (f_live f) (f_added f) (f_removed f) false (f_published f).

(* mutation.at(key) followed by a mutation [g] of the child; the child notifies the
   dictionary only when it becomes modified for the first time this cycle *)
Definition dict_child (e : shape) (k : Z) (g : node -> node) (n : node) : node :=
  match dict_at e k n with
  | NDict m v items =>
      match get k items with
      | Some (f, c) =>
          let c' := g c in
          if negb (nmod c) && nmod c' then NDict true true (put k (slot_child_modified f c', c') items)
          else NDict m v (put k (f, c') items)
      | None => NDict m v items
      end
  | x => x
  end.

(* remove_key; erase of an absent key touches (dict_view.cpp TSDDataMutationView::erase) *)
Definition dict_erase (k : Z) (n : node) : node :=
  match n with
  | NDict _ _ items =>
      match get k items with
      | Some (f, c) =>
          if f_live f then
            let f' := if f_published f then
                        if f_added f then mkF false false (f_removed f) false false
                        else mkF false (f_added f) true false false
                      else mkF false (f_added f) (f_removed f) false false in
            NDict true true (put k (f', c) items)
          else NDict true true items
      | None => NDict true true items
      end
  | _ => n
  end.
Definition dict_touch (n : node) : node := match n with NDict _ _ items => NDict true true items | _ => n end.
Definition slot_live (kv : Z * (sflags * node)) : bool := f_live (fst (snd kv)).
Definition live_keys (items : list (Z * (sflags * node))) : list Z := map fst (filter slot_live items).
Definition dict_clear (n : node) : node :=
  match n with NDict _ _ items => dict_touch (fold_left (fun d k => dict_erase k d) (live_keys items) n) | _ => n end.
Definition dict_contains (k : Z) (n : node) : bool :=
  match n with NDict _ _ items => match get k items with Some (f, _) => f_live f | None => false end | _ => false end.

(* fixed TSL / TSB: child [i] mutated by [g]; fixed_record_child_modified + parent tracking *)
Definition idx_child (i : nat) (g : node -> node) (n : node) : node :=
  match n with
  | NIdx m v kids =>
      match nth_error kids i with
      | Some c =>
          let c' := g c in
          if negb (nmod c) && nmod c' then NIdx true true (set_nth i c' kids) else NIdx m v (set_nth i c' kids)
      | None => n
      end
  | _ => n
  end.

(* ------------------------------------------------------------------ scripted ticks *)
(* one mutation of the driver's script: a path (TSD: key, TSL/TSB: index) and an operation *)
Record sop := mkOp { o_path : list Z; o_code : Z; o_arg : Z }.

Definition child_shape (sh : shape) (p : Z) : option shape :=
  match sh with
  | TSD e => Some e
  | TSL n e => if (0 <=? p) && (p <? Z.of_nat n) then Some e else None
  | TSB fs => if 0 <=? p then nth_error fs (Z.to_nat p) else None
  | _ => None
  end.

(* static validity of an operation against the schema (the driver rejects the case otherwise) *)
Definition leaf_ok (sh : shape) (code : Z) : bool :=
  match sh with
  | TS => code =? 1
  | SIGNAL => code =? 2
  | TSS => (3 <=? code) && (code <=? 6)
  | TSD _ => (5 <=? code) && (code <=? 8)
  | TSW _ _ => code =? 9
  | _ => false
  end.
Fixpoint op_ok (path : list Z) (sh : shape) (code : Z) : bool :=
  match path with
  | [] => leaf_ok sh code
  | p :: rest => match child_shape sh p with Some c => op_ok rest c code | None => false end
  end.

Definition leaf_op (sh : shape) (code arg : Z) (n : node) : node :=
  match sh with
  | TS => leaf_set arg n
  | SIGNAL => leaf_set 1 n
  | TSW p _ => win_push p arg n
  | TSS => if code =? 3 then set_add arg n else if code =? 4 then set_remove arg n
           else if code =? 5 then set_touch n else set_clear n
  | TSD e => if code =? 5 then dict_touch n else if code =? 6 then dict_clear n
             else if code =? 7 then dict_erase arg n else dict_at e arg n
  | _ => n
  end.

Fixpoint do_op (path : list Z) (sh : shape) (code arg : Z) (n : node) : node :=
  match path with
  | [] => leaf_op sh code arg n
  | p :: rest =>
      match child_shape sh p with
      | Some c =>
          match sh with
          | TSD e => dict_child e p (do_op rest c code arg) n
          | _ => idx_child (Z.to_nat p) (do_op rest c code arg) n
          end
      | None => n
      end
  end.

Definition run_ops (sh : shape) (ops : list sop) (n : node) : node :=
  fold_left (fun s o => do_op (o_path o) sh (o_code o) (o_arg o) s) ops n.

(* ------------------------------------------------------------------ end of cycle *)
Definition clear_flags (f : sflags) : sflags := mkF true false false false (f_published f).

(* what the lazily executed prepare_delta / erase_pending / the passing of time amount to *)
Fixpoint commit (sh : shape) (n : node) : node :=
  match sh, n with
  | TSD e, NDict _ v items =>
      NDict false v (map (fun kv => (fst kv, (clear_flags (fst (snd kv)), commit e (snd (snd kv))))) (filter slot_live items))
  | TSL _ e, NIdx _ v kids => NIdx false v (map (commit e) kids)
  | TSB fs, NIdx _ v kids => NIdx false v (zipw commit fs kids)
  | _, NLeaf _ v => NLeaf false v
  | _, NWin _ vals => NWin false vals
  | _, NSet _ v el _ _ => NSet false v el [] []
  | _, _ => n
  end.

(* ------------------------------------------------------------------ canonical deltas *)
Inductive delta :=
| DNone                                                    (* unset bundle field / typed null *)
| DVal (z : Z)
| DSet (added removed : list Z)
| DDict (removed : list Z) (modified : list (Z * delta))
| DList (items : list (Z * delta))
| DBundle (fields : list delta).

Definition is_collection (sh : shape) : bool :=
  match sh with TSS | TSD _ | TSL _ _ | TSB _ => true | _ => false end.

(* empty_delta_impl, initialize_tsb_delta_defaults *)
Fixpoint empty_delta (sh : shape) : delta :=
  match sh with
  | TSS => DSet [] []
  | TSD _ => DDict [] []
  | TSL _ _ => DList []
  | TSB fs => DBundle (map (fun f => if is_collection f then empty_delta f else DNone) fs)
  | _ => DNone
  end.
Definition field_default (f : shape) : delta := if is_collection f then empty_delta f else DNone.

Fixpoint last_opt (l : list Z) : option Z := match l with [] => None | [x] => Some x | _ :: r => last_opt r end.

Fixpoint index_from {A} (i : Z) (l : list A) : list (Z * A) :=
  match l with [] => [] | x :: r => (i, x) :: index_from (i + 1) r end.

(* capture_delta *)
Fixpoint capture (sh : shape) (n : node) : delta :=
  match sh, n with
  | TS, NLeaf _ v => match v with Some z => DVal z | None => DNone end
  | SIGNAL, NLeaf _ _ => DVal 1
  | TSW _ _, NWin _ vals => match last_opt vals with Some z => DVal z | None => DNone end
  | TSS, NSet _ _ _ ad rm => DSet ad rm
  | TSD e, NDict _ _ items =>
      DDict (map fst (filter (fun kv => f_removed (fst (snd kv))) items))
            (map (fun kv => (fst kv, capture e (snd (snd kv))))
                 (filter (fun kv => f_live (fst (snd kv)) && f_modified (fst (snd kv)) && nvalid (snd (snd kv))) items))
  | TSL _ e, NIdx _ _ kids =>
      DList (map (fun ic => (fst ic, capture e (snd ic)))
                 (filter (fun ic => nmod (snd ic) && nvalid (snd ic)) (index_from 0 kids)))
  | TSB fs, NIdx _ _ kids =>
      DBundle (zipw (fun f c => if nmod c && nvalid c then capture f c else field_default f) fs kids)
  | _, _ => DNone
  end.

Definition has_value (d : delta) : bool := match d with DNone => false | _ => true end.

(* delta_has_effect_* *)
Fixpoint has_effect (sh : shape) (out : node) (d : delta) : bool :=
  match sh, d with
  | TSS, DSet ad rm => negb (is_nil ad) || negb (is_nil rm) || negb (nvalid out)
  | TSD _, DDict rm md =>
      if negb (is_nil md) then true
      else if negb (is_nil rm) then existsb (fun k => dict_contains k out) rm
      else negb (nvalid out)
  | TSL _ _, DList items => negb (is_nil items)
  | TSB fs, DBundle ds =>
      match out with
      | NIdx _ _ kids => existsb (fun b => b) (zipw3 has_effect fs kids ds)
      | _ => false
      end
  | TS, DVal _ | SIGNAL, DVal _ | TSW _ _, DVal _ => true
  | _, _ => false
  end.

(* children of an indexed node replaced wholesale: the parent is marked when some child
   became modified for the first time this cycle *)
Definition newly (c c' : node) : bool := negb (nmod c) && nmod c'.
Definition idx_set_kids (n : node) (kids' : list node) : node :=
  match n with
  | NIdx m v kids => if existsb (fun b => b) (zipw newly kids kids') then NIdx true true kids' else NIdx m v kids'
  | _ => n
  end.

(* apply_delta: the has_effect gate, then apply_delta_* *)
Fixpoint apply (sh : shape) (out : node) (d : delta) : node :=
  if has_effect sh out d then
    match sh, d with
    | TS, DVal z => leaf_set z out
    | SIGNAL, DVal _ => leaf_set 1 out
    | TSW p _, DVal z => win_push p z out
    | TSS, DSet ad rm =>
        set_touch (fold_left (fun s k => set_add k s) ad (fold_left (fun s k => set_remove k s) rm out))
    | TSD e, DDict rm md =>
        dict_touch (fold_left (fun s kd => dict_child e (fst kd) (fun c => apply e c (snd kd)) s) md
                              (fold_left (fun s k => dict_erase k s) rm out))
    | TSL _ e, DList items =>
        fold_left (fun s kd => idx_child (Z.to_nat (fst kd)) (fun c => apply e c (snd kd)) s) items out
    | TSB fs, DBundle ds =>
        match out with
        | NIdx _ _ kids => idx_set_kids out (zipw3 apply fs kids ds)
        | _ => out
        end
    | _, _ => out
    end
  else out.

(* delta_is_observable (the observable_ family) on the live input and its captured delta *)
Fixpoint observable (sh : shape) (n : node) (d : delta) : bool :=
  match sh, d with
  | TS, _ | SIGNAL, _ => nmod n && nvalid n && has_value d
  | TSW _ _, _ => nmod n && has_value d
  | TSS, DSet ad rm => nmod n && (nvalid n || negb (is_nil rm))
  | TSD _, DDict rm md => nmod n && (nvalid n || negb (is_nil rm) || negb (is_nil md))
  | TSL _ _, DList items => nmod n && negb (is_nil items)
  | TSB fs, DBundle ds =>
      match n with
      | NIdx m _ kids => m && existsb (fun b => b) (zipw3 (fun f c cd => nmod c && observable f c cd) fs kids ds)
      | _ => false
      end
  | _, _ => false
  end.

(* ------------------------------------------------------------------ values and equality *)
(* Value::equals on value().  A bundle value carries a validity mask per field, so there (and at
   the root, where the driver compares valid() itself) validity is compared first ([strict]);
   the elements of a fixed list and the values of a map have no validity of their own: a
   never-set scalar reads as 0, an unset collection as empty *)
Fixpoint veqm (strict : bool) (sh : shape) (a b : node) : bool :=
  (negb strict || Bool.eqb (nvalid a) (nvalid b)) &&
  ((strict && negb (nvalid a)) ||
   match sh, a, b with
   | (TS | SIGNAL), NLeaf _ x, NLeaf _ y =>
       match x, y with
       | Some p, Some q => p =? q
       | None, None => true
       | Some p, None | None, Some p => negb strict && (p =? 0)
       end
   | TSW _ _, NWin _ x, NWin _ y => if list_eq_dec Z.eq_dec x y then true else false
   | TSS, NSet _ _ x _ _, NSet _ _ y _ _ => if list_eq_dec Z.eq_dec x y then true else false
   | TSD e, NDict _ _ x, NDict _ _ y =>
       let lx := filter slot_live x in
       let ly := filter slot_live y in
       (if list_eq_dec Z.eq_dec (map fst lx) (map fst ly) then true else false) &&
       forallb (fun b => b) (zipw (fun p q => veqm false e (snd (snd p)) (snd (snd q))) lx ly)
   | TSL _ e, NIdx _ _ x, NIdx _ _ y => forallb (fun b => b) (zipw (veqm false e) x y)
   | TSB fs, NIdx _ _ x, NIdx _ _ y => forallb (fun b => b) (zipw3 (veqm true) fs x y)
   | _, _, _ => false
   end).
Definition veq := veqm true.

Fixpoint zlist_eqb (a b : list Z) : bool :=
  match a, b with [] , [] => true | x :: r, y :: s => (x =? y) && zlist_eqb r s | _, _ => false end.

Fixpoint delta_eqb (sh : shape) (a b : delta) : bool :=
  match a, b with
  | DNone, DNone => true
  | DVal x, DVal y => x =? y
  | DSet a1 r1, DSet a2 r2 => zlist_eqb a1 a2 && zlist_eqb r1 r2
  | DDict r1 m1, DDict r2 m2 =>
      match sh with
      | TSD e => zlist_eqb r1 r2 && zlist_eqb (map fst m1) (map fst m2) &&
                 forallb (fun b => b) (zipw (fun p q => delta_eqb e (snd p) (snd q)) m1 m2)
      | _ => false
      end
  | DList m1, DList m2 =>
      match sh with
      | TSL _ e => zlist_eqb (map fst m1) (map fst m2) &&
                   forallb (fun b => b) (zipw (fun p q => delta_eqb e (snd p) (snd q)) m1 m2)
      | _ => false
      end
  | DBundle d1, DBundle d2 =>
      match sh with
      | TSB fs => (length d1 =? length d2)%nat && forallb (fun b => b) (zipw3 delta_eqb fs d1 d2)
      | _ => false
      end
  | _, _ => false
  end.

(* ------------------------------------------------------------------ wire encodings *)
Definition zlen {A} (l : list A) : Z := Z.of_nat (length l).

(* [valid modified content...] *)
Fixpoint enc_state (sh : shape) (n : node) : list Z :=
  b2z (nvalid n) :: b2z (nmod n) ::
  match sh, n with
  | TS, NLeaf _ v => [match v with Some z => z | None => 0 end]
  | SIGNAL, _ => []
  | TSW _ _, NWin _ vals => zlen vals :: vals
  | TSS, NSet _ _ el _ _ => zlen el :: el
  | TSD e, NDict _ _ items =>
      let live := filter slot_live items in
      zlen live :: flat_map (fun kv => fst kv :: enc_state e (snd (snd kv))) live
  | TSL _ e, NIdx _ _ kids => flat_map (enc_state e) kids
  | TSB fs, NIdx _ _ kids => concat (zipw enc_state fs kids)
  | _, _ => []
  end.

Fixpoint enc_delta (sh : shape) (d : delta) : list Z :=
  match d with
  | DNone => [0]
  | DVal z => [1; z]
  | DSet ad rm => 1 :: zlen ad :: ad ++ zlen rm :: rm
  | DDict rm md =>
      match sh with
      | TSD e => 1 :: zlen rm :: rm ++ zlen md :: flat_map (fun kd => fst kd :: enc_delta e (snd kd)) md
      | _ => [1]
      end
  | DList items =>
      match sh with
      | TSL _ e => 1 :: zlen items :: flat_map (fun kd => fst kd :: enc_delta e (snd kd)) items
      | _ => [1]
      end
  | DBundle ds =>
      match sh with
      | TSB fs => 1 :: concat (zipw enc_delta fs ds)
      | _ => [1]
      end
  end.

(* ------------------------------------------------------------------ record / replay *)
(* dense_record_impl::eval: a tick at time [t] goes to index t - MIN_ST, skipped cycles are
   padded with holes *)
Definition buffer := list (option delta).
Definition record_tick (t : Z) (d : delta) (buf : buffer) : buffer :=
  let offset := Z.to_nat (t - MIN_ST) in
  buf ++ repeat None (offset - length buf) ++ [Some d].

(* one evaluation of the recorder on the live input *)
Definition recorder (sh : shape) (t : Z) (live : node) (buf : buffer) : buffer :=
  if nmod live then
    let d := capture sh live in
    if observable sh live d then record_tick t d buf else buf
  else buf.

(* replay_impl::eval (dense branch) at cursor [i]: apply the entry if it is a tick; the node
   re-arms itself for the next cycle while i + 1 < size *)
Definition replay_step (sh : shape) (buf : buffer) (i : nat) (out : node) : node :=
  match nth_error buf i with
  | Some (Some d) => apply sh (commit sh out) d
  | _ => commit sh out
  end.

(* the SPARSE, absolute-time recording (sparse_record_impl: one (time, delta) entry per modified
   cycle, no observability filter) and its replay (replay_impl::eval, branch with an explicit
   recordable_id): at [now] entries older than [now] are skipped, entries at [now] applied, and
   the node re-arms itself for the time of the next entry *)
Definition sbuffer := list (Z * delta).
Definition srecorder (sh : shape) (t : Z) (live : node) (buf : sbuffer) : sbuffer :=
  if nmod live then buf ++ [(t, capture sh live)] else buf.

Fixpoint sparse_scan (sh : shape) (now : Z) (ents : sbuffer) (out : node) : sbuffer * node :=
  match ents with
  | [] => ([], out)
  | (w, d) :: r =>
      if w <? now then sparse_scan sh now r out
      else if now <? w then (ents, out)
      else sparse_scan sh now r (apply sh out d)
  end.

(* ------------------------------------------------------------------ the driver's cases *)
Fixpoint parse_shape (fuel : nat) (l : list Z) : option (shape * list Z) :=
  match fuel with
  | O => None
  | S fuel' =>
      match l with
      | 1 :: r => Some (TS, r)
      | 2 :: r => Some (SIGNAL, r)
      | 3 :: r => Some (TSS, r)
      | 4 :: r => match parse_shape fuel' r with Some (e, r') => Some (TSD e, r') | None => None end
      | 5 :: n :: r =>
          if (1 <=? n) && (n <=? 4) then
            match parse_shape fuel' r with Some (e, r') => Some (TSL (Z.to_nat n) e, r') | None => None end
          else None
      | 6 :: k :: r =>
          if (1 <=? k) && (k <=? 4) then
            (fix fields (cnt : nat) (r : list Z) (acc : list shape) : option (shape * list Z) :=
               match cnt with
               | O => Some (TSB (rev acc), r)
               | S cnt' => match parse_shape fuel' r with Some (f, r') => fields cnt' r' (f :: acc) | None => None end
               end) (Z.to_nat k) r []
          else None
      | 7 :: p :: mn :: r =>
          if (1 <=? p) && (p <=? 6) && (0 <=? mn) && (mn <=? p) then Some (TSW (Z.to_nat p) (Z.to_nat mn), r) else None
      | _ => None
      end
  end.

Record tcase := mkCase { c_mode : Z; c_start : Z; c_end : Z; c_rstart : Z; c_rend : Z; c_split : Z;
                         c_shape : option shape; c_ops : list (Z * sop); c_bad : bool }.

Definition parse_op (l : list Z) : option (Z * sop) :=
  match l with
  | t :: np :: r =>
      if (0 <=? np) && (Z.of_nat (length r) =? np + 2) then
        let n := Z.to_nat np in
        match skipn n r with
        | [code; arg] => Some (t, mkOp (firstn n r) code arg)
        | _ => None
        end
      else None
  | _ => None
  end.

Definition parse_line (c : tcase) (l : list Z) : tcase :=
  match l with
  | 1 :: mode :: s :: e :: rest =>
      match rest with
      | rs :: re :: sp :: _ => mkCase mode s e rs re sp (c_shape c) (c_ops c) (c_bad c)
      | rs :: re :: _ => mkCase mode s e rs re 0 (c_shape c) (c_ops c) (c_bad c)
      | _ => mkCase mode s e 1 e 0 (c_shape c) (c_ops c) (c_bad c)
      end
  | 2 :: r =>
      match parse_shape 8 r with
      | Some (sh, []) => mkCase (c_mode c) (c_start c) (c_end c) (c_rstart c) (c_rend c) (c_split c) (Some sh) (c_ops c) (c_bad c)
      | _ => mkCase (c_mode c) (c_start c) (c_end c) (c_rstart c) (c_rend c) (c_split c) (c_shape c) (c_ops c) true
      end
  | 3 :: r =>
      match parse_op r with
      | Some o => mkCase (c_mode c) (c_start c) (c_end c) (c_rstart c) (c_rend c) (c_split c) (c_shape c) (c_ops c ++ [o]) (c_bad c)
      | None => mkCase (c_mode c) (c_start c) (c_end c) (c_rstart c) (c_rend c) (c_split c) (c_shape c) (c_ops c) true
      end
  | _ => mkCase (c_mode c) (c_start c) (c_end c) (c_rstart c) (c_rend c) (c_split c) (c_shape c) (c_ops c) true
  end.

Definition case0 : tcase := mkCase 0 1 10 1 10 0 None [] false.

(* two pushes into one window in one cycle are rejected by the driver (the runtime accepts
   only one tick per evaluation time) *)
Fixpoint dup_push (seen : list (Z * list Z)) (ops : list (Z * sop)) : bool :=
  match ops with
  | [] => false
  | (t, o) :: r =>
      if o_code o =? 9 then
        if existsb (fun s => (fst s =? t) && zlist_eqb (snd s) (o_path o)) seen then true
        else dup_push ((t, o_path o) :: seen) r
      else dup_push seen r
  end.

Definition case_ok (c : tcase) (sh : shape) : bool :=
  negb (c_bad c) && (1 <=? c_start c) && (c_start c <? c_end c) && (c_end c <=? c_start c + 1000) &&
  ((c_mode c =? 0) || (((c_mode c =? 1) || (c_mode c =? 2) || ((c_mode c =? 3) && (c_start c <? c_split c) && (c_split c <? c_end c))) && (1 <=? c_rstart c) && (c_rstart c <? c_rend c) && (c_rend c <=? c_rstart c + 1000))) &&
  forallb (fun to => (c_start c <=? fst to) && (fst to <? c_end c) && op_ok (o_path (snd to)) sh (o_code (snd to))) (c_ops c) &&
  negb (dup_push [] (c_ops c)).

Definition times (ops : list (Z * sop)) : list Z := fold_right ins [] (map fst ops).
Definition ops_at (t : Z) (ops : list (Z * sop)) : list sop := map snd (filter (fun to => fst to =? t) ops).

(* mode 0: after every tick of the source: state, captured delta, state of the copy after
   apply_delta, delta captured again from the copy, the two comparisons *)
Definition probe_lines (tag : Z) (sh : shape) (t : Z) (live : node) : wire :=
  [ (22 + tag) :: t :: enc_state sh live;
    (21 + tag) :: t :: b2z (observable sh live (capture sh live)) :: enc_delta sh (capture sh live) ].

Fixpoint run_probe (sh : shape) (ts : list Z) (ops : list (Z * sop)) (src copy : node) : wire :=
  match ts with
  | [] => []
  | t :: ts' =>
      let live := run_ops sh (ops_at t ops) (commit sh src) in
      if nmod live then
        let d := capture sh live in
        let copy' := apply sh (commit sh copy) d in
        let d2 := capture sh copy' in
        probe_lines 0 sh t live ++
        [23 :: t :: enc_state sh copy'] ++
        (if nmod copy' then [25 :: t :: b2z (observable sh copy' d2) :: enc_delta sh d2] else []) ++
        [[24; t; b2z (veq sh live copy'); b2z (nmod copy'); if nmod copy' then b2z (delta_eqb sh d d2) else -1]] ++
        run_probe sh ts' ops live copy'
      else run_probe sh ts' ops live copy
  end.

(* the successive post-mutation states of the scripted source, cycle by cycle *)
Fixpoint lives (sh : shape) (ts : list Z) (ops : list (Z * sop)) (src : node) : list (Z * node) :=
  match ts with
  | [] => []
  | t :: ts' => let live := run_ops sh (ops_at t ops) (commit sh src) in (t, live) :: lives sh ts' ops live
  end.

(* modes 1-3, a recording run: the source feeds the round-trip probe and a real record node *)
Definition dense_of (sh : shape) (ls : list (Z * node)) (buf : buffer) : buffer :=
  fold_left (fun b tl => recorder sh (fst tl) (snd tl) b) ls buf.

(* mode 1, second run: the real replay node feeds a probe and a second record node *)
Fixpoint run_replay (sh : shape) (buf : buffer) (fuel i : nat) (t tend : Z) (out : node) (buf2 : buffer) : wire * buffer :=
  match fuel with
  | O => ([], buf2)
  | S fuel' =>
      if (tend <=? t) || (length buf <=? i)%nat then ([], buf2)
      else
        let out' := replay_step sh buf i out in
        let buf2' := recorder sh t out' buf2 in
        let (w, b) := run_replay sh buf fuel' (S i) (t + MIN_TD) tend out' buf2' in
        ((if nmod out' then probe_lines 100 sh t out' else []) ++ w, b)
  end.

(* mode 2: the same two runs through the sparse recording *)
Definition sparse_of (sh : shape) (ls : list (Z * node)) (buf : sbuffer) : sbuffer :=
  fold_left (fun b tl => srecorder sh (fst tl) (snd tl) b) ls buf.

(* recorded_seed_resolver: the RECOVER seed as of [T] is the fold of the recorded deltas up to
   [T], each applied at its own evaluation time *)
Definition recover (sh : shape) (ents : sbuffer) (T : Z) : node :=
  fold_left (fun out td => if fst td <=? T then apply sh (commit sh out) (snd td) else out) ents (fresh sh).

(* the source's state as of [T]: its last tick at or before [T] *)
Definition state_as_of (sh : shape) (ls : list (Z * node)) (T : Z) : node :=
  fold_left (fun acc tl => if (fst tl <=? T) && nmod (snd tl) then snd tl else acc) ls (fresh sh).

Fixpoint recover_lines (sh : shape) (ents : sbuffer) (ls : list (Z * node)) (fuel : nat) (T tend : Z) : wire :=
  match fuel with
  | O => []
  | S f =>
      if tend <? T then []
      else
        let r := recover sh ents T in
        let a := state_as_of sh ls T in
        [33; T; b2z (nvalid r); b2z (nvalid a); b2z (veq sh r a)] :: recover_lines sh ents ls f (T + 1) tend
  end.

Fixpoint run_sreplay (sh : shape) (fuel : nat) (now tend : Z) (ents : sbuffer) (out : node) (buf2 : sbuffer) : wire * sbuffer :=
  match fuel with
  | O => ([], buf2)
  | S fuel' =>
      if tend <=? now then ([], buf2)
      else
        let (ents', out') := sparse_scan sh now ents (commit sh out) in
        let buf2' := srecorder sh now out' buf2 in
        let lines := if nmod out' then probe_lines 100 sh now out' else [] in
        match ents' with
        | (w, _) :: _ =>
            if now <? w then
              let (wr, b) := run_sreplay sh fuel' w tend ents' out' buf2' in (lines ++ wr, b)
            else (lines, buf2')
        | [] => (lines, buf2')
        end
  end.

Definition sbuffer_lines (code : Z) (sh : shape) (buf : sbuffer) : wire :=
  map (fun ie => code :: fst ie :: fst (snd ie) :: enc_delta sh (snd (snd ie))) (index_from 0 buf).

Definition buffer_lines (code : Z) (sh : shape) (buf : buffer) : wire :=
  map (fun ie => code :: fst ie :: match snd ie with Some d => enc_delta sh d | None => [0] end) (index_from 0 buf).

Definition run_delta (w : wire) : wire :=
  let c := fold_left parse_line w case0 in
  match c_shape c with
  | None => [[18; 1]]
  | Some sh =>
      if case_ok c sh then
        if c_mode c =? 0 then
          run_probe sh (times (c_ops c)) (c_ops c) (fresh sh) (fresh sh) ++ [[28; 0]]
        else if c_mode c =? 1 then
          let ts := times (c_ops c) in
          let buf := dense_of sh (lives sh ts (c_ops c) (fresh sh)) [] in
          let (w2, buf2) := run_replay sh buf (length buf) 0 (c_rstart c) (c_rend c) (fresh sh) [] in
          run_probe sh ts (c_ops c) (fresh sh) (fresh sh) ++ buffer_lines 30 sh buf ++ w2 ++ buffer_lines 130 sh buf2 ++ [[28; 0]]
        else if c_mode c =? 2 then
          let ts := times (c_ops c) in
          let ls := lives sh ts (c_ops c) (fresh sh) in
          let buf := sparse_of sh ls [] in
          let (w2, buf2) := run_sreplay sh (S (length buf)) (c_rstart c) (c_rend c) buf (fresh sh) [] in
          run_probe sh ts (c_ops c) (fresh sh) (fresh sh) ++ sbuffer_lines 31 sh buf ++
          recover_lines sh buf ls 25 (c_start c) (c_end c) ++
          w2 ++ sbuffer_lines 131 sh buf2 ++ [[28; 0]]
        else
          (* mode 3: the sparse recording continued over two runs that share the GlobalState entry *)
          let ops1 := filter (fun to => fst to <? c_split c) (c_ops c) in
          let ops2 := filter (fun to => c_split c <=? fst to) (c_ops c) in
          let buf1 := sparse_of sh (lives sh (times ops1) ops1 (fresh sh)) [] in
          let buf := sparse_of sh (lives sh (times ops2) ops2 (fresh sh)) buf1 in
          let (w2, buf2) := run_sreplay sh (S (length buf)) (c_rstart c) (c_rend c) buf (fresh sh) [] in
          run_probe sh (times ops1) ops1 (fresh sh) (fresh sh) ++ sbuffer_lines 31 sh buf1 ++
          run_probe sh (times ops2) ops2 (fresh sh) (fresh sh) ++ sbuffer_lines 35 sh buf ++
          w2 ++ sbuffer_lines 131 sh buf2 ++ [[28; 0]]
      else [[18; 1]]
  end.
