(* EngineWitness.v — concrete witnesses (by computation) for statements that are false
   of the faithful model; each is replayed on the implementation by the checks. *)
Require Import Base Sched Engine.

Module Engine_witness.
Definition abandoned_case : wire :=
  [[1; 1; 20]; [2; 0; 1; 1; 1; 0; 0];
   [3; 0; -2; 6; 5; 0]; [3; 0; 0; 1; 3; 1]; [3; 0; 0; 1; 6; 1]].

Lemma abandoned_wakeup : exists case : wire, In [12; 0; 4; 1; 0; 7] (run_core case).
Proof. exists abandoned_case. vm_compute. tauto. Qed.
End Engine_witness.
