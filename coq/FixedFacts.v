(* FixedFacts.v — the delta of a fixed-shape bundle / list is coherent with its value. *)
Require Import Base Coll Fixed CollFacts.
From Coq Require Import ZifyBool Arith.
Local Open Scope Z_scope.

Fixpoint fincreasing (t0 : Z) (h : list (Z * list fop)) : Prop :=
  match h with
  | [] => True
  | (t, _) :: r => t0 < t /\ fincreasing t r
  end.
Fixpoint f_trace (s : fixed) (h : list (Z * list fop)) : list (fixed * Z * list fop * fixed) :=
  match h with
  | [] => []
  | (t, ops) :: r => let s' := f_cycle t ops s in (s, t, ops, s') :: f_trace s' r
  end.

(* in-cycle invariant relative to the state [a] at the start of the cycle *)
Definition FInv (a : fixed) (t : Z) (s : fixed) : Prop :=
  length (f_ch s) = length (f_ch a) /\ f_lmt s <= t /\ f_lmt a < t /\ f_lmt a <= f_lmt s /\
  forall i, (f_child s i = f_child a i /\ c_lmt (f_child a i) < t) \/ (c_lmt (f_child s i) = t /\ f_lmt s = t).

Lemma f_child_set i j c s : (j < length (f_ch s))%nat ->
  nth i (set_nth j c (f_ch s)) child0 = if (i =? j)%nat then c else f_child s i.
Proof.
  intros L. rewrite nth_set_nth. destruct (Nat.eqb_spec i j) as [E|E]; [|reflexivity].
  destruct (Nat.ltb_spec j (length (f_ch s))); [reflexivity|lia].
Qed.

Lemma f_write_inv a t i v s : FInv a t s -> FInv a t (f_write t i v s).
Proof.
  intros [L [M [A [MM C]]]]. unfold f_write.
  destruct (Nat.ltb_spec i (length (f_ch s))) as [Li|Li]; [|repeat split; auto].
  destruct (Z.ltb_spec (c_lmt (f_child s i)) t) as [LT|GE].
  - assert (R : rec_mod t (f_lmt s) = t) by (unfold rec_mod; destruct (Z.leb_spec t (f_lmt s)); lia).
    split; [cbn [f_ch]; rewrite set_nth_length; exact L|].
    split; [cbn [f_lmt]; lia|]. split; [exact A|]. split; [cbn [f_lmt]; lia|].
    intros j. cbn [f_lmt]. rewrite R.
    replace (f_child (mkF (set_nth i (mkC v t) (f_ch s)) t) j) with (if (j =? i)%nat then mkC v t else f_child s j)
      by (symmetry; apply f_child_set; exact Li).
    destruct (Nat.eqb_spec j i) as [E|E].
    + right. cbn [c_lmt]. split; reflexivity.
    + destruct (C j) as [[C1 C2]|[C1 C2]]; [left; auto|right; split; auto].
  - split; [cbn [f_ch]; rewrite set_nth_length; exact L|]. split; [exact M|]. split; [exact A|]. split; [exact MM|].
    intros j. cbn [f_lmt].
    replace (f_child (mkF (set_nth i (mkC v (c_lmt (f_child s i))) (f_ch s)) (f_lmt s)) j)
      with (if (j =? i)%nat then mkC v (c_lmt (f_child s i)) else f_child s j)
      by (symmetry; apply f_child_set; exact Li).
    destruct (Nat.eqb_spec j i) as [E|E]; [|apply C].
    subst j. right. cbn [c_lmt]. destruct (C i) as [[C1 C2]|[C1 C2]]; [|split; [lia|exact C2]].
    rewrite C1 in GE. lia.
Qed.

Lemma f_cycle_inv a t ops : forall s, FInv a t s -> FInv a t (f_cycle t ops s).
Proof.
  induction ops as [|o r IH]; intros s I; cbn [f_cycle fold_left]; auto.
  apply IH. destruct o; cbn [f_op snd]; [apply f_write_inv|]; exact I.
Qed.

(* between cycles: children never run ahead of the parent, the parent never ahead of the clock *)
Definition FOk (t0 : Z) (s : fixed) : Prop := f_lmt s <= t0 /\ forall i, c_lmt (f_child s i) <= f_lmt s.

Lemma finv_start t0 t s : FOk t0 s -> t0 < t -> FInv s t s.
Proof.
  intros [M C] H. split; [reflexivity|]. split; [lia|]. split; [lia|]. split; [lia|].
  intros i. left. split; auto. specialize (C i). lia.
Qed.

Lemma finv_ok t0 a t s : FOk t0 a -> FInv a t s -> FOk t s.
Proof.
  intros [MA CA] [L [M [A [MM C]]]]. split; [exact M|].
  intros i. destruct (C i) as [[C1 C2]|[C1 C2]]; [|lia].
  rewrite C1. specialize (CA i). lia.
Qed.

Lemma fok_empty n : FOk MIN_DT (fixed_empty n).
Proof.
  split; [cbn; lia|]. intros i. unfold f_child, fixed_empty. cbn [f_ch f_lmt].
  destruct (nth_in_or_default i (repeat child0 n) child0) as [H|H]; [apply repeat_spec in H|]; rewrite H; cbn; lia.
Qed.

Lemma ftrace_inv h : forall s t0,
  FOk t0 s -> MIN_DT <= t0 -> fincreasing t0 h ->
  forall a t ops b, In (a, t, ops, b) (f_trace s h) -> MIN_DT < t /\ FInv a t b.
Proof.
  induction h as [|[t1 ops1] r IH]; intros s t0 O P I a t ops b H; simpl in H; [contradiction|].
  destruct I as [I1 I2].
  pose proof (f_cycle_inv s t1 ops1 s (finv_start t0 t1 s O I1)) as C1.
  destruct H as [H|H].
  - inversion H; subst a t ops b. split; [lia|exact C1].
  - apply (IH (f_cycle t1 ops1 s) t1 (finv_ok t0 s t1 _ O C1) ltac:(lia) I2 a t ops b H).
Qed.

(* value' = value with the delta applied: a child in the delta takes the delta's value, every other child is untouched *)
Lemma fixed_step_l n h : fincreasing MIN_DT h ->
  forall a t ops b, In (a, t, ops, b) (f_trace (fixed_empty n) h) ->
  forall i, f_value b i = match f_delta t b i with Some v => Some v | None => f_value a i end.
Proof.
  intros I a t ops b H i.
  destruct (ftrace_inv h (fixed_empty n) MIN_DT (fok_empty n) ltac:(lia) I a t ops b H) as [P [L [M [A [MM C]]]]].
  unfold f_delta, f_value, f_modified.
  destruct (Z.eqb_spec t MIN_DT) as [E|E]; [lia|]. cbn [negb andb].
  destruct (C i) as [[C1 C2]|[C1 C2]].
  - rewrite C1.
    replace ((f_lmt b =? t) && (i <? length (f_ch b))%nat && (c_lmt (f_child a i) =? f_lmt b)) with false; [reflexivity|].
    symmetry. destruct (Z.eqb_spec (f_lmt b) t) as [Q|Q]; [|reflexivity].
    destruct (Z.eqb_spec (c_lmt (f_child a i)) (f_lmt b)); [lia|]. apply andb_false_r.
  - assert (Li : (i < length (f_ch b))%nat).
    { destruct (Nat.lt_ge_cases i (length (f_ch b))); auto. unfold f_child in C1. rewrite nth_overflow in C1 by lia. cbn in C1. lia. }
    rewrite C2, Z.eqb_refl, C1, Z.eqb_refl. destruct (Nat.ltb_spec i (length (f_ch b))); [|lia]. cbn [andb].
    unfold c_valid. rewrite C1. destruct (Z.eqb_spec t MIN_DT); [contradiction|reflexivity].
Qed.

(* a child is in the delta only if the parent ticked, and it then has a value *)
Lemma fixed_delta_valid_l n h : fincreasing MIN_DT h ->
  forall a t ops b, In (a, t, ops, b) (f_trace (fixed_empty n) h) ->
  forall i v, f_delta t b i = Some v -> f_modified t b = true /\ f_value b i = Some v.
Proof.
  intros I a t ops b H i v D. rewrite (fixed_step_l n h I a t ops b H i), D. split; [|reflexivity].
  unfold f_delta in D. destruct (f_modified t b); [reflexivity|discriminate].
Qed.
