(* DWindowFacts.v — the ring of the duration window always holds, in push order, exactly the pushes that have not
   expired, whatever the history of head advances, wrap-arounds and growths. *)
Require Import Base Window DWindow WindowFacts.
From Coq Require Import ZifyBool Arith Sorted.
Local Open Scope nat_scope.

(* ------------------------------------------------------------------ logical view of one physical buffer *)
Definition ph (head cap i : nat) : nat := match cap with O => O | _ => (head + i) mod cap end.
Definition lview (l : list Z) (head size cap : nat) : list Z := map (fun i => nth (ph head cap i) l 0%Z) (seq 0 size).

Lemma dw_values_lview w : dw_values w = lview (dw_buf w) (dw_head w) (dw_size w) (dw_cap w).
Proof. reflexivity. Qed.
Lemma dw_times_lview w : dw_times w = lview (dw_tm w) (dw_head w) (dw_size w) (length (dw_buf w)).
Proof. reflexivity. Qed.

Lemma lview_length l h s c : length (lview l h s c) = s.
Proof. unfold lview. rewrite map_length, seq_length. reflexivity. Qed.

Lemma lview_nth l h s c i : i < s -> nth i (lview l h s c) 0%Z = nth (ph h c i) l 0%Z.
Proof. intros H. unfold lview. rewrite nth_map_seq by exact H. reflexivity. Qed.

Lemma lview_ext l l' h s c h' c' :
  (forall i, i < s -> nth (ph h c i) l 0%Z = nth (ph h' c' i) l' 0%Z) -> lview l h s c = lview l' h' s c'.
Proof. intros H. unfold lview. apply map_seq_ext. exact H. Qed.

(* advancing the head over the oldest element *)
Lemma lview_advance l h s c : 0 < s -> s <= c -> h < c ->
  lview l ((h + 1) mod c) (s - 1) c = tl (lview l h s c).
Proof.
  intros HS HC H. apply nth_ext with (d := 0%Z) (d' := 0%Z).
  - rewrite lview_length. assert (length (lview l h s c) = s) by apply lview_length.
    destruct (lview l h s c); simpl in *; lia.
  - rewrite lview_length. intros i Hi.
    rewrite lview_nth by exact Hi.
    replace (nth i (tl (lview l h s c)) 0%Z) with (nth (S i) (lview l h s c) 0%Z).
    + rewrite lview_nth by lia. f_equal. unfold ph. destruct c; [lia|].
      rewrite Nat.add_mod_idemp_l by lia. f_equal. lia.
    + destruct (lview l h s c); [destruct i|]; reflexivity.
Qed.

Lemma lview_head l h s c : 0 < s -> h < c -> hd 0%Z (lview l h s c) = nth h l 0%Z.
Proof.
  intros HS H. assert (E : nth 0 (lview l h s c) 0%Z = nth (ph h c 0) l 0%Z) by (apply lview_nth; exact HS).
  unfold ph in E. destruct c; [lia|]. rewrite Nat.add_0_r, Nat.mod_small in E by lia.
  rewrite <- E. destruct (lview l h s (S c)); reflexivity.
Qed.

(* relocation in logical order into a larger buffer *)
Lemma lview_relocate (x : list Z) k : lview (x ++ repeat 0%Z k) 0 (length x) (length x + k) = x.
Proof.
  apply nth_ext with (d := 0%Z) (d' := 0%Z); [apply lview_length|].
  rewrite lview_length. intros i Hi. rewrite lview_nth by exact Hi.
  unfold ph. destruct (length x + k) eqn:E; [lia|]. rewrite <- E. simpl (0 + i).
  rewrite Nat.mod_small by lia. apply app_nth1. exact Hi.
Qed.

(* appending at (head + size) mod cap *)
Lemma lview_append l h s c v : length l = c -> s < c -> h < c ->
  lview (set_nth (ph h c s) v l) h (S s) c = lview l h s c ++ [v].
Proof.
  intros L HS H. apply nth_ext with (d := 0%Z) (d' := 0%Z).
  - rewrite app_length, !lview_length. simpl. lia.
  - rewrite lview_length. intros i Hi. rewrite lview_nth by exact Hi.
    assert (PB : forall j, j <= s -> ph h c j < c).
    { intros j _. unfold ph. destruct c; [lia|]. apply Nat.mod_upper_bound. lia. }
    rewrite nth_set_nth' by (rewrite L; apply PB; lia).
    destruct (Nat.eq_dec i s) as [E|E].
    + subst i. rewrite Nat.eqb_refl. rewrite app_nth2 by (rewrite lview_length; lia).
      rewrite lview_length, Nat.sub_diag. reflexivity.
    + assert (NE : ph h c i <> ph h c s).
      { unfold ph. destruct c; [lia|]. rewrite !mod_lt2 by lia.
        destruct (Nat.ltb_spec (h + i) (S c)), (Nat.ltb_spec (h + s) (S c)); lia. }
      destruct (Nat.eqb_spec (ph h c i) (ph h c s)); [contradiction|].
      rewrite app_nth1 by (rewrite lview_length; lia). symmetry. apply lview_nth. lia.
Qed.

(* ------------------------------------------------------------------ the ring invariant *)
Record DWInv (w : dwin) : Prop := mkDWInv {
  dwi_tm : length (dw_tm w) = dw_cap w;
  dwi_size : dw_size w <= dw_cap w;
  dwi_head : dw_cap w = 0 /\ dw_head w = 0 \/ dw_head w < dw_cap w
}.

Lemma dwinv_empty r m : DWInv (dwin_empty r m).
Proof. constructor; simpl; auto. Qed.

Lemma dw_lengths w : length (dw_values w) = dw_size w /\ length (dw_times w) = dw_size w.
Proof. split; apply lview_length. Qed.

(* one step of prune_before *)
Definition dw_adv (w : dwin) : dwin :=
  mkDW (dw_range w) (dw_minr w) (dw_buf w) (dw_tm w)
       (match dw_cap w with O => O | _ => ((dw_head w + 1) mod dw_cap w)%nat end) (dw_size w - 1)
       (dw_ev w) (dw_evt w) (dw_lmt w).

Lemma dw_adv_spec w : DWInv w -> 0 < dw_size w ->
  DWInv (dw_adv w) /\ dw_values (dw_adv w) = tl (dw_values w) /\ dw_times (dw_adv w) = tl (dw_times w) /\
  hd 0%Z (dw_times w) = nth (dw_head w) (dw_tm w) 0%Z.
Proof.
  intros [T HS H] P. assert (C : 0 < dw_cap w) by lia.
  destruct H as [[H _]|H]; [lia|].
  unfold dw_adv. destruct (dw_cap w) eqn:E; [lia|]. rewrite <- E in *.
  split; [|split; [|split]].
  - constructor; cbn [dw_tm dw_buf dw_size dw_head]; unfold dw_cap in *; cbn [dw_buf]; auto; [lia|].
    right. apply Nat.mod_upper_bound. lia.
  - rewrite !dw_values_lview. cbn [dw_buf dw_head dw_size]. unfold dw_cap at 1. cbn [dw_buf]. fold (dw_cap w).
    apply lview_advance; auto.
  - rewrite !dw_times_lview. cbn [dw_buf dw_tm dw_head dw_size]. fold (dw_cap w). apply lview_advance; auto.
  - rewrite dw_times_lview. fold (dw_cap w). apply lview_head; auto.
Qed.

Lemma count_expired_le c l : count_expired c l <= length l.
Proof. induction l as [|x r IH]; simpl; [lia|]. destruct (x <? c)%Z; simpl; lia. Qed.

Lemma dw_prune_spec n cutoff : forall w, DWInv w -> dw_size w <= n ->
  let k := count_expired cutoff (dw_times w) in
  DWInv (dw_prune n cutoff w) /\
  dw_values (dw_prune n cutoff w) = skipn k (dw_values w) /\ dw_times (dw_prune n cutoff w) = skipn k (dw_times w) /\
  dw_size (dw_prune n cutoff w) = dw_size w - k /\ dw_ev (dw_prune n cutoff w) = dw_ev w /\ dw_evt (dw_prune n cutoff w) = dw_evt w /\
  dw_lmt (dw_prune n cutoff w) = dw_lmt w /\ dw_range (dw_prune n cutoff w) = dw_range w /\ dw_minr (dw_prune n cutoff w) = dw_minr w.
Proof.
  induction n as [|n IH]; intros w I L; cbn zeta.
  - assert (Z0 : dw_size w = 0) by lia.
    assert (E : dw_times w = []) by (destruct (dw_lengths w) as [_ Q]; rewrite Z0 in Q; destruct (dw_times w); [reflexivity|discriminate]).
    rewrite E. simpl. split; [exact I|]. repeat split; auto; lia.
  - cbn [dw_prune]. fold (dw_adv w).
    destruct (Nat.ltb_spec 0 (dw_size w)) as [P|P]; cbn [andb].
    + destruct (dw_adv_spec w I P) as [I1 [V1 [T1 H1]]]. rewrite <- H1.
      destruct (dw_times w) as [|x r] eqn:ET; [destruct (dw_lengths w) as [_ Q]; rewrite ET in Q; simpl in Q; lia|].
      cbn [hd]. destruct (x <? cutoff)%Z eqn:X.
      * specialize (IH (dw_adv w) I1 ltac:(unfold dw_adv; cbn [dw_size]; lia)). cbn zeta in IH.
        rewrite T1 in IH. cbn [tl] in IH.
        destruct IH as [I2 [V2 [T2 [S2 [E1 [E2 [E3 [E4 E5]]]]]]]].
        cbn [count_expired]. rewrite X. split; [exact I2|].
        split; [rewrite V2, V1; destruct (dw_values w); [cbn [tl]; rewrite !skipn_nil; reflexivity|reflexivity]|].
        split; [rewrite T2; reflexivity|].
        split; [rewrite S2; unfold dw_adv; cbn [dw_size]; lia|]. auto.
      * cbn [count_expired]. rewrite X. simpl. split; [exact I|]. repeat split; auto; lia.
    + assert (Z0 : dw_size w = 0) by lia.
      assert (E : dw_times w = []) by (destruct (dw_lengths w) as [_ Q]; rewrite Z0 in Q; destruct (dw_times w); [reflexivity|discriminate]).
      rewrite E. simpl. split; [exact I|]. repeat split; auto; lia.
Qed.

Lemma dw_prune_before_spec cutoff w : DWInv w ->
  let k := count_expired cutoff (dw_times w) in
  let w' := dw_prune_before cutoff w in
  DWInv w' /\ dw_values w' = skipn k (dw_values w) /\ dw_times w' = skipn k (dw_times w) /\
  dw_ev w' = dw_ev w /\ dw_evt w' = dw_evt w /\ dw_lmt w' = dw_lmt w /\ dw_range w' = dw_range w /\ dw_minr w' = dw_minr w.
Proof.
  intros I. cbn zeta. unfold dw_prune_before.
  destruct (dw_prune_spec (dw_size w) cutoff w I (le_n _)) as [I1 [V1 [T1 [S1 [E1 [E2 [E3 [E4 E5]]]]]]]].
  set (w1 := dw_prune (dw_size w) cutoff w) in *.
  destruct (Nat.eqb_spec (dw_size w1) 0) as [Z0|NZ]; [|split; [exact I1|repeat split; auto]].
  assert (EV : dw_values w1 = []) by (destruct (dw_lengths w1) as [Q _]; rewrite Z0 in Q; destruct (dw_values w1); [reflexivity|discriminate]).
  assert (ET : dw_times w1 = []) by (destruct (dw_lengths w1) as [_ Q]; rewrite Z0 in Q; destruct (dw_times w1); [reflexivity|discriminate]).
  split.
  - destruct I1 as [T HS H]. constructor; cbn [dw_tm dw_buf dw_size dw_head]; unfold dw_cap in *; cbn [dw_buf]; auto; [lia|].
    destruct (length (dw_buf w1)); [left; auto|right; lia].
  - rewrite <- V1, <- T1, EV, ET. repeat split; auto.
Qed.

Lemma dw_ensure_spec req w : DWInv w ->
  let w' := dw_ensure_capacity req w in
  DWInv w' /\ req <= dw_cap w' /\ dw_values w' = dw_values w /\ dw_times w' = dw_times w /\ dw_size w' = dw_size w /\
  dw_ev w' = dw_ev w /\ dw_evt w' = dw_evt w /\ dw_lmt w' = dw_lmt w /\ dw_range w' = dw_range w /\ dw_minr w' = dw_minr w.
Proof.
  intros I. cbn zeta. unfold dw_ensure_capacity.
  destruct (Nat.leb_spec req (dw_cap w)) as [L|L]; [split; [exact I|repeat split; auto]|].
  set (c := if dw_cap w =? 0 then Nat.max req 4 else Nat.max req (dw_cap w * 2)).
  assert (CB : dw_cap w < c /\ req <= c) by (unfold c; destruct (Nat.eqb_spec (dw_cap w) 0); lia).
  unfold dw_reserve_exact. destruct (Nat.leb_spec c (dw_cap w)) as [LE|GT]; [lia|].
  destruct (dw_lengths w) as [LV LT]. destruct I as [T HS HH].
  assert (CAP : dw_cap (mkDW (dw_range w) (dw_minr w) (dw_values w ++ repeat 0%Z (c - dw_size w)) (dw_times w ++ repeat 0%Z (c - dw_size w))
                          0 (dw_size w) (dw_ev w) (dw_evt w) (dw_lmt w)) = c).
  { unfold dw_cap. cbn [dw_buf]. rewrite app_length, repeat_length, LV. lia. }
  split; [|split; [rewrite CAP; lia|split; [|split; [|repeat split; auto]]]].
  - constructor; rewrite ?CAP; cbn [dw_tm dw_size dw_head]; [rewrite app_length, repeat_length, LT; lia|lia|right; lia].
  - rewrite dw_values_lview. rewrite CAP. cbn [dw_buf dw_head dw_size].
    replace (dw_size w) with (length (dw_values w)) at 2 by exact LV.
    replace c with (length (dw_values w) + (c - dw_size w)) at 2 by lia. apply lview_relocate.
  - rewrite dw_times_lview. cbn [dw_buf dw_tm dw_head dw_size]. rewrite app_length, repeat_length, LV.
    replace (dw_size w) with (length (dw_times w)) at 3 by exact LT.
    rewrite <- LT at 2. replace (length (dw_times w) + (c - length (dw_times w))) with (length (dw_times w) + (c - dw_size w)) by lia.
    apply lview_relocate.
Qed.

(* ------------------------------------------------------------------ push *)
Lemma dw_push_spec v t w : DWInv w ->
  let k := count_expired (t - dw_range w)%Z (dw_times w) in
  let w' := dw_push v t w in
  DWInv w' /\ dw_values w' = skipn k (dw_values w) ++ [v] /\ dw_times w' = skipn k (dw_times w) ++ [t] /\
  dw_range w' = dw_range w /\ dw_minr w' = dw_minr w /\ dw_lmt w' = dw_lmt w /\
  (k = 0 -> dw_ev w' = dw_ev w /\ dw_evt w' = dw_evt w) /\
  (0 < k -> dw_ev w' = Some (nth (k - 1) (dw_values w) 0%Z) /\ dw_evt w' = t).
Proof.
  intros I. cbn zeta. unfold dw_push.
  set (cutoff := (t - dw_range w)%Z). set (k := count_expired cutoff (dw_times w)).
  set (w1 := match k with O => w | S d => mkDW (dw_range w) (dw_minr w) (dw_buf w) (dw_tm w) (dw_head w) (dw_size w)
                                               (Some (nth d (dw_values w) 0%Z)) t (dw_lmt w) end).
  assert (W1 : DWInv w1 /\ dw_values w1 = dw_values w /\ dw_times w1 = dw_times w /\ dw_range w1 = dw_range w /\
               dw_minr w1 = dw_minr w /\ dw_lmt w1 = dw_lmt w /\
               (k = 0 -> dw_ev w1 = dw_ev w /\ dw_evt w1 = dw_evt w) /\
               (0 < k -> dw_ev w1 = Some (nth (k - 1) (dw_values w) 0%Z) /\ dw_evt w1 = t)).
  { unfold w1. destruct k as [|d].
    - split; [exact I|]. repeat split; auto; lia.
    - split; [destruct I as [T HS H]; constructor; auto|]. repeat split; auto; try lia.
      cbn [dw_ev]. replace (S d - 1) with d by lia. reflexivity. }
  destruct W1 as [I1 [V1 [T1 [R1 [M1 [L1 [K0 K1]]]]]]].
  replace (dw_range w1) with (dw_range w) by (symmetry; exact R1). fold cutoff.
  destruct (dw_prune_before_spec cutoff w1 I1) as [I2 [V2 [T2 [E2 [ET2 [L2 [R2 M2]]]]]]].
  cbn zeta in *. rewrite T1 in *. fold k in V2, T2.
  set (w2 := dw_prune_before cutoff w1) in *.
  destruct (dw_ensure_spec (dw_size w2 + 1) w2 I2) as [I3 [C3 [V3 [T3 [S3 [E3 [ET3 [L3 [R3 M3]]]]]]]]].
  cbn zeta in *. set (w3 := dw_ensure_capacity (dw_size w2 + 1) w2) in *.
  destruct I3 as [TM3 SZ3 H3].
  assert (HC : dw_head w3 < dw_cap w3) by (destruct H3 as [[Q _]|Q]; [lia|exact Q]).
  assert (SC : dw_size w3 < dw_cap w3) by lia.
  assert (PE : dphys w3 (dw_size w3) = ph (dw_head w3) (dw_cap w3) (dw_size w3)) by reflexivity.
  rewrite PE.
  split; [|split; [|split; [|split; [cbn [dw_range]; congruence|split; [cbn [dw_minr]; congruence|split; [cbn [dw_lmt]; congruence|split]]]]]].
  - constructor; cbn [dw_tm dw_buf dw_size dw_head]; unfold dw_cap in *; cbn [dw_buf]; rewrite ?set_nth_length'; auto; lia.
  - match goal with |- dw_values ?X = _ => assert (CE : dw_cap X = dw_cap w3) by (unfold dw_cap; cbn [dw_buf]; apply set_nth_length'); rewrite (dw_values_lview X), CE end.
    cbn [dw_buf dw_head dw_size].
    rewrite lview_append by (auto). rewrite <- dw_values_lview, V3, V2, V1. reflexivity.
  - match goal with |- dw_times ?X = _ => assert (CE : length (dw_buf X) = dw_cap w3) by (cbn [dw_buf]; apply set_nth_length'); rewrite (dw_times_lview X), CE end.
    cbn [dw_tm dw_head dw_size].
    rewrite lview_append by (auto). unfold dw_cap. rewrite <- dw_times_lview, T3, T2. reflexivity.
  - intros Q. cbn [dw_ev dw_evt]. destruct (K0 Q). split; congruence.
  - intros Q. cbn [dw_ev dw_evt]. destruct (K1 Q). split; congruence.
Qed.

(* ------------------------------------------------------------------ contents as (time, value) pairs *)
Lemma map_fst_combine {A B} (a : list A) (b : list B) : length a = length b -> map fst (combine a b) = a.
Proof. revert b. induction a as [|x r IH]; intros [|y q] H; simpl in *; try lia; auto. f_equal. apply IH. lia. Qed.

Lemma combine_skipn {A B} k (a : list A) (b : list B) : combine (skipn k a) (skipn k b) = skipn k (combine a b).
Proof.
  revert a b. induction k as [|k IH]; intros a b; [reflexivity|].
  destruct a as [|x r], b as [|y q]; simpl; auto. destruct (skipn k r); reflexivity.
Qed.

Lemma combine_snoc {A B} (a : list A) (b : list B) x y : length a = length b ->
  combine (a ++ [x]) (b ++ [y]) = combine a b ++ [(x, y)].
Proof. revert b. induction a as [|p r IH]; intros [|q s] H; simpl in *; try lia; auto. f_equal. apply IH. lia. Qed.

(* what a push means for the list of (time, value) pairs: the expired prefix goes, the new pair is appended *)
Definition spec_dpush (R t v : Z) (c : list (Z * Z)) : list (Z * Z) :=
  skipn (count_expired (t - R) (map fst c)) c ++ [(t, v)].

Lemma dw_content_times w : map fst (dw_content w) = dw_times w.
Proof. unfold dw_content. apply map_fst_combine. destruct (dw_lengths w). lia. Qed.

Lemma dw_push_content v t w : DWInv w ->
  DWInv (dw_push v t w) /\ dw_content (dw_push v t w) = spec_dpush (dw_range w) t v (dw_content w) /\
  dw_range (dw_push v t w) = dw_range w /\ dw_minr (dw_push v t w) = dw_minr w /\ dw_lmt (dw_push v t w) = dw_lmt w.
Proof.
  intros I. destruct (dw_push_spec v t w I) as [I' [V [T [R [M [L _]]]]]]. cbn zeta in *.
  split; [exact I'|]. split; [|auto].
  unfold spec_dpush. rewrite dw_content_times. unfold dw_content at 1. rewrite V, T.
  rewrite combine_snoc by (rewrite !skipn_length; destruct (dw_lengths w); lia).
  rewrite combine_skipn. reflexivity.
Qed.

(* with increasing push times the contents are sorted, and dropping the expired prefix is filtering *)
Definition sorted_below (tl : Z) (c : list (Z * Z)) : Prop :=
  StronglySorted (fun p q => (fst p < fst q)%Z) c /\ Forall (fun p => (fst p <= tl)%Z) c.

Lemma filter_all_id {A} (f : A -> bool) l : (forall x, In x l -> f x = true) -> filter f l = l.
Proof.
  induction l as [|x r IH]; intros H; [reflexivity|]. cbn [filter]. rewrite (H x (or_introl eq_refl)).
  f_equal. apply IH. intros y Hy. apply H. right. exact Hy.
Qed.

Lemma skip_expired_filter cutoff (c : list (Z * Z)) :
  StronglySorted (fun p q => (fst p < fst q)%Z) c ->
  skipn (count_expired cutoff (map fst c)) c = filter (fun p => (cutoff <=? fst p)%Z) c.
Proof.
  induction c as [|p r IH]; intros S; [reflexivity|].
  inversion S as [|x y S1 F1]; subst. cbn [map count_expired filter].
  destruct (Z.ltb_spec (fst p) cutoff) as [L|G].
  - destruct (Z.leb_spec cutoff (fst p)); [lia|]. cbn [skipn]. apply IH. exact S1.
  - destruct (Z.leb_spec cutoff (fst p)); [|lia]. cbn [skipn]. f_equal.
    symmetry. apply filter_all_id. intros q Hq.
    rewrite Forall_forall in F1. specialize (F1 q Hq). apply Z.leb_le. lia.
Qed.

Lemma spec_dpush_sorted R t v tl c : sorted_below tl c -> (tl < t)%Z -> sorted_below t (spec_dpush R t v c).
Proof.
  intros [S F] H. unfold spec_dpush. rewrite (skip_expired_filter _ c S).
  assert (F' : Forall (fun p => (fst p <= tl)%Z) (filter (fun p => (t - R <=? fst p)%Z) c)).
  { rewrite Forall_forall in *. intros p Hp. apply filter_In in Hp. apply F. tauto. }
  split.
  - assert (S' : StronglySorted (fun p q => (fst p < fst q)%Z) (filter (fun p => (t - R <=? fst p)%Z) c)).
    { clear F F'. induction S as [|p r S1 IH F1]; [constructor|]. cbn [filter].
      destruct (t - R <=? fst p)%Z; [|exact IH]. constructor; [exact IH|].
      rewrite Forall_forall in *. intros q Hq. apply filter_In in Hq. apply F1. tauto. }
    revert S' F'. generalize (filter (fun p => (t - R <=? fst p)%Z) c) as l. induction l as [|p r IH]; intros S' F'.
    + constructor; constructor.
    + inversion S'; subst. inversion F'; subst. cbn [app]. constructor; [apply IH; auto|].
      apply Forall_app. split; [assumption|]. constructor; [cbn [fst]; lia|constructor].
  - apply Forall_app. split.
    + rewrite Forall_forall in *. intros p Hp. specialize (F' p Hp). lia.
    + constructor; [cbn [fst]; lia|constructor].
Qed.

(* ------------------------------------------------------------------ the view-level protocol over histories *)
Definition spec_dwop (R t : Z) (o : wop) (st : bool * bool * list (Z * Z)) : bool * bool * list (Z * Z) :=
  let '(ticked, cl, c) := st in
  match o with
  | WPush v => if ticked && negb cl then st else (true, false, filter (fun p => (t - R <=? fst p)%Z) c ++ [(t, v)])
  | WClear => if ticked then st else (true, true, [])
  | WNop => st
  end.
Definition spec_dwcycle (R t : Z) (ops : list wop) (c : list (Z * Z)) : list (Z * Z) :=
  snd (fold_left (fun st o => spec_dwop R t o st) ops (false, false, c)).
Fixpoint spec_dwhist (R : Z) (h : list (Z * list wop)) (c : list (Z * Z)) : list (Z * Z) :=
  match h with
  | [] => c
  | (t, ops) :: r => spec_dwhist R r (spec_dwcycle R t ops c)
  end.

Lemma dw_modified_iff t w : t <> MIN_DT -> (dw_modified t w = true <-> dw_lmt w = t).
Proof.
  intros NZ. unfold dw_modified. destruct (Z.eqb_spec t MIN_DT); [contradiction|]. simpl. apply Z.eqb_eq.
Qed.

Lemma dw_mark_view t w :
  DWInv w -> DWInv (dw_mark t w) /\ dw_content (dw_mark t w) = dw_content w /\ dw_range (dw_mark t w) = dw_range w /\
  dw_minr (dw_mark t w) = dw_minr w /\ ((dw_lmt w <= t)%Z -> dw_lmt (dw_mark t w) = t).
Proof.
  intros I. unfold dw_mark. destruct (Z.leb_spec t (dw_lmt w)) as [LE|GT]; [split; [exact I|repeat split; auto; lia]|].
  split; [destruct I as [T HS HH]; constructor; auto|]. repeat split; auto.
Qed.

Lemma dw_clear_view t w : DWInv w ->
  DWInv (dw_clear t w) /\ dw_content (dw_clear t w) = [] /\ dw_range (dw_clear t w) = dw_range w /\
  dw_minr (dw_clear t w) = dw_minr w /\ dw_lmt (dw_clear t w) = dw_lmt w.
Proof.
  intros [T HS HH]. split; [|repeat split; auto].
  constructor; unfold dw_clear, dw_cap; cbn [dw_tm dw_size dw_head dw_buf].
  - exact T.
  - lia.
  - destruct (length (dw_buf w)); [left; auto|right; lia].
Qed.

Lemma sorted_below_weaken tl t c : sorted_below tl c -> (tl <= t)%Z -> sorted_below t c.
Proof.
  intros [S F] H. split; [exact S|]. rewrite Forall_forall in *. intros p Hp. specialize (F p Hp). lia.
Qed.

Lemma sorted_below_nil t : sorted_below t [].
Proof. split; constructor. Qed.

(* within a cycle at time t: the contents are always sorted and not later than t; as long as a push can still be
   accepted (nothing ticked yet, or a clear came last) they are even older than t *)
Lemma dwin_ops_inv R t tl ops : t <> MIN_DT -> (tl < t)%Z -> forall cl w ticked scl c,
  DWInv w -> dw_range w = R -> dw_content w = c -> sorted_below t c ->
  (ticked && negb scl = false -> sorted_below tl c) ->
  (dw_lmt w <= t)%Z -> (ticked = true <-> dw_lmt w = t) -> (ticked = true -> scl = cl) ->
  let '(cl', w') := fold_left (fun st o => snd (dwin_op t o st)) ops (cl, w) in
  let '(ticked', scl', c') := fold_left (fun st o => spec_dwop R t o st) ops (ticked, scl, c) in
  DWInv w' /\ dw_range w' = R /\ dw_content w' = c' /\ (dw_lmt w' <= t)%Z /\ (ticked' = true <-> dw_lmt w' = t) /\
  sorted_below t c' /\ dw_minr w' = dw_minr w.
Proof.
  intros NZ TL. induction ops as [|o r IH]; intros cl w ticked scl c I RR CC SW SS L T C; cbn [fold_left].
  - split; [exact I|]. split; [exact RR|]. split; [exact CC|]. split; [exact L|]. split; [exact T|]. split; [exact SW|reflexivity].
  - destruct o as [v| |]; cbn [dwin_op spec_dwop snd].
    + destruct (dw_modified t w && negb cl) eqn:M.
      * apply andb_true_iff in M. destruct M as [M1 M2].
        apply (dw_modified_iff t w NZ) in M1. apply T in M1. subst ticked. rewrite (C eq_refl), M2. cbn [andb snd].
        apply (IH cl w true cl c); auto; try tauto. rewrite <- (C eq_refl). exact SS.
      * assert (E : ticked && negb scl = false).
        { destruct ticked; auto. rewrite (C eq_refl). cbn [andb].
          assert (dw_modified t w = true) by (apply (dw_modified_iff t w NZ); apply T; reflexivity).
          rewrite H in M. exact M. }
        rewrite E. cbn [snd]. specialize (SS E).
        destruct (dw_push_content v t w I) as [I1 [C1 [R1 [M1 L1]]]].
        destruct (dw_mark_view t (dw_push v t w) I1) as [I2 [C2 [R2 [M2 L2]]]].
        assert (EQ : filter (fun p => (t - R <=? fst p)%Z) c ++ [(t, v)] = spec_dpush R t v c).
        { unfold spec_dpush. rewrite (skip_expired_filter _ c (proj1 SS)). reflexivity. }
        rewrite EQ.
        assert (LM : dw_lmt (dw_mark t (dw_push v t w)) = t) by (apply L2; lia).
        pose proof (IH false (dw_mark t (dw_push v t w)) true false (spec_dpush R t v c) I2) as G.
        assert (G1 : dw_range (dw_mark t (dw_push v t w)) = R) by congruence.
        assert (G2 : dw_content (dw_mark t (dw_push v t w)) = spec_dpush R t v c) by (rewrite C2, C1, RR, CC; reflexivity).
        specialize (G G1 G2 (spec_dpush_sorted R t v tl c SS TL)).
        assert (G3 : true && negb false = false -> sorted_below tl (spec_dpush R t v c)) by (intros Q; discriminate Q).
        specialize (G G3 ltac:(lia) ltac:(tauto) (fun _ => eq_refl)).
        destruct (fold_left (fun st o => snd (dwin_op t o st)) r (false, dw_mark t (dw_push v t w))) as [cl' w'].
        destruct (fold_left (fun st o => spec_dwop R t o st) r (true, false, spec_dpush R t v c)) as [[tk sc] c'].
        destruct G as [A1 [A2 [A3 [A4 [A5 [A6 A7]]]]]].
        split; [exact A1|]. split; [exact A2|]. split; [exact A3|]. split; [exact A4|]. split; [exact A5|]. split; [exact A6|congruence].
    + destruct (dw_modified t w) eqn:M.
      * apply (dw_modified_iff t w NZ) in M. apply T in M. subst ticked. cbn [snd]. apply (IH cl w true scl c); auto; tauto.
      * assert (E : ticked = false).
        { destruct ticked; auto. assert (dw_modified t w = true) by (apply (dw_modified_iff t w NZ); apply T; reflexivity). congruence. }
        rewrite E. cbn [snd].
        destruct (dw_clear_view t w I) as [I1 [C1 [R1 [M1 L1]]]].
        destruct (dw_mark_view t (dw_clear t w) I1) as [I2 [C2 [R2 [M2 L2]]]].
        assert (LM : dw_lmt (dw_mark t (dw_clear t w)) = t) by (apply L2; lia).
        pose proof (IH true (dw_mark t (dw_clear t w)) true true [] I2) as G.
        assert (G1 : dw_range (dw_mark t (dw_clear t w)) = R) by congruence.
        assert (G2 : dw_content (dw_mark t (dw_clear t w)) = []) by (rewrite C2, C1; reflexivity).
        specialize (G G1 G2 (sorted_below_nil t) (fun _ => sorted_below_nil tl) ltac:(lia) ltac:(tauto) (fun _ => eq_refl)).
        destruct (fold_left (fun st o => snd (dwin_op t o st)) r (true, dw_mark t (dw_clear t w))) as [cl' w'].
        destruct (fold_left (fun st o => spec_dwop R t o st) r (true, true, [])) as [[tk sc] c'].
        destruct G as [A1 [A2 [A3 [A4 [A5 [A6 A7]]]]]].
        split; [exact A1|]. split; [exact A2|]. split; [exact A3|]. split; [exact A4|]. split; [exact A5|]. split; [exact A6|congruence].
    + cbn [snd]. apply IH; auto.
Qed.

Lemma dwin_cycle_inv R t tl ops w c :
  DWInv w -> dw_range w = R -> dw_content w = c -> sorted_below tl c -> (tl < t)%Z -> (dw_lmt w <= tl)%Z -> t <> MIN_DT ->
  DWInv (dwin_cycle t ops w) /\ dw_range (dwin_cycle t ops w) = R /\ dw_content (dwin_cycle t ops w) = spec_dwcycle R t ops c /\
  sorted_below t (spec_dwcycle R t ops c) /\ (dw_lmt (dwin_cycle t ops w) <= t)%Z /\ dw_minr (dwin_cycle t ops w) = dw_minr w.
Proof.
  intros I RR CC SB TL L NZ. unfold dwin_cycle, spec_dwcycle.
  pose proof (dwin_ops_inv R t tl ops NZ TL false w false false c I RR CC (sorted_below_weaken tl t c SB ltac:(lia)) (fun _ => SB)
                ltac:(lia)) as G.
  assert (T0 : false = true <-> dw_lmt w = t) by (split; [discriminate|lia]).
  specialize (G T0 (fun _ => eq_refl)).
  destruct (fold_left (fun st o => snd (dwin_op t o st)) ops (false, w)) as [cl' w'].
  destruct (fold_left (fun st o => spec_dwop R t o st) ops (false, false, c)) as [[tk sc] c'].
  cbn [snd]. destruct G as [A1 [A2 [A3 [A4 [A5 [A6 A7]]]]]]. auto 10.
Qed.

Lemma dwin_run_inv R h : forall w c tl,
  DWInv w -> dw_range w = R -> dw_content w = c -> sorted_below tl c -> (dw_lmt w <= tl)%Z -> (MIN_DT <= tl)%Z -> wincreasing tl h ->
  let w' := fold_left (fun w c => dwin_cycle (fst c) (snd c) w) h w in
  DWInv w' /\ dw_content w' = spec_dwhist R h c /\ dw_minr w' = dw_minr w.
Proof.
  induction h as [|[t ops] r IH]; intros w c tl I RR CC SB L P W; cbn [fold_left spec_dwhist fst snd]; [auto|].
  destruct W as [W1 W2].
  destruct (dwin_cycle_inv R t tl ops w c I RR CC SB W1 L ltac:(unfold MIN_DT in *; lia)) as [I1 [R1 [C1 [S1 [L1 M1]]]]].
  destruct (IH (dwin_cycle t ops w) (spec_dwcycle R t ops c) t I1 R1 C1 S1 L1 ltac:(lia) W2) as [A1 [A2 A3]].
  cbn zeta in *. split; [exact A1|]. split; [exact A2|congruence].
Qed.

(* THE THEOREM: for every history of pushes, clears and rejected operations at increasing times, whatever wraps, head
   advances and growths it causes, the window holds - in push order - exactly the (time, value) pairs pushed since the
   last clear that had not expired at the last push. *)
Lemma dwindow_content_l R m h : wincreasing MIN_DT h ->
  dw_content (dwin_run R m h) = spec_dwhist R h [] /\ dw_minr (dwin_run R m h) = m /\ DWInv (dwin_run R m h).
Proof.
  intros W. unfold dwin_run.
  destruct (dwin_run_inv R h (dwin_empty R m) [] MIN_DT (dwinv_empty R m) eq_refl eq_refl (sorted_below_nil _) ltac:(cbn; lia) ltac:(lia) W)
    as [A1 [A2 A3]].
  auto.
Qed.

(* validity: non-empty and spanning at least the minimum range *)
Lemma dwindow_valid_l w :
  dw_all_valid w = match map fst (dw_content w) with
                   | [] => false
                   | first :: _ => if (dw_minr w <=? 0)%Z then true else (dw_minr w <=? last (map fst (dw_content w)) 0 - first)%Z
                   end.
Proof. rewrite dw_content_times. reflexivity. Qed.

(* removed_value of a push = the LAST element of the expired prefix; nothing expired -> the stash is untouched *)
Lemma dwindow_push_removed_l v t w : DWInv w ->
  let k := count_expired (t - dw_range w)%Z (dw_times w) in
  (k = 0 -> dw_ev (dw_push v t w) = dw_ev w /\ dw_evt (dw_push v t w) = dw_evt w) /\
  (0 < k -> dw_ev (dw_push v t w) = Some (nth (k - 1) (dw_values w) 0%Z) /\ dw_evt (dw_push v t w) = t /\
            dw_has_removed t (dw_push v t w) = negb (t =? MIN_DT)%Z).
Proof.
  intros I. destruct (dw_push_spec v t w I) as [_ [_ [_ [_ [_ [_ [K0 K1]]]]]]]. cbn zeta in *.
  split; [exact K0|]. intros Q. destruct (K1 Q) as [E1 E2]. split; [exact E1|]. split; [exact E2|].
  unfold dw_has_removed. rewrite E1, E2, Z.eqb_refl. destruct (negb (t =? MIN_DT)%Z); reflexivity.
Qed.
