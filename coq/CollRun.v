(* CollRun.v — family "coll": decoding of a correspondence case and printing of the observation lines
   (the same lines cxx/coll_driver.cpp prints from the real storage).  Executable definitions only.

   Case:   1 kind mode p1 p2          kind 1 TSS<int> | 2 TSD<int,TS<int>> | 3 TSW<int,p1,p2>
           2 t (code a b)*            one engine cycle at time t with its scripted mutations
   TSS ops 1 add k | 2 remove k | 3 clear | 4 reserve c | 5 touch
   TSD ops 1 set k v | 2 erase k | 3 clear | 4 reserve c | 5 touch | 6 create k (at(k), child untouched) | 7 write k v through the element's own view
   TSW ops 1 push v | 3 clear
   TSB/TSL ops 1 set i v *)
Require Import Base Coll Window DWindow Fixed.

Fixpoint triples (l : list Z) : list (Z * Z * Z) :=
  match l with
  | c :: a :: b :: r => (c, a, b) :: triples r
  | _ => []
  end.

Definition dec_sop (x : Z * Z * Z) : sop :=
  let '(c, a, _) := x in
  if c =? 1 then SAdd a else if c =? 2 then SRemove a else if c =? 3 then SClear
  else if c =? 4 then SReserve (Z.to_nat a) else if c =? 5 then STouch else SNop.
Definition dec_dop (x : Z * Z * Z) : dop :=
  let '(c, a, b) := x in
  if c =? 1 then DSet a b else if c =? 2 then DErase a else if c =? 3 then DClear
  else if c =? 4 then DReserve (Z.to_nat a) else if c =? 5 then DTouch else if c =? 6 then DCreate a else if c =? 7 then DWrite a b else DNop.
Definition dec_wop (x : Z * Z * Z) : wop :=
  let '(c, a, _) := x in
  if c =? 1 then WPush a else if c =? 3 then WClear else WNop.

(* cycles of a case: (t, raw op triples) *)
Fixpoint cycles_of (c : wire) : list (Z * list (Z * Z * Z)) :=
  match c with
  | [] => []
  | l :: r =>
      match l with
      | 2 :: t :: ops => (t, triples ops) :: cycles_of r
      | _ => cycles_of r
      end
  end.
Fixpoint header_of (c : wire) : list Z :=
  match c with
  | [] => [1; 0; 0; 0]
  | l :: r => match l with 1 :: k :: m :: p1 :: p2 :: _ => [k; m; p1; p2] | _ => header_of r end
  end.

Definition bits_line (tag : Z) (n : nat) (l : list bool) : line :=
  tag :: map (fun i => b2z (bit i l)) (seq 0 n).

(* ---- TSS *)
Fixpoint run_ops {S O} (step : O -> S -> Z * S) (ops : list O) (s : S) : list Z * S :=
  match ops with
  | [] => ([], s)
  | o :: r => let '(x, s1) := step o s in let '(xs, s2) := run_ops step r s1 in (x :: xs, s2)
  end.

Definition tss_obs (t : Z) (s : tss) : wire :=
  let ks := t_ks s in
  let n := ks_cap ks in
  let m := tss_modified t s in
  [ [20; t; b2z m; b2z (tss_valid s); b2z (tss_valid s); t_lmt s; zn (ks_size ks); zn n];
    21 :: sortz (tss_value s);
    22 :: sortz (tss_added t s);
    23 :: sortz (tss_removed t s);
    24 :: map (fun x => sstate_code (s_st x)) (ks_slots ks);
    25 :: map (fun x => if constructed x then s_key x else 0) (ks_slots ks);
    bits_line 26 n (t_add s);
    bits_line 27 n (t_rem s);
    28 :: sortz (tss_value s);
    29 :: b2z (t_lmt s =? t) :: (if t_lmt s =? t then sortz (tss_raw_added s) else []);
    30 :: b2z (t_lmt s =? t) :: (if t_lmt s =? t then sortz (tss_raw_removed s) else []);
    [37; b2z m] ].

Fixpoint tss_cycles (cs : list (Z * list (Z * Z * Z))) (s : tss) : wire :=
  match cs with
  | [] => []
  | (t, ops) :: r =>
      let '(res, s1) := run_ops (tss_op t) (map dec_sop ops) s in
      ((19 :: res) :: tss_obs t s1) ++ tss_cycles r s1
  end.

(* ---- TSD *)
(* (key, payload...) rows sorted by key: insertion sort on the first component *)
Fixpoint insert_row (x : Z * list Z) (l : list (Z * list Z)) : list (Z * list Z) :=
  match l with
  | [] => [x]
  | y :: r => if fst x <=? fst y then x :: l else y :: insert_row x r
  end.
Definition sort_rows (l : list (Z * list Z)) : list (Z * list Z) := fold_right insert_row [] l.
Definition flat_rows (l : list (Z * list Z)) : list Z := flat_map (fun x => fst x :: snd x) (sort_rows l).

Fixpoint rows_where (f : nat -> slot -> bool) (g : nat -> slot -> list Z) (i : nat) (l : list slot) : list (Z * list Z) :=
  match l with
  | [] => []
  | x :: r => if f i x then (s_key x, g i x) :: rows_where f g (S i) r else rows_where f g (S i) r
  end.

Definition tsd_obs (t : Z) (s : tsd) : wire :=
  let ks := d_ks s in
  let n := ks_cap ks in
  let sl := ks_slots ks in
  let v := negb (d_lmt s =? MIN_DT) in
  let cur := d_lmt s =? t in
  [ [20; t; b2z (tsd_modified t s); b2z v; b2z v; d_lmt s; zn (ks_size ks); zn n];
    21 :: sortz (tsd_keys s);
    22 :: sortz (tsd_added t s);
    23 :: sortz (tsd_removed t s);
    31 :: sortz (tsd_modified_keys t s);
    32 :: sortz (tsd_valid_keys s);
    33 :: flat_rows (rows_where (fun _ x => live x)
                       (fun i _ => let c := child_at s i in [b2z (c_valid c); if c_valid c then c_val c else 0; c_lmt c]) 0 sl);
    34 :: (if tsd_struct_current t s
           then flat_rows (rows_where (fun i x => constructed x && bit i (d_rem s))
                             (fun i _ => let c := child_at s i in [if c_valid c then c_val c else -1]) 0 sl)
           else []);
    24 :: map (fun x => sstate_code (s_st x)) sl;
    25 :: map (fun x => if constructed x then s_key x else 0) sl;
    bits_line 26 n (d_add s);
    bits_line 27 n (d_rem s);
    bits_line 35 n (d_mod s);
    [36; b2z (negb (t =? MIN_DT) && (d_kslmt s =? t)); b2z (negb (d_kslmt s =? MIN_DT)); d_kslmt s];
    28 :: flat_rows (rows_where (fun _ x => live x) (fun i _ => [c_val (child_at s i)]) 0 sl);
    29 :: b2z cur :: (if cur then flat_rows (rows_where (fun i x => live x && bit i (d_mod s))
                                               (fun i _ => [c_val (child_at s i)]) 0 sl) else []);
    30 :: b2z cur :: (if cur then sortz (keys_where (fun i _ => bit i (d_rem s)) 0 sl) else []);
    [37; b2z (tsd_modified t s)] ].

Fixpoint tsd_cycles (cs : list (Z * list (Z * Z * Z))) (s : tsd) : wire :=
  match cs with
  | [] => []
  | (t, ops) :: r =>
      let '(res, s1) := run_ops (tsd_op t) (map dec_dop ops) s in
      ((19 :: res) :: tsd_obs t s1) ++ tsd_cycles r s1
  end.

(* ---- TSW *)
Definition win_obs (t : Z) (w : win) : wire :=
  let cur := w_lmt w =? t in
  let hr := w_has_removed t w in
  [ [20; t; b2z (w_modified t w); b2z (w_valid w); b2z (w_valid w && w_all_valid w); w_lmt w; zn (w_size w); zn (w_n w);
     b2z (w_full w); zn (w_min w); b2z hr; (if hr then match w_ev w with Some x => x | None => 0 end else 0);
     b2z (w_cleared t w); (match w_times w with x :: _ => x | [] => 0 end)];
    21 :: w_values w;
    22 :: w_times w;
    28 :: w_values w;
    29 :: (if cur then match rev (w_values w) with x :: _ => [1; x] | [] => [0] end else [0]);
    [37; b2z (w_modified t w)] ].

Fixpoint win_cycles (cs : list (Z * list (Z * Z * Z))) (w : win) : wire :=
  match cs with
  | [] => []
  | (t, ops) :: r =>
      let '(res, st) := run_ops (win_op t) (map dec_wop ops) (false, w) in
      ((19 :: res) :: win_obs t (snd st)) ++ win_cycles r (snd st)
  end.


(* ---- duration TSW: same lines as the tick window (capacity / full / min_period print as 0) *)
Definition dwin_obs (t : Z) (w : dwin) : wire :=
  let cur := dw_lmt w =? t in
  let hr := dw_has_removed t w in
  [ [20; t; b2z (dw_modified t w); b2z (dw_valid w); b2z (dw_valid w && dw_all_valid w); dw_lmt w; zn (dw_size w); 0; 0; 0;
     b2z hr; (if hr then match dw_ev w with Some x => x | None => 0 end else 0);
     b2z (dw_cleared t w); (match dw_times w with x :: _ => x | [] => 0 end)];
    21 :: dw_values w;
    22 :: dw_times w;
    28 :: dw_values w;
    29 :: (if cur then match rev (dw_values w) with x :: _ => [1; x] | [] => [0] end else [0]);
    [37; b2z (dw_modified t w)] ].

Fixpoint dwin_cycles (cs : list (Z * list (Z * Z * Z))) (w : dwin) : wire :=
  match cs with
  | [] => []
  | (t, ops) :: r =>
      let '(res, st) := run_ops (dwin_op t) (map dec_wop ops) (false, w) in
      ((19 :: res) :: dwin_obs t (snd st)) ++ dwin_cycles r (snd st)
  end.

(* ---- TSB / TSL of TS<int> children *)
Definition dec_fop (x : Z * Z * Z) : fop :=
  let '(c, a, b) := x in
  if c =? 1 then (if a <? 0 then FSet 1000%nat b else FSet (Z.to_nat a) b) else FNop.

Definition fixed_obs (t : Z) (s : fixed) : wire :=
  let n := length (f_ch s) in
  let v := negb (f_lmt s =? MIN_DT) in
  let idx := seq 0 n in
  let dl := flat_map (fun i => match f_delta t s i with Some x => [zn i; x] | None => [] end) idx in
  let md := flat_map (fun i => match f_delta t s i with Some _ => [zn i] | None => [] end) idx in
  [ [20; t; b2z (f_modified t s); b2z v; b2z (v && forallb (fun i => c_valid (f_child s i)) idx); f_lmt s; zn n];
    33 :: flat_map (fun i => let c := f_child s i in [zn i; b2z (c_valid c); if c_valid c then c_val c else 0; c_lmt c]) idx;
    31 :: zn (length md) :: md;
    29 :: b2z (f_lmt s =? t) :: dl;
    [37; b2z (f_modified t s)] ].

Fixpoint fixed_cycles (cs : list (Z * list (Z * Z * Z))) (s : fixed) : wire :=
  match cs with
  | [] => []
  | (t, ops) :: r =>
      let '(res, s1) := run_ops (f_op t) (map dec_fop ops) s in
      ((19 :: res) :: fixed_obs t s1) ++ fixed_cycles r s1
  end.

Definition run_coll (c : wire) : wire :=
  match header_of c with
  | [k; _; p1; p2] =>
      let cs := cycles_of c in
      if k =? 1 then tss_cycles cs tss_empty
      else if k =? 2 then tsd_cycles cs tsd_empty
      else if k =? 3 then
        if p1 <=? 0 then [[18; 1]] else win_cycles cs (win_empty (Z.to_nat p1) (Z.to_nat p2))
      else if (k =? 7) || (k =? 8) then fixed_cycles cs (fixed_empty 3)
      else if k =? 9 then dwin_cycles cs (dwin_empty p1 p2)
      else [[18; 2]]
  | _ => [[18; 2]]
  end.
