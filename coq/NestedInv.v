(* NestedInv.v — the tree version of EngineFacts.boundary (cache part), as a whole-run invariant:
   at every cycle boundary, at every depth, the cached next time of every idle started graph is <= every
   armed slot inside it; the owner is armed no later than that cache by the pull (post-condition of a
   completed child cycle).  For trees without try_except nodes (no exception is ever captured at graph
   level: with one it is false - finding F1). *)
Require Import Base Sched SchedFacts Nested NestedWitness NestedFacts.
From Coq Require Import ZifyBool.

(* slot j of graph g is covered by g's cache: if it is armed, the cache is no later *)
Definition covered (g j : nat) (w : world) : Prop :=
  g_now (gat g w) < slot_at j (gat g w) -> g_nst (gat g w) <= slot_at j (gat g w).

(* everything the engine does outside "reset this graph's cycle" keeps every slot of every graph covered *)
Definition Cv (w w' : world) : Prop := forall g j, covered g j w -> covered g j w'.

Lemma Cv_refl w : Cv w w. Proof. intros g j H; exact H. Qed.
Lemma Cv_trans a b c : Cv a b -> Cv b c -> Cv a c.
Proof. intros H1 H2 g j H. apply H2, H1, H. Qed.
Lemma Cv_emit l w : Cv w (emit l w). Proof. intros g j H; exact H. Qed.
Lemma Cv_set_err e w : Cv w (set_err e w). Proof. intros g j H; exact H. Qed.

Lemma Cv_upd_g_proj g f w :
  (forall s, g_now (f s) = g_now s /\ g_slots (f s) = g_slots s /\ g_nst (f s) = g_nst s) -> Cv w (upd_g g f w).
Proof.
  intros H g' j. unfold covered, slot_at.
  rewrite (gat_upd_proj g_now), (gat_upd_proj g_slots), (gat_upd_proj g_nst); auto; intros s; apply H.
Qed.

Lemma Cv_upd_node g i f w : Cv w (upd_node g i f w).
Proof. apply Cv_upd_g_proj; intros; repeat split. Qed.

(* lowering a cache keeps everything covered *)
Lemma Cv_lower g t w : t <= g_nst (gat g w) -> Cv w (upd_g g (g_set_nst t) w).
Proof.
  intros Ht g' j. unfold covered, slot_at.
  destruct (Nat.eq_dec g g') as [->|Hn]; [|rewrite gat_upd_other; auto].
  destruct (lt_dec g' (length (w_gs w))).
  - rewrite gat_upd_same; auto. simpl. lia.
  - unfold gat, upd_g; simpl. rewrite update_oob by lia. auto.
Qed.

Lemma slot_set_sched i when s j :
  slot_at j (g_set_sched i when s) = if (j =? i)%nat && (i <? length (g_slots s))%nat then when else slot_at j s.
Proof.
  unfold slot_at, g_set_sched, set_nth; simpl.
  destruct (Nat.eqb_spec j i) as [->|Hn]; simpl.
  - destruct (Nat.ltb_spec i (length (g_slots s))).
    + apply nth_update_same; auto.
    + rewrite update_oob by lia. reflexivity.
  - apply nth_update_other; auto.
Qed.

Lemma Cv_sched_local g i when w : Cv w (sched_local g i when w).
Proof.
  unfold sched_local; cbv zeta. destruct (when <? g_now (gat g w)); [apply Cv_set_err|].
  destruct (_ || _); [|apply Cv_refl].
  intros g' j. unfold covered.
  destruct (Nat.eq_dec g g') as [->|Hn]; [|rewrite gat_upd_other; auto].
  destruct (lt_dec g' (length (w_gs w))).
  - rewrite gat_upd_same; auto. rewrite slot_set_sched. simpl.
    destruct ((j =? i)%nat && (i <? length (g_slots (gat g' w)))%nat);
      destruct ((g_now (gat g' w) <? when) && (when <? g_nst (gat g' w))) eqn:E; lia.
  - unfold gat, upd_g; simpl. rewrite update_oob by lia. auto.
Qed.

Lemma Cv_sched_at d T : forall g i when w, Cv w (sched_at d T g i when w).
Proof.
  induction d as [|d IH]; intros g i when w; simpl.
  - destruct (gc_parent _) as [[pg pn]|]; [apply Cv_set_err|apply Cv_sched_local].
  - destruct (gc_parent _) as [[pg pn]|]; [|apply Cv_sched_local].
    set (w1 := sched_local g i _ w). assert (K1 : Cv w w1) by apply Cv_sched_local.
    destruct (negb (ok w1)); auto.
    match goal with |- Cv w (if ?b then sched_at d T pg pn ?wh ?w2 else _) => assert (K2 : Cv w w2) end.
    { destruct (g_started (gat g w1) && negb (g_evaluating (gat g w1)) && (Z.max (Z.max when (now_of pg w)) (now_of 0 w) <? g_nst (gat g w1))) eqn:E; auto.
      eapply Cv_trans; eauto. apply Cv_lower. lia. }
    destruct (g_started _ && negb _); auto. eapply Cv_trans; eauto.
Qed.

Lemma Cv_notify_nodes T sub now g : forall cs j w, Cv w (notify_nodes T sub now g cs j w).
Proof.
  induction cs as [|c r IH]; intros j w; simpl; [apply Cv_refl|].
  eapply Cv_trans; [|apply IH]. destruct (_ && _); [apply Cv_sched_at|apply Cv_refl].
Qed.

Lemma Cv_notify_graphs T sub now : forall gs g w, Cv w (notify_graphs T sub now gs g w).
Proof.
  induction gs as [|gc r IH]; intros g w; simpl; [apply Cv_refl|].
  eapply Cv_trans; [apply Cv_notify_nodes|apply IH].
Qed.

Lemma Cv_notify T p now w : Cv w (notify T p now w).
Proof. apply Cv_notify_graphs. Qed.
Lemma Cv_notify_link T x now w : Cv w (notify_link T x now w).
Proof. apply Cv_notify_graphs. Qed.

Lemma Cv_opt_schedule T g i o w : Cv w (opt_schedule T g i o w).
Proof. destruct o; simpl; [apply Cv_sched_at|apply Cv_refl]. Qed.

Ltac cv_step :=
  first [ apply Cv_refl | apply Cv_emit | apply Cv_set_err | apply Cv_upd_node | apply Cv_sched_at
        | apply Cv_notify | apply Cv_notify_link | apply Cv_opt_schedule | apply Cv_sched_local ].
Ltac cv_chain := repeat (first [ cv_step | eapply Cv_trans; [|cv_step] ]).

Lemma Cv_do_op T g i st opi o w : Cv w (do_op T g i st opi o w).
Proof.
  unfold do_op. destruct (negb (ok w)); [apply Cv_refl|].
  destruct o; try apply Cv_refl; try apply Cv_set_err; try apply Cv_sched_at.
  - destruct (c_sched _); [|apply Cv_refl]. destruct (schedule _ _ _ _ _) as [s' push].
    set (w1 := opt_schedule _ _ _ _ _).
    assert (K : Cv w w1) by (unfold w1; eapply Cv_trans; [apply Cv_upd_node|apply Cv_opt_schedule]).
    destruct (ok w1); auto.
  - destruct (c_sched _); [|apply Cv_refl]. eapply Cv_trans; [apply Cv_upd_node|apply Cv_emit].
  - destruct (c_sched _); [|apply Cv_refl]. eapply Cv_trans; [apply Cv_upd_node|apply Cv_emit].
  - destruct (c_sched _); [|apply Cv_refl]. destruct (pop_tag _ _ _). eapply Cv_trans; [apply Cv_upd_node|apply Cv_emit].
  - destruct (c_sched _); [|apply Cv_refl]. eapply Cv_trans; [apply Cv_upd_node|apply Cv_emit].
  - destruct (_ && _); [|apply Cv_refl].
    eapply Cv_trans; [apply Cv_upd_node|]. eapply Cv_trans; [apply Cv_notify|apply Cv_emit].
  - destruct (_ && _); [apply Cv_sched_at|apply Cv_refl].
  - destruct (_ && _); [apply Cv_sched_at|apply Cv_refl].
Qed.

Lemma Cv_do_ops T g i st : forall os opi w, Cv w (do_ops T g i st opi os w).
Proof.
  induction os as [|o r IH]; intros opi w; simpl; [apply Cv_refl|].
  eapply Cv_trans; [apply Cv_do_op|apply IH].
Qed.

Lemma Cv_write_err T g i code now w : Cv w (write_err T g i code now w).
Proof. unfold write_err. eapply Cv_trans; [apply Cv_upd_node|apply Cv_notify]. Qed.

Lemma Cv_start_plain T beh g i w : Cv w (start_plain T beh g i w).
Proof.
  unfold start_plain. set (w1 := do_ops _ _ _ _ _ _ _).
  assert (K : Cv w w1) by apply Cv_do_ops.
  destruct (negb (ok w1)); auto.
  destruct (c_sos _).
  - eapply Cv_trans; eauto. eapply Cv_trans; [apply Cv_upd_node|apply Cv_sched_at].
  - eapply Cv_trans; eauto. apply Cv_upd_node.
Qed.

Lemma Cv_sampled T child now : forall bs w, Cv w (sampled T child now bs w).
Proof.
  induction bs as [|b r IH]; intros w; simpl; [apply Cv_refl|].
  eapply Cv_trans; [|apply IH]. destruct (match nth_error _ _ with Some _ => _ | None => _ end); [apply Cv_sched_at|apply Cv_refl].
Qed.

Lemma Cv_sampled_if b T child now bs w : Cv w (sampled_if b T child now bs w).
Proof. unfold sampled_if. destruct b; [apply Cv_sampled|apply Cv_refl]. Qed.

Lemma Cv_pull T g i child w : Cv w (pull T g i child w).
Proof. unfold pull. destruct (_ =? _); [apply Cv_refl|apply Cv_sched_at]. Qed.

Lemma Cv_run_user T beh g i w : Cv w (run_user T beh g i w).
Proof.
  unfold run_user. eapply Cv_trans; [|apply Cv_do_ops].
  eapply Cv_trans; [apply Cv_upd_node|apply Cv_emit].
Qed.

Lemma Cv_capture T g i now w : Cv w (capture T g i now w).
Proof.
  unfold capture. destruct (_ && _); [|apply Cv_refl].
  eapply Cv_trans; [apply Cv_set_err|apply Cv_write_err].
Qed.

Lemma Cv_rearm T g i sn now w : Cv w (rearm T g i sn now w).
Proof.
  unfold rearm. destruct (c_sched _); [|apply Cv_refl].
  destruct sn.
  - destruct (advance _ _) as [s' push]. eapply Cv_trans; [apply Cv_upd_node|apply Cv_opt_schedule].
  - destruct (is_scheduled _); [apply Cv_sched_at|apply Cv_refl].
Qed.

Lemma Cv_eval_plain T beh g i w : Cv w (eval_plain T beh g i w).
Proof.
  unfold eval_plain. destruct (negb (n_started _)); [apply Cv_refl|].
  match goal with |- Cv w (if negb (ok ?w1) then _ else _) => assert (K : Cv w w1) end.
  { destruct (match c_ins _ with [] => true | _ => _ end); [|apply Cv_refl].
    eapply Cv_trans; [apply Cv_run_user|apply Cv_capture]. }
  destruct (negb (ok _)); auto.
  eapply Cv_trans; [exact K|apply Cv_rearm].
Qed.

Lemma Cv_relink T g i w : Cv w (relink T g i w).
Proof.
  unfold relink. destruct (_ && _); [|apply Cv_refl].
  eapply Cv_trans; [apply Cv_upd_node|apply Cv_notify_link].
Qed.

Lemma Cv_catch T g i now w : Cv w (catch T g i now w).
Proof.
  unfold catch, caught. eapply Cv_trans; [|apply Cv_pull].
  destruct (negb (ok w)); [|apply Cv_refl].
  eapply Cv_trans; [apply Cv_set_err|apply Cv_write_err].
Qed.


Lemma Cv_eval_pauser T beh g i w : Cv w (eval_pauser T beh g i w).
Proof.
  unfold eval_pauser. destruct (negb (n_started _)); [apply Cv_refl|].
  destruct (_ <? _).
  - eapply Cv_trans; [apply Cv_upd_node|]. eapply Cv_trans; [apply Cv_emit|apply Cv_set_err].
  - eapply Cv_trans; [apply Cv_upd_node|apply Cv_run_user].
Qed.

(* ------------------------------------------------------------------ the invariant *)
(* no try_except node (kind 2) and no re-entering owner (kind 4): nothing ever resumes or swallows a cycle *)
Definition no_try (T : tcfg) : Prop := forall g i, c_kind (ncfg_at T g i) <> 2 /\ c_kind (ncfg_at T g i) <> 4.

(* an idle started graph: cursor at rest, cache covers every armed slot of its nodes *)
Definition idle_ok (T : tcfg) (g : nat) (w : world) : Prop :=
  g_evaluating (gat g w) = false ->
  (g_cursor (gat g w) = 0 \/ g_cursor (gat g w) = -1)
  /\ (g_started (gat g w) = true ->
      forall j, (j < length (gc_nodes (gcfg_at T g)))%nat -> (j < length (g_slots (gat g w)))%nat -> covered g j w).

Definition Cov (T : tcfg) (w : world) : Prop := forall g, idle_ok T g w.
(* nothing at or above graph id c is in the middle of a cycle *)
Definition Quiet (c : nat) (w : world) : Prop := forall a, (c <= a)%nat -> g_evaluating (gat a w) = false.
Definition Good (T : tcfg) (c : nat) (w : world) : Prop := Cov T w /\ Quiet c w /\ length (w_gs w) = length T.

(* what a step leaves alone in the graphs with ids below b *)
Definition Below (b : nat) (w w' : world) : Prop :=
  forall a, (a < b)%nat ->
    g_now (gat a w') = g_now (gat a w) /\ g_started (gat a w') = g_started (gat a w)
    /\ g_evaluating (gat a w') = g_evaluating (gat a w) /\ forall j, covered a j w -> covered a j w'.

Lemma Below_refl b w : Below b w w. Proof. intros a _; repeat split; auto. Qed.
Lemma Below_trans b x y z : Below b x y -> Below b y z -> Below b x z.
Proof.
  intros H1 H2 a Ha. destruct (H1 a Ha) as (A1 & A2 & A3 & A4). destruct (H2 a Ha) as (B1 & B2 & B3 & B4).
  repeat split; try congruence. intros j Hc. auto.
Qed.
Lemma Below_weaken b b' w w' : (b' <= b)%nat -> Below b w w' -> Below b' w w'.
Proof. intros Hb H a Ha. apply H; lia. Qed.
Lemma Below_KeepCv b w w' : Keep w w' -> Cv w w' -> Below b w w'.
Proof.
  intros [_ K] C a _. specialize (K a). repeat split; try apply K. intros j; apply C.
Qed.

Lemma gat_upd_cases g f w :
  gat g (upd_g g f w) = f (gat g w) \/ (gat g (upd_g g f w) = dflt_g /\ gat g w = dflt_g).
Proof.
  destruct (lt_dec g (length (w_gs w))).
  - left. apply gat_upd_same; auto.
  - right. unfold gat, upd_g; simpl. rewrite update_oob by lia. rewrite nth_overflow by lia. auto.
Qed.

Lemma covered_upd_other c f w g j : c <> g -> (covered g j (upd_g c f w) <-> covered g j w).
Proof. intros H. unfold covered. rewrite gat_upd_other; auto. tauto. Qed.

Lemma idle_ok_upd_other T c f w g : c <> g -> idle_ok T g w -> idle_ok T g (upd_g c f w).
Proof.
  intros H I. unfold idle_ok in *. rewrite gat_upd_other; auto. intros E. destruct (I E) as [A B]. split; auto.
  intros S j Hj Hs. apply covered_upd_other; auto.
Qed.

Lemma Below_upd_g b c f w : (b <= c)%nat -> Below b w (upd_g c f w).
Proof.
  intros H a Ha. rewrite gat_upd_other by lia. repeat split; auto. intros j. apply covered_upd_other. lia.
Qed.

(* an update of graph c alone: Cov survives if c itself is fine afterwards *)
Lemma Cov_upd_g T c f w : Cov T w -> idle_ok T c (upd_g c f w) -> Cov T (upd_g c f w).
Proof. intros C I g. destruct (Nat.eq_dec c g) as [->|Hn]; auto. apply idle_ok_upd_other; auto. Qed.

Lemma Cov_step T w w' : Keep w w' -> Cv w w' -> Cov T w -> Cov T w'.
Proof.
  intros [_ K] C H g E. specialize (K g).
  rewrite (kg_evaluating _ _ K) in E.
  destruct (H g E) as [A B]. split; [rewrite (kg_cursor _ _ K); auto|]. intros S j Hj Hs.
  rewrite (kg_started _ _ K) in S. rewrite (kg_nslots _ _ K) in Hs. apply C, B; auto.
Qed.

Lemma Quiet_Keep c w w' : Keep w w' -> Quiet c w -> Quiet c w'.
Proof. intros [_ K] Q a Ha. rewrite (kg_evaluating _ _ (K a)). auto. Qed.

Lemma Below_upd_g_proj b c f w :
  (forall s, g_now (f s) = g_now s /\ g_started (f s) = g_started s /\ g_evaluating (f s) = g_evaluating s
             /\ g_slots (f s) = g_slots s /\ g_nst (f s) = g_nst s) -> Below b w (upd_g c f w).
Proof.
  intros H a _. rewrite (gat_upd_proj g_now), (gat_upd_proj g_started), (gat_upd_proj g_evaluating);
    try (intros s; apply H). repeat split; auto.
  intros j. apply Cv_upd_g_proj. intros s. destruct (H s) as (A & _ & _ & B & C). auto.
Qed.

Definition ev_good (T : tcfg) (ev : nat -> Z -> world -> world) : Prop :=
  forall c t w, Below c w (ev c t w) /\ length (w_gs (ev c t w)) = length (w_gs w)
                /\ (Good T c w -> (c < length T)%nat -> ok (ev c t w) = true -> Good T c (ev c t w)).

Section INV.
  Variable T : tcfg.
  Variable beh : behaviour.
  Hypothesis HT : wf_tree T.
  Hypothesis HN : no_try T.

  Lemma nested_kind1 g i : is_nested (ncfg_at T g i) = true -> c_kind (ncfg_at T g i) =? 1 = true.
  Proof. unfold is_nested. destruct (HN g i). lia. Qed.

  Lemma child_in_range g i : is_nested (ncfg_at T g i) = true -> (c_child (ncfg_at T g i) < length T)%nat.
  Proof. intros E. destruct HT as (_ & HK & _). eapply has_parent_in_range. apply (HK _ _ E). Qed.

  (* one node evaluation inside the scan of graph g *)
  Lemma eval_node_below ev g i w : ev_good T ev ->
    Below (S g) w (eval_node T beh ev g i w) /\ length (w_gs (eval_node T beh ev g i w)) = length (w_gs w).
  Proof.
    intros Hev. unfold eval_node. destruct (is_nested _) eqn:E.
    - unfold eval_nested. destruct (negb (n_started _)); [split; [apply Below_refl|auto]|].
      rewrite (nested_kind1 _ _ E).
      assert (K := Keep_relink T g i w).
      destruct (Hev (c_child (ncfg_at T g i)) (now_of g w) (relink T g i w)) as (B & L & _). split.
      + eapply Below_trans; [apply Below_KeepCv; [exact K|apply Cv_relink]|].
        eapply Below_weaken; [|exact B]. pose proof (child_gt T HT _ _ E). lia.
      + rewrite L. apply K.
    - destruct (_ =? 5).
      + assert (K := Keep_eval_pauser T beh g i w). split; [apply Below_KeepCv; [exact K|apply Cv_eval_pauser]|apply K].
      + assert (K := Keep_eval_plain T beh g i w). split; [apply Below_KeepCv; [exact K|apply Cv_eval_plain]|apply K].
  Qed.

  Lemma eval_node_good ev g i w :
    ev_good T ev -> Cov T w -> Quiet (S g) w -> length (w_gs w) = length T -> ok (eval_node T beh ev g i w) = true ->
    Cov T (eval_node T beh ev g i w) /\ Quiet (S g) (eval_node T beh ev g i w).
  Proof.
    intros Hev C Q L Hok. unfold eval_node in *. destruct (is_nested _) eqn:E.
    - unfold eval_nested in *. destruct (negb (n_started _)); auto.
      rewrite (nested_kind1 _ _ E) in *.
      set (c := c_child (ncfg_at T g i)) in *. assert (Hc : (g < c)%nat) by (apply (child_gt T HT _ _ E)).
      set (w1 := relink T g i w) in *.
      assert (K1 : Keep w w1) by apply Keep_relink.
      assert (G1 : Good T c w1).
      { split; [eapply Cov_step; eauto; apply Cv_relink|split]. eapply Quiet_Keep; eauto. intros a Ha; apply Q; lia.
        destruct K1 as [K1 _]. lia. }
      destruct (Hev c (now_of g w) w1) as (B & _ & H). destruct (H G1 (child_in_range _ _ E) Hok) as (C2 & Q2 & _). split; auto.
      intros a Ha. destruct (le_lt_dec c a); [apply Q2; auto|].
      destruct (B a l) as (_ & _ & Ev & _). rewrite Ev.
      destruct K1 as [_ K1]. rewrite (kg_evaluating _ _ (K1 a)). apply Q; lia.
    - destruct (_ =? 5).
      + assert (K : Keep w (eval_pauser T beh g i w)) by apply Keep_eval_pauser.
        split; [eapply Cov_step; eauto; apply Cv_eval_pauser|eapply Quiet_Keep; eauto].
      + assert (K : Keep w (eval_plain T beh g i w)) by apply Keep_eval_plain.
        split; [eapply Cov_step; eauto; apply Cv_eval_plain|eapply Quiet_Keep; eauto].
  Qed.

  (* the forward scan of graph g (in the middle of its cycle) *)
  Lemma scan_below ev g : ev_good T ev -> forall k i w,
    Below (S g) w (scan T beh ev g i k w) /\ length (w_gs (scan T beh ev g i k w)) = length (w_gs w).
  Proof.
    intros Hev. induction k as [|k IH]; intros i w; simpl; [split; [apply Below_refl|auto]|].
    destruct (negb (ok w)); [split; [apply Below_refl|auto]|].
    set (w0 := upd_g g (g_set_cursor (Z.of_nat i)) w).
    assert (B0 : Below (S g) w w0) by (apply Below_upd_g_proj; intros; repeat split).
    assert (L0 : length (w_gs w0) = length (w_gs w)) by apply upd_g_len.
    match goal with |- Below _ w (if negb (ok ?w') then _ else _) /\ _ => assert (B1 : Below (S g) w w' /\ length (w_gs w') = length (w_gs w)) end.
    { destruct (_ =? _).
      - destruct (eval_node_below ev g i (emit [11; Z.of_nat g; Z.of_nat i; g_now (gat g w0)] w0) Hev) as [B L].
        split; [eapply Below_trans; [exact B0|exact B]|rewrite L; exact L0].
      - destruct (_ <? _); [|split; auto]. destruct (slot_at i (gat g w0) <? g_nst (gat g w0)) eqn:E; [|split; auto].
        split; [|rewrite upd_g_len; auto].
        eapply Below_trans; [exact B0|]. apply Below_KeepCv; [apply Keep_upd_g; intros; apply keep_set_nst|apply Cv_lower; lia]. }
    destruct B1 as [B1 L1].
    match goal with |- Below _ w (if negb (ok ?w') then _ else _) /\ _ => set (w1 := w') in * end.
    destruct (negb (ok w1)); auto.
    destruct (IH (S i) w1) as [B2 L2]. split; [eapply Below_trans; [exact B1|exact B2]|congruence].
  Qed.

  Lemma scan_good ev g : ev_good T ev -> forall k i w,
    Cov T w -> Quiet (S g) w -> length (w_gs w) = length T -> g_evaluating (gat g w) = true ->
    (forall j, (j < i)%nat -> covered g j w) ->
    ok (scan T beh ev g i k w) = true ->
    Cov T (scan T beh ev g i k w) /\ Quiet (S g) (scan T beh ev g i k w)
    /\ forall j, (j < i + k)%nat -> covered g j (scan T beh ev g i k w).
  Proof.
    intros Hev. induction k as [|k IH]; intros i w C Q L Ev Hc Hok; simpl in *.
    - split; [exact C|split; [exact Q|]]. intros j Hj. apply Hc; lia.
    - destruct (negb (ok w)) eqn:Eok; [unfold ok in *; lia|].
      set (w0 := upd_g g (g_set_cursor (Z.of_nat i)) w) in *.
      assert (Ev0 : g_evaluating (gat g w0) = true) by (unfold w0; rewrite (gat_upd_proj g_evaluating); auto).
      assert (C0 : Cov T w0).
      { apply Cov_upd_g; auto. intros E. fold w0 in E. congruence. }
      assert (L0 : length (w_gs w0) = length T) by (unfold w0; rewrite upd_g_len; auto).
      assert (Q0 : Quiet (S g) w0) by (intros a Ha; unfold w0; rewrite gat_upd_other by lia; apply Q; auto).
      assert (Hc0 : forall j, (j < i)%nat -> covered g j w0).
      { intros j Hj. apply (Cv_upd_g_proj g (g_set_cursor (Z.of_nat i)) w); [intros; repeat split|auto]. }
      match type of Hok with ok (if negb (ok ?w') then _ else _) = true => set (w1 := w') in * end.
      assert (Hok1 : ok w1 = true).
      { destruct (ok w1) eqn:E; auto. simpl in Hok. congruence. }
      rewrite Hok1 in Hok. simpl in Hok.
      assert (L1 : length (w_gs w1) = length T).
      { rewrite <- L0. unfold w1. destruct (_ =? _); [apply (proj2 (eval_node_below ev g i (emit [11; Z.of_nat g; Z.of_nat i; g_now (gat g w0)] w0) Hev))|].
        destruct (_ <? _); auto. destruct (_ <? _); auto. apply upd_g_len. }
      assert (G1 : Cov T w1 /\ Quiet (S g) w1 /\ g_evaluating (gat g w1) = true /\ forall j, (j < S i)%nat -> covered g j w1).
      { unfold w1 in *. clear Hok.
        destruct (slot_at i (gat g w0) =? g_now (gat g w0)) eqn:Eeq.
        - set (we := emit [11; Z.of_nat g; Z.of_nat i; g_now (gat g w0)] w0) in *.
          destruct (eval_node_good ev g i we Hev C0 Q0 L0 Hok1) as [C1 Q1].
          assert (B := proj1 (eval_node_below ev g i we Hev) g ltac:(lia)).
          destruct B as (_ & _ & Bev & Bc).
          split; [exact C1|split; [exact Q1|split; [rewrite Bev; exact Ev0|]]].
          intros j Hj. apply Bc. destruct (Nat.eq_dec j i) as [->|Hn].
          + unfold covered. change (gat g we) with (gat g w0). lia.
          + apply Hc0. lia.
        - destruct (g_now (gat g w0) <? slot_at i (gat g w0)) eqn:Elt.
          + destruct (slot_at i (gat g w0) <? g_nst (gat g w0)) eqn:Ec.
            * assert (K : Keep w0 (upd_g g (g_set_nst (slot_at i (gat g w0))) w0)) by (apply Keep_upd_g; intros; apply keep_set_nst).
              assert (V : Cv w0 (upd_g g (g_set_nst (slot_at i (gat g w0))) w0)) by (apply Cv_lower; lia).
              split; [eapply Cov_step; eauto|split; [eapply Quiet_Keep; eauto|split]].
              -- destruct K as [_ K]. rewrite (kg_evaluating _ _ (K g)). auto.
              -- intros j Hj. destruct (Nat.eq_dec j i) as [->|Hn]; [|apply V, Hc0; lia].
                 unfold covered. destruct (gat_upd_cases g (g_set_nst (slot_at i (gat g w0))) w0) as [E|[E E']]; rewrite E; simpl.
                 ++ unfold slot_at; simpl. lia.
                 ++ unfold slot_at, dflt_g; simpl. destruct i; simpl; unfold MIN_DT, MAX_DT; lia.
            * split; [exact C0|split; [exact Q0|split; [exact Ev0|]]].
              intros j Hj. destruct (Nat.eq_dec j i) as [->|Hn]; [|apply Hc0; lia].
              unfold covered. lia.
          + split; [exact C0|split; [exact Q0|split; [exact Ev0|]]].
            intros j Hj. destruct (Nat.eq_dec j i) as [->|Hn]; [|apply Hc0; lia].
            unfold covered. lia. }
      destruct G1 as (C1 & Q1 & Ev1 & Hc1).
      destruct (IH (S i) w1 C1 Q1 L1 Ev1 Hc1 Hok) as (A & B & D). rewrite Hok1. cbn [negb].
      split; [exact A|split; [exact B|]].
      intros j Hj. apply D. lia.
  Qed.

  Lemma idle_ok_evaluating g w : g_evaluating (gat g w) = true -> idle_ok T g w.
  Proof. intros H E. congruence. Qed.

  Lemma Quiet_upd_g c f w b : (b <= c)%nat -> (forall a, (b <= a)%nat -> a <> c -> g_evaluating (gat a w) = false) ->
    g_evaluating (gat c (upd_g c f w)) = false -> Quiet b (upd_g c f w).
  Proof.
    intros Hb Q E a Ha. destruct (Nat.eq_dec a c) as [->|Hn]; auto. rewrite gat_upd_other; auto.
  Qed.

  Lemma eval_graph_good rr : forall f, ev_good T (eval_graph f T beh rr).
  Proof.
    induction f as [|f IH]; intros c t w.
    - simpl. split; [intros a _; repeat split; auto|]. split; [reflexivity|]. intros _ _ H. unfold ok in H. simpl in H. discriminate.
    - cbn [eval_graph]. cbv zeta.
      set (F := fun s : gst => g_set_flags (g_started s) true false (g_set_now t s)).
      set (G := fun s : gst => g_set_cursor 0 (g_set_nst MAX_DT s)).
      set (w0 := upd_g c F w).
      set (res := (if rr then negb (g_failed (gat c w)) else true) && negb (g_cursor (gat c w) =? 0) && negb (g_cursor (gat c w) =? -1)).
      set (w1 := if res then w0 else emit [10; Z.of_nat c; t] (upd_g c G w0)).
      set (n := length (gc_nodes (gcfg_at T c))).
      set (st := Z.to_nat (g_cursor (gat c w1))).
      set (w2 := scan T beh (eval_graph f T beh rr) c st (n - st) w1).
      assert (B1 : Below c w w1 /\ length (w_gs w1) = length (w_gs w)).
      { unfold w1, w0. destruct res.
        - split; [apply Below_upd_g; lia|apply upd_g_len].
        - split; [|simpl; rewrite !update_length; auto].
          apply (Below_trans c w (upd_g c F w)); [apply Below_upd_g; lia|]. intros a Ha. rewrite gat_emit.
          rewrite gat_upd_other by lia. split; [reflexivity|split; [reflexivity|split; [reflexivity|]]].
          intros j H. apply Cv_emit. apply covered_upd_other; [lia|exact H]. }
      destruct (scan_below (eval_graph f T beh rr) c IH (n - st) st w1) as [B2 L2]. fold w2 in B2, L2.
      destruct B1 as [B1 L1].
      assert (B12 : Below c w w2) by (eapply Below_trans; [exact B1|eapply Below_weaken; [|exact B2]; lia]).
      split; [|split].
      + destruct (negb (ok w2)).
        * eapply Below_trans; [exact B12|apply Below_upd_g; lia].
        * eapply Below_trans; [exact B12|]. apply (Below_trans c w2 (upd_g c (g_set_cursor 0) w2)); [apply Below_upd_g; lia|].
          eapply Below_trans; [|apply Below_upd_g; lia].
          destruct (gc_parent (gcfg_at T c)) as [[pg pn]|]; [|apply Below_refl].
          destruct (_ <? _); [|apply Below_refl]. apply Below_KeepCv; [apply Keep_sched_at|apply Cv_sched_at].
      + destruct (negb (ok w2)); [rewrite upd_g_len; congruence|].
        rewrite upd_g_len.
        destruct (gc_parent (gcfg_at T c)) as [[pg pn]|]; [|rewrite upd_g_len; congruence].
        destruct (_ <? _); [|rewrite upd_g_len; congruence].
        destruct (Keep_sched_at (length T) T pg pn (g_nst (gat c (upd_g c (g_set_cursor 0) w2))) (upd_g c (g_set_cursor 0) w2)) as [K _].
        rewrite K, upd_g_len. congruence.
      + intros (C & Q & L) Hc Hok.
        assert (Lc : (c < length (w_gs w))%nat) by lia.
        assert (E : g_evaluating (gat c w) = false) by (apply Q; lia).
        destruct (C c E) as [A _].
        assert (Hres : res = false).
        { unfold res. destruct A as [-> | ->]; simpl; [rewrite andb_false_r|]; auto. rewrite andb_false_r. auto. }
        assert (E0 : gat c w0 = F (gat c w)) by (unfold w0; apply gat_upd_same; auto).
        assert (L0 : length (w_gs w0) = length (w_gs w)) by apply upd_g_len.
        assert (E1 : gat c w1 = G (F (gat c w))).
        { unfold w1. rewrite Hres. rewrite gat_emit. rewrite gat_upd_same by lia. rewrite E0. reflexivity. }
        assert (Ev1 : g_evaluating (gat c w1) = true) by (rewrite E1; reflexivity).
        assert (Hst : st = 0%nat) by (unfold st; rewrite E1; reflexivity).
        assert (C1 : Cov T w1).
        { unfold w1. rewrite Hres. intros g. destruct (Nat.eq_dec g c) as [->|Hn].
          - apply idle_ok_evaluating. fold w1 in Ev1. unfold w1 in Ev1. rewrite Hres in Ev1. exact Ev1.
          - change (idle_ok T g (upd_g c G w0)). apply idle_ok_upd_other; [auto|]. unfold w0. apply idle_ok_upd_other; auto. }
        assert (Q1 : Quiet (S c) w1).
        { intros a Ha. unfold w1. rewrite Hres, gat_emit. unfold w0. rewrite !gat_upd_other by lia. apply Q. lia. }
        assert (Hok2 : ok w2 = true).
        { destruct (ok w2) eqn:E2; auto. simpl in Hok. unfold ok in Hok, E2. rewrite upd_g_err in Hok. congruence. }
        unfold w2 in Hok2. rewrite Hst, Nat.sub_0_r in Hok2.
        destruct (scan_good (eval_graph f T beh rr) c IH n 0 w1 C1 Q1 ltac:(lia) Ev1 ltac:(intros; lia) Hok2) as (C2 & Q2 & Hc2).
        assert (Ew2 : w2 = scan T beh (eval_graph f T beh rr) c 0 n w1) by (unfold w2; rewrite Hst, Nat.sub_0_r; reflexivity).
        rewrite <- Ew2 in C2, Q2, Hc2, Hok2. rewrite Hok2. cbn [negb].
        assert (Ev2 : g_evaluating (gat c w2) = true).
        { destruct (B2 c ltac:(lia)) as (_ & _ & Ev & _). rewrite Ev. exact Ev1. }
        set (w3 := upd_g c (g_set_cursor 0) w2).
        assert (Lw2 : (c < length (w_gs w2))%nat) by lia.
        assert (E3 : gat c w3 = g_set_cursor 0 (gat c w2)) by (apply gat_upd_same; auto).
        assert (C3 : Cov T w3).
        { apply Cov_upd_g; auto. apply idle_ok_evaluating. fold w3. rewrite E3. exact Ev2. }
        assert (Q3 : Quiet (S c) w3) by (intros a Ha; unfold w3; rewrite gat_upd_other by lia; apply Q2; auto).
        assert (Hc3 : forall j, (j < n)%nat -> covered c j w3).
        { intros j Hj. apply (Cv_upd_g_proj c (g_set_cursor 0) w2); [intros; repeat split|]. apply Hc2. lia. }
        match goal with |- Good T c (upd_g c ?hh ?w4') => set (w4 := w4'); set (H2 := hh) end.
        assert (K4 : Keep w3 w4 /\ Cv w3 w4).
        { unfold w4. destruct (gc_parent (gcfg_at T c)) as [[pg pn]|]; [|split; [apply Keep_refl|apply Cv_refl]].
          destruct (_ <? _); [|split; [apply Keep_refl|apply Cv_refl]]. split; [apply Keep_sched_at|apply Cv_sched_at]. }
        destruct K4 as [K4 V4].
        assert (L4 : (c < length (w_gs w4))%nat) by (destruct K4 as [K4 _]; unfold w3 in K4; rewrite upd_g_len in K4; lia).
        assert (E5 : gat c (upd_g c H2 w4) = H2 (gat c w4)) by (apply gat_upd_same; auto).
        split; [|split].
        * apply Cov_upd_g; [eapply Cov_step; eauto|].
          intros _. rewrite E5. unfold H2. simpl. split.
          -- left. destruct K4 as [_ K4]. rewrite (kg_cursor _ _ (K4 c)). rewrite E3. reflexivity.
          -- intros _ j Hj _. apply (Cv_upd_g_proj c H2 w4); [intros; repeat split|]. apply V4, Hc3, Hj.
        * apply Quiet_upd_g; [lia| |rewrite E5; reflexivity].
          intros a Ha Hn. destruct K4 as [_ K4]. rewrite (kg_evaluating _ _ (K4 a)). apply Q3. lia.
        * rewrite upd_g_len. destruct K4 as [K4 _]. rewrite K4. unfold w3. rewrite upd_g_len. lia.
  Qed.
End INV.

(* ------------------------------------------------------------------ the start phase *)
(* lifecycle flags and cursor unchanged (clocks may move) *)
Definition KeepF (w w' : world) : Prop :=
  forall g, g_started (gat g w') = g_started (gat g w) /\ g_evaluating (gat g w') = g_evaluating (gat g w)
            /\ g_cursor (gat g w') = g_cursor (gat g w) /\ length (g_slots (gat g w')) = length (g_slots (gat g w)).

Lemma Keep_KeepF w w' : Keep w w' -> KeepF w w'.
Proof. intros [_ K] g. specialize (K g). repeat split; apply K. Qed.

Lemma Cov_stepF T w w' : KeepF w w' -> Cv w w' -> Cov T w -> Cov T w'.
Proof.
  intros K C H g E. destruct (K g) as (K1 & K2 & K3 & K4). rewrite K2 in E.
  destruct (H g E) as [A B]. split; [rewrite K3; auto|]. intros S j Hj Hs. rewrite K1 in S. rewrite K4 in Hs. apply C, B; auto.
Qed.

(* moving a clock forward keeps every slot covered (fewer slots are armed) *)
Lemma Cv_set_now c t w : now_of c w <= t -> Cv w (upd_g c (g_set_now t) w).
Proof.
  intros Ht g j. unfold covered, now_of in *.
  destruct (Nat.eq_dec c g) as [->|Hn]; [|rewrite gat_upd_other; auto].
  destruct (gat_upd_cases g (g_set_now t) w) as [E|[E E']]; rewrite E.
  - simpl. unfold slot_at; simpl. lia.
  - rewrite E'. auto.
Qed.

Lemma KeepF_set_now c t w : KeepF w (upd_g c (g_set_now t) w).
Proof.
  intros g. rewrite (gat_upd_proj g_started), (gat_upd_proj g_evaluating), (gat_upd_proj g_cursor),
    (gat_upd_proj g_slots); auto.
Qed.

Lemma seed_covers s j :
  (j < length (g_slots s))%nat -> g_now s <= slot_at j s -> g_nst (seed_cache s) <= slot_at j s.
Proof.
  unfold seed_cache, slot_at; simpl. intros Hj Hn.
  assert (G : forall l acc x, In x l -> g_now s <= x ->
            fold_left (fun acc sc => if (g_now s <=? sc) && (sc <? acc) then sc else acc) l acc <= x).
  { assert (M : forall l acc, fold_left (fun acc sc => if (g_now s <=? sc) && (sc <? acc) then sc else acc) l acc <= acc).
    { induction l as [|y r IH]; intros acc; simpl; [lia|]. specialize (IH (if (g_now s <=? y) && (y <? acc) then y else acc)).
      destruct (_ && _) eqn:E; lia. }
    induction l as [|y r IH]; intros acc x Hin Hx; simpl in *; [tauto|].
    destruct Hin as [->|Hin]; [|apply IH; auto].
    specialize (M r (if (g_now s <=? x) && (x <? acc) then x else acc)). destruct (_ && _) eqn:E; lia. }
  apply G; auto. apply nth_In; auto.
Qed.

Definition st_good (T : tcfg) (sc : nat -> Z -> world -> world) : Prop :=
  forall c t w, Below c w (sc c t w) /\ length (w_gs (sc c t w)) = length (w_gs w)
    /\ (Good T c w -> clocks_ok T w -> now_of c w <= t ->
        (forall pg pn, gc_parent (gcfg_at T c) = Some (pg, pn) -> t <= now_of pg w) ->
        (c < length T)%nat -> ok (sc c t w) = true ->
        Good T c (sc c t w)).

Section START_INV.
  Variable T : tcfg.
  Variable beh : behaviour.
  Hypothesis HT : wf_tree T.

  Lemma start_node_frame sc g i w : st_good T sc ->
    Below (S g) w (start_node T beh sc g i w) /\ length (w_gs (start_node T beh sc g i w)) = length (w_gs w).
  Proof.
    intros Hs. unfold start_node. destruct (negb (ok w)); [split; [apply Below_refl|auto]|].
    destruct (is_nested _) eqn:E.
    - destruct (Hs (c_child (ncfg_at T g i)) (now_of g w) w) as (B & L & _).
      assert (B' : Below (S g) w (sc (c_child (ncfg_at T g i)) (now_of g w) w))
        by (eapply Below_weaken; [|exact B]; pose proof (child_gt T HT _ _ E); lia).
      destruct (negb (ok _)); [split; auto|].
      match goal with |- Below _ w (if negb (ok ?w3) then _ else _) /\ _ =>
        assert (K3 : Keep (sc (c_child (ncfg_at T g i)) (now_of g w) w) w3 /\ Cv (sc (c_child (ncfg_at T g i)) (now_of g w) w) w3) end.
      { split; [eapply Keep_trans; [apply Keep_sampled_if|apply Keep_pull]|eapply Cv_trans; [apply Cv_sampled_if|apply Cv_pull]]. }
      destruct K3 as [K3 V3].
      destruct (negb (ok _)).
      + split; [eapply Below_trans; [exact B'|apply Below_KeepCv; auto]|destruct K3 as [K3 _]; congruence].
      + split.
        * eapply Below_trans; [exact B'|]. apply Below_KeepCv; [eapply Keep_trans; [exact K3|apply Keep_upd_node]|eapply Cv_trans; [exact V3|apply Cv_upd_node]].
        * destruct K3 as [K3 _]. unfold upd_node. rewrite upd_g_len. congruence.
    - assert (K := Keep_start_plain T beh g i w). split; [apply Below_KeepCv; [exact K|apply Cv_start_plain]|apply K].
  Qed.

  Lemma start_node_good sc g i w : st_good T sc -> ev_clocks T sc ->
    Cov T w -> Quiet (S g) w -> length (w_gs w) = length T -> clocks_ok T w -> ok (start_node T beh sc g i w) = true ->
    Cov T (start_node T beh sc g i w) /\ Quiet (S g) (start_node T beh sc g i w).
  Proof.
    intros Hs Hck C Q L CK Hok. unfold start_node in *. destruct (negb (ok w)); [auto|].
    destruct (is_nested _) eqn:E.
    - set (c := c_child (ncfg_at T g i)) in *.
      assert (Hc : (g < c)%nat) by apply (child_gt T HT _ _ E).
      destruct HT as (HP & HK & HR). assert (Hpar := HK _ _ E). fold c in Hpar.
      destruct (Hs c (now_of g w) w) as (B & L1 & H).
      set (w1 := sc c (now_of g w) w) in *.
      destruct (negb (ok w1)) eqn:E1; [unfold ok in *; destruct (w_err w1 =? 0); simpl in *; congruence|].
      assert (Hok1 : ok w1 = true) by (destruct (ok w1); simpl in *; congruence).
      assert (G1 : Good T c w1).
      { apply H; auto.
        - split; [auto|split; auto]. intros a Ha. apply Q. lia.
        - apply (CK _ _ _ Hpar).
        - intros pg pn Hp. rewrite Hpar in Hp. inversion Hp; subst. lia.
        - eapply has_parent_in_range; eauto. }
      destruct G1 as (C1 & Q1 & _).
      match type of Hok with ok (if negb (ok ?ww) then _ else _) = true => set (w3 := ww) in * end.
      assert (K3 : Keep w1 w3) by (eapply Keep_trans; [apply Keep_sampled_if|apply Keep_pull]).
      assert (V3 : Cv w1 w3) by (eapply Cv_trans; [apply Cv_sampled_if|apply Cv_pull]).
      assert (Q3 : Quiet (S g) w3).
      { eapply Quiet_Keep; eauto. intros a Ha. destruct (le_lt_dec c a); [apply Q1; auto|].
        destruct (B a l) as (_ & _ & Ev & _). rewrite Ev. apply Q; lia. }
      assert (C3 : Cov T w3) by (eapply Cov_step; eauto).
      destruct (negb (ok w3)); [auto|].
      split; [eapply Cov_step; [apply Keep_upd_node|apply Cv_upd_node|auto]|eapply Quiet_Keep; [apply Keep_upd_node|auto]].
    - assert (K := Keep_start_plain T beh g i w).
      split; [eapply Cov_step; eauto; apply Cv_start_plain|eapply Quiet_Keep; eauto].
  Qed.

  Lemma start_nodes_err sc g : forall k i w, ok w = false -> start_nodes T beh sc g i k w = w.
  Proof.
    induction k as [|k IH]; intros i w H; simpl; auto.
    assert (E : start_node T beh sc g i w = w) by (unfold start_node; rewrite H; reflexivity).
    rewrite E. apply IH; auto.
  Qed.

  Lemma start_nodes_frame sc g : st_good T sc -> forall k i w,
    Below (S g) w (start_nodes T beh sc g i k w) /\ length (w_gs (start_nodes T beh sc g i k w)) = length (w_gs w).
  Proof.
    intros Hs. induction k as [|k IH]; intros i w; simpl; [split; [apply Below_refl|auto]|].
    destruct (start_node_frame sc g i w Hs) as [B L]. destruct (IH (S i) (start_node T beh sc g i w)) as [B2 L2].
    split; [eapply Below_trans; eauto|congruence].
  Qed.

  Lemma start_nodes_good sc g : st_good T sc -> ev_clocks T sc -> forall k i w,
    Cov T w -> Quiet (S g) w -> length (w_gs w) = length T -> clocks_ok T w ->
    ok (start_nodes T beh sc g i k w) = true ->
    Cov T (start_nodes T beh sc g i k w) /\ Quiet (S g) (start_nodes T beh sc g i k w).
  Proof.
    intros Hs Hck. induction k as [|k IH]; intros i w C Q L CK Hok; simpl in *; auto.
    set (w1 := start_node T beh sc g i w) in *.
    assert (Hok1 : ok w1 = true).
    { destruct (ok w1) eqn:E; auto. rewrite start_nodes_err in Hok; auto. congruence. }
    destruct (start_node_good sc g i w Hs Hck C Q L CK Hok1) as [C1 Q1].
    apply IH; auto.
    - unfold w1. rewrite (proj2 (start_node_frame sc g i w Hs)). auto.
    - apply (clocks_start_node T beh HT sc g i w Hck CK).
  Qed.

  Lemma start_graph_good : forall f, st_good T (start_graph f T beh).
  Proof.
    induction f as [|f IH]; intros c t w.
    - simpl. split; [intros a _; repeat split; auto|]. split; [reflexivity|]. intros _ _ _ _ _ H. unfold ok in H; simpl in H; discriminate.
    - cbn [start_graph]. cbv zeta.
      set (w0 := upd_g c (g_set_now t) w).
      set (n := length (gc_nodes (gcfg_at T c))).
      set (w1 := start_nodes T beh (start_graph f T beh) c 0 n w0).
      destruct (start_nodes_frame (start_graph f T beh) c IH n 0 w0) as [B1 L1]. fold w1 in B1, L1.
      assert (B0 : Below c w w0) by (apply Below_upd_g; lia).
      assert (L0 : length (w_gs w0) = length (w_gs w)) by apply upd_g_len.
      assert (B01 : Below c w w1) by (eapply Below_trans; [exact B0|eapply Below_weaken; [|exact B1]; lia]).
      split; [|split].
      + destruct (negb (ok w1)); auto. eapply Below_trans; [exact B01|apply Below_upd_g; lia].
      + destruct (negb (ok w1)); [congruence|]. rewrite upd_g_len. congruence.
      + intros (C & Q & L) CK Hn Hp Hc Hok.
        assert (Hok1 : ok w1 = true).
        { destruct (ok w1) eqn:E; auto. simpl in Hok. congruence. }
        rewrite Hok1 in *. cbn [negb] in *.
        assert (C0 : Cov T w0) by (eapply Cov_stepF; [apply KeepF_set_now|apply Cv_set_now; auto|auto]).
        assert (Q0 : Quiet c w0) by (intros a Ha; unfold w0; rewrite (gat_upd_proj g_evaluating); auto).
        assert (CK0 : clocks_ok T w0).
        { destruct HT as (HP & _). apply clocks_upd_now with (t := t); auto. }
        destruct (start_nodes_good (start_graph f T beh) c IH (clocks_start_graph T beh HT f) n 0 w0 C0
                    ltac:(intros a Ha; apply Q0; lia) ltac:(lia) CK0 Hok1) as [C1 Q1].
        fold w1 in C1, Q1.
        assert (Ev1 : g_evaluating (gat c w1) = false).
        { destruct (B1 c ltac:(lia)) as (_ & _ & Ev & _). rewrite Ev. apply Q0. lia. }
        assert (Lc1 : (c < length (w_gs w1))%nat) by lia.
        match goal with |- Good T c (upd_g c ?hh w1) => set (H2 := hh) end.
        assert (E2 : gat c (upd_g c H2 w1) = H2 (gat c w1)) by (apply gat_upd_same; auto).
        split; [|split].
        * apply Cov_upd_g; auto. intros _. rewrite E2. destruct (C1 c Ev1) as [A _]. split; [exact A|].
          intros _ j _ Hj. unfold covered. rewrite E2. unfold H2. simpl.
          change (slot_at j (g_set_flags true (g_evaluating (gat c w1)) (g_failed (gat c w1)) (seed_cache (gat c w1))))
            with (slot_at j (gat c w1)).
          intros Hlt. apply seed_covers; [exact Hj|lia].
        * apply Quiet_upd_g; [lia| |rewrite E2; exact Ev1].
          intros a Ha Hne. apply Q1. lia.
        * rewrite upd_g_len. lia.
  Qed.
End START_INV.

(* ------------------------------------------------------------------ the whole run *)
Section RUN_INV.
  Variable T : tcfg.
  Variable beh : behaviour.
  Variable rr : bool.
  Hypothesis HT : wf_tree T.
  Hypothesis HN : no_try T.
  Hypothesis HL : (0 < length T)%nat.

  Lemma init_good : Good T 0 (init_world T).
  Proof.
    split; [|split].
    - intros g E. rewrite gat_init. simpl. split; [right; reflexivity|]. intros H; discriminate.
    - intros a _. rewrite gat_init. reflexivity.
    - unfold init_world; simpl. apply map_length.
  Qed.

  Lemma run_loop_good end_ : end_ <= MAX_DT -> forall fuel w,
    Good T 0 w -> run_inv T w -> ok (run_loop T beh rr end_ fuel w) = true ->
    Good T 0 (run_loop T beh rr end_ fuel w).
  Proof.
    intros He. induction fuel as [|fuel IH]; intros w G R Hok; cbn [run_loop] in *.
    - unfold ok in Hok; simpl in Hok; discriminate.
    - destruct (negb (ok w)); auto.
      destruct ((g_nst (gat 0 w) =? MAX_DT) || (end_ <=? g_nst (gat 0 w))) eqn:E; auto.
      set (w' := eval_graph (S (length T)) T beh rr 0 (g_nst (gat 0 w)) w) in *.
      assert (Hok' : ok w' = true).
      { destruct (ok w') eqn:E'; auto. destruct fuel; cbn [run_loop] in Hok; [unfold ok in Hok; simpl in Hok; discriminate|].
        rewrite E' in Hok. simpl in Hok. congruence. }
      apply IH; auto.
      + apply (eval_graph_good T beh HT HN rr (S (length T)) 0%nat (g_nst (gat 0 w)) w); auto.
      + destruct R as [C R]. destruct HT as (HP & HK & HR). split.
        * apply (clocks_eval_graph T beh HT rr (S (length T))); [exact C|exact R|intros pg pn Hp; congruence].
        * apply (root_cache_eval_graph T beh HT rr); auto. intros _. split; lia.
  Qed.

  (* THE WHOLE-RUN INVARIANT: in every state the simulation loop reaches without an error - after start and
     after every root cycle - for every program without try_except and every user code: every idle started
     graph, at every depth, has its cursor at rest and its cached next time <= every armed slot inside it *)
  Lemma run_sim_good start end_ fuel : 0 <= start <= MAX_DT -> end_ <= MAX_DT ->
    ok (run_sim T beh rr start end_ fuel) = true -> Good T 0 (run_sim T beh rr start end_ fuel).
  Proof.
    intros Hs He Hok. unfold run_sim in *.
    set (w0 := start_graph (S (length T)) T beh 0 start (init_world T)) in *.
    assert (R0 : run_inv T w0) by (apply start_run_inv; auto).
    assert (Hok0 : ok w0 = true).
    { destruct (ok w0) eqn:E; auto. destruct fuel; cbn [run_loop] in Hok; [unfold ok in Hok; simpl in Hok; discriminate|].
      rewrite E in Hok. simpl in Hok. congruence. }
    apply run_loop_good; auto.
    destruct (init_run_inv T) as [CI _]. destruct HT as (HP & HK & HR).
    apply (start_graph_good T beh HT (S (length T)) 0%nat start (init_world T)); auto.
    - apply init_good.
    - unfold now_of. rewrite gat_init. simpl. unfold MIN_DT. lia.
    - intros pg pn Hp. congruence.
  Qed.
End RUN_INV.

(* ------------------------------------------------------------------ no child wake-up lost *)
(* the owners of graph c, up to the root, are armed and due no later than what they own: each owner slot
   is armed in its graph and <= the cached next time of the child it owns.  This is what the push and the
   pull establish (NestedFacts.push_arms_owner / pull_arms_owner). *)
Fixpoint owners_due (d : nat) (T : tcfg) (c : nat) (w : world) : Prop :=
  match gc_parent (gcfg_at T c) with
  | None => c = 0%nat
  | Some (pg, pn) =>
      match d with
      | O => False
      | S d' =>
          g_started (gat pg w) = true
          /\ (pn < length (gc_nodes (gcfg_at T pg)))%nat /\ (pn < length (g_slots (gat pg w)))%nat
          /\ g_now (gat pg w) < slot_at pn (gat pg w) <= g_nst (gat c w)
          /\ owners_due d' T pg w
      end
  end.

Lemma root_next_le_child_slot T : forall d c j w,
  Cov T w -> Quiet 0 w -> g_started (gat c w) = true ->
  (j < length (gc_nodes (gcfg_at T c)))%nat -> (j < length (g_slots (gat c w)))%nat ->
  g_now (gat c w) < slot_at j (gat c w) ->
  owners_due d T c w ->
  g_nst (gat 0 w) <= slot_at j (gat c w).
Proof.
  induction d as [|d IH]; intros c j w C Q S Hj Hs Harm Ho; simpl in Ho;
    assert (Hc : g_nst (gat c w) <= slot_at j (gat c w))
      by (destruct (C c (Q c ltac:(lia))) as [_ B]; apply (B S j Hj Hs Harm)).
  - destruct (gc_parent (gcfg_at T c)) as [[pg pn]|]; [tauto|]. subst c. exact Hc.
  - destruct (gc_parent (gcfg_at T c)) as [[pg pn]|]; [|subst c; exact Hc].
    destruct Ho as (Sp & Hn & Hns & [Ha Hd] & Ho).
    specialize (IH pg pn w C Q Sp Hn Hns Ha Ho). lia.
Qed.

(* ---- non-vacuity material ---- *)
Lemma wf_nest2 : wf_tree (decode nest2_case).
Proof.
  repeat split.
  - intros g pg pn. destruct g as [|[|[|[|g]]]]; vm_compute; intros H; try discriminate; inversion H; subst; lia.
  - intros g i. destruct g as [|[|[|[|g]]]]; destruct i as [|[|[|[|[|[|i]]]]]]; vm_compute; intros H; try discriminate; reflexivity.
Qed.

Lemma no_try_nest2 : no_try (decode nest2_case).
Proof.
  intros g i. destruct g as [|[|[|[|g]]]]; destruct i as [|[|[|[|[|[|i]]]]]]; vm_compute; split; intros H; discriminate.
Qed.
