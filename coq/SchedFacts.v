(* SchedFacts.v — lemmas and theorems about the scheduler model (Sched.v). *)
Require Import Base Sched.
From Coq Require Import Sorted ZifyBool.

Definition ev_lt (a b : ev) : Prop := fst a < fst b \/ (fst a = fst b /\ snd a < snd b).

Lemma ev_ltb_spec a b : ev_ltb a b = true <-> ev_lt a b.
Proof. unfold ev_ltb, ev_lt. lia. Qed.

Lemma ev_eqb_spec a b : ev_eqb a b = true <-> a = b.
Proof.
  unfold ev_eqb. destruct a as [a1 a2], b as [b1 b2]; simpl. split.
  - intros H. f_equal; lia.
  - intros H; inversion H; subst. lia.
Qed.

Lemma ev_lt_trans a b c : ev_lt a b -> ev_lt b c -> ev_lt a c.
Proof. unfold ev_lt; lia. Qed.

Lemma ev_lt_irrefl a : ~ ev_lt a a.
Proof. unfold ev_lt; lia. Qed.

Lemma ev_trichotomy a b : ev_lt a b \/ a = b \/ ev_lt b a.
Proof.
  destruct a as [a1 a2], b as [b1 b2]; unfold ev_lt; simpl.
  destruct (Z.lt_trichotomy a1 b1) as [?|[?|?]]; try lia.
  destruct (Z.lt_trichotomy a2 b2) as [?|[?|?]]; try lia.
  subst; auto.
Qed.

Notation Sorted := (StronglySorted ev_lt).

Lemma sorted_inv x l : Sorted (x :: l) -> Sorted l /\ Forall (ev_lt x) l.
Proof. intros H; inversion H; auto. Qed.

(* ---- ins ---- *)
Lemma In_ins x e l : In x (ins e l) <-> x = e \/ In x l.
Proof.
  induction l as [|y r IH]; simpl.
  - intuition.
  - destruct (ev_ltb e y) eqn:E1; simpl; [intuition|].
    destruct (ev_eqb e y) eqn:E2; simpl.
    + apply ev_eqb_spec in E2; subst. intuition.
    + rewrite IH. intuition.
Qed.

Lemma sorted_ins e l : Sorted l -> Sorted (ins e l).
Proof.
  induction l as [|y r IH]; simpl; intros H.
  - constructor; auto.
  - destruct (sorted_inv _ _ H) as [Hr Hy].
    destruct (ev_ltb e y) eqn:E1.
    + apply ev_ltb_spec in E1. constructor; auto. constructor; auto.
      eapply Forall_impl; [|exact Hy]. intros z Hz. eapply ev_lt_trans; eauto.
    + destruct (ev_eqb e y) eqn:E2; auto.
      constructor; auto.
      apply Forall_forall. intros z Hz. apply In_ins in Hz. destruct Hz as [->|Hz].
      * destruct (ev_trichotomy e y) as [C|[C|C]]; auto.
        -- apply ev_ltb_spec in C; congruence.
        -- apply ev_eqb_spec in C; congruence.
      * rewrite Forall_forall in Hy; auto.
Qed.

Lemma first_time_ins_le d e l : Sorted l -> first_time d (ins e l) = Z.min (fst e) (first_time (fst e) l).
Proof.
  destruct l as [|y r]; simpl; intros H; [lia|].
  destruct (ev_ltb e y) eqn:E1; simpl.
  - apply ev_ltb_spec in E1. unfold ev_lt in E1. lia.
  - destruct (ev_eqb e y) eqn:E2; simpl.
    + apply ev_eqb_spec in E2; subst; lia.
    + destruct (ev_trichotomy e y) as [C|[C|C]].
      * apply ev_ltb_spec in C; congruence.
      * apply ev_eqb_spec in C; congruence.
      * unfold ev_lt in C; lia.
Qed.

(* ---- del ---- *)
Lemma sorted_not_in x l : Sorted (x :: l) -> ~ In x l.
Proof.
  intros H Hin. destruct (sorted_inv _ _ H) as [_ Hx]. rewrite Forall_forall in Hx.
  apply (ev_lt_irrefl x); auto.
Qed.

Lemma In_del x e l : Sorted l -> (In x (del e l) <-> In x l /\ x <> e).
Proof.
  induction l as [|y r IH]; simpl; intros H.
  - intuition.
  - destruct (sorted_inv _ _ H) as [Hr Hy].
    destruct (ev_eqb e y) eqn:E.
    + apply ev_eqb_spec in E; subst y. split.
      * intros Hin. split; auto. intros ->. eapply sorted_not_in; eauto.
      * intros [[->|Hin] Hne]; [congruence|auto].
    + assert (e <> y) by (intros ->; assert (ev_eqb y y = true) by (apply ev_eqb_spec; auto); congruence).
      simpl. rewrite IH by auto. intuition congruence.
Qed.

Lemma del_subset x e l : In x (del e l) -> In x l.
Proof.
  induction l as [|y r IH]; simpl; auto.
  destruct (ev_eqb e y); simpl; intuition.
Qed.

Lemma sorted_del e l : Sorted l -> Sorted (del e l).
Proof.
  induction l as [|y r IH]; simpl; intros H; auto.
  destruct (sorted_inv _ _ H) as [Hr Hy].
  destruct (ev_eqb e y); auto.
  constructor; auto. apply Forall_forall. intros z Hz. apply del_subset in Hz.
  rewrite Forall_forall in Hy; auto.
Qed.

(* ---- tag maps ---- *)
Lemma tag_find_put t' t w m : tag_find t' (tag_put t w m) = if t =? t' then Some w else tag_find t' m.
Proof.
  induction m as [|[k v] r IH]; simpl.
  - reflexivity.
  - destruct (t <? k) eqn:E1; simpl.
    + reflexivity.
    + destruct (k =? t) eqn:E2; simpl.
      * assert (k = t) by lia; subst. destruct (t =? t') eqn:E3; auto.
      * rewrite IH. destruct (k =? t') eqn:E3; auto.
        assert (k = t') by lia; subst. destruct (t =? t') eqn:E4; auto. lia.
Qed.

Lemma tag_find_erase t' t m : tag_find t' (tag_erase t m) = if t =? t' then None else tag_find t' m.
Proof.
  induction m as [|[k v] r IH]; simpl.
  - destruct (t =? t'); auto.
  - destruct (k =? t) eqn:E1; simpl.
    + rewrite IH. destruct (t =? t') eqn:E2; auto.
      destruct (k =? t') eqn:E3; auto. lia.
    + rewrite IH. destruct (k =? t') eqn:E3; auto.
      destruct (t =? t') eqn:E2; auto. lia.
Qed.

(* ---- the invariant ---- *)
Definition Inv (s : sched) : Prop :=
  Sorted (events s) /\
  (forall t w, tag_find t (tags s) = Some w <-> (t <> 0 /\ In (w, t) (events s))).

Lemma inv_empty : Inv empty_sched.
Proof. split; simpl; [constructor|]. intros; split; [discriminate|tauto]. Qed.

(* a tag holds at most one pending time *)
Lemma inv_tag_unique s t w1 w2 :
  Inv s -> t <> 0 -> In (w1, t) (events s) -> In (w2, t) (events s) -> w1 = w2.
Proof.
  intros [_ H] Ht H1 H2.
  assert (A : tag_find t (tags s) = Some w1) by (apply H; auto).
  assert (B : tag_find t (tags s) = Some w2) by (apply H; auto).
  congruence.
Qed.

Lemma inv_schedule now started when tag s :
  Inv s -> Inv (fst (schedule now started when tag s)).
Proof.
  intros [Hs Ht]. unfold schedule.
  destruct (if started then when <=? now else when <? now); [split; auto|].
  destruct (tag =? 0) eqn:E0; simpl.
  - (* untagged *) assert (tag = 0) by lia; subst tag. split; simpl.
    + apply sorted_ins; auto.
    + intros t w. rewrite Ht, In_ins. split.
      * intros [A B]; auto.
      * intros [A [B|B]]; auto. inversion B; subst; congruence.
  - assert (Hne : tag <> 0) by lia.
    destruct (tag_find tag (tags s)) as [w0|] eqn:Ef; split; simpl.
    + apply sorted_ins, sorted_del; auto.
    + intros t w. rewrite tag_find_put, In_ins, In_del by auto.
      destruct (tag =? t) eqn:E1.
      * assert (t = tag) by lia; subst t. split.
        -- intros H; inversion H; subst. auto.
        -- intros [_ [H|[H Hd]]]; [inversion H; auto|].
           assert (A : tag_find tag (tags s) = Some w) by (apply Ht; auto).
           rewrite Ef in A; inversion A; subst. congruence.
      * rewrite Ht. split.
        -- intros [H1 H2]. split; auto. right. split; auto. intros C; inversion C; lia.
        -- intros [H1 [H2|[H2 _]]]; [inversion H2; lia|auto].
    + apply sorted_ins; auto.
    + intros t w. rewrite tag_find_put, In_ins.
      destruct (tag =? t) eqn:E1.
      * assert (t = tag) by lia; subst t. split.
        -- intros H; inversion H; subst. auto.
        -- intros [_ [H|H]]; [inversion H; auto|].
           assert (A : tag_find tag (tags s) = Some w) by (apply Ht; auto). congruence.
      * rewrite Ht. split.
        -- intros [H1 H2]; auto.
        -- intros [H1 [H2|H2]]; [inversion H2; lia|auto].
Qed.

Lemma inv_remove_tagged s t w :
  Inv s -> tag_find t (tags s) = Some w ->
  Inv (mkSched (del (w, t) (events s)) (tag_erase t (tags s))).
Proof.
  intros [Hs Ht] Ef. split; simpl.
  - apply sorted_del; auto.
  - intros t' w'. rewrite tag_find_erase, In_del by auto.
    destruct (t =? t') eqn:E.
    + assert (t' = t) by lia; subst t'. split; [discriminate|].
      intros [_ [Hin Hne]]. assert (A : tag_find t (tags s) = Some w') by (apply Ht; split; auto; apply Ht in Ef; tauto).
      congruence.
    + rewrite Ht. split.
      * intros [H1 H2]; repeat split; auto. intros C; inversion C; lia.
      * intros [H1 [H2 _]]; auto.
Qed.

Lemma inv_un_schedule_tag t s : Inv s -> Inv (un_schedule_tag t s).
Proof.
  intros H. unfold un_schedule_tag. destruct (tag_find t (tags s)) eqn:E; auto.
  apply inv_remove_tagged; auto.
Qed.

Lemma inv_pop_tag t d s : Inv s -> Inv (fst (pop_tag t d s)).
Proof.
  intros H. unfold pop_tag. destruct (tag_find t (tags s)) eqn:E; auto.
  apply inv_remove_tagged; auto.
Qed.

Lemma inv_drop_head e r tg :
  Inv (mkSched (e :: r) tg) -> Inv (mkSched r (if snd e =? 0 then tg else tag_erase (snd e) tg)).
Proof.
  intros [Hs Ht]; simpl in *. destruct (sorted_inv _ _ Hs) as [Hr He].
  split; simpl; auto.
  intros t w. destruct (snd e =? 0) eqn:E0.
  - rewrite Ht. split.
    + intros [H1 [H2|H2]]; auto. subst e; simpl in *; lia.
    + intros [H1 H2]; auto.
  - rewrite tag_find_erase. destruct (snd e =? t) eqn:E1.
    + split; [discriminate|]. intros [H1 H2]. exfalso.
      assert (A : tag_find t tg = Some w) by (apply Ht; auto).
      assert (B : tag_find t tg = Some (fst e)).
      { apply Ht. split; auto. left. destruct e; simpl in *. f_equal; lia. }
      assert (w = fst e) by congruence; subst w.
      rewrite Forall_forall in He. apply (ev_lt_irrefl e).
      replace e with (fst e, t) at 2 by (destruct e; simpl in *; f_equal; lia). auto.
    + rewrite Ht. split.
      * intros [H1 [H2|H2]]; auto. subst e; simpl in *; lia.
      * intros [H1 H2]; auto.
Qed.

Lemma tag_erase_zero_noop s : Inv s -> forall t, tag_find t (tag_erase 0 (tags s)) = tag_find t (tags s).
Proof.
  intros [_ Ht] t. rewrite tag_find_erase. destruct (0 =? t) eqn:E; auto.
  assert (t = 0) by lia; subst. destruct (tag_find 0 (tags s)) eqn:F; auto.
  apply Ht in F. lia.
Qed.

Lemma inv_un_schedule_first s : Inv s -> Inv (un_schedule_first s).
Proof.
  intros H. unfold un_schedule_first. destruct s as [evs tg]; simpl.
  destruct evs as [|e r]; auto.
  pose proof (inv_drop_head e r tg H) as H'.
  destruct (snd e =? 0) eqn:E0; auto.
  destruct H' as [Hs Ht]. split; simpl in *; auto.
  intros t w. rewrite <- Ht.
  pose proof (tag_erase_zero_noop _ H t) as Hz; simpl in Hz.
  replace (snd e) with 0 by lia. rewrite Hz. reflexivity.
Qed.

Lemma inv_reset s : Inv (reset s).
Proof. apply inv_empty. Qed.

Lemma inv_drop_due now evs tg :
  Inv (mkSched evs tg) -> Inv (mkSched (fst (drop_due now evs tg)) (snd (drop_due now evs tg))).
Proof.
  revert tg; induction evs as [|e r IH]; intros tg H; simpl; auto.
  destruct (fst e <=? now); simpl; auto.
  apply IH. apply inv_drop_head; auto.
Qed.

Lemma inv_advance now s : Inv s -> Inv (fst (advance now s)).
Proof.
  intros H. unfold advance. destruct s as [evs tg]; simpl.
  pose proof (inv_drop_due now evs tg H) as H'.
  destruct (drop_due now evs tg); auto.
Qed.

Lemma filter_all_id {A} (f : A -> bool) l : (forall x, In x l -> f x = true) -> filter f l = l.
Proof.
  induction l as [|x r IH]; simpl; intros H; auto.
  rewrite (H x) by auto. f_equal. apply IH. intros; apply H; auto.
Qed.

(* ---- what advance does to the pending set ---- *)
Lemma drop_due_events now evs tg :
  Sorted evs -> fst (drop_due now evs tg) = filter (fun e => now <? fst e) evs.
Proof.
  revert tg; induction evs as [|e r IH]; intros tg H; simpl; auto.
  destruct (sorted_inv _ _ H) as [Hr He].
  destruct (fst e <=? now) eqn:E.
  - replace (now <? fst e) with false by lia. apply IH; auto.
  - replace (now <? fst e) with true by lia. simpl. f_equal.
    symmetry. apply filter_all_id. intros x Hx.
    rewrite Forall_forall in He. specialize (He x Hx). unfold ev_lt in He. lia.
Qed.

Lemma advance_consumes_due_only now s :
  Inv s -> events (fst (advance now s)) = filter (fun e => now <? fst e) (events s).
Proof.
  intros [Hs _]. unfold advance. destruct s as [evs tg]; simpl in *.
  rewrite <- (drop_due_events now evs tg Hs). destruct (drop_due now evs tg); auto.
Qed.

(* ---- the pending set after schedule ---- *)
Lemma schedule_ignored now (started : bool) when tag s :
  (if started then when <= now else when < now) ->
  schedule now started when tag s = (s, None).
Proof.
  intros H. unfold schedule. destruct started.
  - replace (when <=? now) with true by lia. auto.
  - replace (when <? now) with true by lia. auto.
Qed.

Lemma schedule_pending now (started : bool) when tag s x :
  Inv s -> ~ (if started then when <= now else when < now) ->
  (In x (events (fst (schedule now started when tag s))) <->
   x = (when, tag) \/ (In x (events s) /\ (tag = 0 \/ snd x <> tag))).
Proof.
  intros [Hs Ht] Hacc. unfold schedule.
  replace (if started then when <=? now else when <? now) with false by (destruct started; lia).
  destruct (tag =? 0) eqn:E0; simpl.
  - rewrite In_ins. assert (tag = 0) by lia. intuition.
  - assert (tag <> 0) by lia.
    destruct (tag_find tag (tags s)) as [w0|] eqn:Ef; simpl.
    + rewrite In_ins, In_del by auto. split.
      * intros [->|[Hin Hne]]; auto. right. split; auto. right. intros C.
        destruct x as [xw xt]; simpl in *; subst xt.
        assert (A : tag_find tag (tags s) = Some xw) by (apply Ht; auto).
        congruence.
      * intros [->|[Hin [C|C]]]; [auto|lia|]. right; split; auto. intros ->; simpl in C; auto.
    + rewrite In_ins. split.
      * intros [->|Hin]; auto. right. split; auto. right. intros C.
        destruct x as [xw xt]; simpl in *; subst xt.
        assert (A : tag_find tag (tags s) = Some xw) by (apply Ht; auto).
        congruence.
      * intros [->|[Hin _]]; auto.
Qed.

(* the pushed time: reported exactly when the earliest pending time moved earlier *)
Lemma schedule_push now (started : bool) when tag s :
  Inv s -> ~ (if started then when <= now else when < now) ->
  snd (schedule now started when tag s) =
    let s' := fst (schedule now started when tag s) in
    let evs1 := if tag =? 0 then events s else
                 match tag_find tag (tags s) with Some w => del (w, tag) (events s) | None => events s end in
    if when <? first_time MAX_DT evs1 then Some when else None.
Proof.
  intros [Hs Ht] Hacc. unfold schedule.
  replace (if started then when <=? now else when <? now) with false by (destruct started; lia).
  cbn zeta. simpl snd.
  set (evs1 := if negb (tag =? 0) then _ else _).
  assert (E : evs1 = (if tag =? 0 then events s else
                 match tag_find tag (tags s) with Some w => del (w, tag) (events s) | None => events s end)).
  { unfold evs1. destruct (tag =? 0); auto. }
  rewrite <- E.
  assert (Hs1 : Sorted evs1).
  { rewrite E. destruct (tag =? 0); auto. destruct (tag_find tag (tags s)); auto. apply sorted_del; auto. }
  rewrite (first_time_ins_le MIN_DT (when, tag) evs1 Hs1). simpl fst.
  destruct evs1 as [|y r]; simpl.
  - unfold MAX_DT. destruct (when <? 10413792000000000) eqn:A; replace (Z.min when when) with when by lia; rewrite A; auto.
  - destruct (Z.min when (fst y) <? fst y) eqn:A; destruct (when <? fst y) eqn:B; auto; try lia.
    f_equal; lia.
Qed.

(* ===================== every reachable state ===================== *)
Lemma inv_sstep s o : Inv s -> Inv (sstep s o).
Proof.
  intros H. destruct o; simpl.
  - apply inv_schedule; auto.
  - apply inv_un_schedule_tag; auto.
  - apply inv_un_schedule_first; auto.
  - apply inv_pop_tag; auto.
  - apply inv_reset.
  - apply inv_advance; auto.
Qed.

Lemma fold_inv ops s : Inv s -> Inv (fold_left sstep ops s).
Proof. revert s; induction ops as [|o r IH]; simpl; intros s H; auto. apply IH, inv_sstep; auto. Qed.

Lemma reach_inv_gen ops : Inv (reach ops).
Proof. apply fold_inv, inv_empty. Qed.

Lemma reach_tag_unique ops t w1 w2 :
  t <> 0 -> In (w1, t) (events (reach ops)) -> In (w2, t) (events (reach ops)) -> w1 = w2.
Proof. intros. eapply inv_tag_unique; eauto. apply reach_inv_gen. Qed.

Lemma reach_schedule_pending ops now (started : bool) when tag x :
  ~ (if started then when <= now else when < now) ->
  (In x (events (fst (schedule now started when tag (reach ops)))) <->
   x = (when, tag) \/ (In x (events (reach ops)) /\ (tag = 0 \/ snd x <> tag))).
Proof. intros. apply schedule_pending; auto. apply reach_inv_gen. Qed.

Lemma reach_now_during_start ops now tag :
  In (now, tag) (events (fst (schedule now false now tag (reach ops)))).
Proof.
  apply schedule_pending; [apply reach_inv_gen | simpl; lia | auto].
Qed.

Lemma sorted_head_min e r x : Sorted (e :: r) -> In x (e :: r) -> fst e <= fst x.
Proof.
  intros H [->|Hin]; [lia|]. destruct (sorted_inv _ _ H) as [_ He].
  rewrite Forall_forall in He. specialize (He x Hin). unfold ev_lt in He. lia.
Qed.

Lemma queries_agree_inv s now t :
  Inv s ->
  (is_scheduled s = true <-> exists e, In e (events s)) /\
  (forall e, In e (events s) -> next_scheduled_time s <= fst e) /\
  (is_scheduled s = true -> exists tg, In (next_scheduled_time s, tg) (events s)) /\
  (is_scheduled s = false -> next_scheduled_time s = MIN_DT) /\
  (is_scheduled_now now s = true <-> (exists tg, In (now, tg) (events s)) /\ forall e, In e (events s) -> now <= fst e) /\
  (t <> 0 -> (has_tag t s = true <-> exists w, In (w, t) (events s))) /\
  (t <> 0 -> forall w, In (w, t) (events s) -> tag_time t MIN_DT s = w) /\
  (t <> 0 -> (tag_is_scheduled_now now t s = true <-> In (now, t) (events s))).
Proof.
  intros [Hs Ht]. unfold is_scheduled, next_scheduled_time, is_scheduled_now, has_tag, tag_time, tag_is_scheduled_now, has_tag, tag_time.
  destruct (events s) as [|e r] eqn:Ev; simpl.
  - split; [split; [discriminate|intros [? []]]|].
    split; [intros ? []|].
    split; [discriminate|].
    split; [reflexivity|].
    split; [split; [discriminate|intros [[? []] _]]|].
    assert (NF : t <> 0 -> tag_find t (tags s) = None).
    { intros Hne. destruct (tag_find t (tags s)) eqn:F; auto. apply Ht in F. destruct F as [_ []]. }
    split; [intros Hne; rewrite (NF Hne); split; [discriminate|intros [? []]]|].
    split; [intros Hne ? []|].
    intros Hne; rewrite (NF Hne); simpl; split; [discriminate|intros []].
  - split; [split; [eauto|auto]|].
    split; [intros x Hx; apply (sorted_head_min e r x Hs Hx)|].
    split; [intros _; exists (snd e); left; destruct e; auto|].
    split; [discriminate|].
    split.
    { split.
      - intros H. assert (fst e = now) by lia. split.
        + exists (snd e). left. destruct e; simpl in *; subst; auto.
        + intros x Hx. pose proof (sorted_head_min e r x Hs Hx). lia.
      - intros [[tg Hin] Hmin]. pose proof (sorted_head_min e r _ Hs Hin) as A. simpl in A.
        specialize (Hmin e (or_introl eq_refl)). lia. }
    split.
    { intros Hne. split.
      - intros H. destruct (tag_find t (tags s)) eqn:F; [|discriminate]. apply Ht in F. destruct F; eauto.
      - intros [w Hw]. assert (F : tag_find t (tags s) = Some w) by (apply Ht; auto). rewrite F; auto. }
    split.
    { intros Hne w Hw. assert (F : tag_find t (tags s) = Some w) by (apply Ht; auto). rewrite F; auto. }
    { intros Hne. split.
      - intros H. destruct (tag_find t (tags s)) eqn:F; simpl in H; [|discriminate].
        assert (z = now) by lia; subst. apply Ht in F. tauto.
      - intros Hw. assert (F : tag_find t (tags s) = Some now) by (apply Ht; auto). rewrite F; simpl. lia. }
Qed.

Lemma reach_queries_agree ops now t :
  let s := reach ops in
  (is_scheduled s = true <-> exists e, In e (events s)) /\
  (forall e, In e (events s) -> next_scheduled_time s <= fst e) /\
  (is_scheduled s = true -> exists tg, In (next_scheduled_time s, tg) (events s)) /\
  (is_scheduled s = false -> next_scheduled_time s = MIN_DT) /\
  (is_scheduled_now now s = true <-> (exists tg, In (now, tg) (events s)) /\ forall e, In e (events s) -> now <= fst e) /\
  (t <> 0 -> (has_tag t s = true <-> exists w, In (w, t) (events s))) /\
  (t <> 0 -> forall w, In (w, t) (events s) -> tag_time t MIN_DT s = w) /\
  (t <> 0 -> (tag_is_scheduled_now now t s = true <-> In (now, t) (events s))).
Proof. apply queries_agree_inv, reach_inv_gen. Qed.

Lemma reach_advance ops now :
  events (fst (advance now (reach ops))) = filter (fun e => now <? fst e) (events (reach ops)).
Proof. apply advance_consumes_due_only, reach_inv_gen. Qed.

Lemma push_is_new_earliest s now (started : bool) when tag :
  Inv s -> ~ (if started then when <= now else when < now) ->
  match snd (schedule now started when tag s) with
  | Some w => w = when /\ next_scheduled_time (fst (schedule now started when tag s)) = when
  | None => True
  end.
Proof.
  intros HI Hacc.
  rewrite (schedule_push now started when tag s HI Hacc). cbn zeta.
  set (evs1 := if tag =? 0 then _ else _).
  destruct (when <? first_time MAX_DT evs1) eqn:E; auto. split; auto.
  (* the new state's earliest event is the inserted one *)
  destruct HI as [Hs Ht]. unfold schedule.
  replace (if started then when <=? now else when <? now) with false by (destruct started; lia).
  simpl fst. unfold next_scheduled_time. simpl events.
  assert (Hs1 : Sorted evs1).
  { unfold evs1. destruct (tag =? 0); auto. destruct (tag_find tag (tags s)); auto. apply sorted_del; auto. }
  assert (E1 : (if negb (tag =? 0) then match tag_find tag (tags s) with Some w => del (w, tag) (events s) | None => events s end else events s) = evs1).
  { unfold evs1. destruct (tag =? 0); auto. }
  rewrite E1. rewrite (first_time_ins_le MIN_DT (when, tag) evs1 Hs1). simpl fst.
  destruct evs1 as [|y r]; simpl in *; lia.
Qed.

Lemma reach_push_is_new_earliest ops now (started : bool) when tag :
  ~ (if started then when <= now else when < now) ->
  let s := reach ops in
  let s' := fst (schedule now started when tag s) in
  match snd (schedule now started when tag s) with
  | Some w => w = when /\ next_scheduled_time s' = when
  | None => True
  end.
Proof. intros. apply push_is_new_earliest; auto. apply reach_inv_gen. Qed.
