(* ResolveMatchFacts.v — Part B of the facts about Resolve.v: the matchers.

   [extends m m']   : every binding of m is a binding of m' (bind never replaces).
   [sinst/tinst/iinst/oinst m p t] : the pattern p, read under the ONE substitution m,
       accepts t.  They are the matchers with the state threading removed: no map
       is produced, every variable is looked up in the same m.
   Soundness: a successful match returns an extension m' of its input map such that
   the pattern is an instance under m'.  Since one m' serves every position, each
   variable has one type across all positions. *)
Require Import Base Resolve.
From Coq Require Import ZifyBool.

(* ------------------------------------------------------------------------- *)
(* induction principles for the nested types                                 *)
(* ------------------------------------------------------------------------- *)

Section StyInd.
  Variable P : sty -> Prop.
  Hypothesis HAtom : forall a, P (SAtom a).
  Hypothesis HTuple : forall l, Forall P l -> P (STuple l).
  Hypothesis HList : forall e, P e -> P (SList e).
  Hypothesis HSet : forall e, P e -> P (SSet e).
  Hypothesis HMap : forall k v, P k -> P v -> P (SMap k v).
  Hypothesis HBundle : forall id ps, Forall P ps -> P (SBundle id ps).
  Fixpoint sty_ind' (s : sty) : P s :=
    match s with
    | SAtom a => HAtom a
    | STuple l => HTuple l ((fix go (l : list sty) : Forall P l :=
                               match l with [] => Forall_nil P | x :: r => Forall_cons x (sty_ind' x) (go r) end) l)
    | SList e => HList e (sty_ind' e)
    | SSet e => HSet e (sty_ind' e)
    | SMap k v => HMap k v (sty_ind' k) (sty_ind' v)
    | SBundle id ps => HBundle id ps ((fix go (l : list sty) : Forall P l :=
                                        match l with [] => Forall_nil P | x :: r => Forall_cons x (sty_ind' x) (go r) end) ps)
    end.
End StyInd.

Section TtyInd.
  Variable P : tty -> Prop.
  Hypothesis HTs : forall s, P (TTs s).
  Hypothesis HTss : forall s, P (TTss s).
  Hypothesis HTsl : forall e n, P e -> P (TTsl e n).
  Hypothesis HTsd : forall k v, P v -> P (TTsd k v).
  Hypothesis HTsw : forall s p m, P (TTsw s p m).
  Hypothesis HTsb : forall nm fs, Forall (fun ft => P (snd ft)) fs -> P (TTsb nm fs).
  Hypothesis HRef : forall t, P t -> P (TRef t).
  Hypothesis HSignal : P TSignal.
  Fixpoint tty_ind' (t : tty) : P t :=
    match t with
    | TTs s => HTs s
    | TTss s => HTss s
    | TTsl e n => HTsl e n (tty_ind' e)
    | TTsd k v => HTsd k v (tty_ind' v)
    | TTsw s p m => HTsw s p m
    | TTsb nm fs => HTsb nm fs ((fix go (fs : list (Z * tty)) : Forall (fun ft => P (snd ft)) fs :=
                                   match fs with
                                   | [] => Forall_nil _
                                   | ft :: r => Forall_cons ft (tty_ind' (snd ft)) (go r)
                                   end) fs)
    | TRef x => HRef x (tty_ind' x)
    | TSignal => HSignal
    end.
End TtyInd.

Section SpatInd.
  Variable P : spat -> Prop.
  Hypothesis HVar : forall v cn, P (PSVar v cn).
  Hypothesis HConc : forall s, P (PSConc s).
  Hypothesis HUnk0 : P PSUnk0.
  Hypothesis HUnk1 : forall c, P c -> P (PSUnk1 c).
  Hypothesis HHom : forall c, P c -> P (PSHom c).
  Hypothesis HFix : forall l, Forall P l -> P (PSFix l).
  Hypothesis HSet : forall c, P c -> P (PSSet c).
  Hypothesis HMap : forall k v, P k -> P v -> P (PSMap k v).
  Fixpoint spat_ind' (p : spat) : P p :=
    match p with
    | PSVar v cn => HVar v cn
    | PSConc s => HConc s
    | PSUnk0 => HUnk0
    | PSUnk1 c => HUnk1 c (spat_ind' c)
    | PSHom c => HHom c (spat_ind' c)
    | PSFix l => HFix l ((fix go (l : list spat) : Forall P l :=
                            match l with [] => Forall_nil P | x :: r => Forall_cons x (spat_ind' x) (go r) end) l)
    | PSSet c => HSet c (spat_ind' c)
    | PSMap k v => HMap k v (spat_ind' k) (spat_ind' v)
    end.
End SpatInd.

Section TpatInd.
  Variable P : tpat -> Prop.
  Hypothesis HVar : forall v cn, P (PVar v cn).
  Hypothesis HConc : forall t, P (PConc t).
  Hypothesis HTs : forall s, P (PTs s).
  Hypothesis HTss : forall s, P (PTss s).
  Hypothesis HTsl : forall sz e, P e -> P (PTsl sz e).
  Hypothesis HTsd : forall k v, P v -> P (PTsd k v).
  Hypothesis HTsw : forall a p m s, P (PTsw a p m s).
  Hypothesis HTsb : forall nd nm fs, Forall (fun fq => P (snd fq)) fs -> P (PTsb nd nm fs).
  Hypothesis HTsbVar : forall v, P (PTsbVar v).
  Hypothesis HRef : forall q, P q -> P (PRef q).
  Hypothesis HSignal : P PSignal.
  Fixpoint tpat_ind' (p : tpat) : P p :=
    match p with
    | PVar v cn => HVar v cn
    | PConc t => HConc t
    | PTs s => HTs s
    | PTss s => HTss s
    | PTsl sz e => HTsl sz e (tpat_ind' e)
    | PTsd k v => HTsd k v (tpat_ind' v)
    | PTsw a p m s => HTsw a p m s
    | PTsb nd nm fs => HTsb nd nm fs ((fix go (fs : list (Z * tpat)) : Forall (fun fq => P (snd fq)) fs :=
                                        match fs with
                                        | [] => Forall_nil _
                                        | fq :: r => Forall_cons fq (tpat_ind' (snd fq)) (go r)
                                        end) fs)
    | PTsbVar v => HTsbVar v
    | PRef q => HRef q (tpat_ind' q)
    | PSignal => HSignal
    end.
End TpatInd.

(* ------------------------------------------------------------------------- *)
(* equality tests                                                             *)
(* ------------------------------------------------------------------------- *)

Lemma forall2b_refl {A} (f : A -> A -> bool) l : Forall (fun x => f x x = true) l -> forall2b f l l = true.
Proof. induction 1 as [|x r Hx _ IH]; cbn [forall2b]; auto. rewrite Hx, IH. auto. Qed.

Lemma forall2b_eq {A} (f : A -> A -> bool) l :
  Forall (fun x => forall y, f x y = true -> x = y) l -> forall l', forall2b f l l' = true -> l = l'.
Proof.
  induction 1 as [|x r Hx _ IH]; intros [|y r']; cbn [forall2b]; auto; try discriminate.
  intros H. apply andb_prop in H. destruct H as [H1 H2]. f_equal; auto.
Qed.

Lemma sty_eqb_refl s : sty_eqb s s = true.
Proof.
  induction s as [a | l IH | e IH | e IH | k v IHk IHv | id ps IH] using sty_ind'; cbn [sty_eqb]; auto.
  - apply Z.eqb_refl.
  - apply forall2b_refl. exact IH.
  - rewrite IHk, IHv. auto.
  - rewrite Z.eqb_refl. cbn [andb]. apply forall2b_refl. exact IH.
Qed.

Lemma sty_eqb_eq a : forall b, sty_eqb a b = true -> a = b.
Proof.
  induction a as [a | l IH | e IH | e IH | k v IHk IHv | id ps IH] using sty_ind'; intros [b | l' | e' | e' | k' v' | id' ps'];
    cbn [sty_eqb]; try discriminate; intros H.
  - f_equal. lia.
  - f_equal. eapply forall2b_eq; eauto.
  - f_equal; auto.
  - f_equal; auto.
  - apply andb_prop in H. destruct H. f_equal; auto.
  - apply andb_prop in H. destruct H as [H1 H2]. f_equal; [lia | eapply forall2b_eq; eauto].
Qed.

Lemma tty_eqb_refl t : tty_eqb t t = true.
Proof.
  induction t as [s | s | e n IH | k v IH | s p m | nm fs IH | t IH | ] using tty_ind'; cbn [tty_eqb]; auto.
  - apply sty_eqb_refl.
  - apply sty_eqb_refl.
  - rewrite Z.eqb_refl, IH. auto.
  - rewrite sty_eqb_refl, IH. auto.
  - rewrite sty_eqb_refl, !Z.eqb_refl. auto.
  - rewrite Z.eqb_refl. cbn [andb]. apply forall2b_refl.
    eapply Forall_impl; [|exact IH]. cbn beta. intros ft H. rewrite Z.eqb_refl, H. auto.
Qed.

Lemma tty_eqb_eq a : forall b, tty_eqb a b = true -> a = b.
Proof.
  induction a as [s | s | e n IH | k v IH | s p m | nm fs IH | t IH | ] using tty_ind';
    intros [s' | s' | e' n' | k' v' | s' p' m' | nm' fs' | t' | ]; cbn [tty_eqb]; try discriminate; intros H.
  - f_equal. apply sty_eqb_eq; auto.
  - f_equal. apply sty_eqb_eq; auto.
  - apply andb_prop in H. destruct H as [H1 H2]. f_equal; [auto | lia].
  - apply andb_prop in H. destruct H as [H1 H2]. f_equal; [apply sty_eqb_eq | ]; auto.
  - apply andb_prop in H. destruct H as [H1 H3]. apply andb_prop in H1. destruct H1 as [H1 H2].
    f_equal; [apply sty_eqb_eq; auto | lia | lia].
  - apply andb_prop in H. destruct H as [H1 H2]. f_equal; [lia|].
    eapply forall2b_eq; [|exact H2].
    eapply Forall_impl; [|exact IH]. cbn beta. intros [f x] Hx [g y] Hxy. cbn [fst snd] in *.
    apply andb_prop in Hxy. destruct Hxy as [Hf Hy]. f_equal; [lia | auto].
  - f_equal; auto.
  - auto.
Qed.

Lemma tty_equiv_refl t : tty_equiv t t = true.
Proof.
  induction t as [s | s | e n IH | k v IH | s p m | nm fs IH | t IH | ] using tty_ind'; cbn [tty_equiv]; auto.
  - apply sty_eqb_refl.
  - apply sty_eqb_refl.
  - rewrite Z.eqb_refl, IH. auto.
  - rewrite sty_eqb_refl, IH. auto.
  - rewrite sty_eqb_refl, !Z.eqb_refl. auto.
  - apply forall2b_refl.
    eapply Forall_impl; [|exact IH]. cbn beta. intros ft H. rewrite Z.eqb_refl, H. auto.
Qed.

(* ------------------------------------------------------------------------- *)
(* map extension                                                              *)
(* ------------------------------------------------------------------------- *)

Definition sub {A : Type} (l l' : list (Z * A)) : Prop := forall v x, afind v l = Some x -> afind v l' = Some x.

Definition extends (m m' : rmap) : Prop :=
  sub (r_ts m) (r_ts m') /\ sub (r_sc m) (r_sc m') /\ sub (r_sz m) (r_sz m').

Lemma extends_refl m : extends m m.
Proof. unfold extends, sub; auto. Qed.

Lemma extends_trans a b c : extends a b -> extends b c -> extends a c.
Proof. unfold extends, sub. intros [A1 [A2 A3]] [B1 [B2 B3]]. repeat split; auto. Qed.

Lemma sub_cons {A} (l : list (Z * A)) v x : afind v l = None -> sub l ((v, x) :: l).
Proof.
  intros H k y Hk. cbn [afind]. destruct (v =? k) eqn:E; auto.
  assert (v = k) by lia. subst. congruence.
Qed.

Lemma extends_put_ts m v t : afind v (r_ts m) = None -> extends m (put_ts m v t).
Proof. intros H. unfold extends, put_ts; cbn. repeat split; try (intros ? ? ?; assumption). apply sub_cons; auto. Qed.
Lemma extends_put_sc m v s : afind v (r_sc m) = None -> extends m (put_sc m v s).
Proof. intros H. unfold extends, put_sc; cbn. repeat split; try (intros ? ? ?; assumption). apply sub_cons; auto. Qed.
Lemma extends_put_sz m v n : afind v (r_sz m) = None -> extends m (put_sz m v n).
Proof. intros H. unfold extends, put_sz; cbn. repeat split; try (intros ? ? ?; assumption). apply sub_cons; auto. Qed.

Lemma afind_put_ts m v t : afind v (r_ts (put_ts m v t)) = Some t.
Proof. cbn. rewrite Z.eqb_refl. auto. Qed.
Lemma afind_put_sc m v s : afind v (r_sc (put_sc m v s)) = Some s.
Proof. cbn. rewrite Z.eqb_refl. auto. Qed.
Lemma afind_put_sz m v n : afind v (r_sz (put_sz m v n)) = Some n.
Proof. cbn. rewrite Z.eqb_refl. auto. Qed.

(* bind_* : accepted binds extend; a different second binding is refused; the same one is accepted *)
Lemma bind_ts_extends m v t m' : bind_ts m v t = Some m' -> extends m m' /\ afind v (r_ts m') = Some t.
Proof.
  unfold bind_ts. destruct (afind v (r_ts m)) as [b|] eqn:E.
  - destruct (tty_eqb b t) eqn:Eb; [|discriminate]. intros H; inversion H; subst.
    split; [apply extends_refl|]. apply tty_eqb_eq in Eb. subst. auto.
  - intros H; inversion H; subst. split; [apply extends_put_ts; auto | apply afind_put_ts].
Qed.

Lemma bind_ts_rejects m v t b : afind v (r_ts m) = Some b -> b <> t -> bind_ts m v t = None.
Proof.
  intros E Hne. unfold bind_ts. rewrite E. destruct (tty_eqb b t) eqn:Eb; auto.
  apply tty_eqb_eq in Eb. contradiction.
Qed.

Lemma bind_ts_same m v t : afind v (r_ts m) = Some t -> bind_ts m v t = Some m.
Proof. intros E. unfold bind_ts. rewrite E, tty_eqb_refl. auto. Qed.

Lemma bind_sc_extends m v s m' : bind_sc m v s = Some m' -> extends m m' /\ afind v (r_sc m') = Some s.
Proof.
  unfold bind_sc. destruct (afind v (r_sc m)) as [b|] eqn:E.
  - destruct (sty_eqb b s) eqn:Eb; [|discriminate]. intros H; inversion H; subst.
    split; [apply extends_refl|]. apply sty_eqb_eq in Eb. subst. auto.
  - intros H; inversion H; subst. split; [apply extends_put_sc; auto | apply afind_put_sc].
Qed.

Lemma bind_sc_rejects m v s b : afind v (r_sc m) = Some b -> b <> s -> bind_sc m v s = None.
Proof.
  intros E Hne. unfold bind_sc. rewrite E. destruct (sty_eqb b s) eqn:Eb; auto.
  apply sty_eqb_eq in Eb. contradiction.
Qed.

Lemma bind_sz_extends m v n m' : bind_sz m v n = Some m' -> extends m m' /\ afind v (r_sz m') = Some n.
Proof.
  unfold bind_sz. destruct (afind v (r_sz m)) as [b|] eqn:E.
  - destruct (b =? n) eqn:Eb; [|discriminate]. intros H; inversion H; subst.
    split; [apply extends_refl|]. assert (b = n) by lia. subst. auto.
  - intros H; inversion H; subst. split; [apply extends_put_sz; auto | apply afind_put_sz].
Qed.

Lemma bind_sz_rejects m v n b : afind v (r_sz m) = Some b -> b <> n -> bind_sz m v n = None.
Proof. intros E Hne. unfold bind_sz. rewrite E. destruct (b =? n) eqn:Eb; auto. lia. Qed.

(* ------------------------------------------------------------------------- *)
(* instance relations: the matchers under ONE fixed substitution              *)
(* ------------------------------------------------------------------------- *)

Fixpoint sinst (m : rmap) (p : spat) (s : sty) {struct p} : bool :=
  match p with
  | PSVar v cn => match afind v (r_sc m) with Some b => sty_eqb b s && allowed_s cn s | None => false end
  | PSConc c => sty_eqb c s
  | PSUnk0 => match s with SList _ | STuple _ => true | _ => false end
  | PSUnk1 c | PSHom c =>
      match s with
      | SList e => sinst m c e
      | STuple l => match hom_elem l with Some e => sinst m c e | None => false end
      | _ => false
      end
  | PSFix ps => match s with STuple l => forall2b (fun q x => sinst m q x) ps l | _ => false end
  | PSSet c => match s with SSet e => sinst m c e | _ => false end
  | PSMap k v => match s with SMap a b => sinst m k a && sinst m v b | _ => false end
  end.

Definition szinst (m : rmap) (sz : szpat) (n : Z) : bool :=
  match sz with
  | SzFix k => (k =? 0) || (k =? n)
  | SzVar v cn => match afind v (r_sz m) with Some b => (b =? n) && allowed_z cn n | None => false end
  end.

(* the field loop of a bundle pattern *)
Definition fields_inst (g : tpat -> tty -> bool) (fps : list (Z * tpat)) (tfs : list (Z * tty)) : bool :=
  forall2b (fun fq gx => g (snd fq) (snd gx)) fps tfs.

(* generic direction (ts_pattern_match): REF transparent unless the pattern asks for a REF *)
Fixpoint tinst (m : rmap) (p : tpat) (t0 : tty) {struct p} : bool :=
  let t := if is_pref p then t0 else strip_refs t0 in
  match p with
  | PVar v cn => match afind v (r_ts m) with Some b => tty_eqb b t && allowed_t cn t | None => false end
  | PConc c => tty_equiv c t
  | PTs sp => match t with TTs s => sinst m sp s | _ => false end
  | PTss sp => match t with TTss s => sinst m sp s | _ => false end
  | PTsl sz e => match t with TTsl te n => szinst m sz n && tinst m e te | _ => false end
  | PTsd k v => match t with TTsd tk tv => sinst m k tk && tinst m v tv | _ => false end
  | PTsw any per mn sp =>
      match t with TTsw s tp tm => sinst m sp s && (any || ((per =? tp) && (mn =? tm))) | _ => false end
  | PTsb named name fps =>
      match t with
      | TTsb tname tfs =>
          name_ok named name tname && fnames_eqb fps tfs &&
          forall2b (fun fq gx => tinst m (snd fq) (snd gx)) fps tfs
      | _ => false
      end
  | PTsbVar v =>
      match t with
      | TTsb _ _ => match afind v (r_ts m) with Some b => tty_equiv b t | None => false end
      | _ => false
      end
  | PRef q => match t with TRef u => tinst m q u | _ => false end
  | PSignal => match t with TSignal => true | _ => false end
  end.

(* input_scalar_pattern_match: a scalar variable bound to a named bundle accepts any descendant bundle *)
Definition bound_bundle_accepts (m : rmap) (sp : spat) (s : sty) : bool :=
  match sp with
  | PSVar v _ => match afind v (r_sc m) with Some b => bundle_is_a s b | None => false end
  | _ => false
  end.

(* input direction (input_ts_pattern_match): SIGNAL accepts anything, REF adapts at the consumer,
   concrete leaves compare dereferenced *)
Fixpoint iinst (m : rmap) (p : tpat) (t0 : tty) {struct p} : bool :=
  let t := strip_refs t0 in
  match p with
  | PSignal => true
  | PRef q => iinst m q (match t0 with TRef u => u | _ => t0 end)
  | PConc c => input_accepts c t
  | PTsl sz e => match t with TTsl te n => szinst m sz n && iinst m e te | _ => false end
  | PTsd k v => match t with TTsd tk tv => sinst m k tk && iinst m v tv | _ => false end
  | PTsb named name fps =>
      match t with
      | TTsb tname tfs =>
          name_ok named name tname && fnames_eqb fps tfs &&
          forall2b (fun fq gx => iinst m (snd fq) (snd gx)) fps tfs
      | _ => false
      end
  | PTsbVar v =>
      match t with
      | TTsb _ _ => match afind v (r_ts m) with Some b => tty_equiv b t | None => false end
      | _ => false
      end
  | PTs sp => match t with TTs s => sinst m sp s || bound_bundle_accepts m sp s | _ => false end
  | PVar _ _ | PTss _ | PTsw _ _ _ _ => tinst m p t
  end.

(* output direction (output_ts_pattern_match): a top-level variable takes a requested REF verbatim *)
Definition oinst (m : rmap) (p : tpat) (t : tty) : bool :=
  match p with
  | PVar v cn =>
      if is_ref t then
        match afind v (r_ts m) with Some b => tty_equiv (deref b) (deref t) | None => false end
      else tinst m p t
  | _ => tinst m p t
  end.

(* ------------------------------------------------------------------------- *)
(* monotonicity: an instance stays an instance in every extension             *)
(* ------------------------------------------------------------------------- *)

Lemma forall2b_impl {A B} (f g : A -> B -> bool) l :
  Forall (fun x => forall y, f x y = true -> g x y = true) l ->
  forall l', forall2b f l l' = true -> forall2b g l l' = true.
Proof.
  induction 1 as [|x r Hx _ IH]; intros [|y r']; cbn [forall2b]; auto.
  intros H. apply andb_prop in H. destruct H as [H1 H2]. rewrite (Hx y H1), (IH r' H2). auto.
Qed.

Lemma sinst_mono m m' : extends m m' -> forall p s, sinst m p s = true -> sinst m' p s = true.
Proof.
  intros [_ [Hsc _]] p.
  induction p as [v cn | c | | c IH | c IH | ps IH | c IH | k v IHk IHv] using spat_ind'; intros s; cbn [sinst]; auto.
  - destruct (afind v (r_sc m)) as [b|] eqn:E; [|discriminate]. rewrite (Hsc v b E). auto.
  - destruct s; auto. destruct (hom_elem l); auto.
  - destruct s; auto. destruct (hom_elem l); auto.
  - destruct s; auto. apply forall2b_impl. exact IH.
  - destruct s; auto.
  - destruct s; auto. intros H. apply andb_prop in H. destruct H as [H1 H2]. rewrite (IHk _ H1), (IHv _ H2). auto.
Qed.

Lemma szinst_mono m m' : extends m m' -> forall sz n, szinst m sz n = true -> szinst m' sz n = true.
Proof.
  intros [_ [_ Hsz]] [k|v cn] n; cbn [szinst]; auto.
  destruct (afind v (r_sz m)) as [b|] eqn:E; [|discriminate]. rewrite (Hsz v b E). auto.
Qed.

Lemma tinst_mono m m' : extends m m' -> forall p t, tinst m p t = true -> tinst m' p t = true.
Proof.
  intros Hext p. pose proof Hext as [Hts _].
  induction p as [v cn | c | sp | sp | sz e IH | k v IH | a per mn sp | nd nm fps IH | v | q IH | ] using tpat_ind';
    intros t0; cbn [tinst is_pref]; auto.
  - destruct (afind v (r_ts m)) as [b|] eqn:E; [|discriminate]. rewrite (Hts v b E). auto.
  - destruct (strip_refs t0); auto. apply sinst_mono; auto.
  - destruct (strip_refs t0); auto. apply sinst_mono; auto.
  - destruct (strip_refs t0); auto. intros H. apply andb_prop in H. destruct H as [H1 H2].
    rewrite (szinst_mono _ _ Hext _ _ H1), (IH _ H2). auto.
  - destruct (strip_refs t0); auto. intros H. apply andb_prop in H. destruct H as [H1 H2].
    rewrite (sinst_mono _ _ Hext _ _ H1), (IH _ H2). auto.
  - destruct (strip_refs t0); auto. intros H. apply andb_prop in H. destruct H as [H1 H2].
    rewrite (sinst_mono _ _ Hext _ _ H1), H2. auto.
  - destruct (strip_refs t0); auto. intros H. apply andb_prop in H. destruct H as [H1 H2]. rewrite H1. cbn [andb].
    revert H2. apply forall2b_impl. eapply Forall_impl; [|exact IH]. cbn beta. intros fq Hq gx. apply Hq.
  - destruct (strip_refs t0); auto. destruct (afind v (r_ts m)) as [b|] eqn:E; [|discriminate]. rewrite (Hts v b E). auto.
  - destruct t0; auto.
Qed.

Lemma bound_bundle_accepts_mono m m' : extends m m' -> forall sp s,
  bound_bundle_accepts m sp s = true -> bound_bundle_accepts m' sp s = true.
Proof.
  intros [_ [Hsc _]] sp s. destruct sp; cbn [bound_bundle_accepts]; auto.
  destruct (afind v (r_sc m)) as [b|] eqn:E; [|discriminate]. rewrite (Hsc v b E). auto.
Qed.

Lemma iinst_mono m m' : extends m m' -> forall p t, iinst m p t = true -> iinst m' p t = true.
Proof.
  intros Hext p. pose proof Hext as [Hts _].
  induction p as [v cn | c | sp | sp | sz e IH | k v IH | a per mn sp | nd nm fps IH | v | q IH | ] using tpat_ind';
    intros t0; cbn [iinst]; auto.
  - apply tinst_mono; auto.
  - destruct (strip_refs t0); auto. intros H. apply orb_prop in H. destruct H as [H|H].
    + rewrite (sinst_mono _ _ Hext _ _ H). auto.
    + rewrite (bound_bundle_accepts_mono _ _ Hext _ _ H). apply orb_true_r.
  - apply tinst_mono; auto.
  - destruct (strip_refs t0); auto. intros H. apply andb_prop in H. destruct H as [H1 H2].
    rewrite (szinst_mono _ _ Hext _ _ H1), (IH _ H2). auto.
  - destruct (strip_refs t0); auto. intros H. apply andb_prop in H. destruct H as [H1 H2].
    rewrite (sinst_mono _ _ Hext _ _ H1), (IH _ H2). auto.
  - apply tinst_mono; auto.
  - destruct (strip_refs t0); auto. intros H. apply andb_prop in H. destruct H as [H1 H2]. rewrite H1. cbn [andb].
    revert H2. apply forall2b_impl. eapply Forall_impl; [|exact IH]. cbn beta. intros fq Hq gx. apply Hq.
  - destruct (strip_refs t0); auto. destruct (afind v (r_ts m)) as [b|] eqn:E; [|discriminate]. rewrite (Hts v b E). auto.
Qed.

Lemma oinst_mono m m' : extends m m' -> forall p t, oinst m p t = true -> oinst m' p t = true.
Proof.
  intros Hext p t. pose proof Hext as [Hts _]. destruct p; cbn [oinst]; try (apply tinst_mono; auto).
  destruct (is_ref t); [|apply tinst_mono; auto].
  destruct (afind v (r_ts m)) as [b|] eqn:E; [|discriminate]. rewrite (Hts v b E). auto.
Qed.

(* ------------------------------------------------------------------------- *)
(* soundness of the matchers                                                  *)
(* ------------------------------------------------------------------------- *)

Lemma match_list_sound {P T : Type} (f : P -> T -> rmap -> option rmap) (g : rmap -> P -> T -> bool) ps :
  (forall m m', extends m m' -> forall p t, g m p t = true -> g m' p t = true) ->
  Forall (fun p => forall t m m', f p t m = Some m' -> extends m m' /\ g m' p t = true) ps ->
  forall ts m m', match_list f ps ts m = Some m' -> extends m m' /\ forall2b (g m') ps ts = true.
Proof.
  intros Hmono. induction 1 as [|p r Hp _ IH]; intros [|t ts] m m'; cbn [match_list forall2b]; try discriminate.
  - intros H; inversion H; subst. split; [apply extends_refl | auto].
  - destruct (f p t m) as [m1|] eqn:E; [|discriminate]. intros H.
    destruct (Hp _ _ _ E) as [X1 G1]. destruct (IH _ _ _ H) as [X2 G2].
    split; [eapply extends_trans; eauto|]. rewrite (Hmono _ _ X2 _ _ G1), G2. auto.
Qed.

Lemma smatch_sound p : forall s m m', smatch p s m = Some m' -> extends m m' /\ sinst m' p s = true.
Proof.
  induction p as [v cn | c | | c IH | c IH | ps IH | c IH | k v IHk IHv] using spat_ind'; intros s m m'; cbn [smatch sinst].
  - destruct (afind v (r_sc m)) as [b|] eqn:E.
    + destruct (sty_eqb b s && allowed_s cn s) eqn:C; [|discriminate]. intros H; inversion H; subst.
      split; [apply extends_refl|]. rewrite E. auto.
    + destruct (allowed_s cn s) eqn:C; [|discriminate]. intros H; inversion H; subst.
      split; [apply extends_put_sc; auto|]. rewrite afind_put_sc, sty_eqb_refl. auto.
  - destruct (sty_eqb c s); [|discriminate]. intros H; inversion H; subst. split; [apply extends_refl | auto].
  - destruct s; try discriminate; intros H; inversion H; subst; (split; [apply extends_refl | auto]).
  - destruct s; try discriminate; auto. destruct (hom_elem l); [auto | discriminate].
  - destruct s; try discriminate; auto. destruct (hom_elem l); [auto | discriminate].
  - destruct s; try discriminate.
    apply (match_list_sound (fun q x m => smatch q x m) sinst ps sinst_mono IH).
  - destruct s; try discriminate; auto.
  - destruct s; try discriminate. destruct (smatch k s1 m) as [m1|] eqn:E; [|discriminate]. intros H.
    destruct (IHk _ _ _ E) as [X1 G1]. destruct (IHv _ _ _ H) as [X2 G2].
    split; [eapply extends_trans; eauto|]. rewrite (sinst_mono _ _ X2 _ _ G1), G2. auto.
Qed.

Lemma szmatch_sound sz n m m' : szmatch sz n m = Some m' -> extends m m' /\ szinst m' sz n = true.
Proof.
  destruct sz as [k|v cn]; cbn [szmatch szinst].
  - destruct ((k =? 0) || (k =? n)); [|discriminate]. intros H; inversion H; subst. split; [apply extends_refl | auto].
  - destruct (afind v (r_sz m)) as [b|] eqn:E.
    + destruct ((b =? n) && allowed_z cn n) eqn:C; [|discriminate]. intros H; inversion H; subst.
      split; [apply extends_refl|]. rewrite E. auto.
    + destruct (allowed_z cn n) eqn:C; [|discriminate]. intros H; inversion H; subst.
      split; [apply extends_put_sz; auto|]. rewrite afind_put_sz, Z.eqb_refl. auto.
Qed.

Lemma tmatch_sound p : forall t m m', tmatch p t m = Some m' -> extends m m' /\ tinst m' p t = true.
Proof.
  induction p as [v cn | c | sp | sp | sz e IH | k v IH | a per mn sp | nd nm fps IH | v | q IH | ] using tpat_ind';
    intros t0 m m'; cbn [tmatch tinst is_pref].
  - destruct (afind v (r_ts m)) as [b|] eqn:E.
    + destruct (tty_eqb b (strip_refs t0) && allowed_t cn (strip_refs t0)) eqn:C; [|discriminate].
      intros H; inversion H; subst. split; [apply extends_refl|]. rewrite E. auto.
    + destruct (allowed_t cn (strip_refs t0)) eqn:C; [|discriminate]. intros H; inversion H; subst.
      split; [apply extends_put_ts; auto|]. rewrite afind_put_ts, tty_eqb_refl. auto.
  - destruct (tty_equiv c (strip_refs t0)); [|discriminate]. intros H; inversion H; subst. split; [apply extends_refl | auto].
  - destruct (strip_refs t0); try discriminate. apply smatch_sound.
  - destruct (strip_refs t0); try discriminate. apply smatch_sound.
  - destruct (strip_refs t0); try discriminate. destruct (szmatch sz n m) as [m1|] eqn:E; [|discriminate]. intros H.
    destruct (szmatch_sound _ _ _ _ E) as [X1 G1]. destruct (IH _ _ _ H) as [X2 G2].
    split; [eapply extends_trans; eauto|]. rewrite (szinst_mono _ _ X2 _ _ G1), G2. auto.
  - destruct (strip_refs t0); try discriminate. destruct (smatch k k0 m) as [m1|] eqn:E; [|discriminate]. intros H.
    destruct (smatch_sound _ _ _ _ E) as [X1 G1]. destruct (IH _ _ _ H) as [X2 G2].
    split; [eapply extends_trans; eauto|]. rewrite (sinst_mono _ _ X2 _ _ G1), G2. auto.
  - destruct (strip_refs t0); try discriminate. destruct (smatch sp s m) as [m1|] eqn:E; [|discriminate].
    destruct (a || ((per =? period) && (mn =? minp))) eqn:C; [|discriminate]. intros H; inversion H; subst.
    destruct (smatch_sound _ _ _ _ E) as [X1 G1]. split; auto. rewrite G1. auto.
  - destruct (strip_refs t0); try discriminate.
    destruct (name_ok nd nm name && fnames_eqb fps fs) eqn:C; [|discriminate]. intros H. cbn [andb].
    apply (match_list_sound (fun fq gx m => tmatch (snd fq) (snd gx) m)
             (fun m fq gx => tinst m (snd fq) (snd gx)) fps) in H; auto.
    + intros m1 m2 X fq gx. apply tinst_mono; auto.
    + eapply Forall_impl; [|exact IH]. cbn beta. intros fq Hq gx m1 m2. apply Hq.
  - destruct (strip_refs t0); try discriminate. destruct (afind v (r_ts m)) as [b|] eqn:E.
    + destruct (tty_equiv b (TTsb name fs)) eqn:C; [|discriminate]. intros H; inversion H; subst.
      split; [apply extends_refl|]. rewrite E. auto.
    + intros H; inversion H; subst. split; [apply extends_put_ts; auto|]. rewrite afind_put_ts. apply tty_equiv_refl.
  - destruct t0; try discriminate. apply IH.
  - destruct (strip_refs t0); try discriminate. intros H; inversion H; subst. split; [apply extends_refl | auto].
Qed.

Lemma imatch_sound p : forall t m m', imatch p t m = Some m' -> extends m m' /\ iinst m' p t = true.
Proof.
  induction p as [v cn | c | sp | sp | sz e IH | k v IH | a per mn sp | nd nm fps IH | v | q IH | ] using tpat_ind';
    intros t0 m m'; cbn [imatch iinst].
  - apply tmatch_sound.
  - destruct (input_accepts c (strip_refs t0)); [|discriminate]. intros H; inversion H; subst. split; [apply extends_refl | auto].
  - destruct (strip_refs t0); try discriminate.
    assert (forall m', smatch sp s m = Some m' -> extends m m' /\ sinst m' sp s || bound_bundle_accepts m' sp s = true) as Hs.
    { intros m1 H1. apply smatch_sound in H1. destruct H1 as [X G]. rewrite G. auto. }
    destruct sp; try apply Hs. cbn [bound_bundle_accepts].
    destruct (afind v (r_sc m)) as [b|] eqn:E; [|apply Hs].
    destruct (bundle_is_a s b) eqn:EB; [|apply Hs].
    intros H; inversion H; subst. split; [apply extends_refl|]. rewrite E, EB. apply orb_true_r.
  - apply tmatch_sound.
  - destruct (strip_refs t0); try discriminate. destruct (szmatch sz n m) as [m1|] eqn:E; [|discriminate]. intros H.
    destruct (szmatch_sound _ _ _ _ E) as [X1 G1]. destruct (IH _ _ _ H) as [X2 G2].
    split; [eapply extends_trans; eauto|]. rewrite (szinst_mono _ _ X2 _ _ G1), G2. auto.
  - destruct (strip_refs t0); try discriminate. destruct (smatch k k0 m) as [m1|] eqn:E; [|discriminate]. intros H.
    destruct (smatch_sound _ _ _ _ E) as [X1 G1]. destruct (IH _ _ _ H) as [X2 G2].
    split; [eapply extends_trans; eauto|]. rewrite (sinst_mono _ _ X2 _ _ G1), G2. auto.
  - apply tmatch_sound.
  - destruct (strip_refs t0); try discriminate.
    destruct (name_ok nd nm name && fnames_eqb fps fs) eqn:C; [|discriminate]. intros H. cbn [andb].
    apply (match_list_sound (fun fq gx m => imatch (snd fq) (snd gx) m)
             (fun m fq gx => iinst m (snd fq) (snd gx)) fps) in H; auto.
    + intros m1 m2 X fq gx. apply iinst_mono; auto.
    + eapply Forall_impl; [|exact IH]. cbn beta. intros fq Hq gx m1 m2. apply Hq.
  - destruct (strip_refs t0); try discriminate. destruct (afind v (r_ts m)) as [b|] eqn:E.
    + destruct (tty_equiv b (TTsb name fs)) eqn:C; [|discriminate]. intros H; inversion H; subst.
      split; [apply extends_refl|]. rewrite E. auto.
    + intros H; inversion H; subst. split; [apply extends_put_ts; auto|]. rewrite afind_put_ts. apply tty_equiv_refl.
  - apply IH.
  - intros H; inversion H; subst. split; [apply extends_refl | auto].
Qed.

Lemma omatch_sound p t m m' : omatch p t m = Some m' -> extends m m' /\ oinst m' p t = true.
Proof.
  destruct p; cbn [omatch oinst]; try apply tmatch_sound.
  destruct (is_ref t) eqn:R; [|apply tmatch_sound].
  destruct (afind v (r_ts m)) as [b|] eqn:E.
  - destruct (tty_equiv (deref b) (deref t)) eqn:C; [|discriminate]. intros H; inversion H; subst.
    split; [apply extends_refl|]. rewrite E. auto.
  - destruct (allowed_t cn t); [|discriminate]. intros H; inversion H; subst.
    split; [apply extends_put_ts; auto|]. rewrite afind_put_ts. apply tty_equiv_refl.
Qed.

(* promotion of plain values: only the extension property is stated *)
Lemma vsm_extends p : forall v m m', vsm p v m = Some m' -> extends m m'.
Proof.
  induction p as [x cn | c | sp | sp | sz e IH | k c IH | a per mn sp | nd nm fps IH | x | q IH | ] using tpat_ind';
    intros v m m'; cbn [vsm]; try discriminate.
  - destruct (afind x (r_ts m)) as [b|] eqn:E.
    + destruct (vs_is b v); [|discriminate]. intros H; inversion H; subst. apply extends_refl.
    + intros H. apply tmatch_sound in H. tauto.
  - destruct (vs_is c v); [|discriminate]. intros H; inversion H; subst. apply extends_refl.
  - intros H. apply smatch_sound in H. tauto.
  - destruct v; try discriminate. intros H. apply smatch_sound in H. tauto.
  - destruct v; try discriminate. destruct (szmatch sz 0 m) as [m1|] eqn:E; [|discriminate]. intros H.
    apply szmatch_sound in E. eapply extends_trans; [apply E | eapply IH; eauto].
  - destruct v; try discriminate. destruct (smatch k v1 m) as [m1|] eqn:E; [|discriminate]. intros H.
    apply smatch_sound in E. eapply extends_trans; [apply E | eapply IH; eauto].
  - destruct v; try discriminate. destruct ((if a then 0 else per) =? 0); [|discriminate].
    intros H. apply smatch_sound in H. tauto.
  - destruct (sty_eqb v (SAtom 0)); [|discriminate]. intros H; inversion H; subst. apply extends_refl.
Qed.

Lemma promote_extends p : forall v m m', promote p v m = Some m' -> extends m m'.
Proof.
  induction p as [x cn | c | sp | sp | sz e IH | k c IH | a per mn sp | nd nm fps IH | x | q IH | ] using tpat_ind';
    intros v m m'; cbn [promote]; try apply vsm_extends; try (apply IH; fail).
  - destruct (afind x (r_ts m)) as [b|] eqn:E.
    + destruct (compat b v); [|discriminate]. intros H; inversion H; subst. apply extends_refl.
    + apply vsm_extends.
  - destruct (compat c v); [|discriminate]. intros H; inversion H; subst. apply extends_refl.
  - destruct sp; try apply vsm_extends.
    destruct (sty_eqb v s); [|discriminate]. intros H; inversion H; subst. apply extends_refl.
Qed.

(* ------------------------------------------------------------------------- *)
(* try_match                                                                  *)
(* ------------------------------------------------------------------------- *)

(* what a position accepts under the final substitution *)
Definition arg_inst (m : rmap) (pr : param) (a : arg) : Prop :=
  match pr, a with
  | PIn _, ANull => True
  | PIn p, ATs t => iinst m p t = true
  | PIn _, ASc _ => True                       (* promoted constant: see promote_extends *)
  | PScal (PSVar _ _), AAbsent => True
  | PScal (PSConc c), ASc v => v = c \/ coercible v c = true
  | PScal sp, ASc v => sinst m sp v = true
  | _, _ => False
  end.

Lemma arg_inst_mono m m' pr a : extends m m' -> arg_inst m pr a -> arg_inst m' pr a.
Proof.
  intros X. destruct pr as [p|sp], a as [t|v| |]; cbn [arg_inst]; auto.
  - apply iinst_mono; auto.
  - destruct sp; auto; apply sinst_mono; auto.
Qed.

(* what one accepted argument adds to the rank adjustment, exactly as try_match computes it:
   the inheritance distance for a concrete TS[Base] leaf taking a TS[Derived] (input_adaptation_rank),
   1 for a plain value promoted to a const source, 1 for a coerced scalar *)
Definition arg_cost (pr : param) (a : arg) : Z :=
  match pr, a with
  | PIn (PConc c), ATs t => adaptation_rank_c c t
  | PIn _, ASc _ => 1
  | PScal (PSConc c), ASc v => if sty_eqb v c then 0 else 1
  | _, _ => 0
  end.

Fixpoint args_cost (ps : list param) (al : list arg) : Z :=
  match ps, al with
  | pr :: ps', a :: al' => arg_cost pr a + args_cost ps' al'
  | _, _ => 0
  end.

Lemma match_arg_sound pr a m adj m' adj' :
  match_arg pr a (m, adj) = Some (m', adj') ->
  extends m m' /\ arg_inst m' pr a /\ adj' = adj + arg_cost pr a.
Proof.
  unfold match_arg. destruct pr as [p|sp], a as [t|v| |]; try discriminate; try (destruct sp; discriminate).
  - destruct (imatch p t m) as [m1|] eqn:E; cbn [option_map]; [|discriminate]. intros H; inversion H; subst.
    apply imatch_sound in E. cbn [arg_inst arg_cost]. split; [tauto|]. split; [tauto | destruct p; lia].
  - destruct (promote p v m) as [m1|] eqn:E; cbn [option_map]; [|discriminate]. intros H; inversion H; subst.
    apply promote_extends in E. cbn [arg_inst arg_cost]. split; auto. split; auto. destruct p; lia.
  - intros H; inversion H; subst. cbn [arg_inst arg_cost]. split; [apply extends_refl|]. split; auto. destruct p; lia.
  - destruct sp; try discriminate.
    + destruct (smatch (PSVar v0 cn) v m) as [m1|] eqn:E; cbn [option_map]; [|discriminate]. intros H; inversion H; subst.
      apply smatch_sound in E. cbn [arg_inst arg_cost]. split; [tauto|]. split; [tauto | lia].
    + destruct (sty_eqb v s) eqn:E1.
      * intros H; inversion H; subst. cbn [arg_inst arg_cost]. rewrite E1. apply sty_eqb_eq in E1.
        split; [apply extends_refl|]. split; auto. lia.
      * destruct (coercible v s) eqn:E2; [|discriminate]. intros H; inversion H; subst. cbn [arg_inst arg_cost]. rewrite E1.
        split; [apply extends_refl|]. split; auto.
    + destruct (smatch PSUnk0 v m) as [m1|] eqn:E; cbn [option_map]; [|discriminate]. intros H; inversion H; subst.
      apply smatch_sound in E. cbn [arg_inst arg_cost]. split; [tauto|]. split; [tauto | lia].
    + destruct (smatch (PSUnk1 sp) v m) as [m1|] eqn:E; cbn [option_map]; [|discriminate]. intros H; inversion H; subst.
      apply smatch_sound in E. cbn [arg_inst arg_cost]. split; [tauto|]. split; [tauto | lia].
    + destruct (smatch (PSHom sp) v m) as [m1|] eqn:E; cbn [option_map]; [|discriminate]. intros H; inversion H; subst.
      apply smatch_sound in E. cbn [arg_inst arg_cost]. split; [tauto|]. split; [tauto | lia].
    + destruct (smatch (PSFix l) v m) as [m1|] eqn:E; cbn [option_map]; [|discriminate]. intros H; inversion H; subst.
      apply smatch_sound in E. cbn [arg_inst arg_cost]. split; [tauto|]. split; [tauto | lia].
    + destruct (smatch (PSSet sp) v m) as [m1|] eqn:E; cbn [option_map]; [|discriminate]. intros H; inversion H; subst.
      apply smatch_sound in E. cbn [arg_inst arg_cost]. split; [tauto|]. split; [tauto | lia].
    + destruct (smatch (PSMap sp1 sp2) v m) as [m1|] eqn:E; cbn [option_map]; [|discriminate]. intros H; inversion H; subst.
      apply smatch_sound in E. cbn [arg_inst arg_cost]. split; [tauto|]. split; [tauto | lia].
  - destruct sp; try discriminate. intros H; inversion H; subst. cbn [arg_inst arg_cost].
    split; [apply extends_refl|]. split; auto. lia.
Qed.

Lemma match_args_sound ps : forall al m adj m' adj',
  match_args ps al (m, adj) = Some (m', adj') ->
  extends m m' /\ Forall2 (arg_inst m') ps al /\ adj' = adj + args_cost ps al.
Proof.
  induction ps as [|pr r IH]; intros [|a al] m adj m' adj'; cbn [match_args args_cost]; try discriminate.
  - intros H; inversion H; subst. split; [apply extends_refl|]. split; [constructor | lia].
  - destruct (match_arg pr a (m, adj)) as [[m1 adj1]|] eqn:E; [|discriminate]. intros H.
    destruct (match_arg_sound _ _ _ _ _ _ E) as [X1 [G1 A1]].
    destruct (IH _ _ _ _ _ H) as [X2 [G2 A2]].
    split; [eapply extends_trans; eauto|]. split.
    + constructor; auto. eapply arg_inst_mono; eauto.
    + lia.
Qed.

Lemma bind_hints_extends names : forall hints m m', bind_hints names hints m = Some m' -> extends m m'.
Proof.
  induction names as [|v r IH]; intros [|h hs] m m'; cbn [bind_hints]; try (intros H; inversion H; subst; apply extends_refl).
  destruct (bind_sz m v h) as [m1|] eqn:E; [|discriminate]. intros H.
  apply bind_sz_extends in E. eapply extends_trans; [apply E | eapply IH; eauto].
Qed.

(* The selected candidate's parameters really match the supplied types with every type
   variable bound to one type across all positions; the requested output is accepted by the
   output pattern; the output pattern resolves under the bindings; nothing the caller
   supplied (initial resolution) was changed. *)
(* normalize_call: the normalised list is the supplied arguments followed by the defaults of
   the omitted trailing parameters, one per declared parameter; defaults_used counts them *)
Lemma normalize_spec defs : forall al nargs k,
  normalize defs al = Some (nargs, k) ->
  exists suffix, nargs = al ++ suffix /\ k = Z.of_nat (length suffix) /\ length nargs = length defs /\
                 Forall (fun a => In (Some a) defs) suffix.
Proof.
  induction defs as [|d ds IH]; intros [|a al] nargs k; cbn [normalize]; try discriminate.
  - intros H; inversion H; subst. exists []. cbn. auto.
  - destruct d as [a|]; [|discriminate]. destruct (normalize ds []) as [[l k0]|] eqn:E; [|discriminate].
    intros H; inversion H; subst. destruct (IH _ _ _ E) as [suf [E1 [E2 [E3 E4]]]]. cbn [app] in E1. subst l.
    exists (a :: suf). cbn [app length]. split; auto. split; [lia|]. split; [lia|].
    constructor; [left; auto|]. eapply Forall_impl; [|exact E4]. intros x Hx. right; auto.
  - destruct (normalize ds al) as [[l k0]|] eqn:E; [|discriminate].
    intros H; inversion H; subst. destruct (IH _ _ _ E) as [suf [E1 [E2 [E3 E4]]]]. subst l.
    exists suf. cbn [app length]. split; auto. split; auto. split; [lia|].
    eapply Forall_impl; [|exact E4]. intros x Hx. right; auto.
Qed.

Theorem try_match_sound_lemma : forall c q m k,
  try_match c q = TMOk m k ->
  exists nargs dused,
  normalize (c_defaults c) (q_args q) = Some (nargs, dused) /\
  extends (q_init q) m /\
  Forall2 (arg_inst m) (c_params c) nargs /\
  (c_has_out c = true -> exists t, tresolve (c_out c) m = Some t) /\
  (c_has_out c = true -> forall e, q_expected q = Some e -> oinst m (c_out c) e = true) /\
  (forall b, q_outreq q = Some b -> c_has_out c = b) /\
  k = c_rank c + dused + args_cost (c_params c) nargs.
Proof.
  intros c q m k. unfold try_match.
  destruct (normalize (c_defaults c) (q_args q)) as [[nargs dused]|] eqn:EN; [|discriminate].
  exists nargs, dused. split; auto. revert H. clear EN.
  destruct (negb (length (c_params c) =? length nargs)%nat); [discriminate|].
  destruct (match q_hints q with [] => Some (q_init q) | _ :: _ => bind_hints (size_vars c) (q_hints q) (q_init q) end)
    as [m0|] eqn:E0; [|discriminate].
  assert (extends (q_init q) m0) as X0.
  { destruct (q_hints q); [inversion E0; apply extends_refl | eapply bind_hints_extends; eauto]. }
  destruct (match q_outreq q with Some b => negb (Bool.eqb (c_has_out c) b) | None => false end) eqn:EO; [discriminate|].
  destruct (match q_expected q with Some t => if c_has_out c then omatch (c_out c) t m0 else Some m0 | None => Some m0 end)
    as [m1|] eqn:E1; [|discriminate].
  destruct (match_args (c_params c) nargs (m1, dused)) as [[m2 adj]|] eqn:E2; [|discriminate].
  destruct (match_args_sound _ _ _ _ _ _ E2) as [X2 [G2 A2]].
  assert (extends m0 m1 /\ (c_has_out c = true -> forall e, q_expected q = Some e -> oinst m1 (c_out c) e = true)) as [X1 G1].
  { destruct (q_expected q) as [e|].
    - destruct (c_has_out c).
      + apply omatch_sound in E1. split; [tauto|]. intros _ e' He. inversion He; subst. tauto.
      + inversion E1; subst. split; [apply extends_refl | discriminate].
    - inversion E1; subst. split; [apply extends_refl | discriminate]. }
  assert (forall b, q_outreq q = Some b -> c_has_out c = b) as GO.
  { intros b Hb. rewrite Hb in EO. destruct (c_has_out c), b; cbn in EO; auto; discriminate. }
  destruct (c_has_out c) eqn:HO.
  - destruct (tresolve (c_out c) m2) as [t|] eqn:ER; [|discriminate]. intros H; inversion H; subst.
    split; [eapply extends_trans; [eauto | eapply extends_trans; eauto]|].
    split; auto. split; [intros _; exists t; auto|]. split.
    + intros _ e He. eapply oinst_mono; eauto.
    + split; auto. lia.
  - intros H; inversion H; subst.
    split; [eapply extends_trans; [eauto | eapply extends_trans; eauto]|].
    split; auto. split; [discriminate|]. split; [discriminate|]. split; auto. lia.
Qed.

Require Import ResolveFacts.

Theorem output_is_substitution_lemma : forall cs q s,
  resolve cs q = OSel s -> c_has_out (s_cand s) = true ->
  exists t, output_of s = Some t /\ tresolve (c_out (s_cand s)) (s_map s) = Some t.
Proof.
  intros cs q s H HO. destruct (resolve_sel_in _ _ _ H) as [_ HT].
  destruct (try_match_sound_lemma _ _ _ _ HT) as [nargs [dused [_ [_ [_ [HR _]]]]]].
  destruct (HR HO) as [t Ht]. exists t. unfold output_of. rewrite HO. auto.
Qed.
