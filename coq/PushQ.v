(* PushQ.v — mirror model of the push-source queue protocol (property C16).

   Mirrors, as a labelled transition system whose atomic steps are the code's
   mutex-protected critical sections and condition-variable operations:

     src/hgraph/runtime/push_source_node.cpp
        QueuePolicyStorage::{start, stop, try_send, send_blocking, try_pop, take_all, full}
        ConflatingPolicyStorage::{try_send, take_accumulated}  (as the batch variant, see below)
        PushSourceSenderControl::{enter, try_send, send_blocking, leave, begin_close,
                                  wait_for_quiescence, detach}
        push_source_start / push_source_eval / push_source_stop
     src/hgraph/runtime/executor.cpp
        realtime_mark_push_update_pending_impl, realtime_reset_push_update_pending_impl,
        realtime_request_stop_impl, the wait of advance_realtime, run_storage's loop
     src/hgraph/runtime/graph.cpp
        evaluate_impl, push phase (reset once per cycle; sources evaluated iff it was set)

   Three mutexes, and which fields live under which:
     queue mutex    (QueuePolicyStorage::mutex)      vals, accepting            [cap is constant]
     executor mutex (RealTimeExecutorStorage::mutex) flag = push_update_pending ;
                    stop_req is an atomic written under this mutex by request_stop,
                    read under it by mark, and read WITHOUT it by the sender control
     control mutex  (PushSourceSenderControl::mutex_) closing, attached (storage_ != nullptr), active

   Every [LProd p] / [LCons] step below is ONE critical section (or one notify).
   Assumed, not proved: each critical section of the code is atomic, and the C++
   memory model delivers the flag (mutex acquire/release).

   Policies.  Queue and Burst share QueuePolicyStorage and differ in the consumer's
   pop (one value / everything).  Conflating keeps only the merged accumulator and a
   [pending] bit; it is modelled by the same state under the abstraction
     accumulator = merge of [vals],  pending = (vals <> []),
   i.e. as "Burst with capacity 0 whose delivery is the merge of the batch"; for the
   scalar time-series the harness uses, the merge of a batch is its last value.

   Executable definitions only; proofs are in PushQFacts.v. *)
Require Import Base.
From Coq Require Import ZifyBool.

Inductive policy := Queue | Burst | Confl.

(* A send call: which producer, its per-producer sequence number, the value. *)
Record entry := mkEntry { e_pid : nat; e_seq : nat; e_val : Z }.

Inductive kind :=
| KTry         (* PushSourceSender::try_send *)
| KBlock       (* send_blocking from a producer thread *)
| KBlockEval.  (* send_blocking from the graph evaluation thread (consumer_thread == this_thread) *)

(* Program counter of a producer inside PushSourceSenderControl::try_send / send_blocking. *)
Inductive ppc :=
| PIdle              (* between calls *)
| PEnter             (* call begun; next: enter() under the control mutex *)
| PStopChk           (* counted in active_calls_; next: read push_engine_.stop_requested() *)
| PAdmit             (* next: the policy's admission critical section (queue mutex) *)
| PWaiting           (* inside capacity_available.wait, lock released, not woken *)
| PWoken             (* woken (notify or spurious); next: re-take the queue mutex, re-check the predicate *)
| PMark              (* accepted with wake_required; next: mark_push_update_pending's critical section *)
| PNotify            (* flag set; next: state.condition.notify_all() *)
| PLeave (r : Z).    (* next: leave() under the control mutex; r: 1 accepted, 0 refused, 2 logic_error *)

Record prod := mkProd {
  pc : ppc;
  cur : entry;      (* the call in progress (last call when idle) *)
  knd : kind;
  nsent : nat;      (* calls begun so far *)
  handle : nat;     (* epoch of the sender handle it holds *)
  lastr : Z         (* result of the last finished call *)
}.

(* Program counter of the evaluation thread. *)
Inductive cpc :=
| CStopped           (* graph not started *)
| CIdle              (* run loop, outside the wait *)
| CBlocked           (* inside condition.wait_for, executor mutex released *)
| CReset (pend : bool)   (* cycle begun: reset_push_update_pending done, old value in hand *)
| CPopped (more : bool)  (* try_pop / take_all critical section done; capacity notify not yet issued *)
| CRearm (more : bool)   (* capacity notified, value applied; next: re-arm iff more *)
| CStopA             (* begin_close done *)
| CStopB             (* policy stop critical section done; notify_all not yet issued *)
| CStopC.            (* waiters woken; next: wait_for_quiescence + detach *)

Record state := mkState {
  pol : policy;
  cap : nat;                        (* max_pending; 0 = unbounded *)
  (* queue mutex *)
  vals : list entry;
  accepting : bool;
  (* executor mutex *)
  flag : bool;                      (* push_update_pending *)
  stop_req : bool;                  (* stop_requested *)
  stop_notifies : nat;              (* request_stop calls between their store and their notify_all *)
  (* control mutex *)
  closing : bool;
  attached : bool;
  active : nat;
  epoch : nat;                      (* which start this is; a sender handle is valid for one epoch *)
  (* threads *)
  cons : cpc;
  now : Z;                          (* evaluation time of the current / last cycle *)
  prods : list prod;
  (* ghost: the acceptance log and the delivery log of the current epoch *)
  accepted : list entry;
  delivered : list (Z * list entry)
}.

(* ---- field updates ---- *)
Definition set_vals x (s : state) := mkState (pol s) (cap s) x (accepting s) (flag s) (stop_req s) (stop_notifies s) (closing s) (attached s) (active s) (epoch s) (cons s) (now s) (prods s) (accepted s) (delivered s).
Definition set_accepting x (s : state) := mkState (pol s) (cap s) (vals s) x (flag s) (stop_req s) (stop_notifies s) (closing s) (attached s) (active s) (epoch s) (cons s) (now s) (prods s) (accepted s) (delivered s).
Definition set_flag x (s : state) := mkState (pol s) (cap s) (vals s) (accepting s) x (stop_req s) (stop_notifies s) (closing s) (attached s) (active s) (epoch s) (cons s) (now s) (prods s) (accepted s) (delivered s).
Definition set_stop_req x (s : state) := mkState (pol s) (cap s) (vals s) (accepting s) (flag s) x (stop_notifies s) (closing s) (attached s) (active s) (epoch s) (cons s) (now s) (prods s) (accepted s) (delivered s).
Definition set_stop_notifies x (s : state) := mkState (pol s) (cap s) (vals s) (accepting s) (flag s) (stop_req s) x (closing s) (attached s) (active s) (epoch s) (cons s) (now s) (prods s) (accepted s) (delivered s).
Definition set_closing x (s : state) := mkState (pol s) (cap s) (vals s) (accepting s) (flag s) (stop_req s) (stop_notifies s) x (attached s) (active s) (epoch s) (cons s) (now s) (prods s) (accepted s) (delivered s).
Definition set_attached x (s : state) := mkState (pol s) (cap s) (vals s) (accepting s) (flag s) (stop_req s) (stop_notifies s) (closing s) x (active s) (epoch s) (cons s) (now s) (prods s) (accepted s) (delivered s).
Definition set_active x (s : state) := mkState (pol s) (cap s) (vals s) (accepting s) (flag s) (stop_req s) (stop_notifies s) (closing s) (attached s) x (epoch s) (cons s) (now s) (prods s) (accepted s) (delivered s).
Definition set_epoch x (s : state) := mkState (pol s) (cap s) (vals s) (accepting s) (flag s) (stop_req s) (stop_notifies s) (closing s) (attached s) (active s) x (cons s) (now s) (prods s) (accepted s) (delivered s).
Definition set_cons x (s : state) := mkState (pol s) (cap s) (vals s) (accepting s) (flag s) (stop_req s) (stop_notifies s) (closing s) (attached s) (active s) (epoch s) x (now s) (prods s) (accepted s) (delivered s).
Definition set_now x (s : state) := mkState (pol s) (cap s) (vals s) (accepting s) (flag s) (stop_req s) (stop_notifies s) (closing s) (attached s) (active s) (epoch s) (cons s) x (prods s) (accepted s) (delivered s).
Definition set_prods x (s : state) := mkState (pol s) (cap s) (vals s) (accepting s) (flag s) (stop_req s) (stop_notifies s) (closing s) (attached s) (active s) (epoch s) (cons s) (now s) x (accepted s) (delivered s).
Definition set_accepted x (s : state) := mkState (pol s) (cap s) (vals s) (accepting s) (flag s) (stop_req s) (stop_notifies s) (closing s) (attached s) (active s) (epoch s) (cons s) (now s) (prods s) x (delivered s).
Definition set_delivered x (s : state) := mkState (pol s) (cap s) (vals s) (accepting s) (flag s) (stop_req s) (stop_notifies s) (closing s) (attached s) (active s) (epoch s) (cons s) (now s) (prods s) (accepted s) x.

Definition set_pc x (p : prod) := mkProd x (cur p) (knd p) (nsent p) (handle p) (lastr p).
Definition set_handle x (p : prod) := mkProd (pc p) (cur p) (knd p) (nsent p) x (lastr p).

Definition idle_prod : prod := mkProd PIdle (mkEntry 0 0 0) KTry 0 0 0.

Definition get_prod (p : nat) (s : state) : prod := nth p (prods s) idle_prod.
Definition upd_prod (p : nat) (f : prod -> prod) (s : state) : state := set_prods (update p f (prods s)) s.
Definition goto (p : nat) (x : ppc) (s : state) : state := upd_prod p (set_pc x) s.

(* QueuePolicyStorage::full(); the conflating storage has no capacity *)
Definition full (s : state) : bool :=
  match pol s with
  | Confl => false
  | _ => negb (Nat.eqb (cap s) 0) && Nat.leb (cap s) (length (vals s))
  end.

Definition is_nil {A} (l : list A) : bool := match l with [] => true | _ => false end.

Definition is_waiting (x : ppc) : bool := match x with PWaiting => true | _ => false end.
Definition wake (pr : prod) : prod := if is_waiting (pc pr) then set_pc PWoken pr else pr.

(* condition_variable::notify_one on capacity_available: wakes one waiter if there is
   one; [w] is the scheduler's choice, the first waiter is woken when [w] is not waiting *)
Fixpoint wake_first (l : list prod) : list prod :=
  match l with
  | [] => []
  | pr :: r => if is_waiting (pc pr) then set_pc PWoken pr :: r else pr :: wake_first r
  end.
Definition notify_one (w : nat) (s : state) : state :=
  if is_waiting (pc (get_prod w s)) then goto w PWoken s else set_prods (wake_first (prods s)) s.
Definition notify_all (s : state) : state := set_prods (map wake (prods s)) s.

(* state.condition.notify_all(): the only waiter on the executor condition is the evaluation thread *)
Definition notify_exec (s : state) : state :=
  match cons s with CBlocked => set_cons CIdle s | _ => s end.

(* the push_back of try_send / send_blocking, with wake_required = was_empty *)
Definition push (p : nat) (pr : prod) (s : state) : state :=
  let was_empty := is_nil (vals s) in
  let s1 := set_accepted (accepted s ++ [cur pr]) (set_vals (vals s ++ [cur pr]) s) in
  goto p (if was_empty then PMark else PLeave 1) s1.

(* QueuePolicyStorage::try_send / send_blocking critical section ([first] = true), and the
   re-check inside capacity_available.wait after a wake-up ([first] = false) *)
Definition admission (p : nat) (pr : prod) (s : state) : state :=
  if negb (accepting s) then goto p (PLeave 0) s
  else if full s then
    match knd pr with
    | KTry => goto p (PLeave 0) s
    | KBlock => goto p PWaiting s
    | KBlockEval => goto p (PLeave 2) s          (* std::logic_error: cannot wait on the evaluation thread *)
    end
  else push p pr s.

(* One atomic step of producer p. *)
Definition prod_step (p : nat) (s : state) : option state :=
  let pr := get_prod p s in
  match pc pr with
  | PIdle => None
  | PEnter =>
      (* enter(): a stale handle is a control block that was closed and detached by its own stop *)
      if negb (Nat.eqb (handle pr) (epoch s)) || closing s || negb (attached s)
      then Some (upd_prod p (fun q => mkProd PIdle (cur q) (knd q) (nsent q) (handle q) 0) s)
      else Some (goto p PStopChk (set_active (S (active s)) s))
  | PStopChk =>
      if stop_req s then Some (goto p (PLeave 0) s) else Some (goto p PAdmit s)
  | PAdmit => Some (admission p pr s)
  | PWaiting => None
  | PWoken => Some (admission p pr s)
  | PMark =>
      (* realtime_mark_push_update_pending_impl: dropped, without notify, when stop was requested *)
      if stop_req s then Some (goto p (PLeave 1) s)
      else Some (goto p PNotify (set_flag true s))
  | PNotify => Some (goto p (PLeave 1) (notify_exec s))
  | PLeave r =>
      Some (upd_prod p (fun q => mkProd PIdle (cur q) (knd q) (nsent q) (handle q) r) (set_active (pred (active s)) s))
  end.

(* the delivery of a cycle: Queue pops one, Burst / Confl take everything *)
Definition pop (s : state) : state :=
  match pol s, vals s with
  | _, [] => set_cons CIdle s
  | Queue, v :: r =>
      set_cons (CPopped (negb (is_nil r))) (set_delivered (delivered s ++ [(now s, [v])]) (set_vals r s))
  | _, l =>
      set_cons (CPopped false) (set_delivered (delivered s ++ [(now s, l)]) (set_vals [] s))
  end.

(* One atomic step of the evaluation thread inside a cycle or inside the stop sequence;
   [w] is used only by notify_one. *)
Definition cons_step (w : nat) (s : state) : option state :=
  match cons s with
  | CReset false => Some (set_cons CIdle s)              (* push sources not evaluated *)
  | CReset true => Some (pop s)
  | CPopped more =>
      Some (set_cons (CRearm more) (match pol s with Queue => notify_one w s | Burst => notify_all s | Confl => s end))
  | CRearm false => Some (set_cons CIdle s)
  | CRearm true =>
      (* push_source_eval: mark_push_update_pending(); its notify has no listener *)
      if stop_req s then Some (set_cons CIdle s) else Some (set_cons CIdle (set_flag true s))
  | CStopA => Some (set_cons CStopB (set_vals [] (set_accepting false s)))
  | CStopB => Some (set_cons CStopC (notify_all s))
  | CStopC => if Nat.eqb (active s) 0 then Some (set_cons CStopped (set_attached false s)) else None
  | _ => None
  end.

Inductive label :=
| LBind (p : nat) (h : nat)            (* an idle producer takes hold of the sender of epoch h *)
| LBegin (p : nat) (v : Z) (k : kind)  (* an idle producer begins a call *)
| LProd (p : nat)                      (* next atomic step of producer p *)
| LSpur (p : nat)                      (* spurious wake-up of a blocked sender *)
| LCBlock                              (* evaluation thread: wait predicate false, blocks *)
| LCWake                               (* evaluation thread: spurious wake-up / slice time-out / timer due *)
| LCBegin (t : Z)                      (* evaluation thread: a cycle begins at time t *)
| LCons (w : nat)                      (* evaluation thread: next atomic step of the cycle / stop sequence *)
| LCStop                               (* evaluation thread: leaves the loop; begin_close *)
| LCStart                              (* graph start: policy start + new control block *)
| LReqStop                             (* any thread: request_stop's store under the executor mutex *)
| LReqNotify                           (* ... and its notify_all *)
| LClearStop.                          (* run(): stop_requested.store(false) before start *)

Definition step (l : label) (s : state) : option state :=
  match l with
  | LBind p h =>
      match pc (get_prod p s) with
      | PIdle => if Nat.ltb p (length (prods s)) then Some (upd_prod p (set_handle h) s) else None
      | _ => None
      end
  | LBegin p v k =>
      match pc (get_prod p s) with
      | PIdle =>
          if Nat.ltb p (length (prods s))
          then Some (upd_prod p (fun q => mkProd PEnter (mkEntry p (nsent q) v) k (S (nsent q)) (handle q) (lastr q)) s)
          else None
      | _ => None
      end
  | LProd p => if Nat.ltb p (length (prods s)) then prod_step p s else None
  | LSpur p =>
      match pc (get_prod p s) with
      | PWaiting => Some (goto p PWoken s)
      | _ => None
      end
  | LCBlock =>
      match cons s with
      | CIdle => if flag s || stop_req s then None else Some (set_cons CBlocked s)
      | _ => None
      end
  | LCWake => match cons s with CBlocked => Some (set_cons CIdle s) | _ => None end
  | LCBegin t =>
      match cons s with
      | CIdle => if now s <? t then Some (set_cons (CReset (flag s)) (set_flag false (set_now t s))) else None
      | _ => None
      end
  | LCons w => cons_step w s
  | LCStop => match cons s with CIdle => Some (set_cons CStopA (set_closing true s)) | _ => None end
  | LCStart =>
      match cons s with
      | CStopped =>
          Some (set_cons CIdle (set_delivered [] (set_accepted [] (set_epoch (S (epoch s))
                 (set_active 0 (set_attached true (set_closing false (set_accepting true (set_vals [] s)))))))))
      | _ => None
      end
  | LReqStop => Some (set_stop_notifies (S (stop_notifies s)) (set_stop_req true s))
  | LReqNotify =>
      match stop_notifies s with
      | O => None
      | S n => Some (notify_exec (set_stop_notifies n s))
      end
  | LClearStop => match cons s with CStopped => Some (set_stop_req false s) | _ => None end
  end.

(* a disabled label leaves the state alone *)
Definition do_step (s : state) (l : label) : state :=
  match step l s with Some s' => s' | None => s end.

Definition init (pl : policy) (c : nat) (n : nat) : state :=
  mkState pl (match pl with Confl => 0%nat | _ => c end) [] false false false 0 false false 0 0 CStopped 0
          (repeat idle_prod n) [] [].

Definition run (ls : list label) (s : state) : state := fold_left do_step ls s.
Definition reach (pl : policy) (c n : nat) (ls : list label) : state := run ls (init pl c n).

(* ------------------------------------------------------------------------ *)
(* The sequential schedules of the correspondence check (cxx/pushq_driver.cpp,
   mode 1): each harness operation runs the threads involved to quiescence. *)

Fixpoint run_prod (fuel : nat) (p : nat) (s : state) : state :=
  match fuel with
  | O => s
  | S f =>
      match pc (get_prod p s) with
      | PIdle | PWaiting => s
      | _ => run_prod f p (do_step s (LProd p))
      end
  end.

Fixpoint run_cons (fuel : nat) (s : state) : state :=
  match fuel with
  | O => s
  | S f =>
      match cons s with
      | CIdle | CStopped | CBlocked => s
      | CStopC => if Nat.eqb (active s) 0 then run_cons f (do_step s (LCons 0)) else s
      | _ => run_cons f (do_step s (LCons 0))
      end
  end.

Definition zlen {A} (l : list A) : Z := Z.of_nat (length l).

(* NodeView::inspection_metrics().pending_items *)
Definition pending_items (s : state) : Z :=
  match pol s with
  | Confl => if is_nil (vals s) then 0 else 1
  | _ => zlen (vals s)
  end.

Definition started (s : state) : bool := match cons s with CStopped => false | _ => true end.

(* what the sink sees of a delivery *)
Definition batch_values (pl : policy) (b : list entry) : list Z :=
  match pl with
  | Confl => match rev b with [] => [] | e :: _ => [e_val e] end
  | _ => map e_val b
  end.

Record seqst := mkSeq {
  st : state;
  blocked : option (nat * Z);     (* the one blocked sender: producer, index of its op *)
  idx : Z;
  outl : list line                (* output, reversed *)
}.

Definition emit (l : line) (q : seqst) : seqst := mkSeq (st q) (blocked q) (idx q) (l :: outl q).
Definition with_st (s : state) (q : seqst) : seqst := mkSeq s (blocked q) (idx q) (outl q).

(* let the blocked sender re-check (it has been notified, or wakes spuriously) *)
Definition settle (q : seqst) : seqst :=
  match blocked q with
  | None => q
  | Some (bp, bi) =>
      let s1 := run_prod 8 bp (do_step (st q) (LSpur bp)) in
      match pc (get_prod bp s1) with
      | PIdle => mkSeq s1 None (idx q) ([7; bi; lastr (get_prod bp s1)] :: outl q)
      | _ => with_st s1 q
      end
  end.

Definition obs_pending (s : state) : Z := if started s then pending_items s else 0.

Definition seq_send (code p v h : Z) (q : seqst) : seqst :=
  let s := st q in
  let n := length (prods s) in
  let blocking := code =? 2 in
  let on_eval := (p <=? 0) || (Z.of_nat n <=? p) in
  let pi := if on_eval then 0%nat else Z.to_nat p in
  let k := if blocking then (if on_eval then KBlockEval else KBlock) else KTry in
  let hd := if h =? 0 then epoch s else pred (epoch s) in
  let skip := negb on_eval &&
              match blocked q with
              | Some (bp, _) => Nat.eqb bp pi || (blocking && (h =? 0) && started s && negb (stop_req s) && full s)
              | None => false
              end in
  if skip then emit [code; idx q; 8; obs_pending s; b2z (flag s)] q
  else
    let s1 := do_step (do_step s (LBind pi hd)) (LBegin pi v k) in
    let s2 := run_prod 8 pi s1 in
    match pc (get_prod pi s2) with
    | PWaiting =>
        mkSeq s2 (Some (pi, idx q)) (idx q) ([code; idx q; 3; obs_pending s2; b2z (flag s2)] :: outl q)
    | _ =>
        let q1 := emit [code; idx q; lastr (get_prod pi s2); obs_pending s2; b2z (flag s2)] (with_st s2 q) in
        settle q1
    end.

(* deliveries appended by a cycle, as the sink prints them *)
Fixpoint new_deliveries (pl : policy) (n : nat) (d : list (Z * list entry)) : list line :=
  match n, d with
  | S k, _ :: r => new_deliveries pl k r
  | O, l => map (fun tb => 5 :: fst tb :: batch_values pl (snd tb)) l
  | _, [] => []
  end.

(* ---- the collection vocabulary of the harness (header field 4 = 1): the source's output is a
   TSD<str, TS<int>>; a sent value v is a delta: v >= 0 sets key v / 100 to v mod 100, v <= -10 removes
   key -v - 10 (lenient: a no-op when absent), -1 is the empty delta.  The queue protocol is unchanged
   (the LTS does not look at values); only what a delivery shows differs:
     Queue : the delta is applied to the output; the cycle shows a delivery iff the delta has an effect;
     Confl : the output becomes the fold of the window's deltas over an EMPTY accumulator.
   (Harness cases of this vocabulary do not restart the graph and open every conflation window with a
   "set", so that pending = "some send of the window had an effect" coincides with "window non-empty".) *)
Definition dstate := list (Z * Z).
Fixpoint dset (k x : Z) (m : dstate) : dstate :=
  match m with
  | [] => [(k, x)]
  | (k', x') :: r => if k <? k' then (k, x) :: m else if k =? k' then (k, x) :: r else (k', x') :: dset k x r
  end.
Fixpoint ddel (k : Z) (m : dstate) : dstate :=
  match m with
  | [] => []
  | (k', x') :: r => if k =? k' then r else (k', x') :: ddel k r
  end.
Fixpoint dmem (k : Z) (m : dstate) : bool :=
  match m with [] => false | (k', _) :: r => (k =? k') || dmem k r end.
Definition dapply (m : dstate) (v : Z) : dstate :=
  if 0 <=? v then dset (v / 100) (v mod 100) m else if v <=? -10 then ddel (- v - 10) m else m.
Definition deffect (m : dstate) (v : Z) : bool :=
  if 0 <=? v then true else if v <=? -10 then dmem (- v - 10) m else false.
Definition dflat (m : dstate) : list Z := flat_map (fun kx => [fst kx; snd kx]) m.
Definition dfold (l : list entry) (m : dstate) : dstate := fold_left (fun a e => dapply a (e_val e)) l m.

Definition dict_lines (pl : policy) (old new : list (Z * list entry)) : list line :=
  match pl with
  | Confl => map (fun tb => 5 :: fst tb :: dflat (dfold (snd tb) [])) new
  | _ =>
      let before := dfold (concat (map snd old)) [] in
      match new with
      | [(t, [e])] => if deffect before (e_val e) then [5 :: t :: dflat (dapply before (e_val e))] else []
      | _ => []
      end
  end.

Definition seq_eval (dm : bool) (d : Z) (q : seqst) : seqst :=
  let s := st q in
  if negb (started s) then emit [13; idx q] q
  else
    let t := now s + Z.max 1 d in
    let s1 := do_step s (LCBegin t) in
    let evald := match cons s1 with CReset true => 1 | _ => 0 end in
    let s2 := run_cons 8 s1 in
    let q1 := settle (with_st s2 q) in
    let s3 := st q1 in
    let dl := if dm then dict_lines (pol s) (delivered s) (skipn (length (delivered s)) (delivered s3))
              else new_deliveries (pol s) (length (delivered s)) (delivered s3) in
    mkSeq s3 (blocked q1) (idx q1) ([3; idx q; 0; evald; obs_pending s3; b2z (flag s3)] :: rev dl ++ outl q1).

Definition sender_valid (s : state) : Z :=
  b2z (negb (Nat.eqb (epoch s) 0) && negb (closing s) && attached s && negb (stop_req s)).

Definition seq_stop (q : seqst) : seqst :=
  let s := st q in
  if negb (started s) then emit [14; idx q] q
  else
    let s1 := run_cons 8 (do_step s LCStop) in      (* begin_close, policy stop, notify_all *)
    let q1 := settle (with_st s1 q) in              (* the blocked sender returns false and leaves *)
    let s2 := run_cons 8 (st q1) in                 (* quiescent: detach *)
    emit [4; idx q; 0; sender_valid s2; b2z (flag s2)] (with_st s2 q1).

Definition seq_start (q : seqst) : seqst :=
  let s := st q in
  if started s then emit [15; idx q] q
  else
    let s1 := do_step s LCStart in
    emit [6; idx q; 0; obs_pending s1; b2z (flag s1); sender_valid s1] (with_st s1 q).

Definition seq_reqstop (q : seqst) : seqst :=
  let s1 := do_step (do_step (st q) LReqStop) LReqNotify in
  emit [9; idx q; sender_valid s1; b2z (flag s1)] (with_st s1 q).

Definition seq_op (dm : bool) (q : seqst) (l : line) : seqst :=
  let q1 :=
    match l with
    | 1 :: r => seq_send 1 (nthz 0 r) (nthz 1 r) (nthz 2 r) q
    | 2 :: r => seq_send 2 (nthz 0 r) (nthz 1 r) (nthz 2 r) q
    | 3 :: r => seq_eval dm (nthz 0 r) q
    | 4 :: _ => seq_stop q
    | 5 :: _ => seq_start q
    | 6 :: _ => seq_reqstop q
    | _ => emit [99; idx q] q
    end in
  mkSeq (st q1) (blocked q1) (idx q1 + 1) (outl q1).

Definition policy_of (z : Z) : policy := if z =? 1 then Burst else if z =? 2 then Confl else Queue.

(* the harness stops the graph at the end of a case, which releases a blocked sender *)
Definition seq_finish (q : seqst) : seqst :=
  let q1 := if started (st q) then
              let s1 := run_cons 8 (do_step (st q) LCStop) in
              let q2 := settle (with_st s1 q) in
              with_st (run_cons 8 (st q2)) q2
            else q in
  match blocked q1 with
  | Some (bp, bi) => settle q1
  | None => q1
  end.

Fixpoint take_ops (c : wire) : wire :=
  match c with
  | [] => []
  | l :: r => match l with (-1) :: _ => [] | _ => l :: take_ops r end
  end.

Definition run_seq (hdr : line) (ops : wire) : wire :=
  let dm := nthz 4 hdr =? 1 in
  let pl0 := policy_of (nthz 1 hdr) in
  let pl := if dm then match pl0 with Burst => Queue | p => p end else pl0 in   (* a burst needs a tuple output *)
  let c := Z.to_nat (nthz 2 hdr) in
  let n := Z.to_nat (Z.max 1 (nthz 3 hdr)) in
  let q0 := mkSeq (init pl c (S n)) None 0 [] in
  rev (outl (seq_finish (fold_left (seq_op dm) (take_ops ops) q0))).

(* ------------------------------------------------------------------------ *)
(* Recorded histories of free-running executions (driver mode 2) and the
   executable acceptor [pushq_history_ok].

   Every observable event of the run takes a ticket from one global atomic
   counter, so tickets order events in real time:
     a send call is bracketed by tickets  s_b (before the call) < s_a (after it returned);
     a cycle takes a ticket d_cs before graph evaluation (lifecycle observer) and the sink
     takes d_s when it sees the delivery;  pending_items samples are (ticket, n);
     stop_b before request_stop, stop_r after it returned (main thread), stop_e after run() returned
     (run thread): stop_r and stop_e are drawn by different threads and may come in either order. *)

Record send_rec := mkSend { s_p : Z; s_k : Z; s_v : Z; s_blk : bool; s_res : Z; s_b : Z; s_a : Z }.
Record deliv_rec := mkDeliv { d_t : Z; d_cs : Z; d_s : Z; d_vals : list Z }.
Record history := mkHist {
  h_pol : policy; h_cap : Z;
  h_stop_b : Z; h_stop_r : Z; h_stop_e : Z;
  h_stalled : bool;            (* the harness gave up waiting: nothing delivered for STALL_S seconds with work pending *)
  h_err : bool;                (* run() threw *)
  h_full_run : bool;           (* the run was continued until everything accepted was delivered *)
  h_sends : list send_rec; h_delivs : list deliv_rec; h_samples : list (Z * Z)
}.

Definition acc_sends (h : history) : list send_rec := filter (fun x => s_res x =? 1) (h_sends h).
Definition flat (h : history) : list Z := concat (map d_vals (h_delivs h)).

Fixpoint index_of (v : Z) (l : list Z) : Z :=
  match l with
  | [] => 0
  | x :: r => if x =? v then 0 else 1 + index_of v r
  end.

Fixpoint memz (v : Z) (l : list Z) : bool :=
  match l with [] => false | x :: r => (x =? v) || memz v r end.

Fixpoint nodupb (l : list Z) : bool :=
  match l with [] => true | x :: r => negb (memz x r) && nodupb r end.

Fixpoint increasing (l : list Z) : Prop :=
  match l with
  | a :: r => match r with b :: _ => a < b | [] => True end /\ increasing r
  | [] => True
  end.
Fixpoint increasingb (l : list Z) : bool :=
  match l with
  | a :: r => match r with b :: _ => a <? b | [] => true end && increasingb r
  | [] => true
  end.

Definition countz {A} (f : A -> bool) (l : list A) : Z := zlen (filter f l).
(* number of values delivered by the deliveries satisfying f *)
Definition count_vals (f : deliv_rec -> bool) (l : list deliv_rec) : Z := zlen (concat (map d_vals (filter f l))).

Definition is_confl (p : policy) : bool := match p with Confl => true | _ => false end.
Definition is_queue (p : policy) : bool := match p with Queue => true | _ => false end.

(* at ticket time [s_a x] at least this many accepted values were not yet delivered *)
Definition undelivered_at_least (h : history) (x : send_rec) : Z :=
  countz (fun y => s_a y <=? s_a x) (acc_sends h) - count_vals (fun d => d_cs d <? s_a x) (h_delivs h).
(* during the call r at most this many accepted values were in the queue *)
Definition queued_at_most (h : history) (r : send_rec) : Z :=
  countz (fun y => s_b y <? s_a r) (acc_sends h) - count_vals (fun d => d_s d <? s_b r) (h_delivs h).

Definition last_deliv_send (h : history) : list send_rec :=
  match rev (flat h) with
  | [] => []
  | v :: _ => filter (fun y => s_v y =? v) (acc_sends h)
  end.

(* ---- the declarative statement of C16 on a recorded history ---- *)
Record HistoryOK (h : history) : Prop := mkHOK {
  (* the recording itself is well formed, the run did not fail *)
  ok_wf : (forall x, In x (h_sends h) -> s_b x < s_a x /\ (s_res x = 0 \/ s_res x = 1)) /\
          NoDup (map s_v (h_sends h)) /\ h_err h = false /\ h_stop_b h < h_stop_r h /\ h_stop_b h < h_stop_e h;
  (* delivered exactly once, and only values whose send was accepted *)
  ok_once : NoDup (flat h) /\ forall v, In v (flat h) -> exists x, In x (h_sends h) /\ s_v x = v /\ s_res x = 1;
  (* in order, a prefix: an accepted value whose send returned before the send of a delivered value
     began is delivered earlier (conflating: or merged away) *)
  ok_fifo : forall x y, In x (acc_sends h) -> In y (acc_sends h) -> In (s_v y) (flat h) -> s_a x < s_b y ->
            (if is_confl (h_pol h) then In (s_v x) (flat h) -> index_of (s_v x) (flat h) < index_of (s_v y) (flat h)
             else index_of (s_v x) (flat h) < index_of (s_v y) (flat h));
  (* each delivery in its own engine cycle, strictly increasing evaluation times *)
  ok_times : increasing (map d_t (h_delivs h)) /\ increasing (map d_cs (h_delivs h)) /\
             forall d, In d (h_delivs h) -> d_cs d < d_s d /\
               (if is_queue (h_pol h) || is_confl (h_pol h) then length (d_vals d) = 1%nat else d_vals d <> []);
  (* accepted but undelivered never exceeds the capacity *)
  ok_cap : (forall tn, In tn (h_samples h) -> snd tn <= (if is_confl (h_pol h) then 1 else h_cap h) \/ (h_cap h = 0 /\ is_confl (h_pol h) = false)) /\
           (h_cap h > 0 -> is_confl (h_pol h) = false -> forall x, In x (acc_sends h) -> undelivered_at_least h x <= h_cap h);
  (* ... in particular a burst (all pending values as one tuple) is never larger than the capacity *)
  ok_batch : is_confl (h_pol h) = false -> h_cap h > 0 -> forall d, In d (h_delivs h) -> zlen (d_vals d) <= h_cap h;
  (* a non-blocking send is refused only when full or stopped; a blocking send fails only when stopped *)
  ok_refuse : forall r, In r (h_sends h) -> s_res r = 0 ->
              h_stop_b h < s_a r \/
              (s_blk r = false /\ is_confl (h_pol h) = false /\ h_cap h > 0 /\ h_cap h <= queued_at_most h r);
  (* nothing is accepted after stop *)
  ok_after_stop : forall x, In x (h_sends h) -> h_stop_r h < s_b x -> s_res x = 0;
  (* every accepted value is delivered when the run continues long enough *)
  ok_all : h_full_run h = true ->
           h_stalled h = false /\
           (if is_confl (h_pol h)
            then (acc_sends h <> [] -> flat h <> []) /\
                 forall y x, In y (last_deliv_send h) -> In x (acc_sends h) -> ~ s_a y < s_b x
            else forall x, In x (acc_sends h) -> In (s_v x) (flat h));
  (* conflating: a delivery carries the latest accepted state *)
  ok_latest : is_confl (h_pol h) = true ->
              forall d y x, In d (h_delivs h) -> In y (acc_sends h) -> In (s_v y) (d_vals d) -> In x (acc_sends h) ->
              ~ (s_a y < s_b x /\ s_a x < d_cs d)
}.

(* ---- the acceptor: the same statement as a list of boolean checks ---- *)
Definition chk_wf (h : history) : bool :=
  forallb (fun x => (s_b x <? s_a x) && ((s_res x =? 0) || (s_res x =? 1))) (h_sends h) &&
  nodupb (map s_v (h_sends h)) && negb (h_err h) && (h_stop_b h <? h_stop_r h) && (h_stop_b h <? h_stop_e h).
Definition chk_once (h : history) : bool :=
  nodupb (flat h) && forallb (fun v => existsb (fun x => (s_v x =? v) && (s_res x =? 1)) (h_sends h)) (flat h).
Definition chk_fifo (h : history) : bool :=
  let fl := flat h in
  let n := zlen fl in
  let ai := map (fun x => (x, index_of (s_v x) fl)) (acc_sends h) in
  let cf := is_confl (h_pol h) in
  forallb (fun yj =>
    negb (snd yj <? n) ||
    forallb (fun xi => negb (s_a (fst xi) <? s_b (fst yj)) ||
                       (if cf then negb (snd xi <? n) || (snd xi <? snd yj) else snd xi <? snd yj)) ai) ai.
Definition chk_times (h : history) : bool :=
  increasingb (map d_t (h_delivs h)) && increasingb (map d_cs (h_delivs h)) &&
  forallb (fun d => (d_cs d <? d_s d) &&
                    (if is_queue (h_pol h) || is_confl (h_pol h) then Nat.eqb (length (d_vals d)) 1 else negb (is_nil (d_vals d))))
          (h_delivs h).
Definition chk_cap (h : history) : bool :=
  forallb (fun tn => (snd tn <=? (if is_confl (h_pol h) then 1 else h_cap h)) || ((h_cap h =? 0) && negb (is_confl (h_pol h)))) (h_samples h) &&
  (negb (0 <? h_cap h) || is_confl (h_pol h) ||
   forallb (fun x => undelivered_at_least h x <=? h_cap h) (acc_sends h)).
Definition chk_batch (h : history) : bool :=
  is_confl (h_pol h) || negb (0 <? h_cap h) || forallb (fun d => zlen (d_vals d) <=? h_cap h) (h_delivs h).
Definition chk_refuse (h : history) : bool :=
  forallb (fun r => negb (s_res r =? 0) || (h_stop_b h <? s_a r) ||
                    (negb (s_blk r) && negb (is_confl (h_pol h)) && (0 <? h_cap h) && (h_cap h <=? queued_at_most h r)))
          (h_sends h).
Definition chk_after_stop (h : history) : bool :=
  forallb (fun x => negb (h_stop_r h <? s_b x) || (s_res x =? 0)) (h_sends h).
Definition chk_all (h : history) : bool :=
  negb (h_full_run h) ||
  (negb (h_stalled h) &&
   (if is_confl (h_pol h)
    then (is_nil (acc_sends h) || negb (is_nil (flat h))) &&
         forallb (fun y => forallb (fun x => negb (s_a y <? s_b x)) (acc_sends h)) (last_deliv_send h)
    else forallb (fun x => memz (s_v x) (flat h)) (acc_sends h))).
Definition chk_latest (h : history) : bool :=
  negb (is_confl (h_pol h)) ||
  forallb (fun d => forallb (fun y => negb (memz (s_v y) (d_vals d)) ||
                      forallb (fun x => negb ((s_a y <? s_b x) && (s_a x <? d_cs d))) (acc_sends h)) (acc_sends h))
          (h_delivs h).

Definition pushq_history_ok (h : history) : bool :=
  chk_wf h && chk_once h && chk_fifo h && chk_times h && chk_cap h && chk_refuse h &&
  chk_after_stop h && chk_all h && chk_latest h && chk_batch h.

(* the first failing check, for the replay report; 0 = none *)
Definition first_failure (h : history) : Z :=
  if negb (chk_wf h) then 1 else if negb (chk_once h) then 2 else if negb (chk_fifo h) then 3
  else if negb (chk_times h) then 4 else if negb (chk_cap h) then 5 else if negb (chk_refuse h) then 6
  else if negb (chk_after_stop h) then 7 else if negb (chk_all h) then 8 else if negb (chk_latest h) then 9
  else if negb (chk_batch h) then 10 else 0.

(* ---- decoding a recorded history (the driver's mode-2 output) ---- *)
Definition parse_history (hdr : line) (ls : wire) : history :=
  let h0 := mkHist (policy_of (nthz 1 hdr)) (if nthz 1 hdr =? 2 then 0 else nthz 2 hdr) 0 0 0 true true false [] [] [] in
  let add (h : history) (l : line) : history :=
    match l with
    | 23 :: sb :: sr :: se :: cyc :: stl :: er :: md :: _ =>
        mkHist (h_pol h) (h_cap h) sb sr se (z2b stl) (z2b er) (md =? 0) (h_sends h) (h_delivs h) (h_samples h)
    | 20 :: p :: k :: v :: bl :: rs :: b :: a :: _ =>
        mkHist (h_pol h) (h_cap h) (h_stop_b h) (h_stop_r h) (h_stop_e h) (h_stalled h) (h_err h) (h_full_run h)
               (h_sends h ++ [mkSend p k v (z2b bl) rs b a]) (h_delivs h) (h_samples h)
    | 21 :: t :: cs :: ds :: vs =>
        mkHist (h_pol h) (h_cap h) (h_stop_b h) (h_stop_r h) (h_stop_e h) (h_stalled h) (h_err h) (h_full_run h)
               (h_sends h) (h_delivs h ++ [mkDeliv t cs ds vs]) (h_samples h)
    | 22 :: tk :: n :: _ =>
        mkHist (h_pol h) (h_cap h) (h_stop_b h) (h_stop_r h) (h_stop_e h) (h_stalled h) (h_err h) (h_full_run h)
               (h_sends h) (h_delivs h) (h_samples h ++ [(tk, n)])
    | _ => mkHist (h_pol h) (h_cap h) (h_stop_b h) (h_stop_r h) (h_stop_e h) (h_stalled h) true (h_full_run h)
                  (h_sends h) (h_delivs h) (h_samples h)
    end in
  fold_left add ls h0.

Fixpoint after_marker (c : wire) : wire :=
  match c with
  | [] => []
  | l :: r => match l with (-1) :: _ => r | _ => after_marker r end
  end.

(* Entry point of the correspondence check.  The case is followed by a line [-1] and the
   implementation's output (PIPE).  Mode 1: the model's own output (compared with the
   implementation's by the orchestrator).  Mode 2: the acceptor's verdict on the recorded history. *)
Definition run_pushq (c : wire) : wire :=
  match c with
  | hdr :: rest =>
      if nthz 0 hdr =? 1 then run_seq hdr rest
      else if nthz 0 hdr =? 2 then
        let h := parse_history hdr (after_marker rest) in
        if pushq_history_ok h then [[1]] else [[0; first_failure h]]
      else [[90; 0]]
  | [] => [[98]]
  end.
