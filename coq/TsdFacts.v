(* TsdFacts.v — lemmas about the TSD<int, TS<int>> mirror model of Coll.v. *)
Require Import Base Coll CollOld CollFacts.
From Coq Require Import ZifyBool Arith.
Local Open Scope nat_scope.

(* ------------------------------------------------------------------ pointwise view *)
Definition dst (s : tsd) (i : nat) : slot := slot_at (d_ks s) i.
Definition da (s : tsd) (i : nat) : bool := bit i (d_add s).
Definition dr (s : tsd) (i : nat) : bool := bit i (d_rem s).
Definition dm (s : tsd) (i : nat) : bool := bit i (d_mod s).
Definition dp (s : tsd) (i : nat) : bool := bit i (d_pub s).
Definition dv (s : tsd) (i : nat) : bool := c_valid (child_at s i).

Definition slot_ok (x : sstate) (a r m p v : bool) : Prop :=
  match x with
  | SFree => a = false /\ r = false /\ m = false /\ p = false
  | SLive => r = false /\ (a = true -> p = true) /\ (m = true -> p = true) /\ p = v
  | SPend => a = false /\ m = false /\ p = false /\ (r = true -> v = true)
  end.

Record DInv (s : tsd) : Prop := mkDInv {
  di_k : KInv (d_ks s);
  di_lc : length (d_ch s) = ks_cap (d_ks s);
  di_la : length (d_add s) = ks_cap (d_ks s);
  di_lr : length (d_rem s) = ks_cap (d_ks s);
  di_lm : length (d_mod s) = ks_cap (d_ks s);
  di_lp : length (d_pub s) = ks_cap (d_ks s);
  di_bits : forall i, slot_ok (s_st (dst s i)) (da s i) (dr s i) (dm s i) (dp s i) (dv s i)
}.

Lemma dinv_empty : DInv tsd_empty.
Proof.
  constructor; try reflexivity; [apply kinv_empty|].
  intros i. unfold dst, da, dr, dm, dp, bit, slot_at. simpl. destruct i; simpl; auto.
Qed.

(* published members, and the delta sets read off the slots *)
Definition inP (s : tsd) (k : Z) : Prop := exists i, dst s i = mkSlot SLive k /\ dp s i = true.
Definition inDA (s : tsd) (k : Z) : Prop := exists i, dst s i = mkSlot SLive k /\ da s i = true.
Definition inDR (s : tsd) (k : Z) : Prop := exists i, dst s i = mkSlot SPend k /\ dr s i = true.
Definition inDM (s : tsd) (k : Z) : Prop := exists i, dst s i = mkSlot SLive k /\ dm s i = true.
Definition inDOld (s : tsd) (k : Z) : Prop :=
  exists i, (dst s i = mkSlot SLive k /\ dp s i = true /\ da s i = false) \/ (dst s i = mkSlot SPend k /\ dr s i = true).

Lemma dst_uniq s i j k x y : DInv s -> dst s i = mkSlot x k -> dst s j = mkSlot y k -> x <> SFree -> y <> SFree -> i = j.
Proof.
  intros T Hi Hj Hx Hy. apply (ki_uniq _ (di_k s T)); fold (dst s i); fold (dst s j).
  - rewrite Hi. apply constructed_iff. exact Hx.
  - rewrite Hj. apply constructed_iff. exact Hy.
  - rewrite Hi, Hj. reflexivity.
Qed.

Lemma inDA_iff s k : DInv s -> (inDA s k <-> inP s k /\ ~ inDOld s k).
Proof.
  intros T. split.
  - intros [i [H1 H2]]. pose proof (di_bits s T i) as B. rewrite H1 in B. cbn in B. destruct B as [_ [B _]].
    split; [exists i; auto|].
    intros [j [[Q1 [Q2 Q3]]|[Q1 Q2]]].
    + assert (i = j) by (apply (dst_uniq s i j k SLive SLive T H1 Q1); discriminate). subst. congruence.
    + assert (i = j) by (apply (dst_uniq s i j k SLive SPend T H1 Q1); discriminate). subst. congruence.
  - intros [[i [H1 H2]] N]. exists i. split; auto.
    destruct (da s i) eqn:E; auto. exfalso. apply N. exists i. left. auto.
Qed.

Lemma inDR_iff s k : DInv s -> (inDR s k <-> inDOld s k /\ ~ inP s k).
Proof.
  intros T. split.
  - intros [i [H1 H2]]. split; [exists i; right; auto|].
    intros [j [Q _]]. assert (i = j) by (apply (dst_uniq s i j k SPend SLive T H1 Q); discriminate). subst. congruence.
  - intros [[i [[Q1 [Q2 Q3]]|[Q1 Q2]]] N].
    + exfalso. apply N. exists i. auto.
    + exists i. auto.
Qed.

Lemma inDM_live s k : DInv s -> inDM s k -> inP s k.
Proof.
  intros T [i [H1 H2]]. exists i. split; auto.
  pose proof (di_bits s T i) as B. rewrite H1 in B. cbn in B. tauto.
Qed.

(* ------------------------------------------------------------------ ensure_delta_capacity *)
Lemma nth_pad_grow {A} i n (l : list A) d : length l <= n -> nth i (firstn n l ++ repeat d (n - length l)) d = nth i l d.
Proof.
  intros H. rewrite firstn_all2 by exact H.
  destruct (Nat.lt_ge_cases i (length l)) as [L|L].
  - apply app_nth1. exact L.
  - rewrite app_nth2 by exact L. rewrite (nth_overflow l) by exact L.
    destruct (nth_in_or_default (i - length l) (repeat d (n - length l)) d) as [Q|Q]; auto.
    apply repeat_spec in Q. exact Q.
Qed.

Lemma d_ensure_view ks' ch a r m p dt lmt kl :
  length ch = length a -> length r = length a -> length m = length a -> length p = length a -> length a <= ks_cap ks' ->
  let s2 := d_ensure (mkD ks' ch a r m p dt lmt kl) in
  d_ks s2 = ks' /\ length (d_ch s2) = ks_cap ks' /\ length (d_add s2) = ks_cap ks' /\ length (d_rem s2) = ks_cap ks' /\
  length (d_mod s2) = ks_cap ks' /\ length (d_pub s2) = ks_cap ks' /\
  d_dt s2 = dt /\ d_lmt s2 = lmt /\ d_kslmt s2 = kl /\
  (forall i, bit i (d_add s2) = bit i a /\ bit i (d_rem s2) = bit i r /\ bit i (d_mod s2) = bit i m /\ bit i (d_pub s2) = bit i p /\
             nth i (d_ch s2) child0 = nth i ch child0).
Proof.
  intros E1 E2 E3 E4 L. unfold d_ensure. cbn [d_ks d_ch d_add d_rem d_mod d_pub d_dt d_lmt d_kslmt].
  rewrite E1.
  destruct (Nat.eqb_spec (length a) (ks_cap ks')) as [Q|Q]; cbn zeta; cbn [d_ks d_ch d_add d_rem d_mod d_pub d_dt d_lmt d_kslmt].
  - repeat split; auto; congruence.
  - rewrite !resize_length. unfold resize_ch. rewrite app_length, firstn_length, repeat_length.
    repeat split; auto; try lia; try (apply bit_resize_grow; lia).
    apply nth_pad_grow. lia.
Qed.

Lemma d_ensure_id s : DInv s -> d_ensure s = s.
Proof.
  intros T. unfold d_ensure. rewrite (di_lc s T), (di_la s T), !Nat.eqb_refl. destruct s; reflexivity.
Qed.

(* a state whose vectors are explicit: reading the pointwise view *)
Ltac dview := unfold dst, da, dr, dm, dp, dv, child_at; cbn [d_ks d_ch d_add d_rem d_mod d_pub d_dt d_lmt d_kslmt].

(* ------------------------------------------------------------------ prepare_delta *)
Lemma d_prepare_same t s : DInv s -> (t <= d_dt s)%Z -> d_prepare t s = s.
Proof.
  intros T H. unfold d_prepare. destruct (Z.leb_spec t (d_dt s)); [|lia]. apply d_ensure_id. exact T.
Qed.

Lemma d_prepare_roll t s :
  DInv s -> (d_dt s < t)%Z ->
  let s1 := d_prepare t s in
  DInv s1 /\ d_dt s1 = t /\ d_lmt s1 = d_lmt s /\
  (forall i, da s1 i = false /\ dr s1 i = false /\ dm s1 i = false /\ dp s1 i = dp s i /\ dv s1 i = dv s i) /\
  (forall i, dst s1 i = if pend (dst s i) then free_slot else dst s i).
Proof.
  intros T H. unfold d_prepare. destruct (Z.leb_spec t (d_dt s)); [lia|].
  destruct (k_erase_pending_spec (d_ks s) (di_k s T)) as [K1 [C1 S1]].
  assert (TT : DInv (mkD (k_erase_pending (d_ks s)) (d_ch s) (clear_bits (d_add s)) (clear_bits (d_rem s)) (clear_bits (d_mod s))
                        (d_pub s) t (d_lmt s) (d_kslmt s))).
  { constructor; cbn [d_ks d_ch d_add d_rem d_mod d_pub]; rewrite ?clear_bits_length, ?C1;
      try apply (di_lc s T); try apply (di_la s T); try apply (di_lr s T); try apply (di_lm s T); try apply (di_lp s T); [exact K1|].
    intros i. dview. rewrite !bit_clear, S1.
    pose proof (di_bits s T i) as B. unfold dst, da, dr, dm, dp, dv, child_at in B.
    destruct (s_st (slot_at (d_ks s) i)) eqn:Q; unfold pend; rewrite Q; cbn [sstate_eqb]; rewrite ?Q; cbn; cbn in B; intuition congruence. }
  rewrite d_ensure_id by exact TT. cbn zeta.
  split; [exact TT|]. split; [reflexivity|]. split; [reflexivity|]. split.
  - intros i. dview. rewrite !bit_clear. auto.
  - intros i. unfold dst. cbn [d_ks]. apply S1.
Qed.

(* ------------------------------------------------------------------ insert_key after the roll *)
Definition d_insert_core (t k : Z) (s1 : tsd) : nat * bool * tsd :=
  let '(r, ks') := k_insert k (d_ks s1) in
  let i := ir_slot r in
  let s2 := d_ensure (mkD ks' (d_ch s1) (d_add s1) (d_rem s1) (d_mod s1) (d_pub s1) (d_dt s1) (d_lmt s1) (d_kslmt s1)) in
  let s3 := if ir_constructed r
            then mkD (d_ks s2) (set_nth i child0 (d_ch s2)) (d_add s2) (d_rem s2) (d_mod s2) (d_pub s2) (d_dt s2) (d_lmt s2) (d_kslmt s2)
            else s2 in
  if negb (ir_inserted r) then (i, false, s3)
  else
    let s4 := if bit i (d_rem s3)
              then d_set_bits s3 (d_add s3) (set_nth i false (d_rem s3)) (d_mod s3) (set_nth i true (d_pub s3))
              else if c_valid (child_at s3 i)
                   then d_set_bits s3 (set_nth i true (d_add s3)) (d_rem s3) (d_mod s3) (set_nth i true (d_pub s3))
                   else s3 in
    let s5 := if negb (ir_constructed r) && bit i (d_pub s4) && (c_lmt (child_at s4 i) =? t)%Z
              then d_set_bits s4 (d_add s4) (d_rem s4) (set_nth i true (d_mod s4)) (d_pub s4)
              else s4 in
    (i, true, mkD (d_ks s5) (d_ch s5) (d_add s5) (d_rem s5) (d_mod s5) (d_pub s5) (d_dt s5) (d_lmt s5) (rec_mod t (d_kslmt s5))).
Lemma d_insert_key_eq t k s : d_insert_key t k s = d_insert_core t k (d_prepare t s).
Proof. reflexivity. Qed.

Lemma nth_set_nth_ch i j (c : child) l :
  nth j (set_nth i c l) child0 = if (j =? i) && (i <? length l) then c else nth j l child0.
Proof. apply nth_set_nth. Qed.

Lemma ltb_true i n : i < n -> (i <? n) = true.
Proof. intros H. apply Nat.ltb_lt. exact H. Qed.

Lemma d_insert_core_spec t k s i ch s' :
  DInv s -> d_insert_core t k s = (i, ch, s') ->
  DInv s' /\ d_dt s' = d_dt s /\ d_lmt s' = d_lmt s /\ i < ks_cap (d_ks s') /\ dst s' i = mkSlot SLive k /\
  (forall k', inDOld s' k' <-> inDOld s k') /\
  (forall k', inP s k' -> inP s' k') /\
  (forall j, j <> i -> dst s' j = dst s j /\ dm s' j = dm s j /\ dp s' j = dp s j /\ child_at s' j = child_at s j) /\
  ( (ch = false /\ dst s i = mkSlot SLive k /\ dm s' i = dm s i /\ dp s' i = dp s i /\ child_at s' i = child_at s i)
 \/ (ch = true /\ dst s i = mkSlot SPend k /\ child_at s' i = child_at s i /\
       (c_lmt (child_at s i) = t -> dp s' i = true -> dm s' i = true))
 \/ (ch = true /\ s_st (dst s i) = SFree /\ child_at s' i = child0) ) /\
  (dm s' i = true -> dm s i = true \/ c_lmt (child_at s' i) = t).
Proof.
  intros T H. unfold d_insert_core in H.
  destruct (k_insert k (d_ks s)) as [r ks'] eqn:KI.
  destruct (k_insert_spec k (d_ks s) r ks' (di_k s T) KI) as [K' [CP [Li [SL [Hno [Hres [Hnew _]]]]]]].
  destruct (d_ensure_view ks' (d_ch s) (d_add s) (d_rem s) (d_mod s) (d_pub s) (d_dt s) (d_lmt s) (d_kslmt s))
    as [E1 [Ec [Ea [Er [Em [Ep [Edt [Elmt [Ekl EB]]]]]]]]].
  { rewrite (di_lc s T), (di_la s T). reflexivity. }
  { rewrite (di_lr s T), (di_la s T). reflexivity. }
  { rewrite (di_lm s T), (di_la s T). reflexivity. }
  { rewrite (di_lp s T), (di_la s T). reflexivity. }
  { rewrite (di_la s T). exact CP. }
  set (s2 := d_ensure _) in *.
  set (j0 := ir_slot r) in *.
  assert (B := di_bits s T).
  assert (ST2 : forall j, slot_at ks' j = if j =? j0 then mkSlot SLive k else dst s j) by (intros j; apply SL).
  assert (OLD : forall j, j <> j0 -> slot_at ks' j = dst s j) by (intros j Hj; rewrite ST2; destruct (Nat.eqb_spec j j0); [contradiction|reflexivity]).
  (* the four situations of slot j0 before the insert *)
  destruct (ir_inserted r) eqn:INS; cbn [negb] in H.
  2:{ (* already live *)
    destruct (Hno eq_refl) as [LV [EQ CON]]. rewrite CON in H. injection H as Hi Hc Hs; rewrite <- ?Hi, <- ?Hc, <- ?Hs; clear Hi Hc Hs.
    fold j0 in LV. fold (dst s j0) in LV.
    assert (VW : forall j, dst s2 j = dst s j /\ da s2 j = da s j /\ dr s2 j = dr s j /\ dm s2 j = dm s j /\ dp s2 j = dp s j /\ dv s2 j = dv s j).
    { intros j. destruct (EB j) as [B1 [B2 [B3 [B4 B5]]]]. unfold dst, da, dr, dm, dp, dv, child_at. rewrite E1, B1, B2, B3, B4, B5.
      repeat split; auto. rewrite ST2. destruct (Nat.eqb_spec j j0) as [Ej|Ej]; [rewrite Ej; symmetry; exact LV|reflexivity]. }
    assert (VCH : forall j, child_at s2 j = child_at s j) by (intros j; unfold child_at; apply EB).
    split.
    { constructor; rewrite ?E1; auto. intros j. destruct (VW j) as [V1 [V2 [V3 [V4 [V5 V6]]]]]. rewrite V1, V2, V3, V4, V5, V6. apply B. }
    split; [exact Edt|]. split; [exact Elmt|]. split; [rewrite E1; exact Li|].
    split; [destruct (VW j0) as [V1 _]; rewrite V1; exact LV|].
    split; [intros k'; split; intros [j Q]; exists j; destruct (VW j) as [V1 [V2 [V3 [V4 [V5 V6]]]]];
            [rewrite <- V1, <- V2, <- V3, <- V5|rewrite V1, V2, V3, V5]; exact Q|].
    split; [intros k' [j Q]; exists j; destruct (VW j) as [V1 [V2 [V3 [V4 [V5 V6]]]]]; rewrite V1, V5; exact Q|].
    split; [intros j _; destruct (VW j) as [V1 [V2 [V3 [V4 [V5 V6]]]]]; rewrite V1, V4, V5, VCH; auto|].
    split; [left; destruct (VW j0) as [V1 [V2 [V3 [V4 [V5 V6]]]]]; rewrite V4, V5, VCH; auto|].
    destruct (VW j0) as [_ [_ [_ [V4 _]]]]. rewrite V4. auto. }
  (* inserted: resurrected pending slot, or a new slot *)
  assert (PRE : (ir_constructed r = false /\ dst s j0 = mkSlot SPend k) \/
                (ir_constructed r = true /\ s_st (dst s j0) = SFree /\ find_stored (d_ks s) k = None)).
  { destruct (ir_constructed r) eqn:CON; [right|left]; split; auto.
    destruct (Hnew eq_refl) as [_ [F1 F2]]. split; [exact F1|exact F2]. }
  set (s3 := if ir_constructed r
             then mkD (d_ks s2) (set_nth j0 child0 (d_ch s2)) (d_add s2) (d_rem s2) (d_mod s2) (d_pub s2) (d_dt s2) (d_lmt s2) (d_kslmt s2)
             else s2) in *.
  assert (S3 : d_ks s3 = ks' /\ length (d_ch s3) = ks_cap ks' /\ d_add s3 = d_add s2 /\ d_rem s3 = d_rem s2 /\ d_mod s3 = d_mod s2 /\
               d_pub s3 = d_pub s2 /\ d_dt s3 = d_dt s /\ d_lmt s3 = d_lmt s /\
               (forall j, j <> j0 -> nth j (d_ch s3) child0 = nth j (d_ch s) child0) /\
               (nth j0 (d_ch s3) child0 = if ir_constructed r then child0 else child_at s j0)).
  { unfold s3. destruct (ir_constructed r); cbn [d_ks d_ch d_add d_rem d_mod d_pub d_dt d_lmt].
    - rewrite set_nth_length. repeat split; auto.
      + intros j Hj. rewrite nth_set_nth_ch. destruct (Nat.eqb_spec j j0); [contradiction|]. cbn [andb]. apply EB.
      + rewrite nth_set_nth_ch, Nat.eqb_refl, ltb_true by (rewrite Ec; exact Li). reflexivity.
    - repeat split; auto.
      + intros j Hj. apply EB.
      + unfold child_at. apply EB. }
  destruct S3 as [S3k [S3c [S3a [S3r [S3m [S3p [S3dt [S3lmt [S3ch S3c0]]]]]]]]].
  assert (S3v : c_valid (nth j0 (d_ch s3) child0) = if ir_constructed r then false else dv s j0).
  { rewrite S3c0. destruct (ir_constructed r); reflexivity. }
  assert (BITS3 : forall j, bit j (d_add s3) = da s j /\ bit j (d_rem s3) = dr s j /\ bit j (d_mod s3) = dm s j /\ bit j (d_pub s3) = dp s j).
  { intros j. rewrite S3a, S3r, S3m, S3p. destruct (EB j) as [B1 [B2 [B3 [B4 _]]]]. auto. }
  assert (B0 := B j0).
  assert (MZ : dm s j0 = false).
  { destruct PRE as [[_ P1]|[_ [P1 _]]]; rewrite P1 in B0; cbn in B0; tauto. }
  assert (AZ : da s j0 = false).
  { destruct PRE as [[_ P1]|[_ [P1 _]]]; rewrite P1 in B0; cbn in B0; tauto. }
  assert (PZ : dp s j0 = false).
  { destruct PRE as [[_ P1]|[_ [P1 _]]]; rewrite P1 in B0; cbn in B0; tauto. }
  assert (NOTLIVE : forall k', dst s j0 = mkSlot SLive k' -> False).
  { intros k' Q. destruct PRE as [[_ P1]|[_ [P1 _]]]; rewrite Q in P1; discriminate. }
  destruct (BITS3 j0) as [BA [BR [BM BP]]].
  pose (upd := fun (o : option bool) (l : list bool) => match o with Some b => set_nth j0 b l | None => l end).
  pose (val := fun (o : option bool) (old : bool) => match o with Some b => b | None => old end).
  assert (UPD : forall o l j, length l = ks_cap ks' -> length (upd o l) = ks_cap ks' /\
                 bit j (upd o l) = if j =? j0 then val o (bit j0 l) else bit j l).
  { intros o l j Hl. destruct o as [b|]; cbn [upd val].
    - rewrite set_nth_length, bit_set_nth. split; auto.
      destruct (Nat.eqb_spec j j0) as [Ej|Ej]; [rewrite ltb_true by (rewrite Hl; exact Li); reflexivity|reflexivity].
    - split; auto. destruct (Nat.eqb_spec j j0) as [Ej|Ej]; [rewrite Ej|]; reflexivity. }
  (* common tail: the final state differs from s3 only in the add / rem / mod / pub bits of slot j0 *)
  assert (FIN : forall ao ro mo po kl,
     let sf := mkD (d_ks s3) (d_ch s3) (upd ao (d_add s3)) (upd ro (d_rem s3)) (upd mo (d_mod s3)) (upd po (d_pub s3)) (d_dt s3) (d_lmt s3) kl in
     let a' := val ao (da s j0) in let r' := val ro (dr s j0) in let m' := val mo false in let p' := val po (dp s j0) in
     slot_ok SLive a' r' m' p' (c_valid (nth j0 (d_ch s3) child0)) ->
     ((p' = true /\ a' = false) <-> (dst s j0 = mkSlot SPend k /\ dr s j0 = true)) ->
     (ir_constructed r = false -> c_lmt (child_at s j0) = t -> p' = true -> m' = true) ->
     (m' = true -> c_lmt (nth j0 (d_ch s3) child0) = t) ->
     DInv sf /\ d_dt sf = d_dt s /\ d_lmt sf = d_lmt s /\ j0 < ks_cap (d_ks sf) /\ dst sf j0 = mkSlot SLive k /\
     (forall k', inDOld sf k' <-> inDOld s k') /\ (forall k', inP s k' -> inP sf k') /\
     (forall j, j <> j0 -> dst sf j = dst s j /\ dm sf j = dm s j /\ dp sf j = dp s j /\ child_at sf j = child_at s j) /\
     ( (true = false /\ dst s j0 = mkSlot SLive k /\ dm sf j0 = dm s j0 /\ dp sf j0 = dp s j0 /\ child_at sf j0 = child_at s j0)
    \/ (true = true /\ dst s j0 = mkSlot SPend k /\ child_at sf j0 = child_at s j0 /\
          (c_lmt (child_at s j0) = t -> dp sf j0 = true -> dm sf j0 = true))
    \/ (true = true /\ s_st (dst s j0) = SFree /\ child_at sf j0 = child0) ) /\
     (dm sf j0 = true -> dm s j0 = true \/ c_lmt (child_at sf j0) = t)).
  { intros ao ro mo po kl sf a' r' m' p' OK OLDIFF MOK MJ.
    assert (LA : length (d_add s3) = ks_cap ks') by (rewrite S3a; exact Ea).
    assert (LR : length (d_rem s3) = ks_cap ks') by (rewrite S3r; exact Er).
    assert (LM : length (d_mod s3) = ks_cap ks') by (rewrite S3m; exact Em).
    assert (LP : length (d_pub s3) = ks_cap ks') by (rewrite S3p; exact Ep).
    assert (STF : forall j, dst sf j = if j =? j0 then mkSlot SLive k else dst s j).
    { intros j. unfold dst at 1, sf. cbn [d_ks]. rewrite S3k. apply ST2. }
    assert (VF : forall j, da sf j = (if j =? j0 then a' else da s j) /\ dr sf j = (if j =? j0 then r' else dr s j) /\
                           dm sf j = (if j =? j0 then m' else dm s j) /\ dp sf j = (if j =? j0 then p' else dp s j) /\
                           (j <> j0 -> dv sf j = dv s j) /\ dv sf j0 = c_valid (nth j0 (d_ch s3) child0)).
    { intros j. unfold da at 1, dr at 1, dm at 1, dp at 1, dv at 1 3, child_at, sf. cbn [d_add d_rem d_mod d_pub d_ch].
      destruct (UPD ao (d_add s3) j LA) as [_ U1]. destruct (UPD ro (d_rem s3) j LR) as [_ U2]. destruct (UPD po (d_pub s3) j LP) as [_ U3].
      destruct (UPD mo (d_mod s3) j LM) as [_ U4].
      rewrite U1, U2, U3, U4. destruct (BITS3 j) as [Q1 [Q2 [Q3 Q4]]]. rewrite Q1, Q2, Q3, Q4, BA, BR, BP, BM, MZ.
      repeat split; auto. intros Hj. unfold dv, child_at. f_equal. apply S3ch. exact Hj. }
    assert (VC : forall j, child_at sf j = nth j (d_ch s3) child0) by (intros j; reflexivity).
    split.
    { constructor.
      - unfold sf; cbn [d_ks]. rewrite S3k. exact K'.
      - unfold sf; cbn [d_ks d_ch]. rewrite S3k. exact S3c.
      - unfold sf; cbn [d_ks d_add]. rewrite S3k. exact (proj1 (UPD ao (d_add s3) 0 LA)).
      - unfold sf; cbn [d_ks d_rem]. rewrite S3k. exact (proj1 (UPD ro (d_rem s3) 0 LR)).
      - unfold sf; cbn [d_ks d_mod]. rewrite S3k. exact (proj1 (UPD mo (d_mod s3) 0 LM)).
      - unfold sf; cbn [d_ks d_pub]. rewrite S3k. exact (proj1 (UPD po (d_pub s3) 0 LP)).
      - intros j. rewrite STF. destruct (VF j) as [V1 [V2 [V3 [V4 [V5 V6]]]]]. rewrite V1, V2, V3, V4.
        destruct (Nat.eqb_spec j j0) as [Ej|Ej].
        + rewrite Ej. cbn [s_st]. rewrite V6. exact OK.
        + rewrite (V5 Ej). apply B. }
    split; [exact S3dt|]. split; [exact S3lmt|]. split; [unfold sf; cbn [d_ks]; rewrite S3k; exact Li|].
    split; [rewrite STF, Nat.eqb_refl; reflexivity|].
    split.
    { intros k'. split.
      + intros [j Q]. destruct (VF j) as [V1 [V2 [V3 [V4 [V5 V6]]]]]. rewrite STF, V1, V2, V4 in Q.
        destruct (Nat.eqb_spec j j0) as [Ej|Ej]; [|exists j; exact Q].
        destruct Q as [[Q1 [Q2 Q3]]|[Q1 _]]; [|discriminate].
        inversion Q1; subst k'. exists j0. right. apply OLDIFF. auto.
      + intros [j Q]. exists j. destruct (VF j) as [V1 [V2 [V3 [V4 [V5 V6]]]]]. rewrite STF, V1, V2, V4.
        destruct (Nat.eqb_spec j j0) as [Ej|Ej]; [|exact Q]. rewrite Ej in Q.
        destruct Q as [[Q1 _]|[Q1 Q2]]; [exfalso; exact (NOTLIVE _ Q1)|].
        destruct PRE as [[_ P1]|[_ [P1 _]]]; [|rewrite Q1 in P1; discriminate].
        rewrite Q1 in P1. inversion P1; subst k'. left. split; auto. apply OLDIFF. split; auto. }
    split.
    { intros k' [j [Q1 Q2]]. exists j. destruct (VF j) as [V1 [V2 [V3 [V4 [V5 V6]]]]]. rewrite STF, V4.
      destruct (Nat.eqb_spec j j0) as [Ej|Ej]; [|auto]. rewrite Ej in Q1. exfalso. exact (NOTLIVE _ Q1). }
    split.
    { intros j Hj. destruct (VF j) as [V1 [V2 [V3 [V4 [V5 V6]]]]]. rewrite STF, V3, V4, VC.
      destruct (Nat.eqb_spec j j0); [contradiction|]. repeat split; auto. apply S3ch. exact Hj. }
    destruct (VF j0) as [V1 [V2 [V3 [V4 [V5 V6]]]]]. rewrite Nat.eqb_refl in V3, V4.
    split.
    { destruct PRE as [[P0 P1]|[P0 [P1 P2]]].
      - right. left. rewrite VC, S3c0, P0, V3, V4. repeat split; auto.
      - right. right. rewrite VC, S3c0, P0. auto. }
    rewrite V3, VC. intros Q. right. apply MJ. exact Q. }
  assert (CV3 : c_valid (child_at s3 j0) = c_valid (nth j0 (d_ch s3) child0)) by reflexivity.
  assert (PUBV : forall po, bit j0 (upd po (d_pub s3)) = val po (dp s j0)).
  { intros po. assert (LP : length (d_pub s3) = ks_cap ks') by (rewrite S3p; exact Ep).
    destruct (UPD po (d_pub s3) j0 LP) as [_ U]. rewrite U, Nat.eqb_refl, BP. reflexivity. }
  assert (NOTT : ir_constructed r = false -> (c_lmt (nth j0 (d_ch s3) child0) =? t)%Z = false -> c_lmt (child_at s j0) = t -> False).
  { intros CF E Q. rewrite S3c0, CF in E. apply Z.eqb_neq in E. contradiction. }
  destruct (bit j0 (d_rem s3)) eqn:RB.
  - (* remove-then-add: the removal mark is dropped, the value is published again *)
    assert (RS : dr s j0 = true) by congruence.
    assert (PS : dst s j0 = mkSlot SPend k).
    { destruct PRE as [[_ P1]|[_ [P1 _]]]; auto. rewrite P1 in B0. cbn in B0. destruct B0 as [_ [B0 _]]. congruence. }
    assert (CONF : ir_constructed r = false).
    { destruct PRE as [[P1 _]|[_ [P1 _]]]; auto. rewrite PS in P1. discriminate. }
    unfold d_set_bits in H. cbn [d_ks d_ch d_add d_rem d_mod d_pub d_dt d_lmt d_kslmt] in H.
    change (set_nth j0 true (d_pub s3)) with (upd (Some true) (d_pub s3)) in H.
    unfold child_at in H. cbn [d_ch] in H. rewrite (PUBV (Some true)), CONF in H. cbn [val negb andb] in H.
    destruct (c_lmt (nth j0 (d_ch s3) child0) =? t)%Z eqn:CD;
      cbn [d_ks d_ch d_add d_rem d_mod d_pub d_dt d_lmt d_kslmt] in H;
      injection H as Hi Hc Hs; rewrite <- ?Hi, <- ?Hc, <- ?Hs; clear Hi Hc Hs.
    + apply (FIN None (Some false) (Some true) (Some true)); cbn [val].
      * cbn [slot_ok]. repeat split; auto; try discriminate. rewrite S3v, CONF. symmetry.
        rewrite PS in B0. cbn in B0. apply B0. exact RS.
      * split; auto.
      * auto.
      * intros _. apply Z.eqb_eq. exact CD.
    + apply (FIN None (Some false) None (Some true)); cbn [val].
      * cbn [slot_ok]. repeat split; auto; try discriminate. rewrite S3v, CONF. symmetry.
        rewrite PS in B0. cbn in B0. apply B0. exact RS.
      * split; auto.
      * intros CF Q _. exfalso. exact (NOTT CF eq_refl Q).
      * intros Q; discriminate Q.
  - destruct (c_valid (child_at s3 j0)) eqn:CV.
    + (* the pending slot of an element that was added and removed in this cycle, child still valid *)
      assert (RS : dr s j0 = false) by congruence.
      unfold d_set_bits in H. cbn [d_ks d_ch d_add d_rem d_mod d_pub d_dt d_lmt d_kslmt] in H.
      change (set_nth j0 true (d_pub s3)) with (upd (Some true) (d_pub s3)) in H.
      unfold child_at in H. cbn [d_ch] in H. rewrite (PUBV (Some true)) in H. cbn [val andb] in H. rewrite andb_true_r in H.
      destruct (negb (ir_constructed r) && (c_lmt (nth j0 (d_ch s3) child0) =? t)%Z) eqn:CD;
        cbn [d_ks d_ch d_add d_rem d_mod d_pub d_dt d_lmt d_kslmt] in H;
        injection H as Hi Hc Hs; rewrite <- ?Hi, <- ?Hc, <- ?Hs; clear Hi Hc Hs.
      * apply (FIN (Some true) None (Some true) (Some true)); cbn [val].
        -- cbn [slot_ok]. rewrite <- CV3. repeat split; auto.
        -- split; [intros [_ Q]; discriminate|intros [_ Q]; congruence].
        -- auto.
        -- intros _. apply andb_true_iff in CD. destruct CD as [_ CD]. apply Z.eqb_eq. exact CD.
      * apply (FIN (Some true) None None (Some true)); cbn [val].
        -- cbn [slot_ok]. rewrite <- CV3. repeat split; auto; discriminate.
        -- split; [intros [_ Q]; discriminate|intros [_ Q]; congruence].
        -- intros CF Q _. exfalso. rewrite CF in CD. cbn [negb andb] in CD. exact (NOTT CF CD Q).
        -- intros Q; discriminate Q.
    + (* a brand-new key (child not yet written), or a resurrected never-published one *)
      assert (RS : dr s j0 = false) by congruence.
      assert (CDF : negb (ir_constructed r) && bit j0 (d_pub s3) && (c_lmt (child_at s3 j0) =? t)%Z = false).
      { rewrite BP, PZ, andb_false_r. reflexivity. }
      rewrite CDF in H.
      injection H as Hi Hc Hs; rewrite <- ?Hi, <- ?Hc, <- ?Hs; clear Hi Hc Hs.
      apply (FIN None None None None); cbn [val].
      * cbn [slot_ok]. rewrite <- CV3, AZ, PZ. repeat split; auto; discriminate.
      * rewrite PZ. split; [intros [Q _]; discriminate|intros [_ Q]; congruence].
      * rewrite PZ. intros _ _ Q. discriminate.
      * intros Q; discriminate Q.
Qed.

(* ------------------------------------------------------------------ a generic single-slot update (no growth) *)
Definition updb (j0 : nat) (o : option bool) (l : list bool) : list bool := match o with Some b => set_nth j0 b l | None => l end.
Definition updc (j0 : nat) (o : option child) (l : list child) : list child := match o with Some c => set_nth j0 c l | None => l end.
Definition valb (o : option bool) (old : bool) : bool := match o with Some b => b | None => old end.
Definition oldp (x : sstate) (a r p : bool) : Prop := (x = SLive /\ p = true /\ a = false) \/ (x = SPend /\ r = true).

Lemma updb_spec j0 o l j n : length l = n -> j0 < n ->
  length (updb j0 o l) = n /\ bit j (updb j0 o l) = if j =? j0 then valb o (bit j0 l) else bit j l.
Proof.
  intros Hl Hj. destruct o as [b|]; cbn [updb valb].
  - rewrite set_nth_length, bit_set_nth. split; auto.
    destruct (Nat.eqb_spec j j0) as [Ej|Ej]; [rewrite ltb_true by (rewrite Hl; exact Hj); reflexivity|reflexivity].
  - split; auto. destruct (Nat.eqb_spec j j0) as [Ej|Ej]; [rewrite Ej|]; reflexivity.
Qed.

Lemma inDOld_oldp s k : inDOld s k <-> exists i x, dst s i = mkSlot x k /\ oldp x (da s i) (dr s i) (dp s i).
Proof.
  unfold inDOld, oldp. split.
  - intros [i [[Q1 [Q2 Q3]]|[Q1 Q2]]]; [exists i, SLive|exists i, SPend]; split; auto.
  - intros [i [x [Q [[E [P A]]|[E R]]]]]; subst x; exists i; [left|right]; auto.
Qed.

Lemma d_update_slot s ks' j0 k x x' ao ro mo po co dtf lmtf kl :
  DInv s -> KInv ks' -> ks_cap ks' = ks_cap (d_ks s) -> j0 < ks_cap ks' ->
  dst s j0 = mkSlot x k -> x' <> SFree ->
  (forall j, slot_at ks' j = if j =? j0 then mkSlot x' k else dst s j) ->
  let sf := mkD ks' (updc j0 co (d_ch s)) (updb j0 ao (d_add s)) (updb j0 ro (d_rem s)) (updb j0 mo (d_mod s)) (updb j0 po (d_pub s))
                dtf lmtf kl in
  let a' := valb ao (da s j0) in let r' := valb ro (dr s j0) in let m' := valb mo (dm s j0) in let p' := valb po (dp s j0) in
  let v' := match co with Some c => c_valid c | None => dv s j0 end in
  slot_ok x' a' r' m' p' v' ->
  (oldp x' a' r' p' <-> oldp x (da s j0) (dr s j0) (dp s j0)) ->
  DInv sf /\ (forall k', inDOld sf k' <-> inDOld s k') /\
  dst sf j0 = mkSlot x' k /\ da sf j0 = a' /\ dr sf j0 = r' /\ dm sf j0 = m' /\ dp sf j0 = p' /\ dv sf j0 = v' /\
  (forall j, j <> j0 -> dst sf j = dst s j /\ da sf j = da s j /\ dr sf j = dr s j /\ dm sf j = dm s j /\ dp sf j = dp s j /\ dv sf j = dv s j).
Proof.
  intros T K' CP Lj SJ NF SL sf a' r' m' p' v' OK OLD.
  assert (N : ks_cap (d_ks s) = ks_cap ks') by auto.
  assert (STF : forall j, dst sf j = if j =? j0 then mkSlot x' k else dst s j) by (intros j; apply SL).
  assert (VF : forall j, da sf j = (if j =? j0 then a' else da s j) /\ dr sf j = (if j =? j0 then r' else dr s j) /\
                         dm sf j = (if j =? j0 then m' else dm s j) /\ dp sf j = (if j =? j0 then p' else dp s j) /\
                         dv sf j = (if j =? j0 then v' else dv s j)).
  { intros j. unfold da at 1, dr at 1, dm at 1, dp at 1, dv at 1, child_at, sf. cbn [d_add d_rem d_mod d_pub d_ch].
    rewrite (proj2 (updb_spec j0 ao (d_add s) j _ (eq_trans (di_la s T) N) Lj)).
    rewrite (proj2 (updb_spec j0 ro (d_rem s) j _ (eq_trans (di_lr s T) N) Lj)).
    rewrite (proj2 (updb_spec j0 mo (d_mod s) j _ (eq_trans (di_lm s T) N) Lj)).
    rewrite (proj2 (updb_spec j0 po (d_pub s) j _ (eq_trans (di_lp s T) N) Lj)).
    repeat split; auto. unfold v', dv, child_at. destruct co as [c|]; cbn [updc].
    - rewrite nth_set_nth_ch. destruct (Nat.eqb_spec j j0); [rewrite ltb_true by (rewrite (di_lc s T), N; exact Lj)|]; reflexivity.
    - destruct (Nat.eqb_spec j j0) as [Ej|Ej]; [rewrite Ej|]; reflexivity. }
  assert (AT0 : dst sf j0 = mkSlot x' k /\ da sf j0 = a' /\ dr sf j0 = r' /\ dm sf j0 = m' /\ dp sf j0 = p' /\ dv sf j0 = v').
  { rewrite STF. destruct (VF j0) as [V1 [V2 [V3 [V4 V5]]]]. rewrite V1, V2, V3, V4, V5, Nat.eqb_refl. repeat split; auto. }
  assert (OTH : forall j, j <> j0 -> dst sf j = dst s j /\ da sf j = da s j /\ dr sf j = dr s j /\ dm sf j = dm s j /\ dp sf j = dp s j /\ dv sf j = dv s j).
  { intros j Hj. rewrite STF. destruct (VF j) as [V1 [V2 [V3 [V4 V5]]]]. rewrite V1, V2, V3, V4, V5.
    destruct (Nat.eqb_spec j j0); [contradiction|]. repeat split; auto. }
  split; [|split; [|split; [apply AT0|split; [apply AT0|split; [apply AT0|split; [apply AT0|split; [apply AT0|split; [apply AT0|exact OTH]]]]]]]].
  - constructor; unfold sf; cbn [d_ks d_ch d_add d_rem d_mod d_pub].
    + exact K'.
    + destruct co; cbn [updc]; rewrite ?set_nth_length; rewrite (di_lc s T); auto.
    + exact (proj1 (updb_spec j0 ao (d_add s) 0 _ (eq_trans (di_la s T) N) Lj)).
    + exact (proj1 (updb_spec j0 ro (d_rem s) 0 _ (eq_trans (di_lr s T) N) Lj)).
    + exact (proj1 (updb_spec j0 mo (d_mod s) 0 _ (eq_trans (di_lm s T) N) Lj)).
    + exact (proj1 (updb_spec j0 po (d_pub s) 0 _ (eq_trans (di_lp s T) N) Lj)).
    + intros j. fold sf. destruct (Nat.eq_dec j j0) as [Ej|Ej].
      * rewrite Ej. destruct AT0 as [A0 [A1 [A2 [A3 [A4 A5]]]]]. rewrite A0, A1, A2, A3, A4, A5. exact OK.
      * destruct (OTH j Ej) as [O0 [O1 [O2 [O3 [O4 O5]]]]]. rewrite O0, O1, O2, O3, O4, O5. apply (di_bits s T).
  - intros k'. rewrite !inDOld_oldp. split.
    + intros [j [y [Q O]]]. destruct (Nat.eq_dec j j0) as [Ej|Ej].
      * rewrite Ej in *. destruct AT0 as [A0 [A1 [A2 [A3 [A4 A5]]]]]. rewrite A0 in Q. inversion Q; subst y k'.
        rewrite A1, A2, A4 in O. exists j0, x. split; auto. apply OLD. exact O.
      * destruct (OTH j Ej) as [O0 [O1 [O2 [O3 [O4 O5]]]]]. exists j, y. rewrite <- O0, <- O1, <- O2, <- O4. auto.
    + intros [j [y [Q O]]]. destruct (Nat.eq_dec j j0) as [Ej|Ej].
      * rewrite Ej in *. rewrite SJ in Q. inversion Q; subst y k'.
        destruct AT0 as [A0 [A1 [A2 [A3 [A4 A5]]]]]. exists j0, x'. rewrite A0, A1, A2, A4. split; auto. apply OLD. exact O.
      * destruct (OTH j Ej) as [O0 [O1 [O2 [O3 [O4 O5]]]]]. exists j, y. rewrite O0, O1, O2, O4. auto.
Qed.

Lemma d_ensure_id' x : length (d_ch x) = ks_cap (d_ks x) -> length (d_add x) = ks_cap (d_ks x) -> d_ensure x = x.
Proof. intros H1 H2. unfold d_ensure. rewrite H1, H2, !Nat.eqb_refl. destruct x; reflexivity. Qed.

Lemma set_nth_twice {A} i (x y : A) l : set_nth i y (set_nth i x l) = set_nth i y l.
Proof. unfold set_nth. revert i. induction l as [|z r IH]; intros [|i]; simpl; auto. f_equal. apply IH. Qed.

(* ------------------------------------------------------------------ remove_key after the roll *)
Definition d_remove_core (t k : Z) (s1 : tsd) : bool * tsd :=
  match find_live (d_ks s1) k with
  | None => (false, s1)
  | Some i =>
      let '(ok, ks') := k_remove_slot i (d_ks s1) in
      if negb ok then (false, s1)
      else
        let s2 := d_ensure (mkD ks' (d_ch s1) (d_add s1) (d_rem s1) (d_mod s1) (d_pub s1) (d_dt s1) (d_lmt s1) (d_kslmt s1)) in
        let s3 := if bit i (d_pub s2)
                  then if bit i (d_add s2)
                       then d_set_bits s2 (set_nth i false (d_add s2)) (d_rem s2) (d_mod s2) (set_nth i false (d_pub s2))
                       else d_set_bits s2 (d_add s2) (set_nth i true (d_rem s2)) (d_mod s2) (set_nth i false (d_pub s2))
                  else s2 in
        (true, mkD (d_ks s3) (d_ch s3) (d_add s3) (d_rem s3) (set_nth i false (d_mod s3)) (d_pub s3) (d_dt s3) (d_lmt s3)
                   (rec_mod t (d_kslmt s3)))
  end.
Lemma d_remove_key_eq t k s : d_remove_key t k s = d_remove_core t k (d_prepare t s).
Proof. reflexivity. Qed.

Lemma d_remove_core_spec t k s ch s' :
  DInv s -> d_remove_core t k s = (ch, s') ->
  DInv s' /\ d_dt s' = d_dt s /\ d_lmt s' = d_lmt s /\ (forall k', inDOld s' k' <-> inDOld s k') /\
  ( (ch = false /\ s' = s)
 \/ (ch = true /\ exists i, dst s i = mkSlot SLive k /\ dst s' i = mkSlot SPend k /\ (forall j, child_at s' j = child_at s j) /\
        (forall j, j <> i -> dst s' j = dst s j /\ dm s' j = dm s j /\ dp s' j = dp s j)) ).
Proof.
  intros T H. unfold d_remove_core in H.
  destruct (find_live (d_ks s) k) as [i|] eqn:F.
  2:{ injection H as Hc Hs. rewrite <- Hs, <- Hc. split; [exact T|]. split; [reflexivity|]. split; [reflexivity|]. split; [intros k'; reflexivity|]. left; auto. }
  pose proof (find_live_some _ _ _ F) as LV. fold (dst s i) in LV.
  destruct (k_remove_slot i (d_ks s)) as [ok ks'] eqn:KR.
  destruct (k_remove_slot_spec i (d_ks s) ok ks' (di_k s T) KR) as [Hf Ht].
  destruct ok; cbn [negb] in H.
  2:{ injection H as Hc Hs. rewrite <- Hs, <- Hc. split; [exact T|]. split; [reflexivity|]. split; [reflexivity|]. split; [intros k'; reflexivity|]. left; auto. }
  destruct (Ht eq_refl) as [_ [K' [CP [_ SL]]]].
  assert (Li : i < ks_cap ks').
  { rewrite CP. apply slot_at_lt_of_state. fold (dst s i). rewrite LV. discriminate. }
  rewrite d_ensure_id' in H by (cbn [d_ch d_add d_ks]; rewrite CP; first [apply (di_lc s T)|apply (di_la s T)]).
  cbn [d_ks d_ch d_add d_rem d_mod d_pub d_dt d_lmt d_kslmt] in H.
  assert (SL' : forall j, slot_at ks' j = if j =? i then mkSlot SPend k else dst s j).
  { intros j. rewrite SL. fold (dst s i). rewrite LV. reflexivity. }
  pose proof (di_bits s T i) as B. rewrite LV in B. cbn [s_st slot_ok] in B. destruct B as [B1 [B2 [B3 B4]]].
  fold (dp s i) (da s i) in H.
  destruct (dp s i) eqn:P.
  - destruct (da s i) eqn:A.
    + injection H as Hc Hs. rewrite <- Hs, <- Hc. unfold d_set_bits. cbn [d_ks d_ch d_add d_rem d_mod d_pub d_dt d_lmt d_kslmt].
      destruct (d_update_slot s ks' i k SLive SPend (Some false) None (Some false) (Some false) None (d_dt s) (d_lmt s) (rec_mod t (d_kslmt s))
                  T K' CP Li LV ltac:(discriminate) SL') as [D [O [S0 [_ [_ [_ [_ [_ OTH]]]]]]]].
      * cbn [valb slot_ok]. rewrite B1. repeat split; auto; intros Q; discriminate Q.
      * cbn [valb]. rewrite A, P, B1. unfold oldp. split; intros [[Q1 [Q2 Q3]]|[Q1 Q2]]; discriminate.
      * split; [exact D|]. split; [reflexivity|]. split; [reflexivity|]. split; [exact O|]. right. split; [reflexivity|]. exists i. split; [exact LV|]. split; [exact S0|]. split; [intros j; reflexivity|]. intros j Hj. destruct (OTH j Hj) as [X0 [_ [_ [X3 [X4 _]]]]]. auto.
    + injection H as Hc Hs. rewrite <- Hs, <- Hc. unfold d_set_bits. cbn [d_ks d_ch d_add d_rem d_mod d_pub d_dt d_lmt d_kslmt].
      destruct (d_update_slot s ks' i k SLive SPend None (Some true) (Some false) (Some false) None (d_dt s) (d_lmt s) (rec_mod t (d_kslmt s))
                  T K' CP Li LV ltac:(discriminate) SL') as [D [O [S0 [_ [_ [_ [_ [_ OTH]]]]]]]].
      * cbn [valb slot_ok]. rewrite A. repeat split; auto; intros _; rewrite <- B4; reflexivity.
      * cbn [valb]. rewrite A, P. unfold oldp. split; intros _; [left|right]; auto.
      * split; [exact D|]. split; [reflexivity|]. split; [reflexivity|]. split; [exact O|]. right. split; [reflexivity|]. exists i. split; [exact LV|]. split; [exact S0|]. split; [intros j; reflexivity|]. intros j Hj. destruct (OTH j Hj) as [X0 [_ [_ [X3 [X4 _]]]]]. auto.
  - injection H as Hc Hs. rewrite <- Hs, <- Hc. cbn [d_ks d_ch d_add d_rem d_mod d_pub d_dt d_lmt d_kslmt].
    assert (A : da s i = false) by (destruct (da s i); auto; discriminate (B2 eq_refl)).
    destruct (d_update_slot s ks' i k SLive SPend None None (Some false) None None (d_dt s) (d_lmt s) (rec_mod t (d_kslmt s))
                T K' CP Li LV ltac:(discriminate) SL') as [D [O [S0 [_ [_ [_ [_ [_ OTH]]]]]]]].
    + cbn [valb slot_ok]. rewrite A, B1, P. repeat split; auto; intros Q; discriminate Q.
    + cbn [valb]. rewrite A, P, B1. unfold oldp. split; intros [[Q1 [Q2 Q3]]|[Q1 Q2]]; discriminate.
    + split; [exact D|]. split; [reflexivity|]. split; [reflexivity|]. split; [exact O|]. right. split; [reflexivity|]. exists i. split; [exact LV|]. split; [exact S0|]. split; [intros j; reflexivity|]. intros j Hj. destruct (OTH j Hj) as [X0 [_ [_ [X3 [X4 _]]]]]. auto.
Qed.

(* ------------------------------------------------------------------ writing the TS<int> child of a live key *)
Lemma kinv_self_slot s i x k : dst s i = mkSlot x k -> forall j, slot_at (d_ks s) j = if j =? i then mkSlot x k else dst s j.
Proof. intros H j. destruct (Nat.eqb_spec j i) as [E|E]; [rewrite E; exact H|reflexivity]. Qed.

Lemma d_child_modified_valid i t s :
  live (slot_at (d_ks s) i) = true -> d_prepare t s = s -> c_valid (child_at s i) = true -> bit i (d_rem s) = false ->
  d_child_modified i t s =
    if bit i (d_pub s)
    then mkD (d_ks s) (d_ch s) (d_add s) (d_rem s) (set_nth i true (d_mod s)) (d_pub s) (d_dt s) (d_lmt s) (d_kslmt s)
    else mkD (d_ks s) (d_ch s) (set_nth i true (d_add s)) (d_rem s) (set_nth i true (d_mod s)) (set_nth i true (d_pub s))
             (d_dt s) (d_lmt s) (d_kslmt s).
Proof.
  intros L P V R. unfold d_child_modified. rewrite L, P, V. cbn [negb].
  destruct (bit i (d_pub s)); cbn [negb]; [reflexivity|]. rewrite R. reflexivity.
Qed.

Lemma c_valid_mk v t : (0 < t)%Z -> c_valid (mkC v t) = true.
Proof. intros H. unfold c_valid, MIN_DT. cbn [c_lmt]. destruct (Z.eqb_spec t 0); [lia|reflexivity]. Qed.

Lemma tsd_child_write_spec t i v k s :
  DInv s -> dst s i = mkSlot SLive k -> d_dt s = t -> (0 < t)%Z ->
  let s' := tsd_child_write t i v s in
  DInv s' /\ d_dt s' = t /\ (forall k', inDOld s' k' <-> inDOld s k') /\ dst s' i = mkSlot SLive k /\
  (forall j, j <> i -> dst s' j = dst s j /\ dm s' j = dm s j /\ dp s' j = dp s j /\ child_at s' j = child_at s j) /\
  ( ((c_lmt (child_at s i) < t)%Z /\ child_at s' i = mkC v t /\ dm s' i = true /\ dp s' i = true /\ d_lmt s' = rec_mod t (d_lmt s))
 \/ ((t <= c_lmt (child_at s i))%Z /\ child_at s' i = mkC v (c_lmt (child_at s i)) /\ dm s' i = dm s i /\ dp s' i = dp s i /\
      d_lmt s' = d_lmt s) ).
Proof.
  intros T LV DT PT. unfold tsd_child_write.
  assert (CHAT : forall c a r m p dtf lmtf kl j,
            child_at (mkD (d_ks s) (set_nth i c (d_ch s)) a r m p dtf lmtf kl) j = if j =? i then c else child_at s j).
  { intros c a r m p dtf lmtf kl j. unfold child_at. cbn [d_ch]. rewrite nth_set_nth_ch.
    destruct (Nat.eqb_spec j i) as [E|E]; [|reflexivity].
    rewrite ltb_true; [reflexivity|]. rewrite (di_lc s T). apply slot_at_lt_of_state. fold (dst s i). rewrite LV. discriminate. }
  assert (Li : i < ks_cap (d_ks s)).
  { apply slot_at_lt_of_state. fold (dst s i). rewrite LV. discriminate. }
  pose proof (di_bits s T i) as B. rewrite LV in B. cbn [s_st slot_ok] in B. destruct B as [B1 [B2 [B3 B4]]].
  destruct (Z.ltb_spec (c_lmt (child_at s i)) t) as [LT|GE].
  - (* first write for this time: the child is modified and the dictionary is notified *)
    cbn [d_ks d_ch d_add d_rem d_mod d_pub d_dt d_lmt d_kslmt]. rewrite set_nth_twice.
    set (s2 := mkD (d_ks s) (set_nth i (mkC v t) (d_ch s)) (d_add s) (d_rem s) (d_mod s) (d_pub s) (d_dt s) (d_lmt s) (d_kslmt s)).
    assert (CV : c_valid (child_at s2 i) = true).
    { unfold child_at, s2. cbn [d_ch]. rewrite nth_set_nth_ch, Nat.eqb_refl, ltb_true by (rewrite (di_lc s T); exact Li).
      cbn [andb]. unfold c_valid. cbn [c_lmt]. unfold MIN_DT. destruct (Z.eqb_spec t 0); [lia|reflexivity]. }
    assert (PR : d_prepare t s2 = s2).
    { unfold d_prepare. replace (d_dt s2) with t by (symmetry; exact DT). rewrite Z.leb_refl.
      apply d_ensure_id'; unfold s2; cbn [d_ch d_ks d_add]; [rewrite set_nth_length; apply (di_lc s T)|apply (di_la s T)]. }
    rewrite (d_child_modified_valid i t s2) by (auto; unfold s2; cbn [d_ks d_rem]; first [exact B1|fold (dst s i); rewrite LV; reflexivity]).
    unfold s2. cbn [d_ks d_ch d_add d_rem d_mod d_pub d_dt d_lmt d_kslmt].
    destruct (bit i (d_pub s)) eqn:P; change (bit i (d_pub s)) with (dp s i) in P;
      unfold d_mark; cbn [d_ks d_ch d_add d_rem d_mod d_pub d_dt d_lmt d_kslmt].
    + destruct (d_update_slot s (d_ks s) i k SLive SLive None None (Some true) None (Some (mkC v t)) (d_dt s) (rec_mod t (d_lmt s)) (d_kslmt s)
                  T (di_k s T) eq_refl Li LV ltac:(discriminate) (kinv_self_slot s i SLive k LV)) as [D [O [S0 [_ [_ [M0 [P0 [_ OTH]]]]]]]].
      * cbn [valb slot_ok]. rewrite B1, P, c_valid_mk by exact PT. repeat split; auto.
      * cbn [valb]. tauto.
      * split; [exact D|]. split; [exact DT|]. split; [exact O|]. split; [exact S0|].
        split; [intros j Hj; destruct (OTH j Hj) as [X0 [_ [_ [X3 [X4 _]]]]]; rewrite CHAT; destruct (Nat.eqb_spec j i); [contradiction|auto]|].
        left. rewrite CHAT, Nat.eqb_refl. cbn [valb] in M0, P0. repeat split; auto; congruence.
    + assert (A : da s i = false) by (destruct (da s i) eqn:E; auto; specialize (B2 eq_refl); congruence).
      destruct (d_update_slot s (d_ks s) i k SLive SLive (Some true) None (Some true) (Some true) (Some (mkC v t)) (d_dt s) (rec_mod t (d_lmt s)) (d_kslmt s)
                  T (di_k s T) eq_refl Li LV ltac:(discriminate) (kinv_self_slot s i SLive k LV)) as [D [O [S0 [_ [_ [M0 [P0 [_ OTH]]]]]]]].
      * cbn [valb slot_ok]. rewrite B1, c_valid_mk by exact PT. repeat split; auto.
      * cbn [valb]. rewrite A, P. unfold oldp. split; intros [[Q1 [Q2 Q3]]|[Q1 Q2]]; discriminate.
      * split; [exact D|]. split; [exact DT|]. split; [exact O|]. split; [exact S0|].
        split; [intros j Hj; destruct (OTH j Hj) as [X0 [_ [_ [X3 [X4 _]]]]]; rewrite CHAT; destruct (Nat.eqb_spec j i); [contradiction|auto]|].
        left. rewrite CHAT, Nat.eqb_refl. cbn [valb] in M0, P0. repeat split; auto; congruence.
  - (* a second write in the same cycle: only the value changes *)
    destruct (d_update_slot s (d_ks s) i k SLive SLive None None None None (Some (mkC v (c_lmt (child_at s i)))) (d_dt s) (d_lmt s) (d_kslmt s)
                T (di_k s T) eq_refl Li LV ltac:(discriminate) (kinv_self_slot s i SLive k LV)) as [D [O [S0 [_ [_ [M0 [P0 [_ OTH]]]]]]]].
    + cbn [valb slot_ok]. repeat split; auto.
    + cbn [valb]. tauto.
    + split; [exact D|]. split; [exact DT|]. split; [exact O|]. split; [exact S0|].
      split; [intros j Hj; destruct (OTH j Hj) as [X0 [_ [_ [X3 [X4 _]]]]]; rewrite CHAT; destruct (Nat.eqb_spec j i); [contradiction|auto]|].
      right. rewrite CHAT, Nat.eqb_refl. cbn [valb] in M0, P0. repeat split; auto.
Qed.

(* ------------------------------------------------------------------ one engine cycle *)
Local Open Scope Z_scope.

Definition DFresh (V0 : Z -> Prop) (t : Z) (s : tsd) : Prop := DInv s /\ d_dt s < t /\ forall k, inP s k <-> V0 k.
Definition DMid (V0 : Z -> Prop) (t : Z) (s : tsd) : Prop := DInv s /\ d_dt s = t /\ forall k, inDOld s k <-> V0 k.
Definition DC (V0 : Z -> Prop) (t : Z) (s : tsd) : Prop := DFresh V0 t s \/ DMid V0 t s.

Lemma d_prepare_step V0 t s : DC V0 t s -> DMid V0 t (d_prepare t s).
Proof.
  intros [[T [D V]]|[T [D O]]].
  - destruct (d_prepare_roll t s T D) as [T1 [D1 [_ [B1 S1]]]].
    split; [exact T1|]. split; [exact D1|].
    intros k. rewrite <- V. split.
    + intros [i [[Q1 [Q2 Q3]]|[Q1 Q2]]].
      * exists i. destruct (B1 i) as [_ [_ [_ [E _]]]]. rewrite S1 in Q1. rewrite E in Q2.
        destruct (pend (dst s i)); [discriminate|]. auto.
      * destruct (B1 i) as [_ [E _]]. congruence.
    + intros [i [Q1 Q2]]. exists i. left. destruct (B1 i) as [E1 [_ [_ [E4 _]]]].
      rewrite S1, Q1, E4. cbn. auto.
  - rewrite d_prepare_same by (auto; lia). split; [exact T|]. split; [exact D|exact O].
Qed.

Lemma dmid_fields V0 t s lmt kl :
  DMid V0 t s -> DMid V0 t (mkD (d_ks s) (d_ch s) (d_add s) (d_rem s) (d_mod s) (d_pub s) (d_dt s) lmt kl).
Proof.
  intros [T [D O]]. split; [|split; [exact D|]].
  - destruct T as [T1 T2 T3 T4 T5 T6 T7]. constructor; auto.
  - intros k. rewrite <- O. split; intros [i Q]; exists i; exact Q.
Qed.

Lemma d_mark_step V0 t s : DMid V0 t s -> DMid V0 t (d_mark t s).
Proof. intros M. unfold d_mark. apply dmid_fields. exact M. Qed.

Lemma d_touch_mark_step V0 t s : DC V0 t s -> DMid V0 t (d_touch_mark t s).
Proof.
  intros C. pose proof (d_prepare_step V0 t s C) as M. unfold d_touch_mark, d_touch.
  destruct (negb (d_lmt (d_prepare t s) =? t)); [apply d_mark_step|]; exact M.
Qed.

Lemma tsd_at_step V0 t k s i s' :
  DC V0 t s -> tsd_at t k s = (i, s') -> DMid V0 t s' /\ dst s' i = mkSlot SLive k.
Proof.
  intros C A. destruct (d_prepare_step V0 t s C) as [T [D O]].
  unfold tsd_at in A. rewrite d_insert_key_eq in A.
  destruct (d_insert_core t k (d_prepare t s)) as [[j c] s1] eqn:IC.
  destruct (d_insert_core_spec t k _ j c s1 T IC) as [T1 [D1 [_ [_ [S1 [O1 _]]]]]].
  assert (M1 : DMid V0 t s1) by (split; [exact T1|split; [congruence|intros k'; rewrite O1; apply O]]).
  injection A as Hi Hs. subst j. rewrite <- Hs.
  destruct c; [|auto]. split; [apply d_mark_step; exact M1|exact S1].
Qed.

Lemma tsd_set_step V0 t k v s : 0 < t -> DC V0 t s -> DMid V0 t (tsd_set t k v s).
Proof.
  intros PT C. unfold tsd_set. destruct (tsd_at t k s) as [i s1] eqn:A.
  destruct (tsd_at_step V0 t k s i s1 C A) as [[T [D O]] S].
  destruct (tsd_child_write_spec t i v k s1 T S D PT) as [T2 [D2 [O2 _]]].
  split; [exact T2|]. split; [exact D2|]. intros k'. rewrite O2. apply O.
Qed.

Lemma tsd_erase_step V0 t k s ch s' : DC V0 t s -> tsd_erase t k s = (ch, s') -> DMid V0 t s'.
Proof.
  intros C A. destruct (d_prepare_step V0 t s C) as [T [D O]].
  unfold tsd_erase in A. rewrite d_remove_key_eq in A.
  destruct (d_remove_core t k (d_prepare t s)) as [c s1] eqn:RC.
  destruct (d_remove_core_spec t k _ c s1 T RC) as [T1 [D1 [_ [O1 _]]]].
  assert (M1 : DMid V0 t s1) by (split; [exact T1|split; [congruence|intros k'; rewrite O1; apply O]]).
  injection A as Hc Hs. rewrite <- Hs. destruct c.
  - apply d_mark_step. exact M1.
  - apply d_touch_mark_step. right. exact M1.
Qed.

Lemma tsd_clear_step V0 t s : DC V0 t s -> DMid V0 t (tsd_clear t s).
Proof.
  intros C. unfold tsd_clear, d_touch.
  pose proof (d_prepare_step V0 t s C) as M.
  assert (F : forall keys s0, DMid V0 t s0 -> DMid V0 t (fold_left (fun st k => snd (tsd_erase t k st)) keys s0)).
  { induction keys as [|k r IH]; intros s0 M0; cbn [fold_left]; auto.
    apply IH. destruct (tsd_erase t k s0) as [c s1] eqn:E. cbn [snd]. apply (tsd_erase_step V0 t k s0 c s1 (or_intror M0) E). }
  destruct (negb (d_lmt (d_prepare t s) =? t)); [apply d_mark_step|]; apply F; exact M.
Qed.

Lemma tsd_reserve_step V0 t c s : DC V0 t s -> DC V0 t (tsd_reserve c s).
Proof.
  intros C.
  assert (T : DInv s) by (destruct C as [[T _]|[T _]]; exact T).
  unfold tsd_reserve.
  destruct (d_ensure_view (k_reserve c (d_ks s)) (d_ch s) (d_add s) (d_rem s) (d_mod s) (d_pub s) (d_dt s) (d_lmt s) (d_kslmt s))
    as [E1 [Ec [Ea [Er [Em [Ep [Edt [Elmt [Ekl EB]]]]]]]]].
  { rewrite (di_lc s T), (di_la s T). reflexivity. }
  { rewrite (di_lr s T), (di_la s T). reflexivity. }
  { rewrite (di_lm s T), (di_la s T). reflexivity. }
  { rewrite (di_lp s T), (di_la s T). reflexivity. }
  { rewrite (di_la s T), k_reserve_cap. lia. }
  set (s2 := d_ensure _) in *.
  assert (VW : forall j, dst s2 j = dst s j /\ da s2 j = da s j /\ dr s2 j = dr s j /\ dm s2 j = dm s j /\ dp s2 j = dp s j /\ dv s2 j = dv s j).
  { intros j. destruct (EB j) as [B1 [B2 [B3 [B4 B5]]]]. unfold dst, da, dr, dm, dp, dv, child_at.
    rewrite E1, B1, B2, B3, B4, B5, k_reserve_slot. repeat split; auto. }
  assert (T2 : DInv s2).
  { constructor; rewrite ?E1; auto. apply k_reserve_inv. exact (di_k s T).
    intros j. destruct (VW j) as [V1 [V2 [V3 [V4 [V5 V6]]]]]. rewrite V1, V2, V3, V4, V5, V6. apply (di_bits s T). }
  assert (PP : forall k, inP s2 k <-> inP s k).
  { intros k. split; intros [j Q]; exists j; destruct (VW j) as [V1 [V2 [V3 [V4 [V5 V6]]]]]; [rewrite <- V1, <- V5|rewrite V1, V5]; exact Q. }
  assert (OO : forall k, inDOld s2 k <-> inDOld s k).
  { intros k. split; intros [j Q]; exists j; destruct (VW j) as [V1 [V2 [V3 [V4 [V5 V6]]]]];
      [rewrite <- V1, <- V2, <- V3, <- V5|rewrite V1, V2, V3, V5]; exact Q. }
  destruct C as [[_ [D V]]|[_ [D O]]].
  - left. split; [exact T2|]. split; [lia|]. intros k. rewrite PP. apply V.
  - right. split; [exact T2|]. split; [congruence|]. intros k. rewrite OO. apply O.
Qed.

Lemma tsd_touch_step V0 t s : DC V0 t s -> DMid V0 t (tsd_touch t s).
Proof.
  intros C. unfold tsd_touch. pose proof (d_touch_mark_step V0 t s C) as M.
  destruct (d_kslmt (d_touch_mark t s) =? MIN_DT); [apply dmid_fields|]; exact M.
Qed.

(* ------------------------------------------------------------------ an element written through its own view *)
Definition with_child (i : nat) (c : child) (s : tsd) : tsd :=
  mkD (d_ks s) (set_nth i c (d_ch s)) (d_add s) (d_rem s) (d_mod s) (d_pub s) (d_dt s) (d_lmt s) (d_kslmt s).

(* rolling the delta window does not look at the children: it commutes with a child assignment *)
Lemma d_prepare_with_child t i c s :
  DInv s -> d_prepare t (with_child i c s) = with_child i c (d_prepare t s).
Proof.
  intros T. unfold d_prepare, with_child. cbn [d_ks d_ch d_add d_rem d_mod d_pub d_dt d_lmt d_kslmt].
  destruct (Z.leb_spec t (d_dt s)) as [L|L].
  - rewrite (d_ensure_id s T).
    apply d_ensure_id'; cbn [d_ks d_ch d_add]; [rewrite set_nth_length; apply (di_lc s T)|apply (di_la s T)].
  - destruct (k_erase_pending_spec (d_ks s) (di_k s T)) as [_ [C1 _]].
    rewrite !d_ensure_id'; cbn [d_ks d_ch d_add d_rem d_mod d_pub d_dt d_lmt d_kslmt]; rewrite ?set_nth_length, ?clear_bits_length, ?C1;
      try reflexivity; first [apply (di_lc s T)|apply (di_la s T)].
Qed.

Lemma tsd_child_write_first_eq t i v s :
  (c_lmt (child_at s i) < t)%Z ->
  tsd_child_write t i v s = d_mark t (d_child_modified i t (with_child i (mkC v t) s)).
Proof.
  intros L. unfold tsd_child_write. destruct (Z.ltb_spec (c_lmt (child_at s i)) t); [|lia].
  cbn [d_ks d_ch d_add d_rem d_mod d_pub d_dt d_lmt d_kslmt]. rewrite set_nth_twice. reflexivity.
Qed.

(* A first write of the cycle through the element's own view is the same as rolling the window first:
   record_child_modified does the roll itself. *)
Lemma tsd_child_write_prepare t i v k s :
  DInv s -> dst s i = mkSlot SLive k -> (c_lmt (child_at s i) < t)%Z ->
  tsd_child_write t i v s = tsd_child_write t i v (d_prepare t s).
Proof.
  intros T LV L.
  assert (CH : child_at (d_prepare t s) i = child_at s i).
  { unfold d_prepare. destruct (Z.leb_spec t (d_dt s)); [rewrite (d_ensure_id s T); reflexivity|].
    destruct (k_erase_pending_spec (d_ks s) (di_k s T)) as [_ [C1 _]].
    rewrite d_ensure_id'; cbn [d_ks d_ch d_add]; rewrite ?clear_bits_length, ?C1; try reflexivity;
      first [apply (di_lc s T)|apply (di_la s T)]. }
  rewrite (tsd_child_write_first_eq t i v s L).
  rewrite (tsd_child_write_first_eq t i v (d_prepare t s)) by (rewrite CH; exact L).
  f_equal. unfold d_child_modified.
  assert (LV1 : live (slot_at (d_ks (with_child i (mkC v t) s)) i) = true).
  { unfold with_child. cbn [d_ks]. fold (dst s i). rewrite LV. reflexivity. }
  assert (LV2 : live (slot_at (d_ks (with_child i (mkC v t) (d_prepare t s))) i) = true).
  { unfold with_child. cbn [d_ks]. fold (dst (d_prepare t s) i).
    destruct (Z.leb_spec t (d_dt s)) as [Q|Q].
    - rewrite d_prepare_same by (auto; lia). rewrite LV. reflexivity.
    - destruct (d_prepare_roll t s T Q) as [_ [_ [_ [_ S1]]]]. rewrite S1, LV. reflexivity. }
  rewrite LV1, LV2. cbn [negb].
  rewrite (d_prepare_with_child t i (mkC v t) s T).
  assert (ID : d_prepare t (with_child i (mkC v t) (d_prepare t s)) = with_child i (mkC v t) (d_prepare t s)).
  { assert (T1 : DInv (d_prepare t s)).
    { destruct (Z.leb_spec t (d_dt s)) as [Q|Q]; [rewrite d_prepare_same by (auto; lia); exact T|apply (d_prepare_roll t s T Q)]. }
    rewrite (d_prepare_with_child t i (mkC v t) (d_prepare t s) T1). f_equal.
    apply d_prepare_same; auto.
    destruct (Z.leb_spec t (d_dt s)) as [Q|Q]; [rewrite d_prepare_same by (auto; lia); lia|].
    destruct (d_prepare_roll t s T Q) as [_ [D1 _]]. lia. }
  rewrite ID. reflexivity.
Qed.

(* a later write in the same cycle only assigns the value *)
Lemma tsd_child_write_again t i v k s :
  DInv s -> dst s i = mkSlot SLive k -> (t <= c_lmt (child_at s i))%Z ->
  let s' := tsd_child_write t i v s in
  DInv s' /\ d_dt s' = d_dt s /\ d_lmt s' = d_lmt s /\ (forall k', inDOld s' k' <-> inDOld s k') /\ (forall k', inP s' k' <-> inP s k') /\
  (forall j, dst s' j = dst s j /\ dm s' j = dm s j /\ dp s' j = dp s j) /\
  (forall j, j <> i -> child_at s' j = child_at s j) /\ child_at s' i = mkC v (c_lmt (child_at s i)).
Proof.
  intros T LV GE. unfold tsd_child_write. destruct (Z.ltb_spec (c_lmt (child_at s i)) t); [lia|].
  assert (Li : (i < ks_cap (d_ks s))%nat).
  { apply slot_at_lt_of_state. fold (dst s i). rewrite LV. discriminate. }
  pose proof (di_bits s T i) as B. rewrite LV in B. cbn [s_st slot_ok] in B. destruct B as [B1 [B2 [B3 B4]]].
  destruct (d_update_slot s (d_ks s) i k SLive SLive None None None None (Some (mkC v (c_lmt (child_at s i)))) (d_dt s) (d_lmt s) (d_kslmt s)
              T (di_k s T) eq_refl Li LV ltac:(discriminate) (kinv_self_slot s i SLive k LV)) as [D [O [S0 [_ [_ [M0 [P0 [_ OTH]]]]]]]].
  { cbn [valb slot_ok]. repeat split; auto. }
  { cbn [valb]. tauto. }
  cbn [updb updc valb] in *.
  assert (PW : forall j, dst (mkD (d_ks s) (set_nth i (mkC v (c_lmt (child_at s i))) (d_ch s)) (d_add s) (d_rem s) (d_mod s) (d_pub s) (d_dt s) (d_lmt s) (d_kslmt s)) j = dst s j /\
                         dm (mkD (d_ks s) (set_nth i (mkC v (c_lmt (child_at s i))) (d_ch s)) (d_add s) (d_rem s) (d_mod s) (d_pub s) (d_dt s) (d_lmt s) (d_kslmt s)) j = dm s j /\
                         dp (mkD (d_ks s) (set_nth i (mkC v (c_lmt (child_at s i))) (d_ch s)) (d_add s) (d_rem s) (d_mod s) (d_pub s) (d_dt s) (d_lmt s) (d_kslmt s)) j = dp s j).
  { intros j. repeat split; reflexivity. }
  split; [exact D|]. split; [reflexivity|]. split; [reflexivity|]. split; [exact O|].
  split; [intros k'; split; intros [j Q]; exists j; exact Q|].
  split; [exact PW|].
  assert (LC : (i < length (d_ch s))%nat) by (rewrite (di_lc s T); exact Li).
  split.
  - intros j Hj. unfold child_at. cbn [d_ch]. rewrite nth_set_nth_ch. destruct (Nat.eqb_spec j i); [contradiction|reflexivity].
  - unfold child_at at 1. cbn [d_ch]. rewrite nth_set_nth_ch, Nat.eqb_refl, ltb_true by exact LC. reflexivity.
Qed.

Lemma tsd_write_step V0 t k v s : (0 < t)%Z -> DC V0 t s -> DC V0 t (snd (tsd_write t k v s)).
Proof.
  intros PT C. unfold tsd_write.
  destruct (find_live (d_ks s) k) as [i|] eqn:F; cbn [snd]; [|exact C].
  pose proof (find_live_some _ _ _ F) as LV. fold (dst s i) in LV.
  assert (T : DInv s) by (destruct C as [[T _]|[T _]]; exact T).
  destruct (Z.lt_ge_cases (c_lmt (child_at s i)) t) as [L|G].
  - (* the first write of the element in this cycle: the dictionary rolls its window and records it *)
    rewrite (tsd_child_write_prepare t i v k s T LV L).
    destruct (d_prepare_step V0 t s C) as [T1 [D1 O1]].
    assert (LV1 : dst (d_prepare t s) i = mkSlot SLive k).
    { destruct C as [[_ [D _]]|[_ [D _]]].
      - destruct (d_prepare_roll t s T D) as [_ [_ [_ [_ S1]]]]. rewrite S1, LV. reflexivity.
      - rewrite d_prepare_same by (auto; lia). exact LV. }
    destruct (tsd_child_write_spec t i v k (d_prepare t s) T1 LV1 D1 PT) as [T2 [D2 [O2 _]]].
    right. split; [exact T2|]. split; [exact D2|]. intros k'. rewrite O2. apply O1.
  - destruct (tsd_child_write_again t i v k s T LV G) as [T2 [D2 [_ [O2 [P2 _]]]]].
    destruct C as [[_ [D V]]|[_ [D O]]].
    + left. split; [exact T2|]. split; [lia|]. intros k'. rewrite P2. apply V.
    + right. split; [exact T2|]. split; [lia|]. intros k'. rewrite O2. apply O.
Qed.

Lemma tsd_op_step V0 t o s : 0 < t -> DC V0 t s -> DC V0 t (snd (tsd_op t o s)).
Proof.
  intros PT C. destruct o as [k v|k| |c| |k|k v|]; cbn [tsd_op snd].
  - right. apply tsd_set_step; auto.
  - destruct (tsd_erase t k s) as [b s'] eqn:E. cbn [snd]. right. apply (tsd_erase_step V0 t k s b s' C E).
  - right. apply tsd_clear_step. exact C.
  - apply tsd_reserve_step. exact C.
  - right. apply tsd_touch_step. exact C.
  - destruct (tsd_at t k s) as [i s'] eqn:E. cbn [snd]. right. apply (tsd_at_step V0 t k s i s' C E).
  - apply tsd_write_step; auto.
  - exact C.
Qed.

Lemma tsd_cycle_step V0 t ops : 0 < t -> forall s, DC V0 t s -> DC V0 t (tsd_cycle t ops s).
Proof.
  intros PT. induction ops as [|o r IH]; intros s C; cbn [tsd_cycle fold_left]; auto.
  apply IH. apply tsd_op_step; auto.
Qed.

(* ------------------------------------------------------------------ reads *)
Lemma slot_lt s i x k : dst s i = mkSlot x k -> x <> SFree -> (i < ks_cap (d_ks s))%nat.
Proof. intros H N. apply slot_at_lt_of_state. fold (dst s i). rewrite H. exact N. Qed.

Lemma tsd_valid_keys_in s k : DInv s -> (In k (tsd_valid_keys s) <-> inP s k).
Proof.
  intros T. unfold tsd_valid_keys. rewrite keys_where_in. unfold inP. split.
  - intros [j [L [H1 H2]]]. simpl in H1. apply andb_true_iff in H1. destruct H1 as [H1 H3]. exists j.
    assert (Q : dst s j = mkSlot SLive k).
    { unfold dst, slot_at. rewrite <- (slot_eta (nth j _ _)), H2. apply live_iff in H1. rewrite H1. reflexivity. }
    split; [exact Q|]. pose proof (di_bits s T j) as B. rewrite Q in B. cbn in B. destruct B as [_ [_ [_ B]]]. rewrite B. exact H3.
  - intros [i [H1 H2]]. exists i. split; [apply (slot_lt s i SLive k H1); discriminate|].
    unfold dst, slot_at in H1. rewrite H1. simpl. split; auto.
    pose proof (di_bits s T i) as B. unfold dst, slot_at in B. rewrite H1 in B. cbn in B. destruct B as [_ [_ [_ B]]].
    unfold dv in B. rewrite <- B. exact H2.
Qed.

Lemma tsd_keys_in s k : In k (tsd_keys s) <-> exists i, dst s i = mkSlot SLive k.
Proof.
  unfold tsd_keys, live_keys. rewrite keys_where_in. split.
  - intros [j [L [H1 H2]]]. exists j. unfold dst, slot_at. rewrite <- (slot_eta (nth j _ _)), H2. apply live_iff in H1. rewrite H1. reflexivity.
  - intros [i H]. exists i. split; [apply (slot_lt s i SLive k H); discriminate|]. unfold dst, slot_at in H. rewrite H. auto.
Qed.

Lemma tsd_raw_added_in s k : DInv s -> (In k (tsd_raw_added s) <-> inDA s k).
Proof.
  intros T. unfold tsd_raw_added. rewrite keys_where_in. unfold inDA. split.
  - intros [j [L [H1 H2]]]. simpl in H1. apply andb_true_iff in H1. destruct H1 as [H1 H3]. exists j. split; [|exact H3].
    pose proof (di_bits s T j) as B. unfold dst, slot_at, da in *.
    rewrite <- (slot_eta (nth j _ _)), H2.
    destruct (s_st (nth j (ks_slots (d_ks s)) free_slot)); cbn in B; [destruct B; congruence|reflexivity|destruct B; congruence].
  - intros [i [H1 H2]]. exists i. split; [apply (slot_lt s i SLive k H1); discriminate|].
    unfold dst, slot_at in H1. rewrite H1. simpl. auto.
Qed.

Lemma tsd_raw_removed_in s k : DInv s -> (In k (tsd_raw_removed s) <-> inDR s k).
Proof.
  intros T. unfold tsd_raw_removed. rewrite keys_where_in. unfold inDR. split.
  - intros [j [L [H1 H2]]]. simpl in H1. apply andb_true_iff in H1. destruct H1 as [H1 H3]. exists j. split; [|exact H3].
    pose proof (di_bits s T j) as B. unfold dst, slot_at, dr in *.
    rewrite <- (slot_eta (nth j _ _)), H2.
    destruct (s_st (nth j (ks_slots (d_ks s)) free_slot)); cbn in B; [destruct B as [_ [B _]]; congruence|destruct B; congruence|reflexivity].
  - intros [i [H1 H2]]. exists i. split; [apply (slot_lt s i SPend k H1); discriminate|].
    unfold dst, slot_at in H1. rewrite H1. simpl. auto.
Qed.

Lemma tsd_raw_modified_in s k : In k (tsd_raw_modified s) <-> inDM s k.
Proof.
  unfold tsd_raw_modified. rewrite keys_where_in. unfold inDM. split.
  - intros [j [L [H1 H2]]]. simpl in H1. apply andb_true_iff in H1. destruct H1 as [H1 H3]. exists j. split; [|exact H3].
    unfold dst, slot_at. rewrite <- (slot_eta (nth j _ _)), H2. apply live_iff in H1. rewrite H1. reflexivity.
  - intros [i [H1 H2]]. exists i. split; [apply (slot_lt s i SLive k H1); discriminate|].
    unfold dst, slot_at in H1. rewrite H1. simpl. auto.
Qed.

Lemma dc_char V0 t s :
  0 < t -> DC V0 t s ->
  (forall k, In k (tsd_added t s) <-> inP s k /\ ~ V0 k) /\
  (forall k, In k (tsd_removed t s) <-> V0 k /\ ~ inP s k) /\
  (tsd_struct_current t s = false -> forall k, inP s k <-> V0 k).
Proof.
  intros PT [[T [D V]]|[T [D O]]].
  - assert (F : tsd_struct_current t s = false).
    { unfold tsd_struct_current. destruct (Z.eqb_spec (d_dt s) t); [lia|]. apply andb_false_r. }
    unfold tsd_added, tsd_removed. rewrite F. simpl.
    split; [|split; [|auto]]; intros k; rewrite V; tauto.
  - assert (F : tsd_struct_current t s = true).
    { unfold tsd_struct_current, MIN_DT. rewrite D, Z.eqb_refl. destruct (Z.eqb_spec t 0); [lia|reflexivity]. }
    unfold tsd_added, tsd_removed. rewrite F.
    split; [|split; [|discriminate]]; intros k.
    + rewrite (tsd_raw_added_in s k T), (inDA_iff s k T), O. reflexivity.
    + rewrite (tsd_raw_removed_in s k T), (inDR_iff s k T), O. reflexivity.
Qed.

Lemma dc_next V0 t s t' : DC V0 t s -> t < t' -> DFresh (inP s) t' s.
Proof. intros [[T [D V]]|[T [D O]]] H; (split; [exact T|]); (split; [lia|tauto]). Qed.

Fixpoint dincreasing (t0 : Z) (h : list (Z * list dop)) : Prop :=
  match h with
  | [] => True
  | (t, _) :: r => t0 < t /\ dincreasing t r
  end.

Fixpoint tsd_trace (s : tsd) (h : list (Z * list dop)) : list (tsd * Z * list dop * tsd) :=
  match h with
  | [] => []
  | (t, ops) :: r => let s' := tsd_cycle t ops s in (s, t, ops, s') :: tsd_trace s' r
  end.

Lemma dtrace_inv h : forall s t0 V0,
  DC V0 t0 s -> 0 <= t0 -> dincreasing t0 h ->
  forall a t ops b, In (a, t, ops, b) (tsd_trace s h) -> 0 < t /\ b = tsd_cycle t ops a /\ DInv a /\ DC (inP a) t b.
Proof.
  induction h as [|[t1 ops1] r IH]; intros s t0 V0 C P I a t ops b H; simpl in H; [contradiction|].
  destruct I as [I1 I2].
  pose proof (dc_next V0 t0 s t1 C I1) as F.
  pose proof (tsd_cycle_step (inP s) t1 ops1 ltac:(lia) s (or_introl F)) as C1.
  destruct H as [H|H].
  - inversion H; subst a t ops b. split; [lia|]. split; [reflexivity|]. split; [apply F|exact C1].
  - apply (IH (tsd_cycle t1 ops1 s) t1 (inP s) C1 ltac:(lia) I2 a t ops b H).
Qed.

Lemma dc_empty : DC (fun _ => False) MIN_DT tsd_empty.
Proof.
  right. split; [apply dinv_empty|]. split; [reflexivity|].
  intros k. split; [|tauto]. intros [i [[Q _]|[Q _]]]; unfold dst, slot_at in Q; simpl in Q; destruct i; discriminate.
Qed.

Lemma dc_inv V0 t s : DC V0 t s -> DInv s.
Proof. intros [[T _]|[T _]]; exact T. Qed.

Section TsdTheorems.
  Variable h : list (Z * list dop).
  Hypothesis Hinc : dincreasing MIN_DT h.
  Variables (a : tsd) (t : Z) (ops : list dop) (b : tsd).
  Hypothesis Hin : In (a, t, ops, b) (tsd_trace tsd_empty h).

  (* the dictionary's key set = the keys that have a value *)
  Let K x := In x (tsd_valid_keys a).
  Let K' x := In x (tsd_valid_keys b).

  Lemma tsd_facts :
    (forall k, In k (tsd_added t b) <-> K' k /\ ~ K k) /\
    (forall k, In k (tsd_removed t b) <-> K k /\ ~ K' k) /\
    (tsd_struct_current t b = false -> forall k, K' k <-> K k) /\
    (forall k, In k (tsd_modified_keys t b) -> K' k /\ In k (tsd_keys b)).
  Proof.
    destruct (dtrace_inv h tsd_empty MIN_DT _ dc_empty ltac:(unfold MIN_DT; lia) Hinc a t ops b Hin) as [P [E [TA C]]].
    pose proof (dc_inv _ _ _ C) as TB.
    destruct (dc_char (inP a) t b P C) as [A [R U]].
    unfold K, K'. split; [|split; [|split]].
    - intros k. rewrite A, (tsd_valid_keys_in a k TA), (tsd_valid_keys_in b k TB). reflexivity.
    - intros k. rewrite R, (tsd_valid_keys_in a k TA), (tsd_valid_keys_in b k TB). reflexivity.
    - intros M k. rewrite (tsd_valid_keys_in a k TA), (tsd_valid_keys_in b k TB). apply U. exact M.
    - intros k Hk. unfold tsd_modified_keys in Hk. destruct (tsd_modified t b); [|contradiction].
      apply tsd_raw_modified_in in Hk. split.
      + apply (tsd_valid_keys_in b k TB). apply inDM_live; auto.
      + apply tsd_keys_in. destruct Hk as [i [Q _]]. exists i. exact Q.
  Qed.

  Lemma tsd_keys_step_l : forall k, K' k <-> (K k /\ ~ In k (tsd_removed t b)) \/ In k (tsd_added t b).
  Proof.
    destruct tsd_facts as [A [R _]]. intros k. rewrite A, R. unfold K, K'.
    destruct (in_dec Z.eq_dec k (tsd_valid_keys a)); destruct (in_dec Z.eq_dec k (tsd_valid_keys b)); tauto.
  Qed.

  Lemma tsd_disjoint_l : forall k, In k (tsd_added t b) -> In k (tsd_removed t b) -> False.
  Proof. destruct tsd_facts as [A [R _]]. intros k HA HR. apply A in HA. apply R in HR. tauto. Qed.

  Lemma tsd_added_present_l : forall k, In k (tsd_added t b) -> K' k /\ ~ K k.
  Proof. destruct tsd_facts as [A _]. intros k. apply A. Qed.

  Lemma tsd_removed_l : forall k, In k (tsd_removed t b) -> ~ K' k /\ K k.
  Proof. destruct tsd_facts as [_ [R _]]. intros k HR. apply R in HR. tauto. Qed.

  Lemma tsd_modified_live_l : forall k, In k (tsd_modified_keys t b) -> K' k /\ In k (tsd_keys b).
  Proof. destruct tsd_facts as [_ [_ [_ M]]]. exact M. Qed.
End TsdTheorems.

(* ------------------------------------------------------------------ the value part of the step statement *)
(* "value' = value with the delta (removed keys, modified items) applied": every key that is neither removed
   nor modified keeps its value (and stays absent if it was absent). *)
Definition tsd_apply_delta_ok (a : tsd) (t : Z) (b : tsd) : Prop :=
  forall k, ~ In k (tsd_removed t b) -> ~ In k (tsd_modified_keys t b) -> tsd_get b k = tsd_get a k.

(* HISTORY: under the insert rule hgraph had before the repair (CollOld.d_insert_key_old) the statement was false:
   a key written, erased and written again within one cycle carried a new value without being modified.
   Witness: one cycle  set(2,9); erase(2); set(2,3)  on the empty dictionary. *)
Lemma tsd_value_step_old_rule_refuted_l :
  exists t ops, 0 < t /\ ~ tsd_apply_delta_ok tsd_empty t (tsd_cycle_old t ops tsd_empty).
Proof.
  exists 1, [DSet 2 9; DErase 2; DSet 2 3]. split; [lia|].
  intros H. specialize (H 2). vm_compute in H.
  assert (Q : Some 3 = @None Z) by (apply H; intros []). discriminate.
Qed.

(* the same cycle under the repaired rule reports the key as modified *)
Lemma tsd_repaired_witness :
  let b := tsd_cycle 1 [DSet 2 9; DErase 2; DSet 2 3] tsd_empty in
  tsd_modified_keys 1 b = [2] /\ tsd_added 1 b = [2] /\ tsd_get b 2 = Some 3.
Proof. vm_compute. auto. Qed.
