(* TrackFacts.v — lemmas and proofs about the Track model (property C04).

   The declarative side of the property is [last_write]: a fold over the write
   history that needs no tree, no tracking record and no notification chain.
   The theorems say that what the mirror of the C++ mechanism computes
   (last_modified_time of every node of every fixed shape after every history
   of leaf writes and invalidations) is exactly that fold. *)
Require Import Base Track.
From Coq Require Import ZifyBool.

(* ------------------------------------------------------------------ record_modified *)
Lemma rec_mod_older_noop : forall t k, t <= lmt k -> rec_mod t k = (k, false).
Proof. intros t k H. unfold rec_mod. destruct (t <=? lmt k) eqn:E; [reflexivity|lia]. Qed.

Lemma rec_mod_newer : forall t k, lmt k < t -> rec_mod t k = (mkTrk t (ncnt k + 1) t, true).
Proof. intros t k H. unfold rec_mod. destruct (t <=? lmt k) eqn:E; [lia|reflexivity]. Qed.

Lemma rec_mod_coalesces : forall t k, rec_mod t (fst (rec_mod t k)) = (fst (rec_mod t k), false).
Proof.
  intros t k. unfold rec_mod. destruct (t <=? lmt k) eqn:E; cbn [fst].
  - rewrite E. reflexivity.
  - cbn [lmt]. destruct (t <=? t) eqn:E2; [reflexivity|lia].
Qed.

Lemma rec_mod_lmt : forall t k, lmt k <= t -> lmt (fst (rec_mod t k)) = t.
Proof. intros t k H. unfold rec_mod. destruct (t <=? lmt k) eqn:E; cbn [fst lmt]; lia. Qed.

Lemma rec_mod_flag : forall t k, snd (rec_mod t k) = (lmt k <? t).
Proof. intros t k. unfold rec_mod. destruct (t <=? lmt k) eqn:E; cbn [snd]; lia. Qed.

Lemma rec_mod_never_rewinds : forall t k, lmt k <= lmt (fst (rec_mod t k)).
Proof. intros t k. unfold rec_mod. destruct (t <=? lmt k) eqn:E; cbn [fst lmt]; lia. Qed.

Lemma rec_mod_notifies_at_most_once : forall t k,
  ncnt (fst (rec_mod t k)) = ncnt k + (if snd (rec_mod t k) then 1 else 0).
Proof. intros t k. unfold rec_mod. destruct (t <=? lmt k); cbn [fst snd ncnt]; lia. Qed.

(* ------------------------------------------------------------------ paths *)
Fixpoint prefixb (a b : path) : bool :=
  match a, b with
  | [], _ => true
  | x :: a', y :: b' => (x =? y) && prefixb a' b'
  | _ :: _, [] => false
  end.
(* a is a strict prefix of b *)
Definition sprefixb (a b : path) : bool := prefixb a b && negb (prefixb b a).

Lemma prefixb_refl : forall a, prefixb a a = true.
Proof. induction a as [|x a IH]; cbn; [reflexivity|]. rewrite IH. lia. Qed.

Lemma prefixb_nil_r : forall a, prefixb a [] = true -> a = [].
Proof. destruct a; cbn; [reflexivity|discriminate]. Qed.

Lemma prefixb_app : forall a b, prefixb a (a ++ b) = true.
Proof. induction a as [|x a IH]; intros b; cbn; [reflexivity|]. rewrite IH. lia. Qed.

Lemma prefixb_snoc_l : forall a i b, prefixb (a ++ [i]) b = true -> prefixb a b = true.
Proof.
  induction a as [|x a IH]; intros i b H; cbn in *; [reflexivity|].
  destruct b as [|y b]; [discriminate|].
  destruct (x =? y) eqn:E; cbn in *; [|discriminate]. eapply IH; eassumption.
Qed.

Lemma prefixb_trans : forall a b c, prefixb a b = true -> prefixb b c = true -> prefixb a c = true.
Proof.
  induction a as [|x a IH]; intros b c H1 H2; cbn in *; [reflexivity|].
  destruct b as [|y b]; [discriminate|]. destruct c as [|z c]; cbn in *; [discriminate|].
  destruct (x =? y) eqn:E1; cbn in *; [|discriminate].
  destruct (y =? z) eqn:E2; cbn in *; [|discriminate].
  assert (x =? z = true) as -> by lia. cbn. eapply IH; eassumption.
Qed.

Lemma prefixb_antisym : forall a b, prefixb a b = true -> prefixb b a = true -> a = b.
Proof.
  induction a as [|x a IH]; intros b H1 H2.
  - symmetry. apply prefixb_nil_r. exact H2.
  - destruct b as [|y b]; [discriminate|]. cbn in *.
    destruct (x =? y) eqn:E; cbn in *; [|discriminate].
    destruct (y =? x) eqn:E'; cbn in *; [|discriminate].
    f_equal; [lia|]. apply IH; assumption.
Qed.

(* two prefixes of one path are comparable *)
Lemma prefixb_comparable : forall a b c,
  prefixb a c = true -> prefixb b c = true -> prefixb a b = true \/ prefixb b a = true.
Proof.
  induction a as [|x a IH]; intros b c H1 H2; [left; reflexivity|].
  destruct b as [|y b]; [right; reflexivity|].
  destruct c as [|z c]; cbn in *; [discriminate|].
  destruct (x =? z) eqn:E1; cbn in *; [|discriminate].
  destruct (y =? z) eqn:E2; cbn in *; [|discriminate].
  assert (x =? y = true) as -> by lia. assert (y =? x = true) as -> by lia. cbn.
  eapply IH; eassumption.
Qed.

(* ------------------------------------------------------------------ induction over trees *)
Section TsdInd.
  Variable P : tsd -> Prop.
  Hypothesis HL : forall k v, P (Leaf k v).
  Hypothesis HF : forall k fk b kids, Forall P kids -> P (Fix k fk b kids).
  Hypothesis HD : forall k e kids, Forall (fun kc => P (snd kc)) kids -> P (Dict k e kids).
  Fixpoint tsd_ind' (s : tsd) : P s :=
    match s with
    | Leaf k v => HL k v
    | Fix k fk b kids =>
      HF k fk b kids ((fix go (l : list tsd) : Forall P l :=
                         match l with [] => Forall_nil P | c :: r => Forall_cons c (tsd_ind' c) (go r) end) kids)
    | Dict k e kids =>
      HD k e kids ((fix go (l : list (Z * tsd)) : Forall (fun kc => P (snd kc)) l :=
                      match l with
                      | [] => Forall_nil _
                      | kc :: r => Forall_cons kc (tsd_ind' (snd kc)) (go r)
                      end) kids)
    end.
End TsdInd.

Section ShapeInd.
  Variable P : shape -> Prop.
  Hypothesis H0 : P STS.
  Hypothesis H1 : forall fs, Forall P fs -> P (STSB fs).
  Hypothesis H2 : forall n e, P e -> P (STSL n e).
  Hypothesis H3 : forall e, P e -> P (STSD e).
  Fixpoint shape_ind' (s : shape) : P s :=
    match s with
    | STS => H0
    | STSB fs => H1 fs ((fix go (l : list shape) : Forall P l :=
                           match l with [] => Forall_nil P | c :: r => Forall_cons c (shape_ind' c) (go r) end) fs)
    | STSL n e => H2 n e (shape_ind' e)
    | STSD e => H3 e (shape_ind' e)
    end.
End ShapeInd.

(* ------------------------------------------------------------------ reading at a path *)
Definition lmt_at (s : tsd) (q : path) : Z := match get q s with Some x => lmt_of x | None => MIN_DT end.

(* skeleton of the node at a path: None = no such node, 0 leaf, 1 fixed collection, 2 dictionary *)
Definition skel (s : tsd) (q : path) : option Z :=
  match get q s with
  | Some (Leaf _ _) => Some 0
  | Some (Fix _ _ _ _) => Some 1
  | Some (Dict _ _ _) => Some 2
  | None => None
  end.

Definition child_of (s : tsd) (i : Z) : option tsd :=
  match s with
  | Fix _ _ _ kids => match zidx i with Some n => nth_error kids n | None => None end
  | Dict _ _ kids => dict_find i kids
  | Leaf _ _ => None
  end.

Lemma get_cons : forall i q s, get (i :: q) s = match child_of s i with Some c => get q c | None => None end.
Proof.
  intros i q s. destruct s as [k v|k fk b kids|k e kids]; cbn [get child_of]; [reflexivity| |].
  - destruct (zidx i) as [n|]; [|reflexivity]. destruct (nth_error kids n); reflexivity.
  - destruct (dict_find i kids); reflexivity.
Qed.

Lemma get_app : forall p q s, get (p ++ q) s = match get p s with Some x => get q x | None => None end.
Proof.
  induction p as [|i p IH]; intros q s; [reflexivity|].
  rewrite <- app_comm_cons. rewrite !get_cons. destruct (child_of s i) as [c|]; [apply IH|reflexivity].
Qed.

(* ------------------------------------------------------------------ invariants (path-wise) *)
(* no dictionary anywhere: a fixed shape *)
Definition fx (s : tsd) : Prop := forall q, skel s q <> Some 2.
(* a child's time never exceeds its parent's *)
Definition mono (s : tsd) : Prop :=
  forall q i x y, get q s = Some x -> get (q ++ [i]) s = Some y -> lmt_of y <= lmt_of x.
(* every time lies in [MIN_DT, t] *)
Definition bounded (t : Z) (s : tsd) : Prop := forall q x, get q s = Some x -> MIN_DT <= lmt_of x <= t.

Lemma fx_child : forall s i c, fx s -> child_of s i = Some c -> fx c.
Proof.
  intros s i c H Hc q Hq. apply (H (i :: q)). unfold skel in *. rewrite get_cons, Hc. exact Hq.
Qed.

Lemma mono_child : forall s i c, mono s -> child_of s i = Some c -> mono c.
Proof.
  intros s i c H Hc q j x y Hx Hy. apply (H (i :: q) j x y).
  - rewrite get_cons, Hc. exact Hx.
  - rewrite <- app_comm_cons, get_cons, Hc. exact Hy.
Qed.

Lemma bounded_child : forall t s i c, bounded t s -> child_of s i = Some c -> bounded t c.
Proof.
  intros t s i c H Hc q x Hx. apply (H (i :: q)). rewrite get_cons, Hc. exact Hx.
Qed.

Lemma mono_root_child : forall s i c, mono s -> child_of s i = Some c -> lmt_of c <= lmt_of s.
Proof.
  intros s i c H Hc. apply (H [] i s c); [reflexivity|]. cbn [app]. rewrite get_cons, Hc. reflexivity.
Qed.

(* below a node, nothing is later than the node *)
Lemma mono_below : forall q s x, mono s -> get q s = Some x -> lmt_of x <= lmt_of s.
Proof.
  induction q as [|i q IH]; intros s x Hm Hg.
  - cbn in Hg. injection Hg as <-. lia.
  - rewrite get_cons in Hg. destruct (child_of s i) as [c|] eqn:Hc; [|discriminate].
    pose proof (IH c x (mono_child _ _ _ Hm Hc) Hg). pose proof (mono_root_child _ _ _ Hm Hc). lia.
Qed.

(* ------------------------------------------------------------------ lists *)
Lemma nth_error_set_nth_same : forall A n (v : A) l x, nth_error l n = Some x -> nth_error (set_nth n v l) n = Some v.
Proof.
  intros A n v l. revert n. induction l as [|y l IH]; intros [|n] x H; cbn in *; try discriminate; [reflexivity|].
  eapply IH; eassumption.
Qed.

Lemma nth_error_set_nth_other : forall A n m (v : A) l, n <> m -> nth_error (set_nth n v l) m = nth_error l m.
Proof.
  intros A n m v l. revert n m. induction l as [|y l IH]; intros [|n] [|m] H; cbn; try reflexivity; try lia.
  apply IH. lia.
Qed.

Lemma zidx_inj : forall i j n, zidx i = Some n -> zidx j = Some n -> i = j.
Proof. unfold zidx. intros i j n. destruct (i <? 0) eqn:E1; destruct (j <? 0) eqn:E2; intros H1 H2; try discriminate. injection H1 as <-. injection H2 as H2. lia. Qed.

(* ------------------------------------------------------------------ the notification chain (at_path) on fixed shapes *)
Definition up_of (f : tsd -> res) (t : Z) (p : path) (s x : tsd) : bool :=
  match p with [] => r_up (f x) | _ => r_up (f x) && (lmt_of s <? t) end.

Lemma fx_get_cons : forall s i p x, fx s -> get (i :: p) s = Some x ->
  exists k fk b kids n c, s = Fix k fk b kids /\ zidx i = Some n /\ nth_error kids n = Some c /\ get p c = Some x.
Proof.
  intros s i p x Hfx Hg. destruct s as [k v|k fk b kids|k e kids].
  - cbn in Hg. discriminate.
  - cbn [get] in Hg. destruct (zidx i) as [n|] eqn:Hz; [|discriminate].
    destruct (nth_error kids n) as [c|] eqn:Hn; [|discriminate].
    exists k, fk, b, kids, n, c. repeat split; assumption.
  - exfalso. apply (Hfx []). reflexivity.
Qed.

Lemma at_path_spec : forall f t p s x,
  fx s -> mono s -> bounded t s -> get p s = Some x ->
  let r := at_path f t p s in
  r_err r = r_err (f x) /\ r_flag r = r_flag (f x) /\ r_up r = up_of f t p s x /\
  (forall q', get (p ++ q') (r_tree r) = get q' (r_tree (f x))) /\
  (forall q, prefixb q p = false -> prefixb p q = false -> get q (r_tree r) = get q s) /\
  (forall q, sprefixb q p = true ->
     skel (r_tree r) q = skel s q /\ lmt_at (r_tree r) q = (if r_up (f x) then t else lmt_at s q)).
Proof.
  intros f t p. induction p as [|i p IH]; intros s x Hfx Hm Hb Hg r.
  - cbn in Hg. injection Hg as <-. subst r. cbn [at_path up_of app].
    repeat split; try reflexivity.
    + intros q H1 H2. cbn in H1. discriminate.
    + unfold sprefixb in H. destruct q; cbn in H; discriminate.
    + unfold sprefixb in H. destruct q; cbn in H; discriminate.
  - destruct (fx_get_cons _ _ _ _ Hfx Hg) as (k & fk & b & kids & n & c & -> & Hz & Hn & Hgc).
    assert (Hcc : child_of (Fix k fk b kids) i = Some c) by (cbn; rewrite Hz; exact Hn).
    pose proof (fx_child _ _ _ Hfx Hcc) as Hfxc. pose proof (mono_child _ _ _ Hm Hcc) as Hmc.
    pose proof (bounded_child _ _ _ _ Hb Hcc) as Hbc.
    destruct (IH c x Hfxc Hmc Hbc Hgc) as (He & Hfl & Hup & Hbelow & Hother & Hpre).
    subst r. cbn [at_path]. rewrite Hz, Hn.
    set (rc := at_path f t p c) in *.
    destruct (notify_parent t (r_up rc) k) as [k' up'] eqn:Hnp.
    cbn [r_err r_flag r_up r_tree].
    assert (Hbk : lmt k <= t) by (apply (proj2 (Hb [] (Fix k fk b kids) eq_refl))).
    assert (Hck : lmt_of c <= lmt k) by (apply (mono_root_child _ _ _ Hm Hcc)).
    assert (Hbcr : lmt_of c <= t) by (apply (proj2 (Hbc [] c eq_refl))).
    (* the flag passed up by the child, and the parent's record *)
    assert (Hk' : lmt k' = (if r_up (f x) then t else lmt k) /\ up' = (r_up (f x) && (lmt k <? t))).
    { assert (Hk'e : k' = fst (notify_parent t (r_up rc) k) /\ up' = snd (notify_parent t (r_up rc) k))
        by (rewrite Hnp; split; reflexivity).
      destruct Hk'e as [-> ->]. clear Hnp.
      unfold notify_parent. rewrite Hup. unfold up_of.
      destruct (r_up (f x)) eqn:HU.
      - destruct p as [|j p'].
        + rewrite rec_mod_flag. split; [apply rec_mod_lmt; lia|reflexivity].
        + cbn [andb]. destruct (lmt_of c <? t) eqn:Hct.
          * rewrite rec_mod_flag. split; [apply rec_mod_lmt; lia|reflexivity].
          * cbn [fst snd]. split; lia.
      - destruct p as [|j p']; cbn [andb fst snd]; split; reflexivity. }
    destruct Hk' as [Hk'l Hk'u].
    repeat split.
    + exact He.
    + exact Hfl.
    + unfold up_of. cbn [lmt_of tracking]. exact Hk'u.
    + intros q'. rewrite <- app_comm_cons. cbn [get]. rewrite Hz.
      rewrite (nth_error_set_nth_same _ _ _ _ _ Hn). apply Hbelow.
    + intros q H1 H2. destruct q as [|j q]; [cbn in H1; discriminate|].
      cbn [prefixb] in H1, H2. cbn [get].
      destruct (zidx j) as [m|] eqn:Hzj; [|reflexivity].
      destruct (Nat.eq_dec n m) as [<-|Hne].
      * pose proof (zidx_inj _ _ _ Hz Hzj) as <-.
        assert (i =? i = true) as Hii by lia. rewrite Hii in H1, H2. cbn [andb] in H1, H2.
        rewrite (nth_error_set_nth_same _ _ _ _ _ Hn), Hn. apply Hother; assumption.
      * rewrite nth_error_set_nth_other by exact Hne. reflexivity.
    + destruct q as [|j q].
      * unfold skel. cbn [get]. reflexivity.
      * unfold sprefixb in H. cbn [prefixb] in H.
        destruct (j =? i) eqn:Hji; [|cbn in H; discriminate].
        assert (j = i) as -> by lia. assert (i =? i = true) as Hii by lia. rewrite Hii in H. cbn [andb] in H.
        unfold skel. cbn [get]. rewrite Hz, (nth_error_set_nth_same _ _ _ _ _ Hn), Hn.
        apply (Hpre q). exact H.
    + destruct q as [|j q].
      * unfold lmt_at. cbn [get lmt_of tracking]. exact Hk'l.
      * unfold sprefixb in H. cbn [prefixb] in H.
        destruct (j =? i) eqn:Hji; [|cbn in H; discriminate].
        assert (j = i) as -> by lia. assert (i =? i = true) as Hii by lia. rewrite Hii in H. cbn [andb] in H.
        unfold lmt_at. cbn [get]. rewrite Hz, (nth_error_set_nth_same _ _ _ _ _ Hn), Hn.
        apply (Hpre q). exact H.
Qed.

(* ------------------------------------------------------------------ invalidate on fixed shapes *)
Lemma inv_kids_cons : forall inv t fk n k bits c r,
  inv_kids inv t fk n k bits (c :: r) =
  (let '(c', up, _) := inv c in
   let '(k1, _) := notify_parent t up k in
   let '(k2, bits2, r') := inv_kids inv t fk (S n) k1 (if up then set_bit fk n bits else bits) r in
   (k2, bits2, c' :: r')).
Proof. reflexivity. Qed.

Lemma inv_kids_kids : forall inv t fk l n k bits,
  snd (inv_kids inv t fk n k bits l) = map (fun c => fst (fst (inv c))) l.
Proof.
  intros inv t fk l. induction l as [|c l IH]; intros n k bits; [reflexivity|].
  rewrite inv_kids_cons. cbn [map]. destruct (inv c) as [[c' up] d]. destruct (notify_parent t up k) as [k1 u1].
  specialize (IH (S n) k1 (if up then set_bit fk n bits else bits)).
  destruct (inv_kids inv t fk (S n) k1 (if up then set_bit fk n bits else bits) l) as [[k2 b2] r'].
  cbn [snd fst map] in *. rewrite IH. reflexivity.
Qed.

Lemma inv_tree_fix : forall t k fk b kids,
  inv_tree t (Fix k fk b kids) =
  if lmt k =? MIN_DT then (Fix k fk b kids, false, false)
  else let '(k', bits', kids') := inv_kids (inv_tree t) t fk 0%nat k b kids in
       (Fix (mkTrk MIN_DT (ncnt k' + 1) t) fk bits' kids', true, true).
Proof. reflexivity. Qed.

Lemma all_min_below_invalid : forall x tb, mono x -> bounded tb x -> lmt_of x = MIN_DT -> forall q, lmt_at x q = MIN_DT.
Proof.
  intros x tb Hm Hb H0 q. unfold lmt_at. destruct (get q x) as [y|] eqn:Hg; [|reflexivity].
  pose proof (mono_below _ _ _ Hm Hg). pose proof (proj1 (Hb q y Hg)). lia.
Qed.

Lemma inv_tree_spec : forall t tb x, fx x -> mono x -> bounded tb x ->
  snd (fst (inv_tree t x)) = valid x /\ snd (inv_tree t x) = valid x /\
  (forall q, skel (fst (fst (inv_tree t x))) q = skel x q) /\
  (forall q, lmt_at (fst (fst (inv_tree t x))) q = MIN_DT).
Proof.
  intros t tb x. induction x as [k v|k fk b kids IH|k e kids IH] using tsd_ind'; intros Hfx Hm Hb.
  - unfold valid. cbn [inv_tree]. unfold lmt_of. cbn [tracking]. destruct (lmt k =? MIN_DT) eqn:E; cbn [fst snd negb].
    + repeat split; try reflexivity. intros q. apply (all_min_below_invalid _ tb); try assumption. unfold lmt_of; cbn [tracking]; lia.
    + repeat split; try reflexivity.
      * intros [|i q]; reflexivity.
      * intros [|i q]; reflexivity.
  - rewrite inv_tree_fix. unfold valid, lmt_of. cbn [tracking]. destruct (lmt k =? MIN_DT) eqn:E; cbn [fst snd negb].
    + repeat split; try reflexivity. intros q. apply (all_min_below_invalid _ tb); try assumption. unfold lmt_of; cbn [tracking]; lia.
    + pose proof (inv_kids_kids (inv_tree t) t fk kids 0%nat k b) as Hk.
      destruct (inv_kids (inv_tree t) t fk 0%nat k b kids) as [[k' b'] kids'] eqn:Hik.
      cbn [snd fst] in *. subst kids'.
      assert (Hchild : forall i n c, zidx i = Some n -> nth_error kids n = Some c ->
                 (forall q, skel (fst (fst (inv_tree t c))) q = skel c q) /\
                 (forall q, lmt_at (fst (fst (inv_tree t c))) q = MIN_DT)).
      { intros i n c Hz Hn.
        assert (Hcc : child_of (Fix k fk b kids) i = Some c) by (cbn; rewrite Hz; exact Hn).
        rewrite Forall_forall in IH.
        destruct (IH c (nth_error_In _ _ Hn) (fx_child _ _ _ Hfx Hcc) (mono_child _ _ _ Hm Hcc)
                     (bounded_child _ _ _ _ Hb Hcc)) as (_ & _ & H3 & H4).
        split; assumption. }
      repeat split; try reflexivity.
      * intros [|i q]; [reflexivity|]. unfold skel. cbn [get].
        destruct (zidx i) as [n|] eqn:Hz; [|reflexivity].
        rewrite nth_error_map. destruct (nth_error kids n) as [c|] eqn:Hn; cbn [option_map]; [|reflexivity].
        apply (proj1 (Hchild i n c Hz Hn) q).
      * intros [|i q]; [reflexivity|]. unfold lmt_at. cbn [get].
        destruct (zidx i) as [n|] eqn:Hz; [|reflexivity].
        rewrite nth_error_map. destruct (nth_error kids n) as [c|] eqn:Hn; cbn [option_map]; [|reflexivity].
        apply (proj2 (Hchild i n c Hz Hn) q).
  - exfalso. apply (Hfx []). reflexivity.
Qed.

(* ------------------------------------------------------------------ sub-trees inherit the invariants *)
Lemma fx_sub : forall q s x, fx s -> get q s = Some x -> fx x.
Proof. intros q s x H Hg q2 Hq. apply (H (q ++ q2)). unfold skel in *. rewrite get_app, Hg. exact Hq. Qed.

Lemma mono_sub : forall q s x, mono s -> get q s = Some x -> mono x.
Proof.
  intros q s x H Hg q2 i a b Ha Hb. apply (H (q ++ q2) i a b).
  - rewrite get_app, Hg. exact Ha.
  - rewrite <- app_assoc, get_app, Hg. exact Hb.
Qed.

Lemma bounded_sub : forall t q s x, bounded t s -> get q s = Some x -> bounded t x.
Proof. intros t q s x H Hg q2 a Ha. apply (H (q ++ q2)). rewrite get_app, Hg. exact Ha. Qed.

Lemma prefixb_exists : forall p q, prefixb p q = true -> exists q', q = p ++ q'.
Proof.
  induction p as [|x p IH]; intros q H; [exists q; reflexivity|].
  destruct q as [|y q]; cbn in H; [discriminate|].
  destruct (x =? y) eqn:E; cbn in H; [|discriminate].
  destruct (IH q H) as [q' ->]. exists q'. cbn. f_equal. lia.
Qed.

Lemma path_cases : forall q p,
  sprefixb q p = true \/ prefixb p q = true \/ (prefixb q p = false /\ prefixb p q = false).
Proof.
  intros q p. unfold sprefixb. destruct (prefixb p q) eqn:E1; [right; left; reflexivity|].
  destruct (prefixb q p) eqn:E2; [left; reflexivity|right; right; split; reflexivity].
Qed.

Lemma prefixb_app_self : forall p q', prefixb (p ++ q') p = true -> q' = [].
Proof.
  induction p as [|x p IH]; intros q' H; cbn in H.
  - apply prefixb_nil_r. exact H.
  - destruct (x =? x); cbn in H; [apply IH; exact H|discriminate].
Qed.

(* on the way down to an existing node every prefix exists and is at least as late *)
Lemma prefix_node : forall q q' s x, get (q ++ q') s = Some x -> exists y, get q s = Some y /\ get q' y = Some x.
Proof. intros q q' s x H. rewrite get_app in H. destruct (get q s) as [y|]; [exists y; split; [reflexivity|exact H]|discriminate]. Qed.

Lemma lmt_at_prefix_ge : forall s q q' x, mono s -> get (q ++ q') s = Some x -> lmt_of x <= lmt_at s q.
Proof.
  intros s q q' x Hm H. destruct (prefix_node _ _ _ _ H) as (y & Hy & Hx).
  unfold lmt_at. rewrite Hy. apply (mono_below q' y x); [eapply mono_sub; eassumption|exact Hx].
Qed.

(* ------------------------------------------------------------------ the declarative side: the write log *)
(* [last_write_rev rh q]: rh is the history most-recent-first.  The time of the latest write to q or
   below it that has not since been wiped by an invalidation of q or of a node above it; MIN_DT if none.
   An invalidation of a valid node below q counts as a write to q (the enclosing collections changed). *)
Definition spec_step (t : Z) (o : op) (L : path -> Z) (q : path) : Z :=
  match o with
  | OSet p _ => if prefixb q p then t else L q
  | OInv p => if L p =? MIN_DT then L q
              else if prefixb p q then MIN_DT
              else if prefixb q p then t
              else L q
  | _ => L q
  end.

Fixpoint last_write_rev (rh : hist) (q : path) : Z :=
  match rh with
  | [] => MIN_DT
  | (t, o) :: r => spec_step t o (last_write_rev r) q
  end.

Definition last_write (h : hist) (q : path) : Z := last_write_rev (rev h) q.

(* histories the theorems range over: leaf writes and invalidations of nodes of the shape,
   at non-decreasing concrete times *)
Definition typed (s0 : tsd) (o : op) : Prop :=
  match o with
  | OSet p _ => skel s0 p = Some 0
  | OInv p => skel s0 p <> None
  | _ => False
  end.

Fixpoint times_ok (now : Z) (h : hist) : Prop :=
  match h with
  | [] => True
  | (t, _) :: r => MIN_DT < t /\ now <= t /\ times_ok t r
  end.

Definition monoL (L : path -> Z) : Prop := forall q i, L (q ++ [i]) <= L q.
Definition boundedL (t : Z) (L : path -> Z) : Prop := forall q, MIN_DT <= L q <= t.

Lemma spec_step_bounded : forall t now o L, boundedL now L -> now <= t -> MIN_DT <= t -> boundedL t (spec_step t o L).
Proof.
  intros t now o L Hb Hn Ht q. pose proof (Hb q) as Hq. destruct o as [p v|p|p vt|p key|p key|p v]; cbn [spec_step]; try lia.
  - destruct (prefixb q p); lia.
  - destruct (L p =? MIN_DT); [lia|]. destruct (prefixb p q); [lia|]. destruct (prefixb q p); lia.
Qed.

Lemma spec_step_mono : forall t now o L, monoL L -> boundedL now L -> now <= t -> MIN_DT <= t -> monoL (spec_step t o L).
Proof.
  intros t now o L Hm Hb Hn Ht q i. pose proof (Hm q i) as Hqi. pose proof (Hb q) as Hbq. pose proof (Hb (q ++ [i])) as Hbqi.
  destruct o as [p v|p|p vt|p key|p key|p v]; cbn [spec_step]; try lia.
  - destruct (prefixb (q ++ [i]) p) eqn:E1.
    + rewrite (prefixb_snoc_l _ _ _ E1). lia.
    + destruct (prefixb q p); lia.
  - destruct (L p =? MIN_DT); [lia|].
    destruct (prefixb p (q ++ [i])) eqn:E1.
    + destruct (prefixb p q); [lia|]. destruct (prefixb q p); lia.
    + assert (Hpq : prefixb p q = false).
      { destruct (prefixb p q) eqn:E; [|reflexivity].
        rewrite (prefixb_trans p q (q ++ [i]) E (prefixb_app q [i])) in E1. discriminate. }
      rewrite Hpq. destruct (prefixb (q ++ [i]) p) eqn:E2.
      * rewrite (prefixb_snoc_l _ _ _ E2). lia.
      * destruct (prefixb q p); lia.
Qed.

Lemma lmt_at_monoL : forall s tb, mono s -> bounded tb s -> monoL (lmt_at s).
Proof.
  intros s tb Hm Hb q i. unfold lmt_at. destruct (get (q ++ [i]) s) as [y|] eqn:Hy.
  - destruct (prefix_node _ _ _ _ Hy) as (x & Hx & _). rewrite Hx. apply (Hm q i x y Hx Hy).
  - destruct (get q s) as [x|] eqn:Hx; [apply (proj1 (Hb q x Hx))|lia].
Qed.

Lemma lmt_at_boundedL : forall s tb, bounded tb s -> MIN_DT <= tb -> boundedL tb (lmt_at s).
Proof. intros s tb Hb Ht q. unfold lmt_at. destruct (get q s) as [x|] eqn:Hx; [apply (Hb q x Hx)|lia]. Qed.

Lemma monoL_mono : forall s, monoL (lmt_at s) -> mono s.
Proof. intros s H q i x y Hx Hy. pose proof (H q i) as Hqi. unfold lmt_at in Hqi. rewrite Hx, Hy in Hqi. exact Hqi. Qed.

Lemma boundedL_bounded : forall s t, boundedL t (lmt_at s) -> bounded t s.
Proof. intros s t H q x Hx. pose proof (H q) as Hq. unfold lmt_at in Hq. rewrite Hx in Hq. exact Hq. Qed.

(* ------------------------------------------------------------------ one operation: tree versus write log *)
Lemma skipn_app_exact : forall A (p q : list A), skipn (length p) (p ++ q) = q.
Proof. induction p as [|x p IH]; intros q; [reflexivity|]. cbn. apply IH. Qed.

Lemma sprefixb_app_false : forall p q', sprefixb (p ++ q') p = false.
Proof. intros p q'. unfold sprefixb. rewrite (prefixb_app p q'). cbn. lia. Qed.

Lemma at_path_get_all : forall f t p s x,
  fx s -> mono s -> bounded t s -> get p s = Some x ->
  (forall q, lmt_at (r_tree (at_path f t p s)) q =
     if sprefixb q p then (if r_up (f x) then t else lmt_at s q)
     else if prefixb p q then lmt_at (r_tree (f x)) (skipn (length p) q)
     else lmt_at s q) /\
  (forall q, skel (r_tree (at_path f t p s)) q =
     if sprefixb q p then skel s q
     else if prefixb p q then skel (r_tree (f x)) (skipn (length p) q)
     else skel s q).
Proof.
  intros f t p s x Hfx Hm Hb Hg.
  destruct (at_path_spec f t p s x Hfx Hm Hb Hg) as (_ & _ & _ & Hbelow & Hother & Hpre).
  split; intros q; destruct (path_cases q p) as [Ha|[Hb'|[Hc1 Hc2]]].
  - rewrite Ha. apply (proj2 (Hpre q Ha)).
  - destruct (prefixb_exists _ _ Hb') as [q' ->]. rewrite sprefixb_app_false, Hb', skipn_app_exact.
    unfold lmt_at. rewrite Hbelow. reflexivity.
  - unfold sprefixb. rewrite Hc1, Hc2. cbn [andb]. unfold lmt_at. rewrite (Hother q Hc1 Hc2). reflexivity.
  - rewrite Ha. apply (proj1 (Hpre q Ha)).
  - destruct (prefixb_exists _ _ Hb') as [q' ->]. rewrite sprefixb_app_false, Hb', skipn_app_exact.
    unfold skel. rewrite Hbelow. reflexivity.
  - unfold sprefixb. rewrite Hc1, Hc2. cbn [andb]. unfold skel. rewrite (Hother q Hc1 Hc2). reflexivity.
Qed.

Lemma bounded_weaken : forall a b s, bounded a s -> a <= b -> bounded b s.
Proof. intros a b s H Hab q x Hx. pose proof (H q x Hx). lia. Qed.

Lemma sprefixb_prefixb : forall q p, sprefixb q p = true -> prefixb q p = true /\ prefixb p q = false.
Proof. unfold sprefixb. intros q p H. destruct (prefixb q p), (prefixb p q); cbn in H; try discriminate. split; reflexivity. Qed.

(* the node at q sits above the node at p: it is at least as late *)
Lemma above_ge : forall s q p x, mono s -> prefixb q p = true -> get p s = Some x -> lmt_of x <= lmt_at s q.
Proof.
  intros s q p x Hm Hqp Hg. destruct (prefixb_exists _ _ Hqp) as [q' ->]. eapply lmt_at_prefix_ge; eassumption.
Qed.

Lemma step_set_spec : forall t now p v s,
  fx s -> mono s -> bounded now s -> MIN_DT < t -> now <= t -> skel s p = Some 0 ->
  let r := step t (OSet p v) s in
  r_err r = 0 /\ (forall q, skel (r_tree r) q = skel s q) /\
  (forall q, lmt_at (r_tree r) q = spec_step t (OSet p v) (lmt_at s) q).
Proof.
  intros t now p v s Hfx Hm Hbn Ht Hnow Hty r.
  assert (Hb : bounded t s) by (eapply bounded_weaken; eassumption).
  unfold skel in Hty. destruct (get p s) as [x|] eqn:Hg; [|discriminate].
  destruct x as [k v0|? ? ? ?|? ? ?]; try discriminate. clear Hty.
  assert (Hkt : lmt k <= t) by (apply (proj2 (Hb p _ Hg))).
  destruct (at_path_spec (op_set t v) t p s _ Hfx Hm Hb Hg) as (He & _).
  destruct (at_path_get_all (op_set t v) t p s _ Hfx Hm Hb Hg) as (HL & HS).
  subst r. cbn [step].
  (* what the leaf operation does *)
  assert (Hleaf : r_err (op_set t v (Leaf k v0)) = 0 /\
                  (exists k', r_tree (op_set t v (Leaf k v0)) = Leaf k' v /\ lmt k' = t) /\
                  r_up (op_set t v (Leaf k v0)) = (lmt k <? t)).
  { cbn [op_set]. destruct (lmt k =? t) eqn:E.
    - cbn. split; [reflexivity|]. split; [exists k; split; [reflexivity|lia]|lia].
    - rewrite rec_mod_newer by lia. cbn. split; [reflexivity|]. split; [eexists; split; [reflexivity|reflexivity]|lia]. }
  destruct Hleaf as (Herr & (k' & Htree & Hk') & Hup).
  split; [rewrite He; exact Herr|]. split.
  - intros q. rewrite HS. destruct (sprefixb q p) eqn:Ea; [reflexivity|].
    destruct (prefixb p q) eqn:Eb; [|reflexivity].
    destruct (prefixb_exists _ _ Eb) as [q' ->]. rewrite skipn_app_exact, Htree.
    unfold skel. rewrite get_app, Hg. destruct q'; reflexivity.
  - intros q. rewrite HL. cbn [spec_step]. destruct (sprefixb q p) eqn:Ea.
    + destruct (sprefixb_prefixb _ _ Ea) as [E1 E2]. rewrite E1, Hup.
      destruct (lmt k <? t) eqn:Elt; [reflexivity|].
      pose proof (above_ge s q p _ Hm E1 Hg) as Hge. unfold lmt_of in Hge. cbn [tracking] in Hge.
      pose proof (lmt_at_boundedL s t Hb ltac:(lia) q). lia.
    + destruct (prefixb p q) eqn:Eb.
      * destruct (prefixb_exists _ _ Eb) as [q' ->]. rewrite skipn_app_exact, Htree.
        destruct q' as [|i q'].
        -- rewrite app_nil_r, prefixb_refl. unfold lmt_at, lmt_of. cbn [get tracking]. exact Hk'.
        -- destruct (prefixb (p ++ i :: q') p) eqn:Ec.
           ++ apply prefixb_app_self in Ec. discriminate.
           ++ unfold lmt_at. rewrite get_app, Hg. reflexivity.
      * unfold sprefixb in Ea. rewrite Eb in Ea. cbn [negb] in Ea. rewrite andb_true_r in Ea. rewrite Ea. reflexivity.
Qed.

Lemma step_inv_spec : forall t now p s,
  fx s -> mono s -> bounded now s -> MIN_DT < t -> now <= t -> skel s p <> None ->
  let r := step t (OInv p) s in
  r_err r = 0 /\ (forall q, skel (r_tree r) q = skel s q) /\
  (forall q, lmt_at (r_tree r) q = spec_step t (OInv p) (lmt_at s) q).
Proof.
  intros t now p s Hfx Hm Hbn Ht Hnow Hty r.
  assert (Hb : bounded t s) by (eapply bounded_weaken; eassumption).
  unfold skel in Hty. destruct (get p s) as [x|] eqn:Hg; [clear Hty|exfalso; apply Hty; reflexivity].
  destruct (at_path_spec (op_inv t) t p s _ Hfx Hm Hb Hg) as (He & _).
  destruct (at_path_get_all (op_inv t) t p s _ Hfx Hm Hb Hg) as (HL & HS).
  destruct (inv_tree_spec t t x (fx_sub _ _ _ Hfx Hg) (mono_sub _ _ _ Hm Hg) (bounded_sub _ _ _ _ Hb Hg))
    as (Hup & _ & Hsk & Hmin).
  subst r. cbn [step].
  assert (Hop : r_err (op_inv t x) = 0 /\ r_tree (op_inv t x) = fst (fst (inv_tree t x)) /\
                r_up (op_inv t x) = snd (fst (inv_tree t x))).
  { unfold op_inv. destruct (inv_tree t x) as [[x' up] did]. cbn. repeat split; reflexivity. }
  destruct Hop as (Herr & Htree & Hupf).
  assert (HLp : lmt_at s p = lmt_of x) by (unfold lmt_at; rewrite Hg; reflexivity).
  split; [rewrite He; exact Herr|]. split.
  - intros q. rewrite HS. destruct (sprefixb q p) eqn:Ea; [reflexivity|].
    destruct (prefixb p q) eqn:Eb; [|reflexivity].
    destruct (prefixb_exists _ _ Eb) as [q' ->]. rewrite skipn_app_exact, Htree, Hsk.
    unfold skel. rewrite get_app, Hg. reflexivity.
  - intros q. rewrite HL. cbn [spec_step]. rewrite HLp, Hupf, Hup. unfold valid.
    destruct (lmt_of x =? MIN_DT) eqn:Ev; cbn [negb].
    + (* nothing happens on an invalid node *)
      destruct (sprefixb q p); [reflexivity|].
      destruct (prefixb p q) eqn:Eb; [|reflexivity].
      destruct (prefixb_exists _ _ Eb) as [q' ->]. rewrite skipn_app_exact, Htree, Hmin.
      unfold lmt_at. rewrite get_app, Hg.
      symmetry. apply (all_min_below_invalid x t); [eapply mono_sub; eassumption|eapply bounded_sub; eassumption|lia].
    + destruct (sprefixb q p) eqn:Ea.
      * destruct (sprefixb_prefixb _ _ Ea) as [E1 E2]. rewrite E2, E1. reflexivity.
      * destruct (prefixb p q) eqn:Eb.
        -- destruct (prefixb_exists _ _ Eb) as [q' ->]. rewrite skipn_app_exact, Htree. apply Hmin.
        -- unfold sprefixb in Ea. rewrite Eb in Ea. cbn [negb] in Ea. rewrite andb_true_r in Ea. rewrite Ea. reflexivity.
Qed.

Lemma step_spec : forall t now o s,
  fx s -> mono s -> bounded now s -> MIN_DT < t -> now <= t -> typed s o ->
  let r := step t o s in
  r_err r = 0 /\ (forall q, skel (r_tree r) q = skel s q) /\
  (forall q, lmt_at (r_tree r) q = spec_step t o (lmt_at s) q).
Proof.
  intros t now o s Hfx Hm Hb Ht Hn Hty. destruct o as [p v|p|p vt|p key|p key|p v]; cbn [typed] in Hty; try contradiction.
  - eapply step_set_spec; eassumption.
  - eapply step_inv_spec; eassumption.
Qed.

(* ------------------------------------------------------------------ whole histories *)
Lemma typed_skel : forall s s' o, (forall q, skel s' q = skel s q) -> typed s o -> typed s' o.
Proof. intros s s' o H Ht. destruct o; cbn [typed] in *; try contradiction; rewrite H; exact Ht. Qed.

Lemma fx_skel : forall s s', (forall q, skel s' q = skel s q) -> fx s -> fx s'.
Proof. intros s s' H Hfx q. rewrite H. apply Hfx. Qed.

(* the invariant carried along a history *)
Record inv_state (s0 : tsd) (now : Z) (rh : hist) (s : tsd) : Prop := {
  is_skel : forall q, skel s q = skel s0 q;
  is_fx : fx s;
  is_mono : mono s;
  is_bounded : bounded now s;
  is_spec : forall q, lmt_at s q = last_write_rev rh q
}.

Lemma run_invariant : forall s0 h s now rh,
  inv_state s0 now rh s -> MIN_DT <= now -> times_ok now h -> Forall (fun e => typed s0 (snd e)) h ->
  exists now', inv_state s0 now' (rev h ++ rh) (run h s) /\ now <= now'.
Proof.
  intros s0 h. induction h as [|[t o] h IH]; intros s now rh Hinv Hnow Htimes Hty.
  - exists now. split; [exact Hinv|lia].
  - cbn [times_ok] in Htimes. destruct Htimes as (Ht & Hnt & Hrest).
    inversion Hty as [|e l Hto Htl]; subst. cbn [snd] in Hto.
    destruct Hinv as [Hsk Hfx Hm Hb Hsp].
    assert (Htyped : typed s o) by (eapply typed_skel; [exact Hsk|exact Hto]).
    destruct (step_spec t now o s Hfx Hm Hb Ht Hnt Htyped) as (_ & Hsk' & HL').
    set (s' := r_tree (step t o s)) in *.
    assert (HbL : boundedL t (lmt_at s')).
    { intros q. rewrite HL'. eapply spec_step_bounded; [apply lmt_at_boundedL; eassumption|lia|lia]. }
    assert (HmL : monoL (lmt_at s')).
    { intros q i. rewrite !HL'. eapply spec_step_mono; [eapply lmt_at_monoL; eassumption|apply lmt_at_boundedL; eassumption|lia|lia]. }
    assert (Hinv' : inv_state s0 t ((t, o) :: rh) s').
    { constructor.
      - intros q. rewrite Hsk'. apply Hsk.
      - eapply fx_skel; eassumption.
      - apply monoL_mono. exact HmL.
      - apply boundedL_bounded. exact HbL.
      - intros q. rewrite HL'. cbn [last_write_rev]. destruct o; cbn [spec_step]; rewrite ?Hsp; reflexivity. }
    destruct (IH s' t ((t, o) :: rh) Hinv' ltac:(lia) Hrest Htl) as (now' & Hfin & Hle).
    exists now'. split; [|lia].
    cbn [rev]. rewrite <- app_assoc. cbn [app]. exact Hfin.
Qed.

(* a fresh tree: nothing has ever been written *)
Definition fresh (s : tsd) : Prop := forall q x, get q s = Some x -> lmt_of x = MIN_DT.

Lemma fresh_inv_state : forall s0, fx s0 -> fresh s0 -> inv_state s0 MIN_DT [] s0.
Proof.
  intros s0 Hfx Hfr. constructor.
  - reflexivity.
  - exact Hfx.
  - intros q i x y Hx Hy. rewrite (Hfr _ _ Hx), (Hfr _ _ Hy). lia.
  - intros q x Hx. rewrite (Hfr _ _ Hx). lia.
  - intros q. unfold lmt_at. cbn. destruct (get q s0) as [x|] eqn:Hx; [apply (Hfr _ _ Hx)|reflexivity].
Qed.

Theorem lmt_is_last_write_gen : forall s0 h,
  fx s0 -> fresh s0 -> times_ok MIN_DT h -> Forall (fun e => typed s0 (snd e)) h ->
  forall q, lmt_at (run h s0) q = last_write h q.
Proof.
  intros s0 h Hfx Hfr Ht Hty q.
  destruct (run_invariant s0 h s0 MIN_DT [] (fresh_inv_state s0 Hfx Hfr) ltac:(lia) Ht Hty) as (now' & Hinv & _).
  rewrite app_nil_r in Hinv. unfold last_write. apply (is_spec _ _ _ _ Hinv).
Qed.

(* ------------------------------------------------------------------ every dictionary-free shape starts fresh and fixed *)
Lemma init_fresh_fx : forall sh, has_dict sh = false ->
  forall q x, get q (init sh) = Some x -> lmt_of x = MIN_DT /\ (match x with Dict _ _ _ => False | _ => True end).
Proof.
  intros sh. induction sh as [|fs IH|n e IH|e IH] using shape_ind'; intros Hd q x Hg.
  - destruct q; cbn in Hg; [injection Hg as <-; split; [reflexivity|exact I]|discriminate].
  - cbn [init] in Hg. destruct q as [|i q].
    + cbn in Hg. injection Hg as <-. split; [reflexivity|exact I].
    + cbn [get] in Hg. destruct (zidx i) as [m|]; [|discriminate].
      rewrite nth_error_map in Hg. destruct (nth_error fs m) as [f|] eqn:Hf; cbn [option_map] in Hg; [|discriminate].
      rewrite Forall_forall in IH.
      assert (Hdf : has_dict f = false).
      { cbn [has_dict] in Hd. destruct (has_dict f) eqn:E; [|reflexivity].
        assert (existsb has_dict fs = true) by (apply existsb_exists; exists f; split; [eapply nth_error_In; eassumption|exact E]).
        congruence. }
      apply (IH f (nth_error_In _ _ Hf) Hdf q x Hg).
  - cbn [init] in Hg. destruct q as [|i q].
    + cbn in Hg. injection Hg as <-. split; [reflexivity|exact I].
    + cbn [get] in Hg. destruct (zidx i) as [m|]; [|discriminate].
      destruct (nth_error (repeat (init e) n) m) as [c|] eqn:Hc; [|discriminate].
      apply nth_error_In, repeat_spec in Hc. subst c. apply (IH Hd q x Hg).
  - cbn in Hd. discriminate.
Qed.

Lemma init_fx : forall sh, has_dict sh = false -> fx (init sh).
Proof.
  intros sh Hd q Hq. unfold skel in Hq. destruct (get q (init sh)) as [x|] eqn:Hg; [|discriminate].
  destruct (init_fresh_fx sh Hd q x Hg) as [_ H]. destruct x; try discriminate. exact H.
Qed.

Lemma init_fresh : forall sh, has_dict sh = false -> fresh (init sh).
Proof. intros sh Hd q x Hg. apply (init_fresh_fx sh Hd q x Hg). Qed.

(* ------------------------------------------------------------------ the observables in terms of the write log *)
Section Observables.
  Variable sh : shape.
  Variable h : hist.
  Hypothesis Hsh : has_dict sh = false.
  Hypothesis Htimes : times_ok MIN_DT h.
  Hypothesis Htyped : Forall (fun e => typed (init sh) (snd e)) h.

  Lemma lmt_is_last_write_sh : forall q, lmt_at (run h (init sh)) q = last_write h q.
  Proof. apply lmt_is_last_write_gen; [apply init_fx|apply init_fresh| |]; assumption. Qed.

  Lemma node_exists : forall q, skel (init sh) q <> None -> exists x, get q (run h (init sh)) = Some x.
  Proof.
    intros q Hq.
    destruct (run_invariant (init sh) h (init sh) MIN_DT [] (fresh_inv_state _ (init_fx _ Hsh) (init_fresh _ Hsh))
                ltac:(lia) Htimes Htyped) as (now' & Hinv & _).
    pose proof (is_skel _ _ _ _ Hinv q) as Hs. unfold skel in Hs, Hq.
    destruct (get q (run h (init sh))) as [x|]; [exists x; reflexivity|].
    destruct (get q (init sh)) as [[| |]|]; try discriminate. exfalso. apply Hq. reflexivity.
  Qed.

  Lemma node_lmt : forall q x, get q (run h (init sh)) = Some x -> lmt_of x = last_write h q.
  Proof. intros q x Hx. rewrite <- lmt_is_last_write_sh. unfold lmt_at. rewrite Hx. reflexivity. Qed.

  Lemma modified_iff_written_sh : forall q x t, get q (run h (init sh)) = Some x ->
    (modified t x = true <-> (last_write h q = t /\ t <> MIN_DT)).
  Proof. intros q x t Hx. unfold modified. rewrite (node_lmt q x Hx). lia. Qed.

  Lemma valid_iff_written_sh : forall q x, get q (run h (init sh)) = Some x ->
    (valid x = true <-> last_write h q <> MIN_DT).
  Proof. intros q x Hx. unfold valid. rewrite (node_lmt q x Hx). lia. Qed.

  Lemma delta_only_in_cycle_sh : forall q x t, get q (run h (init sh)) = Some x ->
    (delta_readable t x = true <-> (last_write h q = t /\ t <> MIN_DT)).
  Proof. intros q x t Hx. unfold delta_readable. rewrite (node_lmt q x Hx). lia. Qed.
End Observables.

(* ------------------------------------------------------------------ the write log, read without the fold *)
(* does an operation concern endpoint q: a write at or below it, an invalidation strictly below it *)
Definition concerns (o : op) (q : path) : bool :=
  match o with
  | OSet p _ => prefixb q p
  | OInv p => sprefixb q p
  | _ => false
  end.

(* an endpoint's time is never a cycle in which nothing concerned it *)
Lemma last_write_only_if_op : forall rh q t,
  last_write_rev rh q = t -> t <> MIN_DT -> exists o, In (t, o) rh /\ concerns o q = true.
Proof.
  induction rh as [|[t0 o] rh IH]; intros q t H Ht; cbn [last_write_rev] in H; [congruence|].
  assert (Hrec : last_write_rev rh q = t -> exists o0, In (t, o0) ((t0, o) :: rh) /\ concerns o0 q = true).
  { intros H'. destruct (IH q t H' Ht) as (o0 & Hin & Hc). exists o0. split; [right; exact Hin|exact Hc]. }
  destruct o as [p v|p|p vt|p key|p key|p v]; cbn [spec_step] in H; try (apply Hrec; exact H).
  - destruct (prefixb q p) eqn:E; [|apply Hrec; exact H].
    subst t0. exists (OSet p v). split; [left; reflexivity|exact E].
  - destruct (last_write_rev rh p =? MIN_DT); [apply Hrec; exact H|].
    destruct (prefixb p q) eqn:E1; [congruence|].
    destruct (prefixb q p) eqn:E2; [|apply Hrec; exact H].
    subst t0. exists (OInv p). split; [left; reflexivity|]. cbn [concerns]. unfold sprefixb. rewrite E1, E2. reflexivity.
Qed.

(* and it is never later than the latest cycle of the history *)
Lemma last_write_le : forall rh tmax q, MIN_DT <= tmax -> (forall e, In e rh -> fst e <= tmax) -> last_write_rev rh q <= tmax.
Proof.
  induction rh as [|[t0 o] rh IH]; intros tmax q H0 H; cbn [last_write_rev]; [lia|].
  assert (Ht0 : t0 <= tmax) by (apply (H (t0, o)); left; reflexivity).
  assert (Hr : forall q', last_write_rev rh q' <= tmax) by (intros q'; apply IH; [exact H0|intros e He; apply H; right; exact He]).
  pose proof (Hr q). destruct o as [p v|p|p vt|p key|p key|p v]; cbn [spec_step]; try assumption.
  - destruct (prefixb q p); lia.
  - destruct (last_write_rev rh p =? MIN_DT); [lia|]. destruct (prefixb p q); [lia|]. destruct (prefixb q p); lia.
Qed.

(* a write is seen by the written leaf and every enclosing collection, in that cycle *)
Lemma write_is_visible : forall h t p v q, prefixb q p = true -> last_write (h ++ [(t, OSet p v)]) q = t.
Proof. intros h t p v q H. unfold last_write. rewrite rev_app_distr. cbn. rewrite H. reflexivity. Qed.

(* an invalidation of a valid node wipes it and everything below, and is a change of everything above *)
Lemma invalidate_is_visible : forall h t p q, last_write h p <> MIN_DT ->
  last_write (h ++ [(t, OInv p)]) q =
  if prefixb p q then MIN_DT else if prefixb q p then t else last_write h q.
Proof.
  intros h t p q H. unfold last_write in *. rewrite rev_app_distr. cbn.
  destruct (last_write_rev (rev h) p =? MIN_DT) eqn:E; [lia|reflexivity].
Qed.

(* invalidating what is not valid changes nothing *)
Lemma invalidate_invalid_noop : forall h t p q, last_write h p = MIN_DT -> last_write (h ++ [(t, OInv p)]) q = last_write h q.
Proof.
  intros h t p q H. unfold last_write in *. rewrite rev_app_distr. cbn. rewrite H. reflexivity.
Qed.

(* ------------------------------------------------------------------ parents and children *)
Lemma prefixb_strict_child : forall q p, prefixb q p = true -> q <> p -> exists i, prefixb (q ++ [i]) p = true.
Proof.
  induction q as [|x q IH]; intros p H Hne.
  - destruct p as [|y p]; [congruence|]. exists y. cbn. assert (y =? y = true) as -> by lia. reflexivity.
  - destruct p as [|y p]; cbn in H; [discriminate|].
    destruct (x =? y) eqn:E; cbn in H; [|discriminate]. assert (x = y) by lia. subst y.
    destruct (IH p H) as [i Hi]; [congruence|]. exists i. cbn. rewrite E. exact Hi.
Qed.

Lemma prefixb_snoc_r : forall p q i, prefixb p (q ++ [i]) = true -> prefixb p q = true \/ p = q ++ [i].
Proof.
  induction p as [|x p IH]; intros q i H; [left; reflexivity|].
  destruct q as [|y q]; cbn in H.
  - destruct (x =? i) eqn:E; cbn in H; [|discriminate]. apply prefixb_nil_r in H. subst p. right. cbn. f_equal. lia.
  - destruct (x =? y) eqn:E; cbn in H; [|discriminate].
    destruct (IH q i H) as [Hl| ->]; [left; cbn; rewrite E; exact Hl|right; cbn; f_equal; lia].
Qed.

(* a collection's time equals the cycle only if a child's does, or a child was invalidated in that cycle *)
Lemma parent_only_if_child_rev : forall rh q t,
  (forall t' p v, In (t', OSet p v) rh -> p <> q) ->
  last_write_rev rh q = t -> t <> MIN_DT ->
  (exists i, last_write_rev rh (q ++ [i]) = t) \/ (exists p, In (t, OInv p) rh /\ sprefixb q p = true).
Proof.
  induction rh as [|[t0 o] rh IH]; intros q t Hleaf H Ht; cbn [last_write_rev] in H; [congruence|].
  assert (Hleaf' : forall t' p v, In (t', OSet p v) rh -> p <> q) by (intros t' p v Hin; apply (Hleaf t' p v); right; exact Hin).
  assert (Hrec : last_write_rev rh q = t ->
                 (forall i, spec_step t0 o (last_write_rev rh) (q ++ [i]) = last_write_rev rh (q ++ [i])) ->
                 (exists i, last_write_rev ((t0, o) :: rh) (q ++ [i]) = t) \/
                 (exists p, In (t, OInv p) ((t0, o) :: rh) /\ sprefixb q p = true)).
  { intros H' Hsame. destruct (IH q t Hleaf' H' Ht) as [[i Hi]|(p & Hin & Hs)].
    - left. exists i. cbn [last_write_rev]. rewrite Hsame. exact Hi.
    - right. exists p. split; [right; exact Hin|exact Hs]. }
  destruct o as [p v|p|p vt|p key|p key|p v]; cbn [spec_step] in H; try (apply Hrec; [exact H|reflexivity]).
  - destruct (prefixb q p) eqn:E.
    + subst t0. assert (Hne : q <> p) by (intros ->; apply (Hleaf t p v); [left; reflexivity|reflexivity]).
      destruct (prefixb_strict_child q p E Hne) as [i Hi]. left. exists i. cbn [last_write_rev spec_step]. rewrite Hi. reflexivity.
    + apply Hrec; [exact H|]. intros i. cbn [spec_step].
      destruct (prefixb (q ++ [i]) p) eqn:E2; [|reflexivity]. rewrite (prefixb_snoc_l _ _ _ E2) in E. discriminate.
  - destruct (last_write_rev rh p =? MIN_DT) eqn:Ev.
    + apply Hrec; [exact H|]. intros i. cbn [spec_step]. rewrite Ev. reflexivity.
    + destruct (prefixb p q) eqn:E1; [congruence|].
      destruct (prefixb q p) eqn:E2.
      * subst t0. right. exists p. split; [left; reflexivity|]. unfold sprefixb. rewrite E1, E2. reflexivity.
      * apply Hrec; [exact H|]. intros i. cbn [spec_step]. rewrite Ev.
        destruct (prefixb p (q ++ [i])) eqn:E3.
        -- destruct (prefixb_snoc_r _ _ _ E3) as [Hl| ->]; [congruence|]. rewrite prefixb_app in E2. discriminate.
        -- destruct (prefixb (q ++ [i]) p) eqn:E4; [|reflexivity]. rewrite (prefixb_snoc_l _ _ _ E4) in E2. discriminate.
Qed.

(* ------------------------------------------------------------------ a repeated write in one cycle is silent *)
Lemma set_again_silent : forall t v p s k v0,
  fx s -> get p s = Some (Leaf k v0) -> lmt k = t ->
  r_up (at_path (op_set t v) t p s) = false /\
  forall q, option_map tracking (get q (r_tree (at_path (op_set t v) t p s))) = option_map tracking (get q s).
Proof.
  intros t v p. induction p as [|i p IH]; intros s k v0 Hfx Hg Hk.
  - cbn in Hg. injection Hg as ->. cbn [at_path op_set]. assert (lmt k =? t = true) as -> by lia. cbn.
    split; [reflexivity|]. intros [|j q]; reflexivity.
  - destruct (fx_get_cons _ _ _ _ Hfx Hg) as (k1 & fk & b & kids & n & c & -> & Hz & Hn & Hgc).
    assert (Hcc : child_of (Fix k1 fk b kids) i = Some c) by (cbn; rewrite Hz; exact Hn).
    destruct (IH c k v0 (fx_child _ _ _ Hfx Hcc) Hgc Hk) as [Hup Hq].
    cbn [at_path]. rewrite Hz, Hn, Hup. cbn [notify_parent r_up r_tree].
    split; [reflexivity|]. intros [|j q]; [reflexivity|]. cbn [get].
    destruct (zidx j) as [m|] eqn:Hzj; [|reflexivity].
    destruct (Nat.eq_dec n m) as [<-|Hne].
    + rewrite (nth_error_set_nth_same _ _ _ _ _ Hn), Hn. apply Hq.
    + rewrite nth_error_set_nth_other by exact Hne. reflexivity.
Qed.

(* ------------------------------------------------------------------ dictionaries: the parent follows its children *)
Lemma dict_parent_if_child : forall f t k e kids key p',
  lmt k <= t ->
  let r := at_path f t (key :: p') (Dict k e kids) in
  (dict_find key kids = None -> lmt_of (r_tree r) = t) /\
  (forall c, dict_find key kids = Some c -> r_up (at_path f t p' c) = true -> lmt_of (r_tree r) = t).
Proof.
  intros f t k e kids key p' Hk r. subst r. cbn [at_path]. unfold dict_ensure. split.
  - intros Hnone. rewrite Hnone.
    destruct (rec_mod t k) as [k1 up1] eqn:Hr.
    assert (Hk1 : lmt k1 = t) by (replace k1 with (fst (rec_mod t k)) by (rewrite Hr; reflexivity); apply rec_mod_lmt; exact Hk).
    destruct (notify_parent t (r_up (at_path f t p' (init e))) k1) as [k2 up2] eqn:Hn.
    unfold lmt_of. cbn [r_tree tracking].
    unfold notify_parent in Hn. destruct (r_up (at_path f t p' (init e))).
    + replace k2 with (fst (rec_mod t k1)) by (rewrite Hn; reflexivity). apply rec_mod_lmt. lia.
    + injection Hn as <- _. exact Hk1.
  - intros c Hc Hup. rewrite Hc, Hup. cbn [notify_parent].
    destruct (rec_mod t k) as [k2 up2] eqn:Hr. unfold lmt_of. cbn [r_tree tracking].
    replace k2 with (fst (rec_mod t k)) by (rewrite Hr; reflexivity). apply rec_mod_lmt. exact Hk.
Qed.

Lemma dict_erase_marks : forall t key k e kids, lmt k <= t -> lmt_of (r_tree (op_erase t key (Dict k e kids))) = t.
Proof.
  intros t key k e kids Hk. cbn [op_erase]. destruct (dict_find key kids); destruct (rec_mod t k) as [k' up] eqn:Hr;
    unfold lmt_of; cbn [r_tree tracking]; (replace k' with (fst (rec_mod t k)) by (rewrite Hr; reflexivity)); apply rec_mod_lmt; exact Hk.
Qed.

(* ------------------------------------------------------------------ consumers *)
(* below the link's root, and at the root whenever the link is not ahead of the data, a consumer's
   line is the producer's line *)
Lemma consumer_line_agrees : forall who t p lk root x,
  lk <= lmt_of x -> lmt_of x <= t ->
  node_line who t p (Some lk) root x = node_line who t p None root x.
Proof.
  intros who t p lk root x H1 H2. unfold node_line.
  assert (lmt_of x <? lk = false) as -> by lia. cbn [orb].
  destruct root.
  - assert (Z.max lk (lmt_of x) = lmt_of x) as -> by lia.
    unfold modified. f_equal. f_equal. f_equal.
    destruct (lk =? t) eqn:E; cbn [orb]; [|reflexivity].
    assert (lmt_of x =? t = true) as -> by lia. reflexivity.
  - reflexivity.
Qed.

(* validity and value never depend on the link at all: both lines carry [valid x] and [value_of x] *)
Lemma consumer_valid_value_agree : forall who t p lk root x,
  exists md l rd dv md' l' rd' dv',
    node_line who t p (Some lk) root x = obs_line who t p (valid x) md l (value_of x) rd dv /\
    node_line who t p None root x = obs_line who t p (valid x) md' l' (value_of x) rd' dv'.
Proof. intros who t p lk root x. unfold node_line. repeat eexists. Qed.

(* two consumers of one endpoint stay in step *)
Lemma feed_deterministic : forall t a b c1 c2,
  c_path c1 = c_path c2 -> c_bound c1 = c_bound c2 -> c_link c1 = c_link c2 ->
  c_link (feed t a b c1) = c_link (feed t a b c2) /\ c_bound (feed t a b c1) = c_bound (feed t a b c2).
Proof.
  intros t a b c1 c2 Hp Hb Hl. unfold feed. rewrite Hp, Hb.
  destruct (c_bound c2 && (target_ncnt (c_path c2) a <? target_ncnt (c_path c2) b)); cbn; split; congruence.
Qed.

(* ------------------------------------------------------------------ parents and children, on every shape and history *)
Section ParentChild.
  Variable sh : shape.
  Variable h : hist.
  Hypothesis Hsh : has_dict sh = false.
  Hypothesis Htimes : times_ok MIN_DT h.
  Hypothesis Htyped : Forall (fun e => typed (init sh) (snd e)) h.

  Lemma last_write_monoL : forall q i, last_write h (q ++ [i]) <= last_write h q.
  Proof.
    intros q i.
    destruct (run_invariant (init sh) h (init sh) MIN_DT [] (fresh_inv_state _ (init_fx _ Hsh) (init_fresh _ Hsh))
                ltac:(lia) Htimes Htyped) as (now' & Hinv & Hle).
    rewrite <- !(lmt_is_last_write_sh sh h Hsh Htimes Htyped).
    apply (lmt_at_monoL _ now' (is_mono _ _ _ _ Hinv) (is_bounded _ _ _ _ Hinv)).
  Qed.

  (* in the current cycle t (no later write exists): a modified child makes its parent modified *)
  Lemma child_then_parent : forall q i t,
    (forall e, In e h -> fst e <= t) -> MIN_DT <= t -> last_write h (q ++ [i]) = t -> last_write h q = t.
  Proof.
    intros q i t Hmax Ht Hc. pose proof (last_write_monoL q i) as Hm.
    assert (last_write h q <= t).
    { unfold last_write. apply last_write_le; [exact Ht|]. intros e He. apply Hmax. apply in_rev. exact He. }
    lia.
  Qed.

  (* a fixed collection is modified only if a child is, or a child was invalidated in that cycle *)
  Lemma parent_only_if_child : forall q t,
    skel (init sh) q = Some 1 -> last_write h q = t -> t <> MIN_DT ->
    (exists i, last_write h (q ++ [i]) = t) \/ (exists p, In (t, OInv p) h /\ sprefixb q p = true).
  Proof.
    intros q t Hq Hl Ht. unfold last_write in *.
    destruct (parent_only_if_child_rev (rev h) q t) as [Hc|(p & Hin & Hs)]; try assumption.
    - intros t' p v Hin Heq. subst p. apply in_rev in Hin.
      rewrite Forall_forall in Htyped. specialize (Htyped _ Hin). cbn [snd typed] in Htyped. congruence.
    - left. exact Hc.
    - right. exists p. split; [apply in_rev; exact Hin|exact Hs].
  Qed.
End ParentChild.
