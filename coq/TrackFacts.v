(* TrackFacts.v — lemmas about the Track model (property C04). *)
Require Import Base Track.
From Coq Require Import ZifyBool.

Lemma rec_mod_older_noop : forall t k, t <= lmt k -> rec_mod t k = (k, false).
Proof. intros t k H. unfold rec_mod. destruct (t <=? lmt k) eqn:E; [reflexivity|lia]. Qed.
