(* NestedMsg.v — the message (error code) an exception carries is never rewritten on its way up: whatever
   code leaves the evaluation of a graph, at any depth below, is the code raised by the evaluation of one
   plain node (or the engine's own "schedule in the past" / fuel codes of the tail) - nested levels pass it
   through unchanged.  With NestedFacts.caught_one_tick: the message ticked by try_except IS the message
   thrown, whatever nesting depth lies between. *)
Require Import Base Sched SchedFacts Nested NestedWitness NestedFacts NestedInv NestedOnce.
From Coq Require Import ZifyBool.

(* no try_except (kind 2) and no re-entering owner (kind 4) in the graphs with id >= c: nothing between the
   thrower and the level we look at catches or resumes *)
Definition no_try_from (c : nat) (T : tcfg) : Prop :=
  forall g i, (c <= g)%nat -> c_kind (ncfg_at T g i) <> 2 /\ c_kind (ncfg_at T g i) <> 4.

(* code e was raised by the evaluation of a non-nested node from an error-free world *)
Definition raised_by_node (T : tcfg) (beh : behaviour) (e : Z) : Prop :=
  exists g i w0, ok w0 = true /\ is_nested (ncfg_at T g i) = false
    /\ w_err (if c_kind (ncfg_at T g i) =? 5 then eval_pauser T beh g i w0 else eval_plain T beh g i w0) = e.

Definition origin (T : tcfg) (beh : behaviour) (e : Z) : Prop := e = 9 \/ e = 3 \/ raised_by_node T beh e.

Section MSG.
  Variable T : tcfg.
  Variable beh : behaviour.
  Hypothesis HT : wf_tree T.

  Definition ev_origin (c : nat) (ev : nat -> Z -> world -> world) : Prop :=
    forall g t w, (c <= g)%nat -> ok w = true -> w_err (ev g t w) <> 0 -> origin T beh (w_err (ev g t w)).

  Lemma relink_err g i w : w_err (relink T g i w) = w_err w.
  Proof.
    destruct HT as (HP & _). unfold relink. destruct (_ && _); auto. rewrite notify_link_err; auto.
  Qed.

  Lemma scan_origin c ev g : no_try_from c T -> (c <= g)%nat -> ev_origin c ev -> forall k i w,
    ok w = true -> w_err (scan T beh ev g i k w) <> 0 -> origin T beh (w_err (scan T beh ev g i k w)).
  Proof.
    intros HN Hg Hev. induction k as [|k IH]; intros i w Hok Hne; simpl in *; [unfold ok in Hok; lia|].
    rewrite Hok in *. cbn [negb] in *.
    set (w0 := upd_g g (g_set_cursor (Z.of_nat i)) w) in *.
    assert (O0 : ok w0 = true) by exact Hok.
    match type of Hne with w_err (if negb (ok ?ww) then _ else _) <> 0 => set (w1 := ww) in * end.
    assert (H1 : ok w1 = true \/ origin T beh (w_err w1)).
    { unfold w1. destruct (_ =? _).
      - set (we := emit [11; Z.of_nat g; Z.of_nat i; g_now (gat g w0)] w0).
        assert (Oe : ok we = true) by exact O0.
        unfold eval_node. destruct (is_nested (ncfg_at T g i)) eqn:E.
        + unfold eval_nested. destruct (negb (n_started _)); [left; exact Oe|].
          assert (K1 : c_kind (ncfg_at T g i) =? 1 = true) by (unfold is_nested in E; destruct (HN g i Hg); lia).
          rewrite K1.
          set (wc := ev (c_child (ncfg_at T g i)) (now_of g we) (relink T g i we)).
          destruct (ok wc) eqn:Ec; [left; reflexivity|right].
          apply Hev.
          * pose proof (child_gt T HT _ _ E). lia.
          * unfold ok. rewrite relink_err. exact Oe.
          * change (w_err wc <> 0). unfold ok in Ec. intro Hz. rewrite Hz in Ec. discriminate.
        + match goal with |- ok ?x = true \/ _ => destruct (ok x) eqn:Ex; [left; reflexivity|right] end.
          right. right. exists g, i, we. split; [exact Oe|split; [exact E|reflexivity]].
      - left. destruct (_ <? _); [destruct (_ <? _)|]; exact O0. }
    destruct (ok w1) eqn:E1; cbn [negb] in *.
    - apply IH; auto.
    - destruct H1 as [H1|H1]; [congruence|exact H1].
  Qed.

  (* whatever code leaves a graph's evaluation, at any depth, has its origin in a plain node below (or is the
     engine's own tail code): no level rewrites it *)
  Lemma eval_graph_origin c rr : no_try_from c T -> forall f, ev_origin c (eval_graph f T beh rr).
  Proof.
    intros HN. induction f as [|f IH]; intros g t w Hg Hok Hne; [left; reflexivity|].
    cbn [eval_graph] in *. cbv zeta in *.
    match type of Hne with w_err (if negb (ok (scan _ _ _ _ ?st ?n ?ww)) then _ else _) <> 0 => set (w1 := ww) in * end.
    match type of Hne with w_err (if negb (ok (scan _ _ _ _ ?st _ w1)) then _ else _) <> 0 => set (st0 := st) in * end.
    set (n0 := (length (gc_nodes (gcfg_at T g)) - st0)%nat) in *.
    assert (O1 : ok w1 = true) by (unfold w1; destruct (_ && _); exact Hok).
    set (w2 := scan T beh (eval_graph f T beh rr) g st0 n0 w1) in *.
    destruct (ok w2) eqn:E2; cbn [negb] in *.
    - (* only the tail can fail *)
      unfold ok in E2. unfold upd_g in Hne |- *. simpl w_err in *.
      destruct (gc_parent (gcfg_at T g)) as [[pg pn]|]; [|simpl w_err in *; lia].
      destruct (_ <? _); [|simpl w_err in *; lia].
      match goal with |- origin T beh (w_err (sched_at ?d T pg pn ?wh ?ww)) => destruct (sched_at_err_cases T d pg pn wh ww) as [H|[H|H]] end.
      * rewrite H in *. simpl w_err in *. lia.
      * rewrite H. right; left; reflexivity.
      * rewrite H. left; reflexivity.
    - change (origin T beh (w_err w2)). apply scan_origin with (c := c); auto.
  Qed.

  (* try_except over a child graph, any number of plain nested levels below: the `exception` field ticks, in
     this cycle, with exactly the code that left the child's evaluation, and that code was raised by one
     plain node below (or is the engine's own) - no level in between rewrote it *)
  Lemma try_ticks_thrown_code rr f g i now w e :
    no_try_from (c_child (ncfg_at T g i)) T ->
    ok w = true ->
    let w1 := eval_graph f T beh rr (c_child (ncfg_at T g i)) now w in
    w_err w1 = e -> e <> 0 ->
    (g < length (w_gs w1))%nat -> (i < length (g_nodes (gat g w1)))%nat ->
    errp (node_at g i (caught T g i now w1)) = (Some e, now) /\ w_err (caught T g i now w1) = 0 /\ origin T beh e.
  Proof.
    intros HN Hok w1 He Hne Lg Li. destruct HT as (HP & _).
    destruct (caught_one_tick T HP g i now w1 e He Hne Lg Li) as (A & B & _).
    split; [exact B|split; [exact A|]]. rewrite <- He.
    apply (eval_graph_origin (c_child (ncfg_at T g i)) rr HN f); auto. unfold w1 in He. rewrite He. exact Hne.
  Qed.
End MSG.
