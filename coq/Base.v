(* Base.v — shared vocabulary of every model: time, the wire format of the
   correspondence check (lists of lists of Z), small list utilities.
   No proofs about the code live here. *)
From Coq Require Export ZArith List Bool Lia.
Export ListNotations.
Open Scope Z_scope.

(* Time is microseconds since the epoch, as in include/hgraph/util/date_time.h. *)
Definition MIN_DT : Z := 0.                  (* "never" sentinel: min_time() *)
Definition MIN_ST : Z := 1.                  (* min_start_time() *)
Definition MIN_TD : Z := 1.                  (* smallest_time_increment() *)
(* 2300-01-01T00:00:00 in microseconds: 120530 days * 86400 s * 10^6 *)
Definition MAX_DT : Z := 10413792000000000.  (* max_time() *)
Definition MAX_ET : Z := MAX_DT - 1.

(* The wire format: a case and an observation are both lists of lines, a line
   is a list of integers.  Every family exports [run : wire -> wire]. *)
Definition line := list Z.
Definition wire := list line.

Definition b2z (b : bool) : Z := if b then 1 else 0.
Definition z2b (z : Z) : bool := negb (z =? 0).

Definition hdz (l : list Z) : Z := match l with x :: _ => x | [] => 0 end.
Definition nthz (n : nat) (l : list Z) : Z := nth n l 0.

Fixpoint zmin_list (d : Z) (l : list Z) : Z :=
  match l with [] => d | x :: r => Z.min x (zmin_list d r) end.

Fixpoint update {A} (n : nat) (f : A -> A) (l : list A) : list A :=
  match l, n with
  | [], _ => []
  | x :: r, O => f x :: r
  | x :: r, S k => x :: update k f r
  end.

Definition set_nth {A} (n : nat) (v : A) (l : list A) : list A := update n (fun _ => v) l.

Lemma update_length {A} n f (l : list A) : length (update n f l) = length l.
Proof. revert n; induction l as [|x r IH]; intros [|n]; simpl; auto. Qed.

Lemma nth_update_same {A} n f (l : list A) d : (n < length l)%nat -> nth n (update n f l) d = f (nth n l d).
Proof. revert n; induction l as [|x r IH]; intros [|n] H; simpl in *; try lia; auto. apply IH; lia. Qed.

Lemma nth_update_other {A} n m f (l : list A) d : n <> m -> nth m (update n f l) d = nth m l d.
Proof. revert n m; induction l as [|x r IH]; intros [|n] [|m] H; simpl; auto; try congruence. Qed.
