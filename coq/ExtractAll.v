(* ExtractAll.v — extraction of every family's [run_* : wire -> wire] to OCaml.
   Only ExtrOcamlBasic is used (bool, option, unit, list, prod, sumbool);
   nat, positive and Z stay Coq datatypes.  No Extract Constant of our own. *)
Require Import Base Sched Engine.
From Coq Require Import Extraction ExtrOcamlBasic.
Extraction Language OCaml.
Separate Extraction run_core.
