(* Rank.v — MIRROR model of the ranking pass of Wiring::finish:
   src/hgraph/types/graph_wiring.cpp  build_ranked_graph (l.793-971).
   Executable definitions only; the proofs are in RankFacts.v.

   What the code does, and what each definition below mirrors:

     all                 the WiringInstances in insertion order      nodes 0 .. rg_n-1
     is_push_source      schema->node_kind == PushSource             rg_push
     for instance in all: for input in instance->inputs:
        if (!input.rank_dependency) continue;                        (rank-free edges never reach rg_edges)
        collect_producers(...); for producer: ++indegree[instance];
                                             consumers[producer].push_back(instance)
       for producer in instance->rank_dependencies: (same)          rg_edges, in exactly this discovery order
     indegree                                                        indeg_init  (a count per node)
     consumers[p]                                                    consumers   (order of discovery kept)
     for instance in all:  push source with indegree != 0 -> throw   push_dep     (-> KPushDep)
                           indegree == 0 -> ready_push_sources/ready init_qp / init_q (insertion order)
     while (!ready_push_sources.empty() || !ready.empty())           kloop (fuel = rg_n, shown sufficient)
        next = push sources first; pop_front; ranked.push_back       kstep / process
        for consumer in consumers[instance]:
           if (--indegree[consumer] == 0) push_back to its queue      relax  (size_t decrement: reaches 0 iff it was 1)
     if (ranked.size() != all.size()) throw "detected a cycle"        KCycle
*)
Require Import Base.
From Coq Require Import Arith Permutation.

Record rgraph := {
  rg_n     : nat;                 (* number of instances; node ids are 0 .. rg_n-1 in insertion order *)
  rg_push  : list bool;           (* is_push_source per node *)
  rg_edges : list (nat * nat)     (* (producer, consumer) rank edges, in discovery order, with multiplicity *)
}.

Definition is_push (g : rgraph) (v : nat) : bool := nth v (rg_push g) false.

Fixpoint cnt_into (es : list (nat * nat)) (v : nat) : nat :=
  match es with
  | [] => O
  | (_, c) :: r => (if c =? v then 1 else 0)%nat + cnt_into r v
  end.

Definition indeg_init (g : rgraph) : list nat := map (cnt_into (rg_edges g)) (seq 0 (rg_n g)).

Definition consumers (g : rgraph) (p : nat) : list nat :=
  map snd (filter (fun e => fst e =? p)%nat (rg_edges g)).

Definition push_dep (g : rgraph) : bool :=
  existsb (fun v => is_push g v && negb (cnt_into (rg_edges g) v =? 0)%nat) (seq 0 (rg_n g)).

Record kst := { k_deg : list nat; k_qp : list nat; k_q : list nat; k_out : list nat }.

Definition init_st (g : rgraph) : kst :=
  let d := indeg_init g in
  {| k_deg := d;
     k_qp := filter (fun v => is_push g v && (nth v d O =? 0)%nat) (seq 0 (rg_n g));
     k_q := filter (fun v => negb (is_push g v) && (nth v d O =? 0)%nat) (seq 0 (rg_n g));
     k_out := [] |}.

(* `if (--indegree[consumer] == 0)` on an unsigned counter *)
Definition relax (g : rgraph) (st : kst) (c : nat) : kst :=
  let d := nth c (k_deg st) O in
  let deg' := update c Nat.pred (k_deg st) in
  if (d =? 1)%nat then
    if is_push g c
    then {| k_deg := deg'; k_qp := k_qp st ++ [c]; k_q := k_q st; k_out := k_out st |}
    else {| k_deg := deg'; k_qp := k_qp st; k_q := k_q st ++ [c]; k_out := k_out st |}
  else {| k_deg := deg'; k_qp := k_qp st; k_q := k_q st; k_out := k_out st |}.

Definition process (g : rgraph) (v : nat) (st : kst) : kst :=
  fold_left (relax g) (consumers g v)
            {| k_deg := k_deg st; k_qp := k_qp st; k_q := k_q st; k_out := k_out st ++ [v] |}.

Definition kstep (g : rgraph) (st : kst) : option kst :=
  match k_qp st with
  | v :: r => Some (process g v {| k_deg := k_deg st; k_qp := r; k_q := k_q st; k_out := k_out st |})
  | [] =>
    match k_q st with
    | v :: r => Some (process g v {| k_deg := k_deg st; k_qp := []; k_q := r; k_out := k_out st |})
    | [] => None
    end
  end.

Fixpoint kloop (g : rgraph) (fuel : nat) (st : kst) : kst :=
  match fuel with
  | O => st
  | S f => match kstep g st with None => st | Some st' => kloop g f st' end
  end.

Inductive kres := KOk (o : list nat) | KCycle | KPushDep.

Definition kahn (g : rgraph) : kres :=
  if push_dep g then KPushDep
  else
    let st := kloop g (rg_n g) (init_st g) in
    if (length (k_out st) =? rg_n g)%nat then KOk (k_out st) else KCycle.

(* ---------------------------------------------------------------- the acceptor *)
(* position of the first occurrence (length of the list when absent) *)
Fixpoint pos (v : nat) (l : list nat) : nat :=
  match l with
  | [] => O
  | x :: r => if (x =? v)%nat then O else S (pos v r)
  end.

Fixpoint memb (v : nat) (l : list nat) : bool :=
  match l with [] => false | x :: r => (x =? v)%nat || memb v r end.

Fixpoint nodupb (l : list nat) : bool :=
  match l with [] => true | x :: r => negb (memb x r) && nodupb r end.

(* no `false` is followed by a `true`: the trues form a prefix *)
Fixpoint prefixb (l : list bool) : bool :=
  match l with [] => true | b :: r => (b || negb (existsb (fun x => x) r)) && prefixb r end.

Definition valid_ranking (g : rgraph) (o : list nat) : bool :=
  (length o =? rg_n g)%nat
  && forallb (fun v => v <? rg_n g)%nat o
  && nodupb o
  && forallb (fun e => pos (fst e) o <? pos (snd e) o)%nat (rg_edges g)
  && prefixb (map (is_push g) o).

(* well-formed: every edge joins two existing nodes (the code skips producers it does not own) *)
Definition rg_wfb (g : rgraph) : bool :=
  (length (rg_push g) =? rg_n g)%nat
  && forallb (fun e => (fst e <? rg_n g) && (snd e <? rg_n g))%nat (rg_edges g).

(* ---------------------------------------------------------------- specification vocabulary (Prop) *)
Definition rg_wf (g : rgraph) : Prop :=
  length (rg_push g) = rg_n g /\
  forall p c, In (p, c) (rg_edges g) -> (p < rg_n g)%nat /\ (c < rg_n g)%nat.

(* push sources occupy a prefix of the order *)
Definition push_prefix (g : rgraph) (o : list nat) : Prop :=
  exists a b, o = a ++ b /\ (forall v, In v a -> is_push g v = true) /\ (forall v, In v b -> is_push g v = false).

(* the conclusion of kahn_sound: what "a valid ranking" means *)
Definition is_ranking (g : rgraph) (o : list nat) : Prop :=
  Permutation o (seq 0 (rg_n g)) /\
  (forall p c, In (p, c) (rg_edges g) -> (pos p o < pos c o)%nat) /\
  push_prefix g o.

(* transitive closure; a cycle of the rank edges is a node that reaches itself *)
Inductive tcr (R : nat -> nat -> Prop) : nat -> nat -> Prop :=
| tcr_one : forall a b, R a b -> tcr R a b
| tcr_step : forall a b c, R a b -> tcr R b c -> tcr R a c.

Definition tc (E : list (nat * nat)) : nat -> nat -> Prop := tcr (fun a b => In (a, b) E).

Definition cyclic (g : rgraph) : Prop := exists v, tc (rg_edges g) v v.

(* a push source with an incoming rank edge (the code's third outcome, std::invalid_argument) *)
Definition has_push_dep (g : rgraph) : Prop :=
  exists p c, In (p, c) (rg_edges g) /\ is_push g c = true.
