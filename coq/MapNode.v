(* MapNode.v — MIRROR of one whole map node over its slot store: the value side of MapEval (one [sentry]
   per stable slot) driven by the scheduling side of MapSched (entries, queue, parent slot), for one cycle
   of the owning graph:
       Tick t                               the owning graph begins the cycle at t
       Push s t  for every live slot s      an element / broadcast argument of that child ticked: its input
                 whose arguments ticked     notification schedules the idle child for now (push half)
       Eval removed added ticked full       map_evaluate_impl: reconcile from the key-set delta, candidates,
                                            queue drains, evaluation loop, re-arm
   (the Eval only if the node's slot holds the cycle time or an input ticked - [c_required] - or the
   environment forces a harmless extra evaluation; otherwise the cycle passes the node by: [node_idle])
   The evaluation set is NOT assumed: a child is stepped iff MapSched's [evaluated_in] says so.  What the
   environment may choose freely is quantified: the slot the key set gives to an added key ([x_alloc]),
   the sparse candidate hints ([x_tk], [x_full]).  A child that is evaluated reports as its new
   next_scheduled_time the pending wake-up of its new state ([b_next]); this is the link between the two
   sides.  Key-set erase callbacks (destruction of stopped entries) are not modelled: a stopped entry and
   an absent one mean the same ([abs_entry]) and creation overwrites both.
   Executable definitions only; the refinement to MapSpec is in MapNodeFacts.v. *)
Require Import Base MapSpec MapSched MapEval.

Record env := mkEnv {
  x_alloc : Z -> nat;        (* the slot the key set assigns to a key added in this cycle *)
  x_tk : list nat;           (* slots the sparse candidate logic adds (modified element slots, ...) *)
  x_full : bool;             (* full scan *)
  x_force : bool }.          (* the map node is evaluated although nothing requires it (harmless extra evaluation) *)

Record nstate (S : Type) := mkN {
  n_sch : MapSched.st;
  n_store : nat -> option (sentry S);        (* entries.entry_at(slot): key, started, child state, element valid *)
  n_slot : Z -> option nat;                  (* the key set: slot of a live key *)
  n_vals : Z -> list (option Z);             (* the multiplexed input dictionaries, per key *)
  n_primed : bool;
  n_log : list (Z * bool * list (Z * kev)) }.
Arguments mkN {S}. Arguments n_sch {S}. Arguments n_store {S}. Arguments n_slot {S}. Arguments n_vals {S}.
Arguments n_primed {S}. Arguments n_log {S}.

Definition wake_z (o : option Z) : Z := match o with Some w => w | None => MAX_DT end.

Definition ninit {S} (ndict : nat) : nstate S :=
  mkN MapSched.init (fun _ => None) (fun _ => None) (fun _ => repeat None ndict) false [].

(* what key j means in the node *)
Definition nabs {S} (n : nstate S) (j : Z) : kstate S :=
  abs_entry (n_vals n j) (match n_slot n j with Some s => n_store n s | None => None end).

Section Cycle.
Context {S : Type}.
Variable B : Z -> body S.
Variable keys : list Z.
Variable n : nstate S.
Variable c : cyc.
Variable x : env.

Definition c_nv (j : Z) := new_vals 0 (n_vals n j) (ops_on j (c_ops c)).
Definition c_bound (j : Z) := any_bound (c_nv j).
Definition c_args (j : Z) := c_nv j ++ c_bc c j.

(* scheduling side, before the node runs: the cycle begins; every live child whose arguments ticked is notified *)
Definition c_pushed : list nat :=
  flat_map (fun j => match n_slot n j with
                     | Some s => if any_mod (c_args j) then [s] else []
                     | None => [] end) keys.
Definition c_sch2 : MapSched.st :=
  fold_left (fun s k => do_push k (s_now s) s) c_pushed (do_tick (c_t c) (n_sch n)).

(* the key-set delta *)
Definition c_rm : list nat :=
  flat_map (fun j => match n_slot n j with
                     | Some s => if c_bound j then [] else [s]
                     | None => [] end) keys.
Definition c_adk : list Z := filter (fun j => negb (is_some (n_slot n j)) && c_bound j) keys.
Definition c_ad : list addspec := map (fun j => mkAdd (x_alloc x j) (c_t c) false) c_adk.
Definition c_created (s : nat) : option Z := find (fun j => Nat.eqb (x_alloc x j) s) c_adk.

(* value side: remove_entry_at_slot / create_entry_at_slot, slot by slot *)
Definition c_store_rc (s : nat) : option (sentry S) :=
  match c_created s with
  | Some j => Some (slot_create (B j) j)
  | None => match n_store n s with
            | Some e => if se_started e && negb (c_bound (se_key e)) then Some (fst (slot_remove e)) else Some e
            | None => None
            end
  end.
Definition c_first (s : nat) : bool := is_some (c_created s).

(* what each child reports as its next scheduled time if it is evaluated: the pending wake-up of its new state *)
Definition c_nexts (s : nat) : Z :=
  match c_store_rc s with
  | Some e => wake_z (b_next (B (se_key e))
                 (se_inst (fst (slot_eval (B (se_key e)) (c_t c) (c_args (se_key e)) (c_first s) true e))))
  | None => MAX_DT
  end.

Definition c_sch3 : MapSched.st := do_eval c_rm c_ad (x_tk x) (x_full x) c_nexts c_sch2.
Definition c_inset : nat -> bool := evaluated_in c_rm c_ad (x_tk x) (x_full x) c_sch2.

(* the evaluation loop: a child is stepped iff the scheduling side evaluates it *)
Definition c_res (s : nat) : option (sentry S * kev) :=
  match c_store_rc s with
  | Some e => Some (slot_eval (B (se_key e)) (c_t c) (c_args (se_key e)) (c_first s) (c_inset s) e)
  | None => None
  end.

Definition c_slot' (j : Z) : option nat :=
  match n_slot n j with
  | Some s => if c_bound j then Some s else None
  | None => if c_bound j && existsb (Z.eqb j) keys then Some (x_alloc x j) else None
  end.

Definition c_ev (j : Z) : kev :=
  match n_slot n j with
  | Some s => if c_bound j then match c_res s with Some r => snd r | None => no_ev end
              else match n_store n s with Some e => snd (slot_remove e) | None => no_ev end
  | None => if c_bound j then match c_res (x_alloc x j) with Some r => snd r | None => no_ev end else no_ev
  end.

Definition node_cycle : nstate S :=
  let prime := negb (n_primed n) && has_set (c_ops c) in
  mkN c_sch3 (fun s => option_map fst (c_res s)) c_slot' (fun j => map fst (c_nv j)) (n_primed n || prime)
      ((c_t c, prime, map (fun j => (j, c_ev j)) keys) :: n_log n).

(* Is the map node evaluated in this cycle of the owning graph?  It must be when its slot holds the cycle time
   or one of its inputs ticked; otherwise the cycle passes it by: only the owning graph's clock moves. *)
Definition c_required : bool :=
  (s_pslot c_sch2 =? c_t c) || negb (match c_ops c with [] => true | _ :: _ => false end) ||
  existsb (fun j => any_mod (c_bc c j)) keys.

Definition node_idle : nstate S :=
  mkN (do_tick (c_t c) (n_sch n)) (n_store n) (n_slot n) (n_vals n) (n_primed n)
      ((c_t c, false, map (fun j => (j, no_ev)) keys) :: n_log n).

Definition node_step : nstate S := if x_force x || c_required then node_cycle else node_idle.

(* what the environment must respect in a cycle: the engine does not step over the parent's slot (C02), runs stay
   within [MIN_ST, MAX_ET] (validate_times), and
   the key set hands out free, pairwise distinct slots *)
Definition step_ok : Prop :=
  tick_ok (c_t c) (n_sch n) = true /\
  c_t c < MAX_ET /\
  (forall j, In j keys -> n_slot n j = None ->
             match n_store n (x_alloc x j) with Some e => se_started e = false | None => True end) /\
  (forall j j', In j keys -> In j' keys -> n_slot n j = None -> n_slot n j' = None ->
                x_alloc x j = x_alloc x j' -> j = j').

End Cycle.

Definition node_run {S} (B : Z -> body S) (keys : list Z) (n : nstate S) (h : list (cyc * env)) : nstate S :=
  fold_left (fun n cx => node_step B keys n (fst cx) (snd cx)) h n.

Fixpoint run_ok {S} (B : Z -> body S) (keys : list Z) (n : nstate S) (h : list (cyc * env)) : Prop :=
  match h with
  | [] => True
  | cx :: r => step_ok keys n (fst cx) (snd cx) /\ run_ok B keys (node_step B keys n (fst cx) (snd cx)) r
  end.
