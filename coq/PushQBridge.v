(* PushQBridge.v — the bridge between the LTS's ghost acceptance order and what a harness can
   observe from outside (tickets around the send calls): real-time order of send calls is
   contained in the acceptance order.

     returned_accepted_is_logged   a call that is at (or past) its "accepted" return path has its
                                   entry in the acceptance log;
     accepted_before_begin_is_ahead  whatever is in the acceptance log when a send call BEGINS is ahead
                                   of that call's own entry in the log at any later time of the same run.

   Together with delivered_is_prefix_of_accepted: if x's send returned (accepted) before y's send
   began and y is delivered, then x is delivered, earlier - the FIFO clause [ok_fifo] of the acceptor.
   The remaining clauses of HistoryOK (capacity and refusal counts against tickets) are NOT bridged. *)
Require Import Base PushQ PushQInv PushQInv2 PushQFacts.
From Coq Require Import ZifyBool.
Local Open Scope nat_scope.

Definition admitted (x : ppc) : bool :=
  match x with PMark | PNotify | PLeave 1%Z => true | _ => false end.

Definition LoggedL (l : list prod) (acc : list entry) : Prop :=
  forall q, q < length l -> admitted (pc (nth q l idle_prod)) = true -> In (cur (nth q l idle_prod)) acc.
Definition Logged (s : state) : Prop := LoggedL (prods s) (accepted s).

Lemma loggedL_upd l acc acc' p g :
  LoggedL l acc -> (forall e, In e acc -> In e acc') ->
  (p < length l -> admitted (pc (g (nth p l idle_prod))) = true -> In (cur (g (nth p l idle_prod))) acc') ->
  LoggedL (update p g l) acc'.
Proof.
  intros L Hsub Hp q Hq Ha. rewrite update_length in Hq. rewrite nth_update_eq in *.
  destruct (Nat.eqb_spec p q) as [->|Hne]; cbn [andb] in *.
  - destruct (Nat.ltb_spec q (length l)); [|lia]. apply Hp; assumption.
  - apply Hsub. apply L; assumption.
Qed.

Lemma loggedL_woke l l' acc : LoggedL l acc -> woke l l' -> LoggedL l' acc.
Proof.
  intros L W q Hq Ha. rewrite (w_len _ _ W) in Hq.
  destruct (w_nth _ _ W q) as [E|[Ew E]]; rewrite E in *.
  - apply L; assumption.
  - cbn [pc set_pc admitted] in Ha. discriminate.
Qed.

Lemma loggedL_mono l acc acc' : LoggedL l acc -> (forall e, In e acc -> In e acc') -> LoggedL l acc'.
Proof. intros L H q Hq Ha. apply H. apply L; assumption. Qed.

Lemma logged_init pl c n : Logged (init pl c n).
Proof.
  intros q Hq Ha. unfold init in *. cbn [prods] in *. exfalso.
  assert (E : pc (nth q (repeat idle_prod n) idle_prod) = PIdle).
  { clear. revert q. induction n; intros [|q]; simpl; auto. }
  rewrite E in Ha. discriminate.
Qed.

Ltac unf3 :=
  unfold goto, upd_prod, notify_exec, notify_all, set_vals, set_accepting, set_flag, set_stop_req, set_stop_notifies, set_closing,
    set_attached, set_active, set_epoch, set_cons, set_now, set_prods, set_accepted, set_delivered in *;
  cbn [pol cap vals accepting flag stop_req stop_notifies closing attached active epoch cons now prods accepted delivered] in *.

(* a producer update that does not touch the logs and does not move anybody into an "admitted" pc *)
Ltac upd_plain L := unfold Logged; unf3; apply (loggedL_upd _ _ _ _ _ L); [auto|intros _ Ha; cbn [pc set_pc admitted] in Ha; try discriminate].

Lemma logged_step s l s' : Inv s -> Logged s -> step l s = Some s' -> Logged s'.
Proof.
  intros I L H. destruct l as [p h|p v k|p|p| | |t|w| | | | | ]; cbn [step] in H.
  - destruct (pc (get_prod p s)) eqn:E; try discriminate.
    destruct (p <? length (prods s)); inversion H; subst. unfold Logged; unf3.
    apply (loggedL_upd _ _ _ _ _ L); [auto|]. intros Hp Ha. cbn [pc set_handle] in Ha. unfold get_prod in E. rewrite E in Ha. discriminate.
  - destruct (pc (get_prod p s)) eqn:E; try discriminate.
    destruct (p <? length (prods s)); inversion H; subst. upd_plain L.
  - destruct (Nat.ltb_spec p (length (prods s))) as [Hp|]; [|discriminate].
    unfold prod_step in H. destruct (pc (get_prod p s)) eqn:E; try discriminate.
    + destruct (negb (Nat.eqb (handle (get_prod p s)) (epoch s)) || closing s || negb (attached s)); inversion H; subst; upd_plain L.
    + destruct (stop_req s); inversion H; subst; upd_plain L.
    + inversion H; subst. unfold admission, push.
      destruct (negb (accepting s)); [upd_plain L|]. destruct (full s); [destruct (knd (get_prod p s)); upd_plain L|].
      unfold Logged; unf3. apply (loggedL_upd _ _ _ _ _ L); [intros e He; apply in_or_app; left; exact He|].
      intros _ _. cbn [cur set_pc]. apply in_or_app. right. left. reflexivity.
    + inversion H; subst. unfold admission, push.
      destruct (negb (accepting s)); [upd_plain L|]. destruct (full s); [destruct (knd (get_prod p s)); upd_plain L|].
      unfold Logged; unf3. apply (loggedL_upd _ _ _ _ _ L); [intros e He; apply in_or_app; left; exact He|].
      intros _ _. cbn [cur set_pc]. apply in_or_app. right. left. reflexivity.
    + assert (Hin : In (cur (get_prod p s)) (accepted s)) by (apply L; [exact Hp|unfold get_prod in E; rewrite E; reflexivity]).
      destruct (stop_req s); inversion H; subst; unfold Logged; unf3;
        (apply (loggedL_upd _ _ _ _ _ L); [auto|intros _ _; cbn [cur set_pc]; exact Hin]).
    + assert (Hin : In (cur (get_prod p s)) (accepted s)) by (apply L; [exact Hp|unfold get_prod in E; rewrite E; reflexivity]).
      inversion H; subst. unfold Logged, notify_exec. destruct (cons s); unf3;
        (apply (loggedL_upd _ _ _ _ _ L); [auto|intros _ _; cbn [cur set_pc]; exact Hin]).
    + inversion H; subst. upd_plain L.
  - destruct (pc (get_prod p s)) eqn:E; try discriminate. inversion H; subst. upd_plain L.
  - destruct (cons s); try discriminate. destruct (flag s || stop_req s); inversion H; subst. exact L.
  - destruct (cons s); try discriminate. inversion H; subst. exact L.
  - destruct (cons s); try discriminate. destruct (now s <? t)%Z; inversion H; subst. exact L.
  - unfold cons_step, pop in H.
    destruct (cons s) as [| | |pend|more|more| | | ] eqn:Ec; try discriminate.
    + destruct pend; inversion H; subst; [|exact L]. destruct (pol s), (vals s); exact L.
    + inversion H; subst. destruct (pol s).
      * destruct (notify_one_spec w s) as (l' & -> & Wk & _). unfold Logged; unf3. eapply loggedL_woke; eauto.
      * unfold Logged; unf3. eapply loggedL_woke; [exact L|apply woke_all].
      * exact L.
    + destruct more; [destruct (stop_req s)|]; inversion H; subst; exact L.
    + inversion H; subst. exact L.
    + inversion H; subst. unfold Logged; unf3. eapply loggedL_woke; [exact L|apply woke_all].
    + destruct (Nat.eqb (active s) 0); inversion H; subst. exact L.
  - destruct (cons s); try discriminate. inversion H; subst. exact L.
  - destruct (cons s) eqn:Ec; try discriminate. inversion H; subst. unfold Logged.
    cbn [prods accepted set_cons set_delivered set_accepted set_epoch set_active set_attached set_closing set_accepting set_vals].
    (* start: nobody is inside the control, so nobody is at an admitted pc *)
    intros q Hq Ha. exfalso.
    pose proof (i_det s I (i_stp s I Ec)) as D. rewrite (i_act s I) in D.
    assert (Hin : inside (pc (nth q (prods s) idle_prod)) = true) by (destruct (pc (nth q (prods s) idle_prod)); try discriminate; reflexivity).
    pose proof (cnt_ex_pos inside (prods s) idle_prod q Hq Hin). lia.
  - inversion H; subst. exact L.
  - destruct (stop_notifies s); inversion H; subst. unfold notify_exec. cbn [cons set_stop_notifies]. destruct (cons s); exact L.
  - destruct (cons s); try discriminate. inversion H; subst. exact L.
Qed.

Lemma logged_run ls s : Inv s -> Logged s -> Logged (run ls s).
Proof.
  revert s. induction ls as [|l r IH]; intros s I L; simpl; [exact L|].
  apply IH; [apply inv_do_step; exact I|].
  unfold do_step. destruct (step l s) eqn:E; [eapply logged_step; eauto|exact L].
Qed.

Lemma logged_reach pl c n ls : Logged (reach pl c n ls).
Proof. apply logged_run; [apply inv_init|apply logged_init]. Qed.

(* A call on its "accepted" return path (about to mark, to notify, or to leave with result 1)
   has its entry in the acceptance log: what the producer is told agrees with the ghost log. *)
Lemma returned_accepted_is_logged pl c n ls : let s := reach pl c n ls in
  forall p, p < length (prods s) -> admitted (pc (get_prod p s)) = true -> In (cur (get_prod p s)) (accepted s).
Proof. intros s p Hp Ha. exact (logged_reach pl c n ls p Hp Ha). Qed.

(* the acceptance log only grows by appending, as long as the graph is not started again *)
Lemma step_accepted_app l s s' :
  step l s = Some s' -> l <> LCStart -> exists more, accepted s' = accepted s ++ more.
Proof.
  intros H Hl.
  assert (Same : accepted s' = accepted s -> exists more, accepted s' = accepted s ++ more)
    by (intros ->; exists []; rewrite app_nil_r; reflexivity).
  destruct l as [p h|p v k|p|p| | |t|w| | | | | ]; cbn [step] in H; try congruence.
  - destruct (pc (get_prod p s)); try discriminate. destruct (p <? length (prods s)); inversion H; subst. apply Same. reflexivity.
  - destruct (pc (get_prod p s)); try discriminate. destruct (p <? length (prods s)); inversion H; subst. apply Same. reflexivity.
  - destruct (p <? length (prods s)); [|discriminate]. unfold prod_step, admission, push in H.
    destruct (pc (get_prod p s)); try discriminate;
      repeat match type of H with context [if ?b then _ else _] => destruct b end;
      try (destruct (knd (get_prod p s))); inversion H; subst; unf3;
      try (apply Same; reflexivity); try (eexists; reflexivity);
      destruct (cons s); apply Same; reflexivity.
  - destruct (pc (get_prod p s)); try discriminate. inversion H; subst. apply Same. reflexivity.
  - destruct (cons s); try discriminate. destruct (flag s || stop_req s); inversion H; subst. apply Same. reflexivity.
  - destruct (cons s); try discriminate. inversion H; subst. apply Same. reflexivity.
  - destruct (cons s); try discriminate. destruct (now s <? t)%Z; inversion H; subst. apply Same. reflexivity.
  - unfold cons_step, pop in H.
    destruct (cons s) as [| | |pend|more|more| | | ]; try discriminate.
    + destruct pend; inversion H; subst; apply Same; [|reflexivity]. destruct (pol s), (vals s); reflexivity.
    + inversion H; subst. apply Same. destruct (pol s); try reflexivity.
      unfold notify_one. destruct (is_waiting (pc (get_prod w s))); reflexivity.
    + destruct more; [destruct (stop_req s)|]; inversion H; subst; apply Same; reflexivity.
    + inversion H; subst. apply Same. reflexivity.
    + inversion H; subst. apply Same. reflexivity.
    + destruct (Nat.eqb (active s) 0); inversion H; subst. apply Same. reflexivity.
  - destruct (cons s); try discriminate. inversion H; subst. apply Same. reflexivity.
  - inversion H; subst. apply Same. reflexivity.
  - destruct (stop_notifies s); inversion H; subst. apply Same. unfold notify_exec. cbn [cons set_stop_notifies]. destruct (cons s); reflexivity.
  - destruct (cons s); try discriminate. inversion H; subst. apply Same. reflexivity.
Qed.

Lemma run_accepted_app ls s :
  (forall l, In l ls -> l <> LCStart) -> exists more, accepted (run ls s) = accepted s ++ more.
Proof.
  unfold run. revert s. induction ls as [|l r IH]; intros s Hl; cbn [fold_left].
  - exists []. rewrite app_nil_r. reflexivity.
  - destruct (IH (do_step s l) (fun l0 H0 => Hl l0 (or_intror H0))) as [m2 E2].
    rewrite E2.
    unfold do_step. destruct (step l s) as [s1|] eqn:E.
    + destruct (step_accepted_app l s s1 E (Hl l (or_introl eq_refl))) as [m1 E1].
      exists (m1 ++ m2). rewrite E1, app_assoc. reflexivity.
    + exists m2. reflexivity.
Qed.

Lemma run_app a b s : run (a ++ b) s = run b (run a s).
Proof. unfold run. apply fold_left_app. Qed.

(* Real-time order is contained in the acceptance order: whatever is in the acceptance log at
   the moment a send call begins is ahead of that call's own entry, at any later time of the run
   (no restart in between).  With [returned_accepted_is_logged] (a call that returned "accepted"
   is in the log from then on) and [delivered_is_prefix_of_accepted] this is the FIFO clause of the
   acceptor: x returned before y began, y delivered => x delivered earlier. *)
Theorem accepted_before_begin_is_ahead : forall pl c n ls1 q v k ls2,
  let s1 := reach pl c n ls1 in
  pc (get_prod q s1) = PIdle -> q < length (prods s1) ->
  (forall l, In l ls2 -> l <> LCStart) ->
  let s2 := run ls2 (do_step s1 (LBegin q v k)) in
  let y := mkEntry q (nsent (get_prod q s1)) v in
  forall i j e, In e (accepted s1) -> nth_error (accepted s2) i = Some e -> nth_error (accepted s2) j = Some y -> i < j.
Proof.
  intros pl c n ls1 q v k ls2 s1 Hidle Hq Hl s2 y i j e He Hi Hj.
  assert (R2 : s2 = reach pl c n (ls1 ++ [LBegin q v k] ++ ls2)).
  { unfold s2, s1, reach. rewrite !run_app. reflexivity. }
  pose proof (inv_reach pl c n ls1) as I1. fold s1 in I1.
  pose proof (inv_reach pl c n (ls1 ++ [LBegin q v k] ++ ls2)) as I2. rewrite <- R2 in I2.
  (* the log at s2 extends the log at s1 *)
  assert (Happ : exists m, accepted s2 = accepted s1 ++ m).
  { destruct (run_accepted_app ls2 (do_step s1 (LBegin q v k)) Hl) as [m2 E2]. fold s2 in E2.
    unfold do_step in E2. destruct (step (LBegin q v k) s1) as [s1'|] eqn:E.
    - destruct (step_accepted_app _ _ _ E ltac:(discriminate)) as [m1 E1]. exists (m1 ++ m2). rewrite E2, E1, app_assoc. reflexivity.
    - exists m2. exact E2. }
  destruct Happ as [m Em].
  (* y is not in the log at s1: its sequence number has not been used yet *)
  assert (Hy : ~ In y (accepted s1)).
  { intros Hin. pose proof (i_seq s1 I1 y Hin) as B. cbn [e_pid e_seq y] in B. unfold bound in B.
    rewrite Hidle in B. cbn [pre_adm] in B. lia. }
  pose proof (PPS_NoDup _ (i_pps s2 I2)) as ND. rewrite Em in *.
  destruct (In_nth_error _ _ He) as [i0 Hi0].
  assert (Hi0lt : i0 < length (accepted s1)) by (apply nth_error_Some; congruence).
  assert (Ei : i = i0).
  { rewrite NoDup_nth_error in ND. symmetry. apply ND.
    - rewrite app_length. lia.
    - rewrite nth_error_app1 by exact Hi0lt. rewrite Hi0, Hi. reflexivity. }
  subst i.
  destruct (Nat.lt_ge_cases j (length (accepted s1))) as [Hjl|Hjl]; [|lia].
  exfalso. apply Hy. rewrite nth_error_app1 in Hj by exact Hjl. eapply nth_error_In. exact Hj.
Qed.
