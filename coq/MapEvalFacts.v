(* MapEvalFacts.v — PARTIAL refinement of the per-slot mirror MapEval to the specification MapSpec:
   each of the three things the map node does to an entry computes exactly the corresponding branch of
   [MapSpec.key_step], PROVIDED the evaluation set contains every child that has something due - which is
   what MapSched's theorems establish for the scheduling mirror.
   MISSING for a full refinement (tested by the differential check instead): lifting from one entry to
   the slot store (distinct live keys occupy distinct slots; a created slot is free - the key set's
   contract), and identifying MapSched's abstract [e_next] with [b_next] of the instance. *)
Require Import Base MapSpec MapFacts MapEval.
From Coq Require Import ZifyBool.

Section Refine.
Context {S : Type}.

(* key leaves every dictionary: remove_entry_at_slot = the stop branch of key_step *)
Lemma refines_remove_partial (B : body S) t bc (e : sentry S) vals ops :
  se_started e = true ->
  any_bound (new_vals 0 vals ops) = false ->
  let '(e', ev) := slot_remove e in
  key_step B t bc (se_key e) (abs_entry vals (Some e)) ops = (abs_entry (map fst (new_vals 0 vals ops)) (Some e'), ev).
Proof.
  intros Hs Hb. unfold slot_remove, key_step, abs_entry. rewrite Hs. cbn [k_inst k_vals k_valid se_started].
  rewrite Hb. reflexivity.
Qed.

(* key appears: create_entry_at_slot followed by the evaluation of the new child = the fresh branch of
   key_step; a new child is always in the evaluation set (it is a candidate and is evaluated when due) *)
Lemma refines_create_partial (B : body S) t bc key vals ops (old : option (sentry S)) :
  match old with Some e => se_started e = false | None => True end ->
  any_bound (new_vals 0 vals ops) = true ->
  let '(e', ev) := slot_eval B t (new_vals 0 vals ops ++ bc) true true (slot_create B key) in
  key_step B t bc key (abs_entry vals old) ops = (abs_entry (map fst (new_vals 0 vals ops)) (Some e'), ev).
Proof.
  intros Hold Hb. unfold slot_eval, slot_create, key_step. cbn [se_started se_inst se_key se_valid andb orb].
  assert (Ha : k_inst (abs_entry vals old) = None /\ k_vals (abs_entry vals old) = vals /\ k_valid (abs_entry vals old) = false).
  { unfold abs_entry. destruct old as [e|]; [rewrite Hold|]; cbn; auto. }
  destruct Ha as [A1 [A2 A3]]. rewrite A1, A2, A3, Hb. cbn [is_some negb orb].
  destruct (b_step B (b_init B) _) as [s' o]. destruct o; reflexivity.
Qed.

(* key stays: the evaluation loop = the live branch of key_step, provided the evaluation set does not
   miss a child that has something due *)
Lemma refines_eval_partial (B : body S) t bc (e : sentry S) vals ops in_set :
  se_started e = true ->
  any_bound (new_vals 0 vals ops) = true ->
  (any_mod (new_vals 0 vals ops ++ bc) || wake_due B (se_inst e) t = true -> in_set = true) ->
  let '(e', ev) := slot_eval B t (new_vals 0 vals ops ++ bc) false in_set e in
  key_step B t bc (se_key e) (abs_entry vals (Some e)) ops = (abs_entry (map fst (new_vals 0 vals ops)) (Some e'), ev).
Proof.
  intros Hs Hb Hset. unfold slot_eval, key_step, abs_entry. rewrite Hs. cbn [k_inst k_vals k_valid andb orb is_some negb].
  rewrite Hb.
  destruct (any_mod (new_vals 0 vals ops ++ bc) || wake_due B (se_inst e) t) eqn:Etrig.
  - rewrite (Hset eq_refl). cbn [andb].
    destruct (b_step B (se_inst e) _) as [s' o]. destruct o; reflexivity.
  - rewrite andb_false_r. rewrite Hs. reflexivity.
Qed.

(* and the converse is why the scheduling mechanism matters: if a child with a due wake-up is left out of
   the evaluation set, the mirror keeps the old state while the specification steps the instance *)
Lemma missed_child_breaks_refinement (B : body S) t bc (e : sentry S) vals ops :
  se_started e = true -> wake_due B (se_inst e) t = true ->
  fst (slot_eval B t (new_vals 0 vals ops ++ bc) false false e) = e.
Proof. intros Hs Hw. unfold slot_eval. rewrite Hs. cbn [andb]. reflexivity. Qed.

End Refine.
