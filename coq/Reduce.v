(* Reduce.v — MIRROR model of the incremental associative reduction of
   /repo/src/hgraph/runtime/reduce_node.cpp (property C11).

   What is mirrored (state and control flow of the C++):
     * key <-> dense leaf maps (dense_to_key / dense_to_source_slot / key_to_leaf),
       erase by moving the last leaf into the hole (remove_leaf_at), the list
       of "structural leaves" recorded while reconciling (record_removed_leaf_paths);
     * the power-of-two leaf_capacity (monotonic, minimum 2 with a zero) and the
       heap-indexed combine points 0 .. capacity-2 (children of i at 2i+1, 2i+2,
       leaves at internal_count + dense index);
     * resolve_aggregate (Empty / Leaf / Node, with the left-frontier descent
       that makes a sparsely populated subtree an ALIAS of a descendant) and
       root_aggregate (the zero rules by live count);
     * rebuild_structure: growth builds a fresh shape in the other bank and
       retires the whole old bank (kept until a later cycle), otherwise only the
       leaf-to-root paths of the structural leaves are revisited; phase 1
       create / set aside, phase 2 bind (a same-source bind is a no-op, a
       re-point schedules), publication of the root, phase 3 retire;
     * prepare_reduce_evaluation_positions (which combine points are looked at:
       structural positions + paths of the ticked leaves + the root on a zero
       tick of a singleton; full scan otherwise) and reduce_evaluate (deepest
       first; the lifted kernel recomputes unconditionally from the resolved
       aggregates, a generic combiner graph runs only if it is scheduled and
       reads the sources it is BOUND to).
   The combiner is an arbitrary [f : Z -> Z -> Z].

   Modelled at contract level (not the subject of C11, needed to drive it):
     * the source collection: the slot allocation of KeySlotStore (LIFO free
       stack, deferred erase, resurrection of a key removed and re-added in the
       same cycle, growth max(size+1, 8, 2*cap)) and the slot-ordered delta
       (removed / added / modified) a TSD exposes; a TSL is the same thing with
       slot = index and no removal;
     * a combiner child graph is one schedulable unit that computes f of the
       two sources it is bound to when both are valid.
   Not modelled: collection / zero re-pointing (REF sources), keyed (TSD/TSS)
   result publication snapshots, pause/resume of a combiner, future-scheduled
   combiners, exceptions and the rollback guard, pass-through (ParentInput)
   combiners.

   This file contains executable definitions only. *)
Require Import Base.
From Coq Require Import PeanoNat.
Local Open Scope nat_scope.

(* ------------------------------------------------------------------ *)
(* Small list helpers                                                   *)

Fixpoint nth_opt {A} (n : nat) (l : list A) : option A :=
  match l, n with
  | [], _ => None
  | x :: _, O => Some x
  | _ :: r, S k => nth_opt k r
  end.

Fixpoint remove_last {A} (l : list A) : list A :=
  match l with [] => [] | [_] => [] | x :: r => x :: remove_last r end.

Fixpoint last_opt {A} (l : list A) : option A :=
  match l with [] => None | [x] => Some x | _ :: r => last_opt r end.

Fixpoint insert_desc (x : nat) (l : list nat) : list nat :=
  match l with
  | [] => [x]
  | y :: r => if y <? x then x :: l else if y =? x then l else y :: insert_desc x r
  end.

(* sort descending and drop duplicates (std::ranges::sort greater + unique) *)
Definition sort_desc_unique (l : list nat) : list nat := fold_right insert_desc [] l.

Fixpoint insert_asc_slot {A} (x : nat * A) (l : list (nat * A)) : list (nat * A) :=
  match l with
  | [] => [x]
  | y :: r => if fst x <? fst y then x :: l else if fst x =? fst y then x :: r else y :: insert_asc_slot x r
  end.

Fixpoint remove_slot {A} (s : nat) (l : list (nat * A)) : list (nat * A) :=
  match l with [] => [] | y :: r => if fst y =? s then r else y :: remove_slot s r end.

Fixpoint find_slot {A} (s : nat) (l : list (nat * A)) : option A :=
  match l with [] => None | y :: r => if fst y =? s then Some (snd y) else find_slot s r end.

(* descending list n-1 .. 0 *)
Fixpoint down_from (n : nat) : list nat := match n with O => [] | S k => k :: down_from k end.

(* ------------------------------------------------------------------ *)
(* The source collection (contract level)                                *)

(* live entries, kept sorted by slot: slot -> (key, value) *)
Record store := mkStore {
  st_cap   : nat;                       (* KeySlotStore slot capacity *)
  st_free  : list nat;                  (* free-slot stack, head = top *)
  st_pend  : list nat;                  (* removed this cycle, physically erased at the next mutation *)
  st_ent   : list (nat * (Z * Z));      (* live slots *)
  st_valid : bool                       (* the collection output has ticked at least once *)
}.

Definition store0 : store := mkStore 0 [] [] [] false.

Fixpoint slot_of_key (k : Z) (ents : list (nat * (Z * Z))) : option nat :=
  match ents with
  | [] => None
  | (s, (k', _)) :: r => if (k' =? k)%Z then Some s else slot_of_key k r
  end.

Definition slot_value (st : store) (s : nat) : option Z :=
  match find_slot s (st_ent st) with Some (_, v) => Some v | None => None end.

(* the slot-ordered delta of one cycle *)
Record delta := mkDelta {
  d_rem : list (nat * Z);               (* removed slots with their removed key *)
  d_add : list (nat * Z);               (* added slots with key *)
  d_mod : list (nat * Z)                (* modified slots with key *)
}.

Definition delta0 : delta := mkDelta [] [] [].

(* start of a mutation cycle: physically erase what was removed in the previous one *)
Definition store_begin (st : store) : store :=
  mkStore (st_cap st) (fold_left (fun fr s => s :: fr) (st_pend st) (st_free st)) [] (st_ent st) (st_valid st).

Definition store_validate (st : store) : store :=
  mkStore (st_cap st) (st_free st) (st_pend st) (st_ent st) true.

Definition store_remove (k : Z) (sd : store * delta) : store * delta :=
  let (st, d) := sd in
  match slot_of_key k (st_ent st) with
  | None => sd
  | Some s =>
      if existsb (fun x => fst x =? s) (d_add d)
      then (* added and removed within one cycle: leaves no trace in the delta *)
        (mkStore (st_cap st) (st_free st) (st_pend st ++ [s]) (remove_slot s (st_ent st)) (st_valid st),
         mkDelta (d_rem d) (remove_slot s (d_add d)) (remove_slot s (d_mod d)))
      else
        (mkStore (st_cap st) (st_free st) (st_pend st ++ [s]) (remove_slot s (st_ent st)) (st_valid st),
         mkDelta (insert_asc_slot (s, k) (d_rem d)) (d_add d) (remove_slot s (d_mod d)))
  end.

Fixpoint up_to (a n : nat) : list nat := match n with O => [] | S k => a :: up_to (S a) k end.

Definition store_set (kv : Z * Z) (sd : store * delta) : store * delta :=
  let (st, d) := sd in
  let (k, v) := kv in
  match slot_of_key k (st_ent st) with
  | Some s =>
      (mkStore (st_cap st) (st_free st) (st_pend st) (insert_asc_slot (s, (k, v)) (st_ent st)) (st_valid st),
       mkDelta (d_rem d) (d_add d) (insert_asc_slot (s, k) (d_mod d)))
  | None =>
      match find (fun x => (snd x =? k)%Z) (d_rem d) with
      | Some (s, _) =>
          (* removed earlier in this cycle: the pending slot is resurrected *)
          (mkStore (st_cap st) (st_free st) (filter (fun x => negb (x =? s)) (st_pend st))
                   (insert_asc_slot (s, (k, v)) (st_ent st)) (st_valid st),
           mkDelta (remove_slot s (d_rem d)) (d_add d) (insert_asc_slot (s, k) (d_mod d)))
      | None =>
          let size := length (st_ent st) in
          let '(cap, free) :=
            match st_free st with
            | [] => let ncap := Nat.max (S size) (Nat.max 8 (2 * st_cap st)) in
                    (ncap, up_to (st_cap st) (ncap - st_cap st))
            | _ => (st_cap st, st_free st)
            end in
          match free with
          | [] => sd (* unreachable *)
          | s :: free' =>
              (mkStore cap free' (st_pend st) (insert_asc_slot (s, (k, v)) (st_ent st)) (st_valid st),
               mkDelta (d_rem d) (insert_asc_slot (s, k) (d_add d)) (insert_asc_slot (s, k) (d_mod d)))
          end
      end
  end.

(* TSD: removals first (apply_delta_tsd), then the modified map in key order *)
Definition store_apply_dict (rems : list Z) (sets : list (Z * Z)) (st : store) : store * delta :=
  let sd := (store_begin st, delta0) in
  let sd := fold_left (fun a k => store_remove k a) rems sd in
  fold_left (fun a kv => store_set kv a) sets sd.

(* TSL: slot = index; an index is live once it has been set *)
Definition store_set_list (kv : Z * Z) (sd : store * delta) : store * delta :=
  let (st, d) := sd in
  let (k, v) := kv in
  let s := Z.to_nat k in
  let fresh := match find_slot s (st_ent st) with Some _ => false | None => true end in
  (mkStore (st_cap st) [] [] (insert_asc_slot (s, (k, v)) (st_ent st)) true,
   mkDelta [] (if fresh then insert_asc_slot (s, k) (d_add d) else d_add d) (insert_asc_slot (s, k) (d_mod d))).

Definition store_apply_list (sets : list (Z * Z)) (st : store) : store * delta :=
  fold_left (fun a kv => store_set_list kv a) sets
            (mkStore (st_cap st) [] [] (st_ent st) true, delta0).

(* ------------------------------------------------------------------ *)
(* The reduction tree                                                    *)

(* what a combiner input / the published output is bound to *)
Inductive src := SNone | SLeaf (slot : nat) | SNode (pos : nat) | SZero.

Definition src_eqb (a b : src) : bool :=
  match a, b with
  | SNone, SNone => true
  | SLeaf x, SLeaf y => x =? y
  | SNode x, SNode y => x =? y
  | SZero, SZero => true
  | _, _ => false
  end.

Record comb := mkComb {
  cb_l : src; cb_r : src;        (* bound sources of the child graph's lhs / rhs (generic combiners) *)
  cb_out : option Z;             (* the combiner output (None = never evaluated) *)
  cb_sched : bool                (* the child graph has a node scheduled for this cycle *)
}.

Record leaf := mkLeaf { lf_key : Z; lf_slot : nat }.

Record rstate := mkR {
  r_leaves : list leaf;                 (* dense_to_key / dense_to_source_slot(handle) *)
  r_cap : nat;                          (* leaf_capacity *)
  r_combs : list (option comb);         (* combiners, heap indexed, length internal_count *)
  r_bank : bool;                        (* current_bank *)
  r_prev : list (bool * nat);           (* previous_generation (bank, position) *)
  r_occ : list (bool * nat);            (* constructed entries of both banks *)
  r_primed : bool;
  r_published : bool;
  r_pub : src;                          (* what the node's forwarding output is bound to *)
  r_err : bool                          (* a logic_error of the C++ was reached *)
}.

Definition rstate0 : rstate := mkR [] 0 [] false [] [] false false SNone false.

Definition internals (cap : nat) : nat := if 1 <? cap then cap - 1 else 0.

Inductive agg := AEmpty | ALeaf (i : nat) | ANode (p : nat).

Definition agg_empty (a : agg) : bool := match a with AEmpty => true | _ => false end.

(* the while loop of resolve_aggregate *)
Fixpoint descend (fuel pos span lis : nat) : nat :=
  match fuel with
  | O => pos
  | S k => if lis <=? span / 2 then descend k (2 * pos + 1) (span / 2) lis else pos
  end.

Definition resolve (cap live pos : nat) : agg :=
  let n := internals cap in
  if n <=? pos then
    let lf := pos - n in if lf <? live then ALeaf lf else AEmpty
  else
    let depth := Nat.log2 (pos + 1) in
    let level_start := 2 ^ depth in
    let span := cap / level_start in
    let first := (pos + 1 - level_start) * span in
    if live <=? first then AEmpty
    else
      let lis := Nat.min span (live - first) in
      if lis =? 1 then ALeaf first else ANode (descend cap pos span lis).

Definition root_aggregate (has_zero : bool) (cap live ncombs : nat) : agg :=
  if live =? 0 then AEmpty
  else if has_zero && (live =? 1) && negb (ncombs =? 0) then ANode 0
  else resolve cap live 0.

(* bit_ceil *)
Fixpoint pow2_ge (fuel n c : nat) : nat :=
  match fuel with O => c | S k => if n <=? c then c else pow2_ge k n (2 * c) end.
Definition bit_ceil (n : nat) : nat := pow2_ge n n 1.

(* leaf index -> positions of its ancestors that exist (append_structural_leaf_path) *)
Fixpoint path_up (fuel pos ncombs : nat) : list nat :=
  match fuel with
  | O => []
  | S k => match pos with
           | O => []
           | _ => let p := (pos - 1) / 2 in (if p <? ncombs then [p] else []) ++ path_up k p ncombs
           end
  end.

Definition leaf_path (cap ncombs lf : nat) : list nat := path_up (S (internals cap + lf)) (internals cap + lf) ncombs.

Fixpoint key_index (k : Z) (l : list leaf) : option nat :=
  match l with
  | [] => None
  | x :: r => if (lf_key x =? k)%Z then Some O else option_map S (key_index k r)
  end.

(* remove_leaf_at: move the last leaf into the hole, pop *)
Definition remove_leaf_at (i : nat) (l : list leaf) : list leaf :=
  match last_opt l with
  | None => l
  | Some lastv =>
      let lasti := length l - 1 in
      if i =? lasti then remove_last l else remove_last (set_nth i lastv l)
  end.

(* record_removed_leaf_paths *)
Definition removed_paths (i : nat) (l : list leaf) : list nat :=
  let lasti := length l - 1 in if i =? lasti then [i] else [i; lasti].

(* reconcile_leaf_state (sparse branch): (leaves, structural_leaves, structural) *)
Definition rc := (list leaf * list nat * bool)%type.

Definition rc_remove (k : Z) (a : rc) : rc :=
  let '(l, sl, st) := a in
  match key_index k l with
  | None => a
  | Some i => (remove_leaf_at i l, sl ++ removed_paths i l, true)
  end.

Definition rc_add (valid : nat -> bool) (sk : nat * Z) (a : rc) : rc :=
  let '(l, sl, st) := a in
  let (s, k) := sk in
  if negb (valid s) then a
  else match key_index k l with
       | Some _ => a
       | None => (l ++ [mkLeaf k s], sl ++ [length l], true)
       end.

Definition rc_mod (live valid : nat -> bool) (sk : nat * Z) (a : rc) : rc :=
  let '(l, sl, st) := a in
  let (s, k) := sk in
  if negb (live s) then a
  else
    match key_index k l with
    | Some i =>
        if negb (valid s) then (remove_leaf_at i l, sl ++ removed_paths i l, true)
        else match nth_opt i l with
             | Some lf => if lf_slot lf =? s then a
                          else (set_nth i (mkLeaf k s) l, sl ++ [i], true)
             | None => a
             end
    | None =>
        if negb (valid s) then a else (l ++ [mkLeaf k s], sl ++ [length l], true)
    end.

Definition reconcile_sparse (st : store) (d : delta) (l : list leaf) : rc :=
  let live s := match find_slot s (st_ent st) with Some _ => true | None => false end in
  let a := fold_left (fun a sk => rc_remove (snd sk) a) (d_rem d) (l, [], false) in
  let a := fold_left (fun a sk => rc_add live sk a) (d_add d) a in
  fold_left (fun a sk => rc_mod live live sk a) (d_mod d) a.

(* full branch for a dictionary: clear, then every live slot in slot order *)
Definition reconcile_full (st : store) : rc :=
  (map (fun e => mkLeaf (fst (snd e)) (fst e)) (st_ent st), [], true).

(* full branch for a list (first observation): every valid index not yet a leaf *)
Definition reconcile_full_list (st : store) (l : list leaf) : rc :=
  fold_left (fun a e => let '(l, sl, s) := a in
                        match key_index (fst (snd e)) l with
                        | Some _ => a
                        | None => (l ++ [mkLeaf (fst (snd e)) (fst e)], sl ++ [length l], true)
                        end) (st_ent st) (l, [], false).

(* ------------------------------------------------------------------ *)
(* Configuration                                                         *)

Record cfg := mkCfg {
  c_list : bool;        (* the collection is a TSL (else a TSD) *)
  c_lifted : bool;      (* lifted scalar kernel (else a generic combiner graph) *)
  c_has_zero : bool;
  c_zero : Z;
  c_zero_valid : bool   (* the zero input has a value (a scalar zero always; a live zero after its first tick) *)
}.

Section WithCombiner.
Variable f : Z -> Z -> Z.
Variable cf : cfg.

Definition src_value (st : store) (combs : list (option comb)) (s : src) : option Z :=
  match s with
  | SNone => None
  | SLeaf slot => slot_value st slot
  | SNode p => match nth_opt p combs with Some (Some c) => cb_out c | _ => None end
  | SZero => if c_has_zero cf && c_zero_valid cf then Some (c_zero cf) else None
  end.

(* aggregate_output: the output an aggregate aliases *)
Definition agg_src (leaves : list leaf) (combs : list (option comb)) (a : agg) : src :=
  match a with
  | AEmpty => if c_has_zero cf then SZero else SNone
  | ALeaf i => match nth_opt i leaves with Some lf => SLeaf (lf_slot lf) | None => SNone end
  | ANode p => match nth_opt p combs with Some (Some _) => SNode p | _ => SNone end
  end.

Definition needed (cap live p : nat) : bool :=
  ((p =? 0) && c_has_zero cf && (live =? 1)) ||
  (negb (agg_empty (resolve cap live (2 * p + 1))) && negb (agg_empty (resolve cap live (2 * p + 2)))).

(* Phase 1 at one position: (combs, created, retired) *)
Definition phase1_at (cap live : nat) (a : list (option comb) * list nat * list nat) (p : nat)
  : list (option comb) * list nat * list nat :=
  let '(combs, created, retired) := a in
  match nth_opt p combs with
  | Some None => if needed cap live p
                 then (set_nth p (Some (mkComb SNone SNone None false)) combs, created ++ [p], retired)
                 else a
  | Some (Some _) => if needed cap live p then a
                     else (set_nth p None combs, created, retired ++ [p])
  | None => a
  end.

(* Phase 2 at one position: bind_combiner_inputs.  A bind to the source already
   bound is skipped; a re-point of an existing combiner is a sampled bind and
   schedules its consumer when the new source has a value. *)
Definition bind_side (st : store) (combs : list (option comb)) (created_now : bool)
           (old new : src) : src * bool :=
  if src_eqb old new then (old, false)
  else match new with
       | SNone => (SNone, false)
       | _ => (new, negb created_now && match src_value st combs new with Some _ => true | None => false end)
       end.

Definition phase2_at (st : store) (leaves : list leaf) (cap live : nat) (created : list nat)
           (combs : list (option comb)) (p : nat) : list (option comb) :=
  match nth_opt p combs with
  | Some (Some c) =>
      let cn := existsb (Nat.eqb p) created in
      let ls := agg_src leaves combs (resolve cap live (2 * p + 1)) in
      let rs := agg_src leaves combs (resolve cap live (2 * p + 2)) in
      let '(l', sl) := bind_side st combs cn (cb_l c) ls in
      let '(r', sr) := bind_side st combs cn (cb_r c) rs in
      set_nth p (Some (mkComb l' r' (cb_out c) (cb_sched c || sl || sr))) combs
  | _ => combs
  end.

(* start of a created child graph + schedule_sampled_input_consumers *)
Definition start_at (st : store) (combs : list (option comb)) (p : nat) : list (option comb) :=
  match nth_opt p combs with
  | Some (Some c) =>
      let v s := match src_value st combs s with Some _ => true | None => false end in
      set_nth p (Some (mkComb (cb_l c) (cb_r c) (cb_out c) (cb_sched c || v (cb_l c) || v (cb_r c)))) combs
  | _ => combs
  end.

Record rebuilt := mkRebuilt { rb_state : rstate; rb_positions : list nat }.

(* the capacity computation of rebuild_structure (monotonic; at least 2 with a zero) *)
Definition next_capacity (cap live : nat) : nat :=
  Nat.max cap (Nat.max (if c_has_zero cf then 2 else 0) (if live =? 0 then 0 else bit_ceil live)).

Definition rebuild_structure (st : store) (s : rstate) (leaves : list leaf) (sleaves : list nat) (full : bool)
  : rebuilt :=
  let live := length leaves in
  let capacity := next_capacity (r_cap s) live in
  let bank_changed := negb (capacity =? r_cap s) in
  let full := full || bank_changed in
  let next_bank := negb (r_bank s) in
  let err := r_err s || (bank_changed && existsb (fun e => Bool.eqb (fst e) next_bank) (r_occ s)) in
  let combs0 := if bank_changed then repeat None (internals capacity) else r_combs s in
  let bank := if bank_changed then next_bank else r_bank s in
  let retired_shape :=
      if bank_changed
      then filter (fun p => match nth_opt p (r_combs s) with Some (Some _) => true | _ => false end)
                  (rev (down_from (length (r_combs s))))
      else [] in
  let positions :=
      if full then down_from (length combs0)
      else sort_desc_unique (concat (map (leaf_path capacity (length combs0)) sleaves)) in
  let '(combs1, created, retired) := fold_left (phase1_at capacity live) positions (combs0, [], []) in
  let combs2 :=
      if c_lifted cf then combs1
      else
        let b := fold_left (phase2_at st leaves capacity live created) (rev positions) combs1 in
        fold_left (start_at st) (rev created) b in
  let root := root_aggregate (c_has_zero cf) capacity live (length combs2) in
  let pub := agg_src leaves combs2 root in
  let occ := r_occ s ++ map (fun p => (bank, p)) created in
  let prev := r_prev s ++ map (fun p => (bank, p)) (rev retired) ++ map (fun p => (r_bank s, p)) retired_shape in
  mkRebuilt (mkR leaves capacity combs2 bank prev occ (r_primed s) true pub err) positions.

(* destroy_previous_generation_before: the retired entries of an earlier cycle go *)
Definition destroy_previous (s : rstate) : rstate :=
  mkR (r_leaves s) (r_cap s) (r_combs s) (r_bank s) []
      (filter (fun e => negb (existsb (fun q => Bool.eqb (fst q) (fst e) && (snd q =? snd e)) (r_prev s))) (r_occ s))
      (r_primed s) (r_published s) (r_pub s) (r_err s).

(* append_leaf_path: ancestors that currently hold a combiner *)
Definition live_path (cap : nat) (combs : list (option comb)) (lf : nat) : list nat :=
  filter (fun p => match nth_opt p combs with Some (Some _) => true | _ => false end)
         (leaf_path cap (length combs) lf).

(* a source ticked: every combiner bound to it gets its consumer scheduled *)
Definition notify (sr : src) (combs : list (option comb)) : list (option comb) :=
  map (fun oc => match oc with
                 | Some c => if src_eqb (cb_l c) sr || src_eqb (cb_r c) sr
                             then Some (mkComb (cb_l c) (cb_r c) (cb_out c) true) else oc
                 | None => None
                 end) combs.

(* evaluation of one position: (combiners, operand log, positions whose output was written) *)
Definition ev := (list (option comb) * list (Z * Z) * list nat)%type.

Definition eval_at (st : store) (leaves : list leaf) (cap : nat) (a : ev) (p : nat) : ev :=
  let '(combs, log, wrote) := a in
  match nth_opt p combs with
  | Some (Some c) =>
      if c_lifted cf then
        let live := length leaves in
        let lv := src_value st combs (agg_src leaves combs (resolve cap live (2 * p + 1))) in
        let rv := src_value st combs (agg_src leaves combs (resolve cap live (2 * p + 2))) in
        match lv, rv with
        | Some x, Some y =>
            (set_nth p (Some (mkComb (cb_l c) (cb_r c) (Some (f x y)) false)) combs, log ++ [(x, y)], p :: wrote)
        | _, _ => a
        end
      else if cb_sched c then
        match src_value st combs (cb_l c), src_value st combs (cb_r c) with
        | Some x, Some y =>
            (notify (SNode p) (set_nth p (Some (mkComb (cb_l c) (cb_r c) (Some (f x y)) false)) combs),
             log ++ [(x, y)], p :: wrote)
        | _, _ => (set_nth p (Some (mkComb (cb_l c) (cb_r c) (cb_out c) false)) combs, log, wrote)
        end
      else a
  | _ => a
  end.

Record cycle_out := mkOut {
  o_state : rstate;
  o_log : list (Z * Z);       (* operands of every combiner evaluation, in evaluation order *)
  o_evaluated : bool;         (* the reduce node was evaluated this cycle *)
  o_ticked : bool             (* its output ticked *)
}.

Definition set_combs (s : rstate) (combs : list (option comb)) : rstate :=
  mkR (r_leaves s) (r_cap s) combs (r_bank s) (r_prev s) (r_occ s) (r_primed s) (r_published s) (r_pub s) (r_err s).

(* reduce_reconcile + rebuild: the state after the structural part, the structural
   positions, and whether a rebuild happened *)
Definition available (st : store) : bool := if c_list cf then true else st_valid st.

(* the leaf-map half of reduce_reconcile: (leaves, structural_leaves, structural, full_structure, primed) *)
Definition reconcile_leaves (st : store) (d : delta) (coll_event : bool) (s : rstate)
  : list leaf * list nat * bool * bool * bool :=
  let full0 := negb (r_published s) in
  if available st then
    if negb (r_primed s) || coll_event then
      let '(l, sl, stc) :=
          if negb (r_primed s)
          then (if c_list cf then reconcile_full_list st (r_leaves s) else reconcile_full st)
          else reconcile_sparse st d (r_leaves s) in
      (l, sl, stc, full0 || negb (r_primed s), true)
    else (r_leaves s, [], false, full0, r_primed s)
  else if r_primed s || negb (length (r_leaves s) =? 0) then ([], [], true, true, false)
  else (r_leaves s, [], false, full0, r_primed s).

Definition reconcile (st : store) (d : delta) (coll_event : bool) (s : rstate) : rstate * list nat * bool :=
  let '(leaves, sleaves, structural, full, primed) := reconcile_leaves st d coll_event s in
  let s' := mkR (r_leaves s) (r_cap s) (r_combs s) (r_bank s) (r_prev s) (r_occ s) primed (r_published s) (r_pub s) (r_err s) in
  if structural || negb (r_published s)
  then let rb := rebuild_structure st s' leaves sleaves full in (rb_state rb, rb_positions rb, true)
  else (mkR leaves (r_cap s) (r_combs s) (r_bank s) (r_prev s) (r_occ s) primed (r_published s) (r_pub s) (r_err s), [], false).

Definition present (combs : list (option comb)) (p : nat) : bool :=
  match nth_opt p combs with Some (Some _) => true | _ => false end.

(* prepare_reduce_evaluation_positions *)
Definition eval_positions (st : store) (d : delta) (coll_event zero_event rebuilt : bool) (spos : list nat) (s1 : rstate)
  : list nat :=
  let available := available st in
  let input_event := coll_event || zero_event in
  let full_scan := negb rebuilt && negb input_event in
  let cand_struct := if rebuilt then filter (present (r_combs s1)) spos else [] in
  let cand_mod :=
      if coll_event && available then
        concat (map (fun sk => match key_index (snd sk) (r_leaves s1) with
                               | Some i => live_path (r_cap s1) (r_combs s1) i
                               | None => []
                               end) (d_mod d))
      else [] in
  let cand_zero :=
      if zero_event && (length (r_leaves s1) =? 1) && present (r_combs s1) 0 then [0] else [] in
  if full_scan then filter (present (r_combs s1)) (down_from (length (r_combs s1)))
  else sort_desc_unique (cand_struct ++ cand_mod ++ cand_zero).

(* One engine cycle of the reduce node.  [d] is the slot-ordered delta of the
   collection (already applied to [st]), [coll_event] / [zero_event] say which
   inputs ticked. *)
Definition reduce_cycle (st : store) (d : delta) (coll_event zero_event : bool) (s0 : rstate) : cycle_out :=
  if negb (coll_event || zero_event) then mkOut s0 [] false false
  else
  let s := destroy_previous s0 in
  (* a source writes before the node runs: the standing bindings are notified *)
  let combs_n :=
      if c_lifted cf then r_combs s
      else fold_left (fun cs sk => notify (SLeaf (fst sk)) cs) (d_mod d)
                     (if zero_event then notify SZero (r_combs s) else r_combs s) in
  let '(s1, spos, rebuilt) := reconcile st d coll_event (set_combs s combs_n) in
  let positions := eval_positions st d coll_event zero_event rebuilt spos s1 in
  let '(combs, log, wrote) := fold_left (eval_at st (r_leaves s1) (r_cap s1)) positions (r_combs s1, [], []) in
  let s2 := set_combs s1 combs in
  (* the forwarding output ticks when it is re-pointed or when its source ticks *)
  let pub_changed := negb (src_eqb (r_pub s0) (r_pub s2)) in
  let src_ticked :=
      match r_pub s2 with
      | SLeaf slot => existsb (fun sk => fst sk =? slot) (d_mod d)
      | SNode p => existsb (Nat.eqb p) wrote
      | SZero => zero_event
      | SNone => false
      end in
  (* a re-point ticks when the new source has a value, or when a value that was published is lost *)
  let new_has_value := match src_value st combs (r_pub s2) with Some _ => true | None => false end in
  let old_had_value :=
      match r_pub s0 with
      | SNone => false
      | SLeaf _ => true
      | SNode p => match nth_opt p (r_combs s0) with Some (Some c) => (match cb_out c with Some _ => true | None => false end) | _ => false end
      | SZero => c_has_zero cf && c_zero_valid cf
      end in
  mkOut s2 log true ((pub_changed && (new_has_value || old_had_value)) || src_ticked).

Definition result_of (st : store) (s : rstate) : option Z := src_value st (r_combs s) (r_pub s).

Definition combiner_count (s : rstate) : nat :=
  length (filter (fun oc => match oc with Some _ => true | None => false end) (r_combs s)).

End WithCombiner.

(* ------------------------------------------------------------------ *)
(* The harness: decode a case, run it, print the observation lines
   (see gen/reduce.py for the wire format; cxx/reduce_driver.cpp prints the
   same lines from the real code).  The combiner of the harness is addition. *)

Local Open Scope Z_scope.

Fixpoint insert_kv (k v : Z) (l : list (Z * Z)) : list (Z * Z) :=
  match l with
  | [] => [(k, v)]
  | (k', v') :: r => if k <? k' then (k, v) :: l else if k =? k' then (k, v) :: r else (k', v') :: insert_kv k v r
  end.

Definition sets_of (c : Z) (w : wire) : list (Z * Z) :=
  fold_left (fun acc l => match l with
                          | 2 :: c' :: k :: v :: _ => if c' =? c then insert_kv k v acc else acc
                          | _ => acc
                          end) w [].

Definition rems_of (c : Z) (w : wire) : list Z :=
  fold_left (fun acc l => match l with
                          | 3 :: c' :: k :: _ => if c' =? c then acc ++ [k] else acc
                          | _ => acc
                          end) w [].

Definition touch_of (c : Z) (w : wire) : bool :=
  existsb (fun l => match l with 4 :: c' :: _ => c' =? c | _ => false end) w.

Record header := mkHeader { h_coll : Z; h_comb : Z; h_hz : Z; h_zero : Z; h_n : Z }.

Definition header_of (w : wire) : header :=
  fold_left (fun h l => match l with
                        | 1 :: a :: b :: c :: d :: e :: _ => mkHeader a b c d e
                        | _ => h
                        end) w (mkHeader 0 0 0 0 0).

Definition zn (n : nat) : Z := Z.of_nat n.

Definition flat_pairs (l : list (nat * Z)) : list Z := concat (map (fun x => [zn (fst x); snd x]) l).

Definition opt_line (o : option Z) : list Z := match o with Some v => [1; v] | None => [0; 0] end.

Definition delta_nonempty (d : delta) : bool :=
  match d_rem d, d_add d, d_mod d with [], [], [] => false | _, _, _ => true end.

(* a live zero: its tick in cycle c (last line wins), and its current value after cycle c *)
Definition ztick_of (c : Z) (w : wire) : option Z :=
  fold_left (fun acc l => match l with
                          | 5 :: c' :: v :: _ => if c' =? c then Some v else acc
                          | _ => acc
                          end) w None.

Fixpoint zero_at (w : wire) (c : nat) : option Z :=
  match ztick_of (zn c) w with
  | Some v => Some v
  | None => match c with O => None | S c' => zero_at w c' end
  end.

Definition run_cycle (live_zero : bool) (cf0 : cfg) (w : wire) (acc : store * rstate * wire) (c : nat) : store * rstate * wire :=
  let '(st, s, out) := acc in
  let cz := zn c in
  let cf := if live_zero
            then match zero_at w c with
                 | Some v => mkCfg (c_list cf0) (c_lifted cf0) true v true
                 | None => mkCfg (c_list cf0) (c_lifted cf0) true 0 false
                 end
            else cf0 in
  let t := 1 + cz in
  let sets := sets_of cz w in
  let rems := rems_of cz w in
  let '(st', d, coll_event) :=
      if c_list cf then
        match sets with
        | [] => (st, delta0, false)
        | _ => let (st', d) := store_apply_list sets st in (st', d, true)
        end
      else
        match sets, rems, touch_of cz w with
        | [], [], false => (st, delta0, false)
        | _, _, _ =>
            (* an empty delta ticks (and validates) a dictionary that has never ticked; a delta that
               only removes absent keys does not tick at all (observed behaviour of apply_delta_tsd) *)
            let (st', d) := store_apply_dict rems sets st in
            let ev := delta_nonempty d || (negb (st_valid st) && match rems with [] => true | _ => false end) in
            if ev then (store_validate st', d, true) else (st', delta0, false)
        end in
  let zero_event := if live_zero then (match ztick_of cz w with Some _ => true | None => false end)
                    else c_has_zero cf && (c =? 0)%nat in
  let o := reduce_cycle Z.add cf st' d coll_event zero_event s in
  let s' := o_state o in
  let res := result_of cf st' s' in
  let lines :=
      if o_evaluated o then
        (if c_list cf then [] else [20 :: t :: flat_pairs (d_rem d); 21 :: t :: flat_pairs (d_add d); 22 :: t :: flat_pairs (d_mod d)])
        ++ (if c_lifted cf then [] else map (fun lr => [30; t; fst lr; snd lr]) (o_log o))
        ++ [[32; t; zn (length (r_leaves s')); zn (combiner_count s')] ++ opt_line res ++ [b2z (o_ticked o)]]
        ++ (if o_ticked o then [31 :: t :: opt_line res] else [])
      else [] in
  (st', s', out ++ lines).

(* reduce_lifted_tsl: a fixed TSL with a lifted associative kernel and no zero is
   one node that folds every valid element on every tick *)
Definition run_cycle_lifted_tsl (w : wire) (acc : store * wire) (c : nat) : store * wire :=
  let (st, out) := acc in
  let cz := zn c in
  match sets_of cz w with
  | [] => acc
  | sets =>
      let (st', _) := store_apply_list sets st in
      let vals := map (fun e => snd (snd e)) (st_ent st') in
      match vals with
      | [] => (st', out)
      | v :: r => (st', out ++ [[31; 1 + cz; 1; fold_left Z.add r v]])
      end
  end.

Definition fixed_size : Z := 6.
Definition max_index : Z := 200.

Definition keys_ok (coll : Z) (w : wire) : bool :=
  forallb (fun l => match l with
                    | 2 :: _ :: k :: _ :: _ =>
                        if coll =? 0 then true
                        else (0 <=? k) && (if coll =? 1 then k <=? max_index else k <? fixed_size)
                    | _ => true
                    end) w.

Definition run_reduce (w : wire) : wire :=
  let h := header_of w in
  if (h_n h <? 0) || (200 <? h_n h) then [[39; 1]]
  else
    let coll := if h_coll h =? 0 then 0 else if h_coll h =? 1 then 1 else 2 in
    if (h_hz h =? 2) && (coll =? 2) then [[39; 4]]
    else if negb (keys_ok coll w) then [[39; 3]]
    else
      let hz := negb (h_hz h =? 0) in
      let cycles := rev (down_from (Z.to_nat (h_n h))) in
      if (coll =? 2) && (h_comb h =? 0) && negb hz
      then snd (fold_left (run_cycle_lifted_tsl w) cycles (store0, []))
      else
        let cf := mkCfg (negb (coll =? 0)) (h_comb h =? 0) hz (h_zero h) true in
        let '(_, _, out) := fold_left (run_cycle (h_hz h =? 2) cf w) cycles (store0, rstate0, []) in
        out.
