(* NestedWitness.v - the program of DESIGN.md 8.1 as a wire case:
   root: source x = 1,2,3,4 at t = 1..4; try_except over the child [ident(x) + 100; boom] where boom
   (child index 1) throws "hgv boom 7" on its 2nd run; a recorder on the `out` field, one on `exception`. *)
Require Import Base Sched Nested.

Definition boom_ident_case : wire :=
  [[1; 1; 8];
   [2; 0; 0; 0; 1; 1; 1; 0; 0];
   [3; 0; 0; 0; 6; 1; 0];
   [3; 0; 0; 0; 1; 1; 0];
   [3; 0; 0; 1; 6; 2; 0];
   [3; 0; 0; 1; 1; 1; 0];
   [3; 0; 0; 2; 6; 3; 0];
   [3; 0; 0; 2; 1; 1; 0];
   [3; 0; 0; 3; 6; 4; 0];
   [2; 0; 1; 2; 0; 0; 1; 1; 0; 0; 0; 1; 0];
   [5; 0; 1; 1; 1; 1; 0; 0; 0];
   [2; 1; 0; 0; 0; 0; 1; 1; 0; (-1); 0; 1; 1];
   [3; 1; 0; (-2); 6; 100; 0];
   [2; 1; 1; 0; 0; 0; 1; 1; 0; 0; 0; 1; 1];
   [3; 1; 1; (-2); 6; 0; 0];
   [3; 1; 1; 1; 8; 7; 0];
   [2; 0; 2; 0; 0; 0; 0; 1; 0; 1; 0; 1; 1];
   [2; 0; 3; 0; 0; 0; 0; 1; 0; 1; 1; 1; 1]].

(* what a recorder node (g,i) saw: (time, value read) of each of its runs in which its input was modified *)
Definition rec_ticks (g i : Z) (out : wire) : list (Z * Z) :=
  flat_map (fun l => match l with
                     | 12 :: g' :: i' :: t :: _ :: _ :: _ :: _ :: m :: v :: _ =>
                         if (g' =? g) && (i' =? i) && (m =? 1) then [(t, v)] else []
                     | _ => [] end) out.

(* a program without try_except: source x (ticks at 3 and 5), the body [x+1] inlined (node 1) and nested at
   depth 2 (node 3 -> graph 1 -> graph 2), each followed by a recorder (corpus/nest/kf_phantom_tick_depth2.case) *)
Definition nest2_case : wire :=
  [[1; 1; 8];
   [2; 0; 0; 0; 1; 0; 1; 0; 0];
   [3; 0; 0; (-1); 1; 2; 0];
   [3; 0; 0; 0; 6; 5; 0];
   [3; 0; 0; 0; 1; 2; 0];
   [3; 0; 0; 1; 6; 7; 0];
   [2; 0; 1; 0; 0; 0; 1; 1; 0; 0; 0; 1; 1];
   [3; 0; 1; (-2); 6; 1; 0];
   [3; 0; 1; 0; 0; 0; 0];
   [2; 0; 2; 0; 0; 0; 0; 1; 1; 1; 0; 1; 0];
   [2; 0; 3; 1; 0; 0; 1; 1; 0; 0; 0; 1; 0];
   [5; 0; 3; 1; 0; 1; 0; 0; 0];
   [2; 1; 0; 1; 0; 0; 1; 1; 0; (-1); 0; 1; 0];
   [5; 1; 0; 2; 0; 1; 0; 0; 0];
   [2; 2; 0; 0; 0; 0; 1; 1; 0; (-1); 0; 1; 1];
   [3; 2; 0; (-2); 6; 1; 0];
   [3; 2; 0; 0; 0; 0; 0];
   [2; 0; 4; 0; 0; 0; 0; 1; 1; 3; 0; 1; 0];
   [7; 0; 0; 2];
   [7; 0; 0; 4]].

(* try_except (0,1) over a nested node (1,0) over the body [n0: emit, schedule(+2); n1: throws "hgv boom 7"]
   (corpus/nest/kf_wake_lost_try_nested_body.case): the thrower sits two levels below the try_except *)
Definition try_nested_boom_case : wire :=
  [[1; 1; 9];
   [2; 0; 0; 0; 1; 0; 1; 0; 0];
   [3; 0; 0; (-1); 1; 1; 0];
   [3; 0; 0; 0; 6; 1; 0];
   [3; 0; 0; 0; 1; 3; 0];
   [3; 0; 0; 1; 6; 2; 0];
   [2; 0; 1; 2; 0; 0; 1; 1; 0; 0; 0; 1; 0];
   [5; 0; 1; 1; 0; 1; 0; 0; 0];
   [2; 1; 0; 1; 0; 0; 1; 1; 0; (-1); 0; 1; 0];
   [5; 1; 0; 2; 1; 1; 0; 0; 0];
   [2; 2; 0; 0; 1; 0; 1; 1; 0; (-1); 0; 1; 1];
   [3; 2; 0; (-2); 6; 10; 0];
   [3; 2; 0; 0; 6; 10; 0];
   [3; 2; 0; 0; 1; 2; 0];
   [2; 2; 1; 0; 0; 0; 1; 1; 0; 0; 0; 1; 1];
   [3; 2; 1; (-2); 6; 0; 0];
   [3; 2; 1; 0; 8; 7; 0];
   [2; 0; 2; 0; 0; 0; 0; 1; 1; 1; 0; 1; 0];
   [2; 0; 3; 0; 0; 0; 0; 1; 1; 1; 1; 1; 0]].
