(* Nested.v — mirror model of the evaluation engine over a TREE of graphs:
     src/hgraph/runtime/graph.cpp          schedule_node_impl, nested_schedule_node_impl,
                                           start_impl, evaluate_impl (cursor / resuming /
                                           evaluation_failed), propagate_nested_parent_schedule
     src/hgraph/runtime/nested_graph_node.cpp  single_nested_graph_start / evaluate /
                                           bind_inputs / bind_output / propagate_schedule
     include/hgraph/runtime/nested_bindings.h  schedule_sampled_input_consumers, forwarding outputs
     src/hgraph/runtime/try_except_node.cpp    try_except_start / try_except_evaluate_impl
     src/hgraph/runtime/node.cpp           start_impl, evaluate_impl (error capture), notify
     src/hgraph/runtime/executor.cpp       run loop (as in Engine.v)
   The graphs of a program are kept in one table indexed by a graph id (0 = root);
   a nested / try_except node names its child graph by id.  Boundaries are bindings:
   every input carries the output endpoint (graph, node, port) it finally reads
   ([i_res], computed by [resolve_cfg] below exactly as bind_inputs / the forwarding
   output resolve them).  Exceptions are the world's [w_err] flag: every step is the
   identity while it is set; try_except and capturing nodes clear it.
   Executable definitions only; the theorems are in NestedFacts.v. *)
Require Import Base Sched.

(* ---- static description ---- *)
Definition endpoint := (nat * nat * Z)%type.          (* graph, node, port (0 value, 1 error) *)

Record inspec := mkIn {
  i_src : Z;                 (* local producer node, or -1: bound from the enclosing nested node *)
  i_port : Z;
  i_active : bool;
  i_req : bool;
  i_res : option endpoint;   (* the owned output this input finally reads *)
  i_link : option (nat * nat) }. (* the forwarding (nested / try_except) node whose output it is bound to, if any *)

Record bind := mkB { b_outer : nat; b_node : nat; b_slot : nat }.

Record ncfg := mkCfg {
  c_kind : Z;               (* 0 plain, 1 nested, 2 try_except, 3 plain with captures_errors,
                               4 nested whose owner re-enters a paused child cycle until it completes (what mesh_ does),
                               5 plain node whose evaluate may return false (pause the cycle; what mesh_subscribe does) *)
  c_sched : bool;
  c_sos : bool;
  c_out : bool;
  c_vmode : Z;
  c_ins : list inspec;
  c_child : nat;            (* kinds 1,2: the child graph *)
  c_outn : Z;               (* kinds 1,2: child terminal node (or -1) *)
  c_binds : list bind;
  c_pause : Z -> Z }.       (* kind 5: run index -> how many times evaluate returns false before that run completes *)

Record gcfg := mkGC { gc_parent : option (nat * nat); gc_nodes : list ncfg }.
Definition tcfg := list gcfg.

Definition dflt_cfg : ncfg := mkCfg 0 false false false 0 [] 0 (-1) [] (fun _ => 0).
Definition dflt_gc : gcfg := mkGC None [].
Definition gcfg_at (T : tcfg) (g : nat) : gcfg := nth g T dflt_gc.
Definition ncfg_at (T : tcfg) (g i : nat) : ncfg := nth i (gc_nodes (gcfg_at T g)) dflt_cfg.
Definition is_nested (c : ncfg) : bool := (c_kind c =? 1) || (c_kind c =? 2) || (c_kind c =? 4).

(* ---- operations user code may perform ---- *)
Inductive op :=
| OSchedule (delta tag : Z)
| OUnschedTag (tag : Z)
| OUnschedFirst
| OPopTag (tag : Z)
| OReset
| OEmit (a : Z)                  (* out.set(a + sum of the valid inputs) *)
| ORaw (delta : Z)               (* graph.schedule_node(self, now + delta) *)
| OThrow (a : Z)                 (* throw runtime_error("hgv boom a") *)
| OPoke (a b : Z)                (* child(a).schedule_node(b, child(a).evaluation_time()) from outside *)
| ONop
| OThrowForeign
| OPoke2 (a b : Z).              (* as OPoke, on the GRANDCHILD graph owned by node 0 of child(a) *)                (* throw an object that is not a std::exception: reported as "unknown error" *)

Record inview := mkIv { v_valid : bool; v_mod : bool; v_val : Z; v_lmt : Z }.

(* user code: graph, node, run index (-1 = the start hook), time, inputs, scheduler state -> ops *)
Definition behaviour := nat -> nat -> Z -> Z -> list inview -> sched -> list op.

(* the code an unfinished (paused) evaluation leaves in [w_err]: it propagates upward like an exception -
   every enclosing evaluate returns false - but is not one: evaluation_failed stays clear, try_except does
   not catch it, and a re-entering owner (kind 4) resumes the cycle *)
Definition PAUSED : Z := 7.

(* ---- dynamic state ---- *)
Record nst := mkN { n_started : bool; n_sch : sched; n_runs : Z;
                     n_val : option Z; n_lmt : Z;          (* port 0 *)
                     n_err : option Z; n_elmt : Z;          (* port 1: error output / exception field *)
                     n_link : Z;                            (* forwarding link: time its target was last re-pointed *)
                     n_rebound : bool;                      (* forwarding link already points at the final output *)
                     n_paused : Z }.                        (* kind 5: pauses requested so far in the current run *)

Record gst := mkG {
  g_now : Z;                 (* evaluation_time *)
  g_slots : list Z;
  g_nst : Z;                 (* cached next_scheduled_time *)
  g_nodes : list nst;
  g_started : bool;
  g_evaluating : bool;
  g_cursor : Z;              (* evaluation_cursor; -1 = invalid_cursor *)
  g_failed : bool }.         (* evaluation_failed *)

Record world := mkW { w_gs : list gst; w_log : list line; w_err : Z }.

Definition init_n : nst := mkN false empty_sched 0 None MIN_DT None MIN_DT MIN_DT false 0.
Definition dflt_g : gst := mkG MIN_DT [] MAX_DT [] false false (-1) false.
Definition init_g (n : nat) : gst := mkG MIN_DT (repeat MIN_DT n) MAX_DT (repeat init_n n) false false (-1) false.

Definition gat (g : nat) (w : world) : gst := nth g (w_gs w) dflt_g.
Definition node_at (g i : nat) (w : world) : nst := nth i (g_nodes (gat g w)) init_n.
Definition slot_at (i : nat) (s : gst) : Z := nth i (g_slots s) MIN_DT.
Definition now_of (g : nat) (w : world) : Z := g_now (gat g w).

Definition emit (l : line) (w : world) : world := mkW (w_gs w) (l :: w_log w) (w_err w).
Definition set_err (e : Z) (w : world) : world := mkW (w_gs w) (w_log w) e.
Definition upd_g (g : nat) (f : gst -> gst) (w : world) : world := mkW (update g f (w_gs w)) (w_log w) (w_err w).
Definition ok (w : world) : bool := w_err w =? 0.

Definition g_set_sched (i : nat) (when : Z) (s : gst) : gst :=
  mkG (g_now s) (set_nth i when (g_slots s))
      (if (g_now s <? when) && (when <? g_nst s) then when else g_nst s)
      (g_nodes s) (g_started s) (g_evaluating s) (g_cursor s) (g_failed s).
Definition g_set_nst (t : Z) (s : gst) : gst :=
  mkG (g_now s) (g_slots s) t (g_nodes s) (g_started s) (g_evaluating s) (g_cursor s) (g_failed s).
Definition g_upd_node (i : nat) (f : nst -> nst) (s : gst) : gst :=
  mkG (g_now s) (g_slots s) (g_nst s) (update i f (g_nodes s)) (g_started s) (g_evaluating s) (g_cursor s) (g_failed s).
Definition g_set_cursor (c : Z) (s : gst) : gst :=
  mkG (g_now s) (g_slots s) (g_nst s) (g_nodes s) (g_started s) (g_evaluating s) c (g_failed s).
Definition g_set_flags (st ev fl : bool) (s : gst) : gst :=
  mkG (g_now s) (g_slots s) (g_nst s) (g_nodes s) st ev (g_cursor s) fl.
Definition g_set_now (t : Z) (s : gst) : gst :=
  mkG t (g_slots s) (g_nst s) (g_nodes s) (g_started s) (g_evaluating s) (g_cursor s) (g_failed s).

Definition upd_node (g i : nat) (f : nst -> nst) (w : world) : world := upd_g g (g_upd_node i f) w.

(* graph.cpp schedule_node_impl *)
Definition sched_local (g i : nat) (when : Z) (w : world) : world :=
  let s := gat g w in
  if when <? g_now s then set_err 3 w
  else
    let sc := slot_at i s in
    if (sc <=? g_now s) || (when <? sc) then upd_g g (g_set_sched i when) w else w.

(* graph.cpp nested_schedule_node_impl (root graphs: schedule_node_impl).
   [d] bounds the walk up the parent chain. *)
Fixpoint sched_at (d : nat) (T : tcfg) (g i : nat) (when : Z) (w : world) : world :=
  match gc_parent (gcfg_at T g) with
  | None => sched_local g i when w
  | Some (pg, pn) =>
      match d with
      | O => set_err 9 w
      | S d' =>
          (* the clamp: to the ROOT's evaluation time (the engine's current time); the parent's own clock,
             which the root's bounds from above in every reachable state (NestedFacts.clocks_ok), is kept in
             the maximum so that the statement "never before the parent's clock" needs no invariant *)
          let when' := Z.max (Z.max when (now_of pg w)) (now_of 0 w) in
          let w1 := sched_local g i when' w in
          if negb (ok w1) then w1 else
          let s := gat g w1 in
          let idle := g_started s && negb (g_evaluating s) in
          let w2 := if idle && (when' <? g_nst s) then upd_g g (g_set_nst when') w1 else w1 in
          if idle then sched_at d' T pg pn when' w2 else w2               (* the push, gated on idle *)
      end
  end.

Definition opt_schedule (T : tcfg) (g i : nat) (o : option Z) (w : world) : world :=
  match o with Some t => sched_at (length T) T g i t w | None => w end.

(* ---- reading inputs (through bindings / forwarding: the resolved endpoint) ---- *)
Definition read_port (now : Z) (w : world) (p : option endpoint) (lk : option (nat * nat)) : inview :=
  let lt := match lk with Some (g, n) => n_link (node_at g n w) | None => MIN_DT end in
  match p with
  | None => mkIv false false 0 MIN_DT
  | Some (g, n, port) =>
      let x := node_at g n w in
      let v := if port =? 0 then n_val x else n_err x in
      let l := Z.max lt (if port =? 0 then n_lmt x else n_elmt x) in
      match v with
      | Some z => mkIv true (l =? now) z l
      | None => mkIv false (l =? now) 0 l
      end
  end.

Definition read_in (now : Z) (w : world) (s : inspec) : inview := read_port now w (i_res s) (i_link s).

Definition read_inputs (c : ncfg) (now : Z) (w : world) : list inview :=
  map (read_in now w) (c_ins c).

(* node.cpp ready_to_evaluate *)
Definition ready (c : ncfg) (now : Z) (w : world) : bool :=
  forallb (fun s => if (c_vmode c =? 0) || i_req s then v_valid (read_in now w s) else true) (c_ins c).

Definition ep_eqb (a b : endpoint) : bool :=
  let '(g1, n1, p1) := a in let '(g2, n2, p2) := b in (g1 =? g2)%nat && (n1 =? n2)%nat && (p1 =? p2).

Definition subscribed (c : ncfg) (p : endpoint) : bool :=
  existsb (fun s => i_active s && match i_res s with Some q => ep_eqb q p | None => false end) (c_ins c).

(* readers bound to the output of forwarding node [x] *)
Definition linked (c : ncfg) (x : nat * nat) : bool :=
  existsb (fun s => i_active s && match i_link s with Some q => (fst q =? fst x)%nat && (snd q =? snd x)%nat | None => false end) (c_ins c).

(* ---- output write: notification of every subscribed (active, started) input, in any graph.
   node.cpp schedule_node_from_storage: when = max(modified_time, graph.evaluation_time) ---- *)
Fixpoint notify_nodes (T : tcfg) (sub : ncfg -> bool) (now : Z) (g : nat) (cs : list ncfg) (j : nat) (w : world) : world :=
  match cs with
  | [] => w
  | c :: r =>
      let w' := if sub c && n_started (node_at g j w)
                then sched_at (length T) T g j (Z.max now (now_of g w)) w else w in
      notify_nodes T sub now g r (S j) w'
  end.

Fixpoint notify_graphs (T : tcfg) (sub : ncfg -> bool) (now : Z) (gs : list gcfg) (g : nat) (w : world) : world :=
  match gs with
  | [] => w
  | gc :: r => notify_graphs T sub now r (S g) (notify_nodes T sub now g (gc_nodes gc) 0 w)
  end.

Definition notify (T : tcfg) (p : endpoint) (now : Z) (w : world) : world :=
  notify_graphs T (fun c => subscribed c p) now T 0 w.
Definition notify_link (T : tcfg) (x : nat * nat) (now : Z) (w : world) : world :=
  notify_graphs T (fun c => linked c x) now T 0 w.

Definition sum_valid (ivs : list inview) : Z :=
  fold_left (fun a v => if v_valid v then a + v_val v else a) ivs 0.

(* ---- scheduler snapshot line (code 13) ---- *)
Definition tagq (now t : Z) (s : sched) : line :=
  [b2z (has_tag t s); tag_time t MIN_DT s; b2z (tag_is_scheduled_now now t s)].

Definition snapshot (g i : nat) (now k : Z) (s : sched) (extra : Z) : line :=
  [13; Z.of_nat g; Z.of_nat i; now; k; next_scheduled_time s; b2z (is_scheduled s); b2z (is_scheduled_now now s)]
    ++ tagq now 1 s ++ tagq now 2 s ++ tagq now 3 s ++ [extra].

Definition set_sch (s : sched) (n : nst) : nst := mkN (n_started n) s (n_runs n) (n_val n) (n_lmt n) (n_err n) (n_elmt n) (n_link n) (n_rebound n) (n_paused n).
Definition set_out (v now : Z) (n : nst) : nst := mkN (n_started n) (n_sch n) (n_runs n) (Some v) now (n_err n) (n_elmt n) (n_link n) (n_rebound n) (n_paused n).
Definition set_errv (v now : Z) (n : nst) : nst := mkN (n_started n) (n_sch n) (n_runs n) (n_val n) (n_lmt n) (Some v) now (n_link n) (n_rebound n) (n_paused n).
Definition set_started (n : nst) : nst := mkN true (n_sch n) (n_runs n) (n_val n) (n_lmt n) (n_err n) (n_elmt n) (n_link n) (n_rebound n) (n_paused n).
Definition inc_runs (n : nst) : nst := mkN (n_started n) (n_sch n) (n_runs n + 1) (n_val n) (n_lmt n) (n_err n) (n_elmt n) (n_link n) (n_rebound n) (n_paused n).
Definition set_link (t : Z) (n : nst) : nst := mkN (n_started n) (n_sch n) (n_runs n) (n_val n) (n_lmt n) (n_err n) (n_elmt n) t true (n_paused n).
Definition set_paused (k : Z) (n : nst) : nst := mkN (n_started n) (n_sch n) (n_runs n) (n_val n) (n_lmt n) (n_err n) (n_elmt n) (n_link n) (n_rebound n) k.

(* ---- one operation of user code ---- *)
Definition do_op (T : tcfg) (g i : nat) (started : bool) (opi : Z) (o : op) (w : world) : world :=
  if negb (ok w) then w else
  let c := ncfg_at T g i in
  let now := now_of g w in
  let s := n_sch (node_at g i w) in
  let snap s' extra w' := emit (snapshot g i now opi s' extra) w' in
  match o with
  | OSchedule d tag =>
      if c_sched c then
        let '(s', push) := schedule now started (now + d) tag s in
        let w1 := opt_schedule T g i push (upd_node g i (set_sch s') w) in
        if ok w1 then snap s' 0 w1 else w1
      else w
  | OUnschedTag tag =>
      if c_sched c then let s' := un_schedule_tag tag s in snap s' 0 (upd_node g i (set_sch s') w) else w
  | OUnschedFirst =>
      if c_sched c then let s' := un_schedule_first s in snap s' 0 (upd_node g i (set_sch s') w) else w
  | OPopTag tag =>
      if c_sched c then let '(s', t) := pop_tag tag MIN_DT s in snap s' t (upd_node g i (set_sch s') w) else w
  | OReset =>
      if c_sched c then let s' := reset s in snap s' 0 (upd_node g i (set_sch s') w) else w
  | OEmit a =>
      if c_out c && started then
        let v := a + sum_valid (read_inputs c now w) in
        let w1 := upd_node g i (set_out v now) w in
        let w2 := notify T (g, i, 0) now w1 in
        emit [14; Z.of_nat g; Z.of_nat i; now; v] w2
      else w
  | ORaw d => sched_at (length T) T g i (now + d) w
  | OThrow a => set_err (100 + a) w
  | OPoke a b =>
      let c' := ncfg_at T g (Z.to_nat a) in
      if is_nested c' && g_started (gat (c_child c') w)
      then sched_at (length T) T (c_child c') (Z.to_nat b) (now_of (c_child c') w) w
      else w
  | ONop => w
  | OThrowForeign => set_err 2 w
  | OPoke2 a b =>
      let c' := ncfg_at T g (Z.to_nat a) in
      let c'' := ncfg_at T (c_child c') 0 in
      if is_nested c' && g_started (gat (c_child c') w) && is_nested c'' && g_started (gat (c_child c'') w)
      then sched_at (length T) T (c_child c'') (Z.to_nat b) (now_of (c_child c'') w) w
      else w
  end.

Fixpoint do_ops (T : tcfg) (g i : nat) (started : bool) (opi : Z) (os : list op) (w : world) : world :=
  match os with
  | [] => w
  | o :: r => do_ops T g i started (opi + 1) r (do_op T g i started opi o w)
  end.

(* node_error: the error output ticks with the message (a code) and notifies its readers *)
Definition write_err (T : tcfg) (g i : nat) (code now : Z) (w : world) : world :=
  notify T (g, i, 1) now (upd_node g i (set_errv code now) w).

(* ---- node.cpp start_impl (plain nodes) ---- *)
Definition start_plain (T : tcfg) (beh : behaviour) (g i : nat) (w : world) : world :=
  let c := ncfg_at T g i in
  let now := now_of g w in
  let w1 := do_ops T g i false 0 (beh g i (-1) now (read_inputs c now w) (n_sch (node_at g i w))) w in
  if negb (ok w1) then w1 else
  let w2 := upd_node g i set_started w1 in
  if c_sos c then sched_at (length T) T g i now w2 else w2.

(* nested_bindings.h schedule_sampled_input_consumers *)
Definition accepts_invalid (c : ncfg) : bool := (c_vmode c =? 1) && forallb (fun s => negb (i_req s)) (c_ins c).

Fixpoint sampled (T : tcfg) (child : nat) (now : Z) (bs : list bind) (w : world) : world :=
  match bs with
  | [] => w
  | b :: r =>
      let c := ncfg_at T child (b_node b) in
      let hit := match nth_error (c_ins c) (b_slot b) with
                 | Some s => i_active s && (v_valid (read_in now w s) || accepts_invalid c)
                 | None => false end in
      sampled T child now r (if hit then sched_at (length T) T child (b_node b) now w else w)
  end.

Definition sampled_if (b : bool) (T : tcfg) (child : nat) (now : Z) (bs : list bind) (w : world) : world :=
  if b then sampled T child now bs w else w.

(* single_nested_graph_propagate_schedule: the pull *)
Definition pull (T : tcfg) (g i child : nat) (w : world) : world :=
  let nx := g_nst (gat child w) in
  if nx =? MAX_DT then w else sched_at (length T) T g i nx w.

(* graph.cpp start_impl; [f] bounds the nesting depth *)
Definition seed_cache (s : gst) : gst :=
  g_set_nst (fold_left (fun acc sc => if (g_now s <=? sc) && (sc <? acc) then sc else acc) (g_slots s) MAX_DT) s.

Section START.
  Variable T : tcfg.
  Variable beh : behaviour.
  Variable start_child : nat -> Z -> world -> world.     (* child graph start, one level down *)

  Definition start_node (g i : nat) (w : world) : world :=
    if negb (ok w) then w else
    let c := ncfg_at T g i in
    if is_nested c then
      (* single_nested_graph_start / try_except_start: bind, start the child, sampled consumers, pull *)
      let now := now_of g w in
      let w1 := start_child (c_child c) now w in
      if negb (ok w1) then w1 else
      (* the boundary consumers are sampled only for a child that comes to life while the program runs;
         during whole-program start (the root graph is still starting) nothing is sampled *)
      let w2 := sampled_if (g_started (gat 0 w1)) T (c_child c) now (c_binds c) w1 in
      let w3 := pull T g i (c_child c) w2 in
      if negb (ok w3) then w3 else upd_node g i set_started w3
    else start_plain T beh g i w.

  Fixpoint start_nodes (g i : nat) (k : nat) (w : world) : world :=
    match k with
    | O => w
    | S k' => start_nodes g (S i) k' (start_node g i w)
    end.
End START.

Fixpoint start_graph (f : nat) (T : tcfg) (beh : behaviour) (g : nat) (t : Z) (w : world) : world :=
  match f with
  | O => set_err 9 w
  | S f' =>
      let w0 := upd_g g (g_set_now t) w in
      let w1 := start_nodes T beh (start_graph f' T beh) g 0 (length (gc_nodes (gcfg_at T g))) w0 in
      if negb (ok w1) then w1 else
      upd_g g (fun s => g_set_flags true (g_evaluating s) (g_failed s) (seed_cache s)) w1
  end.

(* ---- node.cpp evaluate_impl (plain nodes, with captures_errors for kind 3) ---- *)
Definition iv_line (v : inview) : line := [b2z (v_valid v); b2z (v_mod v); v_val v; v_lmt v].

(* the user part of an evaluation: header line, then the operations of user code *)
Definition run_user (T : tcfg) (beh : behaviour) (g i : nat) (w : world) : world :=
  let c := ncfg_at T g i in
  let n := node_at g i w in
  let now := now_of g w in
  let k := n_runs n in
  let ivs := read_inputs c now w in
  let hdr := [12; Z.of_nat g; Z.of_nat i; now; k] ++
             (if c_sched c then [b2z (is_scheduled_now now (n_sch n)); next_scheduled_time (n_sch n)] else [0; 0]) ++
             concat (map iv_line ivs) in
  do_ops T g i true 0 (beh g i k now ivs (n_sch n)) (emit hdr (upd_node g i inc_runs w)).

(* captures_errors: the exception is turned into one tick of the error output; the run continues *)
Definition capture (T : tcfg) (g i : nat) (now : Z) (w : world) : world :=
  if (c_kind (ncfg_at T g i) =? 3) && negb (ok w)
  then write_err T g i (w_err w) now (set_err 0 w)
  else w.

(* the scheduler section after user code: consume the fired events and re-arm *)
Definition rearm (T : tcfg) (g i : nat) (scheduled_now : bool) (now : Z) (w : world) : world :=
  if c_sched (ncfg_at T g i) then
    let s := n_sch (node_at g i w) in
    if scheduled_now then
      let '(s', push) := advance now s in
      opt_schedule T g i push (upd_node g i (set_sch s') w)
    else if is_scheduled s then sched_at (length T) T g i (next_scheduled_time s) w
    else w
  else w.

(* a kind-5 node: its evaluate returns false [c_pause run] times (one line 17 each) before the run completes;
   no validity gate, no scheduler *)
Definition eval_pauser (T : tcfg) (beh : behaviour) (g i : nat) (w : world) : world :=
  let n := node_at g i w in
  if negb (n_started n) then w else
  if n_paused n <? c_pause (ncfg_at T g i) (n_runs n) then
    set_err PAUSED (emit [17; Z.of_nat g; Z.of_nat i; now_of g w; n_paused n]
                         (upd_node g i (set_paused (n_paused n + 1)) w))
  else run_user T beh g i (upd_node g i (set_paused 0) w).

Definition eval_plain (T : tcfg) (beh : behaviour) (g i : nat) (w : world) : world :=
  let c := ncfg_at T g i in
  let n := node_at g i w in
  if negb (n_started n) then w else
  let now := now_of g w in
  let scheduled_now := c_sched c && is_scheduled_now now (n_sch n) in
  let do_eval := match c_ins c with [] => true | _ => ready c now w end in
  let w1 := if do_eval then capture T g i now (run_user T beh g i w) else w in
  if negb (ok w1) then w1 else rearm T g i scheduled_now now w1.

(* ---- graph.cpp evaluate_impl ---- *)
Section EVAL.
  Variable T : tcfg.
  Variable beh : behaviour.
  Variable eval_child : nat -> Z -> world -> world.      (* child graph evaluate, one level down *)

  (* the re-entering owner: while the child's evaluate returned false, evaluate it again (same time) *)
  Fixpoint reenter (n : nat) (c : nat) (now : Z) (w : world) : world :=
    match n with
    | O => w
    | S n' => if w_err w =? PAUSED then reenter n' c now (eval_child c now (set_err 0 w)) else w
    end.

  (* bind_output, re-run each cycle: at start the link could only be pointed at the child terminal's own
     (still unbound) forwarding endpoint when that terminal is itself a nested / try_except node; the first
     evaluation re-points it at the final output, which stamps the link modified (bind_forwarding_target) *)
  Definition relink (g i : nat) (w : world) : world :=
    let c := ncfg_at T g i in
    let tc := ncfg_at T (c_child c) (Z.to_nat (c_outn c)) in
    if (0 <=? c_outn c) && is_nested tc && (0 <=? c_outn tc) && negb (n_rebound (node_at g i w))
    then notify_link T (g, i) (now_of g w) (upd_node g i (set_link (now_of g w)) w) else w.

  (* try_except: the child's exception becomes one tick of the `exception` field; then the pull *)
  Definition caught (g i : nat) (now : Z) (w : world) : world :=
    if negb (ok w) then write_err T g i (w_err w) now (set_err 0 w) else w.
  Definition catch (g i : nat) (now : Z) (w : world) : world :=
    pull T g i (c_child (ncfg_at T g i)) (caught g i now w).

  (* single_nested_graph_evaluate / try_except_evaluate_impl *)
  Definition eval_nested (g i : nat) (w : world) : world :=
    let c := ncfg_at T g i in
    if negb (n_started (node_at g i w)) then w else
    let now := now_of g w in
    let w1 := eval_child (c_child c) now (relink g i w) in
    if c_kind c =? 1 then w1
    else if c_kind c =? 4 then reenter 64 (c_child c) now w1
    else if w_err w1 =? PAUSED then w1                    (* try_except: a pause is not an exception *)
    else catch g i now w1.

  Definition eval_node (g i : nat) (w : world) : world :=
    if is_nested (ncfg_at T g i) then eval_nested g i w
    else if c_kind (ncfg_at T g i) =? 5 then eval_pauser T beh g i w
    else eval_plain T beh g i w.

  (* the forward scan; the cursor sits on the node being looked at *)
  Fixpoint scan (g i : nat) (k : nat) (w : world) : world :=
    match k with
    | O => w
    | S k' =>
        if negb (ok w) then w else
        let w0 := upd_g g (g_set_cursor (Z.of_nat i)) w in
        let s := gat g w0 in
        let sc := slot_at i s in
        let w' :=
          if sc =? g_now s then eval_node g i (emit [11; Z.of_nat g; Z.of_nat i; g_now s] w0)
          else if g_now s <? sc then
            (if sc <? g_nst s then upd_g g (g_set_nst sc) w0 else w0)
          else w0 in
        if negb (ok w') then w' else scan g (S i) k' w'
    end.
End EVAL.

(* [rr] = the repaired resuming rule of commit "graph evaluate must not resume mid-cycle after a
   failed cycle": resuming := !evaluation_failed && cursor != 0 && cursor != invalid.
   [rr = false] is the rule before the repair (kept for the refutation in Props/C15.v). *)
Fixpoint eval_graph (f : nat) (T : tcfg) (beh : behaviour) (rr : bool) (g : nat) (t : Z) (w : world) : world :=
  match f with
  | O => set_err 9 w
  | S f' =>
      let s := gat g w in
      let resuming := (if rr then negb (g_failed s) else true)
                      && negb (g_cursor s =? 0) && negb (g_cursor s =? -1) in
      let w0 := upd_g g (fun s => g_set_flags (g_started s) true false (g_set_now t s)) w in
      let w1 := if resuming then w0
                else emit [10; Z.of_nat g; t] (upd_g g (fun s => g_set_cursor 0 (g_set_nst MAX_DT s)) w0) in
      let n := length (gc_nodes (gcfg_at T g)) in
      let st := Z.to_nat (g_cursor (gat g w1)) in
      let w2 := scan T beh (eval_graph f' T beh rr) g st (n - st) w1 in
      if negb (ok w2) then
        (* the exception leaves: evaluating cleared by the scope guard, cursor stays on the failing node
           (a pause leaves the same way, without the failed flag) *)
        upd_g g (fun s => g_set_flags (g_started s) false (negb (w_err w2 =? PAUSED)) s) w2
      else
        let w3 := upd_g g (g_set_cursor 0) w2 in
        let w4 := match gc_parent (gcfg_at T g) with
                  | None => w3
                  | Some (pg, pn) =>                                   (* propagate_nested_parent_schedule *)
                      let nx := g_nst (gat g w3) in
                      if nx <? MAX_DT then sched_at (length T) T pg pn nx w3 else w3
                  end in
        upd_g g (fun s => g_set_flags (g_started s) false (g_failed s) s) w4
  end.

(* ---- executor.cpp run_storage with advance_simulation (root = graph 0) ---- *)
Fixpoint run_loop (T : tcfg) (beh : behaviour) (rr : bool) (end_ : Z) (fuel : nat) (w : world) : world :=
  match fuel with
  | O => set_err 9 w
  | S f =>
      if negb (ok w) then w else
      let next := g_nst (gat 0 w) in
      if (next =? MAX_DT) || (end_ <=? next) then w else
      run_loop T beh rr end_ f (eval_graph (S (length T)) T beh rr 0 next w)
  end.

Definition init_world (T : tcfg) : world :=
  mkW (map (fun gc => init_g (length (gc_nodes gc))) T) [] 0.

Definition run_sim (T : tcfg) (beh : behaviour) (rr : bool) (start end_ : Z) (fuel : nat) : world :=
  let w := start_graph (S (length T)) T beh 0 start (init_world T) in
  run_loop T beh rr end_ fuel w.

(* =====================  wire format  ===================== *)

Fixpoint parse_ins (n : nat) (l : list Z) : list inspec :=
  match n, l with
  | S k, a :: p :: b :: c :: r => mkIn a p (z2b b) (z2b c) None None :: parse_ins k r
  | _, _ => []
  end.

Fixpoint parse_binds (n : nat) (l : list Z) : list bind :=
  match n, l with
  | S k, a :: b :: c :: r => mkB (Z.to_nat a) (Z.to_nat b) (Z.to_nat c) :: parse_binds k r
  | _, _ => []
  end.

(* the 5-line of node (g,i), if any: child outn binds *)
Definition nest_line (w : wire) (g i : Z) : option (Z * Z * list bind) :=
  match find (fun l => match l with 5 :: g' :: i' :: _ => (g' =? g) && (i' =? i) | _ => false end) w with
  | Some (_ :: _ :: _ :: ch :: outn :: nb :: r) => Some (ch, outn, parse_binds (Z.to_nat nb) r)
  | _ => None
  end.

(* pause plan lines: 9 g i k cnt *)
Definition pause_of (w : wire) (g i k : Z) : Z :=
  match find (fun l => match l with 9 :: g' :: i' :: k' :: _ => (g' =? g) && (i' =? i) && (k' =? k) | _ => false end) w with
  | Some (_ :: _ :: _ :: _ :: c :: _) => c
  | _ => 0
  end.

Definition parse_node (w : wire) (g : Z) (l : line) : option ncfg :=
  match l with
  | 2 :: g' :: i :: kind :: us :: sos :: ho :: nin :: vm :: r =>
      if g' =? g then
        let ins := parse_ins (Z.to_nat nin) r in
        match nest_line w g i with
        | Some (ch, outn, bs) => Some (mkCfg kind (z2b us) (z2b sos) (z2b ho) vm ins (Z.to_nat ch) outn bs (pause_of w g i))
        | None => Some (mkCfg kind (z2b us) (z2b sos) (z2b ho) vm ins 0 (-1) [] (pause_of w g i))
        end
      else None
  | _ => None
  end.

Fixpoint parse_nodes (w : wire) (g : Z) (ls : wire) : list ncfg :=
  match ls with
  | [] => []
  | l :: r => match parse_node w g l with Some c => c :: parse_nodes w g r | None => parse_nodes w g r end
  end.

Definition parent_of (w : wire) (g : Z) : option (nat * nat) :=
  match find (fun l => match l with 5 :: _ :: _ :: ch :: _ => (ch =? g) && (0 <? g) | _ => false end) w with
  | Some (_ :: pg :: pn :: _) => Some (Z.to_nat pg, Z.to_nat pn)
  | _ => None
  end.

Definition graph_count (w : wire) : nat :=
  S (Z.to_nat (fold_left (fun a l => match l with 2 :: g :: _ => Z.max a g | _ => a end) w 0)).

Definition parse_tree0 (w : wire) : tcfg :=
  map (fun g => mkGC (parent_of w (Z.of_nat g)) (parse_nodes w (Z.of_nat g) w)) (seq 0 (graph_count w)).

(* forwarding outputs: a nested node's output, and a try_except node's [out] field, are the
   child's terminal output *)
Fixpoint res_out (f : nat) (T : tcfg) (g n : nat) (port : Z) : endpoint :=
  match f with
  | O => (g, n, port)
  | S f' =>
      let c := ncfg_at T g n in
      if is_nested c && (port =? 0) && (0 <=? c_outn c)
      then res_out f' T (c_child c) (Z.to_nat (c_outn c)) 0
      else (g, n, port)
  end.

(* bind_inputs: a bound child input reads whatever the enclosing node's own input slot reads *)
Fixpoint res_in (f : nat) (T : tcfg) (g n slot : nat) : option (endpoint * option (nat * nat)) :=
  match f with
  | O => None
  | S f' =>
      match nth_error (c_ins (ncfg_at T g n)) slot with
      | None => None
      | Some s =>
          if 0 <=? i_src s then
            let x := ncfg_at T g (Z.to_nat (i_src s)) in
            Some (res_out (length T) T g (Z.to_nat (i_src s)) (i_port s),
                  if is_nested x && (i_port s =? 0) && (0 <=? c_outn x) then Some (g, Z.to_nat (i_src s)) else None)
          else match gc_parent (gcfg_at T g) with
               | None => None
               | Some (pg, pn) =>
                   match find (fun b => (b_node b =? n)%nat && (b_slot b =? slot)%nat) (c_binds (ncfg_at T pg pn)) with
                   | Some b => res_in f' T pg pn (b_outer b)
                   | None => None
                   end
               end
      end
  end.

Definition resolve_cfg (T : tcfg) : tcfg :=
  map (fun gg => let '(g, gc) := gg in
         mkGC (gc_parent gc)
              (map (fun ic => let '(i, c) := ic in
                      mkCfg (c_kind c) (c_sched c) (c_sos c) (c_out c) (c_vmode c)
                            (map (fun ss => let '(sl, s) := ss in
                                    let r := res_in (S (length T)) T g i sl in
                                    mkIn (i_src s) (i_port s) (i_active s) (i_req s)
                                         (match r with Some (e, _) => Some e | None => None end)
                                         (match r with Some (_, l) => l | None => None end))
                                 (combine (seq 0 (length (c_ins c))) (c_ins c)))
                            (c_child c) (c_outn c) (c_binds c) (c_pause c))
                   (combine (seq 0 (length (gc_nodes gc))) (gc_nodes gc))))
      (combine (seq 0 (length T)) T).

Definition decode_op (code a b : Z) : op :=
  if code =? 1 then OSchedule a b else
  if code =? 2 then OUnschedTag b else
  if code =? 3 then OUnschedFirst else
  if code =? 4 then OPopTag b else
  if code =? 5 then OReset else
  if code =? 6 then OEmit a else
  if code =? 7 then ORaw a else
  if code =? 8 then OThrow (a + 1000000 * b) else   (* b = total length of the long message form, 0 = short *)
  if code =? 9 then OPoke a b else
  if code =? 11 then OThrowForeign else
  if code =? 12 then OPoke2 a b else ONop.

(* script lines: 3 g node k code a b *)
Definition script_ops (w : wire) (g i : nat) (k : Z) : list op :=
  flat_map (fun l => match l with
                     | 3 :: g' :: n :: k' :: code :: a :: b :: _ =>
                         if (g' =? Z.of_nat g) && (n =? Z.of_nat i) && (k' =? k) then [decode_op code a b] else []
                     | _ => [] end) w.

Definition has_script (w : wire) (g i : nat) (k : Z) : bool :=
  existsb (fun l => match l with
                    | 3 :: g' :: n :: k' :: _ => (g' =? Z.of_nat g) && (n =? Z.of_nat i) && (k' =? k)
                    | _ => false end) w.

Definition script_beh (w : wire) : behaviour :=
  fun g i k _ _ _ => if has_script w g i k then script_ops w g i k
                     else if 0 <=? k then script_ops w g i (-2) else [].

Definition window (w : wire) : Z * Z :=
  match find (fun l => match l with 1 :: _ => true | _ => false end) w with
  | Some (_ :: s :: e :: _) => (s, e)
  | _ => (1, 10)
  end.

Definition port_line (code : Z) (g i : nat) (v : inview) : line :=
  [code; Z.of_nat g; Z.of_nat i; b2z (v_valid v); v_val v; v_lmt v].

Definition node_final (T : tcfg) (w : world) (g : nat) (ic : nat * ncfg) : wire :=
  let '(i, c) := ic in
  let outv := read_port MIN_DT w (Some (res_out (length T) T g i 0))
                        (if is_nested c && (0 <=? c_outn c) then Some (g, i) else None) in
  let errv := read_port MIN_DT w (Some (g, i, 1)) None in
  (if (c_kind c =? 2) then [port_line 15 g i outv; port_line 16 g i errv]
   else if c_out c then [port_line 15 g i outv] else [])
  ++ (if c_kind c =? 3 then [port_line 16 g i errv] else []).

Fixpoint final_lines (f : nat) (T : tcfg) (w : world) (g : nat) : wire :=
  match f with
  | O => []
  | S f' =>
      let ns := combine (seq 0 (length (gc_nodes (gcfg_at T g)))) (gc_nodes (gcfg_at T g)) in
      flat_map (node_final T w g) ns
      ++ flat_map (fun ic => if is_nested (snd ic) && g_started (gat (c_child (snd ic)) w)
                             then final_lines f' T w (c_child (snd ic)) else []) ns
  end.

Definition decode (w : wire) : tcfg := resolve_cfg (parse_tree0 w).

Definition run_nest_rule (rr : bool) (w : wire) : wire :=
  let T := decode w in
  let '(s, e) := window w in
  let r := run_sim T (script_beh w) rr s e (Z.to_nat (e - s) + 1) in
  rev (w_log r) ++ (if ok r then [] else [[19; w_err r]]) ++ final_lines (S (length T)) T r 0.

(* paired runs (line "6 1"): the same program with every throw turned into a no-op *)
Definition no_throws (w : wire) : wire :=
  map (fun l => match l with
                | 3 :: g :: n :: k :: 8 :: r => 3 :: g :: n :: k :: 0 :: r
                | 3 :: g :: n :: k :: 11 :: r => 3 :: g :: n :: k :: 0 :: r
                | _ => l end) w.

Definition is_paired (w : wire) : bool :=
  existsb (fun l => match l with 6 :: p :: _ => negb (p =? 0) | _ => false end) w.

Definition run_nest_paired (rr : bool) (w : wire) : wire :=
  if is_paired w then run_nest_rule rr w ++ [[20]] ++ run_nest_rule rr (no_throws w)
  else run_nest_rule rr w.

(* the tree as it stands: repaired rule *)
Definition run_nest (w : wire) : wire := run_nest_paired true w.
