(* Intern.v — MIRROR model of the wiring layer that feeds the ranking pass:
   src/hgraph/types/graph_wiring.cpp
     InstanceKey / InputKey / SourceKey, make_key, source_key_for          (l.24-185)   -> key, make_key, src
     Wiring::add_node (structural interning; output-less nodes bypass it)  (l.1574-1640) -> wire_node
     Wiring::add_unique_node (never consults the table)                    (l.1656-1674) -> wire_node with nd_uniq
     Wiring::add_rank_dependency (self -> throw; de-duplicated)            (l.1690-1704) -> StDep
     ErasedDelayedBindingWiringPort (placeholder, bind once)               (l.1400-1470) -> StPlace / StBind
     build_ranked_graph: collect_producers, explicit dependencies          (l.808-838)   -> rank_edges_of
     emit_edges (peered / delayed / null / structural)                     (l.598-690)   -> emit_src
   Executable definitions only; proofs are in InternFacts.v.

   A *program* is a list of statements; a statement is identified by its position (its label).
   An *order* is the sequence of labels in which the statements are executed against the Wiring
   object.  Node statements refer to the ports returned by other statements by label. *)
Require Import Base Rank.
From Coq Require Import Arith.

(* ---------------------------------------------------------------- sources, inputs, definitions *)
(* WiringPortRef as far as the key and the rank pass look at it.  In a statement the number in
   SPeer is the label of the producing statement; in an instance it is the instance id. *)
Inductive src :=
| SPeer (n : nat) (path : list nat) (okind : nat)
     (* peered: producing node, path inside the chosen output root; okind = GraphEdgeSourceKind:
        0 the ordinary output, 1 the hidden error output (error_output / exception_time_series),
        2 the hidden recordable-state output *)
| SDelay (ph : nat) (path : list nat)    (* delayed_binding placeholder (identity of its state), path *)
| SNull
| SStruct (cs : list src).               (* structural (TSL/TSB composed at the call site) *)

(* WiringInputRef; [in_passive] is the Passive ArgTag carried by the source port (`passive(port)`):
   Wiring::add_node removes such a slot from the builder's active list and - since
   hooks/fix_passive_marker_in_key.patch - records it in the InputKey *)
Record input := { in_src : src; in_tpath : list nat; in_rank : bool; in_passive : bool }.

(* what the caller passes besides the inputs: definition identity (std::type_index), the resolved
   schema pointers that are not implied by the inputs (first entry: output schema, 0 = none),
   the scalar Value (None = no value), add_unique_node or add_node, and whether the builder's
   node_kind is PushSource *)
Record ndef := { nd_def : nat; nd_sch : list Z; nd_scal : option (list Z); nd_uniq : bool; nd_push : bool }.

Inductive stmt :=
| StNode (d : ndef) (ins : list input)      (* w.add_node / w.add_unique_node *)
| StPlace                                   (* delayed_binding placeholder created *)
| StBind (ph : nat) (l : nat) (path : list nat)   (* placeholder ph bound to the port (l, path) *)
| StDep (a b : nat)                         (* w.add_rank_dependency(node a, depends_on b) *)
| StAnchor (path l : nat)                   (* w.register_service_rank_anchor(path, node l) *)
| StClient (path l : nat) (receive : bool). (* w.register_service_client_rank(path, kind, node l, receive) *)

(* ---------------------------------------------------------------- decidable equality of keys *)
Fixpoint list_eqb {A} (eqb : A -> A -> bool) (a b : list A) : bool :=
  match a, b with
  | [], [] => true
  | x :: r, y :: s => eqb x y && list_eqb eqb r s
  | _, _ => false
  end.

Fixpoint src_eqb (a b : src) : bool :=
  match a, b with
  | SPeer n p k, SPeer n' p' k' => (n =? n')%nat && list_eqb Nat.eqb p p' && (k =? k')%nat
  | SDelay h p, SDelay h' p' => (h =? h')%nat && list_eqb Nat.eqb p p'
  | SNull, SNull => true
  | SStruct cs, SStruct cs' =>
      (fix go (xs ys : list src) : bool :=
         match xs, ys with
         | [], [] => true
         | x :: xr, y :: yr => src_eqb x y && go xr yr
         | _, _ => false
         end) cs cs'
  | _, _ => false
  end.

Definition input_eqb (a b : input) : bool :=
  src_eqb (in_src a) (in_src b) && list_eqb Nat.eqb (in_tpath a) (in_tpath b) && Bool.eqb (in_rank a) (in_rank b)
  && Bool.eqb (in_passive a) (in_passive b).

Definition optl_eqb (a b : option (list Z)) : bool :=
  match a, b with
  | None, None => true
  | Some x, Some y => list_eqb Z.eqb x y
  | _, _ => false
  end.

(* InstanceKey: (def, schema, inputs, scalars) *)
Definition key := (nat * list Z * list input * option (list Z))%type.

Definition key_eqb (a b : key) : bool :=
  match a, b with
  | (d, s, i, c), (d', s', i', c') =>
      (d =? d')%nat && list_eqb Z.eqb s s' && list_eqb input_eqb i i' && optl_eqb c c'
  end.

(* make_key: an empty target path means "the slot with my index" *)
Fixpoint norm_from (k : nat) (ins : list input) : list input :=
  match ins with
  | [] => []
  | i :: r =>
      {| in_src := in_src i; in_tpath := (match in_tpath i with [] => [k] | p => p end); in_rank := in_rank i;
         in_passive := in_passive i |}
      :: norm_from (S k) r
  end.
Definition norm_inputs (ins : list input) : list input := norm_from 0 ins.

(* The InputKey list of the code (REPAIRED tree, hooks/fix_passive_marker_in_key.patch): source key,
   normalised target path, rank flag and the passive marker of the slot.  [clear_passive] / the
   [_old] definitions keep the rule of the unrepaired code (marker not in the key) as a named variant. *)
Definition key_inputs (ins : list input) : list input := norm_inputs ins.

Definition clear_passive (i : input) : input :=
  {| in_src := in_src i; in_tpath := in_tpath i; in_rank := in_rank i; in_passive := false |}.
Definition key_inputs_old (ins : list input) : list input := map clear_passive (norm_inputs ins).

Definition make_key (d : ndef) (ins : list input) : key := (nd_def d, nd_sch d, key_inputs ins, nd_scal d).
Definition make_key_old (d : ndef) (ins : list input) : key := (nd_def d, nd_sch d, key_inputs_old ins, nd_scal d).

(* `const bool interns = schema.output != nullptr` *)
Definition has_output (d : ndef) : bool := negb (hdz (nd_sch d) =? 0).
Definition interns (d : ndef) : bool := has_output d && negb (nd_uniq d).

(* ---------------------------------------------------------------- the Wiring object *)
Record inst := { i_label : nat; i_def : ndef; i_ins : list input }.

Record wst := {
  w_insts : list inst;                        (* impl_->instances (a deque: addresses = positions are stable) *)
  w_tab : list (key * nat);                   (* impl_->interned *)
  w_env : list (nat * nat);                   (* ports held by the caller: label -> instance *)
  w_phs : list nat;                           (* placeholders created *)
  w_binds : list (nat * (nat * list nat));    (* placeholder -> (instance, path) *)
  w_deps : list (nat * nat)                   (* (node, depends_on), in the order added, de-duplicated *)
}.

Definition w0 : wst := {| w_insts := []; w_tab := []; w_env := []; w_phs := []; w_binds := []; w_deps := [] |}.

Fixpoint alookup {B} (k : nat) (l : list (nat * B)) : option B :=
  match l with [] => None | (k', v) :: r => if (k' =? k)%nat then Some v else alookup k r end.

Fixpoint tab_find (k : key) (t : list (key * nat)) : option nat :=
  match t with [] => None | (k', v) :: r => if key_eqb k' k then Some v else tab_find k r end.

(* the caller turns labels into the ports it holds; None = the order is not admissible *)
Fixpoint resolve (env : list (nat * nat)) (phs : list nat) (s : src) : option src :=
  match s with
  | SPeer l p k => match alookup l env with Some i => Some (SPeer i p k) | None => None end
  | SDelay h p => if memb h phs then Some (SDelay h p) else None
  | SNull => Some SNull
  | SStruct cs =>
      match (fix go (xs : list src) : option (list src) :=
               match xs with
               | [] => Some []
               | x :: r => match resolve env phs x, go r with Some a, Some b => Some (a :: b) | _, _ => None end
               end) cs with
      | Some cs' => Some (SStruct cs')
      | None => None
      end
  end.

Fixpoint resolve_inputs (env : list (nat * nat)) (phs : list nat) (ins : list input) : option (list input) :=
  match ins with
  | [] => Some []
  | i :: r =>
      match resolve env phs (in_src i), resolve_inputs env phs r with
      | Some s, Some r' => Some ({| in_src := s; in_tpath := in_tpath i; in_rank := in_rank i; in_passive := in_passive i |} :: r')
      | _, _ => None
      end
  end.

(* error codes shared with the driver *)
Definition E_CYCLE : Z := 1.
Definition E_PUSHDEP : Z := 2.
Definition E_UNBOUND : Z := 3.
Definition E_SELFDEP : Z := 4.
Definition E_INADM : Z := 6.
Definition E_REBIND : Z := 8.
Definition E_ALLPASSIVE : Z := 9.
Definition E_ANCHOR : Z := 10.

Inductive res (A : Type) := Ok (a : A) | Err (code : Z).
Arguments Ok {A} a.
Arguments Err {A} code.

Definition pair_eqb (a b : nat * nat) : bool := (fst a =? fst b)%nat && (snd a =? snd b)%nat.

(* [sharing = true] is the code; [sharing = false] is the reference wiring in which every statement
   gets its own node (used only to STATE that sharing is unobservable) *)
(* with_passive_inputs: "passive would deactivate every input of the node" (thrown before the lookup) *)
Definition all_passive (ins : list input) : bool :=
  existsb in_passive ins && existsb in_rank ins && negb (existsb (fun i => in_rank i && negb (in_passive i)) ins).

(* add_unique_node never looks at the Passive tag: for such a node the markers are simply dropped *)
Definition eff_inputs (d : ndef) (rins : list input) : list input :=
  if nd_uniq d then map clear_passive rins else rins.

Definition wire_node_gen (mk : ndef -> list input -> key) (sharing : bool) (w : wst) (l : nat) (d : ndef) (ins : list input) : res wst :=
  match resolve_inputs (w_env w) (w_phs w) ins with
  | None => Err E_INADM
  | Some rins0 =>
      let rins := eff_inputs d rins0 in
      if all_passive rins then Err E_ALLPASSIVE else
      let k := mk d rins in
      match (if sharing && interns d then tab_find k (w_tab w) else None) with
      | Some i =>
          Ok {| w_insts := w_insts w; w_tab := w_tab w; w_env := (l, i) :: w_env w;
                w_phs := w_phs w; w_binds := w_binds w; w_deps := w_deps w |}
      | None =>
          let i := length (w_insts w) in
          Ok {| w_insts := w_insts w ++ [{| i_label := l; i_def := d; i_ins := rins |}];
                w_tab := (if interns d then (k, i) :: w_tab w else w_tab w);
                w_env := (l, i) :: w_env w;
                w_phs := w_phs w; w_binds := w_binds w; w_deps := w_deps w |}
      end
  end.

Definition wire_node := wire_node_gen make_key.

Definition wire_stmt (sharing : bool) (w : wst) (l : nat) (s : stmt) : res wst :=
  match s with
  | StNode d ins => wire_node sharing w l d ins
  | StPlace =>
      Ok {| w_insts := w_insts w; w_tab := w_tab w; w_env := w_env w;
            w_phs := l :: w_phs w; w_binds := w_binds w; w_deps := w_deps w |}
  | StBind h l' p =>
      if memb h (w_phs w) then
        match alookup l' (w_env w) with
        | None => Err E_INADM
        | Some i =>
            match alookup h (w_binds w) with
            | Some _ => Err E_REBIND
            | None => Ok {| w_insts := w_insts w; w_tab := w_tab w; w_env := w_env w;
                            w_phs := w_phs w; w_binds := (h, (i, p)) :: w_binds w; w_deps := w_deps w |}
            end
        end
      else Err E_INADM
  | StDep a b =>
      match alookup a (w_env w), alookup b (w_env w) with
      | Some ia, Some ib =>
          if (ia =? ib)%nat then Err E_SELFDEP
          else if existsb (pair_eqb (ia, ib)) (w_deps w) then Ok w
          else Ok {| w_insts := w_insts w; w_tab := w_tab w; w_env := w_env w;
                     w_phs := w_phs w; w_binds := w_binds w; w_deps := w_deps w ++ [(ia, ib)] |}
      | _, _ => Err E_INADM
      end
  (* the service rank contract only records (path, node) pairs; they become rank dependencies at finish
     ([collect_svc], [apply_svc] below).  Here: the caller must already hold the port. *)
  | StAnchor _ l' => match alookup l' (w_env w) with Some _ => Ok w | None => Err E_INADM end
  | StClient _ l' _ => match alookup l' (w_env w) with Some _ => Ok w | None => Err E_INADM end
  end.

Fixpoint wire_from (sharing : bool) (prog : list stmt) (order : list nat) (w : wst) : res wst :=
  match order with
  | [] => Ok w
  | l :: r =>
      match nth_error prog l with
      | None => Err E_INADM
      | Some s => match wire_stmt sharing w l s with Ok w' => wire_from sharing prog r w' | Err c => Err c end
      end
  end.

Definition wire_prog (sharing : bool) (prog : list stmt) (order : list nat) : res wst := wire_from sharing prog order w0.

(* the OLD rule (unrepaired code): the same wiring with the passive marker left out of the key *)
Definition wire_stmt_old (sharing : bool) (w : wst) (l : nat) (s : stmt) : res wst :=
  match s with
  | StNode d ins => wire_node_gen make_key_old sharing w l d ins
  | _ => wire_stmt sharing w l s
  end.
Fixpoint wire_from_old (sharing : bool) (prog : list stmt) (order : list nat) (w : wst) : res wst :=
  match order with
  | [] => Ok w
  | l :: r =>
      match nth_error prog l with
      | None => Err E_INADM
      | Some s => match wire_stmt_old sharing w l s with Ok w' => wire_from_old sharing prog r w' | Err c => Err c end
      end
  end.
Definition wire_prog_old (sharing : bool) (prog : list stmt) (order : list nat) : res wst := wire_from_old sharing prog order w0.

(* ---------------------------------------------------------------- finish: rank edges, compiled edges *)
(* collect_producers; None = an unbound delayed_binding *)
Fixpoint producers (binds : list (nat * (nat * list nat))) (s : src) : option (list nat) :=
  match s with
  | SPeer i _ _ => Some [i]     (* whatever output root is read: the producer must have had its turn *)
  | SDelay h _ => match alookup h binds with Some (i, _) => Some [i] | None => None end
  | SNull => Some []
  | SStruct cs =>
      (fix go (xs : list src) : option (list nat) :=
         match xs with
         | [] => Some []
         | x :: r => match producers binds x, go r with Some a, Some b => Some (a ++ b) | _, _ => None end
         end) cs
  end.

Fixpoint input_edges (binds : list (nat * (nat * list nat))) (c : nat) (ins : list input) : option (list (nat * nat)) :=
  match ins with
  | [] => Some []
  | i :: r =>
      if in_rank i then
        match producers binds (in_src i), input_edges binds c r with
        | Some ps, Some es => Some (map (fun p => (p, c)) ps ++ es)
        | _, _ => None
        end
      else input_edges binds c r
  end.

Definition dep_edges (deps : list (nat * nat)) (c : nat) : list (nat * nat) :=
  map (fun d => (snd d, c)) (filter (fun d => fst d =? c)%nat deps).

Fixpoint rank_edges_from (w : wst) (c : nat) (insts : list inst) : option (list (nat * nat)) :=
  match insts with
  | [] => Some []
  | it :: r =>
      match input_edges (w_binds w) c (i_ins it), rank_edges_from w (S c) r with
      | Some a, Some b => Some (a ++ dep_edges (w_deps w) c ++ b)
      | _, _ => None
      end
  end.

Definition rgraph_of (w : wst) : option rgraph :=
  match rank_edges_from w 0 (w_insts w) with
  | None => None
  | Some es => Some {| rg_n := length (w_insts w); rg_push := map (fun it => nd_push (i_def it)) (w_insts w); rg_edges := es |}
  end.

(* a compiled edge: (source instance, source root kind :: source path, target instance, target path) *)
Definition cedge := (nat * list nat * nat * list nat)%type.

Fixpoint emit_src (binds : list (nat * (nat * list nat))) (t : nat) (tp : list nat) (s : src) : option (list cedge) :=
  match s with
  | SPeer i p k => Some [(i, k :: p, t, tp)]
  | SDelay h p => match alookup h binds with Some (i, p0) => Some [(i, O :: p0 ++ p, t, tp)] | None => None end
  | SNull => Some []
  | SStruct cs =>
      (fix go (k : nat) (xs : list src) : option (list cedge) :=
         match xs with
         | [] => Some []
         | x :: r => match emit_src binds t (tp ++ [k]) x, go (S k) r with Some a, Some b => Some (a ++ b) | _, _ => None end
         end) 0%nat cs
  end.

Fixpoint emit_inputs (binds : list (nat * (nat * list nat))) (t : nat) (ins : list input) : option (list cedge) :=
  match ins with
  | [] => Some []
  | i :: r =>
      match emit_src binds t (in_tpath i) (in_src i), emit_inputs binds t r with
      | Some a, Some b => Some (a ++ b)
      | _, _ => None
      end
  end.

Fixpoint emit_from (w : wst) (c : nat) (insts : list inst) : option (list cedge) :=
  match insts with
  | [] => Some []
  | it :: r =>
      match emit_inputs (w_binds w) c (norm_inputs (i_ins it)), emit_from w (S c) r with
      | Some a, Some b => Some (a ++ b)
      | _, _ => None
      end
  end.

(* the active input slots of an instance as the driver's native nodes declare them: the rank
   inputs, minus the slots whose source port carried the Passive tag when the INSTANCE was created
   (NodeBuilder::with_passive_inputs in Wiring::add_node) *)
Fixpoint active_from (k : nat) (ins : list input) : list nat :=
  match ins with
  | [] => []
  | i :: r => (if in_rank i && negb (in_passive i) then [k] else []) ++ active_from (S k) r
  end.
Definition active_slots (it : inst) : list nat := active_from 0 (i_ins it).

(* Error capture.  Reading a node's hidden error output (exception_time_series(port)) first calls
   Wiring::activate_error_capture on the producing instance: its builder is amended IN PLACE (it gains an
   error output and runs under try/catch); the instance keeps its position, its inputs and - on the
   unchanged tree - its entry in the intern table under the key it was inserted with, so a later duplicate
   `add_node` (whose key comes from a fresh, un-captured builder) still finds and shares it.  Nothing in
   [wst] changes; which instances are captured can be read off the wired inputs. *)
Fixpoint err_refs (s : src) : list nat :=
  match s with
  | SPeer n _ k => if (k =? 1)%nat then [n] else []
  | SStruct cs => flat_map err_refs cs
  | _ => []
  end.

Definition captured (w : wst) (i : nat) : bool :=
  existsb (fun it => existsb (fun inp => memb i (err_refs (in_src inp))) (i_ins it)) (w_insts w).

Inductive outcome := Built (w : wst) (g : rgraph) (o : list nat) (es : list cedge) | Rejected (code : Z).

(* ---------------------------------------------------------------- the service / adaptor rank contract *)
(* Wiring::register_service_rank_anchor (one anchor node per path; a different node for the same path
   throws), Wiring::register_service_client_rank (a list of (path, node, receive), NOT de-duplicated) and
   Wiring::apply_service_rank_dependencies, run by finish before ranking: for every client in registration
   order whose path has an anchor other than the client itself,
       receive  -> add_rank_dependency(client, anchor)     (the client reads what the anchor hands over)
       send     -> add_rank_dependency(anchor, client)     (the anchor reads what the client hands over).
   The registrations are a function of the statements executed and of the ports the caller holds, so they
   are collected from (program, order, final environment).  (An anchor conflict is therefore reported after
   every other statement-time refusal of the same run; the code raises it at its statement.) *)
Record svc := { s_anchors : list (nat * nat); s_clients : list (nat * nat * bool) }.
Definition svc0 : svc := {| s_anchors := []; s_clients := [] |}.

Fixpoint collect_svc (prog : list stmt) (order : list nat) (env : list (nat * nat)) (s : svc) : res svc :=
  match order with
  | [] => Ok s
  | l :: r =>
      match nth_error prog l with
      | Some (StAnchor p l') =>
          match alookup l' env with
          | None => Err E_INADM
          | Some i =>
              match alookup p (s_anchors s) with
              | Some j => if (i =? j)%nat then collect_svc prog r env s else Err E_ANCHOR
              | None => collect_svc prog r env {| s_anchors := s_anchors s ++ [(p, i)]; s_clients := s_clients s |}
              end
          end
      | Some (StClient p l' rc) =>
          match alookup l' env with
          | None => Err E_INADM
          | Some i => collect_svc prog r env {| s_anchors := s_anchors s; s_clients := s_clients s ++ [(p, i, rc)] |}
          end
      | _ => collect_svc prog r env s
      end
  end.

Definition add_dep (deps : list (nat * nat)) (pr : nat * nat) : list (nat * nat) :=
  if existsb (pair_eqb pr) deps then deps else deps ++ [pr].

Fixpoint apply_svc (anchors : list (nat * nat)) (clients : list (nat * nat * bool)) (deps : list (nat * nat)) : list (nat * nat) :=
  match clients with
  | [] => deps
  | (p, c, rc) :: r =>
      match alookup p anchors with
      | None => apply_svc anchors r deps
      | Some a =>
          if (a =? c)%nat then apply_svc anchors r deps
          else apply_svc anchors r (add_dep deps (if rc then (c, a) else (a, c)))
      end
  end.

Definition finalize (w : wst) (s : svc) : wst :=
  {| w_insts := w_insts w; w_tab := w_tab w; w_env := w_env w; w_phs := w_phs w; w_binds := w_binds w;
     w_deps := apply_svc (s_anchors s) (s_clients s) (w_deps w) |}.

(* Wiring::finish on a wired state (exceptions in the order the code can raise them) *)
Definition finish (w : wst) : outcome :=
  match rgraph_of w with
  | None => Rejected E_UNBOUND
  | Some g =>
      match kahn g with
      | KPushDep => Rejected E_PUSHDEP
      | KCycle => Rejected E_CYCLE
      | KOk o =>
          match emit_from w 0 (w_insts w) with
          | None => Rejected E_UNBOUND
          | Some es => Built w g o es
          end
      end
  end.

Definition compile (prog : list stmt) (order : list nat) : outcome :=
  match wire_prog true prog order with
  | Err c => Rejected c
  | Ok w =>
      match collect_svc prog order (w_env w) svc0 with
      | Err c => Rejected c
      | Ok s => finish (finalize w s)
      end
  end.

(* ---------------------------------------------------------------- dataflow unfolding (specification side) *)
(* The dataflow a node computes from: its definition, resolved types, scalars, and - recursively -
   what feeds each input.  Nodes that are their own allocation site (add_unique_node, sinks) carry
   the label of the statement that made them.  [TCut] marks the depth bound. *)
Inductive tree :=
| TCut
| TUnbound
| TNull
| TNode (site : option nat) (def : nat) (sch : list Z) (scal : option (list Z)) (ins : list tree)
| TIn (tpath : list nat) (rank : bool) (passive : bool) (s : tree)
| TPeer (okind : nat) (path : list nat) (t : tree)
| TStruct (cs : list tree).

Definition site_of (d : ndef) (l : nat) : option nat := if interns d then None else Some l.

Fixpoint unf_src (node : nat -> tree) (bind : nat -> option (nat * list nat)) (s : src) : tree :=
  match s with
  | SPeer n p k => TPeer k p (node n)
  | SDelay h p => match bind h with Some (n, p0) => TPeer O (p0 ++ p) (node n) | None => TUnbound end
  | SNull => TNull
  | SStruct cs => TStruct (map (unf_src node bind) cs)
  end.

Definition unf_inputs (node : nat -> tree) (bind : nat -> option (nat * list nat)) (ins : list input) : list tree :=
  map (fun i => TIn (in_tpath i) (in_rank i) (in_passive i) (unf_src node bind (in_src i))) (norm_inputs ins).

(* unfolding of instance i of a wired graph *)
Fixpoint gunf (w : wst) (fuel : nat) (i : nat) : tree :=
  match fuel with
  | O => TCut
  | S f =>
      match nth_error (w_insts w) i with
      | None => TCut
      | Some it =>
          TNode (site_of (i_def it) (i_label it)) (nd_def (i_def it)) (nd_sch (i_def it)) (nd_scal (i_def it))
                (unf_inputs (gunf w f) (fun h => alookup h (w_binds w)) (i_ins it))
      end
  end.

(* unfolding of statement l of a program: no Wiring object, no order, no interning *)
Fixpoint bind_of (prog : list stmt) (h : nat) : option (nat * list nat) :=
  match prog with
  | [] => None
  | StBind h' l p :: r => if (h' =? h)%nat then Some (l, p) else bind_of r h
  | _ :: r => bind_of r h
  end.

Fixpoint punf (prog : list stmt) (fuel : nat) (l : nat) : tree :=
  match fuel with
  | O => TCut
  | S f =>
      match nth_error prog l with
      | Some (StNode d ins) =>
          TNode (site_of d l) (nd_def d) (nd_sch d) (nd_scal d) (unf_inputs (punf prog f) (bind_of prog) (eff_inputs d ins))
      | _ => TCut
      end
  end.
