(* RTLoop.v — mirror model of the real-time run loop of
   src/hgraph/runtime/executor.cpp: run_storage (instantiated with
   RealTimeExecutorStorage), advance_realtime, realtime_request_stop_impl,
   realtime_mark_push_update_pending_impl, and of the wall-clock branch of
   NodeScheduler::schedule (include/hgraph/runtime/node_scheduler.h).

   It is a labelled transition system.  The loop thread's program counter is
   [phase]; every label is one atomic action: a critical section of the mutex,
   a condition-variable operation, a clock reading, a lock-free flag test.
   The adversary chooses the labels: every clock reading (any non-decreasing
   sequence), where a producer's / stopper's critical section and its notify
   land, when a wait slice times out (a spurious wake-up is absorbed by the
   predicate overload of wait_for and is therefore not a step), and what the
   graph asks for during an evaluation (the graph is abstract: a set of pending
   wake-up times; evaluating at t consumes t and may add later times).

   The transition relation is the executable partial function [step]; a run is
   a label list on which [exec] is defined.  Labels carry the values the code
   produced at that action (the cycle time, the time a request was entered
   under), so [step] is at the same time the acceptor of recorded histories.

   Executable definitions only; proofs are in RTLoopFacts.v. *)
Require Import Base.
From Coq Require Import ZifyBool.

(* max_immediate_drain_cycles *)
Definition MAX_DRAIN : Z := 1024.

(* ------------------------------------------------------------------ *)
(* NodeScheduler::schedule(when, tag, on_wall_clock): the time the event is
   entered under, or None when the request is ignored.
     reference_now = on_wall_clock ? max(now_, wall_clock_.now()) : now_
     started_ : when <= reference_now -> (on_wall ? max(now_+MIN_TD, reference_now) : ignored)
     !started_: when <  reference_now -> (on_wall ? reference_now : ignored)        *)
Definition sched_abs (started : bool) (now w when : Z) (onwall : bool) : option Z :=
  let ref := if onwall then Z.max now w else now in
  if started then
    if when <=? ref then (if onwall then Some (Z.max (now + MIN_TD) ref) else None)
    else Some when
  else
    if when <? ref then (if onwall then Some ref else None)
    else Some when.

(* The request vocabulary of the harness nodes:
     1 arg : schedule(now + arg)                         logical, relative
     2 arg : schedule(arg, tag, on_wall_clock = true)    wall-clock alarm at arg; reads the clock once (w1)
     3 arg : schedule(TimeDelta arg, tag, true)          wall-clock alarm in arg; reads the clock twice (w1, w2)
     4 arg : schedule(arg)                               logical, absolute
     8 arg : graph.schedule_node(self, now + arg)        the raw single-shot request of a node that holds no future
                                                         wake-up (a push-kind heartbeat): same rule as 1            *)
Definition sched_eff (started : bool) (now kind arg w1 w2 : Z) : option Z :=
  if kind =? 1 then sched_abs started now 0 (now + arg) false else
  if kind =? 2 then sched_abs started now w1 arg true else
  if kind =? 3 then sched_abs started now w2 (Z.max now w1 + arg) true else
  if kind =? 4 then sched_abs started now 0 arg false else
  if kind =? 8 then sched_abs started now 0 (now + arg) false else None.

(* how many clock readings the request makes *)
Definition req_reads (kind : Z) : Z := if kind =? 2 then 1 else if kind =? 3 then 2 else 0.

(* ------------------------------------------------------------------ *)
(* the pending wake-up times (union of the nodes' event sets) *)
Definition pend_add (x : Z) (l : list Z) : list Z :=
  if existsb (Z.eqb x) l then l else x :: l.
(* graph.next_scheduled_time(): MAX_DT when nothing is pending *)
Definition pend_min (l : list Z) : Z := zmin_list MAX_DT l.
(* evaluating at t consumes everything due *)
Definition pend_after (t : Z) (l : list Z) : list Z := filter (fun p => t <? p) l.

(* ------------------------------------------------------------------ *)
Inductive phase :=
| PStart                                   (* graph.start(start_time) in progress *)
| PTop                                     (* at the run loop's  while (!stop_requested)  test *)
| PRead (tgt : Z)                          (* advance_realtime entered; first clock reading not yet taken *)
| PCheck (tgt w : Z) (locked brk : bool)   (* at the wait loop's test with wall_now = w; [locked] = the mutex is
                                              already held (we come from wait_for); [brk] = wait_for returned true *)
| PWait (tgt : Z) (sig : bool)             (* blocked inside wait_for; mutex released.  [sig]: a notify_all has reached
                                              the waiter while its predicate holds, so wait_for is about to return *)
| PWoke (tgt : Z) (b : bool)               (* wait_for returned b; mutex held; clock not yet re-read *)
| PAdv (prev t : Z)                        (* advance_realtime returned t; break test not yet made *)
| PEvalPre (t : Z)                         (* graph.evaluate(t) entered; push flag not yet reset *)
| PEval (t : Z)                            (* nodes being evaluated *)
| PDone.                                   (* run_storage left its loop *)

(* one evaluated cycle, as the code computed it (ghost record) *)
Record cyc := mkCyc { ct : Z;      (* the time advance_realtime returned *)
                      cw : Z;      (* the clock reading it used (the last one taken) *)
                      ctgt : Z;    (* its target = min(next_scheduled, end) *)
                      cprev : Z;   (* evaluation_time before *)
                      cwk : bool   (* wake_requested() when the wait loop was left *) }.

Record st := mkSt {
  ev : Z;              (* state.evaluation_time *)
  pend : list Z;       (* pending wake-up times *)
  push : bool;         (* push_update_pending *)
  stop : bool;         (* stop_requested *)
  consec : Z;          (* consecutive_immediate_cycles *)
  ph : phase;
  wall : Z;            (* last clock reading handed out (readings never decrease) *)
  notif : Z;           (* notify_all calls owed: critical sections done whose notify has not happened yet *)
  cycles : list cyc;   (* ghost: evaluated cycles, newest first *)
  cut : bool           (* ghost: the drain cut was taken *)
}.

Record cfg := mkCfg { c_start : Z; c_end : Z }.

Inductive label :=
| LReq (kind arg w1 w2 eff : Z)   (* a node asked for a wake-up; eff = time entered (0 = ignored) *)
| LNRead (w : Z)                  (* a node read the clock *)
| LNode                           (* a node's user code starts (placement marker only) *)
| LStarted                        (* graph.start returned *)
| LTop                            (* loop test passed: body entered *)
| LRead (w : Z)                   (* wall_now = current_wall_time() in advance_realtime *)
| LWaitBefore                     (* loop test true: about to call wait_for (mutex held) *)
| LWaitAfter                      (* wait_for returned (mutex held) *)
| LAdv (t : Z)                    (* advance_realtime returned t *)
| LEvalBegin (t : Z)              (* break test false: graph.evaluate(t) entered *)
| LPushNode                       (* reset_push_update_pending() returned true: push sources evaluated *)
| LEvalEnd                        (* graph.evaluate returned *)
| LExit                           (* loop left *)
| XPushSet                        (* mark_push_update_pending: the critical section *)
| XPushNotify                     (*   ... its notify_all *)
| XStopSet                        (* request_stop: the critical section *)
| XStopNotify                     (*   ... its notify_all *)
| LBad.                           (* undecodable line *)

Definition set_ph (s : st) (p : phase) : st :=
  mkSt (ev s) (pend s) (push s) (stop s) (consec s) p (wall s) (notif s) (cycles s) (cut s).
Definition set_wall (s : st) (w : Z) : st :=
  mkSt (ev s) (pend s) (push s) (stop s) (consec s) (ph s) w (notif s) (cycles s) (cut s).
Definition set_pend (s : st) (l : list Z) : st :=
  mkSt (ev s) l (push s) (stop s) (consec s) (ph s) (wall s) (notif s) (cycles s) (cut s).

(* The mutex is held by the loop thread exactly in these phases. *)
Definition lock_held (p : phase) : bool :=
  match p with PCheck _ _ true _ => true | PWoke _ _ => true | _ => false end.

(* target as the run loop and advance_realtime compute it from graph.next_scheduled_time() *)
Definition target_of (c : cfg) (s : st) : Z :=
  let next := pend_min (pend s) in
  let next' := if (next =? MAX_DT) || (c_end c <=? next) then c_end c else next in
  Z.min next' (c_end c).

(* the cycle time rule of advance_realtime *)
Definition eval_time (tgt w prev : Z) : Z := Z.min tgt (Z.max w (prev + MIN_TD)).
Definition drain_cut (c : cfg) (s : st) (tgt w : Z) : bool :=
  (c_end c <=? w) && (eval_time tgt w (ev s) <=? ev s + MIN_TD) && (MAX_DRAIN <=? consec s).
Definition advance_result (c : cfg) (s : st) (tgt w : Z) : Z :=
  if drain_cut c s tgt w then c_end c else eval_time tgt w (ev s).

(* a node's request, during start (started = false) or during an evaluation *)
Definition do_req (started : bool) (s : st) (kind arg w1 w2 eff : Z) : option st :=
  let n := req_reads kind in
  (* the readings taken are readings of the same non-decreasing clock *)
  let okw := if n =? 0 then true else if n =? 1 then (wall s <=? w1) else (wall s <=? w1) && (w1 <=? w2) in
  let wl := if n =? 0 then wall s else if n =? 1 then w1 else w2 in
  if negb okw then None else
  match sched_eff started (ev s) kind arg w1 w2 with
  | Some e => if e =? eff then Some (set_wall (set_pend s (pend_add e (pend s))) wl) else None
  | None => if eff =? 0 then Some (set_wall s wl) else None
  end.

(* wake_requested(): the predicate of the wait *)
(* other threads: need the mutex for their critical section *)
Definition wake_requested (s : st) : bool := push s || stop s.

Definition do_other (s : st) (l : label) : option st :=
  match l with
  | XPushSet =>
      if lock_held (ph s) then None else
      (* if (stop_requested) return;  — no flag, and no notify follows *)
      if stop s then Some s
      else Some (mkSt (ev s) (pend s) true (stop s) (consec s) (ph s) (wall s) (notif s + 1) (cycles s) (cut s))
  | XStopSet =>
      if lock_held (ph s) then None else
      Some (mkSt (ev s) (pend s) (push s) true (consec s) (ph s) (wall s) (notif s + 1) (cycles s) (cut s))
  | XPushNotify | XStopNotify =>
      (* notify_all: a blocked waiter wakes, re-evaluates its predicate under the mutex and goes back to sleep
         unless it holds *)
      if 0 <? notif s
      then Some (mkSt (ev s) (pend s) (push s) (stop s) (consec s)
                      (match ph s with PWait tgt sg => PWait tgt (sg || wake_requested s) | p => p end)
                      (wall s) (notif s - 1) (cycles s) (cut s))
      else None
  | _ => None
  end.

Definition is_other (l : label) : bool :=
  match l with XPushSet | XPushNotify | XStopSet | XStopNotify => true | _ => false end.

Definition step (c : cfg) (s : st) (l : label) : option st :=
  if is_other l then do_other s l else
  match ph s, l with
  (* ---- graph.start ---- *)
  | PStart, LReq k a w1 w2 e => do_req false s k a w1 w2 e
  | PStart, LNRead w => if wall s <=? w then Some (set_wall s w) else None
  | PStart, LNode => Some s
  | PStart, LStarted => Some (set_ph s PTop)
  (* ---- while (!stop_requested) ---- *)
  | PTop, LTop => if stop s then None else Some (set_ph s (PRead (target_of c s)))
  | PTop, LExit => if stop s then Some (set_ph s PDone) else None
  (* ---- advance_realtime ---- *)
  | PRead tgt, LRead w => if wall s <=? w then Some (set_wall (set_ph s (PCheck tgt w false false)) w) else None
  | PCheck tgt w _ brk, LWaitBefore =>
      (* while (wall_now < target && !wake_requested()) — and not the break after a true wait_for *)
      if negb brk && (w <? tgt) && negb (wake_requested s) then Some (set_ph s (PWait tgt false)) else None
  | PCheck tgt w _ brk, LAdv t =>
      if negb brk && (w <? tgt) && negb (wake_requested s) then None else
      if t =? advance_result c s tgt w then
        Some (mkSt t (pend s) (push s) (stop s) (consec s) (PAdv (ev s) t) (wall s) (notif s) (cycles s)
                   (cut s || drain_cut c s tgt w))
      else None
  | PWait tgt _, LWaitAfter =>
      (* wait_for(lock, d, pred): a time-out returns pred(); a wake-up returns only when pred() holds *)
      Some (set_ph s (PWoke tgt (wake_requested s)))
  | PWoke tgt b, LRead w => if wall s <=? w then Some (set_wall (set_ph s (PCheck tgt w true b)) w) else None
  (* ---- back in run_storage ---- *)
  | PAdv prev t, LExit =>
      if stop s || (t =? MAX_DT) || (c_end c <=? t) then Some (set_ph s PDone) else None
  | PAdv prev t, LEvalBegin t' =>
      if stop s || (t =? MAX_DT) || (c_end c <=? t) then None else
      if t' =? t then
        Some (mkSt (ev s) (pend s) (push s) (stop s)
                   (if t =? prev + MIN_TD then consec s + 1 else 0)
                   (PEvalPre t) (wall s) (notif s) (cycles s) (cut s))
      else None
  (* ---- graph.evaluate ---- *)
  | PEvalPre t, LPushNode =>
      if push s then Some (mkSt (ev s) (pend s) false (stop s) (consec s) (PEval t) (wall s) (notif s) (cycles s) (cut s))
      else None
  | PEvalPre t, LNode => if push s then None else Some (set_ph s (PEval t))
  | PEvalPre t, LEvalEnd => if push s then None else Some (set_ph (set_pend s (pend_after t (pend s))) PTop)
  | PEval t, LNode => Some s
  | PEval t, LNRead w => if wall s <=? w then Some (set_wall s w) else None
  | PEval t, LReq k a w1 w2 e => do_req true s k a w1 w2 e
  | PEval t, LEvalEnd => Some (set_ph (set_pend s (pend_after t (pend s))) PTop)
  | _, _ => None
  end.

(* the ghost cycle record is written when advance_realtime returns a time that is evaluated; to keep
   [step] a plain mirror it is added by [gstep], which is what runs use *)
Definition gstep (c : cfg) (s : st) (l : label) : option st :=
  match step c s l with
  | Some s' =>
      match ph s, l with
      | PCheck tgt w _ _, LAdv t =>
          Some (mkSt (ev s') (pend s') (push s') (stop s') (consec s') (ph s') (wall s') (notif s')
                     (mkCyc t w tgt (ev s) (wake_requested s) :: cycles s') (cut s'))
      | _, _ => Some s'
      end
  | None => None
  end.

Fixpoint exec (c : cfg) (s : st) (ls : list label) : option st :=
  match ls with
  | [] => Some s
  | l :: r => match gstep c s l with Some s' => exec c s' r | None => None end
  end.

(* run_storage prologue: stop_requested := false; evaluation_time := start_time.  The reset comes BEFORE
   graph.start: the first phase is PStart, in which stop requests (from a start hook or from another thread)
   already land and stay; the first loop test then sees them (PTop: only LExit is enabled). *)
Definition init (c : cfg) (w0 : Z) : st :=
  mkSt (c_start c) [] false false 0 PStart w0 0 [] false.

(* index of the first label that is not enabled, and the final state *)
Fixpoint exec_ix (c : cfg) (s : st) (ls : list label) (i : Z) : Z * st :=
  match ls with
  | [] => (-1, s)
  | l :: r => match gstep c s l with Some s' => exec_ix c s' r (i + 1) | None => (i, s) end
  end.

(* ================================================================== *)
(* Free-running histories (no virtual clock, no sync points): the clock readings
   the loop used are not observable, only readings taken by the harness nodes
   around them.  [fr_step] checks the lower-bound and ordering claims that every
   run of the model satisfies whatever the unobserved readings were. *)
Inductive fev :=
| FStarted
| FReq (kind arg eff wb wa : Z)  (* request; the readings it made lie in [wb, wa] *)
| FEvalBegin (t wobs : Z)        (* cycle at t begins; wobs = a clock reading taken after advance returned *)
| FPushNode
| FEvalEnd (wobs : Z)
| FAct (kind : Z)                (* 1 push / 2 stop: the call is about to be made *)
| FActRet (kind : Z)             (* the call returned *)
| FExit (wobs : Z)
| FNext (nx : Z)                 (* graph.next_scheduled_time() after the cycle (-1: nothing scheduled) *)
| FBad.

Record fst_ := mkF {
  f_pend : list Z; f_prev : Z; f_wlast : Z; f_ncyc : Z; f_consec : Z;
  f_stopinit : bool;      (* a stop request has been started *)
  f_stopret : bool;       (* a stop request has returned *)
  f_after_stop : Z;       (* cycles begun after a stop request returned *)
  f_in : bool; f_cur : Z; f_need_push : bool; f_saw_push : bool; f_started : bool; f_done : bool
}.

Definition f_init (c : cfg) : fst_ :=
  mkF [] (c_start c) 0 0 0 false false 0 false 0 false false false false.

Definition btw (lo x hi : Z) : bool := (lo <=? x) && (x <=? hi).

(* is [eff] a possible outcome of the request when its clock readings lie in [wb, wa]? *)
Definition freq_ok (started : bool) (now kind arg eff wb wa : Z) : bool :=
  if (kind =? 1) || (kind =? 4) || (kind =? 8) then
    match sched_eff started now kind arg 0 0 with Some e => eff =? e | None => eff =? 0 end
  else if kind =? 2 then
    if started then
      ((Z.max now wb <? arg) && (eff =? arg)) ||
      ((arg <=? Z.max now wa) && btw (Z.max (now + MIN_TD) wb) eff (Z.max (now + MIN_TD) wa))
    else
      ((Z.max now wb <=? arg) && (eff =? arg)) ||
      ((arg <? Z.max now wa) && btw (Z.max now wb) eff (Z.max now wa))
  else if kind =? 3 then
    (1 <=? arg) && btw (Z.max now wb + arg) eff (Z.max now wa + arg)
  else false.

(* what a free-running observer can check of one cycle: t = its time, wobs = a clock reading taken after
   advance_realtime returned, wlast = a clock reading taken before it was entered *)
Definition fr_cycle_ok (first : bool) (start endt prev wlast tgt t wobs : Z) : bool :=
  (wlast <=? wobs)
  && (if first then start <=? t else prev <? t)                       (* strictly increasing *)
  && (t <=? tgt) && (t <? endt)                                        (* never past a pending time *)
  && (t <=? Z.max wobs (prev + MIN_TD))                                (* never early *)
  && (negb (t <? tgt) || ((wlast <=? t) && (prev + MIN_TD <=? t))).    (* a wake-up cycle is stamped by the clock *)

Definition fr_step (c : cfg) (f : fst_) (e : fev) : option fst_ :=
  if f_done f then (match e with FAct _ | FActRet _ => Some f | _ => None end) else   (* a call may return after the run did *)
  match e with
  | FStarted => if f_started f then None else
      Some (mkF (f_pend f) (f_prev f) (f_wlast f) (f_ncyc f) (f_consec f) (f_stopinit f) (f_stopret f)
                (f_after_stop f) false 0 false false true false)
  | FReq kind arg eff wb wa =>
      let started := f_started f in
      let now := if started then f_cur f else c_start c in
      if (wb <=? wa) && (f_wlast f <=? wb) && (negb started || f_in f) && freq_ok started now kind arg eff wb wa then
        Some (mkF (if eff =? 0 then f_pend f else pend_add eff (f_pend f)) (f_prev f) wa (f_ncyc f) (f_consec f)
                  (f_stopinit f) (f_stopret f) (f_after_stop f) (f_in f) (f_cur f) (f_need_push f) (f_saw_push f)
                  (f_started f) false)
      else None
  | FEvalBegin t wobs =>
      let next := pend_min (f_pend f) in
      let next' := if (next =? MAX_DT) || (c_end c <=? next) then c_end c else next in
      let tgt := Z.min next' (c_end c) in
      let first := f_ncyc f =? 0 in
      let early := t <? tgt in
      let after := if f_stopret f then f_after_stop f + 1 else f_after_stop f in
      if f_started f && negb (f_in f)
         && fr_cycle_ok first (c_start c) (c_end c) (f_prev f) (f_wlast f) tgt t wobs
         && (after <=? 1)                                                  (* stop ends the run after the current cycle *)
      then
        Some (mkF (f_pend f) (f_prev f) wobs (f_ncyc f + 1)
                  (if t =? f_prev f + MIN_TD then f_consec f + 1 else 0)
                  (f_stopinit f) (f_stopret f) after true t early false true false)
      else None
  | FPushNode => if f_in f then
      Some (mkF (f_pend f) (f_prev f) (f_wlast f) (f_ncyc f) (f_consec f) (f_stopinit f) (f_stopret f)
                (f_after_stop f) true (f_cur f) (f_need_push f) true true false) else None
  | FEvalEnd wobs =>
      if f_in f && (f_wlast f <=? wobs) && (negb (f_need_push f) || f_saw_push f) then
        Some (mkF (pend_after (f_cur f) (f_pend f)) (f_cur f) wobs (f_ncyc f) (f_consec f) (f_stopinit f) (f_stopret f)
                  (f_after_stop f) false 0 false false true false)
      else None
  | FAct kind =>
      Some (mkF (f_pend f) (f_prev f) (f_wlast f) (f_ncyc f) (f_consec f) (f_stopinit f || (kind =? 2)) (f_stopret f)
                (f_after_stop f) (f_in f) (f_cur f) (f_need_push f) (f_saw_push f) (f_started f) false)
  | FActRet kind =>
      Some (mkF (f_pend f) (f_prev f) (f_wlast f) (f_ncyc f) (f_consec f) (f_stopinit f) (f_stopret f || (kind =? 2))
                (f_after_stop f) (f_in f) (f_cur f) (f_need_push f) (f_saw_push f) (f_started f) false)
  | FExit wobs =>
      if f_started f && negb (f_in f) && (f_wlast f <=? wobs)
         && (f_stopinit f ||
             (* the end was reached: by the wall clock, or by a lagging logical clock *)
             (((c_end c <=? wobs) || (c_end c <=? f_prev f + MIN_TD))
              (* nothing due before the end is left, unless the drain bound cut the run *)
              && (forallb (fun p => c_end c <=? p) (f_pend f)
                  || ((c_end c <=? wobs) && (MAX_DRAIN <=? f_consec f)))))
      then Some (mkF (f_pend f) (f_prev f) wobs (f_ncyc f) (f_consec f) (f_stopinit f) (f_stopret f)
                     (f_after_stop f) false 0 false false true true)
      else None
  | FNext nx =>
      let m := pend_min (f_pend f) in
      if negb (f_in f) && (nx =? (if m =? MAX_DT then -1 else m)) then Some f else None
  | FBad => None
  end.

Fixpoint fr_exec_ix (c : cfg) (f : fst_) (es : list fev) (i : Z) : Z * fst_ :=
  match es with
  | [] => (-1, f)
  | e :: r => match fr_step c f e with Some f' => fr_exec_ix c f' r (i + 1) | None => (i, f) end
  end.

(* ================================================================== *)
(* What the run loop reads through graph.next_scheduled_time() is a CACHE that the root evaluate_impl
   recomputes in every cycle.  The LTS above abstracts it to [pend_min (pend s)]; the recorded value is
   checked against that abstraction by the acceptor ([ONext]), and the scan that computes it is mirrored
   here (graph.cpp, root evaluate_impl): one slot per node, the first nodes are the push-source prefix.
     push pass, node of the prefix: evaluated when a push is pending or its slot is due (a due slot is
       cleared first); whether or not it was evaluated, its slot, when in the future, is folded into the
       cached minimum;
     ordinary pass: a node whose slot is due is evaluated (it registers its own next time through
       schedule_node); otherwise a future slot is folded into the minimum.
   A node's evaluation is abstracted to the list of times it asks schedule_node for (its own slot only:
   graphs without edges, as in this family). *)
(* schedule_node_impl (when >= current): keeps the earliest future slot; updates the cache *)
Definition schedule_node_rule (cur when : Z) (sn : Z * Z) : Z * Z :=
  let '(slot, next) := sn in
  if (slot <=? cur) || (when <? slot)
  then (when, if (cur <? when) && (when <? next) then when else next)
  else (slot, next).

Definition fold_slot (t slot next : Z) : Z := if (t <? slot) && (slot <? next) then slot else next.

Fixpoint scan_push (t : Z) (pushp : bool) (beh : nat -> list Z) (i : nat) (slots : list Z) (next : Z) : list Z * Z :=
  match slots with
  | [] => ([], next)
  | sl :: r =>
      let due := sl =? t in
      let '(sl1, next1) :=
        if pushp || due
        then fold_left (fun sn w => schedule_node_rule t w sn) (beh i) (if due then MIN_DT else sl, next)
        else (sl, next) in
      let next2 := fold_slot t sl1 next1 in
      let '(r', n') := scan_push t pushp beh (S i) r next2 in (sl1 :: r', n')
  end.

Fixpoint scan_norm (t : Z) (beh : nat -> list Z) (i : nat) (slots : list Z) (next : Z) : list Z * Z :=
  match slots with
  | [] => ([], next)
  | sl :: r =>
      let '(sl1, next1) :=
        if sl =? t
        then fold_left (fun sn w => schedule_node_rule t w sn) (beh i) (sl, next)
        else (sl, fold_slot t sl next) in
      let '(r', n') := scan_norm t beh (S i) r next1 in (sl1 :: r', n')
  end.

(* one root cycle at t: the new slots and the new cached next_scheduled_time *)
Definition root_scan (t : Z) (pushp : bool) (beh : nat -> list Z) (prefix rest : list Z) : list Z * Z :=
  let '(p', n1) := scan_push t pushp beh 0 prefix MAX_DT in
  let '(r', n2) := scan_norm t beh (length prefix) rest n1 in
  (p' ++ r', n2).

(* ================================================================== *)
(* A recorded hook-mode history: labels, and reports of the cached next_scheduled_time. *)
Inductive obs := OLabel (l : label) | ONext (nx : Z).

Definition next_obs (s : st) : Z := let m := pend_min (pend s) in if m =? MAX_DT then -1 else m.

Fixpoint accept_ix (c : cfg) (s : st) (os : list obs) (i : Z) : Z * st :=
  match os with
  | [] => (-1, s)
  | OLabel l :: r => match gstep c s l with Some s' => accept_ix c s' r (i + 1) | None => (i, s) end
  | ONext nx :: r => if nx =? next_obs s then accept_ix c s r (i + 1) else (i, s)
  end.

Definition labels_of (os : list obs) : list label :=
  flat_map (fun o => match o with OLabel l => [l] | ONext _ => [] end) os.

(* =====================  wire format  ===================== *)
(* case:  1 start end slice virt v0 dflt | 2 deltas... | 3 node k kind arg | 4 at kind notify_at | 5 delay kind | 6 nnodes
   then the line -1, then the driver's output:  90 mode, then one line per event. *)
Definition is_code (k : Z) (l : line) : bool := match l with x :: _ => x =? k | [] => false end.

Definition window (w : wire) : cfg :=
  match find (is_code 1) w with
  | Some (_ :: s :: e :: _) => mkCfg s e
  | _ => mkCfg 1 10
  end.

Fixpoint split_at_marker (w : wire) : wire * wire :=
  match w with
  | [] => ([], [])
  | l :: r => match l with
              | [x] => if x =? -1 then ([], r) else let '(a, b) := split_at_marker r in (l :: a, b)
              | _ => let '(a, b) := split_at_marker r in (l :: a, b)
              end
  end.

Definition decode_label (l : line) : label :=
  match l with
  | [] => LBad
  | k :: a =>
    if k =? 9 then LNode else          (* a node's start hook begins (placement marker) *)
    if k =? 10 then LStarted else
    if k =? 11 then LTop else
    if k =? 12 then match a with [w] => LRead w | _ => LBad end else
    if k =? 13 then LWaitBefore else
    if k =? 14 then LWaitAfter else
    if k =? 15 then match a with [t] => LAdv t | _ => LBad end else
    if k =? 16 then match a with [t] => LEvalBegin t | _ => LBad end else
    if k =? 17 then LPushNode else
    if k =? 18 then LNode else
    if k =? 19 then match a with [_; kind; arg; eff; _; w1; w2] => LReq kind arg w1 w2 eff | _ => LBad end else
    if k =? 20 then LEvalEnd else
    if k =? 21 then LExit else
    if k =? 22 then match a with [w] => LNRead w | _ => LBad end else
    if k =? 30 then XPushSet else
    if k =? 31 then XPushNotify else
    if k =? 32 then XStopSet else
    if k =? 33 then XStopNotify else LBad
  end.

Definition decode_obs (l : line) : obs :=
  match l with
  | [k; nx] => if k =? 23 then ONext nx else OLabel (decode_label l)
  | _ => OLabel (decode_label l)
  end.

Definition decode_fev (l : line) : list fev :=
  match l with
  | [] => [FBad]
  | k :: a =>
    if k =? 9 then [] else
    if k =? 10 then [FStarted] else
    if k =? 16 then match a with [t; w] => [FEvalBegin t w] | _ => [FBad] end else
    if k =? 17 then [FPushNode] else
    if k =? 18 then [] else
    if k =? 19 then match a with [_; kind; arg; eff; _; wb; wa] => [FReq kind arg eff wb wa] | _ => [FBad] end else
    if k =? 20 then match a with [w] => [FEvalEnd w] | _ => [FBad] end else
    if k =? 21 then match a with [w] => [FExit w] | _ => [FBad] end else
    if k =? 23 then match a with [x] => [FNext x] | _ => [FBad] end else
    if k =? 36 then match a with [x] => [FAct x] | _ => [FBad] end else
    if k =? 35 then match a with [x] => [FActRet x] | _ => [FBad] end else [FBad]
  end.

(* first clock value of the virtual clock: field v0 of line 1 (readings start from it) *)
Definition clock0 (w : wire) : Z :=
  match find (is_code 1) w with
  | Some (_ :: _ :: _ :: _ :: _ :: v0 :: _) => v0
  | _ => 0
  end.

(* The acceptor: [[1]] when the recorded history is a complete run of the model
   (hook mode) / satisfies every claim a run satisfies (free-running mode);
   otherwise [[0; mode; index of the offending event]]. *)
Definition run_rtloop (w : wire) : wire :=
  let '(case, out) := split_at_marker w in
  let c := window case in
  match out with
  | [k; m] :: evs =>
      if (k =? 90) && (m =? 1) then
        let '(i, s) := accept_ix c (init c (clock0 case)) (map decode_obs evs) 0 in
        if (i =? -1) && (match ph s with PDone => true | _ => false end) then [[1]]
        else [[0; 1; i]]
      else if (k =? 90) && (m =? 0) then
        let '(i, f) := fr_exec_ix c (f_init c) (flat_map decode_fev evs) 0 in
        if (i =? -1) && f_done f then [[1]] else [[0; 0; i]]
      else [[0; -2; 0]]
  | _ => [[0; -2; 0]]
  end.
