(* Resolve.v — mirror model of hgraph's operator overload resolution (property C19).

   Mirrors, function by function:
     include/hgraph/types/type_resolution.h   ResolutionMap::bind_ts / bind_scalar / bind_size / find_*
     src/hgraph/types/type_pattern.cpp        scalar_pattern_match, size_pattern_match, ts_pattern_match,
                                              input_ts_pattern_match, output_ts_pattern_match,
                                              scalar_pattern_resolve, ts_pattern_resolve
     src/hgraph/types/time_series/endpoint_schema.cpp   time_series_schema_equivalent
     src/hgraph/types/metadata/type_registry.cpp        TypeRegistry::dereference, ::ref (REF of REF collapses)
     include/hgraph/types/graph_wiring.h      input_accepts_output_schema
     include/hgraph/types/operator_dispatch.h RankAccumulator, collect_scalar_rank, collect_ts_rank, operator_rank
     src/hgraph/types/operator_dispatch.cpp   normalize_call (positional, no defaults), try_match,
                                              scalar_value_matches_ts_pattern, value_schema_matches_ts_pattern,
                                              OperatorRegistry::resolve (size hints, initial resolution,
                                              stable sort by rank, tie = ambiguity, none = no match)

   Interned metadata pointers are modelled by structural values: pointer
   equality of interned schemas is structural equality ([sty_eqb], [tty_eqb],
   including the nominal bundle name); [tty_equiv] is
   time_series_schema_equivalent, which ignores bundle names.

   Executable definitions only; proofs are in ResolveFacts.v.  Not modelled
   (the generator never produces them, see docs/notes-resolve.md): variadic
   tails, **kwargs, default values, default resolvers, requires predicates,
   Series / Frame / Array / Bundle scalar patterns, named scalar bundles (so
   bundle inheritance adaptation ranks are 0), duration windows. *)
Require Import Base.

(* ------------------------------------------------------------------------- *)
(* Concrete (interned) schemas                                                *)
(* ------------------------------------------------------------------------- *)

(* ValueTypeMetaData.  Atoms: 0 bool, 1 int, 2 float, 3 str, 4 int32. *)
Inductive sty : Type :=
| SAtom (a : Z)
| STuple (l : list sty)            (* registry.tuple(fields)          kind Tuple *)
| SList (e : sty)                  (* registry.list(e, 0, true)       kind List, variadic tuple *)
| SSet (e : sty)
| SMap (k v : sty)
| SBundle (id : Z) (ps : list sty).  (* named (nominal) Bundle schema; ps = bundle_hierarchy->parents in declaration
                                       order: like the interned metadata, a bundle carries its ancestry.  All
                                       bundles of the harness have the same single field, so fields are not modelled *)

(* TSValueTypeMetaData.  Bundle name 0 = un-named TSB. *)
Inductive tty : Type :=
| TTs (s : sty)
| TTss (s : sty)
| TTsl (e : tty) (n : Z)           (* n = 0: dynamic size *)
| TTsd (k : sty) (v : tty)
| TTsw (s : sty) (period minp : Z) (* tick windows only *)
| TTsb (name : Z) (fs : list (Z * tty))
| TRef (t : tty)
| TSignal.

(* pairwise test of two lists of equal length *)
Section Forall2b.
  Context {A B : Type} (f : A -> B -> bool).
  Fixpoint forall2b (l : list A) (l' : list B) {struct l} : bool :=
    match l, l' with
    | [], [] => true
    | x :: r, y :: r' => f x y && forall2b r r'
    | _, _ => false
    end.
End Forall2b.

Fixpoint sty_eqb (a b : sty) {struct a} : bool :=
  match a, b with
  | SAtom x, SAtom y => x =? y
  | STuple l, STuple l' => forall2b (fun x y => sty_eqb x y) l l'
  | SList x, SList y => sty_eqb x y
  | SSet x, SSet y => sty_eqb x y
  | SMap k v, SMap k' v' => sty_eqb k k' && sty_eqb v v'
  | SBundle i ps, SBundle j ps' => (i =? j) && forall2b (fun x y => sty_eqb x y) ps ps'
  | _, _ => false
  end.

(* ---- nominal bundle inheritance ---- *)

Definition omin (a b : option nat) : option nat :=
  match a, b with
  | Some x, Some y => Some (Nat.min x y)
  | Some x, None => Some x
  | None, o => o
  end.

(* TypeRegistry::bundle_inheritance_distance(candidate = c, base = the bundle named b): the SHORTEST number
   of parent edges from c up to b (0 for c itself), None when b is not an ancestor.  The code finds it by a
   depth-first walk with a best_distance relaxation; this is the value that walk computes, written as the
   recursion it satisfies: min over the declared parents of 1 + their distance. *)
Fixpoint bdist (b : Z) (c : sty) {struct c} : option nat :=
  match c with
  | SBundle id ps =>
      if id =? b then Some O
      else fold_right (fun p acc => omin (option_map S (bdist b p)) acc) None ps
  | _ => None
  end.

Definition bundle_id (s : sty) : option Z := match s with SBundle id _ => Some id | _ => None end.

(* TypeRegistry::bundle_is_a(candidate, base) on named bundles *)
Definition bundle_is_a (c base : sty) : bool :=
  match c, base with
  | SBundle _ _, SBundle b _ => match bdist b c with Some _ => true | None => false end
  | _, _ => false
  end.

(* bundle_inheritance_distance as the dispatcher uses it: nullopt counts 0 *)
Definition bundle_distance (c base : sty) : Z :=
  match c, base with
  | SBundle _ _, SBundle b _ => match bdist b c with Some d => Z.of_nat d | None => 0 end
  | _, _ => 0
  end.

(* pointer identity of interned time-series schemas *)
Fixpoint tty_eqb (a b : tty) {struct a} : bool :=
  match a, b with
  | TTs x, TTs y => sty_eqb x y
  | TTss x, TTss y => sty_eqb x y
  | TTsl x n, TTsl y n' => (n =? n') && tty_eqb x y
  | TTsd k v, TTsd k' v' => sty_eqb k k' && tty_eqb v v'
  | TTsw x p m, TTsw y p' m' => sty_eqb x y && (p =? p') && (m =? m')
  | TTsb nm fs, TTsb nm' fs' =>
      (nm =? nm') &&
      forall2b (fun ft gt => (fst ft =? fst gt) && tty_eqb (snd ft) (snd gt)) fs fs'
  | TRef x, TRef y => tty_eqb x y
  | TSignal, TSignal => true
  | _, _ => false
  end.

(* time_series_schema_equivalent: structural, field names compared, bundle name ignored *)
Fixpoint tty_equiv (a b : tty) {struct a} : bool :=
  match a, b with
  | TTs x, TTs y => sty_eqb x y
  | TTss x, TTss y => sty_eqb x y
  | TTsl x n, TTsl y n' => (n =? n') && tty_equiv x y
  | TTsd k v, TTsd k' v' => sty_eqb k k' && tty_equiv v v'
  | TTsw x p m, TTsw y p' m' => sty_eqb x y && (p =? p') && (m =? m')
  | TTsb _ fs, TTsb _ fs' =>
      forall2b (fun ft gt => (fst ft =? fst gt) && tty_equiv (snd ft) (snd gt)) fs fs'
  | TRef x, TRef y => tty_equiv x y
  | TSignal, TSignal => true
  | _, _ => false
  end.

Definition is_ref (t : tty) : bool := match t with TRef _ => true | _ => false end.

(* TypeRegistry::ref: a reference to a reference is that reference *)
Definition mk_ref (t : tty) : tty := match t with TRef _ => t | _ => TRef t end.

(* the matcher's "REF is transparent" step: follow referenced_ts() while the schema is a REF *)
Fixpoint strip_refs (t : tty) : tty := match t with TRef x => strip_refs x | _ => t end.

(* TypeRegistry::dereference: REF-stripped version, recursing through TSB / TSL / TSD.
   (A named bundle that contained a REF is renamed "<name>_deref" by the registry;
   the result is only ever fed to [tty_equiv], which ignores names.) *)
Fixpoint deref (t : tty) : tty :=
  match t with
  | TRef x => deref x
  | TTsb nm fs => TTsb nm (map (fun ft => (fst ft, deref (snd ft))) fs)
  | TTsl e n => TTsl (deref e) n
  | TTsd k v => TTsd k (deref v)
  | _ => t
  end.

(* graph_wiring_detail::input_accepts_output_schema: equivalent after dereferencing, or both TS of named
   bundles with the output's bundle a descendant of the input's *)
Definition ts_bundle_is_a (out inp : tty) : bool :=
  match out, inp with TTs y, TTs x => bundle_is_a y x | _, _ => false end.

Definition input_accepts (c t : tty) : bool :=
  match c with
  | TSignal => true
  | _ => tty_equiv (deref c) (deref t) || ts_bundle_is_a (deref t) (deref c)
  end.

(* input_adaptation_rank: a concrete TS[Base] leaf taking a TS[Derived] costs the inheritance distance *)
Definition adaptation_rank_c (c t : tty) : Z :=
  if tty_equiv (deref c) (deref t) then 0
  else match deref c, deref t with TTs x, TTs y => bundle_distance y x | _, _ => 0 end.

(* ------------------------------------------------------------------------- *)
(* ResolutionMap                                                              *)
(* ------------------------------------------------------------------------- *)

Fixpoint afind {A : Type} (k : Z) (l : list (Z * A)) : option A :=
  match l with
  | [] => None
  | (k', v) :: r => if k' =? k then Some v else afind k r
  end.

Record rmap : Type := mkR { r_ts : list (Z * tty); r_sc : list (Z * sty); r_sz : list (Z * Z) }.

Definition empty_rmap : rmap := mkR [] [] [].

Definition put_ts (m : rmap) (v : Z) (t : tty) : rmap := mkR ((v, t) :: r_ts m) (r_sc m) (r_sz m).
Definition put_sc (m : rmap) (v : Z) (s : sty) : rmap := mkR (r_ts m) ((v, s) :: r_sc m) (r_sz m).
Definition put_sz (m : rmap) (v : Z) (n : Z) : rmap := mkR (r_ts m) (r_sc m) ((v, n) :: r_sz m).

(* bind_*: try_emplace; a second, different binding throws std::logic_error (None) *)
Definition bind_ts (m : rmap) (v : Z) (t : tty) : option rmap :=
  match afind v (r_ts m) with
  | None => Some (put_ts m v t)
  | Some b => if tty_eqb b t then Some m else None
  end.
Definition bind_sc (m : rmap) (v : Z) (s : sty) : option rmap :=
  match afind v (r_sc m) with
  | None => Some (put_sc m v s)
  | Some b => if sty_eqb b s then Some m else None
  end.
Definition bind_sz (m : rmap) (v : Z) (n : Z) : option rmap :=
  match afind v (r_sz m) with
  | None => Some (put_sz m v n)
  | Some b => if b =? n then Some m else None
  end.

(* ------------------------------------------------------------------------- *)
(* Patterns                                                                   *)
(* ------------------------------------------------------------------------- *)

Inductive spat : Type :=
| PSVar (v : Z) (cn : list sty)
| PSConc (s : sty)
| PSUnk0                           (* UnknownTuple without element pattern *)
| PSUnk1 (c : spat)                (* UnknownTuple[element] *)
| PSHom (c : spat)                 (* tuple[element, ...] *)
| PSFix (l : list spat)
| PSSet (c : spat)
| PSMap (k v : spat).

Inductive szpat : Type :=
| SzFix (n : Z)                    (* 0 = any size *)
| SzVar (v : Z) (cn : list Z).

Inductive tpat : Type :=
| PVar (v : Z) (cn : list tty)
| PConc (t : tty)
| PTs (s : spat)
| PTss (s : spat)
| PTsl (sz : szpat) (e : tpat)
| PTsd (k : spat) (v : tpat)
| PTsw (any : bool) (period minp : Z) (s : spat)
| PTsb (named : bool) (name : Z) (fs : list (Z * tpat))
| PTsbVar (v : Z)                  (* TSB bound whole to a schema variable *)
| PRef (t : tpat)
| PSignal.

Definition is_pref (p : tpat) : bool := match p with PRef _ => true | _ => false end.

Definition allowed_s (cn : list sty) (s : sty) : bool :=
  match cn with [] => true | _ => existsb (fun c => sty_eqb c s) cn end.
Definition allowed_t (cn : list tty) (t : tty) : bool :=
  match cn with [] => true | _ => existsb (fun c => tty_equiv c t) cn end.
Definition allowed_z (cn : list Z) (n : Z) : bool :=
  match cn with [] => true | _ => existsb (fun c => c =? n) cn end.

(* the matchers' loops over tuple elements / bundle fields: in order, threading the map *)
Section MatchList.
  Context {P T : Type} (f : P -> T -> rmap -> option rmap).
  Fixpoint match_list (ps : list P) (ts : list T) (m : rmap) {struct ps} : option rmap :=
    match ps, ts with
    | [], [] => Some m
    | p :: ps', t :: ts' => match f p t m with Some m' => match_list ps' ts' m' | None => None end
    | _, _ => None
    end.
End MatchList.

Definition obind {A B : Type} (o : option A) (f : A -> option B) : option B :=
  match o with Some x => f x | None => None end.

Section MapM.
  Context {P R : Type} (f : P -> option R).
  Fixpoint mapM (ps : list P) : option (list R) :=
    match ps with
    | [] => Some []
    | p :: r => obind (f p) (fun x => option_map (cons x) (mapM r))
    end.
End MapM.

(* homogeneous_tuple_element *)
Definition hom_elem (l : list sty) : option sty :=
  match l with
  | [] => None
  | x :: r => if forallb (fun y => sty_eqb y x) r then Some x else None
  end.

(* scalar_pattern_match.  None = false (the caller discards the map). *)
Fixpoint smatch (p : spat) (s : sty) (m : rmap) {struct p} : option rmap :=
  match p with
  | PSVar v cn =>
      match afind v (r_sc m) with
      | Some b => if sty_eqb b s && allowed_s cn s then Some m else None
      | None => if allowed_s cn s then Some (put_sc m v s) else None
      end
  | PSConc c => if sty_eqb c s then Some m else None
  | PSUnk0 => match s with SList _ | STuple _ => Some m | _ => None end
  | PSUnk1 c | PSHom c =>
      match s with
      | SList e => smatch c e m
      | STuple l => match hom_elem l with Some e => smatch c e m | None => None end
      | _ => None
      end
  | PSFix ps =>
      match s with
      | STuple l => match_list (fun q x m => smatch q x m) ps l m
      | _ => None
      end
  | PSSet c => match s with SSet e => smatch c e m | _ => None end
  | PSMap k v =>
      match s with
      | SMap a b => match smatch k a m with Some m' => smatch v b m' | None => None end
      | _ => None
      end
  end.

(* size_pattern_match *)
Definition szmatch (sz : szpat) (n : Z) (m : rmap) : option rmap :=
  match sz with
  | SzFix k => if (k =? 0) || (k =? n) then Some m else None
  | SzVar v cn =>
      match afind v (r_sz m) with
      | Some b => if (b =? n) && allowed_z cn n then Some m else None
      | None => if allowed_z cn n then Some (put_sz m v n) else None
      end
  end.

Definition fnames_eqb {A B : Type} (fs : list (Z * A)) (gs : list (Z * B)) : bool :=
  (length fs =? length gs)%nat && forallb (fun fg => fst (fst fg) =? fst (snd fg)) (combine fs gs).

(* nominal check of a TSB pattern against a concrete bundle name (0 = un-named) *)
Definition name_ok (named : bool) (name tname : Z) : bool :=
  negb named || (negb (tname =? 0) && (name =? tname)).

(* ts_pattern_match *)
Fixpoint tmatch (p : tpat) (t0 : tty) (m : rmap) {struct p} : option rmap :=
  let t := if is_pref p then t0 else strip_refs t0 in
  match p with
  | PVar v cn =>
      match afind v (r_ts m) with
      | Some b => if tty_eqb b t && allowed_t cn t then Some m else None
      | None => if allowed_t cn t then Some (put_ts m v t) else None
      end
  | PConc c => if tty_equiv c t then Some m else None
  | PTs sp => match t with TTs s => smatch sp s m | _ => None end
  | PTss sp => match t with TTss s => smatch sp s m | _ => None end
  | PTsl sz e =>
      match t with
      | TTsl te n => match szmatch sz n m with Some m' => tmatch e te m' | None => None end
      | _ => None
      end
  | PTsd k v =>
      match t with
      | TTsd tk tv => match smatch k tk m with Some m' => tmatch v tv m' | None => None end
      | _ => None
      end
  | PTsw any per mn sp =>
      match t with
      | TTsw s tp tm =>
          match smatch sp s m with
          | Some m' => if any || ((per =? tp) && (mn =? tm)) then Some m' else None
          | None => None
          end
      | _ => None
      end
  | PTsb named name fps =>
      match t with
      | TTsb tname tfs =>
          if name_ok named name tname && fnames_eqb fps tfs then
            match_list (fun fq gx m => tmatch (snd fq) (snd gx) m) fps tfs m
          else None
      | _ => None
      end
  | PTsbVar v =>
      match t with
      | TTsb _ _ =>
          match afind v (r_ts m) with
          | Some b => if tty_equiv b t then Some m else None
          | None => Some (put_ts m v t)       (* tsb_var() carries no constraints *)
          end
      | _ => None
      end
  | PRef q => match t with TRef u => tmatch q u m | _ => None end
  | PSignal => match t with TSignal => Some m | _ => None end
  end.

(* input_ts_pattern_match *)
Fixpoint imatch (p : tpat) (t0 : tty) (m : rmap) {struct p} : option rmap :=
  let t := strip_refs t0 in
  match p with
  | PSignal => Some m
  | PRef q => imatch q (match t0 with TRef u => u | _ => t0 end) m
  | PConc c => if input_accepts c t then Some m else None
  | PTsl sz e =>
      match t with
      | TTsl te n => match szmatch sz n m with Some m' => imatch e te m' | None => None end
      | _ => None
      end
  | PTsd k v =>
      match t with
      | TTsd tk tv => match smatch k tk m with Some m' => imatch v tv m' | None => None end
      | _ => None
      end
  | PTsb named name fps =>
      match t with
      | TTsb tname tfs =>
          if name_ok named name tname && fnames_eqb fps tfs then
            match_list (fun fq gx m => imatch (snd fq) (snd gx) m) fps tfs m
          else None
      | _ => None
      end
  | PTsbVar v =>
      match t with
      | TTsb _ _ =>
          match afind v (r_ts m) with
          | Some b => if tty_equiv b t then Some m else None
          | None => Some (put_ts m v t)
          end
      | _ => None
      end
  | PTs sp =>
      match t with
      | TTs s =>
          (* input_scalar_pattern_match: a variable already bound to a named bundle takes any descendant *)
          match sp with
          | PSVar v _ =>
              match afind v (r_sc m) with
              | Some b => if bundle_is_a s b then Some m else smatch sp s m
              | None => smatch sp s m
              end
          | _ => smatch sp s m
          end
      | _ => None
      end
  | PVar _ _ | PTss _ | PTsw _ _ _ _ => tmatch p t m
  end.

(* output_ts_pattern_match *)
Definition omatch (p : tpat) (t : tty) (m : rmap) : option rmap :=
  match p with
  | PVar v cn =>
      if is_ref t then
        match afind v (r_ts m) with
        | Some b => if tty_equiv (deref b) (deref t) then Some m else None
        | None => if allowed_t cn t then Some (put_ts m v t) else None
        end
      else tmatch p t m
  | _ => tmatch p t m
  end.

(* ------------------------------------------------------------------------- *)
(* Substitution: scalar_pattern_resolve / ts_pattern_resolve                  *)
(* ------------------------------------------------------------------------- *)

Fixpoint sresolve (p : spat) (m : rmap) {struct p} : option sty :=
  match p with
  | PSVar v _ => afind v (r_sc m)
  | PSConc c => Some c
  | PSUnk0 | PSUnk1 _ => None
  | PSHom c => option_map SList (sresolve c m)
  | PSFix ps =>
      option_map STuple (mapM (fun q => sresolve q m) ps)
  | PSSet c => option_map SSet (sresolve c m)
  | PSMap k v => obind (sresolve k m) (fun a => option_map (SMap a) (sresolve v m))
  end.

Definition szresolve (sz : szpat) (m : rmap) : option Z :=
  match sz with SzFix n => Some n | SzVar v _ => afind v (r_sz m) end.

Fixpoint tresolve (p : tpat) (m : rmap) {struct p} : option tty :=
  match p with
  | PVar v _ => afind v (r_ts m)
  | PConc c => Some c
  | PTs sp => option_map TTs (sresolve sp m)
  | PTss sp => option_map TTss (sresolve sp m)
  | PTsl sz e => obind (tresolve e m) (fun te => option_map (TTsl te) (szresolve sz m))
  | PTsd k v => obind (sresolve k m) (fun tk => option_map (TTsd tk) (tresolve v m))
  | PTsw any per mn sp => obind (sresolve sp m) (fun s => if any then None else Some (TTsw s per mn))
  | PTsb named name fps =>
      option_map (TTsb (if named then name else 0))
        (mapM (fun fq => option_map (pair (fst fq)) (tresolve (snd fq) m)) fps)
  | PTsbVar v => afind v (r_ts m)
  | PRef q => option_map mk_ref (tresolve q m)
  | PSignal => Some TSignal
  end.

(* ------------------------------------------------------------------------- *)
(* Rank: RankAccumulator / collect_scalar_rank / collect_ts_rank / operator_rank *)
(* ------------------------------------------------------------------------- *)

(* vars: key (store, name) with store 0 = "ts:", 1 = "scalar:" ; an unordered_map in the code *)
Record racc : Type := mkA { ra_struct : Z; ra_vars : list ((Z * Z) * Z) }.

Definition key_eqb (a b : Z * Z) : bool := (fst a =? fst b) && (snd a =? snd b).

(* add_var: emplace, or lower the stored rank if the new one is smaller *)
Fixpoint vars_add (k : Z * Z) (r : Z) (l : list ((Z * Z) * Z)) : list ((Z * Z) * Z) :=
  match l with
  | [] => [(k, r)]
  | (k', r') :: t => if key_eqb k' k then (k', if r <? r' then r else r') :: t else (k', r') :: vars_add k r t
  end.

Definition add_var (k : Z * Z) (r : Z) (a : racc) : racc := mkA (ra_struct a) (vars_add k r (ra_vars a)).
Definition add_struct (a : racc) : racc := mkA (ra_struct a + 1) (ra_vars a).

Definition half (x : Z) : Z := Z.max 1 (x / 2).

Definition racc_total (a : racc) : Z := fold_left (fun s kv => s + snd kv) (ra_vars a) (ra_struct a).

Fixpoint collect_s (p : spat) (a : racc) (vr : Z) {struct p} : racc :=
  match p with
  | PSVar v cn => add_var (1, v) (match cn with [] => vr | _ => half vr end) a
  | PSConc _ => a
  | PSUnk0 => add_struct a
  | PSUnk1 c | PSHom c | PSSet c => collect_s c (add_struct a) (half vr)
  | PSFix ps =>
      fold_left (fun a q => collect_s q a (half vr)) ps (add_struct a)
  | PSMap k v => collect_s v (collect_s k (add_struct a) (half vr)) (half vr)
  end.

Fixpoint collect_t (p : tpat) (a : racc) (vr : Z) {struct p} : racc :=
  let nested := half vr in
  match p with
  | PVar v cn => add_var (0, v) (match cn with [] => vr | _ => half vr end) a
  | PConc _ | PSignal => a
  | PTs sp | PTss sp | PTsw _ _ _ sp => collect_s sp (add_struct a) 100
  | PTsl _ e => collect_t e (add_struct a) nested
  | PTsd k v => collect_t v (collect_s k (add_struct a) 100) nested
  | PTsbVar v => add_var (0, v) nested (add_struct a)
  | PTsb _ _ fps =>
      fold_left (fun a fq => collect_t (snd fq) a nested) fps (add_struct a)
  | PRef q => collect_t q a vr
  end.

Inductive param : Type := PIn (p : tpat) | PScal (p : spat).

Definition collect_param (a : racc) (pr : param) : racc :=
  match pr with PIn p => collect_t p a 10000 | PScal p => collect_s p a 1 end.

Definition empty_racc : racc := mkA 0 [].

Definition operator_rank (ps : list param) : Z := racc_total (fold_left collect_param ps empty_racc).

(* ------------------------------------------------------------------------- *)
(* Scalar arguments promoted to const sources                                 *)
(* ------------------------------------------------------------------------- *)

(* "t.value_schema == v" for the value schemas of this universe *)
Fixpoint vs_is (t : tty) (v : sty) {struct t} : bool :=
  match t with
  | TTs x => sty_eqb x v
  | TTss e => sty_eqb (SSet e) v
  | TTsd k c => match v with SMap k' v' => sty_eqb k k' && vs_is c v' | _ => false end
  | TSignal => sty_eqb (SAtom 0) v
  | _ => false                      (* TSL: List<_, n>, TSW: List<_, period>, TSB: Bundle, REF: TimeSeriesReference *)
  end.

(* current_value_schema_compatible *)
Fixpoint compat (t : tty) (v : sty) {struct t} : bool :=
  match t with
  | TTs x => sty_eqb x v || bundle_is_a v x
  | TSignal => sty_eqb (SAtom 0) v
  | TRef _ => false
  | TTsw x p _ => match v with SList e => (p =? 0) && sty_eqb x e | _ => false end
  | TTss e => sty_eqb (SSet e) v
  | TTsd k c => match v with SMap k' v' => sty_eqb k k' && compat c v' | _ => false end
  | TTsl c _ => match v with SList e => compat c e | _ => false end
  | TTsb _ _ => false
  end.

(* value_schema_matches_ts_pattern *)
Fixpoint vsm (p : tpat) (v : sty) (m : rmap) {struct p} : option rmap :=
  match p with
  | PVar x _ =>
      match afind x (r_ts m) with
      | Some b => if vs_is b v then Some m else None
      | None => tmatch p (TTs v) m
      end
  | PConc c => if vs_is c v then Some m else None
  | PTs sp => smatch sp v m
  | PTss sp => match v with SSet e => smatch sp e m | _ => None end
  | PTsl sz e =>
      match v with
      | SList ve => match szmatch sz 0 m with Some m' => vsm e ve m' | None => None end
      | _ => None
      end
  | PTsd k c =>
      match v with
      | SMap vk vv => match smatch k vk m with Some m' => vsm c vv m' | None => None end
      | _ => None
      end
  | PTsw any per _ sp =>
      match v with
      | SList ve => if (if any then 0 else per) =? 0 then smatch sp ve m else None
      | _ => None
      end
  | PTsb _ _ _ | PTsbVar _ | PRef _ => None
  | PSignal => if sty_eqb v (SAtom 0) then Some m else None
  end.

(* scalar_value_matches_ts_pattern *)
Fixpoint promote (p : tpat) (v : sty) (m : rmap) {struct p} : option rmap :=
  match p with
  | PRef q => promote q v m
  | PVar x _ =>
      match afind x (r_ts m) with
      | Some b => if compat b v then Some m else None
      | None => vsm p v m
      end
  | PConc c => if compat c v then Some m else None
  | PTs (PSConc c) => if sty_eqb v c then Some m else None
  | _ => vsm p v m
  end.

(* coerce_scalar_value_to_meta between distinct metas: the standard numeric scalars (bool counts) *)
Definition numeric_atom (s : sty) : bool :=
  match s with SAtom a => (a =? 0) || (a =? 1) || (a =? 2) || (a =? 4) | _ => false end.
Definition coercible (v c : sty) : bool := numeric_atom v && numeric_atom c.

(* ------------------------------------------------------------------------- *)
(* Candidates, queries, try_match                                             *)
(* ------------------------------------------------------------------------- *)

Inductive arg : Type :=
| ATs (t : tty)            (* time-series port with a schema *)
| ASc (s : sty)            (* scalar value of schema s *)
| ANull                    (* null source: time-series argument without schema *)
| AAbsent.                 (* scalar argument without a value (Python None) *)

(* c_defaults is parallel to c_params: the argument normalize_call synthesises for an omitted
   parameter (ParamPattern::default_value), or None when the parameter is required.
     Scalar parameter, default value of schema s -> ASc s;   Scalar parameter, None default -> AAbsent
     Input parameter,  None default -> ANull (null source);  Input parameter, value default -> ASc s (promoted) *)
Record cand : Type := mkCand {
  c_label : Z; c_has_out : bool; c_out : tpat; c_params : list param; c_rank : Z;
  c_defaults : list (option arg) }.

Record query : Type := mkQuery {
  q_outreq : option bool; q_expected : option tty; q_init : rmap; q_hints : list Z; q_args : list arg }.

(* one argument of try_match's loop; state = (map, rank adjustment) *)
Definition match_arg (pr : param) (a : arg) (st : rmap * Z) : option (rmap * Z) :=
  let '(m, adj) := st in
  match pr, a with
  | PIn _, ANull => Some (m, adj)
  | PIn p, ATs t =>
      option_map (fun m' => (m', adj + match p with PConc c => adaptation_rank_c c t | _ => 0 end)) (imatch p t m)
  | PIn p, ASc v => option_map (fun m' => (m', adj + 1)) (promote p v m)
  | PIn _, AAbsent => None
  | PScal _, ATs _ | PScal _, ANull => None
  | PScal (PSVar _ _), AAbsent => Some (m, adj)
  | PScal _, AAbsent => None
  | PScal (PSConc c), ASc v =>
      if sty_eqb v c then Some (m, adj) else if coercible v c then Some (m, adj + 1) else None
  | PScal sp, ASc v => option_map (fun m' => (m', adj)) (smatch sp v m)
  end.

Fixpoint match_args (ps : list param) (al : list arg) (st : rmap * Z) {struct ps} : option (rmap * Z) :=
  match ps, al with
  | [], [] => Some st
  | pr :: ps', a :: al' => match match_arg pr a st with Some st' => match_args ps' al' st' | None => None end
  | _, _ => None
  end.

(* collect_size_vars: TSL size variables, through children only, first occurrence order *)
Fixpoint size_vars_t (p : tpat) (acc : list Z) {struct p} : list Z :=
  match p with
  | PTsl sz e =>
      let acc' := match sz with
                  | SzVar v _ => if existsb (fun x => x =? v) acc then acc else acc ++ [v]
                  | SzFix _ => acc
                  end in
      size_vars_t e acc'
  | PTsd _ v => size_vars_t v acc
  | PRef q => size_vars_t q acc
  | PTsb _ _ fps =>
      fold_left (fun acc fq => size_vars_t (snd fq) acc) fps acc
  | _ => acc
  end.

Definition size_vars (c : cand) : list Z :=
  let acc := fold_left (fun acc pr => match pr with PIn p => size_vars_t p acc | PScal _ => acc end) (c_params c) [] in
  if c_has_out c then size_vars_t (c_out c) acc else acc.

(* bind the size variables positionally from the hints; None = bind_size threw *)
Fixpoint bind_hints (names hints : list Z) (m : rmap) : option rmap :=
  match names, hints with
  | v :: names', h :: hints' => match bind_sz m v h with Some m' => bind_hints names' hints' m' | None => None end
  | _, _ => Some m
  end.

Inductive tmr : Type := TMErr | TMRej | TMOk (m : rmap) (rank : Z).

(* normalize_call for positional calls: arguments fill the parameters in order; more arguments
   than parameters reject; every omitted parameter takes its default (counted in defaults_used)
   or, lacking one, rejects ("missing required argument").  Result: the positional argument
   list in declared parameter order and the number of defaults used. *)
Fixpoint normalize (defs : list (option arg)) (al : list arg) {struct defs} : option (list arg * Z) :=
  match defs, al with
  | [], [] => Some ([], 0)
  | [], _ :: _ => None
  | _ :: ds, a :: al' =>
      match normalize ds al' with Some (l, k) => Some (a :: l, k) | None => None end
  | d :: ds, [] =>
      match d with
      | Some a => match normalize ds [] with Some (l, k) => Some (a :: l, k + 1) | None => None end
      | None => None
      end
  end.

Definition try_match (c : cand) (q : query) : tmr :=
  match normalize (c_defaults c) (q_args q) with                           (* normalize_call *)
  | None => TMRej
  | Some (nargs, dused) =>
  if negb (length (c_params c) =? length nargs)%nat then TMRej
  else
    match (match q_hints q with [] => Some (q_init q) | _ => bind_hints (size_vars c) (q_hints q) (q_init q) end) with
    | None => TMErr
    | Some m0 =>
        if match q_outreq q with Some b => negb (Bool.eqb (c_has_out c) b) | None => false end then TMRej
        else
          match (match q_expected q with
                 | Some t => if c_has_out c then omatch (c_out c) t m0 else Some m0
                 | None => Some m0
                 end) with
          | None => TMRej
          | Some m1 =>
              match match_args (c_params c) nargs (m1, dused) with     (* rank_adjustment starts at defaults_used *)
              | None => TMRej
              | Some (m2, adj) =>
                  if c_has_out c then
                    match tresolve (c_out c) m2 with
                    | Some _ => TMOk m2 (c_rank c + adj)
                    | None => TMRej
                    end
                  else TMOk m2 (c_rank c + adj)
              end
          end
    end
  end.

(* ------------------------------------------------------------------------- *)
(* OperatorRegistry::resolve                                                  *)
(* ------------------------------------------------------------------------- *)

Definition surv : Type := (cand * rmap * Z)%type.
Definition s_cand (s : surv) : cand := fst (fst s).
Definition s_map (s : surv) : rmap := snd (fst s).
Definition s_rank (s : surv) : Z := snd s.

(* the candidate loop; None = an exception other than a resolution error escaped *)
Fixpoint collect (cs : list cand) (q : query) : option (list surv) :=
  match cs with
  | [] => Some []
  | c :: r =>
      match try_match c q with
      | TMErr => None
      | TMRej => collect r q
      | TMOk m k => option_map (cons (c, m, k)) (collect r q)
      end
  end.

(* std::stable_sort by rank: insertion keeps registration order among equal ranks *)
Fixpoint insert_s (x : surv) (l : list surv) : list surv :=
  match l with
  | [] => [x]
  | y :: r => if s_rank x <=? s_rank y then x :: l else y :: insert_s x r
  end.
Definition sort_s (l : list surv) : list surv := fold_right insert_s [] l.

Inductive outcome : Type :=
| OSel (s : surv)
| ONoMatch
| OAmb (tied : list surv)
| OErr.

Definition decide (sorted : list surv) : outcome :=
  match sorted with
  | [] => ONoMatch
  | s0 :: rest =>
      match rest with
      | s1 :: _ => if s_rank s0 =? s_rank s1
                   then OAmb (filter (fun s => s_rank s =? s_rank s0) sorted)
                   else OSel s0
      | [] => OSel s0
      end
  end.

Definition resolve (cs : list cand) (q : query) : outcome :=
  match collect cs q with
  | None => OErr
  | Some l => decide (sort_s l)
  end.

(* the resolved output schema of a selection *)
Definition output_of (s : surv) : option tty :=
  if c_has_out (s_cand s) then tresolve (c_out (s_cand s)) (s_map s) else None.

(* ------------------------------------------------------------------------- *)
(* Wire format (see gen/resolve.py)                                           *)
(* ------------------------------------------------------------------------- *)

Definition parser (A : Type) : Type := list Z -> option (A * list Z).

Fixpoint p_many {A : Type} (p : parser A) (n : nat) (l : list Z) : option (list A * list Z) :=
  match n with
  | O => Some ([], l)
  | S n' => match p l with
            | Some (x, r) => match p_many p n' r with Some (xs, r') => Some (x :: xs, r') | None => None end
            | None => None
            end
  end.

Definition cnt_ok (n : Z) : bool := (0 <=? n) && (n <=? 16).
Definition size_ok (n : Z) : bool := (0 <=? n) && (n <=? 1000).

Fixpoint p_sty (f : nat) (l : list Z) : option (sty * list Z) :=
  match f with
  | O => None
  | S f' =>
      match l with
      | 1 :: a :: r => if (0 <=? a) && (a <=? 4) then Some (SAtom a, r) else None
      | 2 :: n :: r =>
          if cnt_ok n then
            match p_many (p_sty f') (Z.to_nat n) r with Some (xs, r') => Some (STuple xs, r') | None => None end
          else None
      | 3 :: r => match p_sty f' r with Some (e, r') => Some (SList e, r') | None => None end
      | 4 :: r => match p_sty f' r with Some (e, r') => Some (SSet e, r') | None => None end
      | 5 :: r =>
          match p_sty f' r with
          | Some (k, r') => match p_sty f' r' with Some (v, r'') => Some (SMap k v, r'') | None => None end
          | None => None
          end
      | 7 :: id :: n :: r =>
          if (0 <=? id) && cnt_ok n then
            match p_many (p_sty f') (Z.to_nat n) r with Some (ps, r') => Some (SBundle id ps, r') | None => None end
          else None
      | _ => None
      end
  end.

Definition p_field {A : Type} (p : parser A) : parser (Z * A) :=
  fun l => match l with
           | f :: r => match p r with Some (x, r') => Some ((f, x), r') | None => None end
           | [] => None
           end.

Fixpoint p_tty (f : nat) (l : list Z) : option (tty * list Z) :=
  match f with
  | O => None
  | S f' =>
      match l with
      | 10 :: r => match p_sty f' r with Some (s, r') => Some (TTs s, r') | None => None end
      | 11 :: r => match p_sty f' r with Some (s, r') => Some (TTss s, r') | None => None end
      | 12 :: n :: r =>
          if size_ok n then match p_tty f' r with Some (e, r') => Some (TTsl e n, r') | None => None end else None
      | 13 :: r =>
          match p_sty f' r with
          | Some (k, r') => match p_tty f' r' with Some (v, r'') => Some (TTsd k v, r'') | None => None end
          | None => None
          end
      | 14 :: p :: mn :: r =>
          if size_ok p && size_ok mn then
            match p_sty f' r with Some (s, r') => Some (TTsw s p mn, r') | None => None end
          else None
      | 15 :: nm :: n :: r =>
          if (0 <=? nm) && cnt_ok n then
            match p_many (p_field (p_tty f')) (Z.to_nat n) r with
            | Some (fs, r') => Some (TTsb nm fs, r')
            | None => None
            end
          else None
      | 16 :: r => match p_tty f' r with Some (t, r') => Some (mk_ref t, r') | None => None end
      | 17 :: r => Some (TSignal, r)
      | _ => None
      end
  end.

Fixpoint p_spat (f : nat) (l : list Z) : option (spat * list Z) :=
  match f with
  | O => None
  | S f' =>
      match l with
      | 20 :: v :: n :: r =>
          if cnt_ok n then
            match p_many (p_sty f') (Z.to_nat n) r with Some (cs, r') => Some (PSVar v cs, r') | None => None end
          else None
      | 21 :: r => match p_sty f' r with Some (s, r') => Some (PSConc s, r') | None => None end
      | 22 :: 0 :: r => Some (PSUnk0, r)
      | 22 :: 1 :: r => match p_spat f' r with Some (c, r') => Some (PSUnk1 c, r') | None => None end
      | 23 :: r => match p_spat f' r with Some (c, r') => Some (PSHom c, r') | None => None end
      | 24 :: n :: r =>
          if cnt_ok n then
            match p_many (p_spat f') (Z.to_nat n) r with Some (ps, r') => Some (PSFix ps, r') | None => None end
          else None
      | 25 :: r => match p_spat f' r with Some (c, r') => Some (PSSet c, r') | None => None end
      | 26 :: r =>
          match p_spat f' r with
          | Some (k, r') => match p_spat f' r' with Some (v, r'') => Some (PSMap k v, r'') | None => None end
          | None => None
          end
      | _ => None
      end
  end.

Definition p_size : parser Z :=
  fun l => match l with n :: r => if size_ok n then Some (n, r) else None | [] => None end.

Fixpoint p_tpat (f : nat) (l : list Z) : option (tpat * list Z) :=
  match f with
  | O => None
  | S f' =>
      match l with
      | 30 :: v :: n :: r =>
          if cnt_ok n then
            match p_many (p_tty f') (Z.to_nat n) r with Some (cs, r') => Some (PVar v cs, r') | None => None end
          else None
      | 31 :: r => match p_tty f' r with Some (t, r') => Some (PConc t, r') | None => None end
      | 32 :: r => match p_spat f' r with Some (s, r') => Some (PTs s, r') | None => None end
      | 33 :: r => match p_spat f' r with Some (s, r') => Some (PTss s, r') | None => None end
      | 34 :: 0 :: n :: r =>
          if size_ok n then match p_tpat f' r with Some (e, r') => Some (PTsl (SzFix n) e, r') | None => None end
          else None
      | 34 :: 1 :: v :: n :: r =>
          if cnt_ok n then
            match p_many p_size (Z.to_nat n) r with
            | Some (cs, r') => match p_tpat f' r' with Some (e, r'') => Some (PTsl (SzVar v cs) e, r'') | None => None end
            | None => None
            end
          else None
      | 35 :: r =>
          match p_spat f' r with
          | Some (k, r') => match p_tpat f' r' with Some (v, r'') => Some (PTsd k v, r'') | None => None end
          | None => None
          end
      | 36 :: any :: p :: mn :: r =>
          if size_ok p && size_ok mn && ((any =? 0) || (any =? 1)) then
            match p_spat f' r with
            | Some (s, r') => Some (if any =? 1 then PTsw true 0 0 s else PTsw false p mn s, r')
            | None => None
            end
          else None
      | 37 :: named :: nm :: n :: r =>
          if ((named =? 0) || (named =? 1)) && (0 <=? nm) && cnt_ok n then
            match p_many (p_field (p_tpat f')) (Z.to_nat n) r with
            | Some (fs, r') => Some (PTsb (named =? 1) nm fs, r')
            | None => None
            end
          else None
      | 38 :: v :: r => Some (PTsbVar v, r)
      | 39 :: r => match p_tpat f' r with Some (t, r') => Some (PRef t, r') | None => None end
      | 40 :: r => Some (PSignal, r)
      | _ => None
      end
  end.

Fixpoint enc_sty (s : sty) : list Z :=
  match s with
  | SAtom a => [1; a]
  | STuple l => 2 :: Z.of_nat (length l) :: flat_map enc_sty l
  | SList e => 3 :: enc_sty e
  | SSet e => 4 :: enc_sty e
  | SMap k v => 5 :: enc_sty k ++ enc_sty v
  | SBundle id ps => 7 :: id :: Z.of_nat (length ps) :: flat_map enc_sty ps
  end.

Fixpoint enc_tty (t : tty) : list Z :=
  match t with
  | TTs s => 10 :: enc_sty s
  | TTss s => 11 :: enc_sty s
  | TTsl e n => 12 :: n :: enc_tty e
  | TTsd k v => 13 :: enc_sty k ++ enc_tty v
  | TTsw s p mn => 14 :: p :: mn :: enc_sty s
  | TTsb nm fs => 15 :: nm :: Z.of_nat (length fs) :: flat_map (fun ft => fst ft :: enc_tty (snd ft)) fs
  | TRef x => 16 :: enc_tty x
  | TSignal => [17]
  end.

(* one bind operation of a script / an initial resolution *)
Inductive bindop : Type := BTs (v : Z) (t : tty) | BSc (v : Z) (s : sty) | BSz (v : Z) (n : Z).

Definition p_bind (f : nat) : parser bindop :=
  fun l => match l with
           | 0 :: v :: r => match p_tty f r with Some (t, r') => Some (BTs v t, r') | None => None end
           | 1 :: v :: r => match p_sty f r with Some (s, r') => Some (BSc v s, r') | None => None end
           | 2 :: v :: n :: r => if size_ok n then Some (BSz v n, r) else None
           | _ => None
           end.

Definition apply_bind (m : rmap) (b : bindop) : option rmap :=
  match b with BTs v t => bind_ts m v t | BSc v s => bind_sc m v s | BSz v n => bind_sz m v n end.

(* a rejected bind leaves the map as it was *)
Definition apply_bind_keep (m : rmap) (b : bindop) : rmap :=
  match apply_bind m b with Some m' => m' | None => m end.

(* default of a parameter: 0 required | 1 None default | 2 S value default of schema S *)
Definition p_default (f : nat) (input : bool) : parser (option arg) :=
  fun l => match l with
           | 0 :: r => Some (None, r)
           | 1 :: r => Some (Some (if input then ANull else AAbsent), r)
           | 2 :: r => match p_sty f r with Some (s, r') => Some (Some (ASc s), r') | None => None end
           | _ => None
           end.

Definition p_param (f : nat) : parser (param * option arg) :=
  fun l => match l with
           | 0 :: r => match p_tpat f r with
                       | Some (p, r') => match p_default f true r' with Some (d, r'') => Some ((PIn p, d), r'') | None => None end
                       | None => None
                       end
           | 1 :: r => match p_spat f r with
                       | Some (p, r') => match p_default f false r' with Some (d, r'') => Some ((PScal p, d), r'') | None => None end
                       | None => None
                       end
           | _ => None
           end.

Definition p_arg (f : nat) : parser arg :=
  fun l => match l with
           | 0 :: r => match p_tty f r with Some (t, r') => Some (ATs t, r') | None => None end
           | 1 :: r => match p_sty f r with Some (s, r') => Some (ASc s, r') | None => None end
           | 2 :: r => Some (ANull, r)
           | 3 :: r => Some (AAbsent, r)
           | _ => None
           end.

Definition p_index : parser Z :=
  fun l => match l with i :: r => if 0 <=? i then Some (i, r) else None | [] => None end.

Record spec : Type := mkSpec {
  sp_ovs : list cand; sp_orders : list (list Z); sp_queries : list query; sp_scripts : list (list bindop);
  sp_probes : list (sty * sty) }.    (* direct bundle_is_a / bundle_inheritance_distance probes (candidate, base) *)

(* registration computes the rank from the parameter patterns (defaults do not enter it) *)
Definition mk_cand_d (label : Z) (has_out : bool) (out : tpat) (pds : list (param * option arg)) : cand :=
  mkCand label has_out out (map fst pds) (operator_rank (map fst pds)) (map snd pds).

Definition mk_cand (label : Z) (has_out : bool) (out : tpat) (ps : list param) : cand :=
  mk_cand_d label has_out out (map (fun p => (p, None)) ps).

(* one case line; None = malformed *)
Definition p_line (s : spec) (l : list Z) : option spec :=
  let f := S (length l) in
  match l with
  | 2 :: label :: ho :: r =>
      if (ho =? 0) || (ho =? 1) then
        match (if ho =? 1 then p_tpat f r else Some (PSignal, r)) with
        | Some (out, n :: r') =>
            if cnt_ok n then
              match p_many (p_param f) (Z.to_nat n) r' with
              | Some (ps, []) =>
                  Some (mkSpec (sp_ovs s ++ [mk_cand_d label (ho =? 1) out ps]) (sp_orders s) (sp_queries s) (sp_scripts s) (sp_probes s))
              | _ => None
              end
            else None
        | _ => None
        end
      else None
  | 3 :: n :: r =>
      if cnt_ok n then
        match p_many p_index (Z.to_nat n) r with
        | Some (ord, []) => Some (mkSpec (sp_ovs s) (sp_orders s ++ [ord]) (sp_queries s) (sp_scripts s) (sp_probes s))
        | _ => None
        end
      else None
  | 4 :: oreq :: he :: r =>
      if ((oreq =? -1) || (oreq =? 0) || (oreq =? 1)) && ((he =? 0) || (he =? 1)) then
        match (if he =? 1 then match p_tty f r with Some (t, r') => Some (Some t, r') | None => None end
               else Some (None, r)) with
        | Some (expected, ni :: r1) =>
            if cnt_ok ni then
              match p_many (p_bind f) (Z.to_nat ni) r1 with
              | Some (binds, nh :: r2) =>
                  if cnt_ok nh then
                    match p_many p_size (Z.to_nat nh) r2 with
                    | Some (hints, na :: r3) =>
                        if cnt_ok na then
                          match p_many (p_arg f) (Z.to_nat na) r3 with
                          | Some (args, []) =>
                              let q := mkQuery (if oreq =? -1 then None else Some (oreq =? 1)) expected
                                               (fold_left apply_bind_keep binds empty_rmap) hints args in
                              Some (mkSpec (sp_ovs s) (sp_orders s) (sp_queries s ++ [q]) (sp_scripts s) (sp_probes s))
                          | _ => None
                          end
                        else None
                    | _ => None
                    end
                  else None
              | _ => None
              end
            else None
        | _ => None
        end
      else None
  | 8 :: r =>
      match p_sty f r with
      | Some (c, r') =>
          match p_sty f r' with
          | Some (b, []) => Some (mkSpec (sp_ovs s) (sp_orders s) (sp_queries s) (sp_scripts s) (sp_probes s ++ [(c, b)]))
          | _ => None
          end
      | None => None
      end
  | 7 :: n :: r =>
      if cnt_ok n then
        match p_many (p_bind f) (Z.to_nat n) r with
        | Some (ops, []) => Some (mkSpec (sp_ovs s) (sp_orders s) (sp_queries s) (sp_scripts s ++ [ops]) (sp_probes s))
        | _ => None
        end
      else None
  | _ => None
  end.

Fixpoint p_case (w : wire) (s : spec) : option spec :=
  match w with
  | [] => Some s
  | l :: r => match p_line s l with Some s' => p_case r s' | None => None end
  end.

Definition orders_ok (s : spec) : bool :=
  forallb (forallb (fun i => i <? Z.of_nat (length (sp_ovs s)))) (sp_orders s).

(* ---- printing ---- *)

Fixpoint insert_by {A : Type} (le : A -> A -> bool) (x : A) (l : list A) : list A :=
  match l with [] => [x] | y :: r => if le x y then x :: l else y :: insert_by le x r end.
Definition sort_by {A : Type} (le : A -> A -> bool) (l : list A) : list A := fold_right (insert_by le) [] l.

Definition key_le {A : Type} (a b : Z * A) : bool := fst a <=? fst b.

Definition map_lines (prefix : list Z) (m : rmap) : wire :=
  map (fun kv => prefix ++ 0 :: fst kv :: enc_tty (snd kv)) (sort_by key_le (r_ts m)) ++
  map (fun kv => prefix ++ 1 :: fst kv :: enc_sty (snd kv)) (sort_by key_le (r_sc m)) ++
  map (fun kv => prefix ++ [2; fst kv; snd kv]) (sort_by key_le (r_sz m)).

Definition pair_le (a b : Z * Z) : bool := (fst a <? fst b) || ((fst a =? fst b) && (snd a <=? snd b)).

Definition outcome_lines (o q : Z) (r : outcome) : wire :=
  match r with
  | OSel s =>
      [50; o; q; 0; c_label (s_cand s); s_rank s] ::
      map_lines [51; o; q] (s_map s) ++
      (if c_has_out (s_cand s)
       then [[52; o; q] ++ match output_of s with Some t => enc_tty t | None => [-1] end]
       else [])
  | ONoMatch => [[50; o; q; 1; -1; -1]]
  | OAmb tied =>
      [50; o; q; 2; -1; -1] ::
      map (fun lr => [53; o; q; fst lr; snd lr])
          (sort_by pair_le (map (fun s => (c_label (s_cand s), s_rank s)) tied))
  | OErr => [[50; o; q; 3; -1; -1]]
  end.

Definition solo_line (q i : Z) (r : outcome) : list Z :=
  match r with
  | OSel s => [55; q; i; 0; s_rank s]
  | ONoMatch => [55; q; i; 1; -1]
  | OAmb _ => [55; q; i; 2; -1]
  | OErr => [55; q; i; 3; -1]
  end.

Fixpoint run_script (ops : list bindop) (m : rmap) : list Z * rmap :=
  match ops with
  | [] => ([], m)
  | b :: r =>
      match apply_bind m b with
      | Some m' => let '(fl, mf) := run_script r m' in (1 :: fl, mf)
      | None => let '(fl, mf) := run_script r m in (0 :: fl, mf)
      end
  end.

Definition indexed {A : Type} (l : list A) : list (Z * A) := combine (map Z.of_nat (seq 0 (length l))) l.

Definition family_of (s : spec) (ord : list Z) : list cand :=
  flat_map (fun i => match nth_error (sp_ovs s) (Z.to_nat i) with Some c => [c] | None => [] end) ord.

Definition probe_line (k : Z) (cb : sty * sty) : list Z :=
  let '(c, b) := cb in
  match c, b with
  | SBundle _ _, SBundle bid _ =>
      [59; k; b2z (sty_eqb c b || bundle_is_a c b);
       match bdist bid c with Some d => Z.of_nat d | None => -1 end]
  | _, _ => [59; k; b2z (sty_eqb c b); -1]
  end.

Definition run_spec (s : spec) : wire :=
  map (fun kp => probe_line (fst kp) (snd kp)) (indexed (sp_probes s)) ++
  map (fun ic => [56; fst ic; c_rank (snd ic)]) (indexed (sp_ovs s)) ++
  flat_map (fun ks => let '(fl, mf) := run_script (snd ks) empty_rmap in
                      (57 :: fst ks :: fl) :: map_lines [58; fst ks] mf) (indexed (sp_scripts s)) ++
  flat_map (fun ic => map (fun jq => solo_line (fst jq) (fst ic) (resolve [snd ic] (snd jq))) (indexed (sp_queries s)))
           (indexed (sp_ovs s)) ++
  flat_map (fun oo => flat_map (fun jq => outcome_lines (fst oo) (fst jq) (resolve (family_of s (snd oo)) (snd jq)))
                               (indexed (sp_queries s)))
           (indexed (sp_orders s)).

Definition run_resolve (w : wire) : wire :=
  match p_case w (mkSpec [] [] [] [] []) with
  | Some s => if orders_ok s then run_spec s else [[99]]
  | None => [[99]]
  end.
