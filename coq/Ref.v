(* Ref.v — CONTRACT-LEVEL model of reading a time-series through a reference
   (property C13).  What is mirrored line for line and what is modelled at the
   level of its contract:

   mirrored
     include/hgraph/lib/std/operators/impl/control_impl.h  if_then_else_impl::eval,
       if_cmp_impl::eval (l.663-716): pick the branch from the selector value, the
       guard  condition.modified || selected.modified,  selected.valid,  the
       SAME-REFERENCE de-duplication  out.valid && out.value == reference -> return,
       otherwise publish                                     -> [selector]
     src/hgraph/types/time_series/ts_output/alternative.cpp bind_target_link_at
       (l.385-412): same-target de-duplication, keyed shapes bind "sampled", others
       bind the "current value"                              -> [rebind]
     src/hgraph/types/time_series/ts_input/target_link.cpp bind_current_value /
       bind_impl: the link records itself modified at the retarget time iff the new
       target has a value (scalar) / iff new or previous target is valid (keyed,
       publish_sampled_transition), detach unsubscribes the old target, the new
       target is subscribed                                  -> [rebind], [step] phase 1
     src/hgraph/types/time_series/ts_input/base_view.cpp InputDataCursor::modified /
       last_modified_time / TSInputView::delta_value: modified blends the link's own
       tracking with the target's; the delta of a rebound scalar is its current
       value; target_link_ops.cpp: sampled structural delta (old-only keys removed,
       new-only keys added, live dictionary children all modified)
                                                             -> [read]
   contract level (NOT mirrored; ~5k lines of alternative.cpp / target_link*.cpp)
     the from-REF output alternative with its per-consumer attachments is ONE link
     (current target, link modification time, sampled-transition record) shared by
     all consumers; slot stores, observer lists, active tries are abstracted to
     "the consumers of the link are notified"; the engine around it is a small
     cycle-stepped interpreter (sources tick, then the selector, then the
     consumers that were notified), not the scheduling core of Engine.v.

   Values.  Every shape is rendered as a finite map [kv] (association list sorted
   by key): TS<int> is the single key 0; TSS<int> maps each member to 0;
   TSD<int,TS<int>> maps keys to child values.  A delta is (updated entries,
   removed keys).

   Executable definitions only; the theorems are in RefFacts.v. *)
Require Import Base.

(* ------------------------------------------------------------------ finite maps *)
Definition kv := list (Z * Z).

Fixpoint kv_mem (k : Z) (m : kv) : bool :=
  match m with [] => false | e :: r => (k =? fst e) || kv_mem k r end.

Fixpoint kv_set (k v : Z) (m : kv) : kv :=
  match m with
  | [] => [(k, v)]
  | e :: r => if k <? fst e then (k, v) :: m
              else if k =? fst e then (k, v) :: r
              else e :: kv_set k v r
  end.

Definition kv_del (k : Z) (m : kv) : kv := filter (fun e => negb (fst e =? k)) m.
Definition kv_keys (m : kv) : list Z := map fst m.
(* entries of a whose key does not occur in b *)
Definition kv_minus (a b : kv) : kv := filter (fun e => negb (kv_mem (fst e) b)) a.

Fixpoint memz (k : Z) (l : list Z) : bool :=
  match l with [] => false | x :: r => (k =? x) || memz k r end.

(* ------------------------------------------------------------------ shapes *)
Inductive shape := ShTS | ShTSS | ShTSD.
Definition is_keyed (sh : shape) : bool := match sh with ShTS => false | _ => true end.

(* TSD payload: pairs key value, value < 0 erases *)
Fixpoint apply_pairs (p : list Z) (m : kv) : kv :=
  match p with
  | k :: v :: r => apply_pairs r (if v <? 0 then kv_del k m else kv_set k v m)
  | _ => m
  end.
Fixpoint set_keys (p : list Z) : list Z :=
  match p with
  | k :: v :: r => if v <? 0 then set_keys r else k :: set_keys r
  | _ => []
  end.

(* the driver's apply_payload *)
Definition apply_tick (sh : shape) (cur : kv) (p : list Z) : kv :=
  match sh with
  | ShTS => [(0, hdz p)]
  | ShTSS => fold_left (fun m x => if 0 <? x then kv_set x 0 m else if x <? 0 then kv_del (- x) m else m) p cur
  | ShTSD => apply_pairs p cur
  end.

(* the delta a direct reader of the target sees in the cycle of that tick *)
Definition tick_delta (sh : shape) (old new : kv) (p : list Z) : kv * list Z :=
  match sh with
  | ShTS => (new, [])
  | ShTSS => (kv_minus new old, kv_keys (kv_minus old new))
  | ShTSD => (filter (fun e => memz (fst e) (set_keys p)) new, kv_keys (kv_minus old new))
  end.

(* the delta of a SAMPLED rebind: what the consumer saw before vs. the new target's
   current contents.  Scalar: the current value.  Set: new-only added, old-only
   removed.  Dictionary: every live child modified, old-only keys removed. *)
Definition sample_delta (sh : shape) (prev cur : kv) : kv * list Z :=
  match sh with
  | ShTS => (cur, [])
  | ShTSS => (kv_minus cur prev, kv_keys (kv_minus prev cur))
  | ShTSD => (cur, kv_keys (kv_minus prev cur))
  end.

(* What the code actually computes for the REMOVED side (target_link_ops.cpp
   target_link_previous_slot_was_published: slot_published = live || removed): the
   slots of the previous target that still carry the "removed" mark of ITS LAST TICK
   count as published even when that tick was in an earlier cycle, so those [stale]
   keys are reported removed once more unless the new target holds them.  (Finding
   C13-stale-removed, see docs/notes-ref.md.) *)
Definition add_stale (stale : list Z) (prev : kv) : kv :=
  fold_left (fun m k => if kv_mem k m then m else kv_set k 0 m) stale prev.
Definition sample_delta_impl (sh : shape) (prev : kv) (stale : list Z) (cur : kv) : kv * list Z :=
  (fst (sample_delta sh prev cur),
   match sh with ShTS => [] | _ => kv_keys (kv_minus (add_stale stale prev) cur) end).

(* ------------------------------------------------------------------ state *)
(* a target output: value, last-modified time, and the delta of its last tick *)
Record target := mkT {
  tvalid : bool;           (* has_current_value: ticked at least once *)
  tval   : kv;
  tlmt   : Z;              (* MIN_DT = never *)
  tprev  : kv;             (* contents before the last tick *)
  tupd   : kv;             (* delta of the last tick *)
  trem   : list Z }.
Definition t0 : target := mkT false [] MIN_DT [] [] [].

(* the dereferencing link below the reference output (shared by its consumers) *)
Record link := mkL {
  lk_tgt   : option nat;   (* currently bound target *)
  lk_lmt   : Z;            (* the link's OWN modification time *)
  lk_trans : Z;            (* time of the last published sampled transition (keyed); MIN_DT none *)
  lk_prev  : kv;           (* what was visible before that transition *)
  lk_stale : list Z }.     (* keys removed by the previous target's last tick, if that was an earlier cycle *)
Definition l0 : link := mkL None MIN_DT MIN_DT [] [].

(* the selection operators' own state.  Plain ops use only s_out.  CHAINED selection
   (op 6, 7): outer = select(c2, inner, C) where inner = if_then_else(c1, A, B) is itself
   a reference output: s_in is the inner REF output, s_c2 the outer selector's last
   value (the outer node is also evaluated when the inner reference ticks). *)
Record selst := mkSel {
  s_in  : option nat;      (* inner REF output (None = not valid) *)
  s_c2  : option Z;        (* last value of the outer selector input *)
  s_out : option nat }.    (* the REF output the consumers read through (None = not valid) *)
Definition sel0 : selst := mkSel None None None.

Record state := mkS {
  tgts : list target;      (* index 0,1,2 = true/lt, false/eq, gt  (chained: A, B, C) *)
  sel  : selst;
  lnk  : link }.
Definition s0 : state := mkS [t0; t0; t0] sel0 l0.
Definition rout (st : state) : option nat := s_out (sel st).

Definition get_t (ts : list target) (i : nat) : target := nth i ts t0.

(* what one cycle of the script does *)
Record cyc := mkC {
  c_t     : Z;
  c_sel   : option Z;                   (* selector source ticks with this value *)
  c_sel2  : option Z;                   (* chained ops: the OUTER selector source (k = 4) ticks *)
  c_ticks : list (option (list Z));     (* per target: payload of its tick *)
  c_poke  : bool;                       (* the unrelated poke source ticks *)
  c_force : bool;                       (* every consumer is evaluated anyway: the first cycle of the
                                           nested graph that holds the consumers (op 3, 5) *)
  c_nest  : bool }.                     (* op 5: the REFERENCE crosses into the nested graph and is dereferenced
                                           inside; every evaluation of the nested node (reference tick or poke)
                                           also evaluates the active consumers inside (observed; they read
                                           modified = false) *)

Definition tick_of (c : cyc) (i : nat) : option (list Z) := nth i (c_ticks c) None.
Definition ticks (c : cyc) (i : nat) : bool := match tick_of c i with Some _ => true | None => false end.

(* ------------------------------------------------------------------ the mechanism *)
Definition tick_target (sh : shape) (t : Z) (p : list Z) (g : target) : target :=
  let new := apply_tick sh (tval g) p in
  let d := tick_delta sh (tval g) new p in
  mkT true new t (tval g) (fst d) (snd d).

Fixpoint tick_all (sh : shape) (t : Z) (ps : list (option (list Z))) (ts : list target) {struct ts} : list target :=
  match ts with
  | [] => []
  | g :: r =>
      match ps with
      | [] => ts
      | Some p :: ps' => tick_target sh t p g :: tick_all sh t ps' r
      | None :: ps' => g :: tick_all sh t ps' r
      end
  end.

(* The operator code [op] carries two things: the selection shape [bop op] (0 if_then_else,
   1 if_cmp, 3/5 nested consumers, 6/7 chained, 8 list[key], 4 oracle-only) and, from 10 upwards, the
   flag "the selectable targets are SUB-OUTPUTS OF ONE PRODUCER NODE" (the three fields of
   one bundle output, reached through getattr_) instead of outputs of separate nodes. *)
Definition bop (op : Z) : Z := op mod 10.
Definition same_producer (op : Z) : bool := (op / 10) mod 2 =? 1.
(* from 20 upwards: the consumers sit in their OWN nested graph and the dereferenced value reaches
   them through a nested pass-through (driver header field wrap = 1..4, depths 1/2 on each side) *)
Definition wrapped (op : Z) : bool := 20 <=? op.

(* IDENTITY of a target: the owning node and the position (path) inside its output.  A
   reference value designates such an identity; time_series_reference.cpp compares
   references, and alternative.cpp bind_target_link_at compares bound outputs
   (TSOutputHandle::same_as), on BOTH components. *)
Record tid := mkTid { t_node : nat; t_path : nat }.
Definition tid_of (op : Z) (i : nat) : tid :=
  if same_producer op then mkTid 0 i      (* field i of the one producer node *)
  else mkTid (S i) 0.                     (* the root output of source node i *)
Definition tid_eqb (a b : tid) : bool := Nat.eqb (t_node a) (t_node b) && Nat.eqb (t_path a) (t_path b).
Definition same_target (op : Z) (i j : nat) : bool := tid_eqb (tid_of op i) (tid_of op j).

(* which branch the selector value designates: if_then_else / if_cmp (bop 1) / list[key] (bop 8:
   container_impl.h getitem_tsl_by_index::eval — evaluated on a key tick or any tick of the list,
   publishes the reference of element [key] with the same same-reference de-duplication; the
   driver's key source maps <=0 -> 0, 1 -> 1, >=2 -> 2) *)
Definition sel_target (op v : Z) : nat :=
  if (bop op =? 1) || (bop op =? 8) then (if v <=? 0 then 0%nat else if v =? 1 then 1%nat else 2%nat)
  else (if v =? 0 then 1%nat else 0%nat).

(* control_impl.h if_then_else_impl::eval / if_cmp_impl::eval, evaluated because the
   selector input ticked (so condition.modified holds); a REF input bound to an
   ordinary output is valid from the start, so selected.valid holds.
   Result: Some s = publish reference s;  None = return without publishing. *)
Definition publish (op : Z) (s : nat) (out : option nat) : option nat :=
  match out with
  | Some cur => if same_target op cur s then None   (* same-reference de-duplication: same node AND same path *)
                else Some s
  | None => Some s
  end.
Definition selector (op v : Z) (out : option nat) : option nat := publish op (sel_target op v) out.

Definition is_some {A} (o : option A) : bool := match o with Some _ => true | None => false end.
Definition chained (op : Z) : bool := (bop op =? 6) || (bop op =? 7).
(* does the outer selector value pick the branch fed by the inner selection?
   op 6: if_then_else(c2, inner, C);  op 7: if_cmp(cmp2, inner, C, C) *)
Definition picks_inner (op v2 : Z) : bool := if bop op =? 7 then v2 <=? 0 else negb (v2 =? 0).

(* One cycle of the selection operators: new selection state and what the consumer-side
   reference output publishes (None = no tick).
   Chained: the inner if_then_else is evaluated iff c1 ticked; the outer node is evaluated
   iff c2 ticked or the inner reference ticked (its branch input is a REF bound to a REF
   output, which ticks with it), provided c2 is valid; then the SAME code runs:
     guard     condition.modified || selected.modified   (selected.modified: the inner
               branch iff the inner reference ticked now; the C branch never)
     valid     selected.valid  (the inner branch iff the inner reference is valid)
     de-dup    out.valid && out.value == reference  (the inner branch's value IS the
               reference the inner output holds: references compare by target)
     publish. *)
Definition sel_eval (op : Z) (ss : selst) (c_sel c_sel2 : option Z) : selst * option nat :=
  if chained op then
    let pin := match c_sel with Some v => publish op (sel_target 0 v) (s_in ss) | None => None end in
    let rin := match pin with Some s => Some s | None => s_in ss end in
    let c2 := match c_sel2 with Some v => Some v | None => s_c2 ss end in
    let pout :=
      match c2 with
      | None => None
      | Some v2 =>
          let inner := picks_inner op v2 in
          if is_some c_sel2 || (inner && is_some pin) then
            match (if inner then rin else Some 2%nat) with
            | None => None
            | Some s => publish op s (s_out ss)
            end
          else None
      end in
    (mkSel rin c2 (match pout with Some s => Some s | None => s_out ss end), pout)
  else
    let pout := match c_sel with Some v => selector op v (s_out ss) | None => None end in
    (mkSel None None (match pout with Some s => Some s | None => s_out ss end), pout).

(* contents of a target as they were before cycle t *)
Definition contents_before (t : Z) (g : target) : kv := if tlmt g =? t then tprev g else tval g.

(* alternative.cpp bind_target_link_at + target_link.cpp bind_current_value / bind_sampled.
   Returns the new link and whether the link recorded itself modified (and so
   notified its consumers). *)
(* graph.cpp nested_schedule_node_impl.  A notification that reaches a node of an idle NESTED graph
   asks the child graph to schedule that node at [when]; the request is CLAMPED to the (root)
   graph's current time BEFORE the child's per-node slot is written, and the child's evaluation
   loop runs exactly the nodes whose slot equals the current time.  Through a nested
   pass-through the re-bound export replays the new target's OWN (older) modification time, so
   [when] can lie in the past; directly below the reference it is the retarget time. *)
Definition nested_slot (when now : Z) : Z := Z.max when now.
Definition nested_runs (when now : Z) : bool := nested_slot when now =? now.
Definition in_nested (op : Z) : bool := (bop op =? 3) || (bop op =? 5) || wrapped op.
(* is a consumer notified at [now] with request time [when] evaluated in this cycle? *)
Definition wake (op now when : Z) : bool :=
  if in_nested op then nested_runs (if wrapped op then when else now) now else true.

Definition rebind (sh : shape) (op : Z) (t : Z) (ts : list target) (s : nat) (l : link) : link * bool :=
  let same := match lk_tgt l with Some cur => same_target op cur s | None => false end in
  if same then (l, false)                                  (* same-target de-duplication *)
  else
    let newv := tvalid (get_t ts s) in
    let oldv := match lk_tgt l with Some o => tvalid (get_t ts o) | None => false end in
    let prev := match lk_tgt l with Some o => contents_before t (get_t ts o) | None => [] end in
    let stale := match lk_tgt l with
                 | Some o => if tlmt (get_t ts o) <? t then trem (get_t ts o) else []
                 | None => [] end in
    if is_keyed sh then
      if newv || oldv then (mkL (Some s) t t prev stale, wake op t (tlmt (get_t ts s)))   (* publish_sampled_transition *)
      else (mkL (Some s) (lk_lmt l) MIN_DT [] [], false)
    else
      if newv then (mkL (Some s) t MIN_DT [] [], wake op t (tlmt (get_t ts s)))   (* bind_current_value: sample a live target *)
      else (mkL (Some s) (lk_lmt l) MIN_DT [] [], false).     (* silent: nothing to sample *)

(* what a consumer reads through the link at time t *)
Record reading := mkR {
  r_valid : bool; r_mod : bool; r_lmt : Z; r_vals : kv; r_upd : kv; r_rem : list Z }.

Definition read (sh : shape) (t : Z) (ts : list target) (l : link) : reading :=
  let g := match lk_tgt l with Some i => get_t ts i | None => t0 end in
  let valid := tvalid g in
  let modified := (lk_lmt l =? t) || (valid && (tlmt g =? t)) in
  let lmt := if valid then Z.max (lk_lmt l) (tlmt g) else lk_lmt l in
  let vals := if valid then tval g else [] in
  let d := if negb modified then ([], [])
           else if is_keyed sh && (lk_trans l =? t) then sample_delta_impl sh (lk_prev l) (lk_stale l) vals
           else match sh with
                | ShTS => (vals, [])
                | _ => if tlmt g =? t then (tupd g, trem g) else ([], [])
                end in
  mkR valid modified lmt vals (fst d) (snd d).

(* a direct reader of target g in the cycle in which g ticked *)
Definition read_direct (g : target) : reading := mkR true true (tlmt g) (tval g) (tupd g) (trem g).

(* output of one cycle *)
Record cout := mkO {
  o_t      : Z;
  o_direct : list (nat * reading);      (* direct readers of the targets that ticked *)
  o_cons   : list (nat * reading);      (* consumers below the reference that were evaluated *)
  o_ref    : bool }.                    (* the reference output ticked *)

(* consumers: 0 active, any validity; 1 active + poke; 2 PASSIVE + poke; 3 active, must be valid.
   [force]: a nested graph evaluates all its nodes in its first cycle (graph start schedules them). *)
Definition consumers (notified poke force : bool) (r : reading) : list (nat * reading) :=
  (if notified || force then [(0%nat, r)] else []) ++
  (if notified || poke || force then [(1%nat, r)] else []) ++
  (if poke || force then [(2%nat, r)] else []) ++
  (if (notified || force) && r_valid r then [(3%nat, r)] else []).

Definition directs (c : cyc) (ts : list target) : list (nat * reading) :=
  flat_map (fun i => if ticks c i then [(i, read_direct (get_t ts i))] else []) [0%nat; 1%nat; 2%nat].

Definition step (sh : shape) (op : Z) (st : state) (c : cyc) : state * cout :=
  let t := c_t c in
  (* phase 1: the sources tick; a ticking target notifies the link subscribed to it *)
  let ts := tick_all sh t (c_ticks c) (tgts st) in
  let bound_ticked := match lk_tgt (lnk st) with Some i => ticks c i | None => false end in
  let l1 := if bound_ticked then mkL (lk_tgt (lnk st)) t (lk_trans (lnk st)) (lk_prev (lnk st)) (lk_stale (lnk st)) else lnk st in
  (* phase 2: the selector is evaluated iff its selector input ticked *)
  let '(ss', pub) := sel_eval op (sel st) (c_sel c) (c_sel2 c) in
  (* phase 3: a tick of the reference output refreshes the dereferencing link *)
  let '(l2, renot) := match pub with Some s => rebind sh op t ts s l1 | None => (l1, false) end in
  let st' := mkS ts ss' l2 in
  (* phase 4: the consumers that were notified (or poked) are evaluated *)
  let r := read sh t ts l2 in
  let nest_eval := c_nest c && ((match pub with Some _ => true | None => false end) || c_poke c) in
  (st', mkO t (directs c ts) (consumers (bound_ticked || renot || nest_eval) (c_poke c) (c_force c) r)
            (match pub with Some _ => true | None => false end)).

Fixpoint run (sh : shape) (op : Z) (st : state) (cs : list cyc) : state * list cout :=
  match cs with
  | [] => (st, [])
  | c :: r => let '(st1, o) := step sh op st c in
              let '(st2, os) := run sh op st1 r in (st2, o :: os)
  end.

(* ------------------------------------------------------------------ wire format *)
Definition shape_of (z : Z) : shape := if z =? 1 then ShTSS else if z =? 2 then ShTSD else ShTS.

Definition header (w : wire) : Z * Z * Z * Z :=
  fold_left (fun acc l => match l with
                          | 1 :: s :: e :: r => (s, e, nthz 0 r, nthz 1 r)
                          | _ => acc
                          end) w (1, 10, 0, 0).

(* script lines "2 k t payload" with a non-empty payload *)
Definition script_line (l : line) : option (Z * Z * list Z) :=
  match l with
  | 2 :: k :: t :: x :: p => if (0 <=? k) && (k <? 8) then Some (k, t, x :: p) else None
  | _ => None
  end.

Definition wired (op k : Z) : bool :=
  (k =? 0) || (k =? 1) || (k =? 2) || ((k =? 3) && ((bop op =? 1) || (bop op =? 8) || chained op)) || ((k =? 4) && chained op) || (k =? 7).

Fixpoint insert_uniq (t : Z) (l : list Z) : list Z :=
  match l with
  | [] => [t]
  | x :: r => if t <? x then t :: l else if t =? x then l else x :: insert_uniq t r
  end.

(* op 3: the consumers live in a nested graph, whose first cycle (the start time: the
   scripted sources are scheduled on start, so that root cycle always exists) evaluates them all *)
(* Up to /repo 7c2072e a nested graph evaluated ALL its nodes in its first cycle and the decoder set
   c_force there; ed827a0 ("a nested graph behaves like its inlined body in the cycle it is
   started") removed that, so the flag is never set any more (the theorems keep the case). *)
Definition nested_consumers (op : Z) : bool := false && ((bop op =? 3) || (bop op =? 5)).

Definition times (op s e : Z) (w : wire) : list Z :=
  fold_left (fun acc l => match script_line l with
                          | Some (k, t, _) => if wired op k && (s <=? t) && (t <? e) then insert_uniq t acc else acc
                          | None => acc
                          end) w (if nested_consumers op && (s <? e) then [s] else []).

(* the payload of source k at time t: the LAST such line wins (std::map assignment) *)
Definition payload_at (k t : Z) (w : wire) : option (list Z) :=
  fold_left (fun acc l => match script_line l with
                          | Some (k', t', p) => if (k' =? k) && (t' =? t) then Some p else acc
                          | None => acc
                          end) w None.

Definition cyc_at (op s : Z) (w : wire) (t : Z) : cyc :=
  mkC t (match payload_at 0 t w with Some p => Some (hdz p) | None => None end)
      (if chained op then match payload_at 4 t w with Some p => Some (hdz p) | None => None end else None)
      [payload_at 1 t w; payload_at 2 t w; if (bop op =? 1) || (bop op =? 8) || chained op then payload_at 3 t w else None]
      (match payload_at 7 t w with Some _ => true | None => false end)
      (nested_consumers op && (t =? s)) (bop op =? 5).

Definition enc_kv (m : kv) : list Z := Z.of_nat (length m) :: flat_map (fun e => [fst e; snd e]) m.
Definition enc_keys (l : list Z) : list Z := Z.of_nat (length l) :: l.

Definition enc_reading (code id t : Z) (r : reading) : line :=
  [code; id; t; b2z (r_valid r); b2z (r_mod r); r_lmt r] ++ enc_kv (r_vals r) ++ enc_kv (r_upd r) ++ enc_keys (r_rem r).

Definition enc_cout (o : cout) : wire :=
  map (fun d => enc_reading 21 (Z.of_nat (fst d) + 1) (o_t o) (snd d)) (o_direct o) ++
  map (fun d => enc_reading 20 (Z.of_nat (fst d)) (o_t o) (snd d)) (o_cons o) ++
  (if o_ref o then [[22; o_t o]] else []).

(* sixth header field: 1 = the targets are fields of one producer node's bundle output *)
Definition header_prod (w : wire) : Z :=
  fold_left (fun acc l => match l with 1 :: s :: e :: r => nthz 2 r | _ => acc end) w 0.
(* the driver treats every op it does not know as if_then_else *)
Definition norm_op (op : Z) : Z := if (0 <=? op) && (op <? 9) then op else 0.
(* op 8 (elements of one list output) always has sibling targets *)
Definition header_wrap (w : wire) : Z :=
  fold_left (fun acc l => match l with 1 :: s :: e :: r => nthz 3 r | _ => acc end) w 0.
Definition wrap_applies (op wr : Z) : bool :=
  (1 <=? wr) && (wr <=? 4) && negb ((op =? 3) || (op =? 4) || (op =? 5)).
Definition eff_op (w : wire) (op : Z) : Z :=
  norm_op op + (if (header_prod w =? 1) || (norm_op op =? 8) then 10 else 0)
             + (if wrap_applies (norm_op op) (header_wrap w) then 20 else 0).

Definition decode (w : wire) : shape * Z * list cyc :=
  let '(s, e, shz, op0) := header w in
  let op := eff_op w op0 in
  (shape_of shz, op, map (cyc_at op s w) (times op s e w)).

Definition run_ref (w : wire) : wire :=
  let '(sh, op, cs) := decode w in
  flat_map enc_cout (snd (run sh op s0 cs)).
