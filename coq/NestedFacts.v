(* NestedFacts.v — lemmas about the tree engine of Nested.v.
   Layout:
     1. frame lemmas for the elementary updates
     2. [Keep]: what the scheduling / user-code primitives never touch (clocks, lifecycle flags, shapes)
     3. no "schedule in the past" from engine-internal scheduling; [Good] = clocks_ok + cache_ge is invariant
     4. clocks: a child is evaluated at its parent's time and never moves back (child_never_early)
     5. push / pull: parent due no later (mechanism lemmas)
     6. captured errors: one tick, same cycle, run continues; footprint of a capture
     7. the resuming rule: a failed cycle is followed by a fresh one (recovers_next_cycle), and the
        refutation for the rule before the repair *)
Require Import Base Sched SchedFacts Nested NestedWitness.
From Coq Require Import ZifyBool.

(* ------------------------------------------------------------------ 1. elementary updates *)
Lemma update_oob {A} n f (l : list A) : (length l <= n)%nat -> update n f l = l.
Proof. revert n; induction l as [|x r IH]; intros [|n] H; simpl in *; try lia; auto. f_equal; apply IH; lia. Qed.

Lemma upd_g_len g f w : length (w_gs (upd_g g f w)) = length (w_gs w).
Proof. apply update_length. Qed.

Lemma gat_upd_same g f w : (g < length (w_gs w))%nat -> gat g (upd_g g f w) = f (gat g w).
Proof. intros H; unfold gat, upd_g; simpl. apply nth_update_same; auto. Qed.

Lemma gat_upd_other g g' f w : g <> g' -> gat g' (upd_g g f w) = gat g' w.
Proof. intros H; unfold gat, upd_g; simpl. apply nth_update_other; auto. Qed.

(* a projection that the update function does not change is unchanged everywhere *)
Lemma gat_upd_proj {A} (pr : gst -> A) g g' f w :
  (forall s, pr (f s) = pr s) -> pr (gat g' (upd_g g f w)) = pr (gat g' w).
Proof.
  intros H. destruct (Nat.eq_dec g g') as [->|Hn].
  - destruct (lt_dec g' (length (w_gs w))) as [Hl|Hl].
    + rewrite gat_upd_same; auto.
    + unfold gat, upd_g; simpl. rewrite update_oob; auto; lia.
  - rewrite gat_upd_other; auto.
Qed.

Lemma upd_g_err g f w : w_err (upd_g g f w) = w_err w. Proof. reflexivity. Qed.
Lemma upd_g_log g f w : w_log (upd_g g f w) = w_log w. Proof. reflexivity. Qed.
Lemma emit_gs l w : w_gs (emit l w) = w_gs w. Proof. reflexivity. Qed.
Lemma set_err_gs e w : w_gs (set_err e w) = w_gs w. Proof. reflexivity. Qed.
Lemma gat_emit g l w : gat g (emit l w) = gat g w. Proof. reflexivity. Qed.
Lemma gat_set_err g e w : gat g (set_err e w) = gat g w. Proof. reflexivity. Qed.

(* ------------------------------------------------------------------ 2. Keep *)
(* What none of the scheduling / user-code primitives touches: the number of graphs, every graph's
   clock, lifecycle flags, cursor-independent shape. *)
Record keep_g (s s' : gst) : Prop := mkKeepG {
  kg_now : g_now s' = g_now s;
  kg_started : g_started s' = g_started s;
  kg_evaluating : g_evaluating s' = g_evaluating s;
  kg_failed : g_failed s' = g_failed s;
  kg_cursor : g_cursor s' = g_cursor s;
  kg_nslots : length (g_slots s') = length (g_slots s);
  kg_nnodes : length (g_nodes s') = length (g_nodes s) }.

Definition Keep (w w' : world) : Prop :=
  length (w_gs w') = length (w_gs w) /\ forall g, keep_g (gat g w) (gat g w').

Lemma keep_g_refl s : keep_g s s. Proof. constructor; reflexivity. Qed.
Lemma keep_g_trans a b c : keep_g a b -> keep_g b c -> keep_g a c.
Proof. intros [] []; constructor; congruence. Qed.

Lemma Keep_refl w : Keep w w. Proof. split; auto using keep_g_refl. Qed.
Lemma Keep_trans a b c : Keep a b -> Keep b c -> Keep a c.
Proof. intros [L1 H1] [L2 H2]; split; [congruence|]. intros g; eapply keep_g_trans; eauto. Qed.

Lemma Keep_emit l w : Keep w (emit l w). Proof. split; auto using keep_g_refl. Qed.
Lemma Keep_set_err e w : Keep w (set_err e w). Proof. split; auto using keep_g_refl. Qed.

Lemma Keep_upd_g g f w : (forall s, keep_g s (f s)) -> Keep w (upd_g g f w).
Proof.
  intros H; split; [apply upd_g_len|]. intros g'.
  destruct (Nat.eq_dec g g') as [->|Hn].
  - destruct (lt_dec g' (length (w_gs w))) as [Hl|Hl].
    + rewrite gat_upd_same; auto.
    + unfold gat, upd_g; simpl. rewrite update_oob; [apply keep_g_refl|lia].
  - rewrite gat_upd_other; auto using keep_g_refl.
Qed.

Lemma keep_set_sched i when s : keep_g s (g_set_sched i when s).
Proof. constructor; simpl; auto. unfold set_nth; apply update_length. Qed.
Lemma keep_set_nst t s : keep_g s (g_set_nst t s).
Proof. constructor; reflexivity. Qed.
Lemma keep_upd_node i f s : keep_g s (g_upd_node i f s).
Proof. constructor; simpl; auto. apply update_length. Qed.

Lemma Keep_upd_node g i f w : Keep w (upd_node g i f w).
Proof. apply Keep_upd_g; intros; apply keep_upd_node. Qed.

Lemma Keep_sched_local g i when w : Keep w (sched_local g i when w).
Proof.
  unfold sched_local; cbv zeta. destruct (when <? g_now (gat g w)); [apply Keep_set_err|].
  destruct (_ || _); [|apply Keep_refl]. apply Keep_upd_g; intros; apply keep_set_sched.
Qed.

Lemma Keep_sched_at d T : forall g i when w, Keep w (sched_at d T g i when w).
Proof.
  induction d as [|d IH]; intros g i when w; simpl.
  - destruct (gc_parent _) as [[pg pn]|]; [apply Keep_set_err|apply Keep_sched_local].
  - destruct (gc_parent _) as [[pg pn]|]; [|apply Keep_sched_local].
    set (w1 := sched_local g i _ w). assert (K1 : Keep w w1) by apply Keep_sched_local.
    destruct (negb (ok w1)); auto.
    match goal with |- Keep w (if ?b then sched_at d T pg pn ?wh ?w2 else _) => assert (K2 : Keep w w2) end.
    { destruct (_ && _); auto. eapply Keep_trans; eauto. apply Keep_upd_g; intros; apply keep_set_nst. }
    destruct (g_started _ && negb _); auto. eapply Keep_trans; eauto.
Qed.

Lemma Keep_notify_nodes T sub now g : forall cs j w, Keep w (notify_nodes T sub now g cs j w).
Proof.
  induction cs as [|c r IH]; intros j w; simpl; [apply Keep_refl|].
  eapply Keep_trans; [|apply IH]. destruct (_ && _); [apply Keep_sched_at|apply Keep_refl].
Qed.

Lemma Keep_notify_graphs T sub now : forall gs g w, Keep w (notify_graphs T sub now gs g w).
Proof.
  induction gs as [|gc r IH]; intros g w; simpl; [apply Keep_refl|].
  eapply Keep_trans; [apply Keep_notify_nodes|apply IH].
Qed.

Lemma Keep_notify T p now w : Keep w (notify T p now w).
Proof. apply Keep_notify_graphs. Qed.
Lemma Keep_notify_link T x now w : Keep w (notify_link T x now w).
Proof. apply Keep_notify_graphs. Qed.

Lemma Keep_opt_schedule T g i o w : Keep w (opt_schedule T g i o w).
Proof. destruct o; simpl; [apply Keep_sched_at|apply Keep_refl]. Qed.

Ltac keep_step :=
  first [ apply Keep_refl | apply Keep_emit | apply Keep_set_err | apply Keep_upd_node | apply Keep_sched_at
        | apply Keep_notify | apply Keep_notify_link | apply Keep_opt_schedule | apply Keep_sched_local ].
Ltac keep_chain := repeat (first [ keep_step | eapply Keep_trans; [|keep_step] ]).

Lemma Keep_do_op T g i st opi o w : Keep w (do_op T g i st opi o w).
Proof.
  unfold do_op. destruct (negb (ok w)); [apply Keep_refl|].
  destruct o; try apply Keep_refl; try apply Keep_set_err; try apply Keep_sched_at.
  - destruct (c_sched _); [|apply Keep_refl]. destruct (schedule _ _ _ _ _) as [s' push].
    set (w1 := opt_schedule _ _ _ _ _).
    assert (K : Keep w w1) by (unfold w1; eapply Keep_trans; [apply Keep_upd_node|apply Keep_opt_schedule]).
    destruct (ok w1); auto.
  - destruct (c_sched _); [|apply Keep_refl]. eapply Keep_trans; [apply Keep_upd_node|apply Keep_emit].
  - destruct (c_sched _); [|apply Keep_refl]. eapply Keep_trans; [apply Keep_upd_node|apply Keep_emit].
  - destruct (c_sched _); [|apply Keep_refl]. destruct (pop_tag _ _ _). eapply Keep_trans; [apply Keep_upd_node|apply Keep_emit].
  - destruct (c_sched _); [|apply Keep_refl]. eapply Keep_trans; [apply Keep_upd_node|apply Keep_emit].
  - destruct (_ && _); [|apply Keep_refl].
    eapply Keep_trans; [apply Keep_upd_node|]. eapply Keep_trans; [apply Keep_notify|apply Keep_emit].
  - destruct (_ && _); [apply Keep_sched_at|apply Keep_refl].
  - destruct (_ && _); [apply Keep_sched_at|apply Keep_refl].
Qed.

Lemma Keep_do_ops T g i st : forall os opi w, Keep w (do_ops T g i st opi os w).
Proof.
  induction os as [|o r IH]; intros opi w; simpl; [apply Keep_refl|].
  eapply Keep_trans; [apply Keep_do_op|apply IH].
Qed.

Lemma Keep_write_err T g i code now w : Keep w (write_err T g i code now w).
Proof. unfold write_err. eapply Keep_trans; [apply Keep_upd_node|apply Keep_notify]. Qed.

Lemma Keep_start_plain T beh g i w : Keep w (start_plain T beh g i w).
Proof.
  unfold start_plain. set (w1 := do_ops _ _ _ _ _ _ _).
  assert (K : Keep w w1) by apply Keep_do_ops.
  destruct (negb (ok w1)); auto.
  destruct (c_sos _).
  - eapply Keep_trans; eauto. eapply Keep_trans; [apply Keep_upd_node|apply Keep_sched_at].
  - eapply Keep_trans; eauto. apply Keep_upd_node.
Qed.

Lemma Keep_sampled T child now : forall bs w, Keep w (sampled T child now bs w).
Proof.
  induction bs as [|b r IH]; intros w; simpl; [apply Keep_refl|].
  eapply Keep_trans; [|apply IH]. destruct (match nth_error _ _ with Some _ => _ | None => _ end); [apply Keep_sched_at|apply Keep_refl].
Qed.

Lemma Keep_sampled_if b T child now bs w : Keep w (sampled_if b T child now bs w).
Proof. unfold sampled_if. destruct b; [apply Keep_sampled|apply Keep_refl]. Qed.

Lemma Keep_pull T g i child w : Keep w (pull T g i child w).
Proof. unfold pull. destruct (_ =? _); [apply Keep_refl|apply Keep_sched_at]. Qed.

Lemma Keep_run_user T beh g i w : Keep w (run_user T beh g i w).
Proof.
  unfold run_user. eapply Keep_trans; [|apply Keep_do_ops].
  eapply Keep_trans; [apply Keep_upd_node|apply Keep_emit].
Qed.

Lemma Keep_capture T g i now w : Keep w (capture T g i now w).
Proof.
  unfold capture. destruct (_ && _); [|apply Keep_refl].
  eapply Keep_trans; [apply Keep_set_err|apply Keep_write_err].
Qed.

Lemma Keep_rearm T g i sn now w : Keep w (rearm T g i sn now w).
Proof.
  unfold rearm. destruct (c_sched _); [|apply Keep_refl].
  destruct sn.
  - destruct (advance _ _) as [s' push]. eapply Keep_trans; [apply Keep_upd_node|apply Keep_opt_schedule].
  - destruct (is_scheduled _); [apply Keep_sched_at|apply Keep_refl].
Qed.

Lemma Keep_eval_plain T beh g i w : Keep w (eval_plain T beh g i w).
Proof.
  unfold eval_plain. destruct (negb (n_started _)); [apply Keep_refl|].
  match goal with |- Keep w (if negb (ok ?w1) then _ else _) => assert (K : Keep w w1) end.
  { destruct (match c_ins _ with [] => true | _ => _ end); [|apply Keep_refl].
    eapply Keep_trans; [apply Keep_run_user|apply Keep_capture]. }
  destruct (negb (ok _)); auto.
  eapply Keep_trans; [exact K|apply Keep_rearm].
Qed.

Lemma Keep_eval_pauser T beh g i w : Keep w (eval_pauser T beh g i w).
Proof.
  unfold eval_pauser. destruct (negb (n_started _)); [apply Keep_refl|].
  destruct (_ <? _).
  - eapply Keep_trans; [apply Keep_upd_node|]. eapply Keep_trans; [apply Keep_emit|apply Keep_set_err].
  - eapply Keep_trans; [apply Keep_upd_node|apply Keep_run_user].
Qed.

Lemma Keep_relink T g i w : Keep w (relink T g i w).
Proof.
  unfold relink. destruct (_ && _); [|apply Keep_refl].
  eapply Keep_trans; [apply Keep_upd_node|apply Keep_notify_link].
Qed.

Lemma Keep_catch T g i now w : Keep w (catch T g i now w).
Proof.
  unfold catch, caught. eapply Keep_trans; [|apply Keep_pull].
  destruct (negb (ok w)); [|apply Keep_refl].
  eapply Keep_trans; [apply Keep_set_err|apply Keep_write_err].
Qed.

(* clocks and caches seen through Keep *)
Lemma Keep_now w w' g : Keep w w' -> now_of g w' = now_of g w.
Proof. intros [_ H]. unfold now_of. apply (kg_now _ _ (H g)). Qed.

(* ------------------------------------------------------------------ 3. well-formed trees; no schedule in the past *)
Definition parents_lt (T : tcfg) : Prop :=
  forall g pg pn, gc_parent (gcfg_at T g) = Some (pg, pn) -> (pg < g)%nat.
(* the child named by a nested / try_except node points back at it *)
Definition tree_ok (T : tcfg) : Prop :=
  forall g i, is_nested (ncfg_at T g i) = true ->
              gc_parent (gcfg_at T (c_child (ncfg_at T g i))) = Some (g, i).
Definition wf_tree (T : tcfg) : Prop :=
  parents_lt T /\ tree_ok T /\ gc_parent (gcfg_at T 0) = None.

(* every child's clock is at most its parent's *)
Definition clocks_ok (T : tcfg) (w : world) : Prop :=
  forall c pg pn, gc_parent (gcfg_at T c) = Some (pg, pn) -> now_of c w <= now_of pg w.
(* the root never has to go back in time *)
Definition root_cache (w : world) : Prop := g_now (gat 0 w) <= g_nst (gat 0 w).

Lemma has_parent_in_range T g pg pn : gc_parent (gcfg_at T g) = Some (pg, pn) -> (g < length T)%nat.
Proof.
  intros H. destruct (lt_dec g (length T)); auto.
  unfold gcfg_at in H. rewrite nth_overflow in H by lia. discriminate.
Qed.

Lemma clocks_Keep T w w' : Keep w w' -> clocks_ok T w -> clocks_ok T w'.
Proof. intros K H c pg pn Hp. rewrite !(Keep_now _ _ _ K). eauto. Qed.

Lemma sched_local_err g i when w : g_now (gat g w) <= when -> w_err (sched_local g i when w) = w_err w.
Proof.
  intros H. unfold sched_local; cbv zeta.
  destruct (when <? g_now (gat g w)) eqn:E; [lia|]. destruct (_ || _); reflexivity.
Qed.

Lemma sched_at_err T (HT : parents_lt T) :
  forall d g i when w, (g < d)%nat \/ gc_parent (gcfg_at T g) = None ->
    now_of g w <= when -> w_err (sched_at d T g i when w) = w_err w.
Proof.
  induction d as [|d IH]; intros g i when w Hd Hn; simpl.
  - destruct (gc_parent (gcfg_at T g)) as [[pg pn]|] eqn:Hp.
    + destruct Hd as [Hd|Hd]; [lia|discriminate].
    + apply sched_local_err; auto.
  - destruct (gc_parent (gcfg_at T g)) as [[pg pn]|] eqn:Hp; [|apply sched_local_err; auto].
    assert (E1 : w_err (sched_local g i (Z.max (Z.max when (now_of pg w)) (now_of 0 w)) w) = w_err w)
      by (apply sched_local_err; unfold now_of in *; lia).
    set (w1 := sched_local g i (Z.max (Z.max when (now_of pg w)) (now_of 0 w)) w) in *.
    assert (K1 : Keep w w1) by apply Keep_sched_local.
    unfold ok. rewrite E1.
    destruct (w_err w =? 0) eqn:Eok; simpl; auto.
    match goal with |- w_err (if ?b then sched_at d T pg pn ?wh ?w2 else _) = _ =>
      assert (K2 : Keep w w2 /\ w_err w2 = w_err w) end.
    { destruct (_ && _); split; auto. eapply Keep_trans; eauto. apply Keep_upd_g; intros; apply keep_set_nst. }
    destruct K2 as [K2 E2].
    destruct (g_started _ && negb _); auto.
    rewrite IH; auto.
    + left. specialize (HT _ _ _ Hp). destruct Hd as [Hd|Hd]; [lia|congruence].
    + rewrite (Keep_now _ _ _ K2). lia.
Qed.

Lemma sched_at_top_err T (HT : parents_lt T) g i when w :
  now_of g w <= when -> w_err (sched_at (length T) T g i when w) = w_err w.
Proof.
  intros H. apply sched_at_err; auto.
  destruct (gc_parent (gcfg_at T g)) as [[pg pn]|] eqn:Hp; auto. left. eapply has_parent_in_range; eauto.
Qed.

Lemma notify_nodes_err T (HT : parents_lt T) sub now g : forall cs j w, w_err (notify_nodes T sub now g cs j w) = w_err w.
Proof.
  induction cs as [|c r IH]; intros j w; simpl; auto.
  rewrite IH. destruct (_ && _); auto. apply sched_at_top_err; auto. lia.
Qed.

Lemma notify_graphs_err T (HT : parents_lt T) sub now : forall gs g w, w_err (notify_graphs T sub now gs g w) = w_err w.
Proof.
  induction gs as [|gc r IH]; intros g w; simpl; auto. rewrite IH. apply notify_nodes_err; auto.
Qed.

(* a notification never raises "cannot schedule in the past" *)
Lemma notify_err T (HT : parents_lt T) p now w : w_err (notify T p now w) = w_err w.
Proof. apply notify_graphs_err; auto. Qed.
Lemma notify_link_err T (HT : parents_lt T) x now w : w_err (notify_link T x now w) = w_err w.
Proof. apply notify_graphs_err; auto. Qed.

Lemma write_err_err T (HT : parents_lt T) g i code now w : w_err (write_err T g i code now w) = w_err w.
Proof. unfold write_err. rewrite notify_err; auto. Qed.

(* ---- the root cache never falls behind the root clock ---- *)
Lemma root_cache_upd_other g f w : g <> 0%nat -> root_cache w -> root_cache (upd_g g f w).
Proof. intros H R. unfold root_cache. rewrite gat_upd_other; auto. Qed.

Lemma root_cache_keepnst g f w :
  (forall s, g_now (f s) = g_now s /\ g_nst (f s) = g_nst s) -> root_cache w -> root_cache (upd_g g f w).
Proof.
  intros H R. unfold root_cache.
  rewrite (gat_upd_proj g_now), (gat_upd_proj g_nst); auto; intros s; apply H.
Qed.

Lemma root_cache_upd_node g i f w : root_cache w -> root_cache (upd_node g i f w).
Proof. apply root_cache_keepnst; intros; split; reflexivity. Qed.

Lemma root_cache_sched_local g i when w : root_cache w -> root_cache (sched_local g i when w).
Proof.
  intros R. unfold sched_local; cbv zeta. destruct (when <? _); auto. destruct (_ || _); auto.
  destruct (Nat.eq_dec g 0) as [->|Hn]; [|apply root_cache_upd_other; auto].
  unfold root_cache in *. destruct (lt_dec 0 (length (w_gs w))).
  - rewrite gat_upd_same; auto. simpl. destruct (_ && _) eqn:E; lia.
  - assert (E : w_gs w = []) by (destruct (w_gs w); simpl in *; [auto|lia]).
    unfold gat, upd_g in *; simpl. rewrite E in *. simpl in *. exact R.
Qed.

Lemma root_cache_sched_at T (HT : parents_lt T) d : forall g i when w, root_cache w -> root_cache (sched_at d T g i when w).
Proof.
  induction d as [|d IH]; intros g i when w R; simpl.
  - destruct (gc_parent _) as [[pg pn]|]; auto using root_cache_sched_local.
  - destruct (gc_parent (gcfg_at T g)) as [[pg pn]|] eqn:Hp; auto using root_cache_sched_local.
    assert (Hg : g <> 0%nat) by (specialize (HT _ _ _ Hp); lia).
    assert (R1 := root_cache_sched_local g i (Z.max (Z.max when (now_of pg w)) (now_of 0 w)) w R).
    destruct (negb (ok _)); auto.
    match goal with |- root_cache (if ?b then sched_at d T pg pn ?wh ?w2 else _) => assert (R2 : root_cache w2) end.
    { destruct (_ && _); auto. apply root_cache_upd_other; auto. }
    destruct (g_started _ && negb _); auto.
Qed.

Lemma root_cache_notify_graphs T (HT : parents_lt T) sub now : forall gs g w, root_cache w -> root_cache (notify_graphs T sub now gs g w).
Proof.
  induction gs as [|gc r IH]; intros g w R; simpl; auto. apply IH.
  generalize 0%nat. revert w R. induction (gc_nodes gc) as [|c cs IHc]; intros w R j; simpl; auto.
  apply IHc. destruct (_ && _); auto using root_cache_sched_at.
Qed.

Lemma root_cache_opt T (HT : parents_lt T) g i o w : root_cache w -> root_cache (opt_schedule T g i o w).
Proof. destruct o; simpl; auto using root_cache_sched_at. Qed.

Lemma root_cache_do_op T (HT : parents_lt T) g i st opi o w : root_cache w -> root_cache (do_op T g i st opi o w).
Proof.
  intros R. unfold do_op. destruct (negb (ok w)); auto.
  destruct o; auto using root_cache_sched_at.
  - destruct (c_sched _); auto. destruct (schedule _ _ _ _ _) as [s' push].
    match goal with |- root_cache (if ok ?w1 then _ else _) => assert (R1 : root_cache w1) by (apply root_cache_opt; auto using root_cache_upd_node) end.
    destruct (ok _); auto.
  - destruct (c_sched _); auto. apply root_cache_upd_node with (w := w); auto.
  - destruct (c_sched _); auto. apply root_cache_upd_node with (w := w); auto.
  - destruct (c_sched _); auto. destruct (pop_tag _ _ _). apply root_cache_upd_node with (w := w); auto.
  - destruct (c_sched _); auto. apply root_cache_upd_node with (w := w); auto.
  - destruct (_ && _); auto. apply root_cache_notify_graphs with (w := upd_node g i _ w); auto using root_cache_upd_node.
  - destruct (_ && _); auto using root_cache_sched_at.
  - destruct (_ && _); auto using root_cache_sched_at.
Qed.

Lemma root_cache_do_ops T (HT : parents_lt T) g i st : forall os opi w, root_cache w -> root_cache (do_ops T g i st opi os w).
Proof. induction os as [|o r IH]; intros opi w R; simpl; auto using root_cache_do_op. Qed.

Lemma root_cache_write_err T (HT : parents_lt T) g i code now w : root_cache w -> root_cache (write_err T g i code now w).
Proof. intros R. unfold write_err. apply root_cache_notify_graphs; auto using root_cache_upd_node. Qed.

Lemma root_cache_eval_plain T (HT : parents_lt T) beh g i w : root_cache w -> root_cache (eval_plain T beh g i w).
Proof.
  intros R. unfold eval_plain. destruct (negb (n_started _)); auto.
  match goal with |- root_cache (if negb (ok ?w1) then _ else _) => assert (R1 : root_cache w1) end.
  { destruct (match c_ins _ with [] => true | _ => _ end); auto.
    unfold capture. set (wu := run_user T beh g i w).
    assert (Ru : root_cache wu) by (apply root_cache_do_ops; auto; apply root_cache_upd_node with (w := w); auto).
    destruct (_ && _); auto. apply root_cache_write_err; auto. }
  destruct (negb (ok _)); auto.
  unfold rearm. destruct (c_sched _); auto. destruct (_ && _).
  - destruct (advance _ _). apply root_cache_opt; auto using root_cache_upd_node.
  - destruct (is_scheduled _); auto using root_cache_sched_at.
Qed.

(* ------------------------------------------------------------------ 4. clocks *)
Definition NowEq (w w' : world) : Prop := forall g, now_of g w' = now_of g w.

Lemma NowEq_refl w : NowEq w w. Proof. intros g; reflexivity. Qed.
Lemma NowEq_trans a b c : NowEq a b -> NowEq b c -> NowEq a c.
Proof. intros H1 H2 g. rewrite H2, H1; auto. Qed.
Lemma Keep_NowEq w w' : Keep w w' -> NowEq w w'.
Proof. intros K g. apply Keep_now; auto. Qed.
Lemma NowEq_upd_g g f w : (forall s, g_now (f s) = g_now s) -> NowEq w (upd_g g f w).
Proof. intros H g'. unfold now_of. apply (gat_upd_proj g_now); auto. Qed.
Lemma clocks_NowEq T w w' : NowEq w w' -> clocks_ok T w -> clocks_ok T w'.
Proof. intros K H c pg pn Hp. rewrite !K. eauto. Qed.

Lemma now_upd_same g f t w : (forall s, g_now (f s) = t) -> (g < length (w_gs w))%nat -> now_of g (upd_g g f w) = t.
Proof. intros H L. unfold now_of. rewrite gat_upd_same; auto. Qed.
Lemma now_upd_other g g' f w : g <> g' -> now_of g' (upd_g g f w) = now_of g' w.
Proof. intros H. unfold now_of. rewrite gat_upd_other; auto. Qed.

(* moving one graph's clock forward to [t], not beyond its parent's clock *)
Lemma clocks_upd_now T (HT : parents_lt T) g f t w :
  (forall s, g_now (f s) = t) -> clocks_ok T w -> now_of g w <= t ->
  (forall pg pn, gc_parent (gcfg_at T g) = Some (pg, pn) -> t <= now_of pg w) ->
  clocks_ok T (upd_g g f w).
Proof.
  intros Hf H Hn Hp c pg pn Hc.
  destruct (lt_dec g (length (w_gs w))) as [L|L].
  - assert (c <> pg) by (specialize (HT _ _ _ Hc); lia).
    destruct (Nat.eq_dec c g) as [->|Hcg].
    + rewrite (now_upd_same g f t); auto. rewrite now_upd_other; [eauto|congruence].
    + rewrite (now_upd_other g c); auto.
      destruct (Nat.eq_dec pg g) as [->|Hpg].
      * rewrite (now_upd_same g f t); auto. specialize (H _ _ _ Hc). lia.
      * rewrite now_upd_other; eauto.
  - unfold upd_g, now_of, gat in *; simpl. rewrite update_oob by lia. apply (H _ _ _ Hc).
Qed.

(* ---- starting / evaluating a graph never touches the clock of a graph with a smaller id: in
   particular not the clock of any ancestor (parents have smaller ids) ---- *)
Definition ev_low (ev : nat -> Z -> world -> world) : Prop :=
  forall c t w g', (g' < c)%nat -> now_of g' (ev c t w) = now_of g' w.

Section LOWEVAL.
  Variable T : tcfg.
  Variable beh : behaviour.
  Hypothesis HT : wf_tree T.

  Lemma child_gt g i : is_nested (ncfg_at T g i) = true -> (g < c_child (ncfg_at T g i))%nat.
  Proof. intros Hn. destruct HT as (HP & HK & _). apply (HP _ _ _ (HK _ _ Hn)). Qed.

  Lemma low_reenter ev c now : ev_low ev -> forall n w g', (g' < c)%nat -> now_of g' (reenter ev n c now w) = now_of g' w.
  Proof.
    intros Hev. induction n as [|n IH]; intros w g' Hg; simpl; auto.
    destruct (_ =? _); auto. rewrite IH; auto. rewrite Hev; auto.
  Qed.

  Lemma low_eval_node ev g i w g' : ev_low ev -> (g' <= g)%nat -> now_of g' (eval_node T beh ev g i w) = now_of g' w.
  Proof.
    intros Hev Hg. unfold eval_node. destruct (is_nested _) eqn:E.
    - unfold eval_nested. destruct (negb (n_started _)); auto.
      assert (Hc := child_gt _ _ E).
      assert (E1 : now_of g' (ev (c_child (ncfg_at T g i)) (now_of g w) (relink T g i w)) = now_of g' w)
        by (rewrite Hev by lia; apply Keep_now, Keep_relink).
      destruct (_ =? 1); auto.
      destruct (_ =? 4); [rewrite low_reenter; auto; lia|].
      destruct (_ =? PAUSED); auto.
      rewrite (Keep_now _ _ _ (Keep_catch _ _ _ _ _)). auto.
    - destruct (_ =? 5); [apply Keep_now, Keep_eval_pauser|apply Keep_now, Keep_eval_plain].
  Qed.

  Lemma low_scan ev g : ev_low ev -> forall k i w g', (g' <= g)%nat -> now_of g' (scan T beh ev g i k w) = now_of g' w.
  Proof.
    intros Hev. induction k as [|k IH]; intros i w g' Hg; simpl; auto.
    destruct (negb (ok w)); auto.
    set (w0 := upd_g g (g_set_cursor (Z.of_nat i)) w).
    assert (E0 : now_of g' w0 = now_of g' w) by (apply NowEq_upd_g; reflexivity).
    match goal with |- now_of g' (if negb (ok ?w') then _ else _) = _ => assert (E1 : now_of g' w' = now_of g' w) end.
    { destruct (_ =? _).
      - rewrite low_eval_node; auto.
      - destruct (_ <? _); auto. destruct (_ <? _); auto. rewrite <- E0. apply NowEq_upd_g; reflexivity. }
    destruct (negb (ok _)); auto. rewrite IH; auto.
  Qed.

  Lemma low_eval_graph rr : forall f, ev_low (eval_graph f T beh rr).
  Proof.
    induction f as [|f IH]; intros g t w g' Hg; simpl; auto.
    match goal with |- now_of g' (if negb (ok (scan _ _ _ _ ?st ?n ?w1)) then _ else _) = _ =>
      assert (E1 : now_of g' w1 = now_of g' w) end.
    { destruct (_ && _); [apply now_upd_other; lia|].
      unfold now_of. rewrite gat_emit. rewrite !gat_upd_other by lia. reflexivity. }
    match goal with |- now_of g' (if negb (ok ?w2) then _ else _) = _ => assert (E2 : now_of g' w2 = now_of g' w)
      by (rewrite low_scan; auto; lia) end.
    destruct (negb (ok _)); [rewrite now_upd_other by lia; auto|].
    rewrite now_upd_other by lia.
    destruct (gc_parent (gcfg_at T g)) as [[pg pn]|]; [|rewrite now_upd_other by lia; auto].
    destruct (_ <? _); [|rewrite now_upd_other by lia; auto].
    rewrite (Keep_now _ _ _ (Keep_sched_at _ _ _ _ _ _)). rewrite now_upd_other by lia; auto.
  Qed.
End LOWEVAL.

(* what the recursion needs to know about "one level down" *)
Definition ev_clocks (T : tcfg) (ev : nat -> Z -> world -> world) : Prop :=
  forall c t w, clocks_ok T w -> now_of c w <= t ->
    (forall pg pn, gc_parent (gcfg_at T c) = Some (pg, pn) -> t <= now_of pg w) ->
    clocks_ok T (ev c t w).

Section CLOCKS.
  Variable T : tcfg.
  Variable beh : behaviour.
  Hypothesis HT : wf_tree T.

  Lemma clocks_child_call ev g i w w' :
    ev_clocks T ev -> is_nested (ncfg_at T g i) = true -> NowEq w w' -> clocks_ok T w ->
    clocks_ok T (ev (c_child (ncfg_at T g i)) (now_of g w) w').
  Proof.
    intros Hev Hn K H. destruct HT as (HP & HK & _).
    assert (Hc := HK _ _ Hn).
    apply Hev.
    - eapply clocks_NowEq; eauto.
    - rewrite K. apply (H _ _ _ Hc).
    - intros pg pn Hp. rewrite Hc in Hp. inversion Hp; subst. rewrite K. lia.
  Qed.

  (* re-entering a paused child cycle: same time, so the same premises hold again *)
  Lemma clocks_reenter ev g i t : ev_clocks T ev -> ev_low ev -> is_nested (ncfg_at T g i) = true ->
    forall n w, clocks_ok T w -> now_of g w = t -> clocks_ok T (reenter ev n (c_child (ncfg_at T g i)) t w).
  Proof.
    intros Hev Hlow Hn. destruct HT as (HP & HK & _). assert (Hc := HK _ _ Hn).
    assert (Hlt : (g < c_child (ncfg_at T g i))%nat) by apply (HP _ _ _ Hc).
    induction n as [|n IH]; intros w H Ht; simpl; auto.
    destruct (_ =? _); auto. apply IH.
    - apply Hev.
      + eapply clocks_Keep; [apply Keep_set_err|auto].
      + change (now_of (c_child (ncfg_at T g i)) w <= t). rewrite <- Ht. apply (H _ _ _ Hc).
      + intros pg pn Hp. rewrite Hc in Hp. inversion Hp; subst. change (now_of pg (set_err 0 w)) with (now_of pg w). lia.
    - rewrite Hlow; auto.
  Qed.

  Lemma clocks_eval_nested ev g i w :
    ev_clocks T ev -> ev_low ev -> is_nested (ncfg_at T g i) = true -> clocks_ok T w -> clocks_ok T (eval_nested T ev g i w).
  Proof.
    intros Hev Hlow Hn H. unfold eval_nested. destruct (negb (n_started _)); auto.
    assert (H1 : clocks_ok T (ev (c_child (ncfg_at T g i)) (now_of g w) (relink T g i w))).
    { apply clocks_child_call; auto. apply Keep_NowEq, Keep_relink. }
    destruct (c_kind _ =? 1); auto.
    destruct (c_kind _ =? 4).
    - apply clocks_reenter; auto. rewrite Hlow; [apply Keep_now, Keep_relink|apply (child_gt T HT _ _ Hn)].
    - destruct (_ =? PAUSED); auto. eapply clocks_Keep; [apply Keep_catch|auto].
  Qed.

  Lemma clocks_eval_node ev g i w :
    ev_clocks T ev -> ev_low ev -> clocks_ok T w -> clocks_ok T (eval_node T beh ev g i w).
  Proof.
    intros Hev Hlow H. unfold eval_node. destruct (is_nested _) eqn:E.
    - apply clocks_eval_nested; auto.
    - destruct (_ =? 5); [eapply clocks_Keep; [apply Keep_eval_pauser|auto]|].
      eapply clocks_Keep; [apply Keep_eval_plain|auto].
  Qed.

  Lemma clocks_scan ev g : ev_clocks T ev -> ev_low ev -> forall k i w, clocks_ok T w -> clocks_ok T (scan T beh ev g i k w).
  Proof.
    intros Hev Hlow. induction k as [|k IH]; intros i w H; simpl; auto.
    destruct (negb (ok w)); auto.
    set (w0 := upd_g g (g_set_cursor (Z.of_nat i)) w).
    assert (H0 : clocks_ok T w0) by (eapply clocks_NowEq; [apply NowEq_upd_g; reflexivity|auto]).
    match goal with |- clocks_ok T (if negb (ok ?w') then _ else _) => assert (H1 : clocks_ok T w') end.
    { destruct (_ =? _).
      - apply clocks_eval_node; auto.
      - destruct (_ <? _); auto. destruct (_ <? _); auto.
        eapply clocks_NowEq; [apply NowEq_upd_g; reflexivity|auto]. }
    destruct (negb (ok _)); auto.
  Qed.

  Lemma clocks_eval_graph rr : forall f, ev_clocks T (eval_graph f T beh rr).
  Proof.
    destruct HT as (HP & HK & HR).
    induction f as [|f IH]; intros g t w H Hn Hp; simpl; auto.
    set (w0 := upd_g g (fun s => g_set_flags (g_started s) true false (g_set_now t s)) w).
    assert (H0 : clocks_ok T w0) by (apply clocks_upd_now with (t := t); auto).
    match goal with |- clocks_ok T (if negb (ok (scan _ _ _ _ ?st ?n ?w1)) then _ else _) =>
      assert (H1 : clocks_ok T w1) end.
    { destruct (_ && _); auto.
      eapply clocks_NowEq; [|exact H0]. intros x. unfold now_of. rewrite gat_emit.
      apply (gat_upd_proj g_now). reflexivity. }
    match goal with |- clocks_ok T (if negb (ok ?w2) then _ else _) => assert (H2 : clocks_ok T w2) by (apply clocks_scan; auto; apply (low_eval_graph T beh HT rr f)) end.
    destruct (negb (ok _)).
    - eapply clocks_NowEq; [apply NowEq_upd_g; reflexivity|auto].
    - eapply clocks_NowEq; [apply NowEq_upd_g; reflexivity|].
      destruct (gc_parent (gcfg_at T g)) as [[pg pn]|].
      + destruct (_ <? _).
        * eapply clocks_Keep; [apply Keep_sched_at|]. eapply clocks_NowEq; [apply NowEq_upd_g; reflexivity|auto].
        * eapply clocks_NowEq; [apply NowEq_upd_g; reflexivity|auto].
      + eapply clocks_NowEq; [apply NowEq_upd_g; reflexivity|auto].
  Qed.

  Lemma clocks_start_node sc g i w :
    ev_clocks T sc -> clocks_ok T w -> clocks_ok T (start_node T beh sc g i w).
  Proof.
    intros Hev H. unfold start_node. destruct (negb (ok w)); auto.
    destruct (is_nested _) eqn:E.
    - assert (H1 : clocks_ok T (sc (c_child (ncfg_at T g i)) (now_of g w) w))
        by (apply clocks_child_call; auto using NowEq_refl).
      destruct (negb (ok _)); auto.
      match goal with |- clocks_ok T (if negb (ok ?w3) then _ else _) => assert (H3 : clocks_ok T w3) end.
      { eapply clocks_Keep; [apply Keep_pull|]. eapply clocks_Keep; [apply Keep_sampled_if|auto]. }
      destruct (negb (ok _)); auto. eapply clocks_Keep; [apply Keep_upd_node|auto].
    - eapply clocks_Keep; [apply Keep_start_plain|auto].
  Qed.

  Lemma clocks_start_nodes sc g : ev_clocks T sc -> forall k i w, clocks_ok T w -> clocks_ok T (start_nodes T beh sc g i k w).
  Proof. intros Hev. induction k as [|k IH]; intros i w H; simpl; auto. apply IH. apply clocks_start_node; auto. Qed.

  Lemma clocks_start_graph : forall f, ev_clocks T (start_graph f T beh).
  Proof.
    destruct HT as (HP & HK & HR).
    induction f as [|f IH]; intros g t w H Hn Hp; simpl; auto.
    set (w0 := upd_g g (g_set_now t) w).
    assert (H0 : clocks_ok T w0) by (apply clocks_upd_now with (t := t); auto).
    match goal with |- clocks_ok T (if negb (ok ?w1) then _ else _) => assert (H1 : clocks_ok T w1) by (apply clocks_start_nodes; auto) end.
    destruct (negb (ok _)); auto.
    eapply clocks_NowEq; [apply NowEq_upd_g; reflexivity|auto].
  Qed.
End CLOCKS.

Section LOW.
  Variable T : tcfg.
  Variable beh : behaviour.
  Hypothesis HT : wf_tree T.

  Lemma low_start_nodes sc g : ev_low sc -> forall k i w g', (g' <= g)%nat ->
    now_of g' (start_nodes T beh sc g i k w) = now_of g' w.
  Proof.
    intros Hev. induction k as [|k IH]; intros i w g' Hg; simpl; auto.
    rewrite IH; auto. unfold start_node. destruct (negb (ok w)); auto.
    destruct (is_nested _) eqn:E; [|apply Keep_now, Keep_start_plain].
    assert (E1 : now_of g' (sc (c_child (ncfg_at T g i)) (now_of g w) w) = now_of g' w)
      by (apply Hev; pose proof (child_gt T HT _ _ E); lia).
    destruct (negb (ok _)); auto.
    match goal with |- now_of g' (if negb (ok ?w3) then _ else _) = _ => assert (E3 : now_of g' w3 = now_of g' w) end.
    { rewrite (Keep_now _ _ _ (Keep_pull _ _ _ _ _)), (Keep_now _ _ _ (Keep_sampled_if _ _ _ _ _ _)); auto. }
    destruct (negb (ok _)); auto. rewrite (Keep_now _ _ _ (Keep_upd_node _ _ _ _)); auto.
  Qed.

  Lemma low_start_graph : forall f, ev_low (start_graph f T beh).
  Proof.
    induction f as [|f IH]; intros g t w g' Hg; simpl; auto.
    match goal with |- now_of g' (if negb (ok ?w1) then _ else _) = _ => assert (E1 : now_of g' w1 = now_of g' w) end.
    { rewrite low_start_nodes; auto; [|lia]. apply now_upd_other; lia. }
    destruct (negb (ok _)); auto. rewrite now_upd_other; auto; lia.
  Qed.

  Lemma start_nodes_own_clock sc g : ev_low sc -> forall k i w, now_of g (start_nodes T beh sc g i k w) = now_of g w.
  Proof. intros Hev k i w. apply low_start_nodes; auto. Qed.
End LOW.

(* ---- the root cache through the recursive engine ---- *)
Definition ev_root (ev : nat -> Z -> world -> world) : Prop :=
  forall c t w, c <> 0%nat -> root_cache w -> root_cache (ev c t w).

Lemma root_cache_set_nst_gt g sc w : root_cache w -> g_now (gat g w) < sc -> root_cache (upd_g g (g_set_nst sc) w).
Proof.
  intros R H. destruct (Nat.eq_dec g 0) as [->|Hn]; [|apply root_cache_upd_other; auto].
  unfold root_cache in *. destruct (lt_dec 0 (length (w_gs w))).
  - rewrite gat_upd_same; auto. simpl. lia.
  - assert (E : w_gs w = []) by (destruct (w_gs w); simpl in *; [auto|lia]).
    unfold gat, upd_g in *; simpl. rewrite E in *. simpl in *. exact R.
Qed.

Lemma root_cache_set_now g f t w :
  (forall s, g_now (f s) = t /\ g_nst (f s) = g_nst s) ->
  (g = 0%nat -> t <= g_nst (gat 0 w)) -> root_cache w -> root_cache (upd_g g f w).
Proof.
  intros Hf Ht R. destruct (Nat.eq_dec g 0) as [->|Hn]; [|apply root_cache_upd_other; auto].
  unfold root_cache in *. destruct (lt_dec 0 (length (w_gs w))).
  - rewrite gat_upd_same; auto. destruct (Hf (gat 0 w)) as [-> ->]. auto.
  - assert (E : w_gs w = []) by (destruct (w_gs w); simpl in *; [auto|lia]).
    unfold gat, upd_g in *; simpl. rewrite E in *. simpl in *. exact R.
Qed.

Lemma root_cache_upd_root f w :
  g_now (f (gat 0 w)) <= g_nst (f (gat 0 w)) -> root_cache w -> root_cache (upd_g 0 f w).
Proof.
  intros H R. unfold root_cache, gat, upd_g in *; simpl. destruct (w_gs w); simpl in *; auto.
Qed.

Lemma now_upd_cases g f t w :
  (forall s, g_now (f s) = t) -> now_of g (upd_g g f w) = t \/ now_of g (upd_g g f w) = MIN_DT.
Proof.
  intros H. destruct (lt_dec g (length (w_gs w))).
  - left. apply now_upd_same; auto.
  - right. unfold now_of, gat, upd_g; simpl. rewrite update_oob by lia. rewrite nth_overflow by lia. reflexivity.
Qed.

Lemma seed_cache_ge s : g_now s <= MAX_DT -> g_now (seed_cache s) <= g_nst (seed_cache s).
Proof.
  intros H. unfold seed_cache; simpl.
  assert (G : forall l acc, g_now s <= acc ->
            g_now s <= fold_left (fun acc sc => if (g_now s <=? sc) && (sc <? acc) then sc else acc) l acc).
  { induction l as [|x r IH]; intros acc Ha; simpl; auto. apply IH. destruct (_ && _) eqn:E; lia. }
  apply G; auto.
Qed.

Section ROOT.
  Variable T : tcfg.
  Variable beh : behaviour.
  Hypothesis HT : wf_tree T.

  Lemma child_not_root g i : is_nested (ncfg_at T g i) = true -> c_child (ncfg_at T g i) <> 0%nat.
  Proof.
    intros Hn E. destruct HT as (_ & HK & HR). specialize (HK _ _ Hn). rewrite E in HK. congruence.
  Qed.

  Lemma root_cache_pull g i c w : root_cache w -> root_cache (pull T g i c w).
  Proof. destruct HT as (HP & _). intros R. unfold pull. destruct (_ =? _); auto using root_cache_sched_at. Qed.

  Lemma root_cache_eval_nested ev g i w :
    ev_root ev -> is_nested (ncfg_at T g i) = true -> root_cache w -> root_cache (eval_nested T ev g i w).
  Proof.
    destruct HT as (HP & HK & HR).
    intros Hev Hn R. unfold eval_nested. destruct (negb (n_started _)); auto.
    assert (R0 : root_cache (relink T g i w)).
    { unfold relink. destruct (_ && _); auto. apply root_cache_notify_graphs; auto using root_cache_upd_node. }
    assert (R1 := Hev (c_child (ncfg_at T g i)) (now_of g w) _ (child_not_root _ _ Hn) R0).
    destruct (c_kind _ =? 1); auto.
    destruct (c_kind _ =? 4).
    { generalize 64%nat. intros n. revert R1. generalize (ev (c_child (ncfg_at T g i)) (now_of g w) (relink T g i w)).
      induction n as [|n IHn]; intros w1 R1; simpl; auto. destruct (_ =? _); auto.
      apply IHn. apply Hev; [apply child_not_root; auto|exact R1]. }
    destruct (_ =? PAUSED); auto.
    unfold catch, caught. apply root_cache_pull.
    destruct (negb (ok _)); auto. apply root_cache_write_err; auto.
  Qed.

  Lemma root_cache_scan ev g : ev_root ev -> forall k i w, root_cache w -> root_cache (scan T beh ev g i k w).
  Proof.
    destruct HT as (HP & HK & HR).
    intros Hev. induction k as [|k IH]; intros i w R; simpl; auto.
    destruct (negb (ok w)); auto.
    set (w0 := upd_g g (g_set_cursor (Z.of_nat i)) w).
    assert (R0 : root_cache w0) by (apply root_cache_keepnst; auto; intros; split; reflexivity).
    match goal with |- root_cache (if negb (ok ?w') then _ else _) => assert (R1 : root_cache w') end.
    { destruct (_ =? _).
      - unfold eval_node. destruct (is_nested _) eqn:E.
        + apply root_cache_eval_nested; auto.
        + destruct (_ =? 5); [|apply root_cache_eval_plain; auto].
          unfold eval_pauser. destruct (negb (n_started _)); auto. destruct (_ <? _).
          * apply root_cache_upd_node with (w := w0); auto.
          * apply root_cache_do_ops; auto. apply root_cache_upd_node. apply root_cache_upd_node with (w := w0); auto.
      - destruct (g_now (gat g w0) <? slot_at i (gat g w0)) eqn:E1; auto.
        destruct (slot_at i (gat g w0) <? g_nst (gat g w0)); auto. apply root_cache_set_nst_gt; auto. lia. }
    destruct (negb (ok _)); auto.
  Qed.

  Lemma root_cache_eval_graph rr : forall f g t w,
    (g = 0%nat -> t <= g_nst (gat 0 w) /\ t <= MAX_DT) -> root_cache w -> root_cache (eval_graph f T beh rr g t w).
  Proof.
    destruct HT as (HP & HK & HR).
    induction f as [|f IH]; intros g t w Hg R; simpl; auto.
    assert (Hev : ev_root (eval_graph f T beh rr)) by (intros c t' w' Hc R'; apply IH; auto; intros; congruence).
    set (w0 := upd_g g (fun s => g_set_flags (g_started s) true false (g_set_now t s)) w).
    assert (R0 : root_cache w0).
    { apply root_cache_set_now with (t := t); [intros; split; reflexivity | intros E; apply (Hg E) | exact R]. }
    match goal with |- root_cache (if negb (ok (scan _ _ _ _ ?st ?n ?w1)) then _ else _) => assert (R1 : root_cache w1) end.
    { destruct (_ && _); auto.
      destruct (Nat.eq_dec g 0) as [->|Hn].
      - apply root_cache_upd_root with (w := w0); auto. simpl.
        destruct (now_upd_cases 0 (fun s => g_set_flags (g_started s) true false (g_set_now t s)) t w (fun _ => eq_refl)) as [E|E];
          fold w0 in E; unfold now_of in E; rewrite E; [apply Hg; auto|unfold MIN_DT, MAX_DT; lia].
      - apply root_cache_upd_other with (w := w0); auto. }
    match goal with |- root_cache (if negb (ok ?w2) then _ else _) => assert (R2 : root_cache w2) by (apply root_cache_scan; auto) end.
    destruct (negb (ok _)).
    - apply root_cache_keepnst; auto; intros; split; reflexivity.
    - apply root_cache_keepnst; [intros; split; reflexivity|].
      destruct (gc_parent (gcfg_at T g)) as [[pg pn]|].
      + destruct (_ <? _).
        * apply root_cache_sched_at; auto. apply root_cache_keepnst; auto; intros; split; reflexivity.
        * apply root_cache_keepnst; auto; intros; split; reflexivity.
      + apply root_cache_keepnst; auto; intros; split; reflexivity.
  Qed.

  Lemma root_cache_start_plain g i w : root_cache w -> root_cache (start_plain T beh g i w).
  Proof.
    destruct HT as (HP & _). intros R. unfold start_plain.
    match goal with |- root_cache (if negb (ok ?w1) then _ else _) => assert (R1 : root_cache w1) by (apply root_cache_do_ops; auto) end.
    destruct (negb (ok _)); auto. destruct (c_sos _); auto using root_cache_sched_at, root_cache_upd_node.
  Qed.

  Lemma root_cache_sampled_if b c now bs w : root_cache w -> root_cache (sampled_if b T c now bs w).
  Proof. intros R. unfold sampled_if. destruct b; auto. revert w R. destruct HT as (HP & _). induction bs as [|x r IH]; intros w R; simpl; auto.
    apply IH. destruct (match nth_error _ _ with Some _ => _ | None => _ end); auto using root_cache_sched_at. Qed.

  Lemma root_cache_sampled c now : forall bs w, root_cache w -> root_cache (sampled T c now bs w).
  Proof.
    destruct HT as (HP & _). induction bs as [|b r IH]; intros w R; simpl; auto.
    apply IH. destruct (match nth_error _ _ with Some _ => _ | None => _ end); auto using root_cache_sched_at.
  Qed.

  Lemma root_cache_start_nodes sc g : ev_root sc -> forall k i w, root_cache w -> root_cache (start_nodes T beh sc g i k w).
  Proof.
    intros Hev. induction k as [|k IH]; intros i w R; simpl; auto. apply IH.
    unfold start_node. destruct (negb (ok w)); auto.
    destruct (is_nested _) eqn:E; [|apply root_cache_start_plain; auto].
    assert (R1 := Hev (c_child (ncfg_at T g i)) (now_of g w) w (child_not_root _ _ E) R).
    destruct (negb (ok _)); auto.
    match goal with |- root_cache (if negb (ok ?w3) then _ else _) => assert (R3 : root_cache w3) by (apply root_cache_pull, root_cache_sampled_if; auto) end.
    destruct (negb (ok _)); auto using root_cache_upd_node.
  Qed.

  Lemma root_cache_start_graph : forall f g t w,
    (g = 0%nat -> t <= g_nst (gat 0 w) /\ t <= MAX_DT) -> root_cache w -> root_cache (start_graph f T beh g t w).
  Proof.
    induction f as [|f IH]; intros g t w Hg R; simpl; auto.
    assert (Hev : ev_root (start_graph f T beh)) by (intros c t' w' Hc R'; apply IH; auto; intros; congruence).
    set (w0 := upd_g g (g_set_now t) w).
    assert (R0 : root_cache w0).
    { apply root_cache_set_now with (t := t); [intros; split; reflexivity | intros E; apply (Hg E) | exact R]. }
    match goal with |- root_cache (if negb (ok ?w1) then _ else _) => assert (R1 : root_cache w1) by (apply root_cache_start_nodes; auto) end.
    destruct (negb (ok _)); auto.
    destruct (Nat.eq_dec g 0) as [->|Hn]; [|apply root_cache_upd_other; auto].
    apply root_cache_upd_root; auto. simpl.
    apply seed_cache_ge.
    change (now_of 0 (start_nodes T beh (start_graph f T beh) 0 0 (length (gc_nodes (gcfg_at T 0))) w0) <= MAX_DT).
    rewrite (start_nodes_own_clock T beh HT) by (apply low_start_graph; auto).
    destruct (now_upd_cases 0 (g_set_now t) t w (fun _ => eq_refl)) as [E|E]; fold w0 in E; rewrite E;
      [apply Hg; auto|unfold MIN_DT, MAX_DT; lia].
  Qed.
End ROOT.

(* ---- every state the simulation loop goes through ---- *)
Section RUN.
  Variable T : tcfg.
  Variable beh : behaviour.
  Variable rr : bool.
  Hypothesis HT : wf_tree T.

  Definition run_inv (w : world) : Prop := clocks_ok T w /\ root_cache w.

  Lemma gat_init g : gat g (init_world T) = init_g (length (gc_nodes (gcfg_at T g))).
  Proof.
    unfold gat, init_world, gcfg_at; simpl.
    change dflt_g with ((fun gc => init_g (length (gc_nodes gc))) dflt_gc). apply map_nth.
  Qed.

  Lemma init_run_inv : run_inv (init_world T).
  Proof.
    split.
    - intros c pg pn _. unfold now_of. rewrite !gat_init. simpl. lia.
    - unfold root_cache. rewrite gat_init. simpl. unfold MIN_DT, MAX_DT. lia.
  Qed.

  Lemma start_run_inv start : 0 <= start <= MAX_DT ->
    run_inv (start_graph (S (length T)) T beh 0 start (init_world T)).
  Proof.
    intros Hs. destruct init_run_inv as [C R]. pose proof HT as HT'. destruct HT' as (HP & HK & HR). split.
    - apply (clocks_start_graph T beh HT (S (length T))); auto.
      + unfold now_of. rewrite gat_init. simpl. unfold MIN_DT. lia.
      + intros pg pn Hp. congruence.
    - apply (root_cache_start_graph T beh HT); auto. intros _. rewrite gat_init. simpl. lia.
  Qed.

  Lemma run_loop_inv end_ : end_ <= MAX_DT -> forall fuel w, run_inv w -> run_inv (run_loop T beh rr end_ fuel w).
  Proof.
    intros He. pose proof HT as HT'. destruct HT' as (HP & HK & HR).
    induction fuel as [|fuel IH]; intros w [C R]; cbn [run_loop].
    - split; [eapply clocks_Keep; [apply Keep_set_err|auto]|exact R].
    - destruct (negb (ok w)); [split; auto|].
      destruct ((g_nst (gat 0 w) =? MAX_DT) || (end_ <=? g_nst (gat 0 w))) eqn:E; [split; auto|].
      apply IH. split.
      + apply (clocks_eval_graph T beh HT rr (S (length T))); [exact C | exact R | intros pg pn Hp; congruence].
      + apply (root_cache_eval_graph T beh HT rr); auto. intros _. split; lia.
  Qed.

  (* in every state the run reaches (after start, after every cycle): no child clock is ahead of its
     parent's, and the root's next cycle is never in its past *)
  Lemma run_sim_inv start end_ fuel : 0 <= start <= MAX_DT -> end_ <= MAX_DT ->
    run_inv (run_sim T beh rr start end_ fuel).
  Proof. intros Hs He. unfold run_sim. apply run_loop_inv; auto. apply start_run_inv; auto. Qed.
End RUN.

(* ------------------------------------------------------------------ 6. captured errors *)
Lemma nth_update_proj {A B} (pr : A -> B) i i' h (l : list A) d :
  (forall x, pr (h x) = pr x) -> pr (nth i (update i' h l) d) = pr (nth i l d).
Proof.
  intros H. revert i i'. induction l as [|x r IH]; intros [|i] [|i']; simpl; auto.
Qed.

(* the error ports of all nodes *)
Definition errp (n : nst) : option Z * Z := (n_err n, n_elmt n).
Definition ErrEq (w w' : world) : Prop := forall g i, errp (node_at g i w') = errp (node_at g i w).

Lemma ErrEq_refl w : ErrEq w w. Proof. intros g i; reflexivity. Qed.
Lemma ErrEq_trans a b c : ErrEq a b -> ErrEq b c -> ErrEq a c.
Proof. intros H1 H2 g i. rewrite H2, H1; auto. Qed.

Lemma ErrEq_upd_g_nodes g f w : (forall s, g_nodes (f s) = g_nodes s) -> ErrEq w (upd_g g f w).
Proof. intros H g' i. unfold node_at. rewrite (gat_upd_proj g_nodes); auto. Qed.

Lemma ErrEq_upd_node g i h w : (forall n, errp (h n) = errp n) -> ErrEq w (upd_node g i h w).
Proof.
  intros H g' i'. unfold node_at, upd_node.
  destruct (Nat.eq_dec g g') as [->|Hn].
  - destruct (lt_dec g' (length (w_gs w))).
    + rewrite gat_upd_same; auto. simpl. apply (nth_update_proj errp); auto.
    + unfold gat, upd_g; simpl. rewrite update_oob by lia. reflexivity.
  - rewrite gat_upd_other; auto.
Qed.

Lemma ErrEq_emit l w : ErrEq w (emit l w). Proof. intros g i; reflexivity. Qed.
Lemma ErrEq_set_err e w : ErrEq w (set_err e w). Proof. intros g i; reflexivity. Qed.

Lemma ErrEq_sched_local g i when w : ErrEq w (sched_local g i when w).
Proof.
  unfold sched_local; cbv zeta. destruct (when <? g_now (gat g w)); [apply ErrEq_set_err|].
  destruct (_ || _); [|apply ErrEq_refl]. apply ErrEq_upd_g_nodes; reflexivity.
Qed.

Lemma ErrEq_sched_at d T : forall g i when w, ErrEq w (sched_at d T g i when w).
Proof.
  induction d as [|d IH]; intros g i when w; simpl.
  - destruct (gc_parent _) as [[pg pn]|]; [apply ErrEq_set_err|apply ErrEq_sched_local].
  - destruct (gc_parent _) as [[pg pn]|]; [|apply ErrEq_sched_local].
    assert (K1 := ErrEq_sched_local g i (Z.max (Z.max when (now_of pg w)) (now_of 0 w)) w).
    destruct (negb (ok _)); auto.
    match goal with |- ErrEq w (if ?b then sched_at d T pg pn ?wh ?w2 else _) => assert (K2 : ErrEq w w2) end.
    { destruct (_ && _); auto. eapply ErrEq_trans; eauto. apply ErrEq_upd_g_nodes; reflexivity. }
    destruct (g_started _ && negb _); auto. eapply ErrEq_trans; eauto.
Qed.

Lemma ErrEq_notify_graphs T sub now : forall gs g w, ErrEq w (notify_graphs T sub now gs g w).
Proof.
  induction gs as [|gc r IH]; intros g w; simpl; [apply ErrEq_refl|].
  eapply ErrEq_trans; [|apply IH].
  generalize 0%nat. revert w. induction (gc_nodes gc) as [|c cs IHc]; intros w j; simpl; [apply ErrEq_refl|].
  eapply ErrEq_trans; [|apply IHc]. destruct (_ && _); [apply ErrEq_sched_at|apply ErrEq_refl].
Qed.

Lemma ErrEq_opt T g i o w : ErrEq w (opt_schedule T g i o w).
Proof. destruct o; simpl; [apply ErrEq_sched_at|apply ErrEq_refl]. Qed.

Lemma ErrEq_do_op T g i st opi o w : ErrEq w (do_op T g i st opi o w).
Proof.
  unfold do_op. destruct (negb (ok w)); [apply ErrEq_refl|].
  destruct o; try apply ErrEq_refl; try apply ErrEq_set_err; try apply ErrEq_sched_at.
  - destruct (c_sched _); [|apply ErrEq_refl]. destruct (schedule _ _ _ _ _) as [s' push].
    match goal with |- ErrEq w (if ok ?w1 then _ else _) => assert (K : ErrEq w w1) end.
    { (eapply ErrEq_trans; [|apply ErrEq_opt]); apply ErrEq_upd_node; reflexivity. }
    destruct (ok _); auto.
  - destruct (c_sched _); [|apply ErrEq_refl]. (eapply ErrEq_trans; [|apply ErrEq_emit]); apply ErrEq_upd_node; reflexivity.
  - destruct (c_sched _); [|apply ErrEq_refl]. (eapply ErrEq_trans; [|apply ErrEq_emit]); apply ErrEq_upd_node; reflexivity.
  - destruct (c_sched _); [|apply ErrEq_refl]. destruct (pop_tag _ _ _).
    (eapply ErrEq_trans; [|apply ErrEq_emit]); apply ErrEq_upd_node; reflexivity.
  - destruct (c_sched _); [|apply ErrEq_refl]. (eapply ErrEq_trans; [|apply ErrEq_emit]); apply ErrEq_upd_node; reflexivity.
  - destruct (_ && _); [|apply ErrEq_refl].
    eapply ErrEq_trans; [|apply ErrEq_emit]. eapply ErrEq_trans; [|apply ErrEq_notify_graphs].
    apply ErrEq_upd_node; reflexivity.
  - destruct (_ && _); [apply ErrEq_sched_at|apply ErrEq_refl].
  - destruct (_ && _); [apply ErrEq_sched_at|apply ErrEq_refl].
Qed.

Lemma ErrEq_do_ops T g i st : forall os opi w, ErrEq w (do_ops T g i st opi os w).
Proof.
  induction os as [|o r IH]; intros opi w; simpl; [apply ErrEq_refl|].
  eapply ErrEq_trans; [apply ErrEq_do_op|apply IH].
Qed.

Lemma ErrEq_run_user T beh g i w : ErrEq w (run_user T beh g i w).
Proof.
  unfold run_user. eapply ErrEq_trans; [|apply ErrEq_do_ops].
  (eapply ErrEq_trans; [|apply ErrEq_emit]); apply ErrEq_upd_node; reflexivity.
Qed.

Lemma ErrEq_rearm T g i sn now w : ErrEq w (rearm T g i sn now w).
Proof.
  unfold rearm. destruct (c_sched _); [|apply ErrEq_refl]. destruct sn.
  - destruct (advance _ _). (eapply ErrEq_trans; [|apply ErrEq_opt]); apply ErrEq_upd_node; reflexivity.
  - destruct (is_scheduled _); [apply ErrEq_sched_at|apply ErrEq_refl].
Qed.

(* writing the error output: exactly that port changes, and the write itself cannot fail *)
Lemma write_err_port T g i code now w :
  (g < length (w_gs w))%nat -> (i < length (g_nodes (gat g w)))%nat ->
  errp (node_at g i (write_err T g i code now w)) = (Some code, now).
Proof.
  intros Lg Li. unfold write_err, notify. rewrite (ErrEq_notify_graphs T _ now T 0 _ g i).
  unfold node_at, upd_node. rewrite gat_upd_same; auto. simpl.
  rewrite nth_update_same; auto.
Qed.

Lemma write_err_others T g i code now w g' i' :
  (g', i') <> (g, i) -> errp (node_at g' i' (write_err T g i code now w)) = errp (node_at g' i' w).
Proof.
  intros Hne. unfold write_err, notify. rewrite (ErrEq_notify_graphs T _ now T 0 _ g' i').
  unfold node_at, upd_node.
  destruct (Nat.eq_dec g g') as [->|Hn]; [|rewrite gat_upd_other; auto].
  destruct (lt_dec g' (length (w_gs w))).
  - rewrite gat_upd_same; auto. simpl. rewrite nth_update_other; [auto|congruence].
  - unfold gat, upd_g; simpl. rewrite update_oob by lia. reflexivity.
Qed.

Section CAPTURE.
  Variable T : tcfg.
  Variable beh : behaviour.
  Hypothesis HP : parents_lt T.

  (* node-level capture (NodeTypeMetaData.captures_errors): an exception [e] raised by user code yields
     exactly one tick of that node's error output, at [now], carrying [e]; the error is cleared (the
     run continues) and no other error output changes *)
  Lemma capture_one_tick g i now w e :
    c_kind (ncfg_at T g i) = 3 -> w_err w = e -> e <> 0 ->
    (g < length (w_gs w))%nat -> (i < length (g_nodes (gat g w)))%nat ->
    let w' := capture T g i now w in
    w_err w' = 0
    /\ errp (node_at g i w') = (Some e, now)
    /\ forall g' i', (g', i') <> (g, i) -> errp (node_at g' i' w') = errp (node_at g' i' w).
  Proof.
    intros Hk He Hne Lg Li. unfold capture. rewrite Hk. unfold ok. rewrite He.
    replace (e =? 0) with false by lia. simpl.
    repeat split.
    - rewrite write_err_err; auto.
    - apply write_err_port; auto.
    - intros g' i' Hd. rewrite write_err_others; auto.
  Qed.

  (* no exception: no error tick *)
  Lemma capture_none g i now w : w_err w = 0 -> capture T g i now w = w.
  Proof. intros H. unfold capture, ok. rewrite H. simpl. rewrite andb_false_r. reflexivity. Qed.

  (* a node without capture lets the exception through unchanged *)
  Lemma capture_off g i now w : c_kind (ncfg_at T g i) <> 3 -> capture T g i now w = w.
  Proof. intros H. unfold capture. replace (c_kind (ncfg_at T g i) =? 3) with false by lia. reflexivity. Qed.

  (* a whole evaluation of a capturing node whose user code throws [e]: one tick, same cycle, the
     scheduler re-arm still runs on the captured state *)
  Lemma eval_plain_captured g i w e :
    c_kind (ncfg_at T g i) = 3 -> n_started (node_at g i w) = true ->
    (match c_ins (ncfg_at T g i) with [] => true | _ => ready (ncfg_at T g i) (now_of g w) w end) = true ->
    w_err (run_user T beh g i w) = e -> e <> 0 ->
    (g < length (w_gs w))%nat -> (i < length (g_nodes (gat g w)))%nat ->
    let now := now_of g w in
    let w1 := capture T g i now (run_user T beh g i w) in
    eval_plain T beh g i w
      = rearm T g i (c_sched (ncfg_at T g i) && is_scheduled_now now (n_sch (node_at g i w))) now w1
    /\ w_err w1 = 0
    /\ errp (node_at g i (eval_plain T beh g i w)) = (Some e, now).
  Proof.
    intros Hk Hs Hr He Hne Lg Li now w1.
    assert (K := Keep_run_user T beh g i w).
    destruct (capture_one_tick g i now (run_user T beh g i w) e Hk He Hne) as (E0 & E1 & _).
    { destruct K as [K _]; lia. }
    { destruct K as [_ K]. rewrite (kg_nnodes _ _ (K g)). auto. }
    assert (Ee : eval_plain T beh g i w = rearm T g i (c_sched (ncfg_at T g i) && is_scheduled_now now (n_sch (node_at g i w))) now w1).
    { unfold eval_plain. rewrite Hs. cbn [negb]. rewrite Hr. unfold ok. subst now. rewrite E0. reflexivity. }
    repeat split; auto.
    rewrite Ee. rewrite (ErrEq_rearm T g i _ now w1 g i). exact E1.
  Qed.

  (* ... and when the user code does not throw, no error output changes during the evaluation *)
  Lemma eval_plain_no_tick g i w :
    w_err (run_user T beh g i w) = 0 -> ErrEq w (eval_plain T beh g i w).
  Proof.
    intros H. unfold eval_plain. destruct (negb (n_started _)); [apply ErrEq_refl|].
    match goal with |- ErrEq w (if negb (ok ?w1) then _ else _) => assert (K : ErrEq w w1) end.
    { destruct (match c_ins _ with [] => true | _ => _ end); [|apply ErrEq_refl].
      rewrite capture_none; auto. apply ErrEq_run_user. }
    destruct (negb (ok _)); auto. eapply ErrEq_trans; [exact K|apply ErrEq_rearm].
  Qed.

  (* try_except: the child's exception [e] becomes one tick of the `exception` field at [now]; it is
     cleared (the run continues); no other error output changes *)
  Lemma caught_one_tick g i now w e :
    w_err w = e -> e <> 0 ->
    (g < length (w_gs w))%nat -> (i < length (g_nodes (gat g w)))%nat ->
    let w' := caught T g i now w in
    w_err w' = 0
    /\ errp (node_at g i w') = (Some e, now)
    /\ forall g' i', (g', i') <> (g, i) -> errp (node_at g' i' w') = errp (node_at g' i' w).
  Proof.
    intros He Hne Lg Li. unfold caught, ok. rewrite He. replace (e =? 0) with false by lia. simpl.
    repeat split.
    - rewrite write_err_err; auto.
    - apply write_err_port; auto.
    - intros g' i' Hd. rewrite write_err_others; auto.
  Qed.

  Lemma caught_none g i now w : w_err w = 0 -> caught T g i now w = w.
  Proof. intros H. unfold caught, ok. rewrite H. reflexivity. Qed.

  (* the pull after the catch is ordinary scheduling: it touches no error output, and it cannot fail
     as long as the child's cached next time is not behind the parent's clock *)
  Lemma pull_err g i c w : now_of g w <= g_nst (gat c w) -> w_err (pull T g i c w) = w_err w.
  Proof. intros H. unfold pull. destruct (_ =? _); auto. apply sched_at_top_err; auto. Qed.

  Lemma ErrEq_pull g i c w : ErrEq w (pull T g i c w).
  Proof. unfold pull. destruct (_ =? _); [apply ErrEq_refl|apply ErrEq_sched_at]. Qed.
End CAPTURE.

(* ------------------------------------------------------------------ 7. the resuming rule *)
Lemma update_update {A} n f h (l : list A) : update n f (update n h l) = update n (fun x => f (h x)) l.
Proof. revert n; induction l as [|x r IH]; intros [|n]; simpl; auto. f_equal; apply IH. Qed.
Lemma update_ext {A} n f h (l : list A) : (forall x, f x = h x) -> update n f l = update n h l.
Proof. intros H. revert n; induction l as [|x r IH]; intros [|n]; simpl; auto; f_equal; auto. Qed.
Lemma upd_g_upd_g g f h w : upd_g g f (upd_g g h w) = upd_g g (fun s => f (h s)) w.
Proof. unfold upd_g; simpl. f_equal. apply update_update. Qed.
Lemma upd_g_ext g f h w : (forall s, f s = h s) -> upd_g g f w = upd_g g h w.
Proof. intros H. unfold upd_g. f_equal. apply update_ext; auto. Qed.

Lemma failed_in_range g w : g_failed (gat g w) = true -> (g < length (w_gs w))%nat.
Proof.
  intros H. destruct (lt_dec g (length (w_gs w))); auto.
  unfold gat in H. rewrite nth_overflow in H by lia. discriminate.
Qed.

(* the cycle after a failed one does not depend on where the cursor was left: it is the same cycle as
   from cursor 0 (= after a completed cycle).  Repaired rule only. *)
Lemma eval_graph_after_failure f T beh g t w c :
  g_failed (gat g w) = true ->
  eval_graph (S f) T beh true g t (upd_g g (g_set_cursor c) w) = eval_graph (S f) T beh true g t w.
Proof.
  intros Hf. assert (L := failed_in_range _ _ Hf).
  cbn [eval_graph].
  rewrite (gat_upd_same g (g_set_cursor c) w L).
  change (g_failed (g_set_cursor c (gat g w))) with (g_failed (gat g w)).
  rewrite Hf. cbn [negb andb].
  rewrite !upd_g_upd_g.
  assert (E : upd_g g (fun s => g_set_cursor 0 (g_set_nst MAX_DT
                 (g_set_flags (g_started (g_set_cursor c s)) true false (g_set_now t (g_set_cursor c s))))) w
            = upd_g g (fun s => g_set_cursor 0 (g_set_nst MAX_DT (g_set_flags (g_started s) true false (g_set_now t s)))) w)
    by (apply upd_g_ext; intros s; reflexivity).
  rewrite E. reflexivity.
Qed.

(* under the rule before the repair the same cycle resumes at the stale cursor: it is a different cycle *)
Lemma old_rule_resumes f T beh g t w :
  g_failed (gat g w) = true -> g_cursor (gat g w) <> 0 -> g_cursor (gat g w) <> -1 ->
  eval_graph (S f) T beh false g t w =
  (let w0 := upd_g g (fun s => g_set_flags (g_started s) true false (g_set_now t s)) w in
   let n := length (gc_nodes (gcfg_at T g)) in
   let st := Z.to_nat (g_cursor (gat g w0)) in
   let w2 := scan T beh (eval_graph f T beh false) g st (n - st) w0 in
   if negb (ok w2) then upd_g g (fun s => g_set_flags (g_started s) false (negb (w_err w2 =? PAUSED)) s) w2
   else
     let w3 := upd_g g (g_set_cursor 0) w2 in
     let w4 := match gc_parent (gcfg_at T g) with
               | None => w3
               | Some (pg, pn) => let nx := g_nst (gat g w3) in
                                  if nx <? MAX_DT then sched_at (length T) T pg pn nx w3 else w3
               end in
     upd_g g (fun s => g_set_flags (g_started s) false (g_failed s) s) w4).
Proof.
  intros Hf H0 H1. cbn [eval_graph]. cbv zeta.
  replace (g_cursor (gat g w) =? 0) with false by lia.
  replace (g_cursor (gat g w) =? -1) with false by lia. reflexivity.
Qed.

(* ------------------------------------------------------------------ 4b. a nested node evaluates its child at its own graph's time, and only there *)
Lemma eval_nested_time T ev ev' g i w :
  (forall w', ev (c_child (ncfg_at T g i)) (now_of g w) w' = ev' (c_child (ncfg_at T g i)) (now_of g w) w') ->
  eval_nested T ev g i w = eval_nested T ev' g i w.
Proof.
  intros H. unfold eval_nested. rewrite H.
  assert (R : forall n w1, reenter ev n (c_child (ncfg_at T g i)) (now_of g w) w1
                         = reenter ev' n (c_child (ncfg_at T g i)) (now_of g w) w1).
  { induction n as [|n IH]; intros w1; simpl; auto. destruct (_ =? _); auto. rewrite H. apply IH. }
  rewrite R. reflexivity.
Qed.


(* ------------------------------------------------------------------ 5. push and pull: the parent is due no later *)
Definition clamp (T : tcfg) (g : nat) (when : Z) (w : world) : Z :=
  match gc_parent (gcfg_at T g) with None => when | Some (pg, _) => Z.max (Z.max when (now_of pg w)) (now_of 0 w) end.
Definition idle (g : nat) (w : world) : bool := g_started (gat g w) && negb (g_evaluating (gat g w)).

Lemma sched_local_slot_le g i when w :
  (g < length (w_gs w))%nat -> (i < length (g_slots (gat g w)))%nat -> g_now (gat g w) <= when ->
  slot_at i (gat g (sched_local g i when w)) <= when.
Proof.
  intros Lg Li Hn. unfold sched_local; cbv zeta.
  destruct (when <? g_now (gat g w)) eqn:E0; [lia|].
  destruct ((slot_at i (gat g w) <=? g_now (gat g w)) || (when <? slot_at i (gat g w))) eqn:E.
  - rewrite gat_upd_same; auto. unfold slot_at, g_set_sched, set_nth; simpl. rewrite nth_update_same; auto. lia.
  - lia.
Qed.

(* a (nested) schedule on graph g touches only g and graphs with smaller ids (its ancestors) *)
Lemma sched_at_above T (HT : parents_lt T) d : forall g i when w g', (g < g')%nat ->
  gat g' (sched_at d T g i when w) = gat g' w.
Proof.
  assert (SL : forall g i when w g', g <> g' -> gat g' (sched_local g i when w) = gat g' w).
  { intros g i when w g' Hn. unfold sched_local; cbv zeta. destruct (when <? _); auto.
    destruct (_ || _); auto. apply gat_upd_other; auto. }
  induction d as [|d IH]; intros g i when w g' Hg; simpl.
  - destruct (gc_parent _) as [[pg pn]|]; auto. apply SL; lia.
  - destruct (gc_parent (gcfg_at T g)) as [[pg pn]|] eqn:Hp; [|apply SL; lia].
    assert (E1 := SL g i (Z.max (Z.max when (now_of pg w)) (now_of 0 w)) w g' ltac:(lia)).
    destruct (negb (ok _)); auto.
    match goal with |- gat g' (if ?b then sched_at d T pg pn ?wh ?w2 else _) = _ => assert (E2 : gat g' w2 = gat g' w) end.
    { destruct (_ && _); auto. rewrite gat_upd_other; auto; lia. }
    destruct (g_started _ && negb _); auto. rewrite IH; auto. specialize (HT _ _ _ Hp). lia.
Qed.

(* after a schedule request the node's own slot is no later than the request (clamped to the parent's clock) *)
Lemma sched_at_own_slot T (HT : parents_lt T) : forall d g i when w,
  (g < d)%nat \/ gc_parent (gcfg_at T g) = None ->
  (g < length (w_gs w))%nat -> (i < length (g_slots (gat g w)))%nat -> now_of g w <= when ->
  slot_at i (gat g (sched_at d T g i when w)) <= clamp T g when w.
Proof.
  induction d as [|d IH]; intros g i when w Hd Lg Li Hn; unfold clamp; simpl.
  - destruct (gc_parent (gcfg_at T g)) as [[pg pn]|] eqn:Hp.
    + destruct Hd as [Hd|Hd]; [lia|discriminate].
    + apply sched_local_slot_le; auto.
  - destruct (gc_parent (gcfg_at T g)) as [[pg pn]|] eqn:Hp; [|apply sched_local_slot_le; auto].
    set (when' := Z.max (Z.max when (now_of pg w)) (now_of 0 w)).
    assert (S1 : slot_at i (gat g (sched_local g i when' w)) <= when')
      by (apply sched_local_slot_le; auto; unfold now_of in *; lia).
    destruct (negb (ok _)); auto.
    match goal with |- slot_at i (gat g (if ?b then sched_at d T pg pn ?wh ?w2 else _)) <= _ =>
      assert (S2 : slot_at i (gat g w2) <= when') end.
    { destruct (_ && _); auto. unfold slot_at in *. rewrite (gat_upd_proj g_slots); auto. }
    destruct (g_started _ && negb _); auto.
    rewrite sched_at_above; auto. apply (HT _ _ _ Hp).
Qed.

(* THE PUSH: an out-of-band schedule on an idle child (started, not evaluating) arms the owning node in
   the parent graph no later than that time (clamped to the clocks above).  The push is itself a
   (nested) schedule on the parent, so the same lemma applies again one level up, to the root. *)
Lemma push_arms_owner T (HT : parents_lt T) g i when w pg pn :
  gc_parent (gcfg_at T g) = Some (pg, pn) ->
  w_err w = 0 -> idle g w = true -> now_of g w <= when ->
  (pg < length (w_gs w))%nat -> (pn < length (g_slots (gat pg w)))%nat ->
  slot_at pn (gat pg (sched_at (length T) T g i when w)) <= clamp T pg (Z.max (Z.max when (now_of pg w)) (now_of 0 w)) w.
Proof.
  intros Hp Hok Hidle Hn Lpg Lpn.
  assert (Lg := has_parent_in_range _ _ _ _ Hp).
  destruct (length T) as [|d] eqn:EL; [lia|]. cbn [sched_at]. rewrite Hp.
  set (when' := Z.max (Z.max when (now_of pg w)) (now_of 0 w)).
  set (w1 := sched_local g i when' w).
  assert (K1 : Keep w w1) by apply Keep_sched_local.
  assert (E1 : w_err w1 = w_err w) by (apply sched_local_err; unfold now_of in *; lia).
  unfold ok. rewrite E1, Hok. cbn [Z.eqb negb].
  assert (Hid : g_started (gat g w1) && negb (g_evaluating (gat g w1)) = true).
  { destruct K1 as [_ K]. rewrite (kg_started _ _ (K g)), (kg_evaluating _ _ (K g)). exact Hidle. }
  rewrite Hid. cbn [andb].
  match goal with |- slot_at pn (gat pg (sched_at d T pg pn when' ?w2)) <= _ => set (w2' := w2) in * end.
  assert (K2 : Keep w w2').
  { unfold w2'. destruct (when' <? _); auto. eapply Keep_trans; eauto. apply Keep_upd_g; intros; apply keep_set_nst. }
  assert (HH := sched_at_own_slot T HT d pg pn when' w2').
  unfold clamp in *.
  destruct (gc_parent (gcfg_at T pg)) as [[ppg ppn]|] eqn:Hpp.
  - rewrite !(Keep_now _ _ _ K2) in HH. apply HH.
    + left. specialize (HT _ _ _ Hp). lia.
    + destruct K2 as [K2 _]; lia.
    + destruct K2 as [_ K2]. rewrite (kg_nslots _ _ (K2 pg)); auto.
    + unfold when'. lia.
  - apply HH; auto.
    + destruct K2 as [K2 _]; lia.
    + destruct K2 as [_ K2]. rewrite (kg_nslots _ _ (K2 pg)); auto.
    + rewrite (Keep_now _ _ _ K2). unfold when'. lia.
Qed.

(* THE PULL: the tail of a completed child cycle arms the owner at the child's cached next time *)
Lemma pull_arms_owner T (HT : parents_lt T) g i c w :
  g_nst (gat c w) <> MAX_DT -> now_of g w <= g_nst (gat c w) ->
  (g < length (w_gs w))%nat -> (i < length (g_slots (gat g w)))%nat ->
  slot_at i (gat g (pull T g i c w)) <= clamp T g (g_nst (gat c w)) w.
Proof.
  intros Hm Hn Lg Li. unfold pull. replace (g_nst (gat c w) =? MAX_DT) with false by lia.
  apply sched_at_own_slot; auto.
  destruct (gc_parent (gcfg_at T g)) as [[pg pn]|] eqn:Hp; auto. left. eapply has_parent_in_range; eauto.
Qed.

(* ------------------------------------------------------------------ 8. footprint of a capture; bindings *)
(* scheduling never touches node states *)
Definition NodesEq (w w' : world) : Prop := forall g, g_nodes (gat g w') = g_nodes (gat g w).
Lemma NodesEq_refl w : NodesEq w w. Proof. intros g; reflexivity. Qed.
Lemma NodesEq_trans a b c : NodesEq a b -> NodesEq b c -> NodesEq a c.
Proof. intros H1 H2 g. rewrite H2, H1; auto. Qed.
Lemma NodesEq_upd_g g f w : (forall s, g_nodes (f s) = g_nodes s) -> NodesEq w (upd_g g f w).
Proof. intros H g'. apply (gat_upd_proj g_nodes); auto. Qed.

Lemma NodesEq_sched_local g i when w : NodesEq w (sched_local g i when w).
Proof.
  unfold sched_local; cbv zeta. destruct (when <? g_now (gat g w)); [intros x; reflexivity|].
  destruct (_ || _); [|apply NodesEq_refl]. apply NodesEq_upd_g; reflexivity.
Qed.

Lemma NodesEq_sched_at d T : forall g i when w, NodesEq w (sched_at d T g i when w).
Proof.
  induction d as [|d IH]; intros g i when w; simpl.
  - destruct (gc_parent _) as [[pg pn]|]; [intros x; reflexivity|apply NodesEq_sched_local].
  - destruct (gc_parent _) as [[pg pn]|]; [|apply NodesEq_sched_local].
    assert (K1 := NodesEq_sched_local g i (Z.max (Z.max when (now_of pg w)) (now_of 0 w)) w).
    destruct (negb (ok _)); auto.
    match goal with |- NodesEq w (if ?b then sched_at d T pg pn ?wh ?w2 else _) => assert (K2 : NodesEq w w2) end.
    { destruct (_ && _); auto. eapply NodesEq_trans; eauto. apply NodesEq_upd_g; reflexivity. }
    destruct (g_started _ && negb _); auto. eapply NodesEq_trans; eauto.
Qed.

Lemma NodesEq_notify_graphs T sub now : forall gs g w, NodesEq w (notify_graphs T sub now gs g w).
Proof.
  induction gs as [|gc r IH]; intros g w; simpl; [apply NodesEq_refl|].
  eapply NodesEq_trans; [|apply IH].
  generalize 0%nat. revert w. induction (gc_nodes gc) as [|c cs IHc]; intros w j; simpl; [apply NodesEq_refl|].
  eapply NodesEq_trans; [|apply IHc]. destruct (_ && _); [apply NodesEq_sched_at|apply NodesEq_refl].
Qed.

(* the footprint of one error tick: every other node is untouched as a whole; the failing node keeps its
   value output, scheduler, run counter and lifecycle flag; what is added is the scheduling of readers *)
Lemma write_err_footprint T g i code now w g' i' :
  let n := node_at g' i' w in
  let n' := node_at g' i' (write_err T g i code now w) in
  ((g', i') <> (g, i) -> n' = n)
  /\ n_val n' = n_val n /\ n_lmt n' = n_lmt n /\ n_sch n' = n_sch n /\ n_runs n' = n_runs n /\ n_started n' = n_started n.
Proof.
  cbv zeta. unfold write_err, notify, node_at.
  rewrite (NodesEq_notify_graphs T _ now T 0 _ g').
  unfold upd_node.
  destruct (Nat.eq_dec g g') as [->|Hn].
  - destruct (lt_dec g' (length (w_gs w))).
    + rewrite gat_upd_same; auto. simpl. split.
      * intros Hd. rewrite nth_update_other; [auto|congruence].
      * destruct (Nat.eq_dec i i') as [->|Hi].
        -- destruct (lt_dec i' (length (g_nodes (gat g' w)))).
           ++ rewrite nth_update_same; auto.
           ++ rewrite update_oob by lia. repeat split; auto.
        -- rewrite nth_update_other; auto.
    + unfold gat, upd_g; simpl. rewrite update_oob by lia. repeat split; auto.
  - rewrite gat_upd_other; auto. repeat split; auto.
Qed.

(* boundaries are bindings, at every depth: a bound child input reads the endpoint its owner's own input
   reads; a nested node's output (a try_except node's `out`) is the child terminal's output *)
Lemma res_in_bound f T g n slot s pg pn b :
  nth_error (c_ins (ncfg_at T g n)) slot = Some s -> i_src s < 0 ->
  gc_parent (gcfg_at T g) = Some (pg, pn) ->
  find (fun b => (b_node b =? n)%nat && (b_slot b =? slot)%nat) (c_binds (ncfg_at T pg pn)) = Some b ->
  res_in (S f) T g n slot = res_in f T pg pn (b_outer b).
Proof.
  intros Hs Hneg Hp Hb. cbn [res_in]. rewrite Hs. replace (0 <=? i_src s) with false by lia.
  rewrite Hp, Hb. reflexivity.
Qed.

Lemma res_out_forward f T g n :
  is_nested (ncfg_at T g n) = true -> 0 <= c_outn (ncfg_at T g n) ->
  res_out (S f) T g n 0 = res_out f T (c_child (ncfg_at T g n)) (Z.to_nat (c_outn (ncfg_at T g n))) 0.
Proof.
  intros Hn Ho. cbn [res_out]. rewrite Hn. replace (0 <=? c_outn (ncfg_at T g n)) with true by lia. reflexivity.
Qed.

(* ---- non-vacuity material: the decoded witness program is a well-formed tree ---- *)
Lemma wf_boom_ident : wf_tree (decode boom_ident_case).
Proof.
  repeat split.
  - intros g pg pn. destruct g as [|[|g]]; vm_compute; intros H; try discriminate.
    + inversion H; subst. lia.
    + destruct g; discriminate.
  - intros g i. destruct g as [|[|g]].
    + destruct i as [|[|[|[|i]]]]; vm_compute; intros H; try discriminate; try reflexivity.
      destruct i; discriminate.
    + destruct i as [|[|i]]; vm_compute; intros H; try discriminate. destruct i; discriminate.
    + vm_compute. destruct g; destruct i; intros H; try discriminate; destruct i; discriminate.
Qed.

(* ---- the finding of DESIGN.md 8.1, kept as history: under the rule before the repair the tick after a
   captured error is lost; under the repaired rule it is delivered (computed on the witness program) ---- *)
Lemma old_rule_loses_tick :
  rec_ticks 0 2 (run_nest_rule false boom_ident_case) = [(1, 101); (4, 104)]
  /\ rec_ticks 0 3 (run_nest_rule false boom_ident_case) = [(2, 107)].
Proof. vm_compute. split; reflexivity. Qed.

Lemma repaired_rule_delivers_tick :
  rec_ticks 0 2 (run_nest_rule true boom_ident_case) = [(1, 101); (3, 103); (4, 104)]
  /\ rec_ticks 0 3 (run_nest_rule true boom_ident_case) = [(2, 107)].
Proof. vm_compute. split; reflexivity. Qed.

(* ---- the repaired clamp: a (nested) schedule request never leaves a slot of a child graph at a time before the
   ROOT's current time (the engine's time) - whatever clocks lie between, however stale ---- *)
Lemma sched_local_slot_cases g i when w :
  slot_at i (gat g (sched_local g i when w)) = when \/ slot_at i (gat g (sched_local g i when w)) = slot_at i (gat g w).
Proof.
  unfold sched_local; cbv zeta. destruct (when <? g_now (gat g w)); [right; reflexivity|].
  destruct (_ || _); [|right; reflexivity].
  destruct (lt_dec g (length (w_gs w))).
  - rewrite gat_upd_same; auto. unfold slot_at, g_set_sched, set_nth; simpl.
    destruct (lt_dec i (length (g_slots (gat g w)))).
    + left. apply nth_update_same; auto.
    + right. rewrite update_oob by lia. reflexivity.
  - right. unfold gat, upd_g; simpl. rewrite update_oob by lia. reflexivity.
Qed.

Lemma nested_schedule_not_before_root T (HT : parents_lt T) d g i when w pg pn :
  gc_parent (gcfg_at T g) = Some (pg, pn) ->
  let w' := sched_at (S d) T g i when w in
  slot_at i (gat g w') = slot_at i (gat g w) \/ now_of 0 w <= slot_at i (gat g w').
Proof.
  intros Hp. cbn [sched_at]. rewrite Hp.
  set (when' := Z.max (Z.max when (now_of pg w)) (now_of 0 w)).
  assert (Hlt : (pg < g)%nat) by apply (HT _ _ _ Hp).
  destruct (sched_local_slot_cases g i when' w) as [E|E].
  - right.
    assert (E' : forall x, gat g x = gat g (sched_local g i when' w) -> now_of 0 w <= slot_at i (gat g x))
      by (intros x Hx; rewrite Hx, E; unfold when'; lia).
    destruct (negb (ok _)); [apply E'; reflexivity|].
    match goal with |- _ <= slot_at i (gat g (if ?b then sched_at d T pg pn ?wh ?w2 else _)) =>
      assert (S2 : slot_at i (gat g w2) = when') end.
    { destruct (_ && _); auto. unfold slot_at in *. rewrite (gat_upd_proj g_slots); auto. }
    destruct (g_started _ && negb _); [rewrite sched_at_above; auto|]; rewrite S2; unfold when'; lia.
  - left.
    destruct (negb (ok _)); [exact E|].
    match goal with |- slot_at i (gat g (if ?b then sched_at d T pg pn ?wh ?w2 else _)) = _ =>
      assert (S2 : slot_at i (gat g w2) = slot_at i (gat g w)) end.
    { destruct (_ && _); auto. unfold slot_at in *. rewrite (gat_upd_proj g_slots); auto. }
    destruct (g_started _ && negb _); [rewrite sched_at_above; auto|]; exact S2.
Qed.
