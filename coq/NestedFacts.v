(* NestedFacts.v — lemmas about the tree engine of Nested.v *)
Require Import Base Sched SchedFacts Nested NestedWitness.
From Coq Require Import ZifyBool.

(* ---- the finding of DESIGN.md 8.1, kept as history: under the OLD resuming rule the tick after a
   captured error is lost; under the repaired rule it is delivered ---- *)
Lemma old_rule_loses_tick :
  rec_ticks 0 2 (run_nest_rule false boom_ident_case) = [(1, 101); (4, 104)]
  /\ rec_ticks 0 3 (run_nest_rule false boom_ident_case) = [(2, 107)].
Proof. vm_compute. split; reflexivity. Qed.

Lemma repaired_rule_delivers_tick :
  rec_ticks 0 2 (run_nest_rule true boom_ident_case) = [(1, 101); (3, 103); (4, 104)]
  /\ rec_ticks 0 3 (run_nest_rule true boom_ident_case) = [(2, 107)].
Proof. vm_compute. split; reflexivity. Qed.
