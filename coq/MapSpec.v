(* MapSpec.v — SPECIFICATION model of map_ over TSD inputs (property C10).
   What map_ means: at every engine cycle the output dictionary holds, for every key of the union
   key set of the multiplexed dictionaries whose instance has a valid output, the output of a
   FRESH instance of the mapped body started in the cycle the key appeared and fed that key's
   element streams, the broadcast argument and the key.  An instance is a generic stateful stream
   function  state -> input tick -> state * output, whose pending self-wake-up is a function of
   its state ([b_next]); it is stepped exactly when one of its own inputs ticked or its own
   wake-up is due.  The map is the key-wise product of [key_step]; nothing else is shared.
   The vocabulary of cxx/map_driver.cpp ([vbody]) is one instance, used for extraction.
   Executable definitions only; theorems are in MapFacts.v. *)
Require Import Base.

(* ---- the generic body ---- *)
Record binput := mkBI {
  bi_now   : Z;
  bi_key   : Z;
  bi_first : bool;                       (* the cycle the instance is created in: the key input ticks *)
  bi_args  : list (option Z * bool) }.   (* per argument: value if bound and valid, modified this cycle *)

Inductive bout := BNone | BOut (v : Z) | BErr.

Record body (S : Type) := mkBody {
  b_init : S;
  b_step : S -> binput -> S * bout;
  b_next : S -> option Z }.              (* earliest pending self-wake-up *)
Arguments b_init {S}. Arguments b_step {S}. Arguments b_next {S}. Arguments mkBody {S}.

(* ---- per-key state ---- *)
Record kstate (S : Type) := mkK {
  k_vals  : list (option Z);     (* the key's element in each multiplexed dictionary *)
  k_inst  : option S;            (* the live instance *)
  k_valid : bool }.              (* its output has ticked at least once: the key is an output element *)
Arguments mkK {S}. Arguments k_vals {S}. Arguments k_inst {S}. Arguments k_valid {S}.

Definition kinit {S} (ndict : nat) : kstate S := mkK (repeat None ndict) None false.

(* what happened to one key in one cycle *)
Record kev := mkEv {
  ev_start : bool; ev_stop : bool; ev_removed : bool; ev_out : option Z; ev_err : bool }.
Definition no_ev : kev := mkEv false false false None false.

(* a dictionary operation on this key: dict index, code (1 set, 2 erase), value *)
Definition kop := (nat * Z * Z)%type.

(* element value and "set in this cycle" flag after the cycle's operations *)
Fixpoint apply_ops (i : nat) (ops : list kop) (cur : option Z * bool) : option Z * bool :=
  match ops with
  | [] => cur
  | (d, c, v) :: r =>
      if Nat.eqb d i then
        apply_ops i r (if c =? 1 then (Some v, true) else if c =? 2 then (None, false) else cur)
      else apply_ops i r cur
  end.

Fixpoint new_vals (i : nat) (vals : list (option Z)) (ops : list kop) : list (option Z * bool) :=
  match vals with
  | [] => []
  | v :: r => apply_ops i ops (v, false) :: new_vals (S i) r ops
  end.

Definition is_some {A} (o : option A) : bool := match o with Some _ => true | None => false end.
Definition any_bound (l : list (option Z * bool)) : bool := existsb (fun p => is_some (fst p)) l.
Definition any_mod (l : list (option Z * bool)) : bool := existsb (fun p => is_some (fst p) && snd p) l.

Definition wake_due {S} (B : body S) (s : S) (t : Z) : bool :=
  match b_next B s with Some w => w <=? t | None => false end.

(* the broadcast arguments (bound whole to every instance): current value and modified flag each *)
Definition bcarg := list (option Z * bool).

Definition key_step {S} (B : body S) (t : Z) (bc : bcarg) (key : Z) (ks : kstate S) (ops : list kop)
  : kstate S * kev :=
  let nv := new_vals 0 (k_vals ks) ops in
  let vals' := map fst nv in
  let live' := any_bound nv in
  match k_inst ks, live' with
  | Some _, false =>                                   (* the key left every dictionary: stop, erase *)
      (mkK vals' None false, mkEv false true (k_valid ks) None false)
  | None, false => (mkK vals' None false, no_ev)
  | inst, true =>
      let first := negb (is_some inst) in
      let s := match inst with Some s => s | None => b_init B end in
      let args := nv ++ bc in
      let trig := first || any_mod args || wake_due B s t in
      if trig then
        let '(s', o) := b_step B s (mkBI t key first args) in
        match o with
        | BOut v => (mkK vals' (Some s') true, mkEv first false false (Some v) false)
        | BNone => (mkK vals' (Some s') (k_valid ks), mkEv first false false None false)
        | BErr => (mkK vals' (Some s') (k_valid ks), mkEv first false false None true)
        end
      else (mkK vals' (Some s) (k_valid ks), no_ev)
  end.

(* ---- the map: key-wise product over the (static) key universe ---- *)
Definition mstate (S : Type) := list (Z * kstate S).

Definition ops_on (key : Z) (ops : list (nat * Z * Z * Z)) : list kop :=
  map (fun o => (fst (fst (fst o)), snd (fst o), snd o))
      (filter (fun o => snd (fst (fst o)) =? key) (map (fun o => match o with (d, c, k, v) => (d, k, c, v) end) ops)).

(* one cycle: [ops] are (dict, code, key, value) in program order *)
Definition cycle {S} (B : Z -> body S) (t : Z) (bc : Z -> bcarg) (ops : list (nat * Z * Z * Z)) (st : mstate S)
  : list (Z * (kstate S * kev)) :=
  map (fun p => (fst p, key_step (B (fst p)) t (bc (fst p)) (fst p) (snd p) (ops_on (fst p) ops))) st.

Definition next_state {S} (r : list (Z * (kstate S * kev))) : mstate S := map (fun p => (fst p, fst (snd p))) r.
Definition events {S} (r : list (Z * (kstate S * kev))) : list (Z * kev) := map (fun p => (fst p, snd (snd p))) r.

Fixpoint kget {S} (key : Z) (st : mstate S) : option (kstate S) :=
  match st with [] => None | (k, ks) :: r => if k =? key then Some ks else kget key r end.

(* a history: per cycle the time, the broadcast update and the dictionary operations *)
(* [c_bc]: the arguments that are not elements of key-owning dictionaries, as key j's instance sees them in this
   cycle: broadcast arguments (the same for every key) and elements of no_key dictionaries (per key) *)
Record cyc := mkCyc { c_t : Z; c_bc : Z -> bcarg; c_ops : list (nat * Z * Z * Z) }.

(* [r_primed]: some dictionary has ticked, so the key set is known and the output dictionary is valid;
   the log records per cycle the time, whether the output became valid in it, and the key events *)
Record run_state (S : Type) := mkR { r_st : mstate S; r_primed : bool; r_log : list (Z * bool * list (Z * kev)) }.
Arguments mkR {S}. Arguments r_st {S}. Arguments r_primed {S}. Arguments r_log {S}.

Definition has_set (ops : list (nat * Z * Z * Z)) : bool := existsb (fun o => snd (fst (fst o)) =? 1) ops.

Definition run_cycle {S} (B : Z -> body S) (r : run_state S) (c : cyc) : run_state S :=
  let res := cycle B (c_t c) (c_bc c) (c_ops c) (r_st r) in
  let prime := negb (r_primed r) && has_set (c_ops c) in
  mkR (next_state res) (r_primed r || prime) ((c_t c, prime, events res) :: r_log r).

Definition run {S} (B : Z -> body S) (st0 : run_state S) (h : list cyc) : run_state S :=
  fold_left (run_cycle B) h st0.

Definition start_state {S} (ndict : nat) (keys : list Z) : run_state S :=
  mkR (map (fun k => (k, kinit ndict)) keys) false [].

(* the events of one key, oldest first *)
Definition key_events {S} (key : Z) (r : run_state S) : list (Z * kev) :=
  flat_map (fun te => match find (fun p => fst p =? key) (snd te) with
                      | Some p => [(fst (fst te), snd p)] | None => [] end) (rev (r_log r)).

(* the earliest pending wake-up over all live instances *)
Definition min_opt (a b : option Z) : option Z :=
  match a, b with Some x, Some y => Some (Z.min x y) | Some x, None => Some x | None, o => o end.
Definition next_wake {S} (B : Z -> body S) (st : mstate S) : option Z :=
  fold_right (fun p acc => match k_inst (snd p) with Some s => min_opt (b_next (B (fst p)) s) acc | None => acc end) None st.

(* ================================================================== the vocabulary *)
Inductive stage := SAdd (c : Z) | SAcc | STimer (d : Z) (tagged : bool) | SBoom (v : Z).

(* [v_nested]: the body is itself a map_ - over the WHOLE second dictionary (passed through), with the element as the
   inner broadcast argument, inner function y + x - followed by the sum of the inner map's elements.  The two
   extra arguments are the sum and the number of the second dictionary's entries (None until it has ticked). *)
Record vspec := mkV { v_usekey : bool; v_nested : bool; v_stages : list stage }.

(* a node's output: held value (if it ever ticked) *)
Record sstate := mkSS { ss_out : option Z; ss_acc : Z; ss_last : Z; ss_pend : list Z }.
Definition ss0 : sstate := mkSS None 0 0 [].

Fixpoint ins_set (x : Z) (l : list Z) : list Z :=
  match l with
  | [] => [x]
  | y :: r => if x <? y then x :: l else if x =? y then l else y :: ins_set x r
  end.

(* one stage node: input signal (value if valid, modified); returns new state, modified?, failed? *)
Definition stage_step (sg : stage) (t : Z) (st : sstate) (inp : option Z * bool) : sstate * bool * bool :=
  match sg, inp with
  | SAdd c, (Some v, true) => (mkSS (Some (v + c)) (ss_acc st) (ss_last st) (ss_pend st), true, false)
  | SAcc, (Some v, true) => (mkSS (Some (ss_acc st + v)) (ss_acc st + v) (ss_last st) (ss_pend st), true, false)
  | SBoom b, (Some v, true) =>
      if v =? b then (st, false, true) else (mkSS (Some v) (ss_acc st) (ss_last st) (ss_pend st), true, false)
  | STimer d tagged, (Some v, m) =>
      let woke := match ss_pend st with w :: _ => w =? t | [] => false end in
      let due  := match ss_pend st with w :: _ => w <=? t | [] => false end in
      if m || due then
        let out := if woke then Some (ss_last st + 500) else ss_out st in
        let pend1 := filter (fun w => t <? w) (ss_pend st) in
        let last' := if m then v else ss_last st in
        let pend2 := if m && (0 <? d) then (if tagged then [t + d] else ins_set (t + d) pend1) else pend1 in
        (mkSS out (ss_acc st) last' pend2, woke, false)
      else (st, false, false)
  | _, _ => (st, false, false)
  end.

Fixpoint chain_step (sgs : list stage) (t : Z) (sts : list sstate) (inp : option Z * bool) (failed : bool)
  : list sstate * (option Z * bool) * bool :=
  match sgs, sts with
  | sg :: rs, st :: rt =>
      if failed then
        let '(r, o, f) := chain_step rs t rt (ss_out st, false) true in (st :: r, o, f)
      else
        let '(st', m, f) := stage_step sg t st inp in
        let '(r, o, f') := chain_step rs t rt (ss_out st', m) f in (st' :: r, o, f')
  | _, _ => (sts, inp, failed)
  end.

(* front end: x0 = arg 0; KeyMix(key, x0) when the key is consumed; the sum with the other arguments when there are any *)
(* [vs_skip]: the child graph's evaluation cursor is parked on the node that threw (graph.cpp evaluate_impl,
   DESIGN.md 8.1 / property C15): the child's next evaluation resumes there and evaluates none of the
   nodes before it - with the vocabulary's chains (the throwing node is last) that evaluation does nothing.
   That was the defect of DESIGN.md 8.1; it is repaired in /repo (commit 8043915: resuming = !evaluation_failed && ...),
   so [lost_tick_after_error] is false.  The switch is kept so that the defective behaviour remains expressible
   (mutant m14 reverts the repair and must be caught). *)
Record vstate := mkVS { vs_km : option Z; vs_add : option Z; vs_sts : list sstate; vs_skip : bool }.

Definition lost_tick_after_error : bool := false.

Definition vstep (sp : vspec) (s : vstate) (bi : binput) : vstate * bout :=
  if vs_skip s then (mkVS (vs_km s) (vs_add s) (vs_sts s) false, BNone) else
  let a0 := nth 0 (bi_args bi) (None, false) in
  let '(km, x1) :=
    if v_usekey sp then
      match a0 with
      | (Some v, m) => if m || bi_first bi then (Some (bi_key bi * 1000 + v), (Some (bi_key bi * 1000 + v), true))
                       else (vs_km s, (vs_km s, false))
      | (None, _) => (vs_km s, (vs_km s, false))
      end
    else (vs_km s, a0) in
  if v_nested sp then
    (mkVS km (vs_add s) (vs_sts s) false,
     match bi_args bi, x1 with
     | [_; (Some sm, ms); (Some n, mn)], (Some x, mx) =>
         if bi_first bi || ms || mn || (mx && (0 <? n)) then BOut (sm + n * x) else BNone
     | _, _ => BNone
     end)
  else
  let '(ad, x2) :=
    match tl (bi_args bi) with
    | [] => (vs_add s, x1)
    | extras =>
        (* the sum node (Add2 / Add3): needs every input valid, ticks when any input ticked *)
        match x1 with
        | (Some v, m) =>
            if forallb (fun a : option Z * bool => is_some (fst a)) extras && (m || existsb snd extras) then
              let sm := fold_left (fun acc a => acc + match fst a with Some w => w | None => 0 end) extras v in
              (Some sm, (Some sm, true))
            else (vs_add s, (vs_add s, false))
        | _ => (vs_add s, (vs_add s, false))
        end
    end in
  let '(sts, o, f) := chain_step (v_stages sp) (bi_now bi) (vs_sts s) x2 false in
  (mkVS km ad sts (f && lost_tick_after_error),
   if f then BErr else match o with (Some v, true) => BOut v | _ => BNone end).

Definition vnext (s : vstate) : option Z :=
  fold_right (fun st acc => min_opt (match ss_pend st with w :: _ => Some w | [] => None end) acc) None (vs_sts s).

Definition vbody (sp : vspec) : body vstate :=
  mkBody (mkVS None None (map (fun _ => ss0) (v_stages sp)) false) (vstep sp) vnext.

Definition stages_of (code p1 p2 : Z) : list stage :=
  if code =? 0 then [SAdd p1]
  else if code =? 1 then [SAcc]
  else if code =? 2 then [SAcc; SAdd p1]
  else if code =? 3 then [STimer p1 (z2b p2)]
  else if code =? 4 then [STimer p1 (z2b p2); SAcc]
  else if code =? 5 then [SAcc; SBoom p1]
  else if code =? 7 then [SBoom p1]
  else if code =? 6 then []
  else [SAdd 0].

(* ================================================================== decoding and printing *)
(* case lines:  1 start end | 2 body p1 p2 ndict bcast usekey capture [shape] | 3 dict time code key val | 4 time val
   shape 0 map_(f, d0[, d1][, b]) | 1 map_(f, d0, no_key(d1)[, b]) | 2 map_(f, b, d0, no_key(d1)) | 3 map_(f, b, no_key(d1), d0)
         4 map_(f, b, d0[, d1])   | 5 map_ over dynamic lists (the index is the key) *)
Record mcase := mkMC {
  m_start : Z; m_end : Z; m_body : Z; m_p1 : Z; m_p2 : Z; m_ndict : Z; m_bcast : bool; m_usekey : bool; m_capture : bool;
  m_shape : Z;
  m_dops : list (Z * (nat * Z * Z * Z));     (* time, (dict, code, key, val) in program order *)
  m_bops : list (Z * Z) }.

Definition decode (w : wire) : mcase :=
  fold_left (fun m l =>
    match l with
    | [1; a; b] => mkMC a b (m_body m) (m_p1 m) (m_p2 m) (m_ndict m) (m_bcast m) (m_usekey m) (m_capture m) (m_shape m) (m_dops m) (m_bops m)
    | [2; b; p1; p2; nd; bc; uk; cap] => mkMC (m_start m) (m_end m) b p1 p2 nd (z2b bc) (z2b uk) (z2b cap) 0 (m_dops m) (m_bops m)
    | [2; b; p1; p2; nd; bc; uk; cap; sh] => mkMC (m_start m) (m_end m) b p1 p2 nd (z2b bc) (z2b uk) (z2b cap) sh (m_dops m) (m_bops m)
    | [3; d; t; c; k; v] => mkMC (m_start m) (m_end m) (m_body m) (m_p1 m) (m_p2 m) (m_ndict m) (m_bcast m) (m_usekey m) (m_capture m) (m_shape m)
                                 (m_dops m ++ [(t, (Z.to_nat d, c, k, v))]) (m_bops m)
    | [3; d; t; c; k; v; _] => mkMC (m_start m) (m_end m) (m_body m) (m_p1 m) (m_p2 m) (m_ndict m) (m_bcast m) (m_usekey m) (m_capture m) (m_shape m)
                                 (m_dops m ++ [(t, (Z.to_nat d, c, k, v))]) (m_bops m)
    | [4; t; v] => mkMC (m_start m) (m_end m) (m_body m) (m_p1 m) (m_p2 m) (m_ndict m) (m_bcast m) (m_usekey m) (m_capture m) (m_shape m)
                        (m_dops m) (m_bops m ++ [(t, v)])
    | _ => m
    end) w (mkMC 1 10 0 0 0 1 false false false 0 [] []).

Fixpoint zins (x : Z) (l : list Z) : list Z :=
  match l with [] => [x] | y :: r => if x <? y then x :: l else if x =? y then l else y :: zins x r end.
Definition zsort_dedup (l : list Z) : list Z := fold_right zins [] l.

(* the next cycle time strictly after [t]: the earliest script time or pending wake-up *)
Definition next_time (m : mcase) (t : Z) (wake : option Z) : option Z :=
  let cands := filter (fun x => t <? x) (map fst (m_dops m) ++ map fst (m_bops m)) in
  min_opt (match cands with [] => None | x :: r => Some (zmin_list x r) end)
          (match wake with Some w => if t <? w then Some w else None | None => None end).

Fixpoint upd_assoc (k v : Z) (l : list (Z * Z)) : list (Z * Z) :=
  match l with
  | [] => [(k, v)]
  | (k', v') :: r => if k <? k' then (k, v) :: l else if k =? k' then (k, v) :: r else (k', v') :: upd_assoc k v r
  end.
Definition del_assoc (k : Z) (l : list (Z * Z)) : list (Z * Z) := filter (fun p => negb (fst p =? k)) l.

(* the second dictionary as a whole (nested body), after the operations up to and including time t *)
Definition d1_at (m : mcase) (t : Z) : list (Z * Z) :=
  fold_left (fun d p => match p with (tm, (di, c, k, v)) =>
                          if (tm <=? t) && Nat.eqb di 1 then (if c =? 1 then upd_assoc k v d else if c =? 2 then del_assoc k d else d) else d end)
            (m_dops m) [].

(* the second dictionary is a no_key input: de-multiplexed per key, but it does not contribute keys *)
Definition no_key_shape (m : mcase) : bool := (1 <=? m_shape m) && (m_shape m <=? 3).

(* the number of key-owning dictionaries *)
Definition m_own (m : mcase) : nat := if no_key_shape m then 1%nat else Z.to_nat (m_ndict m).

(* key j's element of the no_key dictionary 1 at time t: value, and whether it was set in this cycle *)
Definition side_at (m : mcase) (t : Z) (j : Z) : option Z * bool :=
  let at_time := fun tm => map snd (filter (fun p => fst p =? tm) (m_dops m)) in
  (* earlier cycles in TIME order (the case lists operations in program order per cycle, not necessarily by time) *)
  let before := fold_left (fun v tm => fst (apply_ops 1 (ops_on j (at_time tm)) (v, false)))
                          (filter (fun tm => tm <? t) (zsort_dedup (map fst (m_dops m)))) None in
  apply_ops 1 (ops_on j (at_time t)) (before, false).

Definition bc_at (m : mcase) (t : Z) (j : Z) : bcarg :=
  if m_body m =? 6 then
    let d := d1_at m t in
    let valid := existsb (fun p => match p with (tm, (di, c, _, _)) => (tm <=? t) && Nat.eqb di 1 && (c =? 1) end) (m_dops m) in
    let md := existsb (fun p => match p with (tm, (di, _, _, _)) => (tm =? t) && Nat.eqb di 1 end) (m_dops m) in
    if valid then [(Some (fold_left (fun a p => a + snd p) d 0), md); (Some (Z.of_nat (length d)), md)] else [(None, false); (None, false)]
  else
    (if no_key_shape m then [side_at m t j] else []) ++
    (if m_bcast m then
       [(match filter (fun p => fst p <=? t) (m_bops m) with [] => None | p :: r => Some (snd (last r p)) end,
         existsb (fun p => fst p =? t) (m_bops m))]
     else []).

Definition cyc_at (m : mcase) (t : Z) : cyc :=
  mkCyc t (bc_at m t)
        (filter (fun o => Nat.ltb (fst (fst (fst o))) (m_own m)) (map snd (filter (fun p => fst p =? t) (m_dops m)))).

Fixpoint drive {S} (B : Z -> body S) (m : mcase) (fuel : nat) (t : Z) (r : run_state S) : run_state S :=
  match fuel with
  | O => r
  | S f =>
      match next_time m t (next_wake B (r_st r)) with
      | Some t' => if t' <? m_end m then drive B m f t' (run_cycle B r (cyc_at m t')) else r
      | None => r
      end
  end.

(* observation lines of one cycle; keys come in increasing order from the state *)
Definition zcount {A} (f : A -> bool) (l : list A) : Z := Z.of_nat (length (filter f l)).

(* [lc]: the output ticks when a child starts or stops (an owned dictionary gains / loses an element); a list output
   only grows silently and ticks with its elements *)
Definition cycle_lines (usekey counts capture lc : bool) (t : Z) (prime : bool) (evs : list (Z * kev)) (valid_before : list (Z * Z))
           (live_after : list Z) (all_after : list (Z * Z)) (errs_before : list Z) : list line :=
  let starts := filter (fun p => ev_start (snd p)) evs in
  let stops := filter (fun p => ev_stop (snd p)) evs in
  let outs := flat_map (fun p => match ev_out (snd p) with Some v => [(fst p, v)] | None => [] end) evs in
  let removed := map fst (filter (fun p => ev_removed (snd p)) evs) in
  let added := filter (fun k => negb (existsb (fun q => fst q =? k) valid_before)) (map fst outs) in
  let errs := map fst (filter (fun p => ev_err (snd p)) evs) in
  let flat := flat_map (fun p : Z * Z => [fst p; snd p]) in
  (if counts then match starts with [] => [] | _ => [[20; t; Z.of_nat (length starts)]] end else []) ++
  (if counts then match stops with [] => [] | _ => [[21; t; Z.of_nat (length stops)]] end else []) ++
  (if usekey then match starts with [] => [] | _ => [22 :: t :: map fst starts] end else []) ++
  (if usekey then match stops with [] => [] | _ => [23 :: t :: map fst stops] end else []) ++
  (match (if lc then starts else []), (if lc then stops else []), outs, prime && lc with
   | [], [], [], false => []
   | _, _, _, _ => [[30; t]; 31 :: t :: removed; 32 :: t :: flat outs; [33; t]; 34 :: t :: flat all_after;
                 35 :: t :: live_after; 36 :: t :: added]
   end) ++
  (* the error dictionary ticks exactly when a child raised (those keys) or a key that has an error entry is removed *)
  (let erem := filter (fun k => existsb (Z.eqb k) errs_before) (map fst stops) in
   if capture then match errs, erem with [], [] => [] | _, _ => [37 :: t :: errs; 38 :: t :: erem] end else []).

(* replay the log (oldest first) keeping the valid-element dictionary and the live key set *)

Fixpoint print_log_e (usekey counts capture lc : bool) (log : list (Z * bool * list (Z * kev))) (valid : list (Z * Z)) (live : list Z)
         (errs : list Z) : list line :=
  match log with
  | [] => []
  | (t, prime, evs) :: r =>
      let live1 := fold_left (fun l p => if ev_stop (snd p) then filter (fun k => negb (k =? fst p)) l
                                         else if ev_start (snd p) then zins (fst p) l else l) evs live in
      let valid1 := fold_left (fun l p => if ev_stop (snd p) then del_assoc (fst p) l
                                          else match ev_out (snd p) with Some v => upd_assoc (fst p) v l | None => l end) evs valid in
      let errs1 := fold_left (fun l p => if ev_stop (snd p) then filter (fun k => negb (k =? fst p)) l
                                         else if ev_err (snd p) then zins (fst p) l else l) evs errs in
      cycle_lines usekey counts capture lc t prime evs valid live1 valid1 errs ++ print_log_e usekey counts capture lc r valid1 live1 errs1
  end.

Definition print_log (usekey counts : bool) (log : list (Z * bool * list (Z * kev))) (valid : list (Z * Z)) (live : list Z) : list line :=
  print_log_e usekey counts true true log valid live [].

Definition final_lines (usekey counts : bool) (live : list Z) : list line :=
  (if counts then [[24; Z.of_nat (length live)]] else []) ++ (if usekey then [25 :: live] else []).

Definition live_keys {S} (st : mstate S) : list Z := map fst (filter (fun p => is_some (k_inst (snd p))) st).

Definition run_map (w : wire) : wire :=
  let m := decode w in
  let keys := zsort_dedup (map (fun p => snd (fst (snd p))) (m_dops m)) in
  let sp := mkV (m_usekey m) (m_body m =? 6) (stages_of (m_body m) (m_p1 m) (m_p2 m)) in
  let counts := negb (m_body m =? 6) in
  let B := fun _ : Z => vbody sp in
  let r0 : run_state vstate := start_state (m_own m) keys in
  let r := drive B m (Z.to_nat (m_end m - m_start m + 2)) (m_start m - 1) r0 in
  print_log_e (m_usekey m) counts (m_capture m) (negb (m_shape m =? 5)) (rev (r_log r)) [] [] [] ++ final_lines (m_usekey m) counts (live_keys (r_st r)).
