(* MeshFacts.v — lemmas about the mirror of the mesh_ settle loop (Mesh.v).

   [ext m m']  "m' is a later state of the same settle pass": the pending-rank minimum only went down, the
               repair flag and the engine time are unchanged, no slot lost its entry.  It holds across every
               function that runs inside a pass ([process_entry] and everything below it), by one lemma each.
   With it:    - whatever became pending in a pass (scheduled through the observer, created, paused) bounds
                 [m_pmin] from above for the rest of the pass, so the repaired loop DEFERS every unsettled
                 entry ranked strictly above it                                   (no_evaluation_above_scheduled, _paused)
               - an evaluated entry is settled at the cycle's time or paused     (evaluated_settles_or_pauses)
   Independent of it: a reference is bound only to an available dependency of lower rank
               (add_dependency_true), a settled child is skipped, cycle reports are sound for the registered
               edges (re_rank_cycle_sound). *)
Require Import Base Mesh.
From Coq Require Import ZifyBool.

(* ------------------------------------------------------------------ ext *)
Definition ext (m m' : mesh) : Prop :=
  m_pmin m' <= m_pmin m /\ m_fix m' = m_fix m /\ m_now m' = m_now m /\
  (forall s, get_entry m s <> None -> get_entry m' s <> None).

Lemma ext_refl m : ext m m.
Proof. unfold ext; repeat split; auto; lia. Qed.

Lemma ext_trans a b c : ext a b -> ext b c -> ext a c.
Proof.
  unfold ext; intros (H1 & H2 & H3 & H4) (G1 & G2 & G3 & G4). split; [lia|].
  split; [rewrite G2; exact H2|]. split; [rewrite G3; exact H3|]. intros s Hs; auto.
Qed.

(* setters of fields [ext] does not look at *)
Ltac ext_field := intros; match goal with H : ext _ _ |- _ => destruct H as (?H1 & ?H2 & ?H3 & ?H4) end;
                  unfold ext, get_entry in *; simpl; repeat split; auto.

Lemma ext_ev m0 v m : ext m0 m -> ext m0 (set_m_ev v m). Proof. ext_field. Qed.
Lemma ext_err m0 v m : ext m0 m -> ext m0 (set_m_err v m). Proof. ext_field. Qed.
Lemma ext_cand m0 v m : ext m0 m -> ext m0 (set_m_cand v m). Proof. ext_field. Qed.
Lemma ext_deps m0 v m : ext m0 m -> ext m0 (set_m_deps v m). Proof. ext_field. Qed.
Lemma ext_torem m0 v m : ext m0 m -> ext m0 (set_m_torem v m). Proof. ext_field. Qed.
Lemma ext_maxrank m0 v m : ext m0 m -> ext m0 (set_m_maxrank v m). Proof. ext_field. Qed.
Lemma ext_outval m0 v m : ext m0 m -> ext m0 (set_m_outval v m). Proof. ext_field. Qed.
Lemma ext_outel m0 v m : ext m0 m -> ext m0 (set_m_outel v m). Proof. ext_field. Qed.
Lemma ext_modified m0 v m : ext m0 m -> ext m0 (set_m_modified v m). Proof. ext_field. Qed.
Lemma ext_oob m0 v m : ext m0 m -> ext m0 (set_m_oob v m). Proof. ext_field. Qed.
Lemma ext_free m0 v m : ext m0 m -> ext m0 (set_m_free v m). Proof. ext_field. Qed.
Lemma ext_cap m0 v m : ext m0 m -> ext m0 (set_m_cap v m). Proof. ext_field. Qed.

Lemma ext_emit m0 l m : ext m0 m -> ext m0 (emit l m).
Proof. unfold emit; apply ext_ev. Qed.

Lemma ext_raise m0 c m : ext m0 m -> ext m0 (raise c m).
Proof. unfold raise; intros H; destruct (failed m); auto using ext_err. Qed.

Lemma nth_set_nth_some {A} (l : list (option A)) s s' (v : A) :
  nth s l None <> None -> nth s (set_nth s' (Some v) l) None <> None.
Proof.
  intros H. destruct (Nat.eq_dec s' s) as [->|Hne].
  - unfold set_nth. rewrite nth_update_same; [discriminate|].
    destruct (Nat.lt_ge_cases s (length l)) as [Hl|Hl]; auto.
    rewrite nth_overflow in H by lia. congruence.
  - unfold set_nth. rewrite nth_update_other; auto.
Qed.

Lemma ext_put m0 s e m : ext m0 m -> ext m0 (put_entry s e m).
Proof.
  intros (H1 & H2 & H3 & H4). unfold ext, put_entry, get_entry in *; simpl; repeat split; auto.
  intros s0 Hs. apply nth_set_nth_some; auto.
Qed.

Lemma ext_upd_entry m0 s f m : ext m0 m -> ext m0 (upd_entry s f m).
Proof. unfold upd_entry; intros H; destruct (get_entry m s); auto using ext_put. Qed.

Lemma ext_upd_child m0 s f m : ext m0 m -> ext m0 (upd_child s f m).
Proof. unfold upd_child; apply ext_upd_entry. Qed.

Lemma ext_upd_sub m0 s w f m : ext m0 m -> ext m0 (upd_sub s w f m).
Proof. unfold upd_sub; apply ext_upd_child. Qed.

Lemma ext_note m0 s m : ext m0 m -> ext m0 (note_rank s m).
Proof.
  unfold note_rank; intros H; destruct (get_entry m s); auto.
  destruct H as (H1 & H2 & H3 & H4). unfold ext, get_entry in *; simpl; repeat split; auto; lia.
Qed.

Lemma ext_add_cand m0 s m : ext m0 m -> ext m0 (add_cand s m).
Proof.
  unfold add_cand; intros H. cbv zeta.
  replace (m_fix (set_m_cand (nadd s (m_cand m)) m)) with (m_fix m) by reflexivity.
  destruct (m_fix m); auto using ext_note, ext_cand.
Qed.

Lemma ext_schedule m0 s n t m : ext m0 m -> ext m0 (schedule s n t m).
Proof.
  unfold schedule; intros H. destruct (get_entry m s) as [e|]; auto.
  destruct (negb (c_started (e_child e))); auto. cbv zeta.
  destruct (negb (negb (c_evalg (e_child e)))); auto using ext_put.
  match goal with |- ext _ (if ?b then _ else _) => destruct b end; auto using ext_put, ext_add_cand.
Qed.

Lemma ext_add_slot m0 os m : ext m0 m -> ext m0 (add_slot os m).
Proof.
  unfold add_slot; intros H; destruct os as [s|]; auto. destruct (get_entry m s) as [e|]; auto.
  destruct (e_live e); auto using ext_add_cand.
Qed.

Lemma ext_tick_reader m0 k t m s : ext m0 m -> ext m0 (tick_reader k t m s).
Proof.
  unfold tick_reader; intros H. destruct (get_entry m s) as [e|]; auto.
  destruct (negb (e_live e)); auto. cbv zeta.
  repeat match goal with |- context [if ?b then _ else _] => destruct b end; auto 10 using ext_schedule.
Qed.

Lemma ext_fold_tick m0 k t l : forall m, ext m0 m -> ext m0 (fold_left (tick_reader k t) l m).
Proof. induction l as [|s r IH]; simpl; intros m H; auto using ext_tick_reader. Qed.

Lemma ext_element_tick m0 k t m : ext m0 m -> ext m0 (element_tick k t m).
Proof. unfold element_tick; apply ext_fold_tick. Qed.

Lemma nth_app_none {A} (l : list (option A)) n s : nth s l None <> None -> nth s (l ++ repeat None n) None <> None.
Proof.
  intros H. destruct (Nat.lt_ge_cases s (length l)) as [Hl|Hl].
  - rewrite app_nth1; auto.
  - rewrite nth_overflow in H by lia. congruence.
Qed.

Lemma ext_acquire m0 m : ext m0 m -> ext m0 (fst (acquire m)).
Proof.
  unfold acquire; intros H. destruct (m_free m) as [|s r]; [|apply ext_free; exact H].
  cbv zeta.
  set (newcap := Nat.max (S (live_count m)) (Nat.max 8 (2 * m_cap m))).
  assert (Hx : ext m0 (set_m_entries (m_entries m ++ repeat None (newcap - m_cap m)) (set_m_cap newcap m))).
  { destruct H as (H1 & H2 & H3 & H4). unfold ext, get_entry in *; simpl; repeat split; auto.
    intros s Hs. apply nth_app_none; auto. }
  destruct (seq (m_cap m) (newcap - m_cap m)); [exact Hx|apply ext_free; exact Hx].
Qed.

Lemma ext_create m0 k r t m : ext m0 m -> ext m0 (create_instance k r t m).
Proof.
  unfold create_instance; intros H. destruct (find_slot m k); auto.
  set (mo := if pending_key k m then set_m_oob true m else m).
  assert (Ho : ext m0 mo) by (unfold mo; destruct (pending_key k m); auto using ext_oob).
  pose proof (ext_acquire m0 mo Ho) as Ha. destruct (acquire mo) as [m1 slot]; simpl in Ha. cbv zeta.
  apply ext_maxrank, ext_add_slot.
  repeat first [ apply ext_schedule | match goal with |- ext _ (if ?b then _ else _) => destruct b end ];
    apply ext_outel, ext_put; auto.
Qed.

Lemma ext_dep_insert m0 d k m : ext m0 m -> ext m0 (dep_insert d k m).
Proof. unfold dep_insert; intros H; destruct (dep_find m d); auto using ext_deps. Qed.

Lemma ext_queue m0 d m : ext m0 m -> ext m0 (queue_removal d m).
Proof. unfold queue_removal; apply ext_torem. Qed.

Lemma ext_remove_dependency m0 k d m : ext m0 m -> ext m0 (remove_dependency k d m).
Proof.
  unfold remove_dependency; intros H; destruct (dep_find m d); auto.
  destruct (dense_erase k (dep_set m d)); auto using ext_queue, ext_deps.
Qed.

Lemma ext_re_rank m0 : forall fuel k d stack m, ext m0 m -> ext m0 (re_rank fuel k d stack m).
Proof.
  induction fuel as [|f IH]; intros k d stack m H; simpl; auto using ext_raise.
  destruct (find_slot m k) as [ks|]; auto. destruct (find_entry m d) as [de|]; auto.
  destruct (get_entry m ks) as [ke|]; auto. destruct (e_rank de <? e_rank ke); auto.
  set (m1 := set_m_maxrank _ _).
  assert (H1 : ext m0 m1) by (unfold m1; auto using ext_maxrank, ext_put).
  generalize (dep_set m1 k). clearbody m1. clear H.
  intros ds; revert m1 H1. induction ds as [|x rest IHd]; intros m1 H1; [exact H1|].
  destruct (failed m1); [exact H1|].
  match goal with |- context [if ?b then raise _ _ else _] => destruct b end; [apply ext_raise; exact H1|].
  apply IHd. apply IH. exact H1.
Qed.

Lemma ext_add_dependency m0 k d t m : ext m0 m -> ext m0 (fst (add_dependency k d t m)).
Proof.
  unfold add_dependency; intros H. destruct (k =? d); [cbn [fst]; apply ext_raise; exact H|].
  cbv zeta. pose proof (ext_dep_insert m0 d k m H) as H1.
  destruct (find_entry (dep_insert d k m) k) as [ke|]; [|exact H1].
  destruct (find_entry (dep_insert d k m) d) as [de|].
  - destruct (e_rank ke <=? e_rank de); [cbn [fst]; apply ext_re_rank; exact H1|].
    destruct (e_settled de =? t); [exact H1|]. destruct (e_paused de); exact H1.
  - cbn [fst]. apply ext_re_rank, ext_create; exact H1.
Qed.

Lemma ext_sub_remove_dep m0 s w m : ext m0 m -> ext m0 (sub_remove_dep s w m).
Proof.
  unfold sub_remove_dep; intros H. destruct (sb_has (get_sub (child_of m s) w)); auto using ext_upd_sub, ext_remove_dependency.
Qed.

Lemma ext_sub_clear m0 s w t m : ext m0 m -> ext m0 (sub_clear_links s w t m).
Proof.
  unfold sub_clear_links; intros H. cbv zeta.
  destruct (sb_ob (get_sub (child_of m s) w)); auto using ext_schedule, ext_upd_sub.
Qed.

Lemma ext_sub_eval m0 s w t m : ext m0 m -> ext m0 (fst (sub_eval s w t m)).
Proof.
  unfold sub_eval; intros H. cbv zeta.
  remember (emit [15; key_of m s; Z.of_nat w] m) as m1 eqn:E1.
  assert (H1 : ext m0 m1) by (subst m1; apply ext_emit; exact H).
  clear E1.
  match goal with |- ext _ (fst (match ?x with _ => _ end)) => destruct x as [j|] end;
    [|cbn [fst]; apply ext_sub_clear, ext_sub_remove_dep; exact H1].
  match goal with |- context [add_dependency ?k ?jj ?tt ?mm] => set (mx := mm) end.
  assert (H2 : ext m0 mx).
  { unfold mx. match goal with |- ext _ (if ?b then _ else _) => destruct b end; [exact H1|].
    apply ext_upd_sub, ext_sub_clear, ext_sub_remove_dep; exact H1. }
  clearbody mx.
  pose proof (ext_add_dependency m0 (key_of m s) j t mx H2) as H3.
  destruct (add_dependency (key_of m s) j t mx) as [m3 ok]; cbn [fst] in H3.
  destruct (failed m3); [exact H3|]. destruct ok; [|exact H3].
  cbn [negb]. destruct (zmem j (m_outel m3)); cbn [fst]; [|apply ext_sub_clear; exact H3].
  match goal with |- ext _ (if ?b then _ else _) => destruct b end;
    [apply ext_schedule|]; apply ext_upd_sub; exact H3.
Qed.

Lemma ext_probe m0 s t m : ext m0 m -> ext m0 (probe_eval s t m).
Proof.
  unfold probe_eval; intros H. cbv zeta.
  match goal with |- ext _ (match ?x with _ => _ end) => destruct x end; auto using ext_schedule, ext_upd_child, ext_emit.
Qed.

Lemma ext_comb m0 s t m : ext m0 m -> ext m0 (comb_eval s t m).
Proof.
  unfold comb_eval; intros H. cbv zeta.
  destruct (read_dep m (c_sub1 (child_of m s))) as [v1 d1]. destruct (read_dep m (c_sub2 (child_of m s))) as [v2 d2].
  auto using ext_element_tick, ext_modified, ext_outval, ext_emit.
Qed.

Lemma ext_node_eval m0 s n t m : ext m0 m -> ext m0 (fst (node_eval s n t m)).
Proof.
  unfold node_eval; intros H.
  repeat match goal with |- context [if ?b then _ else _] => destruct b end; simpl;
    auto using ext_probe, ext_comb, ext_sub_eval.
Qed.

Lemma ext_finish m0 s m : ext m0 m -> ext m0 (finish_child s m).
Proof. unfold finish_child; auto using ext_emit, ext_upd_child. Qed.

Lemma ext_node_loop m0 : forall fuel s t m, ext m0 m -> ext m0 (fst (node_loop fuel s t m)).
Proof.
  induction fuel as [|f IH]; intros s t m H; [cbn [node_loop fst]; apply ext_finish; exact H|].
  cbn [node_loop]. cbv zeta.
  destruct (Nat.leb N_COUNT (c_cursor (child_of m s))); [cbn [fst]; apply ext_finish; exact H|].
  destruct (nth (c_cursor (child_of m s)) (c_slots (child_of m s)) MIN_DT =? t).
  - pose proof (ext_node_eval m0 s (c_cursor (child_of m s)) t m H) as H1.
    destruct (node_eval s (c_cursor (child_of m s)) t m) as [m1 ok]; cbn [fst] in H1.
    destruct (failed m1); [cbn [fst]; apply ext_emit; exact H1|].
    destruct ok; [apply IH, ext_upd_child; exact H1 | cbn [fst]; apply ext_emit, ext_upd_child; exact H1].
  - apply IH, ext_upd_child.
    destruct (t <? nth (c_cursor (child_of m s)) (c_slots (child_of m s)) MIN_DT); [apply ext_upd_child|]; exact H.
Qed.

Lemma ext_child_eval m0 s t m : ext m0 m -> ext m0 (fst (child_eval s t m)).
Proof.
  unfold child_eval; intros H. cbv zeta. apply ext_node_loop.
  destruct (negb (Nat.eqb (c_cursor (child_of m s)) 0)); auto using ext_emit, ext_upd_child.
Qed.

Lemma ext_bind_one m0 s w n t m : ext m0 m -> ext m0 (bind_one s w n t m).
Proof.
  unfold bind_one; intros H. cbv zeta.
  match goal with |- ext _ (if ?b then _ else _) => destruct b end; auto using ext_schedule, ext_upd_child.
Qed.

Lemma ext_bind_inputs m0 s t m : ext m0 m -> ext m0 (bind_inputs s t m).
Proof. unfold bind_inputs; auto using ext_bind_one. Qed.

Lemma ext_process_entry m0 s t m : ext m0 m -> ext m0 (fst (process_entry s t m)).
Proof.
  unfold process_entry; intros H. destruct (get_entry m s) as [e|]; simpl; auto.
  destruct (negb (e_live e)); simpl; auto. destruct (e_settled e =? t); simpl; auto.
  destruct (m_fix m && (m_pmin m <? e_rank e)); simpl; auto.
  pose proof (ext_bind_inputs m0 s t m H) as H1.
  destruct (get_entry (bind_inputs s t m) s) as [e1|]; simpl; auto.
  destruct (negb (c_cache (e_child e1) <=? t) && negb (e_paused e1)); simpl; auto.
  set (m2 := upd_entry s (set_e_paused false) (bind_inputs s t m)).
  assert (H2 : ext m0 m2) by (unfold m2; auto using ext_upd_entry).
  pose proof (ext_child_eval m0 s t m2 H2) as H3.
  destruct (child_eval s t m2) as [m3 ok]; simpl in H3.
  destruct (failed m3); simpl; auto. destruct ok; simpl; auto using ext_upd_entry.
  match goal with |- ext _ (if ?b then _ else _) => destruct b end; auto using ext_note, ext_upd_entry.
Qed.

(* every prefix of a pass: the state after any number of processed entries *)
Lemma ext_pass m0 : forall order t m ev, ext m0 m -> ext m0 (fst (fst (pass order t m ev))).
Proof.
  induction order as [|[r s] rest IH]; intros t m ev H; simpl; auto.
  pose proof (ext_process_entry m0 s t m H) as H1.
  destruct (process_entry s t m) as [m1 v]; simpl in H1.
  destruct (failed m1); simpl; auto. destruct v; simpl; auto.
Qed.

(* ------------------------------------------------------------------ (a) the settled mark *)
Lemma settled_child_skipped m s t e :
  get_entry m s = Some e -> e_settled e = t -> process_entry s t m = (m, Skipped).
Proof.
  intros He Hs. unfold process_entry. rewrite He. destruct (negb (e_live e)); auto.
  rewrite Hs, Z.eqb_refl. reflexivity.
Qed.

Lemma get_put_same m s e : get_entry m s <> None -> get_entry (put_entry s e m) s = Some e.
Proof.
  unfold get_entry, put_entry; simpl. intros H. unfold set_nth. rewrite nth_update_same; auto.
  destruct (Nat.lt_ge_cases s (length (m_entries m))) as [Hl|Hl]; auto.
  rewrite nth_overflow in H by lia. congruence.
Qed.

Lemma get_upd_entry m s f : get_entry m s <> None ->
  exists e, get_entry m s = Some e /\ get_entry (upd_entry s f m) s = Some (f e).
Proof.
  intros H. unfold upd_entry. destruct (get_entry m s) as [e|] eqn:E; [|congruence].
  exists e; split; auto. apply get_put_same. congruence.
Qed.

Lemma evaluated_settles_or_pauses m s t m' :
  process_entry s t m = (m', Evaluated) -> failed m' = false ->
  exists e', get_entry m' s = Some e' /\ (e_settled e' = t \/ e_paused e' = true).
Proof.
  unfold process_entry. destruct (get_entry m s) as [e|] eqn:He; [|discriminate].
  destruct (negb (e_live e)); [discriminate|]. destruct (e_settled e =? t); [discriminate|].
  destruct (m_fix m && (m_pmin m <? e_rank e)); [discriminate|].
  assert (Hb : get_entry (bind_inputs s t m) s <> None).
  { apply (ext_bind_inputs m s t m (ext_refl m)). congruence. }
  destruct (get_entry (bind_inputs s t m) s) as [e1|] eqn:He1; [|congruence].
  destruct (negb (c_cache (e_child e1) <=? t) && negb (e_paused e1)); [discriminate|].
  set (m2 := upd_entry s (set_e_paused false) (bind_inputs s t m)).
  assert (H2 : get_entry m2 s <> None).
  { unfold m2. apply (ext_upd_entry (bind_inputs s t m) s (set_e_paused false) _ (ext_refl _)). congruence. }
  pose proof (ext_child_eval m2 s t m2 (ext_refl m2)) as H3.
  destruct (child_eval s t m2) as [m3 ok]; simpl in H3.
  assert (H3' : get_entry m3 s <> None) by (apply H3; auto).
  destruct (failed m3) eqn:Hf3.
  - intros Heq Hf; inversion Heq; subst; congruence.
  - destruct ok.
    + intros Heq _; inversion Heq; subst.
      destruct (get_upd_entry m3 s (set_e_settled t) H3') as (e3 & _ & ->).
      eexists; split; eauto.
    + intros Heq _.
      destruct (get_upd_entry m3 s (set_e_paused true) H3') as (e3 & _ & Hg).
      assert (Hres : get_entry m' s = Some (set_e_paused true e3)).
      { inversion Heq; subst. destruct (m_fix (upd_entry s (set_e_paused true) m3)); auto.
        unfold note_rank. rewrite Hg. unfold get_entry in *; simpl; auto. }
      eexists; split; eauto.
Qed.

(* ------------------------------------------------------------------ (b) the repaired rule *)
(* the guard: an unsettled live entry ranked strictly above the pending minimum is deferred, unchanged *)
Lemma guard_defers m s t e :
  m_fix m = true -> get_entry m s = Some e -> e_live e = true -> e_settled e <> t ->
  m_pmin m < e_rank e -> process_entry s t m = (m, Deferred).
Proof.
  intros Hf He Hl Hs Hr. unfold process_entry. rewrite He, Hl. simpl.
  destruct (e_settled e =? t) eqn:E; [lia|]. rewrite Hf. simpl.
  destruct (m_pmin m <? e_rank e) eqn:E2; [reflexivity|lia].
Qed.

(* an evaluation is never started above the pending minimum *)
Lemma evaluated_not_above_pending m s t m' e :
  m_fix m = true -> get_entry m s = Some e -> process_entry s t m = (m', Evaluated) -> e_rank e <= m_pmin m.
Proof.
  intros Hf He. unfold process_entry. rewrite He.
  destruct (negb (e_live e)); [discriminate|]. destruct (e_settled e =? t); [discriminate|].
  rewrite Hf. simpl. destruct (m_pmin m <? e_rank e) eqn:E; [discriminate|]. intros _. lia.
Qed.

(* noting: the three ways a child becomes pending inside a pass lower the minimum to its rank *)
Lemma schedule_idle m x node t ex :
  get_entry m x = Some ex -> c_started (e_child ex) = true -> c_evalg (e_child ex) = false -> t <= m_now m ->
  exists e', e_rank e' = e_rank ex /\ schedule x node t m = add_cand x (put_entry x e' m).
Proof.
  intros He Hs Hv Ht. unfold schedule. rewrite He, Hs, Hv. cbn [negb]. cbv zeta.
  assert (E : (t <=? m_now m) = true) by lia. rewrite E.
  eexists; split; [|reflexivity]. reflexivity.
Qed.

Lemma add_cand_notes m x e :
  m_fix m = true -> get_entry m x = Some e -> m_pmin (add_cand x m) <= e_rank e /\ m_fix (add_cand x m) = true.
Proof.
  intros Hf He. unfold add_cand. cbv zeta.
  replace (m_fix (set_m_cand (nadd x (m_cand m)) m)) with (m_fix m) by reflexivity. rewrite Hf.
  unfold note_rank.
  replace (get_entry (set_m_cand (nadd x (m_cand m)) m) x) with (get_entry m x) by reflexivity.
  rewrite He. split; [cbn; lia|exact Hf].
Qed.

Lemma schedule_notes m x node t ex :
  m_fix m = true -> get_entry m x = Some ex -> c_started (e_child ex) = true -> c_evalg (e_child ex) = false ->
  t <= m_now m -> m_pmin (schedule x node t m) <= e_rank ex /\ m_fix (schedule x node t m) = true.
Proof.
  intros Hf He Hs Hv Ht.
  destruct (schedule_idle m x node t ex He Hs Hv Ht) as (e' & Hr & ->).
  rewrite <- Hr. apply add_cand_notes; [exact Hf|].
  apply get_put_same. congruence.
Qed.

Lemma pause_notes m s t m' e' :
  m_fix m = true -> process_entry s t m = (m', Evaluated) -> failed m' = false ->
  get_entry m' s = Some e' -> e_settled e' <> t -> m_pmin m' <= e_rank e'.
Proof.
  intros Hf. unfold process_entry. destruct (get_entry m s) as [e|] eqn:He; [|discriminate].
  destruct (negb (e_live e)); [discriminate|]. destruct (e_settled e =? t); [discriminate|].
  destruct (m_fix m && (m_pmin m <? e_rank e)); [discriminate|].
  assert (Hb : get_entry (bind_inputs s t m) s <> None).
  { apply (ext_bind_inputs m s t m (ext_refl m)). congruence. }
  destruct (get_entry (bind_inputs s t m) s) as [e1|] eqn:He1; [|congruence].
  destruct (negb (c_cache (e_child e1) <=? t) && negb (e_paused e1)); [discriminate|].
  set (m2 := upd_entry s (set_e_paused false) (bind_inputs s t m)).
  assert (X2 : ext m m2) by (unfold m2; auto using ext_upd_entry, ext_bind_inputs, ext_refl).
  assert (H2 : get_entry m2 s <> None) by (apply X2; congruence).
  pose proof (ext_child_eval m s t m2 X2) as X3.
  destruct (child_eval s t m2) as [m3 ok]; simpl in X3.
  assert (H3' : get_entry m3 s <> None) by (apply X3; congruence).
  destruct (failed m3) eqn:Hf3.
  - intros Heq Hfm; inversion Heq; subst; congruence.
  - destruct ok.
    + intros Heq _ Hg Hns; inversion Heq; subst.
      destruct (get_upd_entry m3 s (set_e_settled t) H3') as (e3 & _ & Hg3).
      rewrite Hg3 in Hg. inversion Hg; subst. simpl in Hns. congruence.
    + intros Heq _ Hg _.
      destruct (get_upd_entry m3 s (set_e_paused true) H3') as (e3 & _ & Hg3).
      assert (Hfx : m_fix (upd_entry s (set_e_paused true) m3) = true).
      { destruct X3 as (_ & Hx & _).
        assert (m_fix (upd_entry s (set_e_paused true) m3) = m_fix m3).
        { unfold upd_entry. destruct (get_entry m3 s); reflexivity. }
        congruence. }
      inversion Heq; subst. rewrite Hfx in *. unfold note_rank in *. rewrite Hg3 in *.
      unfold get_entry in Hg; simpl in Hg. unfold get_entry in Hg3. rewrite Hg3 in Hg. inversion Hg; subst.
      simpl. lia.
Qed.

(* THE MECHANISM OF THE REPAIR.  Once a child [x] has been scheduled for the current cycle inside a pass
   (observer branch of push_observed_child_schedule), then in EVERY later state of that pass ([ext]: reached
   through any number of further entry evaluations, pauses, creations, re-rankings) every live unsettled entry
   whose rank is strictly above the rank [x] had is deferred, untouched.  It is evaluated in a later pass,
   after [x]. *)
Lemma no_evaluation_above_scheduled m x node t ex m2 s e t' :
  m_fix m = true -> get_entry m x = Some ex -> c_started (e_child ex) = true -> c_evalg (e_child ex) = false ->
  t <= m_now m ->
  ext (schedule x node t m) m2 ->
  get_entry m2 s = Some e -> e_live e = true -> e_settled e <> t' -> e_rank ex < e_rank e ->
  process_entry s t' m2 = (m2, Deferred).
Proof.
  intros Hf He Hs Hv Ht (X1 & X2 & _ & _) Hg Hl Hns Hr.
  destruct (schedule_notes m x node t ex Hf He Hs Hv Ht) as (Hn & Hfx).
  apply guard_defers with (e := e); auto; [congruence|lia].
Qed.

(* the same for a child that PAUSED in the pass *)
Lemma no_evaluation_above_paused m x t m1 ex m2 s e :
  m_fix m = true -> process_entry x t m = (m1, Evaluated) -> failed m1 = false ->
  get_entry m1 x = Some ex -> e_settled ex <> t ->
  ext m1 m2 ->
  get_entry m2 s = Some e -> e_live e = true -> e_settled e <> t -> e_rank ex < e_rank e ->
  process_entry s t m2 = (m2, Deferred).
Proof.
  intros Hf Hp Hfl Hg1 Hns1 (X1 & X2 & _ & _) Hg Hl Hns Hr.
  pose proof (pause_notes m x t m1 ex Hf Hp Hfl Hg1 Hns1) as Hn.
  apply guard_defers with (e := e); auto; [|lia].
  pose proof (ext_process_entry m x t m (ext_refl m)) as (_ & Y2 & _ & _). rewrite Hp in Y2. simpl in Y2. congruence.
Qed.

(* ------------------------------------------------------------------ (b) binding a reference *)
(* add_dependency answers "available" only for a dependency that exists, is ranked strictly below the requester
   and has settled at this cycle's time or is quiescent (not paused, nothing scheduled up to now) *)
Lemma add_dependency_true k d t m m' :
  add_dependency k d t m = (m', true) ->
  m' = dep_insert d k m /\
  exists ke de, find_entry m' k = Some ke /\ find_entry m' d = Some de /\ e_rank de < e_rank ke /\
                (e_settled de = t \/ (e_paused de = false /\ t < c_cache (e_child de))).
Proof.
  unfold add_dependency. destruct (k =? d); [discriminate|].
  destruct (find_entry (dep_insert d k m) k) as [ke|] eqn:Ek; [|discriminate].
  destruct (find_entry (dep_insert d k m) d) as [de|] eqn:Ed; [|discriminate].
  destruct (e_rank ke <=? e_rank de) eqn:Er; [discriminate|].
  destruct (e_settled de =? t) eqn:Es.
  - intros Heq; inversion Heq; subst. split; auto. exists ke, de. repeat split; auto; lia.
  - destruct (e_paused de) eqn:Ep; [discriminate|].
    intros Heq; inversion Heq; subst. split; auto. exists ke, de. repeat split; auto; try lia.
Qed.

(* ------------------------------------------------------------------ (c) dependency cycles *)
Lemma self_dependency_is_reported k t m :
  failed m = false -> m_err (fst (add_dependency k k t m)) = E_CYCLE /\ snd (add_dependency k k t m) = false.
Proof.
  intros Hf. unfold add_dependency. rewrite Z.eqb_refl. simpl. unfold raise. rewrite Hf. auto.
Qed.

(* "a depends on b" as registered in `dependents` *)
Definition depends (m : mesh) (a b : Z) : Prop := In a (dep_set m b).
(* [chain m (x1 :: x2 :: ...)]: x1 depends on ... no: the re_rank stack, most recent first: every element
   depends on the one pushed before it *)
Fixpoint chain (m : mesh) (l : list Z) : Prop :=
  match l with
  | a :: ((b :: _) as r) => depends m a b /\ chain m r
  | _ => True
  end.

Lemma deps_put s e m : m_deps (put_entry s e m) = m_deps m. Proof. reflexivity. Qed.
Lemma deps_raise c m : m_deps (raise c m) = m_deps m.
Proof. unfold raise; destruct (failed m); reflexivity. Qed.

Lemma deps_re_rank : forall fuel k d stack m, m_deps (re_rank fuel k d stack m) = m_deps m.
Proof.
  induction fuel as [|f IH]; intros k d stack m; simpl; [apply deps_raise|].
  destruct (find_slot m k) as [ks|]; auto. destruct (find_entry m d) as [de|]; auto.
  destruct (get_entry m ks) as [ke|]; auto. destruct (e_rank de <? e_rank ke); auto.
  set (m1 := set_m_maxrank _ _). change (m_deps m) with (m_deps m1).
  generalize (dep_set m1 k). generalize m1. clear m1.
  intros m1 ds; revert m1. induction ds as [|x rest IHd]; intros m1; auto.
  destruct (failed m1); auto.
  match goal with |- context [if ?b then raise _ _ else _] => destruct b end; [apply deps_raise|].
  rewrite IHd. apply IH.
Qed.

Lemma dep_set_deps m m' d : m_deps m' = m_deps m -> dep_set m' d = dep_set m d.
Proof. unfold dep_set, dep_find; intros ->; reflexivity. Qed.

Lemma zmem_In k l : zmem k l = true -> In k l.
Proof.
  unfold zmem. rewrite existsb_exists. intros (x & Hx & He). apply Z.eqb_eq in He. subst; auto.
Qed.

(* a dependency cycle through the registered edges: some key reaches itself *)
Inductive reaches (m : mesh) : Z -> Z -> Prop :=
| reach1 a b : depends m a b -> reaches m a b
| reachS a b c : depends m a b -> reaches m b c -> reaches m a c.

Lemma reaches_trans m a b c : reaches m a b -> reaches m b c -> reaches m a c.
Proof. induction 1; intros; eauto using reaches. Qed.

(* along the re_rank stack the head reaches every deeper element *)
Lemma chain_reaches m : forall l a x, chain m (a :: l) -> In x l -> reaches m a x.
Proof.
  induction l as [|b r IH]; intros a x Hc Hi; [destruct Hi|].
  destruct Hc as [Hab Hr]. destruct Hi as [->|Hi]; [constructor; auto|].
  eapply reachS; eauto.
Qed.

(* the inner walk of re_rank over the dependents of [k], as a named function *)
Definition walk_of (f : nat) (k : Z) (stack' : list Z) : list Z -> mesh -> mesh :=
  fix walk (ds : list Z) (m' : mesh) : mesh :=
    match ds with
    | [] => m'
    | x :: rest =>
        if failed m' then m' else
        if zmem x stack' then raise E_CYCLE m' else walk rest (re_rank f x k stack' m')
    end.

Lemma walk_of_nil f k st m : walk_of f k st [] m = m. Proof. reflexivity. Qed.
Lemma walk_of_cons f k st x rest m :
  walk_of f k st (x :: rest) m =
  if failed m then m else if zmem x st then raise E_CYCLE m else walk_of f k st rest (re_rank f x k st m).
Proof. reflexivity. Qed.

Lemma re_rank_S f k d stack m :
  re_rank (S f) k d stack m =
  match find_slot m k, find_entry m d with
  | Some ks, Some de =>
      match get_entry m ks with
      | None => m
      | Some ke =>
          if e_rank de <? e_rank ke then m else
          let m1 := set_m_maxrank (Z.max (m_maxrank m) (e_rank de + 1)) (put_entry ks (set_e_rank (e_rank de + 1) ke) m) in
          walk_of f k (k :: stack) (dep_set m1 k) m1
      end
  | _, _ => m
  end.
Proof. reflexivity. Qed.

Lemma walk_failed_keeps f k st : forall ds m, failed m = true -> walk_of f k st ds m = m.
Proof. destruct ds as [|x r]; intros m H; [reflexivity|]. rewrite walk_of_cons, H. reflexivity. Qed.

Lemma chain_deps m m' l : m_deps m' = m_deps m -> chain m l -> chain m' l.
Proof.
  intros Hd. induction l as [|a r IHl]; [auto|].
  destruct r as [|b r']; [auto|]. intros [H1 H2]. split; [|apply IHl; exact H2].
  unfold depends in *. rewrite (dep_set_deps m m' b Hd). exact H1.
Qed.

Lemma reaches_deps m m' a b : m_deps m' = m_deps m -> reaches m' a b -> reaches m a b.
Proof.
  intros Hd. induction 1 as [a b H|a b c H _ IH].
  - constructor. unfold depends in *. rewrite <- (dep_set_deps m m' b Hd). exact H.
  - eapply reachS; [|exact IH]. unfold depends in *. rewrite <- (dep_set_deps m m' b Hd). exact H.
Qed.

(* SOUNDNESS of the report: re_rank raises the dependency-cycle error only if the registered edges contain a
   cycle (some key depends, through a chain of registered edges, on itself) *)
Lemma re_rank_cycle_sound : forall fuel k d stack m,
  failed m = false -> chain m (k :: stack) ->
  m_err (re_rank fuel k d stack m) = E_CYCLE -> exists x, reaches m x x.
Proof.
  induction fuel as [|f IH]; intros k d stack m Hf Hc.
  - cbn [re_rank]. unfold raise. rewrite Hf. cbn. unfold E_FUEL, E_CYCLE. discriminate.
  - assert (Hz : m_err m <> E_CYCLE) by (unfold failed, E_CYCLE in *; lia).
    rewrite re_rank_S.
    destruct (find_slot m k) as [ks|]; [|intros; congruence].
    destruct (find_entry m d) as [de|]; [|intros; congruence].
    destruct (get_entry m ks) as [ke|]; [|intros; congruence].
    destruct (e_rank de <? e_rank ke); [intros; congruence|].
    cbv zeta.
    set (m1 := set_m_maxrank _ _).
    assert (Hd1 : m_deps m1 = m_deps m) by reflexivity.
    assert (Hf1 : failed m1 = false) by exact Hf.
    assert (Hsub : forall x, In x (dep_set m1 k) -> depends m x k).
    { intros x Hx. unfold depends. rewrite <- (dep_set_deps m m1 k Hd1). exact Hx. }
    revert Hsub. generalize (dep_set m1 k). revert Hd1 Hf1. generalize m1. clear m1.
    intros m1 Hd1 Hf1 ds. revert m1 Hd1 Hf1.
    induction ds as [|x rest IHd]; intros m1 Hd1 Hf1 Hsub He.
    + rewrite walk_of_nil in He. unfold failed, E_CYCLE in *. lia.
    + rewrite walk_of_cons, Hf1 in He.
      destruct (zmem x (k :: stack)) eqn:Ex.
      * apply zmem_In in Ex. assert (Hxk : depends m x k) by (apply Hsub; left; reflexivity).
        destruct Ex as [Ex|Ex].
        -- subst x. exists k. constructor. exact Hxk.
        -- exists x. eapply reachS; [exact Hxk|]. eapply chain_reaches; eauto.
      * remember (re_rank f x k (k :: stack) m1) as m2 eqn:E2.
        assert (Hd2 : m_deps m2 = m_deps m) by (subst m2; rewrite deps_re_rank; exact Hd1).
        destruct (failed m2) eqn:Hf2.
        -- rewrite (walk_failed_keeps f k (k :: stack) rest m2 Hf2) in He.
           assert (Hc1 : chain m1 (x :: k :: stack)).
           { split.
             - unfold depends. rewrite (dep_set_deps m m1 k Hd1). apply Hsub; left; reflexivity.
             - apply (chain_deps m m1 (k :: stack) Hd1 Hc). }
           subst m2. destruct (IH x k (k :: stack) m1 Hf1 Hc1 He) as (y & Hy).
           exists y. apply (reaches_deps m m1 y y Hd1 Hy).
        -- apply (IHd m2 Hd2 Hf2); [|exact He]. intros y Hy. apply Hsub; right; exact Hy.
Qed.

(* ------------------------------------------------------------------ re_rank restores the rank order *)
(* a registered edge "a depends on b" is VIOLATED when both instances exist and a is not ranked above b *)
Definition violated (m : mesh) (a b : Z) : Prop :=
  depends m a b /\ exists ea eb, find_entry m a = Some ea /\ find_entry m b = Some eb /\ e_rank ea <= e_rank eb.

Lemma find_from_set_nth a : forall l i ks ke e',
  nth ks l None = Some ke -> e_live e' = e_live ke -> e_key e' = e_key ke ->
  find_from a i (set_nth ks (Some e') l) = find_from a i l.
Proof.
  induction l as [|oe r IH]; intros i ks ke e' Hn Hl Hk; [destruct ks; discriminate|].
  destruct ks as [|ks]; unfold set_nth; cbn [update find_from].
  - cbn in Hn. subst oe. unfold live_key. rewrite Hl, Hk. reflexivity.
  - destruct (live_key a oe); [reflexivity|]. apply (IH (S i) ks ke e'); auto.
Qed.

Lemma find_from_spec a : forall l i s, find_from a i l = Some s ->
  (i <= s)%nat /\ exists e, nth (s - i) l None = Some e /\ e_live e = true /\ e_key e = a.
Proof.
  induction l as [|oe r IH]; intros i s H; [discriminate|]. cbn [find_from] in H.
  destruct (live_key a oe) eqn:E.
  - inversion H; subst. split; [lia|]. replace (s - s)%nat with 0%nat by lia. cbn.
    destruct oe as [e|]; [|discriminate]. unfold live_key in E. exists e. split; auto. split; lia.
  - destruct (IH (S i) s H) as (Hle & e & Hn & Hl & Hk). split; [lia|].
    exists e. replace (s - i)%nat with (S (s - S i)) by lia. cbn. auto.
Qed.

Lemma find_slot_spec m a s : find_slot m a = Some s ->
  exists e, get_entry m s = Some e /\ e_live e = true /\ e_key e = a.
Proof.
  unfold find_slot, get_entry. intros H. destruct (find_from_spec a _ _ _ H) as (_ & e & Hn & Hl & Hk).
  replace (s - 0)%nat with s in Hn by lia. eauto.
Qed.

Lemma get_put_other m s s' e : s <> s' -> get_entry (put_entry s e m) s' = get_entry m s'.
Proof. intros H. unfold get_entry, put_entry; cbn. unfold set_nth. apply nth_update_other. exact H. Qed.

(* raising the rank of the entry in slot [ks] (key k): every other key's entry is untouched *)
Lemma find_entry_raise m ks ke r a :
  get_entry m ks = Some ke -> e_live ke = true ->
  find_entry (put_entry ks (set_e_rank r ke) m) a =
  match find_slot m a with
  | Some s => if Nat.eqb s ks then Some (set_e_rank r ke) else get_entry m s
  | None => None
  end.
Proof.
  intros Hg Hl. unfold find_entry.
  assert (Hf : find_slot (put_entry ks (set_e_rank r ke) m) a = find_slot m a).
  { unfold find_slot, put_entry; cbn. apply (find_from_set_nth a _ 0%nat ks ke); auto. }
  rewrite Hf. destruct (find_slot m a) as [s|]; [|reflexivity].
  destruct (Nat.eqb s ks) eqn:E.
  - apply Nat.eqb_eq in E. subst s. apply get_put_same. congruence.
  - apply Nat.eqb_neq in E. apply get_put_other. auto.
Qed.

Lemma failed_walk f k st : forall ds m, failed (walk_of f k st ds m) = false -> failed m = false.
Proof.
  intros ds m H. destruct (failed m) eqn:E; [|reflexivity].
  rewrite (walk_failed_keeps f k st ds m E) in H. congruence.
Qed.

Lemma depends_deps m m' a b : m_deps m' = m_deps m -> depends m' a b -> depends m a b.
Proof. unfold depends. intros Hd. rewrite (dep_set_deps m m' b Hd). auto. Qed.

(* RANK ORDER RESTORED.  Whatever re_rank does (any depth of re-ranking through the dependents), when it
   returns without an error it has introduced no violated edge and the edge it was called for, requester k on
   dependency d, is not violated: every edge violated afterwards was violated before and is not (k, d). *)
Lemma re_rank_restores : forall fuel k d stack m,
  failed m = false -> k <> d -> failed (re_rank fuel k d stack m) = false ->
  forall a b, violated (re_rank fuel k d stack m) a b -> violated m a b /\ ~ (a = k /\ b = d).
Proof.
  induction fuel as [|f IH]; intros k d stack m Hf Hkd.
  - cbn [re_rank]. unfold raise. rewrite Hf. cbn. discriminate.
  - rewrite re_rank_S.
    destruct (find_slot m k) as [ks|] eqn:Ek.
    2:{ intros _ a b Hv. split; [exact Hv|]. intros [-> ->]. destruct Hv as (_ & ea & eb & Ha & _).
        unfold find_entry in Ha. rewrite Ek in Ha. discriminate. }
    destruct (find_entry m d) as [de|] eqn:Ed.
    2:{ intros _ a b Hv. split; [exact Hv|]. intros [-> ->]. destruct Hv as (_ & ea & eb & _ & Hb & _). congruence. }
    destruct (find_slot_spec m k ks Ek) as (ke & Hg & Hl & Hk). rewrite Hg.
    assert (Hfk : find_entry m k = Some ke) by (unfold find_entry; rewrite Ek; exact Hg).
    destruct (e_rank de <? e_rank ke) eqn:Er.
    { intros _ a b Hv. split; [exact Hv|]. intros [-> ->]. destruct Hv as (_ & ea & eb & Ha & Hb & Hr).
      rewrite Hfk in Ha. rewrite Ed in Hb. inversion Ha; inversion Hb; subst. lia. }
    cbv zeta. set (r := e_rank de + 1).
    set (m1 := set_m_maxrank (Z.max (m_maxrank m) r) (put_entry ks (set_e_rank r ke) m)).
    assert (Hd1 : m_deps m1 = m_deps m) by reflexivity.
    assert (Hf1 : failed m1 = false) by exact Hf.
    (* entries of m1 *)
    assert (Hfe : forall a, find_entry m1 a =
                   match find_slot m a with
                   | Some s => if Nat.eqb s ks then Some (set_e_rank r ke) else get_entry m s
                   | None => None end).
    { intros a. unfold m1. apply (find_entry_raise m ks ke r a Hg Hl). }
    assert (Hother : forall a, a <> k -> find_entry m1 a = find_entry m a).
    { intros a Ha. rewrite Hfe. unfold find_entry. destruct (find_slot m a) as [s|] eqn:Es; [|reflexivity].
      destruct (Nat.eqb s ks) eqn:E; [|reflexivity]. apply Nat.eqb_eq in E. subst s.
      destruct (find_slot_spec m a ks Es) as (e2 & Hg2 & _ & Hk2). rewrite Hg in Hg2. inversion Hg2; subst. congruence. }
    assert (Hself : find_entry m1 k = Some (set_e_rank r ke)).
    { rewrite Hfe, Ek, Nat.eqb_refl. reflexivity. }
    (* the invariant of the walk *)
    assert (Hstart : forall a b, violated m1 a b ->
              (violated m a b /\ ~ (a = k /\ b = d)) \/ (b = k /\ In a (dep_set m1 k))).
    { intros a b (Hdep & ea & eb & Ha & Hb & Hr).
      destruct (Z.eq_dec b k) as [->|Hbk]; [right; split; [reflexivity|exact Hdep]|].
      left. rewrite (Hother b Hbk) in Hb.
      destruct (Z.eq_dec a k) as [->|Hak].
      - rewrite Hself in Ha. inversion Ha; subst. cbn in Hr. split.
        + split; [apply (depends_deps m m1 _ _ Hd1 Hdep)|]. exists ke, eb. repeat split; auto. unfold r in Hr. lia.
        + intros [_ ->]. rewrite Ed in Hb. inversion Hb; subst. unfold r in Hr. lia.
      - rewrite (Hother a Hak) in Ha. split; [|intros [-> _]; congruence].
        split; [apply (depends_deps m m1 _ _ Hd1 Hdep)|]. exists ea, eb. auto. }
    revert Hstart. generalize (dep_set m1 k). revert Hd1 Hf1. generalize m1. clear m1 Hfe Hother Hself.
    intros m1 Hd1 Hf1 ds. revert m1 Hd1 Hf1.
    induction ds as [|x rest IHd]; intros m1 Hd1 Hf1 Hinv Hres a b Hv.
    + rewrite walk_of_nil in Hv. destruct (Hinv a b Hv) as [H|[_ []]]. exact H.
    + rewrite walk_of_cons, Hf1 in Hres, Hv.
      destruct (zmem x (k :: stack)) eqn:Ex.
      { unfold raise in Hres. rewrite Hf1 in Hres. cbn in Hres. discriminate. }
      assert (Hxk : x <> k).
      { intros ->. cbn in Ex. rewrite Z.eqb_refl in Ex. discriminate. }
      set (m2 := re_rank f x k (k :: stack) m1) in *.
      assert (Hf2 : failed m2 = false) by (apply (failed_walk f k (k :: stack) rest m2 Hres)).
      assert (Hd2 : m_deps m2 = m_deps m) by (unfold m2; rewrite deps_re_rank; exact Hd1).
      apply (IHd m2 Hd2 Hf2); [|exact Hres|exact Hv].
      intros a' b' Hv'. destruct (IH x k (k :: stack) m1 Hf1 Hxk Hf2 a' b' Hv') as (Hv1 & Hne).
      destruct (Hinv a' b' Hv1) as [H|[-> [->|Hin]]]; [left; exact H| |right; split; [reflexivity|exact Hin]].
      exfalso. apply Hne. split; reflexivity.
Qed.

(* the rank order as an invariant of add_dependency (both instances existing): if the only edge that may be
   violated after registering (k, d) is that edge, nothing is violated when add_dependency returns normally *)
Lemma add_dependency_keeps_rank_order k d t m :
  failed m = false -> k <> d ->
  (forall a b, violated (dep_insert d k m) a b -> a = k /\ b = d) ->
  find_entry (dep_insert d k m) d <> None ->
  failed (fst (add_dependency k d t m)) = false ->
  forall a b, ~ violated (fst (add_dependency k d t m)) a b.
Proof.
  intros Hf Hkd Honly Hd. unfold add_dependency.
  destruct (k =? d) eqn:E; [lia|].
  set (m1 := dep_insert d k m) in *.
  assert (Hf1 : failed m1 = false).
  { unfold m1, dep_insert. destruct (dep_find m d); exact Hf. }
  destruct (find_entry m1 k) as [ke|] eqn:Ek.
  2:{ cbn [fst]. intros _ a b Hv. destruct (Honly a b Hv) as [-> ->].
      destruct Hv as (_ & ea & eb & Ha & _). congruence. }
  destruct (find_entry m1 d) as [de|] eqn:Ed; [|congruence].
  destruct (e_rank ke <=? e_rank de) eqn:Er.
  - cbn [fst]. intros Hres a b Hv.
    destruct (re_rank_restores (rank_fuel m1) k d [] m1 Hf1 Hkd Hres a b Hv) as (Hv1 & Hne).
    apply Hne. apply Honly. exact Hv1.
  - assert (Hno : forall a b, ~ violated m1 a b).
    { intros a b Hv. destruct (Honly a b Hv) as [-> ->]. destruct Hv as (_ & ea & eb & Ha & Hb & Hr).
      rewrite Ek in Ha. rewrite Ed in Hb. inversion Ha; inversion Hb; subst. lia. }
    destruct (e_settled de =? t); [cbn [fst]; intros _; exact Hno|].
    destruct (e_paused de); cbn [fst]; intros _; exact Hno.
Qed.
