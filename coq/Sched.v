(* Sched.v — mirror model of include/hgraph/runtime/node_scheduler.h
   (NodeSchedulerState + the NodeScheduler view), wall-clock alarms excluded
   (they are C17's subject).  Executable definitions only; proofs are in
   SchedFacts.v.

   events : std::set<pair<DateTime,string>>  -> strictly sorted list of (time, tag)
   tags   : std::map<string,DateTime>        -> association list tag -> time
   A tag is a Z; 0 is the empty string (= untagged).  Tag numbers are chosen by
   the harness so that numeric order = the strings' lexicographic order. *)
Require Import Base.

Definition ev := (Z * Z)%type.                       (* (time, tag) *)

Definition ev_ltb (a b : ev) : bool :=
  (fst a <? fst b) || ((fst a =? fst b) && (snd a <? snd b)).
Definition ev_eqb (a b : ev) : bool := (fst a =? fst b) && (snd a =? snd b).

(* std::set::insert *)
Fixpoint ins (e : ev) (l : list ev) : list ev :=
  match l with
  | [] => [e]
  | x :: r => if ev_ltb e x then e :: l else if ev_eqb e x then l else x :: ins e r
  end.

(* std::set::erase(key) *)
Fixpoint del (e : ev) (l : list ev) : list ev :=
  match l with
  | [] => []
  | x :: r => if ev_eqb e x then r else x :: del e r
  end.

Definition tagmap := list (Z * Z).                   (* tag -> time *)

Fixpoint tag_find (t : Z) (m : tagmap) : option Z :=
  match m with
  | [] => None
  | (k, w) :: r => if k =? t then Some w else tag_find t r
  end.

Fixpoint tag_erase (t : Z) (m : tagmap) : tagmap :=
  match m with
  | [] => []
  | (k, w) :: r => if k =? t then tag_erase t r else (k, w) :: tag_erase t r
  end.

(* std::map::operator[]= ; kept sorted by key so that printing is canonical *)
Fixpoint tag_put (t w : Z) (m : tagmap) : tagmap :=
  match m with
  | [] => [(t, w)]
  | (k, v) :: r => if t <? k then (t, w) :: m else if k =? t then (t, w) :: r else (k, v) :: tag_put t w r
  end.

Record sched := mkSched { events : list ev; tags : tagmap }.

Definition empty_sched : sched := mkSched [] [].

Definition first_time (d : Z) (l : list ev) : Z :=
  match l with [] => d | e :: _ => fst e end.

(* ---- queries ---- *)
Definition next_scheduled_time (s : sched) : Z := first_time MIN_DT (events s).
Definition is_scheduled (s : sched) : bool := match events s with [] => false | _ => true end.
Definition is_scheduled_now (now : Z) (s : sched) : bool :=
  match events s with [] => false | e :: _ => fst e =? now end.
Definition has_tag (t : Z) (s : sched) : bool :=
  match tag_find t (tags s) with Some _ => true | None => false end.
Definition tag_time (t d : Z) (s : sched) : Z :=
  match tag_find t (tags s) with Some w => w | None => d end.
Definition tag_is_scheduled_now (now t : Z) (s : sched) : bool :=
  has_tag t s && (tag_time t MIN_DT s =? now).

(* ---- mutations.  Each returns the new state and, where the code calls
   graph_->schedule_node(node_index_, w), [Some w]. ---- *)

(* NodeScheduler::schedule(DateTime when, optional<string> tag)   (on_wall_clock = false) *)
Definition schedule (now : Z) (started : bool) (when tag : Z) (s : sched) : sched * option Z :=
  if (if started then when <=? now else when <? now) then (s, None)
  else
    let tagged := negb (tag =? 0) in
    let evs1 :=
      if tagged then
        match tag_find tag (tags s) with
        | Some w => del (w, tag) (events s)
        | None => events s
        end
      else events s in
    let prev_first := first_time MAX_DT evs1 in
    let tags' := if tagged then tag_put tag when (tags s) else tags s in
    let evs2 := ins (when, tag) evs1 in
    let next := first_time MIN_DT evs2 in
    (mkSched evs2 tags', if next <? prev_first then Some next else None).

(* un_schedule(const string &tag) *)
Definition un_schedule_tag (t : Z) (s : sched) : sched :=
  match tag_find t (tags s) with
  | Some w => mkSched (del (w, t) (events s)) (tag_erase t (tags s))
  | None => s
  end.

(* un_schedule()  — cancel the earliest event *)
Definition un_schedule_first (s : sched) : sched :=
  match events s with
  | [] => s
  | e :: r => mkSched r (tag_erase (snd e) (tags s))
  end.

(* pop_tag(tag, default) *)
Definition pop_tag (t d : Z) (s : sched) : sched * Z :=
  match tag_find t (tags s) with
  | Some w => (mkSched (del (w, t) (events s)) (tag_erase t (tags s)), w)
  | None => (s, d)
  end.

Definition reset (s : sched) : sched := empty_sched.

(* advance(): drop events with time <= now, then re-arm at the next one *)
Fixpoint drop_due (now : Z) (evs : list ev) (tg : tagmap) : list ev * tagmap :=
  match evs with
  | [] => ([], tg)
  | e :: r =>
      if fst e <=? now
      then drop_due now r (if snd e =? 0 then tg else tag_erase (snd e) tg)
      else (evs, tg)
  end.

Definition advance (now : Z) (s : sched) : sched * option Z :=
  let '(evs, tg) := drop_due now (events s) (tags s) in
  (mkSched evs tg, match evs with [] => None | e :: _ => Some (fst e) end).

(* ---- operation sequences (used to state "every reachable state") ---- *)
(* An operation sequence issued by a node over successive cycles: each step
   carries the evaluation time it is issued at and whether the node is started. *)
Inductive sop :=
| SSchedule (now : Z) (started : bool) (when tag : Z)
| SUnschedTag (tag : Z)
| SUnschedFirst
| SPopTag (tag : Z)
| SReset
| SAdvance (now : Z).

Definition sstep (s : sched) (o : sop) : sched :=
  match o with
  | SSchedule now st w t => fst (schedule now st w t s)
  | SUnschedTag t => un_schedule_tag t s
  | SUnschedFirst => un_schedule_first s
  | SPopTag t => fst (pop_tag t MIN_DT s)
  | SReset => reset s
  | SAdvance now => fst (advance now s)
  end.

Definition reach (ops : list sop) : sched := fold_left sstep ops empty_sched.

