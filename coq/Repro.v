(* Repro.v — family "repro" (property C07: simulation runs are reproducible and
   isolated from each other).  Executable definitions only; proofs in ReproFacts.v.

   Three parts.

   1. The run of ONE program: the flat engine of Engine.v (mirror of graph.cpp /
      node.cpp / executor.cpp) extended with what a run owns besides its nodes'
      outputs and schedulers: the run's GlobalState (a copy of the builder's seed,
      read / written / counted / erased by user code), per-node State, and the
      fixed-shape companion graph (nested child with a stateful node, in-memory
      recorder writing into the GlobalState).  [run_prog : wire -> wire].

   2. The simulation clock of executor.cpp (SimulationExecutorStorage:
      evaluation_time, cycle_wall_start; advance_simulation; simulation_clock_now):
      a run loop that additionally consumes an arbitrary stream of wall-clock
      readings.  [xrun].  The readings feed only now() / cycle_time.

   3. The PROCESS: a heap of cells owned by builders (seed GlobalState) and
      executors (everything a run owns), the process-wide intern table, and the
      operations a process history is made of: new builder, write the builder's
      seed, make_executor, one engine cycle of some executor (any interleaving of
      cycles of different executors = executors running on different threads),
      interning of further types.  Generic in the run semantics ([init], [step]),
      instantiated with the engine in part 1.

   [run_repro : wire -> wire] is the correspondence entry point: the observation
   the driver cxx/repro_driver.cpp must print for a case, i.e. the trace of the
   main program replicated once per repetition of the plan, the traces of the
   noise programs in between. *)
Require Import Base Sched Engine.

(* =====================  GlobalState: a finite map Z -> Z, kept sorted by key  ===================== *)
Definition gsmap := list (Z * Z).

Fixpoint gs_get (k : Z) (m : gsmap) : option Z :=
  match m with
  | [] => None
  | (k', v) :: r => if k' =? k then Some v else gs_get k r
  end.

Fixpoint gs_set (k v : Z) (m : gsmap) : gsmap :=
  match m with
  | [] => [(k, v)]
  | (k', v') :: r =>
      if k =? k' then (k, v) :: r
      else if k <? k' then (k, v) :: (k', v') :: r
      else (k', v') :: gs_set k v r
  end.

Fixpoint gs_erase (k : Z) (m : gsmap) : gsmap :=
  match m with
  | [] => []
  | (k', v') :: r => if k' =? k then gs_erase k r else (k', v') :: gs_erase k r
  end.

Definition gs_mem (k : Z) (m : gsmap) : bool := match gs_get k m with Some _ => true | None => false end.
Definition gs_keys (m : gsmap) : list Z := map fst m.
Definition gs_or0 (k : Z) (m : gsmap) : Z := match gs_get k m with Some v => v | None => 0 end.

(* =====================  part 1: one program  ===================== *)

(* GlobalState operations of node i: lines  4 i mode key val  (performed in line order at every user-code run) *)
Definition gsops_of (sec : wire) (i : Z) : list (Z * Z * Z) :=
  flat_map (fun l => match l with
                     | 4 :: n :: mode :: key :: val :: _ => if n =? i then [(mode, key, val)] else []
                     | _ => [] end) sec.

(* node State: line  5 i add  (the last one wins) *)
Definition state_add_of (sec : wire) (i : Z) : option Z :=
  fold_left (fun acc l => match l with
                          | 5 :: n :: v :: _ => if n =? i then Some v else acc
                          | _ => acc end) sec None.

(* the builder's seed: lines  6 key val  in order *)
Definition seed_sets (sec : wire) : list (Z * Z) :=
  flat_map (fun l => match l with 6 :: k :: v :: _ => [(k, v)] | _ => [] end) sec.

Definition apply_sets (sets : list (Z * Z)) (m : gsmap) : gsmap :=
  fold_left (fun acc kv => gs_set (fst kv) (snd kv) acc) sets m.

Definition seed_of (sec : wire) : gsmap := apply_sets (seed_sets sec) [].

(* one GlobalState operation: new state, observation lines *)
Definition gs_step (i t : Z) (m : gsmap) (o : Z * Z * Z) : gsmap * wire :=
  let '(mode, key, val) := o in
  if mode =? 0 then (gs_set key (val + t) m, [[20; i; t; key; val + t]])
  else if mode =? 1 then (m, [[21; i; t; key; b2z (gs_mem key m); gs_or0 key m]])
  else if mode =? 2 then (gs_set key (gs_or0 key m + val) m, [[20; i; t; key; gs_or0 key m + val]])
  else if mode =? 3 then (gs_erase key m, [[22; i; t; key; b2z (gs_mem key m)]])
  else (m, []).

Fixpoint gs_steps (i t : Z) (m : gsmap) (os : list (Z * Z * Z)) : gsmap * wire :=
  match os with
  | [] => (m, [])
  | o :: r => let '(m1, l1) := gs_step i t m o in
              let '(m2, l2) := gs_steps i t m1 r in (m2, l1 ++ l2)
  end.

(* what a run owns besides the engine state: its GlobalState and its node States *)
Record wst := mkW { w_gs : gsmap; w_ns : gsmap }.

(* the State / GlobalState part of one user-code run of node i at t (directly after its 12-line) *)
Definition user_run (sec : wire) (i t : Z) (st : wst) : wst * wire :=
  let '(ns, l0) :=
    match state_add_of sec i with
    | Some a => let v := gs_or0 i (w_ns st) + a + t in (gs_set i v (w_ns st), [[23; i; t; v]])
    | None => (w_ns st, [])
    end in
  let '(m, l1) := gs_steps i t (w_gs st) (gsops_of sec i) in
  (mkW m ns, l0 ++ l1).

(* the trace of the engine, with the State / GlobalState observations woven in after each user-code run *)
Fixpoint weave (sec : wire) (tr : wire) (st : wst) : wire * wst :=
  match tr with
  | [] => ([], st)
  | l :: r =>
      match l with
      | 12 :: i :: t :: _ =>
          let '(st1, ls) := user_run sec i t st in
          let '(rest, stf) := weave sec r st1 in (l :: ls ++ rest, stf)
      | _ => let '(rest, stf) := weave sec r st in (l :: rest, stf)
      end
  end.

Definition dump (m : gsmap) : wire :=
  map (fun kv => [24; fst kv; snd kv]) m ++ [[25; Z.of_nat (length m)]].

(* a program run from a builder whose seed is [seed] *)
Definition run_prog_seeded (sec : wire) (seed : gsmap) : wire :=
  let '(tr, st) := weave sec (run_core0 sec) (mkW seed []) in
  tr ++ dump (w_gs st).

Definition run_prog (sec : wire) : wire := run_prog_seeded sec (seed_of sec).

(* ---- the companion graph:  7 bias (offset value)*  : source -> nested(acc += x + bias) -> sink + dense recorder ---- *)
Fixpoint pairs (l : list Z) : list (Z * Z) :=
  match l with a :: b :: r => (a, b) :: pairs r | _ => [] end.

Definition comp_of (sec : wire) : option (Z * list (Z * Z)) :=
  fold_left (fun acc l => match l with 7 :: bias :: r => Some (bias, pairs r) | _ => acc end) sec None.

(* emissions that fall inside the run window, with the accumulator after each: (t, x, acc, count) *)
Fixpoint comp_ticks (start end_ bias acc cnt : Z) (em : list (Z * Z)) : list (Z * Z * Z * Z) :=
  match em with
  | [] => []
  | (o, x) :: r =>
      if start + o <? end_ then
        (start + o, x, acc + x + bias, cnt + 1) :: comp_ticks start end_ bias (acc + x + bias) (cnt + 1) r
      else []     (* the source stops: the next wake-up is past the end *)
  end.

Definition run_comp (sec : wire) : wire :=
  match comp_of sec with
  | None => []
  | Some (bias, em) =>
      let '(s, e) := window sec in
      let ticks := comp_ticks s e bias 0 0 em in
      let cnt := Z.of_nat (length ticks) in
      let gs0 := seed_of sec in
      let gs1 := if cnt =? 0 then gs0 else gs_set 900 cnt gs0 in
      flat_map (fun q => let '(t, x, a, c) := q in [[30; t; x; a]; [31; t; a; c]]) ticks
      ++ map (fun q => let '(t, x, a, c) := q in [32; t - MIN_ST; 1; a]) ticks
      ++ [[33; match rev ticks with [] => 0 | (t, _, _, _) :: _ => t - MIN_ST + 1 end]]
      ++ (if cnt =? 0 then [] else [[24; -1; 0]])
      ++ map (fun kv => [24; fst kv; snd kv]) gs1
      ++ [[25; Z.of_nat (length gs1) + (if cnt =? 0 then 0 else 1)]]
  end.

(* =====================  the repetition plan  ===================== *)
Definition is_code (c : Z) (l : line) : bool := match l with x :: _ => x =? c | [] => false end.

(* sections of a case: the main program, then one per  8 j  line *)
Fixpoint sections_aux (w : wire) (cur : wire) : list wire :=
  match w with
  | [] => [rev cur]
  | l :: r => if is_code 8 l then rev cur :: sections_aux r [] else sections_aux r (l :: cur)
  end.
Definition sections (w : wire) : list wire := sections_aux w [].

Record plan := mkPlan { pl_R : Z; pl_F : Z; pl_T : Z; pl_flags : Z }.

Definition plan_of (w : wire) : plan :=
  fold_left (fun acc l => match l with
                          | 9 :: r :: f :: t :: _ :: fl :: _ => mkPlan r f t fl
                          | _ => acc end) w (mkPlan 2 1 0 0).

Inductive ev := EMain (phase : Z) | ENoise (idx : Z) | EComp (phase : Z).

Definition noise_ev (m : Z) (j : Z) : list ev := if m =? 0 then [] else [ENoise (1 + j mod m)].

(* thread j runs: 0 main, 1 noise, 2 companion, 3 main, 4 companion (else noise), 5 noise, 6 main, 7 companion;
   companion -> main when the case has none, noise -> main when there is no noise program *)
Definition thread_ev (m : Z) (comp : bool) (j : Z) : ev :=
  let r := j mod 8 in
  let noise := if m =? 0 then EMain 3 else ENoise (1 + (j / 2) mod m) in
  let compo := if comp then EComp 3 else EMain 3 in
  if (r =? 1) || (r =? 5) then noise
  else if (r =? 2) || (r =? 7) then compo
  else if r =? 4 then (if comp then EComp 3 else noise)
  else EMain 3.

Definition zrange (n : Z) : list Z := map Z.of_nat (seq 0 (Z.to_nat n)).

(* the order in which the driver prints the runs (cxx/repro_driver.cpp run_case) *)
Definition plan_events (p : plan) (m : Z) (comp : bool) : list ev :=
  let f_noise := Z.odd (pl_flags p) in
  let f_tfirst := Z.odd (pl_flags p / 16) in
  let nz j := if f_noise then noise_ev m j else [] in
  let sequential :=
    flat_map (fun r => EMain 1 :: nz r) (zrange (pl_R p))
    ++ flat_map (fun f => EMain 2 :: nz (pl_R p + f)) (zrange (pl_F p))
    ++ (if comp then [EComp 1] ++ nz 0 ++ [EComp 1] ++ nz 1 ++ [EComp 2] else []) in
  let threads := map (thread_ev m comp) (zrange (pl_T p)) in
  [EMain 0] ++ (if f_tfirst then threads ++ sequential else sequential ++ threads).

(* headers: 40 rep phase / 41 idx occurrence / 42 rep phase, numbered in print order *)
Fixpoint render (evs : list ev) (rep nz crep : Z) (main comp : wire) (noise : list wire) : wire :=
  match evs with
  | [] => []
  | EMain ph :: r => ([40; rep; ph] :: main) ++ render r (rep + 1) nz crep main comp noise
  | ENoise idx :: r => ([41; idx; nz] :: nth (Z.to_nat (idx - 1)) noise []) ++ render r rep (nz + 1) crep main comp noise
  | EComp ph :: r => ([42; crep; ph] :: comp) ++ render r rep nz (crep + 1) main comp noise
  end.

Definition run_repro (w : wire) : wire :=
  match sections w with
  | [] => []
  | mainsec :: noises =>
      let p := plan_of w in
      let m := Z.of_nat (length noises) in
      let has_comp := match comp_of mainsec with Some _ => true | None => false end in
      let main_tr := run_prog mainsec in
      let comp_tr := run_comp mainsec in
      let noise_tr := map run_prog noises in
      render (plan_events p m has_comp) 0 0 0 main_tr comp_tr noise_tr
  end.

(* =====================  part 2: the simulation clock  ===================== *)
(* executor.cpp: SimulationExecutorStorage holds evaluation_time and cycle_wall_start;
   advance_simulation -> set_evaluation_time(next) stores next and READS the wall clock;
   simulation_clock_now = evaluation_time + (wall - cycle_wall_start).  The wall clock is an
   arbitrary stream of readings [wall : nat -> Z] (the n-th reading). *)
Record xst := mkX { x_g : gst; x_cws : Z; x_reads : nat }.

Definition x_advance (wall : nat -> Z) (x : xst) (g' : gst) : xst :=
  mkX g' (wall (x_reads x)) (S (x_reads x)).

(* what evaluation_clock.now() would return if read at wall-clock reading number n *)
Definition x_now (wall : nat -> Z) (x : xst) (n : nat) : Z :=
  g_now (x_g x) + Z.max 0 (wall n - x_cws x).

Fixpoint xrun_loop (wall : nat -> Z) (cfgs : list ncfg) (beh : behaviour) (end_ : Z) (fuel : nat) (x : xst) : xst :=
  match fuel with
  | O => mkX (set_err 9 (x_g x)) (x_cws x) (x_reads x)
  | S f =>
      let g := x_g x in
      if negb (g_err g =? 0) then x else
      let next := g_nst g in
      if (next =? MAX_DT) || (end_ <=? next) then x else
      xrun_loop wall cfgs beh end_ f (x_advance wall x (evaluate_graph cfgs beh next g))
  end.

Definition xrun (wall : nat -> Z) (cfgs : list ncfg) (beh : behaviour) (start end_ : Z) (fuel : nat) : xst :=
  xrun_loop wall cfgs beh end_ fuel (mkX (start_graph cfgs beh start) (wall O) 1%nat).

(* =====================  part 3: the process  ===================== *)
(* the intern table (include/hgraph/types/utils/intern_table.h): lookup-or-append; an id is
   the position in the append-only storage vector *)
Fixpoint find_index (k : Z) (tbl : list Z) : option nat :=
  match tbl with
  | [] => None
  | x :: r => if x =? k then Some O else match find_index k r with Some i => Some (S i) | None => None end
  end.

Definition intern (k : Z) (tbl : list Z) : list Z * nat :=
  match find_index k tbl with
  | Some i => (tbl, i)
  | None => (tbl ++ [k], length tbl)
  end.

Fixpoint intern_all (ks : list Z) (tbl : list Z) : list Z * list nat :=
  match ks with
  | [] => (tbl, [])
  | k :: r => let '(t1, i) := intern k tbl in
              let '(t2, is_) := intern_all r t1 in (t2, i :: is_)
  end.

Definition resolve (tbl : list Z) (id : nat) : option Z := nth_error tbl id.

Fixpoint iter {A} (n : nat) (f : A -> A) (x : A) : A :=
  match n with O => x | S k => iter k f (f x) end.

Section Process.
  (* everything ONE run owns: node storage (outputs, schedulers, node State), its GlobalState
     (with the recorded buffers in it), its nested child graphs *)
  Variable rstate : Type.
  (* make_executor: fresh storage built from the recipe and a COPY of the builder's seed *)
  Variable init : wire -> gsmap -> rstate.
  (* one engine cycle of a run: a function of the recipe and of the run's OWN state *)
  Variable step : wire -> rstate -> rstate.
  (* the type keys a recipe interns when it is built *)
  Variable types_of : wire -> list Z.

  Inductive cell := CSeed (m : gsmap) | CRun (s : rstate).

  Record builder := mkB { b_recipe : wire; b_seed : nat }.        (* b_seed: heap location of the seed GlobalState *)

  Record exec := mkE {
    e_recipe : wire;
    e_loc : nat;                 (* heap location of the run's storage *)
    e_types : list nat;          (* ids of the interned types it was built with *)
    e_seed0 : gsmap;             (* ghost: the seed as it was when make_executor ran *)
    e_steps : nat }.             (* ghost: cycles made so far *)

  Record proc := mkP {
    p_heap : list cell;
    p_builders : list builder;
    p_execs : list exec;
    p_reg : list Z }.

  Definition empty_proc : proc := mkP [] [] [] [].

  Inductive pop :=
  | PNewBuilder (recipe : wire)
  | PSeed (b : nat) (key val : Z)
  | PBuild (b : nat)
  | PStep (k : nat)
  | PIntern (ty : Z).

  Definition bump (e : exec) : exec :=
    mkE (e_recipe e) (e_loc e) (e_types e) (e_seed0 e) (S (e_steps e)).

  Definition pstep (p : proc) (o : pop) : proc :=
    match o with
    | PNewBuilder recipe =>
        mkP (p_heap p ++ [CSeed []]) (p_builders p ++ [mkB recipe (length (p_heap p))]) (p_execs p) (p_reg p)
    | PSeed b key val =>
        match nth_error (p_builders p) b with
        | Some bd =>
            match nth_error (p_heap p) (b_seed bd) with
            | Some (CSeed m) => mkP (set_nth (b_seed bd) (CSeed (gs_set key val m)) (p_heap p)) (p_builders p) (p_execs p) (p_reg p)
            | _ => p
            end
        | None => p
        end
    | PBuild b =>
        match nth_error (p_builders p) b with
        | Some bd =>
            match nth_error (p_heap p) (b_seed bd) with
            | Some (CSeed m) =>
                let '(reg', ids) := intern_all (types_of (b_recipe bd)) (p_reg p) in
                mkP (p_heap p ++ [CRun (init (b_recipe bd) m)]) (p_builders p)
                    (p_execs p ++ [mkE (b_recipe bd) (length (p_heap p)) ids m O]) reg'
            | _ => p
            end
        | None => p
        end
    | PStep k =>
        match nth_error (p_execs p) k with
        | Some e =>
            match nth_error (p_heap p) (e_loc e) with
            | Some (CRun s) =>
                mkP (set_nth (e_loc e) (CRun (step (e_recipe e) s)) (p_heap p)) (p_builders p)
                    (update k bump (p_execs p)) (p_reg p)
            | _ => p
            end
        | None => p
        end
    | PIntern ty => mkP (p_heap p) (p_builders p) (p_execs p) (fst (intern ty (p_reg p)))
    end.

  Definition prun (ops : list pop) : proc := fold_left pstep ops empty_proc.

  (* the state of executor k *)
  Definition exec_state (p : proc) (k : nat) : option rstate :=
    match nth_error (p_execs p) k with
    | Some e => match nth_error (p_heap p) (e_loc e) with Some (CRun s) => Some s | _ => None end
    | None => None
    end.

  (* the same recipe run ALONE in a fresh process: one builder, its seed writes, one executor, n cycles *)
  Definition alone_ops (recipe : wire) (sets : list (Z * Z)) (n : nat) : list pop :=
    [PNewBuilder recipe] ++ map (fun kv => PSeed 0 (fst kv) (snd kv)) sets ++ [PBuild 0] ++ repeat (PStep 0) n.
End Process.

Arguments CSeed {rstate}.
Arguments CRun {rstate}.

(* ---- the process instantiated with the engine: a run owns the engine state and its seed copy ---- *)
Definition eng_finished (end_ : Z) (g : gst) : bool :=
  negb (g_err g =? 0) || (g_nst g =? MAX_DT) || (end_ <=? g_nst g).

(* one iteration of executor.cpp's run loop *)
Definition eng_cycle (cfgs : list ncfg) (beh : behaviour) (end_ : Z) (g : gst) : gst :=
  if eng_finished end_ g then g else evaluate_graph cfgs beh (g_nst g) g.

Definition eng_init (recipe : wire) (seed : gsmap) : gst * gsmap :=
  (start_graph (parse_cfgs recipe) (script_beh recipe) (fst (window recipe)), seed).

Definition eng_step (recipe : wire) (s : gst * gsmap) : gst * gsmap :=
  (eng_cycle (parse_cfgs recipe) (script_beh recipe) (snd (window recipe)) (fst s), snd s).

(* what is observed of a run: its trace with the State / GlobalState observations, and its GlobalState *)
Definition eng_obs (recipe : wire) (s : gst * gsmap) : wire :=
  let g := fst s in
  let core := rev (g_log g) ++ (if g_err g =? 0 then [] else [[19; g_err g]]) ++ final_lines (parse_cfgs recipe) g in
  let '(tr, st) := weave recipe core (mkW (snd s) []) in
  tr ++ dump (w_gs st).

Definition eng_types (recipe : wire) : list Z :=
  map (fun c => Z.of_nat (length (c_ins c))) (parse_cfgs recipe).
