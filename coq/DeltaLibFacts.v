(* DeltaLibFacts.v — the algebra of the sorted-list sets and maps of DeltaLib.v. *)
Require Import Base DeltaLib.
From Coq Require Import ZifyBool.

Lemma sorted_cons_inv x r : sorted (x :: r) -> sorted r /\ lb x r.
Proof.
  revert x; induction r as [|y r IH]; intros x H.
  - split; [exact I|]. intros z Hz; discriminate.
  - destruct H as [Hxy Hs]. split; [exact Hs|].
    intros z Hz. cbn [mem] in Hz. destruct (z =? y) eqn:E; [lia|].
    cbn [orb] in Hz. destruct (IH y Hs) as [_ Hlb]. specialize (Hlb z Hz). lia.
Qed.

Lemma sorted_cons x r : sorted r -> lb x r -> sorted (x :: r).
Proof.
  intros Hs Hlb. destruct r as [|y r]; [split; exact I|].
  split; [|exact Hs]. apply Hlb. cbn [mem]. rewrite Z.eqb_refl. reflexivity.
Qed.

Lemma mem_lb_false x l : lb x l -> forall k, k <= x -> mem k l = false.
Proof.
  intros Hlb k Hk. destruct (mem k l) eqn:E; [|reflexivity]. specialize (Hlb k E). lia.
Qed.

Lemma mem_ins k j l : mem j (ins k l) = (j =? k) || mem j l.
Proof.
  induction l as [|x r IH]; cbn [ins mem].
  - reflexivity.
  - destruct (k <? x) eqn:E1; cbn [mem]; [reflexivity|].
    destruct (k =? x) eqn:E2; cbn [mem].
    + apply Z.eqb_eq in E2; subst. destruct (j =? x); reflexivity.
    + rewrite IH. destruct (j =? x), (j =? k); reflexivity.
Qed.

Lemma sorted_ins k l : sorted l -> sorted (ins k l).
Proof.
  induction l as [|x r IH]; intros Hs; cbn [ins].
  - split; exact I.
  - destruct (k <? x) eqn:E1.
    + split; [lia|exact Hs].
    + destruct (k =? x) eqn:E2; [exact Hs|].
      destruct (sorted_cons_inv _ _ Hs) as [Hr Hlb].
      apply sorted_cons; [apply IH; exact Hr|].
      intros y Hy. rewrite mem_ins in Hy. destruct (y =? k) eqn:E; [lia|].
      cbn [orb] in Hy. apply Hlb; exact Hy.
Qed.

Ltac zb :=
  repeat match goal with
         | |- context [?a =? ?b] => destruct (Z.eqb_spec a b)
         | |- context [?a <? ?b] => destruct (Z.ltb_spec a b)
         | H : context [?a =? ?b] |- _ => destruct (Z.eqb_spec a b)
         end; try subst; try lia; try reflexivity; try discriminate; try congruence.

Lemma mem_del k j l : sorted l -> mem j (del k l) = negb (j =? k) && mem j l.
Proof.
  induction l as [|x r IH]; intros Hs; cbn [del mem].
  - rewrite andb_false_r. reflexivity.
  - destruct (sorted_cons_inv _ _ Hs) as [Hr Hlb].
    destruct (k =? x) eqn:Ekx.
    + apply Z.eqb_eq in Ekx; subst x.
      destruct (j =? k) eqn:Ejk; cbn [negb andb orb]; [|reflexivity].
      apply Z.eqb_eq in Ejk; subst j. apply mem_lb_false with (x := k); [exact Hlb|lia].
    + cbn [mem]. rewrite IH by exact Hr.
      destruct (j =? x) eqn:Ejx; cbn [orb]; [|reflexivity].
      apply Z.eqb_eq in Ejx; subst j. rewrite Z.eqb_sym, Ekx. reflexivity.
Qed.

Lemma lb_del x k l : lb x l -> sorted l -> lb x (del k l).
Proof.
  intros Hlb Hs y Hy. rewrite mem_del in Hy by exact Hs.
  apply andb_true_iff in Hy. apply Hlb; tauto.
Qed.

Lemma sorted_del k l : sorted l -> sorted (del k l).
Proof.
  induction l as [|x r IH]; intros Hs; cbn [del]; [exact I|].
  destruct (sorted_cons_inv _ _ Hs) as [Hr Hlb].
  destruct (k =? x); [exact Hr|].
  apply sorted_cons; [apply IH; exact Hr|apply lb_del; assumption].
Qed.

Lemma sorted_ext l1 l2 : sorted l1 -> sorted l2 -> (forall k, mem k l1 = mem k l2) -> l1 = l2.
Proof.
  revert l2; induction l1 as [|x r IH]; intros [|y s] H1 H2 He.
  - reflexivity.
  - specialize (He y). cbn [mem] in He. rewrite Z.eqb_refl in He. discriminate.
  - specialize (He x). cbn [mem] in He. rewrite Z.eqb_refl in He. discriminate.
  - destruct (sorted_cons_inv _ _ H1) as [Hr Hlbx]. destruct (sorted_cons_inv _ _ H2) as [Hs Hlby].
    assert (x = y) as Hxy.
    { pose proof (He x) as Hx. pose proof (He y) as Hy. cbn [mem] in Hx, Hy.
      rewrite Z.eqb_refl in Hx, Hy. cbn [orb] in Hx, Hy.
      destruct (x =? y) eqn:E; [lia|].
      rewrite Z.eqb_sym, E in Hy. cbn [orb] in Hx, Hy.
      symmetry in Hx. specialize (Hlby x Hx). specialize (Hlbx y Hy). lia. }
    subst y. f_equal. apply IH; [exact Hr|exact Hs|].
    intros k. specialize (He k). cbn [mem] in He.
    destruct (k =? x) eqn:E; [|exact He].
    apply Z.eqb_eq in E; subst k.
    rewrite (mem_lb_false x r Hlbx x), (mem_lb_false x s Hlby x) by lia. reflexivity.
Qed.

Lemma mem_In k l : mem k l = true <-> In k l.
Proof.
  induction l as [|x r IH]; cbn [mem In]; [split; [discriminate|tauto]|].
  rewrite orb_true_iff, IH. split; intros [H|H]; auto; left; lia.
Qed.

Section Maps.
  Context {A : Type}.
  Implicit Types (l r : list (Z * A)) (v w : A).

  Lemma has_mem k l : has k l = mem k (keys l).
  Proof.
    unfold has. induction l as [|[x v] r IH]; cbn [get keys map fst mem]; [reflexivity|].
    destruct (k =? x); [reflexivity|exact IH].
  Qed.

  Lemma get_put k j v l : get j (put k v l) = if j =? k then Some v else get j l.
  Proof.
    induction l as [|[x w] r IH]; cbn [put get].
    - reflexivity.
    - destruct (k <? x) eqn:E1; cbn [get]; [reflexivity|].
      destruct (k =? x) eqn:E2; cbn [get].
      + apply Z.eqb_eq in E2; subst x. destruct (j =? k); reflexivity.
      + rewrite IH. destruct (j =? x) eqn:E3; [|reflexivity].
        apply Z.eqb_eq in E3; subst j. rewrite Z.eqb_sym, E2. reflexivity.
  Qed.

  Lemma keys_put k v l : keys (put k v l) = ins k (keys l).
  Proof.
    induction l as [|[x w] r IH]; cbn [put keys map fst ins]; [reflexivity|].
    destruct (k <? x); [reflexivity|].
    destruct (k =? x) eqn:E; cbn [keys map fst].
    - apply Z.eqb_eq in E; subst x. reflexivity.
    - f_equal. exact IH.
  Qed.

  Lemma keys_drop k l : keys (drop k l) = del k (keys l).
  Proof.
    induction l as [|[x w] r IH]; cbn [drop keys map fst del]; [reflexivity|].
    destruct (k =? x); [reflexivity|]. cbn [keys map fst]. f_equal. exact IH.
  Qed.

  Lemma ksorted_put k v l : ksorted l -> ksorted (put k v l).
  Proof. unfold ksorted. rewrite keys_put. apply sorted_ins. Qed.

  Lemma ksorted_drop k l : ksorted l -> ksorted (drop k l).
  Proof. unfold ksorted. rewrite keys_drop. apply sorted_del. Qed.

  Lemma get_none_lb x l k : lb x (keys l) -> k <= x -> get k l = None.
  Proof.
    intros Hlb Hk. pose proof (mem_lb_false _ _ Hlb k Hk) as H. rewrite <- has_mem in H.
    unfold has in H. destruct (get k l); [discriminate|reflexivity].
  Qed.

  Lemma ksorted_tail x v r : ksorted ((x, v) :: r) -> ksorted r /\ lb x (keys r).
  Proof. unfold ksorted; cbn [keys map fst]. apply sorted_cons_inv. Qed.

  Lemma get_drop k j l : ksorted l -> get j (drop k l) = if j =? k then None else get j l.
  Proof.
    induction l as [|[x w] r IH]; intros Hs; cbn [drop get].
    - destruct (j =? k); reflexivity.
    - destruct (ksorted_tail _ _ _ Hs) as [Hr Hlb].
      destruct (k =? x) eqn:Ekx.
      + apply Z.eqb_eq in Ekx; subst x.
        destruct (j =? k) eqn:Ejk; [|reflexivity].
        apply Z.eqb_eq in Ejk; subst j. apply get_none_lb with (x := k); [exact Hlb|lia].
      + cbn [get]. rewrite IH by exact Hr.
        destruct (j =? x) eqn:Ejx; [|reflexivity].
        apply Z.eqb_eq in Ejx; subst j. rewrite Z.eqb_sym, Ekx. reflexivity.
  Qed.

  Lemma ksorted_ext l1 l2 : ksorted l1 -> ksorted l2 -> (forall k, get k l1 = get k l2) -> l1 = l2.
  Proof.
    revert l2; induction l1 as [|[x v] r IH]; intros [|[y w] s] H1 H2 He.
    - reflexivity.
    - specialize (He y). cbn [get] in He. rewrite Z.eqb_refl in He. discriminate.
    - specialize (He x). cbn [get] in He. rewrite Z.eqb_refl in He. discriminate.
    - destruct (ksorted_tail _ _ _ H1) as [Hr Hlbx]. destruct (ksorted_tail _ _ _ H2) as [Hs Hlby].
      assert (x = y) as Hxy.
      { pose proof (He x) as Hx. pose proof (He y) as Hy. cbn [get] in Hx, Hy.
        rewrite Z.eqb_refl in Hx, Hy.
        destruct (x =? y) eqn:E; [lia|].
        rewrite Z.eqb_sym, E in Hy.
        destruct (Z_lt_le_dec x y) as [Hlt|Hge].
        - rewrite (get_none_lb y s x Hlby) in Hx by lia. discriminate.
        - rewrite (get_none_lb x r y Hlbx) in Hy by lia. discriminate. }
      subst y.
      pose proof (He x) as Hx. cbn [get] in Hx. rewrite Z.eqb_refl in Hx. injection Hx as Hvw. subst w.
      f_equal. apply IH; [exact Hr|exact Hs|].
      intros k. specialize (He k). cbn [get] in He.
      destruct (k =? x) eqn:E; [|exact He].
      apply Z.eqb_eq in E; subst k.
      rewrite (get_none_lb x r x Hlbx), (get_none_lb x s x Hlby) by lia. reflexivity.
  Qed.

  Lemma get_In k v l : get k l = Some v -> In (k, v) l.
  Proof.
    induction l as [|[x w] r IH]; cbn [get In]; [discriminate|].
    destruct (k =? x) eqn:E.
    - apply Z.eqb_eq in E; subst x. intros H; injection H as H; subst w. left; reflexivity.
    - intros H; right; auto.
  Qed.

  Lemma In_get k v l : ksorted l -> In (k, v) l -> get k l = Some v.
  Proof.
    induction l as [|[x w] r IH]; intros Hs Hin; [destruct Hin|].
    destruct (ksorted_tail _ _ _ Hs) as [Hr Hlb]. cbn [get]. destruct Hin as [Heq|Hin].
    - injection Heq as Hx Hw. subst x w. rewrite Z.eqb_refl. reflexivity.
    - destruct (k =? x) eqn:E; [|apply IH; assumption].
      apply Z.eqb_eq in E; subst x.
      specialize (IH Hr Hin). rewrite (get_none_lb k r k Hlb) in IH by lia. discriminate.
  Qed.
End Maps.

