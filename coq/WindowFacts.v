(* WindowFacts.v — proofs about the tick-count window ring buffer of Window.v. *)
Require Import Base Window.
From Coq Require Import ZifyBool Arith.
Local Open Scope nat_scope.

Lemma set_nth_length' {A} i (v : A) l : length (set_nth i v l) = length l.
Proof. apply update_length. Qed.

Lemma nth_set_nth' {A} i j (v : A) l d :
  i < length l -> nth j (set_nth i v l) d = if j =? i then v else nth j l d.
Proof.
  intros L. unfold set_nth. destruct (Nat.eqb_spec j i) as [E|E].
  - subst. apply nth_update_same. exact L.
  - apply nth_update_other. auto.
Qed.

Lemma mod_lt2 a n : 0 < n -> a < 2 * n -> a mod n = if a <? n then a else a - n.
Proof.
  intros P H. destruct (Nat.ltb_spec a n) as [L|L].
  - apply Nat.mod_small. exact L.
  - symmetry. apply (Nat.mod_unique a n 1 (a - n)); lia.
Qed.

(* lastn *)
Lemma skipn_tl {A} m (l : list A) : tl (skipn m l) = skipn (S m) l.
Proof. revert l. induction m as [|m IH]; intros [|x r]; try reflexivity. apply (IH r). Qed.

Lemma lastn_short {A} n (l : list A) : length l <= n -> lastn n l = l.
Proof. intros H. unfold lastn. replace (length l - n) with 0 by lia. reflexivity. Qed.

Lemma lastn_length {A} n (l : list A) : length (lastn n l) = Nat.min (length l) n.
Proof. unfold lastn. rewrite skipn_length. lia. Qed.

Lemma lastn_snoc_full {A} n (l : list A) v : 0 < n -> n <= length l -> lastn n (l ++ [v]) = tl (lastn n l) ++ [v].
Proof.
  intros P H. unfold lastn. rewrite app_length. simpl.
  replace (length l + 1 - n) with (S (length l - n)) by lia.
  rewrite skipn_app. replace (S (length l - n) - length l) with 0 by lia. simpl.
  rewrite skipn_tl. reflexivity.
Qed.

Lemma lastn_snoc_short {A} n (l : list A) v : length l < n -> lastn n (l ++ [v]) = l ++ [v].
Proof. intros H. apply lastn_short. rewrite app_length. simpl. lia. Qed.

(* ------------------------------------------------------------------ the ring *)
(* [hist]: the values pushed since the last clear (or since construction) *)
Record WInv (w : win) (hist : list Z) : Prop := mkWInv {
  wi_n : 0 < w_n w;
  wi_buf : length (w_buf w) = w_n w;
  wi_size : w_size w = Nat.min (length hist) (w_n w);
  wi_head : w_head w < w_n w;
  wi_head0 : w_size w < w_n w -> w_head w = 0;
  wi_vals : w_values w = lastn (w_n w) hist
}.

Lemma winv_empty n m : 0 < n -> WInv (win_empty n m) [].
Proof.
  intros P. constructor; simpl; auto; try lia. apply repeat_length.
Qed.

Lemma map_seq_ext {A} (f g : nat -> A) n : (forall i, i < n -> f i = g i) -> map f (seq 0 n) = map g (seq 0 n).
Proof. intros H. apply map_ext_in. intros i Hi. apply in_seq in Hi. apply H. lia. Qed.

Lemma nth_map_seq {A} (f : nat -> A) a n i d : i < n -> nth i (map f (seq a n)) d = f (a + i).
Proof.
  intros H. rewrite (nth_indep _ d (f 0)) by (rewrite map_length, seq_length; exact H).
  rewrite map_nth. rewrite seq_nth by exact H. reflexivity.
Qed.

Lemma w_push_inv v t w hist : WInv w hist -> WInv (w_push v t w) (hist ++ [v]).
Proof.
  intros [P B S H H0 V]. unfold w_push.
  destruct (Nat.ltb_spec (w_size w) (w_n w)) as [L|L].
  - (* room left: append at (head + size) mod n, head = 0 *)
    specialize (H0 L).
    assert (LH : length hist = w_size w) by lia.
    assert (PH : phys w (w_size w) = w_size w).
    { unfold phys. rewrite H0. simpl. apply Nat.mod_small. exact L. }
    rewrite PH.
    constructor; cbn [w_n w_buf w_size w_head].
    + exact P.
    + rewrite set_nth_length'. exact B.
    + rewrite app_length. simpl. lia.
    + exact H.
    + intros _. exact H0.
    + rewrite lastn_snoc_short by lia.
      unfold w_values in *. cbn [w_size w_buf]. rewrite seq_S, map_app. simpl.
      rewrite lastn_short in V by lia. f_equal.
      * rewrite <- V. apply map_seq_ext. intros i Hi. unfold phys. cbn [w_head w_n]. rewrite H0. simpl.
        rewrite Nat.mod_small by lia. rewrite nth_set_nth' by lia.
        destruct (Nat.eqb_spec i (w_size w)); [lia|reflexivity].
      * unfold phys. cbn [w_head w_n]. rewrite H0. simpl. rewrite Nat.mod_small by lia.
        rewrite nth_set_nth' by lia. rewrite Nat.eqb_refl. reflexivity.
  - (* full: overwrite the oldest element, advance head *)
    assert (SZ : w_size w = w_n w) by lia.
    assert (LH : w_n w <= length hist) by lia.
    constructor; cbn [w_n w_buf w_size w_head].
    + exact P.
    + rewrite set_nth_length'. exact B.
    + rewrite app_length. simpl. lia.
    + apply Nat.mod_upper_bound. lia.
    + intros Q. lia.
    + rewrite lastn_snoc_full by lia. rewrite <- V.
      unfold w_values. cbn [w_size w_buf]. rewrite SZ.
      apply nth_ext with (d := 0%Z) (d' := 0%Z).
      * rewrite app_length, map_length, seq_length. simpl.
        assert (length (tl (map (fun i => nth (phys w i) (w_buf w) 0%Z) (seq 0 (w_n w)))) = w_n w - 1).
        { destruct (w_n w) eqn:E; [lia|]. simpl. rewrite map_length, seq_length. lia. }
        lia.
      * intros i Hi. rewrite map_length, seq_length in Hi.
        rewrite nth_map_seq by exact Hi. simpl (0 + i).
        unfold phys. cbn [w_head w_n].
        rewrite nth_set_nth' by lia.
        assert (E1 : ((w_head w + 1) mod w_n w + i) mod w_n w = (w_head w + 1 + i) mod w_n w).
        { apply Nat.add_mod_idemp_l. lia. }
        rewrite E1.
        assert (TL : tl (map (fun i0 => nth ((w_head w + i0) mod w_n w) (w_buf w) 0%Z) (seq 0 (w_n w)))
                     = map (fun i0 => nth ((w_head w + i0) mod w_n w) (w_buf w) 0%Z) (seq 1 (w_n w - 1))).
        { destruct (w_n w) eqn:E3; [lia|]. simpl. rewrite Nat.sub_0_r. reflexivity. }
        rewrite TL.
        destruct (Nat.eq_dec i (w_n w - 1)) as [E|E].
        -- (* the newest element sits where the oldest was *)
           rewrite (mod_lt2 (w_head w + 1 + i)) by lia.
           destruct (Nat.ltb_spec (w_head w + 1 + i) (w_n w)); [lia|].
           replace (w_head w + 1 + i - w_n w) with (w_head w) by lia. rewrite Nat.eqb_refl.
           rewrite app_nth2 by (rewrite map_length, seq_length; lia).
           rewrite map_length, seq_length. subst i. rewrite Nat.sub_diag. reflexivity.
        -- assert (NE : (w_head w + 1 + i) mod w_n w <> w_head w).
           { rewrite mod_lt2 by lia. destruct (Nat.ltb_spec (w_head w + 1 + i) (w_n w)); lia. }
           destruct (Nat.eqb_spec ((w_head w + 1 + i) mod w_n w) (w_head w)); [contradiction|].
           rewrite app_nth1 by (rewrite map_length, seq_length; lia).
           rewrite nth_map_seq by lia. f_equal. f_equal. lia.
Qed.

Lemma w_clear_inv t w hist : WInv w hist -> WInv (w_clear t w) [].
Proof.
  intros [P B S H H0 V]. constructor; cbn [w_n w_buf w_size w_head length]; auto; lia.
Qed.

Lemma w_mark_fields t w :
  w_n (w_mark t w) = w_n w /\ w_min (w_mark t w) = w_min w /\ w_buf (w_mark t w) = w_buf w /\
  w_head (w_mark t w) = w_head w /\ w_size (w_mark t w) = w_size w /\ w_values (w_mark t w) = w_values w.
Proof. unfold w_mark. destruct (t <=? w_lmt w)%Z; repeat split; reflexivity. Qed.

Lemma w_mark_inv t w hist : WInv w hist -> WInv (w_mark t w) hist.
Proof.
  intros [P B S H H0 V]. destruct (w_mark_fields t w) as [E1 [E2 [E3 [E4 [E5 E6]]]]].
  constructor; rewrite ?E1, ?E3, ?E4, ?E5, ?E6; auto.
Qed.

(* ------------------------------------------------------------------ the view-level protocol *)
(* reference: what a cycle's mutations mean for the list of values pushed since the last clear.
   One window tick per evaluation time; a clear may be followed by one push.  (ticked, cleared, hist) *)
Definition spec_wop (o : wop) (st : bool * bool * list Z) : bool * bool * list Z :=
  let '(ticked, cl, hist) := st in
  match o with
  | WPush v => if ticked && negb cl then st else (true, false, hist ++ [v])
  | WClear => if ticked then st else (true, true, [])
  | WNop => st
  end.
Definition spec_wcycle (ops : list wop) (hist : list Z) : bool * list Z :=
  let '(ticked, _, h) := fold_left (fun st o => spec_wop o st) ops (false, false, hist) in (ticked, h).
Fixpoint spec_whist (h : list (Z * list wop)) (hist : list Z) : list Z :=
  match h with
  | [] => hist
  | (_, ops) :: r => spec_whist r (snd (spec_wcycle ops hist))
  end.

Fixpoint wincreasing (t0 : Z) (h : list (Z * list wop)) : Prop :=
  match h with
  | [] => True
  | (t, _) :: r => (t0 < t)%Z /\ wincreasing t r
  end.

Lemma w_modified_iff t w : t <> MIN_DT -> (w_modified t w = true <-> w_lmt w = t).
Proof.
  intros NZ. unfold w_modified. destruct (Z.eqb_spec t MIN_DT); [contradiction|]. simpl. apply Z.eqb_eq.
Qed.

Lemma w_mark_lmt t w : (w_lmt w <= t)%Z -> w_lmt (w_mark t w) = t.
Proof. intros H. unfold w_mark. destruct (Z.leb_spec t (w_lmt w)); [lia|reflexivity]. Qed.

Lemma win_ops_inv t ops : t <> MIN_DT -> forall cl w ticked scl hist,
  WInv w hist -> (w_lmt w <= t)%Z -> (ticked = true <-> w_lmt w = t) -> (ticked = true -> scl = cl) ->
  let '(cl', w') := fold_left (fun st o => snd (win_op t o st)) ops (cl, w) in
  let '(ticked', scl', hist') := fold_left (fun st o => spec_wop o st) ops (ticked, scl, hist) in
  WInv w' hist' /\ (w_lmt w' <= t)%Z /\ (ticked' = true <-> w_lmt w' = t).
Proof.
  intros NZ. induction ops as [|o r IH]; intros cl w ticked scl hist I L T C; cbn [fold_left].
  - auto.
  - destruct o as [v| |]; cbn [win_op spec_wop snd].
    + destruct (w_modified t w && negb cl) eqn:M.
      * apply andb_true_iff in M. destruct M as [M1 M2].
        apply (w_modified_iff t w NZ) in M1. apply T in M1. subst ticked. rewrite (C eq_refl), M2. cbn [andb snd].
        apply IH; auto; tauto.
      * assert (E : ticked && negb scl = false).
        { destruct ticked; auto. rewrite (C eq_refl). cbn [andb].
          assert (w_modified t w = true) by (apply (w_modified_iff t w NZ); apply T; reflexivity).
          rewrite H in M. exact M. }
        rewrite E. cbn [snd]. apply IH.
        -- apply w_mark_inv. apply w_push_inv. exact I.
        -- rewrite w_mark_lmt; [lia|]. unfold w_push. destruct (w_size w <? w_n w); cbn [w_lmt]; exact L.
        -- split; [intros _|reflexivity]. apply w_mark_lmt. unfold w_push. destruct (w_size w <? w_n w); cbn [w_lmt]; exact L.
        -- reflexivity.
    + destruct (w_modified t w) eqn:M.
      * apply (w_modified_iff t w NZ) in M. apply T in M. subst ticked. cbn [snd]. apply IH; auto; tauto.
      * assert (E : ticked = false).
        { destruct ticked; auto. assert (w_modified t w = true) by (apply (w_modified_iff t w NZ); apply T; reflexivity). congruence. }
        rewrite E. cbn [snd]. apply IH.
        -- apply w_mark_inv. apply (w_clear_inv t w hist). exact I.
        -- rewrite w_mark_lmt; [lia|]. cbn [w_clear w_lmt]. exact L.
        -- split; [intros _|reflexivity]. apply w_mark_lmt. cbn [w_clear w_lmt]. exact L.
        -- reflexivity.
    + cbn [snd]. apply IH; auto.
Qed.

Lemma win_cycle_inv t ops w hist :
  WInv w hist -> (w_lmt w < t)%Z -> t <> MIN_DT ->
  WInv (win_cycle t ops w) (snd (spec_wcycle ops hist)) /\ (w_lmt (win_cycle t ops w) <= t)%Z /\
  (fst (spec_wcycle ops hist) = true <-> w_lmt (win_cycle t ops w) = t).
Proof.
  intros I L NZ. unfold win_cycle, spec_wcycle.
  pose proof (win_ops_inv t ops NZ false w false false hist I ltac:(lia)) as G.
  assert (T0 : false = true <-> w_lmt w = t) by (split; [discriminate|lia]).
  specialize (G T0 (fun _ => eq_refl)).
  destruct (fold_left (fun st o => snd (win_op t o st)) ops (false, w)) as [cl' w'].
  destruct (fold_left (fun st o => spec_wop o st) ops (false, false, hist)) as [[tk sc] h']. exact G.
Qed.

Lemma win_run_inv h : forall w hist t0,
  WInv w hist -> (w_lmt w <= t0)%Z -> (MIN_DT <= t0)%Z -> wincreasing t0 h ->
  WInv (fold_left (fun w c => win_cycle (fst c) (snd c) w) h w) (spec_whist h hist).
Proof.
  induction h as [|[t ops] r IH]; intros w hist t0 I L P W; cbn [fold_left spec_whist fst snd]; [exact I|].
  destruct W as [W1 W2].
  destruct (win_cycle_inv t ops w hist I ltac:(lia) ltac:(unfold MIN_DT in *; lia)) as [I1 [L1 _]].
  apply (IH _ _ t); auto. lia.
Qed.

Lemma win_cycle_n t ops w : w_n (win_cycle t ops w) = w_n w /\ w_min (win_cycle t ops w) = w_min w.
Proof.
  unfold win_cycle. generalize false as cl. revert w.
  induction ops as [|o q IHo]; intros w cl; cbn [fold_left snd]; auto.
  destruct o; cbn [win_op snd].
  - destruct (w_modified t w && negb cl); cbn [snd]; rewrite !(proj1 (IHo _ _)), !(proj2 (IHo _ _)); auto.
    destruct (w_mark_fields t (w_push v t w)) as [E [E2 _]]. rewrite E, E2. unfold w_push. destruct (w_size w <? w_n w); auto.
  - destruct (w_modified t w); cbn [snd]; rewrite !(proj1 (IHo _ _)), !(proj2 (IHo _ _)); auto.
    destruct (w_mark_fields t (w_clear t w)) as [E [E2 _]]. rewrite E, E2. auto.
  - apply IHo.
Qed.

Lemma win_fold_n h : forall w,
  w_n (fold_left (fun w c => win_cycle (fst c) (snd c) w) h w) = w_n w /\
  w_min (fold_left (fun w c => win_cycle (fst c) (snd c) w) h w) = w_min w.
Proof.
  induction h as [|[t ops] r IH]; intros w; cbn [fold_left fst snd]; auto.
  destruct (IH (win_cycle t ops w)) as [A B]. destruct (win_cycle_n t ops w) as [C D]. split; congruence.
Qed.

(* the facts stated in Props/C05.v *)
Lemma window_is_lastn_gen n m h :
  0 < n -> wincreasing MIN_DT h ->
  w_values (win_run n m h) = lastn n (spec_whist h []) /\
  w_size (win_run n m h) = Nat.min (length (spec_whist h [])) n /\
  w_min (win_run n m h) = m.
Proof.
  intros P W. unfold win_run.
  pose proof (win_run_inv h (win_empty n m) [] MIN_DT (winv_empty n m P) ltac:(simpl; lia) ltac:(lia) W) as I.
  destruct I as [I1 I2 I3 I4 I5 I6].
  destruct (win_fold_n h (win_empty n m)) as [N M]. cbn [win_empty w_n w_min] in N, M.
  rewrite N in *. auto.
Qed.

Lemma window_is_lastn_l : forall n m h, 0 < n -> wincreasing MIN_DT h ->
  w_values (win_run n m h) = lastn n (spec_whist h []).
Proof. intros n m h P W. exact (proj1 (window_is_lastn_gen n m h P W)). Qed.

Lemma window_valid_iff_l : forall n m h, 0 < n -> wincreasing MIN_DT h ->
  w_all_valid (win_run n m h) = (m <=? Nat.min (length (spec_whist h [])) n).
Proof.
  intros n m h P W. destruct (window_is_lastn_gen n m h P W) as [_ [S M]].
  unfold w_all_valid. rewrite S, M. reflexivity.
Qed.

(* validity only once the minimum count is reached: below min_period the window is not (all_)valid,
   from min_period on it is *)
Lemma window_valid_threshold_l : forall n m h, 0 < n -> m <= n -> wincreasing MIN_DT h ->
  (w_all_valid (win_run n m h) = true <-> m <= length (spec_whist h [])).
Proof.
  intros n m h P L W. rewrite (window_valid_iff_l n m h P W).
  destruct (Nat.leb_spec m (Nat.min (length (spec_whist h [])) n)); split; intros; try lia; try discriminate; auto.
Qed.
